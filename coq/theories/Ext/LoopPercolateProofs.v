(* C19 — proofs about the construction model of Ext/LoopPercolate.v *)
From Coq Require Import List Arith Bool Lia.
From SZ Require Import Ext.LoopPercolate.
Import ListNotations.

(* ------------------------------------------------------------------------------------------ *)
(* lists *)
Lemma set_nth_length {A} (l : list A) : forall i x, length (set_nth i x l) = length l.
Proof. induction l as [|h t IH]; intros [|i] x; simpl; auto. Qed.

Lemma nth_error_set_nth {A} (l : list A) : forall i x j,
  nth_error (set_nth i x l) j = if (Nat.eqb i j) && (i <? length l) then Some x else nth_error l j.
Proof.
  induction l as [|h t IH]; intros i x j.
  - destruct i; simpl; rewrite andb_false_r; reflexivity.
  - destruct i as [|i], j as [|j]; simpl; try reflexivity.
    rewrite IH. change (S i <? S (length t)) with (i <? length t). reflexivity.
Qed.

Lemma nth_error_set_nth_same {A} (l : list A) i x : i < length l -> nth_error (set_nth i x l) i = Some x.
Proof.
  intros H. rewrite nth_error_set_nth, Nat.eqb_refl. apply Nat.ltb_lt in H. rewrite H. reflexivity.
Qed.

Lemma nth_error_set_nth_other {A} (l : list A) i x j : i <> j -> nth_error (set_nth i x l) j = nth_error l j.
Proof. intros H. rewrite nth_error_set_nth. apply Nat.eqb_neq in H. rewrite H. reflexivity. Qed.

(* total accessors *)
Definition gnode (g : graph) (i : nat) : node := nth i g (mkNode None None [] []).
Definition gl g i := nloop (gnode g i).
Definition ga g i := nasync (gnode g i).
Definition gu g i := nups (gnode g i).
Definition gd g i := ndowns (gnode g i).

Lemma gnode_nth_error g i nd : nth_error g i = Some nd -> gnode g i = nd.
Proof. intros H. unfold gnode. apply nth_error_nth. exact H. Qed.

Lemma nth_error_gnode g i : i < length g -> nth_error g i = Some (gnode g i).
Proof. intros H. unfold gnode. apply nth_error_nth'. exact H. Qed.

Lemma gnode_out g i : length g <= i -> gnode g i = mkNode None None [] [].
Proof. intros H. unfold gnode. apply nth_overflow. exact H. Qed.

Lemma gnode_set_same g i x : i < length g -> gnode (set_nth i x g) i = x.
Proof. intros H. apply gnode_nth_error. apply nth_error_set_nth_same. exact H. Qed.

Lemma gnode_set_other g i x j : i <> j -> gnode (set_nth i x g) j = gnode g j.
Proof.
  intros H. unfold gnode.
  destruct (nth_error g j) as [nd|] eqn:E.
  - rewrite (nth_error_nth g j _ E).
    apply nth_error_nth. rewrite nth_error_set_nth_other; auto.
  - apply nth_error_None in E. rewrite !nth_overflow; auto. rewrite set_nth_length. exact E.
Qed.

(* ------------------------------------------------------------------------------------------ *)
(* the generic percolation *)
Section PercFacts.
  Variable A : Type.
  Variable aeqb : A -> A -> bool.
  Variable get : node -> option A.
  Variable put : A -> node -> node.
  Variable B : Type.
  Variable other : node -> B.
  Hypothesis aeqb_spec : forall a b, aeqb a b = true <-> a = b.
  Hypothesis get_put : forall v nd, get (put v nd) = Some v.
  Hypothesis ups_put : forall v nd, nups (put v nd) = nups nd.
  Hypothesis downs_put : forall v nd, ndowns (put v nd) = ndowns nd.
  Hypothesis other_put : forall v nd, other (put v nd) = other nd.
  Hypothesis get_default : get (mkNode None None [] []) = None.

  Definition gg (g : graph) (i : nat) : option A := get (gnode g i).
  Definition go (g : graph) (i : nat) : B := other (gnode g i).

  (* g' is g with some unset fields filled with v; nothing else differs *)
  Definition ext (v : A) (g g' : graph) : Prop :=
    length g' = length g /\
    forall i, gu g' i = gu g i /\ gd g' i = gd g i /\ go g' i = go g i /\
              (gg g' i = gg g i \/ (gg g i = None /\ gg g' i = Some v /\ i < length g)).

  Lemma ext_refl v g : ext v g g.
  Proof. split; auto. Qed.

  Lemma ext_trans v g1 g2 g3 : ext v g1 g2 -> ext v g2 g3 -> ext v g1 g3.
  Proof.
    intros [L1 H1] [L2 H2]. split; [congruence|]. intros i.
    destruct (H1 i) as (U1 & D1 & O1 & G1). destruct (H2 i) as (U2 & D2 & O2 & G2).
    repeat split; try congruence.
    destruct G1 as [G1|(G1a & G1b & G1c)], G2 as [G2|(G2a & G2b & G2c)].
    - left; congruence.
    - right. repeat split; try congruence; try lia.
    - right. repeat split; try congruence; try lia.
    - congruence.
  Qed.

  Lemma ext_set v g i nd : nth_error g i = Some nd -> get nd = None -> ext v g (set_nth i (put v nd) g).
  Proof.
    intros Hn Hg. assert (Hi : i < length g) by (apply nth_error_Some; congruence).
    split; [apply set_nth_length|]. intros j.
    destruct (Nat.eq_dec i j) as [<-|Hne].
    - unfold gu, gd, go, gg. rewrite gnode_set_same by exact Hi. rewrite (gnode_nth_error _ _ _ Hn).
      rewrite ups_put, downs_put, other_put, get_put. repeat split; auto.
    - unfold gu, gd, go, gg. rewrite gnode_set_other by exact Hne. repeat split; auto.
  Qed.

  (* a raise or a success only ever fills unset fields *)
  Lemma perc_ext : forall fuel g v st g',
    (perc A aeqb get put fuel g v st = Ok g' \/ perc A aeqb get put fuel g v st = Raise g') -> ext v g g'.
  Proof.
    induction fuel as [|f IH]; intros g v st g' H.
    - destruct st; simpl in H; destruct H as [H|H]; try discriminate. injection H as <-. apply ext_refl.
    - destruct st as [|i rest]; simpl in H.
      + destruct H as [H|H]; try discriminate. injection H as <-. apply ext_refl.
      + destruct (nth_error g i) as [nd|] eqn:En; [|apply IH in H; exact H].
        destruct (get nd) as [w|] eqn:Eg.
        * destruct (aeqb w v); [apply IH in H; exact H|].
          destruct H as [H|H]; try discriminate. injection H as <-. apply ext_refl.
        * apply IH in H. eapply ext_trans; [apply ext_set; eauto|exact H].
  Qed.

  (* after a successful percolation: every node of the stack carries v, and every node that was filled has
     all its neighbours carrying v *)
  Lemma perc_ok : forall fuel g v st g',
    perc A aeqb get put fuel g v st = Ok g' ->
    (forall i, In i st -> i < length g -> gg g' i = Some v) /\
    (forall x, gg g x = None -> gg g' x = Some v ->
       forall y, In y (gu g x ++ gd g x) -> y < length g -> gg g' y = Some v).
  Proof.
    induction fuel as [|f IH]; intros g v st g' H.
    - destruct st; simpl in H; try discriminate. injection H as <-. split.
      + intros i [].
      + intros x H1 H2. congruence.
    - destruct st as [|i rest]; simpl in H.
      + injection H as <-. split; [intros i []|]. intros x H1 H2. congruence.
      + destruct (nth_error g i) as [nd|] eqn:En.
        * assert (Hnd : gnode g i = nd) by (apply gnode_nth_error; exact En).
          assert (Hi : i < length g) by (apply nth_error_Some; congruence).
          destruct (get nd) as [w|] eqn:Eg.
          -- destruct (aeqb w v) eqn:Ew; [|discriminate].
             apply aeqb_spec in Ew. subst w.
             pose proof (perc_ext f g v rest g' (or_introl H)) as [_ Hx].
             destruct (IH _ _ _ _ H) as [IH1 IH2]. split; [|exact IH2].
             intros j [<-|Hj] Hlt; [|apply IH1; auto].
             destruct (Hx i) as (_ & _ & _ & [Hs|(Hs & _)]); unfold gg in *; rewrite Hnd in *; congruence.
          -- pose proof (perc_ext f _ v _ g' (or_introl H)) as [_ Hx].
             destruct (IH _ _ _ _ H) as [IH1 IH2].
             rewrite set_nth_length in IH1.
             assert (Hset : gg (set_nth i (put v nd) g) i = Some v).
             { unfold gg. rewrite gnode_set_same by exact Hi. apply get_put. }
             assert (Hi' : gg g' i = Some v).
             { destruct (Hx i) as (_ & _ & _ & [Hs|(Hs & _)]); congruence. }
             split.
             ++ intros j [<-|Hj] Hlt; [exact Hi'|]. apply IH1; auto. rewrite !in_app_iff. auto.
             ++ intros x Hx1 Hx2 y Hy Hlt.
                destruct (Nat.eq_dec i x) as [<-|Hne].
                ** apply IH1; auto. unfold gu, gd in Hy. rewrite Hnd in Hy.
                   rewrite !in_app_iff in *. tauto.
                ** apply (IH2 x); auto.
                   --- unfold gg. rewrite gnode_set_other by exact Hne. exact Hx1.
                   --- unfold gu, gd. rewrite gnode_set_other by exact Hne. exact Hy.
                   --- rewrite set_nth_length. exact Hlt.
        * destruct (IH _ _ _ _ H) as [IH1 IH2]. split; [|exact IH2].
          intros j [<-|Hj] Hlt; [|apply IH1; auto].
          apply nth_error_None in En. lia.
  Qed.

  (* fuel *)
  Definition wnone (g : graph) : nat :=
    fold_right (fun nd acc => (match get nd with None => S (length (nups nd) + length (ndowns nd)) | Some _ => 0 end) + acc) 0 g.

  Lemma wnone_le_weight g : wnone g <= weight g.
  Proof. induction g as [|nd g IH]; simpl; [lia|]. destruct (get nd); simpl; lia. Qed.

  Lemma wnone_set v : forall g i nd, nth_error g i = Some nd -> get nd = None ->
    wnone (set_nth i (put v nd) g) + S (length (nups nd) + length (ndowns nd)) = wnone g.
  Proof.
    induction g as [|h t IH]; intros [|i] nd Hn Hg; simpl in *; try discriminate.
    - injection Hn as ->. rewrite get_put, Hg. lia.
    - specialize (IH _ _ Hn Hg). lia.
  Qed.

  Lemma perc_fuel : forall fuel g v st, length st + wnone g <= fuel -> perc A aeqb get put fuel g v st <> OutOfFuel.
  Proof.
    induction fuel as [|f IH]; intros g v st Hle.
    - destruct st; simpl in *; [discriminate|lia].
    - destruct st as [|i rest]; simpl; [discriminate|]. simpl in Hle.
      destruct (nth_error g i) as [nd|] eqn:En; [|apply IH; lia].
      destruct (get nd) as [w|] eqn:Eg.
      + destruct (aeqb w v); [apply IH; lia|discriminate].
      + apply IH. pose proof (wnone_set v _ _ _ En Eg). rewrite !app_length. lia.
  Qed.

  Lemma inform_fuel g v ups : inform A aeqb get put g v ups <> OutOfFuel.
  Proof. unfold inform. apply perc_fuel. pose proof (wnone_le_weight g). lia. Qed.

  (* a stack member that already carries a different value makes the percolation raise *)
  Lemma inform_conflict g v ups u w :
    In u ups -> u < length g -> gg g u = Some w -> w <> v ->
    exists g', inform A aeqb get put g v ups = Raise g' /\ ext v g g'.
  Proof.
    intros Hin Hlt Hw Hne.
    destruct (inform A aeqb get put g v ups) as [g'|g'|] eqn:E.
    - exfalso. unfold inform in E.
      destruct (perc_ok _ _ _ _ _ E) as [H1 _]. specialize (H1 u Hin Hlt).
      destruct (perc_ext _ _ _ _ _ (or_introl E)) as [_ Hx].
      destruct (Hx u) as (_ & _ & _ & [Hs|(Hs & _)]); congruence.
    - exists g'. split; auto. unfold inform in E. eapply perc_ext. right. exact E.
    - exfalso. eapply inform_fuel. exact E.
  Qed.

  (* ... and does so without touching anything when it is the first thing looked at *)
  Lemma inform_conflict_head g v u rest w :
    u < length g -> gg g u = Some w -> w <> v -> inform A aeqb get put g v (u :: rest) = Raise g.
  Proof.
    intros Hlt Hw Hne. unfold inform. simpl length. rewrite Nat.add_comm. simpl.
    rewrite (nth_error_gnode g u Hlt). unfold gg in Hw. rewrite Hw.
    destruct (aeqb w v) eqn:E; [apply aeqb_spec in E; congruence|reflexivity].
  Qed.

  Lemma inform_nil g v : inform A aeqb get put g v [] = Ok g.
  Proof. unfold inform. rewrite Nat.add_1_r. reflexivity. Qed.
End PercFacts.
