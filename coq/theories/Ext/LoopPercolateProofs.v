(* C19 — proofs about the construction model of Ext/LoopPercolate.v *)
From Coq Require Import List Arith Bool Lia.
From SZ Require Import Ext.LoopPercolate.
Import ListNotations.

(* ------------------------------------------------------------------------------------------ *)
(* lists *)
Lemma set_nth_length {A} (l : list A) : forall i x, length (set_nth i x l) = length l.
Proof. induction l as [|h t IH]; intros [|i] x; simpl; auto. Qed.

Lemma nth_error_set_nth {A} (l : list A) : forall i x j,
  nth_error (set_nth i x l) j = if (Nat.eqb i j) && (i <? length l) then Some x else nth_error l j.
Proof.
  induction l as [|h t IH]; intros i x j.
  - destruct i; simpl; rewrite andb_false_r; reflexivity.
  - destruct i as [|i], j as [|j]; simpl; try reflexivity.
    rewrite IH. change (S i <? S (length t)) with (i <? length t). reflexivity.
Qed.

Lemma nth_error_set_nth_same {A} (l : list A) i x : i < length l -> nth_error (set_nth i x l) i = Some x.
Proof.
  intros H. rewrite nth_error_set_nth, Nat.eqb_refl. apply Nat.ltb_lt in H. rewrite H. reflexivity.
Qed.

Lemma nth_error_set_nth_other {A} (l : list A) i x j : i <> j -> nth_error (set_nth i x l) j = nth_error l j.
Proof. intros H. rewrite nth_error_set_nth. apply Nat.eqb_neq in H. rewrite H. reflexivity. Qed.

(* total accessors *)
Definition gnode (g : graph) (i : nat) : node := nth i g (mkNode None None [] []).
Definition gl g i := nloop (gnode g i).
Definition ga g i := nasync (gnode g i).
Definition gu g i := nups (gnode g i).
Definition gd g i := ndowns (gnode g i).

Lemma gnode_nth_error g i nd : nth_error g i = Some nd -> gnode g i = nd.
Proof. intros H. unfold gnode. apply nth_error_nth. exact H. Qed.

Lemma nth_error_gnode g i : i < length g -> nth_error g i = Some (gnode g i).
Proof. intros H. unfold gnode. apply nth_error_nth'. exact H. Qed.

Lemma gnode_out g i : length g <= i -> gnode g i = mkNode None None [] [].
Proof. intros H. unfold gnode. apply nth_overflow. exact H. Qed.

Lemma gnode_set_same g i x : i < length g -> gnode (set_nth i x g) i = x.
Proof. intros H. apply gnode_nth_error. apply nth_error_set_nth_same. exact H. Qed.

Lemma gnode_set_other g i x j : i <> j -> gnode (set_nth i x g) j = gnode g j.
Proof.
  intros H. unfold gnode.
  destruct (nth_error g j) as [nd|] eqn:E.
  - rewrite (nth_error_nth g j _ E).
    apply nth_error_nth. rewrite nth_error_set_nth_other; auto.
  - apply nth_error_None in E. rewrite !nth_overflow; auto. rewrite set_nth_length. exact E.
Qed.

(* ------------------------------------------------------------------------------------------ *)
(* the generic percolation *)
Section PercFacts.
  Variable A : Type.
  Variable aeqb : A -> A -> bool.
  Variable get : node -> option A.
  Variable put : A -> node -> node.
  Variable B : Type.
  Variable other : node -> B.
  Hypothesis aeqb_spec : forall a b, aeqb a b = true <-> a = b.
  Hypothesis get_put : forall v nd, get (put v nd) = Some v.
  Hypothesis ups_put : forall v nd, nups (put v nd) = nups nd.
  Hypothesis downs_put : forall v nd, ndowns (put v nd) = ndowns nd.
  Hypothesis other_put : forall v nd, other (put v nd) = other nd.
  Hypothesis get_default : get (mkNode None None [] []) = None.

  Definition gg (g : graph) (i : nat) : option A := get (gnode g i).
  Definition go (g : graph) (i : nat) : B := other (gnode g i).

  (* g' is g with some unset fields filled with v; nothing else differs *)
  Definition ext (v : A) (g g' : graph) : Prop :=
    length g' = length g /\
    forall i, gu g' i = gu g i /\ gd g' i = gd g i /\ go g' i = go g i /\
              (gg g' i = gg g i \/ (gg g i = None /\ gg g' i = Some v /\ i < length g)).

  Lemma ext_refl v g : ext v g g.
  Proof. split; auto. Qed.

  Lemma ext_trans v g1 g2 g3 : ext v g1 g2 -> ext v g2 g3 -> ext v g1 g3.
  Proof.
    intros [L1 H1] [L2 H2]. split; [congruence|]. intros i.
    destruct (H1 i) as (U1 & D1 & O1 & G1). destruct (H2 i) as (U2 & D2 & O2 & G2).
    repeat split; try congruence.
    destruct G1 as [G1|(G1a & G1b & G1c)], G2 as [G2|(G2a & G2b & G2c)].
    - left; congruence.
    - right. repeat split; try congruence; try lia.
    - right. repeat split; try congruence; try lia.
    - congruence.
  Qed.

  Lemma ext_set v g i nd : nth_error g i = Some nd -> get nd = None -> ext v g (set_nth i (put v nd) g).
  Proof.
    intros Hn Hg. assert (Hi : i < length g) by (apply nth_error_Some; congruence).
    split; [apply set_nth_length|]. intros j.
    destruct (Nat.eq_dec i j) as [<-|Hne].
    - unfold gu, gd, go, gg. rewrite gnode_set_same by exact Hi. rewrite (gnode_nth_error _ _ _ Hn).
      rewrite ups_put, downs_put, other_put, get_put. repeat split; auto.
    - unfold gu, gd, go, gg. rewrite gnode_set_other by exact Hne. repeat split; auto.
  Qed.

  (* a raise or a success only ever fills unset fields *)
  Lemma perc_ext : forall fuel g v st g',
    (perc A aeqb get put fuel g v st = Ok g' \/ perc A aeqb get put fuel g v st = Raise g') -> ext v g g'.
  Proof.
    induction fuel as [|f IH]; intros g v st g' H.
    - destruct st; simpl in H; destruct H as [H|H]; try discriminate. injection H as <-. apply ext_refl.
    - destruct st as [|i rest]; simpl in H.
      + destruct H as [H|H]; try discriminate. injection H as <-. apply ext_refl.
      + destruct (nth_error g i) as [nd|] eqn:En; [|apply IH in H; exact H].
        destruct (get nd) as [w|] eqn:Eg.
        * destruct (aeqb w v); [apply IH in H; exact H|].
          destruct H as [H|H]; try discriminate. injection H as <-. apply ext_refl.
        * apply IH in H. eapply ext_trans; [apply ext_set; eauto|exact H].
  Qed.

  (* after a successful percolation: every node of the stack carries v, and every node that was filled has
     all its neighbours carrying v *)
  Lemma perc_ok : forall fuel g v st g',
    perc A aeqb get put fuel g v st = Ok g' ->
    (forall i, In i st -> i < length g -> gg g' i = Some v) /\
    (forall x, gg g x = None -> gg g' x = Some v ->
       forall y, In y (gu g x ++ gd g x) -> y < length g -> gg g' y = Some v).
  Proof.
    induction fuel as [|f IH]; intros g v st g' H.
    - destruct st; simpl in H; try discriminate. injection H as <-. split.
      + intros i [].
      + intros x H1 H2. congruence.
    - destruct st as [|i rest]; simpl in H.
      + injection H as <-. split; [intros i []|]. intros x H1 H2. congruence.
      + destruct (nth_error g i) as [nd|] eqn:En.
        * assert (Hnd : gnode g i = nd) by (apply gnode_nth_error; exact En).
          assert (Hi : i < length g) by (apply nth_error_Some; congruence).
          destruct (get nd) as [w|] eqn:Eg.
          -- destruct (aeqb w v) eqn:Ew; [|discriminate].
             apply aeqb_spec in Ew. subst w.
             pose proof (perc_ext f g v rest g' (or_introl H)) as [_ Hx].
             destruct (IH _ _ _ _ H) as [IH1 IH2]. split; [|exact IH2].
             intros j [<-|Hj] Hlt; [|apply IH1; auto].
             destruct (Hx i) as (_ & _ & _ & [Hs|(Hs & _)]); unfold gg in *; rewrite Hnd in *; congruence.
          -- pose proof (perc_ext f _ v _ g' (or_introl H)) as [_ Hx].
             destruct (IH _ _ _ _ H) as [IH1 IH2].
             rewrite set_nth_length in IH1.
             assert (Hset : gg (set_nth i (put v nd) g) i = Some v).
             { unfold gg. rewrite gnode_set_same by exact Hi. apply get_put. }
             assert (Hi' : gg g' i = Some v).
             { destruct (Hx i) as (_ & _ & _ & [Hs|(Hs & _)]); congruence. }
             split.
             ++ intros j [<-|Hj] Hlt; [exact Hi'|]. apply IH1; auto. rewrite !in_app_iff. auto.
             ++ intros x Hx1 Hx2 y Hy Hlt.
                destruct (Nat.eq_dec i x) as [<-|Hne].
                ** apply IH1; auto. unfold gu, gd in Hy. rewrite Hnd in Hy.
                   rewrite !in_app_iff in *. tauto.
                ** apply (IH2 x); auto.
                   --- unfold gg. rewrite gnode_set_other by exact Hne. exact Hx1.
                   --- unfold gu, gd. rewrite gnode_set_other by exact Hne. exact Hy.
                   --- rewrite set_nth_length. exact Hlt.
        * destruct (IH _ _ _ _ H) as [IH1 IH2]. split; [|exact IH2].
          intros j [<-|Hj] Hlt; [|apply IH1; auto].
          apply nth_error_None in En. lia.
  Qed.

  (* fuel *)
  Definition wnone (g : graph) : nat :=
    fold_right (fun nd acc => (match get nd with None => S (length (nups nd) + length (ndowns nd)) | Some _ => 0 end) + acc) 0 g.

  Lemma wnone_le_weight g : wnone g <= weight g.
  Proof. induction g as [|nd g IH]; simpl; [lia|]. destruct (get nd); simpl; lia. Qed.

  Lemma wnone_set v : forall g i nd, nth_error g i = Some nd -> get nd = None ->
    wnone (set_nth i (put v nd) g) + S (length (nups nd) + length (ndowns nd)) = wnone g.
  Proof.
    induction g as [|h t IH]; intros [|i] nd Hn Hg; simpl in *; try discriminate.
    - injection Hn as ->. rewrite get_put, Hg. lia.
    - specialize (IH _ _ Hn Hg). lia.
  Qed.

  Lemma perc_fuel : forall fuel g v st, length st + wnone g <= fuel -> perc A aeqb get put fuel g v st <> OutOfFuel.
  Proof.
    induction fuel as [|f IH]; intros g v st Hle.
    - destruct st; simpl in *; [discriminate|lia].
    - destruct st as [|i rest]; simpl; [discriminate|]. simpl in Hle.
      destruct (nth_error g i) as [nd|] eqn:En; [|apply IH; lia].
      destruct (get nd) as [w|] eqn:Eg.
      + destruct (aeqb w v); [apply IH; lia|discriminate].
      + apply IH. pose proof (wnone_set v _ _ _ En Eg). rewrite !app_length. lia.
  Qed.

  Lemma inform_fuel g v ups : inform A aeqb get put g v ups <> OutOfFuel.
  Proof. unfold inform. apply perc_fuel. pose proof (wnone_le_weight g). lia. Qed.

  (* a stack member that already carries a different value makes the percolation raise *)
  Lemma inform_conflict g v ups u w :
    In u ups -> u < length g -> gg g u = Some w -> w <> v ->
    exists g', inform A aeqb get put g v ups = Raise g' /\ ext v g g'.
  Proof.
    intros Hin Hlt Hw Hne.
    destruct (inform A aeqb get put g v ups) as [g'|g'|] eqn:E.
    - exfalso. unfold inform in E.
      destruct (perc_ok _ _ _ _ _ E) as [H1 _]. specialize (H1 u Hin Hlt).
      destruct (perc_ext _ _ _ _ _ (or_introl E)) as [_ Hx].
      destruct (Hx u) as (_ & _ & _ & [Hs|(Hs & _)]); congruence.
    - exists g'. split; auto. unfold inform in E. eapply perc_ext. right. exact E.
    - exfalso. eapply inform_fuel. exact E.
  Qed.

  (* ... and does so without touching anything when it is the first thing looked at *)
  Lemma inform_conflict_head g v u rest w :
    u < length g -> gg g u = Some w -> w <> v -> inform A aeqb get put g v (u :: rest) = Raise g.
  Proof.
    intros Hlt Hw Hne. unfold inform. simpl length. rewrite Nat.add_comm. simpl.
    rewrite (nth_error_gnode g u Hlt). unfold gg in Hw. rewrite Hw.
    destruct (aeqb w v) eqn:E; [apply aeqb_spec in E; congruence|reflexivity].
  Qed.

  Lemma inform_nil g v : inform A aeqb get put g v [] = Ok g.
  Proof. unfold inform. rewrite Nat.add_1_r. reflexivity. Qed.
End PercFacts.

(* ------------------------------------------------------------------------------------------ *)
(* instances *)
Lemma loop_eqb_spec a b : loop_eqb a b = true <-> a = b.
Proof.
  destruct a, b; simpl; split; intros H; try discriminate; try reflexivity.
  - apply Nat.eqb_eq in H. congruence.
  - injection H as ->. apply Nat.eqb_refl.
Qed.

Lemma bool_eqb_spec (a b : bool) : Bool.eqb a b = true <-> a = b.
Proof. apply eqb_true_iff. Qed.

Definition extL (v : loop_id) (g g' : graph) : Prop :=
  length g' = length g /\
  forall i, gu g' i = gu g i /\ gd g' i = gd g i /\ ga g' i = ga g i /\
            (gl g' i = gl g i \/ (gl g i = None /\ gl g' i = Some v /\ i < length g)).
Definition extA (v : bool) (g g' : graph) : Prop :=
  length g' = length g /\
  forall i, gu g' i = gu g i /\ gd g' i = gd g i /\ gl g' i = gl g i /\
            (ga g' i = ga g i \/ (ga g i = None /\ ga g' i = Some v /\ i < length g)).

Lemma inform_loop_ext g v ups g' :
  inform_loop g v ups = Ok g' \/ inform_loop g v ups = Raise g' -> extL v g g'.
Proof.
  intros H. unfold inform_loop, inform in H.
  apply (perc_ext loop_id loop_eqb nloop put_loop (option bool) nasync) in H; auto.
Qed.

Lemma inform_async_ext g v ups g' :
  inform_async g v ups = Ok g' \/ inform_async g v ups = Raise g' -> extA v g g'.
Proof.
  intros H. unfold inform_async, inform in H.
  apply (perc_ext bool Bool.eqb nasync put_async (option loop_id) nloop) in H; auto.
Qed.

Lemma inform_loop_ok g v ups g' : inform_loop g v ups = Ok g' ->
  (forall i, In i ups -> i < length g -> gl g' i = Some v) /\
  (forall x, gl g x = None -> gl g' x = Some v ->
     forall y, In y (gu g x ++ gd g x) -> y < length g -> gl g' y = Some v).
Proof.
  intros H. unfold inform_loop, inform in H.
  apply (perc_ok loop_id loop_eqb nloop put_loop (option bool) nasync) in H; auto.
  apply loop_eqb_spec.
Qed.

Lemma inform_async_ok g v ups g' : inform_async g v ups = Ok g' ->
  (forall i, In i ups -> i < length g -> ga g' i = Some v) /\
  (forall x, ga g x = None -> ga g' x = Some v ->
     forall y, In y (gu g x ++ gd g x) -> y < length g -> ga g' y = Some v).
Proof.
  intros H. unfold inform_async, inform in H.
  apply (perc_ok bool Bool.eqb nasync put_async (option loop_id) nloop) in H; auto.
  apply bool_eqb_spec.
Qed.

Lemma inform_loop_fuel g v ups : inform_loop g v ups <> OutOfFuel.
Proof. apply inform_fuel. reflexivity. Qed.
Lemma inform_async_fuel g v ups : inform_async g v ups <> OutOfFuel.
Proof. apply inform_fuel. reflexivity. Qed.

(* ------------------------------------------------------------------------------------------ *)
(* fuel: `construct` never answers OutOfFuel *)
Lemma stage1_fuel c g r : stage1 c g r <> OutOfFuel.
Proof.
  unfold stage1. destruct (r_async r); [apply inform_async_fuel|].
  destruct (fix_join c); [|discriminate]. destruct (self_async1 g r); [apply inform_async_fuel|discriminate].
Qed.
Lemma stage2_fuel c g r : stage2 c g r <> OutOfFuel.
Proof.
  unfold stage2. destruct (r_loop r); [apply inform_loop_fuel|].
  destruct (fix_join c); [|discriminate]. destruct (self_loop2 g r); [apply inform_loop_fuel|discriminate].
Qed.
Lemma stage3_fuel f g r : stage3 f g r <> OutOfFuel.
Proof. unfold stage3. destruct f; [apply inform_async_fuel|discriminate]. Qed.
Lemma stage4_fuel c g r l a : stage4 c g r l a <> OutOfFuel.
Proof. unfold stage4. destruct l; [discriminate|]. destruct a; [apply inform_loop_fuel|discriminate]. Qed.

Theorem construct_fuel_enough c g r : construct c g r <> OutOfFuel.
Proof.
  unfold construct.
  pose proof (stage1_fuel c g r) as F1. destruct (stage1 c g r) as [g1| |]; simpl; try congruence.
  pose proof (stage2_fuel c g1 r) as F2. destruct (stage2 c g1 r) as [g2| |]; simpl; try congruence.
  set (fire := ensure_fires c r (self_async1 g r) (self_loop2 g1 r)).
  pose proof (stage3_fuel fire g2 r) as F3. destruct (stage3 fire g2 r) as [g3| |]; simpl; try congruence.
  match goal with |- context [stage4 ?c ?g ?r ?l ?a] =>
    pose proof (stage4_fuel c g r l a) as F4; destruct (stage4 c g r l a) end; simpl; congruence.
Qed.

(* ------------------------------------------------------------------------------------------ *)
(* first_loop / first_true *)
Lemma first_loop_none g ups : first_loop g ups = None -> forall u, In u ups -> u < length g -> gl g u = None.
Proof.
  induction ups as [|a ups IH]; simpl; intros H u Hin Hlt; [tauto|].
  destruct (nth_error g a) as [nd|] eqn:E.
  - destruct (nloop nd) eqn:El; [discriminate|].
    destruct Hin as [<-|Hin]; [|apply IH; auto].
    unfold gl. rewrite (gnode_nth_error _ _ _ E). exact El.
  - destruct Hin as [<-|Hin]; [|apply IH; auto]. apply nth_error_None in E. lia.
Qed.

Lemma first_loop_some g ups l : first_loop g ups = Some l -> exists u, In u ups /\ u < length g /\ gl g u = Some l.
Proof.
  induction ups as [|a ups IH]; simpl; intros H; [discriminate|].
  destruct (nth_error g a) as [nd|] eqn:E.
  - destruct (nloop nd) eqn:El.
    + injection H as <-. exists a. split; [auto|]. split; [apply nth_error_Some; congruence|].
      unfold gl. rewrite (gnode_nth_error _ _ _ E). exact El.
    + destruct (IH H) as (u & Hu & Hl & Hg). exists u. auto.
  - destruct (IH H) as (u & Hu & Hl & Hg). exists u. auto.
Qed.

Lemma first_true_cases g ups : first_true g ups = Some true \/ first_true g ups = None.
Proof. unfold first_true. destruct (existsb _ ups); auto. Qed.

Lemma first_true_none g ups : first_true g ups = None -> forall u, In u ups -> u < length g -> is_true (ga g u) = false.
Proof.
  unfold first_true. destruct (existsb _ ups) eqn:E; [discriminate|]. intros _ u Hin Hlt.
  rewrite <- not_true_iff_false in E. rewrite <- not_true_iff_false. intros Ht. apply E.
  apply existsb_exists. exists u. split; auto. rewrite (nth_error_gnode g u Hlt). exact Ht.
Qed.

Lemma first_true_some g ups : first_true g ups = Some true -> exists u, In u ups /\ u < length g /\ is_true (ga g u) = true.
Proof.
  unfold first_true. destruct (existsb _ ups) eqn:E; [|discriminate]. intros _.
  apply existsb_exists in E. destruct E as (u & Hin & Hu). exists u. split; auto.
  destruct (nth_error g u) as [nd|] eqn:En; [|discriminate].
  split; [apply nth_error_Some; congruence|]. unfold ga. rewrite (gnode_nth_error _ _ _ En). exact Hu.
Qed.

(* ------------------------------------------------------------------------------------------ *)
(* invariants of graphs built through the API *)
Definition W (g : graph) : Prop :=
  forall j u, j < length g -> In u (gu g j) -> u < j /\ In j (gd g u).
(* along every edge: same loop (set or unset alike), same asynchronous-vs-blocking mode *)
Definition Edge (g : graph) : Prop :=
  forall j u, j < length g -> In u (gu g j) -> gl g u = gl g j /\ is_true (ga g u) = is_true (ga g j).
Definition valid (g : graph) (r : request) : Prop := forall u, In u (r_ups r) -> u < length g.
Definition uniform_ups (g : graph) (r : request) : Prop :=
  forall u u', In u (r_ups r) -> In u' (r_ups r) -> gl g u = gl g u' /\ is_true (ga g u) = is_true (ga g u').
Definition join_ok (c : cfg) (g : graph) (r : request) : Prop := fix_join c = true \/ uniform_ups g r.

Lemma extL_W v g g' : extL v g g' -> W g -> W g'.
Proof.
  intros [L H] Hw j u Hj Hu. destruct (H j) as (Uj & _). destruct (H u) as (_ & Du & _).
  rewrite Uj in Hu. rewrite Du. apply Hw; auto. congruence.
Qed.
Lemma extA_W v g g' : extA v g g' -> W g -> W g'.
Proof.
  intros [L H] Hw j u Hj Hu. destruct (H j) as (Uj & _). destruct (H u) as (_ & Du & _).
  rewrite Uj in Hu. rewrite Du. apply Hw; auto. congruence.
Qed.

Lemma loop_stage_Edge g v ups g' : W g -> Edge g -> inform_loop g v ups = Ok g' -> Edge g'.
Proof.
  intros Hw He H. pose proof (inform_loop_ext _ _ _ _ (or_introl H)) as [L X].
  destruct (inform_loop_ok _ _ _ _ H) as [_ C].
  intros j u Hj Hu. rewrite L in Hj.
  destruct (X j) as (Uj & _ & Aj & Lj). destruct (X u) as (_ & _ & Au & Lu).
  rewrite Uj in Hu. destruct (Hw j u Hj Hu) as [Hlt Hd]. destruct (He j u Hj Hu) as [E1 E2].
  split; [|congruence].
  destruct Lu as [Lu|(Lu0 & Lu1 & _)].
  - destruct Lj as [Lj|(Lj0 & Lj1 & _)]; [congruence|].
    rewrite Lj1. apply (C j); auto; [apply in_or_app; auto|lia].
  - rewrite Lu1. symmetry. apply (C u); auto. apply in_or_app; auto.
Qed.

Lemma async_stage_Edge g v ups g' : W g -> Edge g -> inform_async g v ups = Ok g' -> Edge g'.
Proof.
  intros Hw He H. pose proof (inform_async_ext _ _ _ _ (or_introl H)) as [L X].
  destruct (inform_async_ok _ _ _ _ H) as [_ C].
  intros j u Hj Hu. rewrite L in Hj.
  destruct (X j) as (Uj & _ & Lj & Aj). destruct (X u) as (_ & _ & Lu & Au).
  rewrite Uj in Hu. destruct (Hw j u Hj Hu) as [Hlt Hd]. destruct (He j u Hj Hu) as [E1 E2].
  split; [congruence|].
  destruct Au as [Au|(Au0 & Au1 & _)].
  - destruct Aj as [Aj|(Aj0 & Aj1 & _)]; [congruence|].
    rewrite Aj1. rewrite (C j); auto; [apply in_or_app; auto|lia].
  - rewrite Au1. rewrite (C u); auto. apply in_or_app; auto.
Qed.

(* registering the new node with its upstreams *)
Lemma add_down_fields d nd : nloop (add_down d nd) = nloop nd /\ nasync (add_down d nd) = nasync nd /\
  nups (add_down d nd) = nups nd /\ (forall x, In x (ndowns nd) -> In x (ndowns (add_down d nd))) /\
  In d (ndowns (add_down d nd)) /\ (forall x, In x (ndowns (add_down d nd)) -> In x (ndowns nd) \/ x = d).
Proof.
  unfold add_down. destruct (existsb (Nat.eqb d) (ndowns nd)) eqn:E.
  - repeat split; auto. apply existsb_exists in E. destruct E as (x & Hx & Hd). apply Nat.eqb_eq in Hd. subst. exact Hx.
  - simpl. repeat split; auto; intros; rewrite ?in_app_iff in *; simpl in *; intuition auto.
Qed.

Lemma add_downs_spec d : forall ups g,
  length (add_downs ups d g) = length g /\
  forall i, gl (add_downs ups d g) i = gl g i /\ ga (add_downs ups d g) i = ga g i /\
            gu (add_downs ups d g) i = gu g i /\
            (forall x, In x (gd g i) -> In x (gd (add_downs ups d g) i)) /\
            (In i ups -> i < length g -> In d (gd (add_downs ups d g) i)).
Proof.
  induction ups as [|u ups IH]; intros g.
  - simpl. split; auto. intros i. repeat split; auto. intros [].
  - simpl. destruct (nth_error g u) as [nd|] eqn:E.
    + assert (Hu : u < length g) by (apply nth_error_Some; congruence).
      pose proof (gnode_nth_error _ _ _ E) as Hnd.
      destruct (IH (set_nth u (add_down d nd) g)) as [L X]. rewrite set_nth_length in L.
      split; [exact L|]. intros i. destruct (X i) as (X1 & X2 & X3 & X4 & X5).
      destruct (add_down_fields d nd) as (F1 & F2 & F3 & F4 & F5 & _).
      destruct (Nat.eq_dec u i) as [<-|Hne].
      * unfold gl, ga, gu, gd in *. rewrite gnode_set_same in * by exact Hu. rewrite Hnd.
        repeat split; try congruence.
        -- intros x Hx. apply X4. apply F4. exact Hx.
        -- intros _ _. apply X4. exact F5.
      * unfold gl, ga, gu, gd in *. rewrite gnode_set_other in * by exact Hne.
        repeat split; auto. intros [Hc|Hin] Hlt; [congruence|]. apply X5; auto. rewrite set_nth_length. exact Hlt.
    + destruct (IH g) as [L X]. split; [exact L|]. intros i. destruct (X i) as (X1 & X2 & X3 & X4 & X5).
      repeat split; auto. intros [<-|Hin] Hlt; [|auto]. apply nth_error_None in E. lia.
Qed.

Lemma gnode_app_l g nd i : i < length g -> gnode (g ++ [nd]) i = gnode g i.
Proof. intros H. unfold gnode. apply app_nth1. exact H. Qed.
Lemma gnode_app_new g nd : gnode (g ++ [nd]) (length g) = nd.
Proof. unfold gnode. rewrite app_nth2 by lia. rewrite Nat.sub_diag. reflexivity. Qed.

Lemma finish_inv g4 r l4 a3 :
  W g4 -> Edge g4 -> valid g4 r ->
  (forall u, In u (r_ups r) -> gl g4 u = l4 /\ is_true (ga g4 u) = is_true a3) ->
  W (finish g4 r l4 a3) /\ Edge (finish g4 r l4 a3).
Proof.
  intros Hw He Hv Hups. unfold finish.
  destruct (add_downs_spec (length g4) (r_ups r) g4) as [L X].
  set (g5 := add_downs (r_ups r) (length g4) g4) in *.
  set (nd := mkNode l4 a3 (r_ups r) []).
  split.
  - intros j u Hj Hu. rewrite app_length in Hj. simpl in Hj.
    destruct (Nat.eq_dec j (length g5)) as [->|Hne].
    + unfold gu in Hu. rewrite gnode_app_new in Hu. simpl in Hu.
      pose proof (Hv u Hu) as Hlt. split; [lia|].
      unfold gd. rewrite gnode_app_l by lia. destruct (X u) as (_ & _ & _ & _ & X5). rewrite L. apply X5; auto.
    + assert (Hj' : j < length g4) by lia.
      unfold gu in Hu. rewrite gnode_app_l in Hu by lia. destruct (X j) as (_ & _ & X3 & _).
      fold (gu g5 j) in Hu. rewrite X3 in Hu. destruct (Hw j u Hj' Hu) as [Hlt Hd].
      split; [exact Hlt|]. unfold gd. rewrite gnode_app_l by lia. destruct (X u) as (_ & _ & _ & X4 & _). apply X4. exact Hd.
  - intros j u Hj Hu. rewrite app_length in Hj. simpl in Hj.
    destruct (Nat.eq_dec j (length g5)) as [->|Hne].
    + unfold gu in Hu. rewrite gnode_app_new in Hu. simpl in Hu.
      pose proof (Hv u Hu) as Hlt. destruct (Hups u Hu) as [H1 H2].
      unfold gl, ga. rewrite gnode_app_new. rewrite gnode_app_l by lia. simpl.
      destruct (X u) as (X1 & X2 & _). unfold gl, ga in X1, X2. rewrite X1, X2. auto.
    + assert (Hj' : j < length g4) by lia.
      unfold gu in Hu. rewrite gnode_app_l in Hu by lia. destruct (X j) as (Xj1 & Xj2 & X3 & _).
      fold (gu g5 j) in Hu. rewrite X3 in Hu. destruct (Hw j u Hj' Hu) as [Hlt Hd].
      destruct (He j u Hj' Hu) as [E1 E2]. destruct (X u) as (Xu1 & Xu2 & _).
      unfold gl, ga in *. rewrite !gnode_app_l by lia. rewrite Xj1, Xj2, Xu1, Xu2. auto.
Qed.

(* ------------------------------------------------------------------------------------------ *)
(* one construction step preserves the invariants *)
Lemma construct_ok_stages c g r gf : construct c g r = Ok gf ->
  exists g1 g2 g3 g4,
    stage1 c g r = Ok g1 /\ stage2 c g1 r = Ok g2 /\
    stage3 (ensure_fires c r (self_async1 g r) (self_loop2 g1 r)) g2 r = Ok g3 /\
    stage4 c g3 r (self_loop2 g1 r)
           (self_async3 (ensure_fires c r (self_async1 g r) (self_loop2 g1 r)) (self_async1 g r)) = Ok g4 /\
    gf = finish g4 r (self_loop4 c (self_loop2 g1 r)
                        (self_async3 (ensure_fires c r (self_async1 g r) (self_loop2 g1 r)) (self_async1 g r)))
                (self_async3 (ensure_fires c r (self_async1 g r) (self_loop2 g1 r)) (self_async1 g r)).
Proof.
  unfold construct. intros H.
  destruct (stage1 c g r) as [g1| |] eqn:S1; cbn [bind] in H; try discriminate.
  destruct (stage2 c g1 r) as [g2| |] eqn:S2; cbn [bind] in H; try discriminate.
  destruct (stage3 _ g2 r) as [g3| |] eqn:S3; cbn [bind] in H; try discriminate.
  destruct (stage4 c g3 r _ _) as [g4| |] eqn:S4; cbn [bind] in H; try discriminate.
  injection H as <-. exists g1, g2, g3, g4. repeat split; assumption.
Qed.

Ltac keep_same := split; [assumption|]; split; [assumption|]; split; [reflexivity|]; split; [intros; reflexivity|].

Lemma stage1_facts c g r g1 :
  W g -> Edge g -> valid g r -> join_ok c g r -> stage1 c g r = Ok g1 ->
  W g1 /\ Edge g1 /\ length g1 = length g /\ (forall i, gl g1 i = gl g i) /\
  (forall u, In u (r_ups r) -> is_true (ga g1 u) = is_true (self_async1 g r)).
Proof.
  intros Hw He Hv Hj H. unfold stage1, self_async1 in *.
  destruct (r_async r) as [a|].
  - pose proof (inform_async_ext _ _ _ _ (or_introl H)) as X.
    destruct (inform_async_ok _ _ _ _ H) as [K _].
    split; [eapply extA_W; eauto|]. split; [eapply async_stage_Edge; eauto|].
    destruct X as [L X]. split; [exact L|]. split; [intros i; apply X|].
    intros u Hu. rewrite (K u Hu (Hv u Hu)). reflexivity.
  - destruct (fix_join c) eqn:Fj.
    + destruct (first_true_cases g (r_ups r)) as [Ft|Ft]; rewrite Ft in *.
      * pose proof (inform_async_ext _ _ _ _ (or_introl H)) as X.
        destruct (inform_async_ok _ _ _ _ H) as [K _].
        split; [eapply extA_W; eauto|]. split; [eapply async_stage_Edge; eauto|].
        destruct X as [L X]. split; [exact L|]. split; [intros i; apply X|].
        intros u Hu. rewrite (K u Hu (Hv u Hu)). reflexivity.
      * injection H as <-. keep_same. intros u Hu. simpl. apply first_true_none with (ups := r_ups r); auto.
    + injection H as <-. keep_same. intros u Hu.
      destruct Hj as [Hj|Hj]; [congruence|].
      destruct (first_true_cases g (r_ups r)) as [Ft|Ft]; rewrite Ft.
      * destruct (first_true_some _ _ Ft) as (u0 & Hu0 & _ & Ht). destruct (Hj u u0 Hu Hu0) as [_ E]. simpl. congruence.
      * simpl. apply first_true_none with (ups := r_ups r); auto.
Qed.

Lemma stage2_facts c g1 r g2 :
  W g1 -> Edge g1 -> valid g1 r ->
  (fix_join c = true \/ forall u u', In u (r_ups r) -> In u' (r_ups r) -> gl g1 u = gl g1 u') ->
  stage2 c g1 r = Ok g2 ->
  W g2 /\ Edge g2 /\ length g2 = length g1 /\ (forall i, ga g2 i = ga g1 i) /\
  (forall u, In u (r_ups r) -> gl g2 u = self_loop2 g1 r).
Proof.
  intros Hw He Hv Hj H. unfold stage2, self_loop2 in *.
  destruct (r_loop r) as [l|].
  - pose proof (inform_loop_ext _ _ _ _ (or_introl H)) as X.
    destruct (inform_loop_ok _ _ _ _ H) as [K _].
    split; [eapply extL_W; eauto|]. split; [eapply loop_stage_Edge; eauto|].
    destruct X as [L X]. split; [exact L|]. split; [intros i; apply X|].
    intros u Hu. apply K; auto.
  - destruct (fix_join c) eqn:Fj.
    + destruct (first_loop g1 (r_ups r)) as [l|] eqn:Fl.
      * pose proof (inform_loop_ext _ _ _ _ (or_introl H)) as X.
        destruct (inform_loop_ok _ _ _ _ H) as [K _].
        split; [eapply extL_W; eauto|]. split; [eapply loop_stage_Edge; eauto|].
        destruct X as [L X]. split; [exact L|]. split; [intros i; apply X|].
        intros u Hu. apply K; auto.
      * injection H as <-. keep_same. intros u Hu. apply first_loop_none with (ups := r_ups r); auto.
    + injection H as <-. keep_same. intros u Hu.
      destruct Hj as [Hj|Hj]; [congruence|].
      destruct (first_loop g1 (r_ups r)) as [l|] eqn:Fl.
      * destruct (first_loop_some _ _ _ Fl) as (u0 & Hu0 & _ & Hl). rewrite (Hj u u0 Hu Hu0). exact Hl.
      * apply first_loop_none with (ups := r_ups r); auto.
Qed.

Lemma stage3_facts fire g2 r g3 a1 :
  W g2 -> Edge g2 -> valid g2 r -> stage3 fire g2 r = Ok g3 ->
  (forall u, In u (r_ups r) -> is_true (ga g2 u) = is_true a1) ->
  W g3 /\ Edge g3 /\ length g3 = length g2 /\ (forall i, gl g3 i = gl g2 i) /\
  (forall u, In u (r_ups r) -> is_true (ga g3 u) = is_true (self_async3 fire a1)).
Proof.
  intros Hw He Hv H Ha. unfold stage3, self_async3 in *. destruct fire.
  - pose proof (inform_async_ext _ _ _ _ (or_introl H)) as X.
    destruct (inform_async_ok _ _ _ _ H) as [K _].
    split; [eapply extA_W; eauto|]. split; [eapply async_stage_Edge; eauto|].
    destruct X as [L X]. split; [exact L|]. split; [intros i; apply X|].
    intros u Hu. rewrite (K u Hu (Hv u Hu)). reflexivity.
  - injection H as <-. keep_same. exact Ha.
Qed.

Lemma stage4_facts c g3 r l2 a3 g4 :
  W g3 -> Edge g3 -> valid g3 r -> stage4 c g3 r l2 a3 = Ok g4 ->
  (forall u, In u (r_ups r) -> gl g3 u = l2) ->
  W g4 /\ Edge g4 /\ length g4 = length g3 /\ (forall i, ga g4 i = ga g3 i) /\
  (forall u, In u (r_ups r) -> gl g4 u = self_loop4 c l2 a3).
Proof.
  intros Hw He Hv H Hl. unfold stage4, self_loop4 in *.
  destruct l2 as [l|]; [injection H as <-; keep_same; auto|].
  destruct a3 as [a|]; [|injection H as <-; keep_same; auto].
  pose proof (inform_loop_ext _ _ _ _ (or_introl H)) as X.
  destruct (inform_loop_ok _ _ _ _ H) as [K _].
  split; [eapply extL_W; eauto|]. split; [eapply loop_stage_Edge; eauto|].
  destruct X as [L X]. split; [exact L|]. split; [intros i; apply X|].
  intros u Hu. apply K; auto.
Qed.

Theorem construct_inv c g r g' :
  W g -> Edge g -> valid g r -> join_ok c g r -> construct c g r = Ok g' -> W g' /\ Edge g'.
Proof.
  intros Hw He Hv Hj H.
  destruct (construct_ok_stages _ _ _ _ H) as (g1 & g2 & g3 & g4 & S1 & S2 & S3 & S4 & ->).
  destruct (stage1_facts _ _ _ _ Hw He Hv Hj S1) as (W1 & E1 & L1 & G1 & A1).
  assert (V1 : valid g1 r) by (intros u Hu; rewrite L1; auto).
  assert (J1 : fix_join c = true \/ forall u u', In u (r_ups r) -> In u' (r_ups r) -> gl g1 u = gl g1 u').
  { destruct Hj as [Hj|Hj]; [auto|]. right. intros u u' Hu Hu'. rewrite !G1. apply Hj; auto. }
  destruct (stage2_facts _ _ _ _ W1 E1 V1 J1 S2) as (W2 & E2 & L2 & G2 & A2).
  assert (V2 : valid g2 r) by (intros u Hu; rewrite L2; auto).
  assert (A1' : forall u, In u (r_ups r) -> is_true (ga g2 u) = is_true (self_async1 g r)).
  { intros u Hu. rewrite G2. auto. }
  destruct (stage3_facts _ _ _ _ _ W2 E2 V2 S3 A1') as (W3 & E3 & L3 & G3 & A3).
  assert (V3 : valid g3 r) by (intros u Hu; rewrite L3; auto).
  assert (A2' : forall u, In u (r_ups r) -> gl g3 u = self_loop2 g1 r).
  { intros u Hu. rewrite G3. auto. }
  destruct (stage4_facts _ _ _ _ _ _ W3 E3 V3 S4 A2') as (W4 & E4 & L4 & G4 & A4).
  assert (V4 : valid g4 r) by (intros u Hu; rewrite L4; auto).
  apply finish_inv; auto.
  intros u Hu. split; [apply A4; auto|]. rewrite G4. apply A3; auto.
Qed.

(* ------------------------------------------------------------------------------------------ *)
(* whole sessions *)
Inductive Built (c : cfg) : graph -> Prop :=
| Built_nil : Built c []
| Built_step g r g' : Built c g -> valid g r -> join_ok c g r -> construct c g r = Ok g' -> Built c g'.

(* the same, by recursion over the list of requests *)
Fixpoint Session (c : cfg) (g : graph) (rs : list request) (gf : graph) : Prop :=
  match rs with
  | [] => gf = g
  | r :: rs' => valid g r /\ join_ok c g r /\ exists g', construct c g r = Ok g' /\ Session c g' rs' gf
  end.

Lemma Session_Built c : forall rs g gf, Built c g -> Session c g rs gf -> Built c gf.
Proof.
  induction rs as [|r rs IH]; intros g gf Hb Hs; simpl in Hs.
  - subst. exact Hb.
  - destruct Hs as (Hv & Hj & g' & Hc & Hs). apply (IH g'); auto. eapply Built_step; eauto.
Qed.

Lemma Built_inv c g : Built c g -> W g /\ Edge g.
Proof.
  induction 1 as [|g r g' Hb [Hw He] Hv Hj Hc].
  - split; intros j u Hj; simpl in Hj; lia.
  - eapply construct_inv; eauto.
Qed.

(* requests with at most one upstream (the linear fluent API) never need the join side condition *)
Lemma single_upstream_join_ok c g r : length (r_ups r) <= 1 -> join_ok c g r.
Proof.
  intros H. right. intros u u' Hu Hu'. destruct (r_ups r) as [|x [|y t]]; simpl in *; try lia; try tauto.
  destruct Hu as [<-|[]], Hu' as [<-|[]]. auto.
Qed.

Inductive connected (g : graph) : nat -> nat -> Prop :=
| conn_refl i : connected g i i
| conn_up j u : j < length g -> In u (gu g j) -> connected g j u
| conn_down j u : j < length g -> In u (gu g j) -> connected g u j
| conn_trans i j k : connected g i j -> connected g j k -> connected g i k.

Theorem one_loop_strong c g i j :
  Built c g -> connected g i j -> gl g i = gl g j /\ is_true (ga g i) = is_true (ga g j).
Proof.
  intros Hb Hc. destruct (Built_inv _ _ Hb) as [_ He].
  induction Hc as [i|j u Hj Hu|j u Hj Hu|i j k _ [A1 A2] _ [B1 B2]].
  - auto.
  - destruct (He j u Hj Hu). auto.
  - destruct (He j u Hj Hu). auto.
  - split; congruence.
Qed.

Theorem one_loop c g i j la lb :
  Built c g -> connected g i j -> gl g i = Some la -> gl g j = Some lb -> la = lb.
Proof. intros Hb Hc Ha Hb'. destruct (one_loop_strong _ _ _ _ Hb Hc) as [E _]. congruence. Qed.

Theorem one_mode c g i j a b :
  Built c g -> connected g i j -> ga g i = Some a -> ga g j = Some b -> a = b.
Proof.
  intros Hb Hc Ha Hb'. destruct (one_loop_strong _ _ _ _ Hb Hc) as [_ E]. rewrite Ha, Hb' in E.
  destruct a, b; simpl in E; congruence.
Qed.

Theorem one_loop_sessions c rs g i j :
  Session c [] rs g -> connected g i j ->
  (forall la lb, gl g i = Some la -> gl g j = Some lb -> la = lb) /\
  (forall a b, ga g i = Some a -> ga g j = Some b -> a = b).
Proof.
  intros Hs Hc. pose proof (Session_Built c rs [] g (Built_nil c) Hs) as Hb. split; intros.
  - eapply one_loop; eauto.
  - eapply one_mode; eauto.
Qed.

(* ------------------------------------------------------------------------------------------ *)
(* a construction, successful or not, only ever FILLS unset fields of existing nodes *)
Definition fills (g g' : graph) : Prop :=
  length g' = length g /\
  forall i, gu g' i = gu g i /\ gd g' i = gd g i /\
            (gl g' i = gl g i \/ gl g i = None) /\ (ga g' i = ga g i \/ ga g i = None).

Lemma fills_refl g : fills g g.
Proof. split; auto. Qed.
Lemma fills_trans g1 g2 g3 : fills g1 g2 -> fills g2 g3 -> fills g1 g3.
Proof.
  intros [L1 H1] [L2 H2]. split; [congruence|]. intros i.
  destruct (H1 i) as (U1 & D1 & [A1|A1] & [B1|B1]), (H2 i) as (U2 & D2 & [A2|A2] & [B2|B2]);
    repeat split; try congruence; try (left; congruence); try (right; congruence).
Qed.
Lemma extL_fills v g g' : extL v g g' -> fills g g'.
Proof.
  intros [L H]. split; auto. intros i. destruct (H i) as (U & D & A & [E|(E & _)]); repeat split; auto; try (left; congruence).
Qed.
Lemma extA_fills v g g' : extA v g g' -> fills g g'.
Proof.
  intros [L H]. split; auto. intros i. destruct (H i) as (U & D & A & [E|(E & _)]); repeat split; auto; try (left; congruence).
Qed.

Lemma stage1_fills c g r g' : stage1 c g r = Ok g' \/ stage1 c g r = Raise g' ->
  fills g g' /\ forall i, gl g' i = gl g i.
Proof.
  unfold stage1. intros H.
  assert (K : forall a, inform_async g a (r_ups r) = Ok g' \/ inform_async g a (r_ups r) = Raise g' ->
                        fills g g' /\ forall i, gl g' i = gl g i).
  { intros a Ha. pose proof (inform_async_ext _ _ _ _ Ha) as X. split; [eapply extA_fills; eauto|].
    intros i. apply X. }
  destruct (r_async r); [eauto|]. destruct (fix_join c).
  - destruct (self_async1 g r); [eauto|]. destruct H as [H|H]; try discriminate. injection H as <-. split; auto using fills_refl.
  - destruct H as [H|H]; try discriminate. injection H as <-. split; auto using fills_refl.
Qed.

Lemma stage2_fills c g r g' : stage2 c g r = Ok g' \/ stage2 c g r = Raise g' -> fills g g'.
Proof.
  unfold stage2. intros H.
  assert (K : forall a, inform_loop g a (r_ups r) = Ok g' \/ inform_loop g a (r_ups r) = Raise g' -> fills g g').
  { intros a Ha. eapply extL_fills. eapply inform_loop_ext; eauto. }
  destruct (r_loop r); [eauto|]. destruct (fix_join c).
  - destruct (self_loop2 g r); [eauto|]. destruct H as [H|H]; try discriminate. injection H as <-. apply fills_refl.
  - destruct H as [H|H]; try discriminate. injection H as <-. apply fills_refl.
Qed.

Lemma stage3_fills f g r g' : stage3 f g r = Ok g' \/ stage3 f g r = Raise g' -> fills g g'.
Proof.
  unfold stage3. intros H. destruct f.
  - eapply extA_fills. eapply inform_async_ext; eauto.
  - destruct H as [H|H]; try discriminate. injection H as <-. apply fills_refl.
Qed.

Lemma stage4_fills c g r l a g' : stage4 c g r l a = Ok g' \/ stage4 c g r l a = Raise g' -> fills g g'.
Proof.
  unfold stage4. intros H. destruct l.
  - destruct H as [H|H]; try discriminate. injection H as <-. apply fills_refl.
  - destruct a.
    + eapply extL_fills. eapply inform_loop_ext; eauto.
    + destruct H as [H|H]; try discriminate. injection H as <-. apply fills_refl.
Qed.

Theorem construct_raise_fills c g r g' : construct c g r = Raise g' -> fills g g'.
Proof.
  unfold construct. intros H.
  destruct (stage1 c g r) as [g1|g1|] eqn:S1; cbn [bind] in H; try discriminate;
    [|injection H as <-; apply (stage1_fills c g r); auto].
  pose proof (proj1 (stage1_fills c g r g1 (or_introl S1))) as F1.
  destruct (stage2 c g1 r) as [g2|g2|] eqn:S2; cbn [bind] in H; try discriminate;
    [|injection H as <-; eapply fills_trans; [exact F1|eapply stage2_fills; eauto]].
  pose proof (stage2_fills c g1 r g2 (or_introl S2)) as F2.
  destruct (stage3 _ g2 r) as [g3|g3|] eqn:S3; cbn [bind] in H; try discriminate;
    [|injection H as <-; eapply fills_trans; [exact F1|]; eapply fills_trans; [exact F2|eapply stage3_fills; eauto]].
  pose proof (stage3_fills _ g2 r g3 (or_introl S3)) as F3.
  destruct (stage4 c g3 r _ _) as [g4|g4|] eqn:S4; cbn [bind] in H; try discriminate.
  injection H as <-. eapply fills_trans; [exact F1|]. eapply fills_trans; [exact F2|].
  eapply fills_trans; [exact F3|]. eapply stage4_fills; eauto.
Qed.

(* shape of a successful construction: the graph grows by exactly one node, whose fields are the self_* values *)
Lemma construct_ok_new c g r g' : construct c g r = Ok g' ->
  exists g1, stage1 c g r = Ok g1 /\ length g1 = length g /\ (forall i, gl g1 i = gl g i) /\
    length g' = S (length g) /\
    gnode g' (length g) =
      mkNode (self_loop4 c (self_loop2 g1 r)
                (self_async3 (ensure_fires c r (self_async1 g r) (self_loop2 g1 r)) (self_async1 g r)))
             (self_async3 (ensure_fires c r (self_async1 g r) (self_loop2 g1 r)) (self_async1 g r))
             (r_ups r) [].
Proof.
  intros H. destruct (construct_ok_stages _ _ _ _ H) as (g1 & g2 & g3 & g4 & S1 & S2 & S3 & S4 & ->).
  destruct (stage1_fills c g r g1 (or_introl S1)) as [[L1 _] G1].
  destruct (stage2_fills c g1 r g2 (or_introl S2)) as [L2 _].
  destruct (stage3_fills _ g2 r g3 (or_introl S3)) as [L3 _].
  destruct (stage4_fills _ g3 r _ _ g4 (or_introl S4)) as [L4 _].
  exists g1. split; [exact S1|]. split; [exact L1|]. split; [exact G1|].
  assert (L : length g4 = length g) by congruence.
  destruct (add_downs_spec (length g4) (r_ups r) g4) as [La _].
  unfold finish. split.
  - rewrite app_length, La. simpl. lia.
  - rewrite <- L. set (g5 := add_downs (r_ups r) (length g4) g4) in *. rewrite <- La. apply gnode_app_new.
Qed.

Lemma first_loop_congr g g' ups : length g' = length g -> (forall i, gl g' i = gl g i) ->
  first_loop g' ups = first_loop g ups.
Proof.
  intros L H. induction ups as [|u ups IH]; simpl; [reflexivity|]. rewrite IH.
  destruct (nth_error g u) as [nd|] eqn:E.
  - assert (Hu : u < length g) by (apply nth_error_Some; congruence).
    rewrite (nth_error_gnode g' u) by lia. specialize (H u). unfold gl in H.
    rewrite (gnode_nth_error _ _ _ E) in H. rewrite H. reflexivity.
  - apply nth_error_None in E. assert (E' : nth_error g' u = None) by (apply nth_error_None; lia).
    rewrite E'. reflexivity.
Qed.

(* ------------------------------------------------------------------------------------------ *)
(* the property's clauses, one construction step at a time (g is ANY graph: no invariant needed) *)

(* inherits: nothing explicit, some upstream has a loop -> the node is created, on that loop, asynchronous iff an
   upstream is (as found: nothing else is touched) *)
Theorem inherits c g r l :
  fix_join c = false -> r_async r = None -> r_loop r = None -> first_loop g (r_ups r) = Some l ->
  construct c g r = Ok (finish g r (Some l) (first_true g (r_ups r))).
Proof.
  intros Fj Ha Hl Fl. unfold construct, stage1, stage2, self_async1, self_loop2.
  rewrite Ha, Hl, Fj. cbn [bind]. rewrite Fl.
  unfold ensure_fires. cbn [is_none]. rewrite andb_false_r. cbn [andb stage3 self_async3 bind stage4 self_loop4].
  reflexivity.
Qed.

(* in any variant: if the node is created it is on the inherited loop, asynchronous iff an upstream is *)
Theorem inherits_any c g r l g' :
  r_async r = None -> r_loop r = None -> first_loop g (r_ups r) = Some l -> construct c g r = Ok g' ->
  gl g' (length g) = Some l /\ ga g' (length g) = first_true g (r_ups r).
Proof.
  intros Ha Hl Fl H. destruct (construct_ok_new _ _ _ _ H) as (g1 & S1 & L1 & G1 & L' & N).
  unfold gl, ga. rewrite N. cbn [nloop nasync].
  unfold self_loop2, self_async1. rewrite Ha, Hl. rewrite (first_loop_congr g g1 _ L1 G1), Fl.
  unfold ensure_fires. cbn [is_none]. rewrite andb_false_r. cbn [andb self_async3 self_loop4]. auto.
Qed.

Corollary inherits_single c g r u l g' :
  r_async r = None -> r_loop r = None -> r_ups r = [u] -> u < length g -> gl g u = Some l ->
  construct c g r = Ok g' ->
  gl g' (length g) = Some l /\ is_true (ga g' (length g)) = is_true (ga g u).
Proof.
  intros Ha Hl Hu Hlt Hg H.
  assert (Fl : first_loop g (r_ups r) = Some l).
  { rewrite Hu. simpl. rewrite (nth_error_gnode g u Hlt). unfold gl in Hg. rewrite Hg. reflexivity. }
  destruct (inherits_any _ _ _ _ _ Ha Hl Fl H) as [A B]. split; [exact A|]. rewrite B, Hu.
  unfold first_true. simpl. rewrite (nth_error_gnode g u Hlt). fold (ga g u). rewrite orb_false_r.
  destruct (is_true (ga g u)); reflexivity.
Qed.

(* conflict_raises *)
Theorem conflict_raises_loop c g r l u l' :
  r_loop r = Some l -> In u (r_ups r) -> u < length g -> gl g u = Some l' -> l' <> l ->
  exists g', construct c g r = Raise g' /\ fills g g'.
Proof.
  intros Hl Hu Hlt Hg Hne.
  destruct (construct c g r) as [g'|g'|] eqn:E.
  - exfalso. destruct (construct_ok_stages _ _ _ _ E) as (g1 & g2 & g3 & g4 & S1 & S2 & _).
    destruct (stage1_fills c g r g1 (or_introl S1)) as [[L1 _] G1].
    unfold stage2 in S2. rewrite Hl in S2.
    destruct (inform_loop_ok _ _ _ _ S2) as [K _]. specialize (K u Hu). rewrite L1 in K. specialize (K Hlt).
    destruct (inform_loop_ext _ _ _ _ (or_introl S2)) as [_ X].
    destruct (X u) as (_ & _ & _ & [Y|(Y & _)]); rewrite G1 in Y; congruence.
  - exists g'. split; auto. eapply construct_raise_fills; eauto.
  - exfalso. eapply construct_fuel_enough; eauto.
Qed.

Theorem conflict_raises_mode c g r a u a' :
  r_async r = Some a -> In u (r_ups r) -> u < length g -> ga g u = Some a' -> a' <> a ->
  exists g', construct c g r = Raise g' /\ fills g g'.
Proof.
  intros Ha Hu Hlt Hg Hne.
  destruct (construct c g r) as [g'|g'|] eqn:E.
  - exfalso. destruct (construct_ok_stages _ _ _ _ E) as (g1 & g2 & g3 & g4 & S1 & _).
    unfold stage1 in S1. rewrite Ha in S1.
    destruct (inform_async_ok _ _ _ _ S1) as [K _]. specialize (K u Hu Hlt).
    destruct (inform_async_ext _ _ _ _ (or_introl S1)) as [_ X].
    destruct (X u) as (_ & _ & _ & [Y|(Y & _)]); congruence.
  - exists g'. split; auto. eapply construct_raise_fills; eauto.
  - exfalso. eapply construct_fuel_enough; eauto.
Qed.

(* ... and when the conflicting node is the (first) upstream itself, nothing at all was touched *)
Theorem conflict_mode_unchanged c g r a u rest a' :
  r_async r = Some a -> r_ups r = u :: rest -> u < length g -> ga g u = Some a' -> a' <> a ->
  construct c g r = Raise g.
Proof.
  intros Ha Hu Hlt Hg Hne. unfold construct, stage1. rewrite Ha, Hu.
  unfold inform_async.
  rewrite (inform_conflict_head bool Bool.eqb nasync put_async bool_eqb_spec g a u rest a' Hlt Hg Hne).
  reflexivity.
Qed.

Theorem conflict_loop_unchanged c g r l u rest l' :
  fix_join c = false -> r_async r = None -> r_loop r = Some l -> r_ups r = u :: rest -> u < length g ->
  gl g u = Some l' -> l' <> l -> construct c g r = Raise g.
Proof.
  intros Fj Ha Hl Hu Hlt Hg Hne. unfold construct, stage1, stage2. rewrite Ha, Fj, Hl, Hu. cbn [bind].
  unfold inform_loop.
  rewrite (inform_conflict_head loop_id loop_eqb nloop put_loop loop_eqb_spec g l u rest l' Hlt Hg Hne).
  reflexivity.
Qed.

(* declared_async_on_current (repaired __init__): asynchronous=True, no explicit loop, no upstream loop:
   whenever the node is created it sits on the caller's loop and stays asynchronous — never the background loop *)
Theorem declared_async_on_current c g r g' :
  fix_init c = true -> r_async r = Some true -> r_loop r = None -> first_loop g (r_ups r) = None ->
  construct c g r = Ok g' ->
  gl g' (length g) = Some Current /\ ga g' (length g) = Some true.
Proof.
  intros Fi Ha Hl Fl H. destruct (construct_ok_new _ _ _ _ H) as (g1 & S1 & L1 & G1 & L' & N).
  unfold gl, ga. rewrite N. cbn [nloop nasync].
  unfold self_loop2, self_async1. rewrite Ha, Hl. rewrite (first_loop_congr g g1 _ L1 G1), Fl.
  unfold ensure_fires. rewrite Fi. cbn [is_none negb orb]. rewrite andb_false_r.
  cbn [self_async3 self_loop4 get_io_loop]. auto.
Qed.

(* a source (no upstreams) declared asynchronous: always created, on the caller's loop *)
Theorem declared_async_source c g a_ens :
  fix_init c = true ->
  construct c g (mkReq [] (Some true) None a_ens) = Ok (g ++ [mkNode (Some Current) (Some true) [] []]).
Proof.
  intros Fi. unfold construct, stage1, stage2, self_async1, self_loop2. cbn [r_async r_loop r_ups r_ensure].
  unfold inform_async, inform_loop. rewrite !inform_nil. cbn [bind first_loop fold_right].
  destruct (fix_join c); cbn [bind];
    unfold ensure_fires; rewrite Fi; cbn [r_ensure is_none negb orb]; rewrite andb_false_r;
    cbn [stage3 self_async3 bind stage4 self_loop4 get_io_loop r_ups];
    unfold inform_loop; rewrite inform_nil; cbn [bind]; reflexivity.
Qed.

(* fallback_background: needs a loop, nothing declared, nothing inherited *)
Theorem fallback_background c g r g' :
  r_ensure r = true -> r_async r = None -> r_loop r = None ->
  first_loop g (r_ups r) = None -> first_true g (r_ups r) = None ->
  construct c g r = Ok g' ->
  gl g' (length g) = Some (bg_loop c) /\ ga g' (length g) = Some false.
Proof.
  intros He Ha Hl Fl Ft H. destruct (construct_ok_new _ _ _ _ H) as (g1 & S1 & L1 & G1 & L' & N).
  unfold gl, ga. rewrite N. cbn [nloop nasync].
  unfold self_loop2, self_async1. rewrite Ha, Hl. rewrite (first_loop_congr g g1 _ L1 G1), Fl, Ft.
  unfold ensure_fires. rewrite He. cbn [is_none andb]. rewrite orb_true_r.
  cbn [self_async3 self_loop4 get_io_loop]. auto.
Qed.

Lemma inform_async_nil g v : inform_async g v [] = Ok g.
Proof. apply inform_nil. Qed.
Lemma inform_loop_nil g v : inform_loop g v [] = Ok g.
Proof. apply inform_nil. Qed.

Theorem fallback_background_source c g :
  construct c g (mkReq [] None None true) = Ok (g ++ [mkNode (Some (bg_loop c)) (Some false) [] []]).
Proof.
  unfold construct, stage1, stage2, self_async1, self_loop2. cbn [r_async r_loop r_ups r_ensure].
  cbn [first_true existsb first_loop fold_right].
  destruct (fix_join c); cbn [bind];
    unfold ensure_fires; cbn [r_ensure is_none andb]; rewrite orb_true_r;
    cbn [stage3 self_async3 bind stage4 self_loop4 get_io_loop r_ups];
    rewrite ?inform_async_nil; cbn [bind]; rewrite ?inform_loop_nil; cbn [bind]; reflexivity.
Qed.

(* ------------------------------------------------------------------------------------------ *)
(* refutations for the code AS FOUND *)

(* Source(asynchronous=True): created, but blocking and on the background loop *)
Theorem declared_async_on_current_refuted :
  exists g r, r_async r = Some true /\ r_loop r = None /\ first_loop g (r_ups r) = None /\
    exists g', construct as_found g r = Ok g' /\
               gl g' (length g) = Some Background /\ ga g' (length g) = Some false.
Proof.
  exists [], (mkReq [] (Some true) None true). repeat split.
  eexists. split; [vm_compute; reflexivity|]. vm_compute. auto.
Qed.

(* Stream().buffer(2, asynchronous=True): raises although nothing in the pipeline conflicts, and leaves the
   upstream marked asynchronous *)
Theorem declared_async_raises_refuted :
  exists g r, r_async r = Some true /\ r_loop r = None /\ first_loop g (r_ups r) = None /\
    (forall i, ga g i <> Some false) /\
    construct as_found g r = Raise [mkNode None (Some true) [] []].
Proof.
  exists [mkNode None None [] []], (mkReq [0] (Some true) None true). repeat split.
  intros [|[|i]]; vm_compute; discriminate.
Qed.

(* joining an asynchronous and a blocking pipeline (nothing explicit on the join) silently yields ONE connected
   pipeline on TWO loops; holds as found and with __init__ repaired: the side condition join_ok of one_loop is needed *)
Theorem one_loop_join_refuted : forall fi,
  exists rs g, build (mkCfg fi false false) [] rs = Some g /\ connected g 0 1 /\
    gl g 0 = Some Current /\ gl g 1 = Some Background /\ ga g 0 = Some true /\ ga g 1 = Some false.
Proof.
  intros fi.
  exists [mkReq [] (Some true) None false; mkReq [] (Some false) None false; mkReq [0; 1] None None false].
  eexists. split; [destruct fi; vm_compute; reflexivity|].
  split.
  - apply conn_trans with (j := 2); [apply conn_down|apply conn_up]; simpl; auto.
  - vm_compute. auto.
Qed.

(* with the join percolation the same session raises *)
Example join_fix_raises :
  build (mkCfg true true false) [] [mkReq [] (Some true) None false; mkReq [] (Some false) None false;
                                   mkReq [0; 1] None None false] = None.
Proof. vm_compute. reflexivity. Qed.

(* a loop-less upstream joined into a pipeline that has a loop stays loop-less (as found) *)
Example loopless_upstream_stays :
  exists g, build as_found [] [mkReq [] None None false; mkReq [] None None false; mkReq [1] None None true;
                               mkReq [0; 2] None None false] = Some g /\
            gl g 0 = None /\ gl g 3 = Some Background.
Proof. eexists. split; [vm_compute; reflexivity|]. vm_compute. auto. Qed.
