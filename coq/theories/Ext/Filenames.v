(* C17 — executable model of streamz.sources.filenames (pinned tree, sources.py:192-209).

     def __init__(self, path, ...):  self.seen = set()
     async def _run(self):
         filenames = set(glob(self.path))
         new = filenames - self.seen
         for fn in sorted(new):
             self.seen.add(fn)
             await asyncio.gather( *self._emit(fn))
         await asyncio.sleep(self.poll_interval)

   A directory snapshot is the list of matching names in any order (possibly with repetitions: it is turned
   into a set).  Names are ASCII strings; Python orders str by code point, here `name_ltb`.
   Only definitions; proofs in FilenamesProofs.v. *)
From Coq Require Import List Ascii Bool Arith.
From SZ Require Import Ext.TextFile.
Import ListNotations.

Definition name := list ascii.

(* Python's `<` on (ASCII) str: lexicographic by code point, a proper prefix is smaller *)
Fixpoint name_ltb (a b : name) : bool :=
  match a, b with
  | _, [] => false
  | [], _ :: _ => true
  | x :: a', y :: b' =>
      if nat_of_ascii x <? nat_of_ascii y then true
      else if nat_of_ascii y <? nat_of_ascii x then false
      else name_ltb a' b'
  end.
Definition name_leb (a b : name) : bool := negb (name_ltb b a).

Fixpoint insert (x : name) (l : list name) : list name :=
  match l with
  | [] => [x]
  | y :: t => if name_leb x y then x :: l else y :: insert x t
  end.
Fixpoint isort (l : list name) : list name :=
  match l with
  | [] => []
  | x :: t => insert x (isort t)
  end.

Definition memb (x : name) (l : list name) : bool := existsb (text_eqb x) l.
(* set(...) : drop repetitions *)
Fixpoint dedup (l : list name) : list name :=
  match l with
  | [] => []
  | x :: t => if memb x t then dedup t else x :: dedup t
  end.

(* one execution of _run: (seen', emitted in order) *)
Definition fpoll (seen snap : list name) : list name * list name :=
  let new := filter (fun n => negb (memb n seen)) (dedup snap) in
  let out := isort new in
  (seen ++ out, out).

Fixpoint frun (seen : list name) (snaps : list (list name)) : list (list name) :=
  match snaps with
  | [] => []
  | s :: t => let '(seen', out) := fpoll seen s in out :: frun seen' t
  end.

Record fn_case := { fc_snaps : list (list name); fc_obs : list (list name) }.
Definition fn_agree (c : fn_case) : bool := list_eqb (list_eqb text_eqb) (frun [] (fc_snaps c)) (fc_obs c).
Definition fn_mismatches (l : list fn_case) : list nat := mism_from fn_agree 0 l.
