(* C17 — proofs about the filenames model (Ext/Filenames.v). *)
From Coq Require Import List Ascii Bool Arith Lia Sorting.Sorted Sorting.Permutation.
From SZ Require Import Ext.TextFile.
From SZ Require Import Ext.Filenames.
Import ListNotations.

Definition name_lt (a b : name) : Prop := name_ltb a b = true.
Definition name_le (a b : name) : Prop := name_leb a b = true.

(* ------------------------------------------------------------------ equality test *)
Lemma text_eqb_eq : forall a b, text_eqb a b = true <-> a = b.
Proof.
  induction a as [|x a IH]; destruct b as [|y b]; cbn [text_eqb]; try (split; [discriminate|discriminate]); [tauto|].
  rewrite andb_true_iff, Ascii.eqb_eq, IH. split; [intros [-> ->]; reflexivity | intros H; injection H; auto].
Qed.

Lemma memb_In x l : memb x l = true <-> In x l.
Proof.
  unfold memb. rewrite existsb_exists. split.
  - intros [y [Hy E]]. apply text_eqb_eq in E. now subst.
  - intros H. exists x. split; auto. now apply text_eqb_eq.
Qed.

Lemma In_dec_name (x : name) l : In x l \/ ~ In x l.
Proof. destruct (memb x l) eqn:E; [left; now apply memb_In | right; intros H; apply memb_In in H; congruence]. Qed.

(* ------------------------------------------------------------------ the order is a strict total order *)
Lemma nat_of_ascii_inj x y : nat_of_ascii x = nat_of_ascii y -> x = y.
Proof. intros H. rewrite <- (ascii_nat_embedding x), <- (ascii_nat_embedding y). now rewrite H. Qed.

Lemma ltb_irrefl : forall a, name_ltb a a = false.
Proof. induction a as [|x a IH]; cbn [name_ltb]; auto. now rewrite Nat.ltb_irrefl. Qed.

Lemma ltb_trans : forall a b c, name_ltb a b = true -> name_ltb b c = true -> name_ltb a c = true.
Proof.
  induction a as [|x a IH]; intros [|y b] [|z c]; cbn [name_ltb]; try discriminate; auto.
  destruct (Nat.ltb_spec (nat_of_ascii x) (nat_of_ascii y)), (Nat.ltb_spec (nat_of_ascii y) (nat_of_ascii x)),
           (Nat.ltb_spec (nat_of_ascii y) (nat_of_ascii z)), (Nat.ltb_spec (nat_of_ascii z) (nat_of_ascii y)),
           (Nat.ltb_spec (nat_of_ascii x) (nat_of_ascii z)), (Nat.ltb_spec (nat_of_ascii z) (nat_of_ascii x));
    try discriminate; try lia; auto.
  apply IH.
Qed.

Lemma ltb_trich : forall a b, name_ltb a b = false -> name_ltb b a = false -> a = b.
Proof.
  induction a as [|x a IH]; intros [|y b]; cbn [name_ltb]; try discriminate; auto.
  destruct (Nat.ltb_spec (nat_of_ascii x) (nat_of_ascii y)), (Nat.ltb_spec (nat_of_ascii y) (nat_of_ascii x));
    try discriminate; try lia.
  intros H1 H2. f_equal; [apply nat_of_ascii_inj; lia | now apply IH].
Qed.

Lemma ltb_asym a b : name_ltb a b = true -> name_ltb b a = false.
Proof.
  intros H. destruct (name_ltb b a) eqn:E; auto.
  pose proof (ltb_trans _ _ _ H E) as T. rewrite ltb_irrefl in T. discriminate.
Qed.

Lemma leb_total a b : name_leb a b = false -> name_leb b a = true.
Proof.
  unfold name_leb. intros H. apply negb_false_iff in H. now rewrite (ltb_asym _ _ H).
Qed.

Lemma leb_trans a b c : name_leb a b = true -> name_leb b c = true -> name_leb a c = true.
Proof.
  unfold name_leb. rewrite !negb_true_iff. intros H1 H2.
  destruct (name_ltb c a) eqn:E; auto.
  destruct (name_ltb b c) eqn:F.
  - pose proof (ltb_trans _ _ _ F E). congruence.
  - pose proof (ltb_trich _ _ F H2). subst. congruence.
Qed.

Lemma le_neq_lt a b : name_leb a b = true -> a <> b -> name_ltb a b = true.
Proof.
  unfold name_leb. rewrite negb_true_iff. intros H N.
  destruct (name_ltb a b) eqn:E; auto. exfalso. apply N. now apply ltb_trich.
Qed.

(* ------------------------------------------------------------------ insertion sort *)
Lemma insert_perm x l : Permutation (x :: l) (insert x l).
Proof.
  induction l as [|y t IH]; cbn [insert]; auto.
  destruct (name_leb x y); auto. rewrite perm_swap. now constructor.
Qed.

Lemma isort_perm l : Permutation l (isort l).
Proof.
  induction l as [|x t IH]; cbn [isort]; auto.
  rewrite <- insert_perm. now constructor.
Qed.

Lemma isort_In l x : In x (isort l) <-> In x l.
Proof. split; apply Permutation_in; [symmetry|]; apply isort_perm. Qed.

Lemma insert_sorted x l : StronglySorted name_le l -> StronglySorted name_le (insert x l).
Proof.
  induction 1 as [|y t HS IH HF]; cbn [insert].
  - repeat constructor.
  - destruct (name_leb x y) eqn:E.
    + constructor.
      * constructor; auto.
      * constructor; [exact E|].
        eapply Forall_impl; [|exact HF]. intros z Hz. unfold name_le in *. eapply leb_trans; eauto.
    + constructor; auto. apply Forall_forall. intros z Hz.
      apply (Permutation_in _ (Permutation_sym (insert_perm x t))) in Hz. destruct Hz as [<-|Hz].
      * now apply leb_total.
      * rewrite Forall_forall in HF. now apply HF.
Qed.

Lemma isort_sorted l : StronglySorted name_le (isort l).
Proof. induction l; cbn [isort]; [constructor | now apply insert_sorted]. Qed.

Lemma sorted_le_nodup_lt l : StronglySorted name_le l -> NoDup l -> StronglySorted name_lt l.
Proof.
  induction 1 as [|x t HS IH HF]; intros ND; constructor; inversion ND; subst; auto.
  rewrite Forall_forall in *. intros y Hy. apply le_neq_lt; [exact (HF y Hy)|]. intros ->. contradiction.
Qed.

(* a strictly sorted list is determined by its set of elements: the output IS Python's sorted(set) *)
Lemma sorted_lt_unique : forall l1 l2, StronglySorted name_lt l1 -> StronglySorted name_lt l2 ->
  (forall x, In x l1 <-> In x l2) -> l1 = l2.
Proof.
  induction l1 as [|x1 t1 IH]; intros l2 S1 S2 E.
  - destruct l2 as [|x2 t2]; auto. exfalso. apply (E x2). now left.
  - destruct l2 as [|x2 t2]; [exfalso; apply (E x1); now left|].
    inversion S1 as [|? ? S1' F1]; inversion S2 as [|? ? S2' F2]; subst.
    rewrite Forall_forall in F1, F2.
    assert (x1 = x2).
    { destruct (proj1 (E x1) (or_introl eq_refl)) as [|I1]; auto.
      destruct (proj2 (E x2) (or_introl eq_refl)) as [|I2]; auto.
      pose proof (F2 _ I1) as A. pose proof (F1 _ I2) as B. unfold name_lt in *.
      rewrite (ltb_asym _ _ A) in B. discriminate. }
    subst x2. f_equal. apply IH; auto. intros y. split; intros Hy.
    + destruct (proj1 (E y) (or_intror Hy)) as [<-|]; auto.
      pose proof (F1 _ Hy) as A. unfold name_lt in A. rewrite ltb_irrefl in A. discriminate.
    + destruct (proj2 (E y) (or_intror Hy)) as [<-|]; auto.
      pose proof (F2 _ Hy) as A. unfold name_lt in A. rewrite ltb_irrefl in A. discriminate.
Qed.

(* ------------------------------------------------------------------ set conversion *)
Lemma dedup_In l x : In x (dedup l) <-> In x l.
Proof.
  induction l as [|y t IH]; cbn [dedup]; [tauto|].
  destruct (memb y t) eqn:E; cbn [In]; rewrite IH; [|tauto].
  apply memb_In in E. split; auto. intros [<-|]; auto.
Qed.

Lemma dedup_NoDup l : NoDup (dedup l).
Proof.
  induction l as [|y t IH]; cbn [dedup]; [constructor|].
  destruct (memb y t) eqn:E; auto. constructor; auto.
  rewrite dedup_In. intros H. apply memb_In in H. congruence.
Qed.

(* ------------------------------------------------------------------ one poll *)
Lemma fpoll_In seen snap x : In x (snd (fpoll seen snap)) <-> In x snap /\ ~ In x seen.
Proof.
  unfold fpoll. cbn [snd]. rewrite isort_In, filter_In, dedup_In, negb_true_iff.
  split; intros [H1 H2]; split; auto.
  - intros H. apply memb_In in H. congruence.
  - destruct (memb x seen) eqn:E; auto. apply memb_In in E. contradiction.
Qed.

Lemma fpoll_NoDup seen snap : NoDup (snd (fpoll seen snap)).
Proof.
  unfold fpoll. cbn [snd]. eapply Permutation_NoDup; [apply isort_perm|].
  apply NoDup_filter, dedup_NoDup.
Qed.

Lemma fpoll_sorted seen snap : StronglySorted name_lt (snd (fpoll seen snap)).
Proof.
  apply sorted_le_nodup_lt; [|apply fpoll_NoDup]. unfold fpoll. cbn [snd]. apply isort_sorted.
Qed.

Lemma fpoll_seen seen snap x : In x (fst (fpoll seen snap)) <-> In x seen \/ In x snap.
Proof.
  pose proof (fpoll_In seen snap x) as H. unfold fpoll in *. cbn [fst snd] in *. rewrite in_app_iff, H.
  destruct (In_dec_name x seen); tauto.
Qed.

Lemma frun_cons seen s t : frun seen (s :: t) = snd (fpoll seen s) :: frun (fst (fpoll seen s)) t.
Proof. reflexivity. Qed.

Lemma frun_length : forall snaps seen, length (frun seen snaps) = length snaps.
Proof. induction snaps; intros; [reflexivity|]. rewrite frun_cons. cbn [length]. now rewrite IHsnaps. Qed.

(* every poll's emissions are strictly sorted (hence duplicate-free) *)
Lemma frun_sorted : forall snaps seen, Forall (StronglySorted name_lt) (frun seen snaps).
Proof.
  induction snaps as [|s t IH]; intros seen; [constructor|]. rewrite frun_cons. constructor; auto using fpoll_sorted.
Qed.

(* WHEN: a name is emitted by poll k iff it is present at poll k, was not seen before the run, and was absent
   at every earlier poll *)
Lemma frun_when : forall snaps seen k x,
  In x (nth k (frun seen snaps) []) <->
  In x (nth k snaps []) /\ ~ In x seen /\ forall j, j < k -> ~ In x (nth j snaps []).
Proof.
  induction snaps as [|s t IH]; intros seen k x.
  - destruct k; cbn; tauto.
  - rewrite frun_cons. destruct k as [|k]; cbn [nth].
    + rewrite fpoll_In. split; [intros [A B]; repeat split; auto; intros j Hj; lia | tauto].
    + rewrite IH, fpoll_seen. split.
      * intros [A [B C]]. repeat split; auto. intros [|j] Hj; cbn [nth]; [tauto|]. apply C. lia.
      * intros [A [B C]]. repeat split; auto.
        -- intros [H|H]; [auto|]. apply (C 0); [lia|exact H].
        -- intros j Hj. apply (C (S j)). lia.
Qed.

Lemma NoDup_app_intro {A} (l1 l2 : list A) :
  NoDup l1 -> NoDup l2 -> (forall x, In x l1 -> ~ In x l2) -> NoDup (l1 ++ l2).
Proof.
  induction 1 as [|x l1 Hx ND IH]; intros N2 D; cbn; auto.
  constructor.
  - rewrite in_app_iff. intros [H|H]; [auto|]. apply (D x); [now left|auto].
  - apply IH; auto. intros y Hy. apply D. now right.
Qed.

(* WHICH: the names emitted over the whole run are those that appear in some snapshot and were not seen *)
Lemma frun_covers : forall snaps seen x,
  In x (concat (frun seen snaps)) <-> In x (concat snaps) /\ ~ In x seen.
Proof.
  induction snaps as [|s t IH]; intros seen x.
  - cbn. tauto.
  - rewrite frun_cons. cbn [concat]. rewrite !in_app_iff, IH, fpoll_In, fpoll_seen.
    destruct (In_dec_name x s); tauto.
Qed.

(* ONCE: no name is emitted twice over the whole run *)
Lemma frun_NoDup : forall snaps seen, NoDup (concat (frun seen snaps)).
Proof.
  induction snaps as [|s t IH]; intros seen; [constructor|].
  rewrite frun_cons. cbn [concat]. apply NoDup_app_intro; auto using fpoll_NoDup.
  intros x Hx Hy. apply frun_covers in Hy as [_ Hy]. apply Hy. apply fpoll_seen.
  apply fpoll_In in Hx. tauto.
Qed.

Theorem filenames_once_sorted (snaps : list (list name)) :
  let outs := frun [] snaps in
  length outs = length snaps /\
  Forall (StronglySorted name_lt) outs /\
  NoDup (concat outs) /\
  (forall x, In x (concat outs) <-> In x (concat snaps)) /\
  (forall k x, In x (nth k outs []) <->
               In x (nth k snaps []) /\ forall j, j < k -> ~ In x (nth j snaps [])).
Proof.
  cbn zeta. split; [apply frun_length|]. split; [apply frun_sorted|]. split; [apply frun_NoDup|]. split.
  - intros x. rewrite frun_covers. cbn [In]. tauto.
  - intros k x. rewrite frun_when. cbn [In]. tauto.
Qed.

(* each poll's output is exactly the strictly sorted list of the first-time names: any strictly sorted list with
   that element set equals it (so it coincides with Python's sorted(set(glob) - seen)) *)
Theorem filenames_poll_is_sorted_set (snaps : list (list name)) k (l : list name) :
  StronglySorted name_lt l ->
  (forall x, In x l <-> In x (nth k snaps []) /\ forall j, j < k -> ~ In x (nth j snaps [])) ->
  nth k (frun [] snaps) [] = l.
Proof.
  intros S E. apply sorted_lt_unique; auto.
  - destruct (Nat.lt_ge_cases k (length (frun [] snaps))) as [L|L].
    + pose proof (frun_sorted snaps []) as F. rewrite Forall_forall in F. apply F. now apply nth_In.
    + rewrite nth_overflow; [constructor|exact L].
  - intros x. rewrite E, frun_when. cbn [In]. tauto.
Qed.
