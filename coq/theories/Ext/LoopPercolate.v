(* C19 — model of how streamz decides the event loop and the asynchronous/blocking mode of a node
   at construction time.  Transcribes /repo/streamz/core.py:
     get_io_loop (41-61), Stream.__init__ (244-266), _set_loop/_inform_loop (268-292),
     _set_asynchronous/_inform_asynchronous (294-318).

   A graph is the list of nodes created so far (index = creation order).  Each node carries
   `loop : option loop_id`, `asynchronous : option bool`, its upstream list and its downstream list
   (OrderedWeakrefSet iteration order = attachment order; the harness keeps every node alive).

   `construct c g r` is `Stream.__init__` for the request r (upstreams, asynchronous=, loop=, ensure_io_loop=)
   and returns
     Ok g'     the node was created (it is the last node of g'),
     Raise g'  ValueError; g' is the graph AS LEFT BEHIND by the partial percolation (the Python code
               mutates nodes before it discovers the conflict — modelled, not hidden),
     OutOfFuel never happens (theorem construct_fuel_enough).

   `_inform_loop` / `_inform_asynchronous` are mutually-unaware recursive depth-first walks
       if self.x is not None: (raise if different) else: self.x = v; for u in upstreams: u._inform(v);
                                                                    for d in downstreams: d._inform(v)
   They are modelled by ONE generic worklist function `perc` whose stack discipline
   (pop i; if unset: set it and push ups(i) ++ downs(i) in front) visits nodes in exactly the order of the
   recursive calls, so the graph left behind by a raise is the same too.

   The configuration `cfg` selects the code variant:
     fix_init = false : as found —  `if ensure_io_loop and not self.loop: self._set_asynchronous(False)`
     fix_init = true  : repaired —  `if ensure_io_loop and not self.loop and self.asynchronous is None: ...`
     fix_join = false : as found —  a node without explicit loop/mode copies the first upstream loop / first
                                    truthy upstream mode and tells nobody
     fix_join = true  : candidate —  it percolates the inherited value to all its upstreams (so joining pipelines
                                    on different loops raises).  Not in /repo; kept to state what it would buy.
     has_client       : a dask default client exists (get_io_loop then answers the client's loop). *)
From Coq Require Import List Arith Bool Lia.
Import ListNotations.

Inductive loop_id := Current | Background | ClientLoop | UserLoop (n : nat).

Definition loop_eqb (a b : loop_id) : bool :=
  match a, b with
  | Current, Current => true
  | Background, Background => true
  | ClientLoop, ClientLoop => true
  | UserLoop n, UserLoop m => Nat.eqb n m
  | _, _ => false
  end.

Record node := mkNode { nloop : option loop_id; nasync : option bool; nups : list nat; ndowns : list nat }.
Definition graph := list node.

Record request := mkReq { r_ups : list nat; r_async : option bool; r_loop : option loop_id; r_ensure : bool }.

Record cfg := mkCfg { fix_init : bool; fix_join : bool; has_client : bool }.

Inductive result := Ok (g : graph) | Raise (g : graph) | OutOfFuel.

Fixpoint set_nth {A} (i : nat) (x : A) (l : list A) : list A :=
  match l, i with
  | [], _ => []
  | _ :: t, O => x :: t
  | h :: t, S k => h :: set_nth k x t
  end.

(* get_io_loop(asynchronous): IOLoop.current() when truthy, else the dask client's loop, else the shared
   background-thread loop *)
Definition bg_loop (c : cfg) : loop_id := if has_client c then ClientLoop else Background.
Definition get_io_loop (c : cfg) (a : bool) : loop_id := if a then Current else bg_loop c.

Section Perc.
  Variable A : Type.
  Variable aeqb : A -> A -> bool.
  Variable get : node -> option A.
  Variable put : A -> node -> node.

  (* stack = pending `_inform(v)` calls, leftmost first *)
  Fixpoint perc (fuel : nat) (g : graph) (v : A) (stack : list nat) {struct fuel} : result :=
    match stack with
    | [] => Ok g
    | i :: rest =>
      match fuel with
      | O => OutOfFuel
      | S f =>
        match nth_error g i with
        | None => perc f g v rest
        | Some nd =>
          match get nd with
          | Some w => if aeqb w v then perc f g v rest else Raise g
          | None => perc f (set_nth i (put v nd) g) v (nups nd ++ ndowns nd ++ rest)
          end
        end
      end
    end.

  Definition weight (g : graph) : nat :=
    fold_right (fun nd acc => S (length (nups nd) + length (ndowns nd)) + acc) 0 g.

  (* the new node itself is not in the graph yet: `self._inform(v)` sets self and walks its upstreams *)
  Definition inform (g : graph) (v : A) (ups : list nat) : result :=
    perc (length ups + weight g + 1) g v ups.
End Perc.

Definition put_loop (l : loop_id) (nd : node) : node := mkNode (Some l) (nasync nd) (nups nd) (ndowns nd).
Definition put_async (a : bool) (nd : node) : node := mkNode (nloop nd) (Some a) (nups nd) (ndowns nd).

Definition inform_loop := inform loop_id loop_eqb nloop put_loop.
Definition inform_async := inform bool Bool.eqb nasync put_async.

(* `for upstream in self.upstreams: if upstream and upstream.loop: self.loop = upstream.loop; break` *)
Definition first_loop (g : graph) (ups : list nat) : option loop_id :=
  fold_right (fun u acc => match nth_error g u with
                           | Some nd => match nloop nd with Some l => Some l | None => acc end
                           | None => acc end) None ups.

Definition is_true (o : option bool) : bool := match o with Some true => true | _ => false end.

(* `if upstream and upstream.asynchronous: self.asynchronous = upstream.asynchronous; break`
   — only a TRUE mode is inherited; a False upstream leaves the child at None *)
Definition first_true (g : graph) (ups : list nat) : option bool :=
  if existsb (fun u => match nth_error g u with Some nd => is_true (nasync nd) | None => false end) ups
  then Some true else None.

Definition bind (r : result) (k : graph -> result) : result :=
  match r with Ok g => k g | e => e end.

Definition is_none {A} (o : option A) : bool := match o with None => true | Some _ => false end.

(* upstream.downstreams.add(self): a set, so a repeated upstream is registered once *)
Definition add_down (d : nat) (nd : node) : node :=
  if existsb (Nat.eqb d) (ndowns nd) then nd
  else mkNode (nloop nd) (nasync nd) (nups nd) (ndowns nd ++ [d]).

Definition add_downs (ups : list nat) (d : nat) (g : graph) : graph :=
  fold_left (fun g u => match nth_error g u with
                        | Some nd => set_nth u (add_down d nd) g
                        | None => g end) ups g.

(* values the new node itself ends up with after each statement of __init__ *)
Definition self_async1 (g : graph) (r : request) : option bool :=
  match r_async r with Some a => Some a | None => first_true g (r_ups r) end.
Definition self_loop2 (g1 : graph) (r : request) : option loop_id :=
  match r_loop r with Some l => Some l | None => first_loop g1 (r_ups r) end.
Definition ensure_fires (c : cfg) (r : request) (a1 : option bool) (l2 : option loop_id) : bool :=
  r_ensure r && is_none l2 && (negb (fix_init c) || is_none a1).

(* self._set_asynchronous(asynchronous) *)
Definition stage1 (c : cfg) (g : graph) (r : request) : result :=
  match r_async r with
  | Some a => inform_async g a (r_ups r)
  | None => if fix_join c
            then (match self_async1 g r with Some t => inform_async g t (r_ups r) | None => Ok g end)
            else Ok g
  end.
(* self._set_loop(loop) *)
Definition stage2 (c : cfg) (g1 : graph) (r : request) : result :=
  match r_loop r with
  | Some l => inform_loop g1 l (r_ups r)
  | None => if fix_join c
            then (match self_loop2 g1 r with Some l => inform_loop g1 l (r_ups r) | None => Ok g1 end)
            else Ok g1
  end.
(* if ensure_io_loop and not self.loop [and self.asynchronous is None]: self._set_asynchronous(False) *)
Definition self_async3 (fire : bool) (a1 : option bool) : option bool := if fire then Some false else a1.
Definition stage3 (fire : bool) (g2 : graph) (r : request) : result :=
  if fire then inform_async g2 false (r_ups r) else Ok g2.
(* if self.loop is None and self.asynchronous is not None: self._set_loop(get_io_loop(self.asynchronous)) *)
Definition self_loop4 (c : cfg) (l2 : option loop_id) (a3 : option bool) : option loop_id :=
  match l2, a3 with None, Some a => Some (get_io_loop c a) | _, _ => l2 end.
Definition stage4 (c : cfg) (g3 : graph) (r : request) (l2 : option loop_id) (a3 : option bool) : result :=
  match l2, a3 with None, Some a => inform_loop g3 (get_io_loop c a) (r_ups r) | _, _ => Ok g3 end.
(* for upstream in self.upstreams: upstream.downstreams.add(self) *)
Definition finish (g4 : graph) (r : request) (l4 : option loop_id) (a3 : option bool) : graph :=
  add_downs (r_ups r) (length g4) g4 ++ [mkNode l4 a3 (r_ups r) []].

Definition construct (c : cfg) (g : graph) (r : request) : result :=
  let a1 := self_async1 g r in
  bind (stage1 c g r) (fun g1 =>
  let l2 := self_loop2 g1 r in
  bind (stage2 c g1 r) (fun g2 =>
  let fire := ensure_fires c r a1 l2 in
  let a3 := self_async3 fire a1 in
  bind (stage3 fire g2 r) (fun g3 =>
  bind (stage4 c g3 r l2 a3) (fun g4 =>
  Ok (finish g4 r (self_loop4 c l2 a3) a3))))).

(* a whole session: requests are issued one after the other; a raise leaves the (possibly mutated) graph
   and the session goes on *)
Definition step (c : cfg) (g : graph) (r : request) : graph :=
  match construct c g r with Ok g' => g' | Raise g' => g' | OutOfFuel => g end.

(* all requests succeed *)
Fixpoint build (c : cfg) (g : graph) (rs : list request) : option graph :=
  match rs with
  | [] => Some g
  | r :: rs' => match construct c g r with Ok g' => build c g' rs' | _ => None end
  end.

Definition as_found : cfg := mkCfg false false false.
Definition repaired : cfg := mkCfg true false false.

(* sanity *)
Definition src (a : option bool) (l : option loop_id) := mkReq [] a l true.
Definition plain (u : nat) := mkReq [u] None None false.
Eval vm_compute in (construct as_found [] (src (Some true) None)).
Eval vm_compute in (construct repaired [] (src (Some true) None)).
Eval vm_compute in (build as_found [] [mkReq [] None None false; plain 0; mkReq [1] (Some true) None true]).
Eval vm_compute in (build repaired [] [mkReq [] None None false; plain 0; mkReq [1] (Some true) None true]).
