(* C20 - streamz/dask.py: a Dask-backed pipeline segment  scatter() ... gather()  versus the local one.

   Futures are ids into an append-only store of tasks (id = creation order, scatter futures included).
   The value of a future is determined by the store alone ([eval_store] / [force]); the cluster finishes
   tasks in any dependency-respecting order ([complete]).  dask.py's map / starmap / accumulate create tasks
   and pass future ids on; the core nodes they are combined with (partition, sliding_window, zip, union,
   buffer) are the SAME code acting on futures instead of values, so they are defined once, polymorphic in
   the item type.  scatter and gather are coroutines; [exec] is the step-wise reaction of the whole segment
   to the harness events  Emit x / TaskDone k  (compared with the real code by the correspondence check).

   User functions are total Coq functions (exception-free tasks; failures are C16's subject). *)
From Coq Require Import List ZArith Bool Arith Lia.
From SZ Require Import Base.Values.
Import ListNotations.
Close Scope Z_scope.
Open Scope nat_scope.

(* ---- futures, tasks, stores -------------------------------------------------------------------- *)
(* what flows between scatter and gather: a future, a plain value (accumulate's explicit start), or a
   tuple of such (built by partition / sliding_window / zip / accumulate(with_state)) *)
Inductive fx :=
| XFut (id : nat)
| XVal (v : val)
| XTup (l : list fx).

Fixpoint resolve (look : nat -> val) (x : fx) : val :=
  match x with
  | XFut i => look i
  | XVal v => v
  | XTup l => VTup (map (resolve look) l)
  end.

Fixpoint deps (x : fx) : list nat :=
  match x with
  | XFut i => [i]
  | XVal _ => []
  | XTup l => flat_map deps l
  end.

Definition tup_items (v : val) : list val :=
  match v with VTup l | VList l => l | _ => [] end.
Definition getitem (i : nat) (v : val) : val := nth i (tup_items v) VNone.

Inductive task :=
| TScat (v : val)                                    (* client.scatter([x]): finished at creation *)
| TApp1 (f : val -> val) (a : fx)                    (* client.submit(func, x, *args, **kwargs) *)
| TApp2 (f : val -> val -> val) (a b : fx)           (* client.submit(func, state, x, **kwargs) *)
| TAppN (f : list val -> val) (a : fx)               (* client.submit(apply, func, x, kwargs) *)
| TGet (i : nat) (a : fx).                           (* client.submit(getitem, result, i) *)

Definition task_deps (t : task) : list nat :=
  match t with
  | TScat _ => []
  | TApp1 _ a | TAppN _ a | TGet _ a => deps a
  | TApp2 _ a b => deps a ++ deps b
  end.

Definition eval_task (look : nat -> val) (t : task) : val :=
  match t with
  | TScat v => v
  | TApp1 f a => f (resolve look a)
  | TApp2 f a b => f (resolve look a) (resolve look b)
  | TAppN f a => f (tup_items (resolve look a))
  | TGet i a => getitem i (resolve look a)
  end.

Definition store := list task.

(* the value of every future, computed in id order *)
Definition look_of (vs : list val) : nat -> val := fun i => nth i vs VNone.
Definition eval_store (st : store) : list val :=
  fold_left (fun vs t => vs ++ [eval_task (look_of vs) t]) st [].
Definition force (st : store) (x : fx) : val := resolve (look_of (eval_store st)) x.

(* submit: append a task, return its future *)
Definition submit (st : store) (t : task) : store * fx := (st ++ [t], XFut (length st)).

(* a valuation of ids that satisfies every task's defining equation *)
Definition consistent (look : nat -> val) (st : store) : Prop :=
  forall k t, nth_error st k = Some t -> look k = eval_task look t.
(* arguments are created before the task *)
Definition wf_store (st : store) : Prop :=
  forall k t, nth_error st k = Some t -> Forall (fun i => i < k) (task_deps t).

(* ---- the cluster: finishes eligible tasks one at a time, in whatever order -------------------- *)
Definition fin := list (nat * val).
Fixpoint fin_get (f : fin) (k : nat) : option val :=
  match f with
  | [] => None
  | (k', v) :: t => if k' =? k then Some v else fin_get t k
  end.
Definition fin_look (f : fin) : nat -> val :=
  fun k => match fin_get f k with Some v => v | None => VNone end.
Definition is_some {A} (o : option A) : bool := match o with Some _ => true | None => false end.
Definition all_done (f : fin) (ids : list nat) : bool := forallb (fun i => is_some (fin_get f i)) ids.
Definition eligible (st : store) (f : fin) (k : nat) : bool :=
  match nth_error st k, fin_get f k with
  | Some t, None => all_done f (task_deps t)
  | _, _ => false
  end.
(* TaskDone k: ignored unless k is eligible; the value is computed from the finished arguments *)
Definition complete (st : store) (f : fin) (k : nat) : fin :=
  match nth_error st k with
  | Some t => if eligible st f k then (k, eval_task (fin_look f) t) :: f else f
  | None => f
  end.
Definition cluster_run (st : store) (order : list nat) (f0 : fin) : fin := fold_left (complete st) order f0.

(* ---- core nodes, polymorphic in the item type -------------------------------------------------- *)
Section Core.
  Context {I : Type} (tup : list I -> I).
  Definition lastn (n : nat) (l : list I) : list I := skipn (length l - n) l.
  (* partition(n).update: append; flush a full buffer as one tuple *)
  Definition part_step (n : nat) (buf : list I) (x : I) : list I * option I :=
    let b := buf ++ [x] in if length b =? n then ([], Some (tup b)) else (b, None).
  (* sliding_window(n, return_partial).update: deque(maxlen=n) *)
  Definition slide_step (n : nat) (partial : bool) (buf : list I) (x : I) : list I * option I :=
    let b := lastn n (buf ++ [x]) in
    (b, if partial || (length b =? n) then Some (tup b) else None).
  (* zip.update for an arrival on its first / second upstream: emits when the arriving side's buffer was
     empty and the other side is non-empty *)
  Definition zip_a (za zb : list I) (y : I) : list I * list I * option I :=
    match za, zb with
    | [], b :: zb' => ([], zb', Some (tup [y; b]))
    | _, _ => (za ++ [y], zb, None)
    end.
  Definition zip_b (za zb : list I) (y : I) : list I * list I * option I :=
    match zb, za with
    | [], a :: za' => (za', [], Some (tup [a; y]))
    | _, _ => (za, zb ++ [y], None)
    end.
End Core.

Definition olist {A} (o : option A) : list A := match o with Some y => [y] | None => [] end.

(* ---- node kinds and their states ---------------------------------------------------------------- *)
Inductive leaf :=
| LMap (f : val -> val)
| LStarmap (f : list val -> val)
| LAccum (f : val -> val -> val) (start : option val) (returns_state with_state : bool)
| LPartition (n : nat)
| LSliding (n : nat) (partial : bool)
| LBuffer.                                  (* identity on order; its asynchrony is in [exec] *)

Inductive lst (I : Type) :=
| QUnit
| QAcc (a : option I)
| QBuf (l : list I).
Arguments QUnit {I}.
Arguments QAcc {I} a.
Arguments QBuf {I} l.

Definition qmap {A B} (g : A -> B) (q : lst A) : lst B :=
  match q with
  | QUnit => QUnit
  | QAcc a => QAcc (option_map g a)
  | QBuf l => QBuf (map g l)
  end.

Definition linit (l : leaf) : lst val :=
  match l with
  | LAccum _ start _ _ => QAcc start
  | LPartition _ | LSliding _ _ => QBuf []
  | _ => QUnit
  end.
Definition dinit (l : leaf) : lst fx := qmap XVal (linit l).

(* -- LOCAL: streamz.core map / starmap / accumulate / partition / sliding_window / buffer -- *)
Definition lstep (l : leaf) (q : lst val) (x : val) : lst val * option val :=
  match l, q with
  | LMap f, _ => (q, Some (f x))
  | LStarmap f, _ => (q, Some (f (tup_items x)))
  | LAccum f _ rs ws, QAcc None => (QAcc (Some x), Some (if ws then VTup [x; x] else x))
  | LAccum f _ rs ws, QAcc (Some s) =>
      let r := f s x in
      let s' := if rs then getitem 0 r else r in
      let res := if rs then getitem 1 r else r in
      (QAcc (Some s'), Some (if ws then VTup [s'; res] else res))
  | LPartition n, QBuf b => let '(b', o) := part_step VTup n b x in (QBuf b', o)
  | LSliding n p, QBuf b => let '(b', o) := slide_step VTup n p b x in (QBuf b', o)
  | LBuffer, _ => (q, Some x)
  | _, _ => (q, None)
  end.

(* -- DASK: streamz.dask map / starmap / accumulate submit tasks; the others are the core classes -- *)
Definition dstep (l : leaf) (q : lst fx) (st : store) (x : fx) : lst fx * store * option fx :=
  match l, q with
  | LMap f, _ => (q, st ++ [TApp1 f x], Some (XFut (length st)))
  | LStarmap f, _ => (q, st ++ [TAppN f x], Some (XFut (length st)))
  | LAccum f _ rs ws, QAcc None => (QAcc (Some x), st, Some (if ws then XTup [x; x] else x))
  | LAccum f _ rs ws, QAcc (Some s) =>
      let n := length st in
      if rs then
        (* result = submit(func, state, x); state = submit(getitem, result, 0); result = submit(getitem, result, 1) *)
        (QAcc (Some (XFut (n + 1))), st ++ [TApp2 f s x; TGet 0 (XFut n); TGet 1 (XFut n)],
         Some (if ws then XTup [XFut (n + 1); XFut (n + 2)] else XFut (n + 2)))
      else
        (QAcc (Some (XFut n)), st ++ [TApp2 f s x],
         Some (if ws then XTup [XFut n; XFut n] else XFut n))
  | LPartition n, QBuf b => let '(b', o) := part_step XTup n b x in (QBuf b', st, o)
  | LSliding n p, QBuf b => let '(b', o) := slide_step XTup n p b x in (QBuf b', st, o)
  | LBuffer, _ => (q, st, Some x)
  | _, _ => (q, st, None)
  end.

(* chains of leaves (every leaf emits at most one element per arrival) *)
Fixpoint lchain (ls : list leaf) (qs : list (lst val)) (x : val) : list (lst val) * option val :=
  match ls, qs with
  | [], _ => ([], Some x)
  | l :: ls', q :: qs' =>
      let '(q', o) := lstep l q x in
      match o with
      | Some y => let '(qs'', o') := lchain ls' qs' y in (q' :: qs'', o')
      | None => (q' :: qs', None)
      end
  | _ :: _, [] => ([], None)
  end.

Fixpoint dchain (ls : list leaf) (qs : list (lst fx)) (st : store) (x : fx)
  : list (lst fx) * store * option fx :=
  match ls, qs with
  | [], _ => ([], st, Some x)
  | l :: ls', q :: qs' =>
      let '(q', st1, o) := dstep l q st x in
      match o with
      | Some y => let '(qs'', st2, o') := dchain ls' qs' st1 y in (q' :: qs'', st2, o')
      | None => (q' :: qs', st1, None)
      end
  | _ :: _, [] => ([], st, None)
  end.

(* stages: a leaf, or two leaf chains forked from the same upstream and joined by zip / union.
   The first chain is attached first, so it sees every element first (Stream._emit iterates the
   downstreams in attachment order, depth first). *)
Inductive stage :=
| SLeaf (l : leaf)
| SZip (a b : list leaf)
| SUnion (a b : list leaf).

Inductive sst (I : Type) :=
| QLeaf (q : lst I)
| QFork (qa qb : list (lst I)) (za zb : list I).
Arguments QLeaf {I} q.
Arguments QFork {I} qa qb za zb.

Definition smap {A B} (g : A -> B) (q : sst A) : sst B :=
  match q with
  | QLeaf q => QLeaf (qmap g q)
  | QFork qa qb za zb => QFork (map (qmap g) qa) (map (qmap g) qb) (map g za) (map g zb)
  end.

Definition sinit_l (s : stage) : sst val :=
  match s with
  | SLeaf l => QLeaf (linit l)
  | SZip a b | SUnion a b => QFork (map linit a) (map linit b) [] []
  end.
Definition sinit_d (s : stage) : sst fx := smap XVal (sinit_l s).

(* A stage pushes every element it emits through the REST of the pipeline (continuation k, with the rest's
   state r) before it does anything else: Stream._emit is depth first.  This fixes the order in which
   tasks are submitted, hence the future ids. *)
Definition lpush (k : list (sst val) -> val -> list (sst val) * list val)
           (r : list (sst val)) (o : option val) : list (sst val) * list val :=
  match o with Some y => k r y | None => (r, []) end.

Definition lsstep (s : stage) (q : sst val) (k : list (sst val) -> val -> list (sst val) * list val)
           (r : list (sst val)) (x : val) : sst val * list (sst val) * list val :=
  match s, q with
  | SLeaf l, QLeaf q =>
      let '(q', o) := lstep l q x in
      let '(r1, outs) := lpush k r o in (QLeaf q', r1, outs)
  | SUnion a b, QFork qa qb za zb =>
      let '(qa', oa) := lchain a qa x in
      let '(r1, o1) := lpush k r oa in
      let '(qb', ob) := lchain b qb x in
      let '(r2, o2) := lpush k r1 ob in
      (QFork qa' qb' za zb, r2, o1 ++ o2)
  | SZip a b, QFork qa qb za zb =>
      let '(qa', oa) := lchain a qa x in
      let '(za1, zb1, e1) := match oa with Some y => zip_a VTup za zb y | None => (za, zb, None) end in
      let '(r1, o1) := lpush k r e1 in
      let '(qb', ob) := lchain b qb x in
      let '(za2, zb2, e2) := match ob with Some y => zip_b VTup za1 zb1 y | None => (za1, zb1, None) end in
      let '(r2, o2) := lpush k r1 e2 in
      (QFork qa' qb' za2 zb2, r2, o1 ++ o2)
  | _, _ => (q, r, [])
  end.

Definition dpush (k : list (sst fx) -> store -> fx -> list (sst fx) * store * list fx)
           (r : list (sst fx)) (st : store) (o : option fx) : list (sst fx) * store * list fx :=
  match o with Some y => k r st y | None => (r, st, []) end.

Definition dsstep (s : stage) (q : sst fx)
           (k : list (sst fx) -> store -> fx -> list (sst fx) * store * list fx)
           (r : list (sst fx)) (st : store) (x : fx) : sst fx * list (sst fx) * store * list fx :=
  match s, q with
  | SLeaf l, QLeaf q =>
      let '(q', st1, o) := dstep l q st x in
      let '(r1, st2, outs) := dpush k r st1 o in (QLeaf q', r1, st2, outs)
  | SUnion a b, QFork qa qb za zb =>
      let '(qa', st1, oa) := dchain a qa st x in
      let '(r1, st2, o1) := dpush k r st1 oa in
      let '(qb', st3, ob) := dchain b qb st2 x in
      let '(r2, st4, o2) := dpush k r1 st3 ob in
      (QFork qa' qb' za zb, r2, st4, o1 ++ o2)
  | SZip a b, QFork qa qb za zb =>
      let '(qa', st1, oa) := dchain a qa st x in
      let '(za1, zb1, e1) := match oa with Some y => zip_a XTup za zb y | None => (za, zb, None) end in
      let '(r1, st2, o1) := dpush k r st1 e1 in
      let '(qb', st3, ob) := dchain b qb st2 x in
      let '(za2, zb2, e2) := match ob with Some y => zip_b XTup za1 zb1 y | None => (za1, zb1, None) end in
      let '(r2, st4, o2) := dpush k r1 st3 e2 in
      (QFork qa' qb' za2 zb2, r2, st4, o1 ++ o2)
  | _, _ => (q, r, st, [])
  end.

Fixpoint lpipe (p : list stage) (qs : list (sst val)) (x : val) : list (sst val) * list val :=
  match p, qs with
  | [], _ => ([], [x])
  | s :: p', q :: qs' =>
      let '(q', qs'', outs) := lsstep s q (lpipe p') qs' x in (q' :: qs'', outs)
  | _ :: _, [] => ([], [])
  end.

Fixpoint dpipe (p : list stage) (qs : list (sst fx)) (st : store) (x : fx)
  : list (sst fx) * store * list fx :=
  match p, qs with
  | [], _ => ([], st, [x])
  | s :: p', q :: qs' =>
      let '(q', qs'', st', outs) := dsstep s q (dpipe p') qs' st x in (q' :: qs'', st', outs)
  | _ :: _, [] => ([], st, [])
  end.

(* feeding a sequence of elements, one after the other *)
Fixpoint lfeed (step : list (sst val) -> val -> list (sst val) * list val)
         (qs : list (sst val)) (ys : list val) : list (sst val) * list val :=
  match ys with
  | [] => (qs, [])
  | y :: ys' => let '(qs1, o1) := step qs y in let '(qs2, o2) := lfeed step qs1 ys' in (qs2, o1 ++ o2)
  end.

(* the LOCAL pipeline on a whole input sequence: what its sink receives *)
Definition lrun_from (p : list stage) (qs : list (sst val)) (xs : list val) : list (sst val) * list val :=
  lfeed (lpipe p) qs xs.
Definition lrun (p : list stage) (xs : list val) : list val := snd (lrun_from p (map sinit_l p) xs).

(* the DASK pipeline, symbolically: scatter every input, push the future through the nodes; the result is
   the store of tasks created and the sequence of (tuples of) futures that reaches gather *)
Fixpoint drun_from (p : list stage) (qs : list (sst fx)) (st : store) (xs : list val)
  : list (sst fx) * store * list fx :=
  match xs with
  | [] => (qs, st, [])
  | x :: xs' =>
      let '(qs1, st1, o1) := dpipe p qs (st ++ [TScat x]) (XFut (length st)) in
      let '(qs2, st2, o2) := drun_from p qs1 st1 xs' in (qs2, st2, o1 ++ o2)
  end.
Definition drun (p : list stage) (xs : list val) : store * list fx :=
  let '(_, st, arr) := drun_from p (map sinit_d p) [] xs in (st, arr).

(* ---- the whole segment, step by step ------------------------------------------------------------ *)
(* source -> scatter -> pre -> [buffer] -> post -> gather -> sink.  Without a buffer, pre = [].
   The producer awaits every emit.  A buffer is a FIFO whose forwarding coroutine awaits the downstream
   emission - i.e. the gather of everything the element produced - before it takes the next element, so
   the tasks of `post` are submitted only then.  gather.update is one coroutine per arrival:
     as found (ordered = false): every pending arrival whose futures are finished is emitted;
     repaired (ordered = true):  arrivals are emitted in arrival order. *)
Record cfg := { c_pre : list stage; c_post : list stage; c_ordered : bool }.

Record world := {
  w_store : store;
  w_fin : fin;
  w_pre : list (sst fx);
  w_post : list (sst fx);
  w_queue : list fx;          (* in the buffer (or on their way into it) *)
  w_pend : list fx;           (* gather.update coroutines waiting, arrival order *)
  w_arr : list fx;            (* ghost: everything that has reached gather so far *)
  w_out : list val            (* delivered to the sink, in order *)
}.

Definition ready (f : fin) (x : fx) : bool := all_done f (deps x).

Fixpoint take_all (f : fin) (pend : list fx) : list fx * list fx :=
  match pend with
  | [] => ([], [])
  | x :: t => let '(d, r) := take_all f t in if ready f x then (x :: d, r) else (d, x :: r)
  end.
Fixpoint take_prefix (f : fin) (pend : list fx) : list fx * list fx :=
  match pend with
  | [] => ([], [])
  | x :: t => if ready f x then let '(d, r) := take_prefix f t in (x :: d, r) else ([], pend)
  end.

Fixpoint drain (fuel : nat) (c : cfg) (w : world) : world :=
  let '(d, r) := (if c_ordered c then take_prefix else take_all) (w_fin w) (w_pend w) in
  let out := w_out w ++ map (resolve (fin_look (w_fin w))) d in
  match r, w_queue w, fuel with
  | [], y :: q', S fuel' =>
      let '(post', st', outs) := dpipe (c_post c) (w_post w) (w_store w) y in
      drain fuel' c {| w_store := st'; w_fin := w_fin w; w_pre := w_pre w; w_post := post';
                       w_queue := q'; w_pend := outs; w_arr := w_arr w ++ outs; w_out := out |}
  | _, _, _ =>
      {| w_store := w_store w; w_fin := w_fin w; w_pre := w_pre w; w_post := w_post w;
         w_queue := w_queue w; w_pend := r; w_arr := w_arr w; w_out := out |}
  end.

Inductive event := EEmit (x : val) | EDone (k : nat).

Definition react (c : cfg) (w : world) (e : event) : world :=
  match e with
  | EEmit x =>
      let id := length (w_store w) in
      let '(pre', st', outs) := dpipe (c_pre c) (w_pre w) (w_store w ++ [TScat x]) (XFut id) in
      let w1 := {| w_store := st'; w_fin := (id, x) :: w_fin w; w_pre := pre'; w_post := w_post w;
                   w_queue := w_queue w ++ outs; w_pend := w_pend w; w_arr := w_arr w; w_out := w_out w |} in
      drain (S (length (w_queue w1))) c w1
  | EDone k =>
      let w1 := {| w_store := w_store w; w_fin := complete (w_store w) (w_fin w) k; w_pre := w_pre w;
                   w_post := w_post w; w_queue := w_queue w; w_pend := w_pend w; w_arr := w_arr w;
                   w_out := w_out w |} in
      drain (S (length (w_queue w1))) c w1
  end.

Definition w_init (c : cfg) : world :=
  {| w_store := []; w_fin := []; w_pre := map sinit_d (c_pre c); w_post := map sinit_d (c_post c);
     w_queue := []; w_pend := []; w_arr := []; w_out := [] |}.

Definition exec (c : cfg) (evs : list event) : world := fold_left (react c) evs (w_init c).

(* deliveries per event *)
Fixpoint exec_trace (c : cfg) (w : world) (evs : list event) : list (list val) :=
  match evs with
  | [] => []
  | e :: t => let w' := react c w e in skipn (length (w_out w)) (w_out w') :: exec_trace c w' t
  end.

(* No buffer at all: scatter pushes every element through the nodes at once (tasks are submitted at emit
   time) and its arrivals join the gather.update coroutines already waiting - whether or not the producer
   awaited its previous emits.  With an awaited producer nothing is waiting at emit time and this coincides
   with [react] for c_pre = []. *)
Definition deliver (c : cfg) (w : world) : world :=
  let '(d, r) := (if c_ordered c then take_prefix else take_all) (w_fin w) (w_pend w) in
  {| w_store := w_store w; w_fin := w_fin w; w_pre := w_pre w; w_post := w_post w; w_queue := w_queue w;
     w_pend := r; w_arr := w_arr w; w_out := w_out w ++ map (resolve (fin_look (w_fin w))) d |}.

Definition react_direct (c : cfg) (w : world) (e : event) : world :=
  match e with
  | EEmit x =>
      let id := length (w_store w) in
      let '(post', st', outs) := dpipe (c_post c) (w_post w) (w_store w ++ [TScat x]) (XFut id) in
      deliver c {| w_store := st'; w_fin := (id, x) :: w_fin w; w_pre := w_pre w; w_post := post';
                   w_queue := w_queue w; w_pend := w_pend w ++ outs; w_arr := w_arr w ++ outs;
                   w_out := w_out w |}
  | EDone k =>
      deliver c {| w_store := w_store w; w_fin := complete (w_store w) (w_fin w) k; w_pre := w_pre w;
                   w_post := w_post w; w_queue := w_queue w; w_pend := w_pend w; w_arr := w_arr w;
                   w_out := w_out w |}
  end.

Fixpoint exec_trace_direct (c : cfg) (w : world) (evs : list event) : list (list val) :=
  match evs with
  | [] => []
  | e :: t => let w' := react_direct c w e in
              skipn (length (w_out w)) (w_out w') :: exec_trace_direct c w' t
  end.

(* the local pipeline that the segment replaces: same stages, the buffer being an identity on order *)
Definition stages_of (c : cfg) (buffered : bool) : list stage :=
  c_pre c ++ (if buffered then [SLeaf LBuffer] else []) ++ c_post c.

(* ---- reference counters: scatter / gather ------------------------------------------------------- *)
(* Both coroutines do  _retain_refs(md); ...await...; _emit(...) awaited; _release_refs(md).
   Abstractly: a counter, and the multiset of coroutines of these two nodes currently between their
   retain and their release (holders). *)
Inductive rcev :=
| RcEnter (node : nat)       (* scatter.update / gather.update entered: retain *)
| RcExit (node : nat).       (* its downstream emission completed: release *)

Record rcw := { rc_cnt : Z; rc_hold : list nat }.

Fixpoint remove1 (n : nat) (l : list nat) : option (list nat) :=
  match l with
  | [] => None
  | h :: t => if h =? n then Some t else option_map (cons h) (remove1 n t)
  end.

Definition rc_step (w : rcw) (e : rcev) : rcw :=
  match e with
  | RcEnter n => {| rc_cnt := (rc_cnt w + 1)%Z; rc_hold := n :: rc_hold w |}
  | RcExit n => match remove1 n (rc_hold w) with
                | Some h => {| rc_cnt := (rc_cnt w - 1)%Z; rc_hold := h |}
                | None => w          (* no such coroutine: not a possible event *)
                end
  end.
Definition rc_run (w : rcw) (evs : list rcev) : rcw := fold_left rc_step evs w.
Definition rc_excess (w : rcw) : Z := (rc_cnt w - Z.of_nat (length (rc_hold w)))%Z.
