(* C20 correspondence: a case = pipeline + inputs + the schedule the harness ran (Emit / TaskDone) + what the
   REAL code delivered to the sink after every event (dask version over the fake client) + the sink sequence of
   the REAL local pipeline.  [agree] recomputes all of it from the model. *)
From Coq Require Import List ZArith Bool Arith.
From SZ Require Import Base.Values.
From SZ Require Import Ext.DaskFutures.
Import ListNotations.
Close Scope Z_scope.
Open Scope nat_scope.

(* symbols of harness/symbols.py as total functions (the generator is type-correct: defaults are never hit) *)
Definition tot1 (f : fn1) : val -> val := fun v => match interp1 f v with Some y => y | None => VNone end.
Definition tot2 (f : fn2) : val -> val -> val := fun a x => match interp2 f a x with Some y => y | None => VNone end.
Definition totN (f : fnN) : list val -> val := fun l => match interpN f l with Some y => y | None => VNone end.
(* c20_impl.nsum_kw / badd_kw (keyword argument k) and the returns_state wrapper RS *)
Definition nsumk (k : Z) : list val -> val := fun l => VInt (deep_sum (VTup l) + k)%Z.
Definition baddk (k : Z) : val -> val -> val :=
  fun a x => match a with VInt z => VInt (z + deep_sum x + k)%Z | _ => VNone end.
Definition rsw (f : val -> val -> val) : val -> val -> val :=
  fun a x => let s := f a x in VTup [s; VTup [a; s]].

Record dcase := {
  dc_cfg : cfg;
  dc_buffered : bool;              (* a buffer sits between c_pre and c_post *)
  dc_op : bool;                    (* compare step by step (at most one buffer) or only the final sequences *)
  dc_complete : bool;              (* the run finished every task *)
  dc_inputs : list val;
  dc_events : list event;
  dc_steps : list (list val);      (* observed: deliveries after each event *)
  dc_local : list val              (* observed: sink of the local pipeline *)
}.

Definition vals_eqb := list_eqb val_eqb.

(* the gather variant is chosen by the caller: as found (false) / repaired = ordered (true) *)
Definition with_ordered (o : bool) (c : cfg) : cfg :=
  {| c_pre := c_pre c; c_post := c_post c; c_ordered := o |}.

Definition agree (ordered : bool) (c : dcase) : bool :=
  let cf := with_ordered ordered (dc_cfg c) in
  let p := stages_of (dc_cfg c) (dc_buffered c) in
  let loc := lrun p (dc_inputs c) in
  vals_eqb loc (dc_local c)
  && (if dc_op c
      then list_eqb vals_eqb ((if dc_buffered c then exec_trace else exec_trace_direct) cf (w_init cf) (dc_events c))
                             (dc_steps c)
      else true)
  && (if dc_complete c
      then let '(st, arr) := drun p (dc_inputs c) in vals_eqb (map (force st) arr) (concat (dc_steps c))
      else true).

Fixpoint mism_from (o : bool) (i : nat) (cs : list dcase) : list nat :=
  match cs with
  | [] => []
  | c :: t => if agree o c then mism_from o (S i) t else i :: mism_from o (S i) t
  end.
Definition mismatches (ordered : bool) (cs : list dcase) : list nat := mism_from ordered 0 cs.
