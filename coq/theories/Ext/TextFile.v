(* C17 — executable model of streamz.sources.from_textfile (pinned tree, sources.py:145-170).

     def __init__(self, f, poll_interval, delimiter, from_end):
         self.buffer = ''
         if self.from_end: self.file.seek(0, 2)
     async def _run(self):
         line = self.file.read()
         if line:
             self.buffer = self.buffer + line
             if self.delimiter in self.buffer:
                 parts = self.buffer.split(self.delimiter)
                 self.buffer = parts.pop(-1)
                 for part in parts:
                     await asyncio.gather( *self._emit(part + self.delimiter))
         else:
             await asyncio.sleep(self.poll_interval)

   Text is `list ascii` (characters after decoding).  Only definitions here; proofs in TextFileProofs.v. *)
From Coq Require Import List Ascii Bool Arith.
Import ListNotations.

Definition text := list ascii.

(* d is a prefix of s  (Python: s.startswith(d)) *)
Fixpoint prefixb (d s : text) : bool :=
  match d, s with
  | [], _ => true
  | _ :: _, [] => false
  | a :: d', b :: s' => Ascii.eqb a b && prefixb d' s'
  end.

(* Python: `d in s` *)
Fixpoint contains (d s : text) : bool :=
  prefixb d s || match s with [] => false | _ :: s' => contains d s' end.

(* leftmost occurrence of d in s (Python: s.partition(d) / s.find(d)): Some (before, after) *)
Fixpoint find (d s : text) {struct s} : option (text * text) :=
  if prefixb d s then Some ([], skipn (length d) s)
  else match s with
       | [] => None
       | c :: s' => match find d s' with
                    | Some (b, a) => Some (c :: b, a)
                    | None => None
                    end
       end.

(* Python: s.split(d) for non-empty d: leftmost, non-overlapping occurrences, left to right.
   The fuel is only there for structural recursion; `length s` always suffices when d <> []
   (TextFileProofs.split_f_enough); on fuel exhaustion the remaining text is returned as the last part. *)
Fixpoint split_f (fuel : nat) (d s : text) : list text :=
  match find d s with
  | None => [s]
  | Some (b, a) => match fuel with
                   | O => [s]
                   | S f => b :: split_f f d a
                   end
  end.
Definition py_split (d s : text) : list text := split_f (length s) d s.

(* one execution of _run with `line` = what file.read() returned: (new buffer, emitted records) *)
Definition poll (d buf line : text) : text * list text :=
  match line with
  | [] => (buf, [])
  | _ :: _ =>
      let buffer := buf ++ line in
      if contains d buffer then
        let parts := py_split d buffer in
        (last parts [], map (fun p => p ++ d) (removelast parts))
      else (buffer, [])
  end.

(* successive polls, one per chunk; per-poll emissions are kept separately *)
Fixpoint run_polls (d buf : text) (chunks : list text) : text * list (list text) :=
  match chunks with
  | [] => (buf, [])
  | c :: cs => let '(b1, r1) := poll d buf c in
               let '(b2, rs) := run_polls d b1 cs in (b2, r1 :: rs)
  end.
Definition run_chunks (d buf : text) (chunks : list text) : text * list text :=
  let '(b, rs) := run_polls d buf chunks in (b, concat rs).

(* ---- the file layer: content grows by appends, the source keeps a read offset ---- *)
Record src := { pos : nat; sbuf : text }.
Definition src_init (from_end : bool) (content : text) : src :=
  {| pos := if from_end then length content else 0; sbuf := [] |}.
Definition poll_file (d : text) (s : src) (content : text) : src * list text :=
  let line := skipn (pos s) content in
  let '(b, r) := poll d (sbuf s) line in ({| pos := length content; sbuf := b |}, r).
(* history: file has content `pre` when the source is created; then, repeatedly, `chunk` is appended
   (possibly empty = nothing written) and one poll happens *)
Fixpoint run_file_from (d : text) (s : src) (content : text) (chunks : list text) : src * list (list text) :=
  match chunks with
  | [] => (s, [])
  | c :: cs => let content' := content ++ c in
               let '(s1, r1) := poll_file d s content' in
               let '(s2, rs) := run_file_from d s1 content' cs in (s2, r1 :: rs)
  end.
Definition run_file (from_end : bool) (d pre : text) (chunks : list text) : text * list (list text) :=
  let '(s, rs) := run_file_from d (src_init from_end pre) pre chunks in (sbuf s, rs).

(* ---- reference semantics, independent of chunking: scan the whole text once ---- *)
Fixpoint scan_f (fuel : nat) (d s : text) : list text * text :=
  match find d s with
  | None => ([], s)
  | Some (b, a) => match fuel with
                   | O => ([], s)
                   | S f => let '(r, t) := scan_f f d a in ((b ++ d) :: r, t)
                   end
  end.
Definition scan (d s : text) : list text * text := scan_f (length s) d s.

(* ---- as-found IO layer: a path is opened with open(f) (text mode, universal newlines) and every poll
   calls file.read(), which decodes with final=True: "\r\n" -> "\n", lone "\r" -> "\n", and a "\r" pending at the
   end of what was read is flushed as "\n" (so a CRLF cut by a poll becomes two newlines). *)
Definition CR : ascii := ascii_of_nat 13.
Definition LF : ascii := ascii_of_nat 10.
Fixpoint nl_translate (s : text) : text :=
  match s with
  | [] => []
  | c :: s' => if Ascii.eqb c CR then
                 match s' with
                 | c2 :: s'' => if Ascii.eqb c2 LF then LF :: nl_translate s'' else LF :: nl_translate s'
                 | [] => [LF]
                 end
               else c :: nl_translate s'
  end.
Definition run_chunks_textmode (d : text) (raw_chunks : list text) : text * list text :=
  run_chunks d [] (map nl_translate raw_chunks).

(* ---- repaired IO layer: bytes are decoded incrementally (io.IncrementalNewlineDecoder, translate=True,
   final=False): a CR at the end of what was read is held back until the next read shows what follows it *)
Fixpoint ends_cr (s : text) : bool :=
  match s with
  | [] => false
  | c :: s' => match s' with [] => Ascii.eqb c CR | _ :: _ => ends_cr s' end
  end.
Definition strip_cr (s : text) : text := if ends_cr s then removelast s else s.
Definition nl_inc (pend : bool) (raw : text) : bool * text :=
  let s := (if pend then [CR] else []) ++ raw in
  (ends_cr s, nl_translate (strip_cr s)).
Fixpoint decode_all (pend : bool) (raws : list text) : bool * list text :=
  match raws with
  | [] => (pend, [])
  | r :: rs => let '(p1, o) := nl_inc pend r in
               let '(p2, os) := decode_all p1 rs in (p2, o :: os)
  end.
Definition run_chunks_textmode_fixed (d : text) (raw_chunks : list text) : text * list text :=
  run_chunks d [] (snd (decode_all false raw_chunks)).

(* ---- boolean helpers for the correspondence ---- *)
Fixpoint text_eqb (a b : text) : bool :=
  match a, b with
  | [], [] => true
  | x :: a', y :: b' => Ascii.eqb x y && text_eqb a' b'
  | _, _ => false
  end.
Fixpoint list_eqb {A} (eq : A -> A -> bool) (a b : list A) : bool :=
  match a, b with
  | [], [] => true
  | x :: a', y :: b' => eq x y && list_eqb eq a' b'
  | _, _ => false
  end.
Definition T (l : list nat) : text := map ascii_of_nat l.

Record tf_case := { tc_from_end : bool; tc_delim : text; tc_pre : text; tc_chunks : list text;
                    tc_obs_polls : list (list text); tc_obs_buf : text }.
Definition tf_agree (c : tf_case) : bool :=
  let '(b, rs) := run_file (tc_from_end c) (tc_delim c) (tc_pre c) (tc_chunks c) in
  text_eqb b (tc_obs_buf c) && list_eqb (list_eqb text_eqb) rs (tc_obs_polls c).
Fixpoint mism_from {A} (agree : A -> bool) (i : nat) (l : list A) : list nat :=
  match l with
  | [] => []
  | c :: t => if agree c then mism_from agree (S i) t else i :: mism_from agree (S i) t
  end.
Definition tf_mismatches (l : list tf_case) : list nat := mism_from tf_agree 0 l.

(* direct comparison of py_split with str.split *)
Record split_case := { sc_delim : text; sc_text : text; sc_obs : list text }.
Definition split_agree (c : split_case) : bool := list_eqb text_eqb (py_split (sc_delim c) (sc_text c)) (sc_obs c).
Definition split_mismatches (l : list split_case) : list nat := mism_from split_agree 0 l.
