(* C19 correspondence: a case is a construction session (requests) together with what the real streamz
   showed after every request: did the constructor raise, and (loop, asynchronous) of every live node. *)
From Coq Require Import List Arith Bool.
From SZ Require Import Ext.LoopPercolate.
Import ListNotations.

Definition snapshot := list (option loop_id * option bool).
Inductive ostep := OOk (s : snapshot) | ORaise (s : snapshot).
Definition case := list (request * ostep).

Definition oloop_eqb (a b : option loop_id) : bool :=
  match a, b with Some x, Some y => loop_eqb x y | None, None => true | _, _ => false end.
Definition oasync_eqb (a b : option bool) : bool :=
  match a, b with Some x, Some y => Bool.eqb x y | None, None => true | _, _ => false end.
Fixpoint snap_eqb (a b : snapshot) : bool :=
  match a, b with
  | [], [] => true
  | (l, m) :: a', (l', m') :: b' => oloop_eqb l l' && oasync_eqb m m' && snap_eqb a' b'
  | _, _ => false
  end.
Definition snap (g : graph) : snapshot := map (fun nd => (nloop nd, nasync nd)) g.

Fixpoint agree (c : cfg) (g : graph) (cs : case) : bool :=
  match cs with
  | [] => true
  | (r, o) :: rest =>
    match construct c g r, o with
    | Ok g', OOk s => snap_eqb (snap g') s && agree c g' rest
    | Raise g', ORaise s => snap_eqb (snap g') s && agree c g' rest
    | _, _ => false
    end
  end.

Fixpoint mism_from (c : cfg) (k : nat) (cases : list case) : list nat :=
  match cases with
  | [] => []
  | cs :: rest => if agree c [] cs then mism_from c (S k) rest else k :: mism_from c (S k) rest
  end.
Definition mismatches (c : cfg) (cases : list case) : list nat := mism_from c 0 cases.

(* what the model predicts, for reports *)
Fixpoint predict (c : cfg) (g : graph) (rs : list request) : list ostep :=
  match rs with
  | [] => []
  | r :: rest => match construct c g r with
                 | Ok g' => OOk (snap g') :: predict c g' rest
                 | Raise g' => ORaise (snap g') :: predict c g' rest
                 | OutOfFuel => [] end
  end.

(* short names used by the generated files *)
Definition lN : option loop_id := None.
Definition lC := Some Current.
Definition lB := Some Background.
Definition l1 := Some (UserLoop 1).
Definition l2 := Some (UserLoop 2).
Definition lX := Some (UserLoop 99).   (* a loop object the harness cannot name: never matches *)
Definition aN : option bool := None.
Definition aT := Some true.
Definition aF := Some false.
Definition Q := mkReq.
Definition v_found := mkCfg false false false.
Definition v_init := mkCfg true false false.
Definition v_join := mkCfg false true false.
Definition v_both := mkCfg true true false.
