(* C20 proofs over Ext/DaskFutures.v *)
From Coq Require Import List ZArith Bool Arith Lia.
From SZ Require Import Base.Values.
From SZ Require Import Ext.DaskFutures.
Import ListNotations.
Close Scope Z_scope.
Open Scope nat_scope.

(* ---- futures ------------------------------------------------------------------------------------ *)
Lemma fx_ind' (P : fx -> Prop) :
  (forall i, P (XFut i)) -> (forall v, P (XVal v)) -> (forall l, Forall P l -> P (XTup l)) ->
  forall x, P x.
Proof.
  intros H1 H2 H3. fix IH 1. intros [i|v|l]; [apply H1|apply H2|apply H3].
  induction l as [|h t IHl]; constructor; [apply IH | exact IHl].
Qed.

(* the value of an expression depends only on the futures it mentions *)
Lemma resolve_ext l1 l2 x : (forall i, In i (deps x) -> l1 i = l2 i) -> resolve l1 x = resolve l2 x.
Proof.
  induction x as [i|v|l IH] using fx_ind'; intros H; cbn.
  - apply H. cbn. auto.
  - reflexivity.
  - f_equal. induction IH as [|h t Hh Ht IHt]; cbn; [reflexivity|].
    f_equal.
    + apply Hh. intros i Hi. apply H. cbn. apply in_or_app. auto.
    + apply IHt. intros i Hi. apply H. cbn. apply in_or_app. auto.
Qed.

Lemma eval_task_ext l1 l2 t : (forall i, In i (task_deps t) -> l1 i = l2 i) -> eval_task l1 t = eval_task l2 t.
Proof.
  destruct t as [v|f a|f a b|f a|i a]; cbn; intros H; try reflexivity.
  - rewrite (resolve_ext l1 l2 a H). reflexivity.
  - rewrite (resolve_ext l1 l2 a), (resolve_ext l1 l2 b); [reflexivity| |];
      intros i Hi; apply H; apply in_or_app; auto.
  - rewrite (resolve_ext l1 l2 a H). reflexivity.
  - rewrite (resolve_ext l1 l2 a H). reflexivity.
Qed.

(* ---- the store determines every value ------------------------------------------------------------ *)
Lemma eval_store_snoc st t :
  eval_store (st ++ [t]) = eval_store st ++ [eval_task (look_of (eval_store st)) t].
Proof. unfold eval_store. rewrite fold_left_app. reflexivity. Qed.

Lemma eval_store_length st : length (eval_store st) = length st.
Proof.
  induction st as [|t st IH] using rev_ind; [reflexivity|].
  rewrite eval_store_snoc, !app_length, IH. reflexivity.
Qed.

Lemma look_of_app_lt vs ws i : i < length vs -> look_of (vs ++ ws) i = look_of vs i.
Proof. intros H. unfold look_of. apply app_nth1. exact H. Qed.

(* force (submit f x) = f (force x): the value of a submitted task is the function applied to the values
   of its arguments - no reference to when, or in which order, anything finishes *)
Theorem force_submit st f x :
  force (fst (submit st (TApp1 f x))) (snd (submit st (TApp1 f x))) = f (force st x).
Proof.
  unfold submit, force. cbn [fst snd resolve].
  rewrite eval_store_snoc. unfold look_of at 1.
  rewrite app_nth2 by (rewrite eval_store_length; lia). rewrite eval_store_length, Nat.sub_diag. reflexivity.
Qed.

Theorem force_submit2 st f a b :
  force (fst (submit st (TApp2 f a b))) (snd (submit st (TApp2 f a b))) = f (force st a) (force st b).
Proof.
  unfold submit, force. cbn [fst snd resolve].
  rewrite eval_store_snoc. unfold look_of at 1.
  rewrite app_nth2 by (rewrite eval_store_length; lia). rewrite eval_store_length, Nat.sub_diag. reflexivity.
Qed.

Theorem force_submitN st f a :
  force (fst (submit st (TAppN f a))) (snd (submit st (TAppN f a))) = f (tup_items (force st a)).
Proof.
  unfold submit, force. cbn [fst snd resolve].
  rewrite eval_store_snoc. unfold look_of at 1.
  rewrite app_nth2 by (rewrite eval_store_length; lia). rewrite eval_store_length, Nat.sub_diag. reflexivity.
Qed.

(* earlier futures keep their value when the store grows *)
Lemma force_stable st ts x : Forall (fun i => i < length st) (deps x) -> force (st ++ ts) x = force st x.
Proof.
  intros Hwf. unfold force. apply resolve_ext. intros i Hi. rewrite Forall_forall in Hwf. specialize (Hwf i Hi).
  revert st Hwf. induction ts as [|t ts IH] using rev_ind; intros st Hwf; [rewrite app_nil_r; reflexivity|].
  rewrite app_assoc, eval_store_snoc.
  rewrite look_of_app_lt by (rewrite eval_store_length, app_length; lia). apply IH. exact Hwf.
Qed.

Lemma consistent_app look st ts : consistent look (st ++ ts) -> consistent look st.
Proof.
  intros H k t Hk. apply H. rewrite nth_error_app1; [exact Hk|].
  apply nth_error_Some. rewrite Hk. discriminate.
Qed.

Lemma consistent_at look st t r : consistent look (st ++ t :: r) -> look (length st) = eval_task look t.
Proof.
  intros H. apply H. rewrite nth_error_app2 by lia. rewrite Nat.sub_diag. reflexivity.
Qed.

(* the canonical valuation satisfies every task's equation (so consistent valuations exist) ... *)
Theorem eval_store_consistent st : wf_store st -> consistent (look_of (eval_store st)) st.
Proof.
  induction st as [|t st IH] using rev_ind; intros Hwf k t' Hk.
  - destruct k; discriminate.
  - assert (Hwf' : wf_store st).
    { intros k0 t0 H0. apply (Hwf k0 t0). rewrite nth_error_app1; [exact H0|].
      apply nth_error_Some. rewrite H0. discriminate. }
    specialize (IH Hwf').
    assert (Hk' : k < length (st ++ [t])) by (apply nth_error_Some; rewrite Hk; discriminate).
    rewrite app_length in Hk'. cbn in Hk'.
    pose proof (Hwf k t' Hk) as Hd. rewrite Forall_forall in Hd.
    rewrite eval_store_snoc.
    destruct (Nat.eq_dec k (length st)) as [->|Hne].
    + rewrite nth_error_app2 in Hk by lia. rewrite Nat.sub_diag in Hk. injection Hk as <-.
      unfold look_of at 1. rewrite app_nth2 by (rewrite eval_store_length; lia).
      rewrite eval_store_length, Nat.sub_diag. cbn [nth].
      apply eval_task_ext. intros i Hi. symmetry. apply look_of_app_lt.
      rewrite eval_store_length. apply Hd. exact Hi.
    + rewrite nth_error_app1 in Hk by lia.
      rewrite look_of_app_lt by (rewrite eval_store_length; lia).
      rewrite (IH k t' Hk).
      apply eval_task_ext. intros i Hi. symmetry. apply look_of_app_lt.
      rewrite eval_store_length. specialize (Hd i Hi). lia.
Qed.

(* ... and it is the only one: two valuations satisfying the equations of a well-formed store agree *)
Theorem consistent_unique st l1 l2 : wf_store st -> consistent l1 st -> consistent l2 st ->
  forall k, k < length st -> l1 k = l2 k.
Proof.
  intros Hwf H1 H2 k. induction k as [k IH] using lt_wf_ind. intros Hk.
  destruct (nth_error st k) as [t|] eqn:E; [|apply nth_error_None in E; lia].
  rewrite (H1 k t E), (H2 k t E). apply eval_task_ext. intros i Hi.
  pose proof (Hwf k t E) as Hd. rewrite Forall_forall in Hd. specialize (Hd i Hi).
  apply IH; lia.
Qed.

(* ---- the cluster: any completion order computes the same values ------------------------------------ *)
Definition fin_ok (look : nat -> val) (f : fin) : Prop := forall k v, fin_get f k = Some v -> look k = v.

Lemma all_done_look look f ids : fin_ok look f -> all_done f ids = true ->
  forall i, In i ids -> fin_look f i = look i.
Proof.
  intros Hok Had i Hi. unfold all_done in Had. rewrite forallb_forall in Had. specialize (Had i Hi).
  unfold fin_look. destruct (fin_get f i) as [v|] eqn:E; [|discriminate].
  symmetry. apply Hok. exact E.
Qed.

Lemma complete_ok look st f k : consistent look st -> fin_ok look f -> fin_ok look (complete st f k).
Proof.
  intros Hc Hok. unfold complete. destruct (nth_error st k) as [t|] eqn:Et; [|exact Hok].
  destruct (eligible st f k) eqn:El; [|exact Hok].
  unfold eligible in El. rewrite Et in El. destruct (fin_get f k) eqn:Eg; [discriminate|].
  intros k' v Hg. cbn [fin_get] in Hg. destruct (k =? k') eqn:Ek.
  - apply Nat.eqb_eq in Ek. subst k'. injection Hg as <-.
    rewrite (Hc k t Et). apply eval_task_ext. intros i Hi. symmetry.
    apply (all_done_look look f (task_deps t)); assumption.
  - apply Hok. exact Hg.
Qed.

(* determinacy: whatever (dependency-respecting or not: ineligible completions are no-ops) order the
   cluster finishes tasks in, every finished future holds the value the store assigns to it *)
Theorem completion_determinate look st order f0 :
  consistent look st -> fin_ok look f0 -> fin_ok look (cluster_run st order f0).
Proof.
  intros Hc. unfold cluster_run. revert f0. induction order as [|k t IH]; intros f0 H0; cbn [fold_left].
  - exact H0.
  - apply IH. apply complete_ok; assumption.
Qed.

Corollary completion_order_irrelevant st order1 order2 k v1 v2 :
  wf_store st ->
  fin_get (cluster_run st order1 []) k = Some v1 ->
  fin_get (cluster_run st order2 []) k = Some v2 -> v1 = v2 /\ v1 = force st (XFut k).
Proof.
  intros Hwf H1 H2.
  pose proof (eval_store_consistent st Hwf) as Hc.
  assert (H0 : fin_ok (look_of (eval_store st)) []) by (intros ? ? H; discriminate).
  pose proof (completion_determinate _ st order1 [] Hc H0 k v1 H1) as E1.
  pose proof (completion_determinate _ st order2 [] Hc H0 k v2 H2) as E2.
  unfold force. cbn [resolve]. split; congruence.
Qed.

(* a finished set only grows, and only by eligible tasks *)
Lemma complete_mono st f k i v : fin_get f i = Some v -> fin_get (complete st f k) i = Some v.
Proof.
  intros H. unfold complete. destruct (nth_error st k); [|exact H].
  destruct (eligible st f k) eqn:El; [|exact H].
  cbn [fin_get]. destruct (k =? i) eqn:Ek; [|exact H].
  apply Nat.eqb_eq in Ek. subst i. unfold eligible in El.
  destruct (nth_error st k); [|discriminate]. rewrite H in El. discriminate.
Qed.

(* ---- the core nodes are the same code on futures: they commute with resolving -------------------- *)
Section CoreMap.
  Context {A B : Type} (g : A -> B) (tA : list A -> A) (tB : list B -> B).
  Hypothesis Htup : forall l, g (tA l) = tB (map g l).

  Lemma skipn_map' n (l : list A) : skipn n (map g l) = map g (skipn n l).
  Proof. revert l; induction n; intros [|h t]; cbn; auto. Qed.

  Lemma part_step_map n buf x :
    part_step tB n (map g buf) (g x)
    = (map g (fst (part_step tA n buf x)), option_map g (snd (part_step tA n buf x))).
  Proof.
    unfold part_step. change [g x] with (map g [x]). rewrite <- map_app, map_length.
    destruct (length (buf ++ [x]) =? n); cbn; [rewrite Htup|]; reflexivity.
  Qed.

  Lemma slide_step_map n p buf x :
    slide_step tB n p (map g buf) (g x)
    = (map g (fst (slide_step tA n p buf x)), option_map g (snd (slide_step tA n p buf x))).
  Proof.
    unfold slide_step, lastn. change [g x] with (map g [x]).
    rewrite <- map_app, map_length, skipn_map', map_length. cbn [fst snd].
    destruct (p || _); cbn; [rewrite Htup|]; reflexivity.
  Qed.

  Lemma zip_a_map za zb y :
    zip_a tB (map g za) (map g zb) (g y)
    = (map g (fst (fst (zip_a tA za zb y))), map g (snd (fst (zip_a tA za zb y))), option_map g (snd (zip_a tA za zb y))).
  Proof.
    destruct za as [|a za], zb as [|b zb]; cbn; rewrite ?map_app, ?Htup; reflexivity.
  Qed.

  Lemma zip_b_map za zb y :
    zip_b tB (map g za) (map g zb) (g y)
    = (map g (fst (fst (zip_b tA za zb y))), map g (snd (fst (zip_b tA za zb y))), option_map g (snd (zip_b tA za zb y))).
  Proof.
    destruct za as [|a za], zb as [|b zb]; cbn; rewrite ?map_app, ?Htup; reflexivity.
  Qed.
End CoreMap.

Lemma resolve_tup look l : resolve look (XTup l) = VTup (map (resolve look) l).
Proof. reflexivity. Qed.

Lemma consistent_at1 look st t0 t r :
  consistent look (st ++ t0 :: t :: r) -> look (length st + 1) = eval_task look t.
Proof.
  intros H. replace (st ++ t0 :: t :: r) with ((st ++ [t0]) ++ t :: r) in H by (rewrite <- app_assoc; reflexivity).
  apply consistent_at in H. rewrite app_length in H. exact H.
Qed.
Lemma consistent_at2 look st t0 t1 t r :
  consistent look (st ++ t0 :: t1 :: t :: r) -> look (length st + 2) = eval_task look t.
Proof.
  intros H. replace (st ++ t0 :: t1 :: t :: r) with ((st ++ [t0; t1]) ++ t :: r) in H by (rewrite <- app_assoc; reflexivity).
  apply consistent_at in H. rewrite app_length in H. exact H.
Qed.

(* ---- one node: the dask class against the core class --------------------------------------------- *)
(* Whatever valuation satisfies the tasks created so far (in particular the values the cluster computes,
   in any completion order), the dask node's state and output resolve to the local node's state and output. *)
Lemma dstep_sim l q st x q' st' o :
  dstep l q st x = (q', st', o) ->
  (exists ts, st' = st ++ ts) /\
  forall look, consistent look st' ->
    lstep l (qmap (resolve look) q) (resolve look x) = (qmap (resolve look) q', option_map (resolve look) o).
Proof.
  intros H.
  destruct l as [f|f|f s0 rs ws|n|n p|]; destruct q as [|[s|]|b]; cbn [dstep] in H;
    try (injection H as <- <- <-; split; [exists []; rewrite app_nil_r; reflexivity | intros; reflexivity]);
    try (injection H as <- <- <-; split; [eexists; reflexivity|]; intros look Hc; cbn;
         rewrite (consistent_at _ _ _ _ Hc); reflexivity).
  - (* accumulate, state present *)
    destruct rs.
    + injection H as <- <- <-. split; [eexists; reflexivity|]. intros look Hc.
      pose proof (consistent_at _ _ _ _ Hc) as H0. pose proof (consistent_at1 _ _ _ _ _ Hc) as H1.
      pose proof (consistent_at2 _ _ _ _ _ _ Hc) as H2. cbn [eval_task resolve] in H0, H1, H2.
      cbn [lstep qmap option_map]. rewrite <- H0, <- H1, <- H2.
      destruct ws; reflexivity.
    + injection H as <- <- <-. split; [eexists; reflexivity|]. intros look Hc.
      pose proof (consistent_at _ _ _ _ Hc) as H0. cbn [eval_task] in H0.
      cbn [lstep qmap option_map]. rewrite <- H0. destruct ws; reflexivity.
  - (* accumulate, no state yet *)
    injection H as <- <- <-. split; [exists []; rewrite app_nil_r; reflexivity|]. intros look Hc.
    cbn. destruct ws; reflexivity.
  - (* partition *)
    destruct (part_step XTup n b x) as [b' o'] eqn:E. injection H as <- <- <-.
    split; [exists []; rewrite app_nil_r; reflexivity|]. intros look Hc. cbn [lstep qmap].
    rewrite (part_step_map (resolve look) XTup VTup (resolve_tup look)), E. reflexivity.
  - (* sliding_window *)
    destruct (slide_step XTup n p b x) as [b' o'] eqn:E. injection H as <- <- <-.
    split; [exists []; rewrite app_nil_r; reflexivity|]. intros look Hc. cbn [lstep qmap].
    rewrite (slide_step_map (resolve look) XTup VTup (resolve_tup look)), E. reflexivity.
Qed.

(* the three classes dask.py re-implements, spelled out *)
Theorem dask_map_equiv f q st x look :
  let '(q', st', o) := dstep (LMap f) q st x in
  consistent look st' ->
  option_map (resolve look) o = Some (f (resolve look x)) /\ q' = q.
Proof.
  destruct q as [|a|b]; cbn; intros Hc; rewrite (consistent_at _ _ _ _ Hc); split; reflexivity.
Qed.

Theorem dask_starmap_equiv f q st x look :
  let '(q', st', o) := dstep (LStarmap f) q st x in
  consistent look st' ->
  option_map (resolve look) o = Some (f (tup_items (resolve look x))) /\ q' = q.
Proof.
  destruct q as [|a|b]; cbn; intros Hc; rewrite (consistent_at _ _ _ _ Hc); split; reflexivity.
Qed.

(* accumulate: with or without start (state = None: the first element becomes the state and passes
   through), returns_state via two getitem tasks, with_state emitting (state, result) *)
Theorem dask_accumulate_equiv f start rs ws state st x look :
  let '(q', st', o) := dstep (LAccum f start rs ws) (QAcc state) st x in
  consistent look st' ->
  lstep (LAccum f start rs ws) (QAcc (option_map (resolve look) state)) (resolve look x)
  = (qmap (resolve look) q', option_map (resolve look) o).
Proof.
  destruct (dstep (LAccum f start rs ws) (QAcc state) st x) as [[q' st'] o] eqn:E.
  intros Hc. destruct (dstep_sim _ _ _ _ _ _ _ E) as [_ S]. exact (S look Hc).
Qed.

(* ---- chains, stages, pipelines ---------------------------------------------------------------------- *)
Lemma dchain_sim ls : forall qs st x qs' st' o,
  dchain ls qs st x = (qs', st', o) ->
  (exists ts, st' = st ++ ts) /\
  forall look, consistent look st' ->
    lchain ls (map (qmap (resolve look)) qs) (resolve look x)
    = (map (qmap (resolve look)) qs', option_map (resolve look) o).
Proof.
  induction ls as [|l ls IH]; intros qs st x qs' st' o H.
  - cbn in H. injection H as <- <- <-. split; [exists []; rewrite app_nil_r; reflexivity|]. intros; reflexivity.
  - destruct qs as [|q qs]; cbn [dchain] in H.
    + injection H as <- <- <-. split; [exists []; rewrite app_nil_r; reflexivity|]. intros; reflexivity.
    + destruct (dstep l q st x) as [[q1 st1] o1] eqn:E1. destruct o1 as [y|].
      * destruct (dchain ls qs st1 y) as [[qs2 st2] o2] eqn:E2. injection H as <- <- <-.
        destruct (dstep_sim _ _ _ _ _ _ _ E1) as [[ts1 ->] S1].
        destruct (IH _ _ _ _ _ _ E2) as [[ts2 ->] S2].
        split; [exists (ts1 ++ ts2); rewrite app_assoc; reflexivity|]. intros look Hc. cbn [lchain map].
        rewrite (S1 look (consistent_app _ _ _ Hc)). cbn [option_map]. rewrite (S2 look Hc). reflexivity.
      * injection H as <- <- <-. destruct (dstep_sim _ _ _ _ _ _ _ E1) as [[ts1 ->] S1].
        split; [eexists; reflexivity|]. intros look Hc. cbn [lchain map]. rewrite (S1 look Hc). reflexivity.
Qed.

Definition ksim (k : list (sst fx) -> store -> fx -> list (sst fx) * store * list fx)
           (kl : list (sst val) -> val -> list (sst val) * list val) : Prop :=
  forall r st y r' st' outs, k r st y = (r', st', outs) ->
    (exists ts, st' = st ++ ts) /\
    forall look, consistent look st' ->
      kl (map (smap (resolve look)) r) (resolve look y)
      = (map (smap (resolve look)) r', map (resolve look) outs).

Lemma dpush_sim k kl r st o r' st' outs : ksim k kl ->
  dpush k r st o = (r', st', outs) ->
  (exists ts, st' = st ++ ts) /\
  forall look, consistent look st' ->
    lpush kl (map (smap (resolve look)) r) (option_map (resolve look) o)
    = (map (smap (resolve look)) r', map (resolve look) outs).
Proof.
  intros Hk H. destruct o as [y|]; cbn [dpush] in H.
  - exact (Hk _ _ _ _ _ _ H).
  - injection H as <- <- <-. split; [exists []; rewrite app_nil_r; reflexivity|]. intros; reflexivity.
Qed.

Lemma zip_a_opt look oa za zb za1 zb1 e1 :
  match oa with Some y => zip_a XTup za zb y | None => (za, zb, None) end = (za1, zb1, e1) ->
  match option_map (resolve look) oa with
  | Some y => zip_a VTup (map (resolve look) za) (map (resolve look) zb) y
  | None => (map (resolve look) za, map (resolve look) zb, None)
  end = (map (resolve look) za1, map (resolve look) zb1, option_map (resolve look) e1).
Proof.
  destruct oa as [y|]; cbn [option_map]; intros H.
  - rewrite (zip_a_map (resolve look) XTup VTup (resolve_tup look)), H. reflexivity.
  - injection H as <- <- <-. reflexivity.
Qed.

Lemma zip_b_opt look oa za zb za1 zb1 e1 :
  match oa with Some y => zip_b XTup za zb y | None => (za, zb, None) end = (za1, zb1, e1) ->
  match option_map (resolve look) oa with
  | Some y => zip_b VTup (map (resolve look) za) (map (resolve look) zb) y
  | None => (map (resolve look) za, map (resolve look) zb, None)
  end = (map (resolve look) za1, map (resolve look) zb1, option_map (resolve look) e1).
Proof.
  destruct oa as [y|]; cbn [option_map]; intros H.
  - rewrite (zip_b_map (resolve look) XTup VTup (resolve_tup look)), H. reflexivity.
  - injection H as <- <- <-. reflexivity.
Qed.

Lemma map_olist {A B} (g : A -> B) o : map g (olist o) = olist (option_map g o).
Proof. destruct o; reflexivity. Qed.

Lemma dsstep_sim s q k kl r st x q' r' st' outs : ksim k kl ->
  dsstep s q k r st x = (q', r', st', outs) ->
  (exists ts, st' = st ++ ts) /\
  forall look, consistent look st' ->
    lsstep s (smap (resolve look) q) kl (map (smap (resolve look)) r) (resolve look x)
    = (smap (resolve look) q', map (smap (resolve look)) r', map (resolve look) outs).
Proof.
  intros Hk H.
  destruct s as [l|a b|a b]; destruct q as [q|qa qb za zb]; cbn [dsstep] in H;
    try (injection H as <- <- <- <-; split; [exists []; rewrite app_nil_r; reflexivity | intros; reflexivity]).
  - (* leaf *)
    destruct (dstep l q st x) as [[q1 st1] o] eqn:E1.
    destruct (dpush k r st1 o) as [[r1 st2] outs1] eqn:E2. injection H as <- <- <- <-.
    destruct (dstep_sim _ _ _ _ _ _ _ E1) as [[ts1 ->] S1].
    destruct (dpush_sim _ _ _ _ _ _ _ _ Hk E2) as [[ts2 ->] S2].
    split; [exists (ts1 ++ ts2); rewrite app_assoc; reflexivity|]. intros look Hc. cbn [lsstep smap].
    rewrite (S1 look (consistent_app _ _ _ Hc)), (S2 look Hc). reflexivity.
  - (* zip *)
    destruct (dchain a qa st x) as [[qa' st1] oa] eqn:E1.
    destruct (match oa with Some y => zip_a XTup za zb y | None => (za, zb, None) end) as [[za1 zb1] e1] eqn:Z1.
    destruct (dpush k r st1 e1) as [[r1 st2] o1] eqn:E2.
    destruct (dchain b qb st2 x) as [[qb' st3] ob] eqn:E3.
    destruct (match ob with Some y => zip_b XTup za1 zb1 y | None => (za1, zb1, None) end) as [[za2 zb2] e2] eqn:Z2.
    destruct (dpush k r1 st3 e2) as [[r2 st4] o2] eqn:E4. injection H as <- <- <- <-.
    destruct (dchain_sim _ _ _ _ _ _ _ E1) as [[ts1 ->] S1].
    destruct (dpush_sim _ _ _ _ _ _ _ _ Hk E2) as [[ts2 ->] S2].
    destruct (dchain_sim _ _ _ _ _ _ _ E3) as [[ts3 ->] S3].
    destruct (dpush_sim _ _ _ _ _ _ _ _ Hk E4) as [[ts4 ->] S4].
    split; [exists (ts1 ++ ts2 ++ ts3 ++ ts4); rewrite !app_assoc; reflexivity|]. intros look Hc.
    cbn [lsstep smap].
    pose proof (consistent_app _ _ _ Hc) as Hc3. pose proof (consistent_app _ _ _ Hc3) as Hc2.
    pose proof (consistent_app _ _ _ Hc2) as Hc1.
    rewrite (S1 look Hc1), (zip_a_opt look _ _ _ _ _ _ Z1), (S2 look Hc2), (S3 look Hc3),
      (zip_b_opt look _ _ _ _ _ _ Z2), (S4 look Hc). rewrite map_app. reflexivity.
  - (* union *)
    destruct (dchain a qa st x) as [[qa' st1] oa] eqn:E1.
    destruct (dpush k r st1 oa) as [[r1 st2] o1] eqn:E2.
    destruct (dchain b qb st2 x) as [[qb' st3] ob] eqn:E3.
    destruct (dpush k r1 st3 ob) as [[r2 st4] o2] eqn:E4. injection H as <- <- <- <-.
    destruct (dchain_sim _ _ _ _ _ _ _ E1) as [[ts1 ->] S1].
    destruct (dpush_sim _ _ _ _ _ _ _ _ Hk E2) as [[ts2 ->] S2].
    destruct (dchain_sim _ _ _ _ _ _ _ E3) as [[ts3 ->] S3].
    destruct (dpush_sim _ _ _ _ _ _ _ _ Hk E4) as [[ts4 ->] S4].
    split; [exists (ts1 ++ ts2 ++ ts3 ++ ts4); rewrite !app_assoc; reflexivity|]. intros look Hc.
    cbn [lsstep smap].
    pose proof (consistent_app _ _ _ Hc) as Hc3. pose proof (consistent_app _ _ _ Hc3) as Hc2.
    pose proof (consistent_app _ _ _ Hc2) as Hc1.
    rewrite (S1 look Hc1), (S2 look Hc2), (S3 look Hc3), (S4 look Hc). rewrite map_app. reflexivity.
Qed.

Lemma dpipe_sim p : ksim (dpipe p) (lpipe p).
Proof.
  induction p as [|s p IH]; intros r st y r' st' outs H.
  - cbn in H. injection H as <- <- <-. split; [exists []; rewrite app_nil_r; reflexivity|]. intros; reflexivity.
  - destruct r as [|q qs]; cbn [dpipe] in H.
    + injection H as <- <- <-. split; [exists []; rewrite app_nil_r; reflexivity|]. intros; reflexivity.
    + destruct (dsstep s q (dpipe p) qs st y) as [[[q1 qs1] st1] o1] eqn:E. injection H as <- <- <-.
      destruct (dsstep_sim _ _ _ _ _ _ _ _ _ _ _ IH E) as [Hx S]. split; [exact Hx|].
      intros look Hc. cbn [lpipe map]. rewrite (S look Hc). reflexivity.
Qed.

Lemma qmap_inject look (q : lst val) : qmap (resolve look) (qmap XVal q) = q.
Proof.
  destruct q as [|[a|]|l]; cbn; try reflexivity.
  rewrite map_map. cbn. rewrite map_id. reflexivity.
Qed.

Lemma smap_inject look (q : sst val) : smap (resolve look) (smap XVal q) = q.
Proof.
  destruct q as [q|qa qb za zb]; cbn.
  - rewrite qmap_inject. reflexivity.
  - rewrite !map_map. cbn.
    assert (Hq : forall l : list (lst val), map (fun x => qmap (resolve look) (qmap XVal x)) l = l).
    { induction l as [|h t IHl]; cbn; [reflexivity | rewrite qmap_inject, IHl; reflexivity]. }
    rewrite !Hq, !map_id. reflexivity.
Qed.

Lemma drun_from_sim p : forall xs qs st qs' st' arr,
  drun_from p qs st xs = (qs', st', arr) ->
  (exists ts, st' = st ++ ts) /\
  forall look, consistent look st' ->
    lfeed (lpipe p) (map (smap (resolve look)) qs) xs = (map (smap (resolve look)) qs', map (resolve look) arr).
Proof.
  induction xs as [|x xs IH]; intros qs st qs' st' arr H; cbn [drun_from] in H.
  - injection H as <- <- <-. split; [exists []; rewrite app_nil_r; reflexivity|]. intros; reflexivity.
  - destruct (dpipe p qs (st ++ [TScat x]) (XFut (length st))) as [[qs1 st1] o1] eqn:E1.
    destruct (drun_from p qs1 st1 xs) as [[qs2 st2] o2] eqn:E2. injection H as <- <- <-.
    destruct (dpipe_sim p _ _ _ _ _ _ E1) as [[ts1 ->] S1].
    destruct (IH _ _ _ _ _ E2) as [[ts2 ->] S2].
    split; [exists ([TScat x] ++ ts1 ++ ts2); rewrite !app_assoc; reflexivity|]. intros look Hc. cbn [lfeed].
    pose proof (consistent_app _ _ _ Hc) as Hc1.
    pose proof (S1 look Hc1) as S1'. cbn [resolve] in S1'.
    rewrite <- app_assoc in Hc1. rewrite (consistent_at _ _ _ _ Hc1) in S1'. cbn [eval_task] in S1'.
    rewrite S1', (S2 look Hc), map_app. reflexivity.
Qed.

(* PIPELINE LEVEL.  Run the dask pipeline (scatter, the nodes, up to gather) on any inputs: it creates a
   store of tasks and a sequence of (tuples of) futures arriving at gather.  Under ANY valuation that
   satisfies the tasks' equations - by completion_determinate that includes the values any completion order
   of the cluster produces - forcing that sequence gives exactly the local pipeline's sink sequence. *)
Theorem dask_equiv p xs st arr look :
  drun p xs = (st, arr) -> consistent look st -> map (resolve look) arr = lrun p xs.
Proof.
  unfold drun, lrun, lrun_from. intros H Hc.
  destruct (drun_from p (map sinit_d p) [] xs) as [[qs' st'] arr'] eqn:E. injection H as <- <-.
  destruct (drun_from_sim p _ _ _ _ _ _ E) as [_ S]. specialize (S look Hc).
  unfold sinit_d in S. rewrite map_map in S.
  rewrite (map_ext _ sinit_l) in S by (intros s; apply smap_inject).
  rewrite S. reflexivity.
Qed.

Corollary dask_equiv_force p xs st arr :
  drun p xs = (st, arr) -> wf_store st -> map (force st) arr = lrun p xs.
Proof. intros H Hwf. apply (dask_equiv p xs st arr _ H). apply eval_store_consistent. exact Hwf. Qed.

(* ---- reference counters of scatter / gather -------------------------------------------------------- *)
Lemma remove1_length n l h : remove1 n l = Some h -> length l = S (length h).
Proof.
  revert h. induction l as [|a l IH]; intros h H; cbn in H; [discriminate|].
  destruct (a =? n).
  - injection H as <-. reflexivity.
  - destruct (remove1 n l) as [h'|]; [|discriminate]. injection H as <-. cbn. rewrite (IH h' eq_refl). reflexivity.
Qed.

Lemma rc_step_excess w e : rc_excess (rc_step w e) = rc_excess w.
Proof.
  unfold rc_excess. destruct e as [n|n]; cbn [rc_step].
  - cbn [rc_cnt rc_hold length]. lia.
  - destruct (remove1 n (rc_hold w)) as [h|] eqn:E; [|reflexivity].
    cbn [rc_cnt rc_hold]. rewrite (remove1_length _ _ _ E). lia.
Qed.

(* scatter and gather retain on entry and release after their downstream emission completed: for ANY
   interleaving of entries and exits of any number of their coroutines, count - holders never changes *)
Theorem dask_refs_balanced evs w : rc_excess (rc_run w evs) = rc_excess w.
Proof.
  unfold rc_run. revert w. induction evs as [|e t IH]; intros w; cbn [fold_left]; [reflexivity|].
  rewrite IH. apply rc_step_excess.
Qed.

(* once no coroutine of the two nodes is in flight, the count is back to what the rest of the pipeline holds *)
Corollary dask_refs_quiescent evs w :
  rc_hold (rc_run w evs) = [] -> rc_cnt (rc_run w evs) = rc_excess w.
Proof.
  intros H. pose proof (dask_refs_balanced evs w) as E. unfold rc_excess in E at 1. rewrite H in E. cbn in E. lia.
Qed.

(* while a scatter / gather coroutine is still waiting (for the cluster, or for its downstream), the count
   is positive, so RefCounter.release cannot fire the callback *)
Corollary dask_refs_not_early evs w :
  (0 <= rc_excess w)%Z -> rc_hold (rc_run w evs) <> [] -> (0 < rc_cnt (rc_run w evs))%Z.
Proof.
  intros H0 Hne. pose proof (dask_refs_balanced evs w) as E. unfold rc_excess in E at 1.
  destruct (rc_hold (rc_run w evs)) as [|a l]; [congruence|]. cbn [length] in E. lia.
Qed.

(* ---- gather: which waiting arrivals are emitted --------------------------------------------------- *)
(* repaired gather: what is emitted is a prefix of what is waiting, in arrival order *)
Lemma take_prefix_split f pend d r : take_prefix f pend = (d, r) -> pend = d ++ r.
Proof.
  revert d r. induction pend as [|x t IH]; intros d r H; cbn in H.
  - injection H as <- <-. reflexivity.
  - destruct (ready f x).
    + destruct (take_prefix f t) as [d' r'] eqn:E. injection H as <- <-. cbn. rewrite (IH d' r' eq_refl). reflexivity.
    + injection H as <- <-. reflexivity.
Qed.

(* gather as found: with at most one arrival waiting it behaves like the ordered one ... *)
Lemma take_all_single f pend : length pend <= 1 -> take_all f pend = take_prefix f pend.
Proof.
  destruct pend as [|x [|y t]]; cbn [length]; intros H; [reflexivity| |lia].
  cbn. destruct (ready f x); reflexivity.
Qed.

(* ... every emitted arrival has all its futures finished, so its value is the store's value *)
Lemma take_all_ready f pend : Forall (fun x => ready f x = true) (fst (take_all f pend)).
Proof.
  induction pend as [|x t IH]; cbn; [constructor|].
  destruct (take_all f t) as [d r]. destruct (ready f x) eqn:E; cbn in *; [constructor; assumption | exact IH].
Qed.

Lemma take_prefix_ready f pend : Forall (fun x => ready f x = true) (fst (take_prefix f pend)).
Proof.
  induction pend as [|x t IH]; cbn; [constructor|].
  destruct (ready f x) eqn:E; [|constructor].
  destruct (take_prefix f t) as [d r]. cbn in *. constructor; assumption.
Qed.

Lemma ready_value look f x : fin_ok look f -> ready f x = true -> resolve (fin_look f) x = resolve look x.
Proof.
  intros Hok Hr. apply resolve_ext. intros i Hi. apply (all_done_look look f (deps x)); assumption.
Qed.

(* what gather hands to the sink is the store's value of the arrival, whatever the completion order was *)
Theorem gather_delivers_forced look f pend ordered :
  fin_ok look f ->
  let d := fst ((if ordered : bool then take_prefix else take_all) f pend) in
  map (resolve (fin_look f)) d = map (resolve look) d.
Proof.
  intros Hok d. assert (Hr : Forall (fun x => ready f x = true) d).
  { subst d. destruct ordered; [apply take_prefix_ready | apply take_all_ready]. }
  induction Hr as [|x t Hx Ht IH]; cbn; [reflexivity|].
  rewrite (ready_value look f x Hok Hx), IH. reflexivity.
Qed.

(* ---- the fan-in case: gather as found reorders, the ordered gather does not ------------------------ *)
Definition ex_union_cfg (ordered : bool) : cfg :=
  {| c_pre := [];
     c_post := [SUnion [LMap (fun v => match v with VInt z => VInt (z + 1)%Z | _ => VNone end)]
                       [LMap (fun v => match v with VInt z => VInt (2 * z)%Z | _ => VNone end)]];
     c_ordered := ordered |}.
(* one awaited emit; the cluster finishes the second branch's task first *)
Definition ex_union_evs : list event := [EEmit (VInt 5%Z); EDone 2; EDone 1].

Theorem dask_order_fanin_refuted :
  exists c evs xs, c_ordered c = false /\
    w_pend (exec c evs) = [] /\ w_queue (exec c evs) = [] /\
    w_out (exec c evs) <> lrun (stages_of c false) xs /\
    w_out (exec c evs) = [VInt 10%Z; VInt 6%Z] /\ lrun (stages_of c false) xs = [VInt 6%Z; VInt 10%Z].
Proof.
  exists (ex_union_cfg false), ex_union_evs, [VInt 5%Z].
  repeat split; try (vm_compute; reflexivity). vm_compute. discriminate.
Qed.

Theorem dask_order_fanin_repaired :
  w_out (exec (ex_union_cfg true) ex_union_evs) = lrun (stages_of (ex_union_cfg true) false) [VInt 5%Z].
Proof. vm_compute. reflexivity. Qed.
