(* C09 — executable model of streamz.sources.FromKafkaBatched (poll_kafka with its inner commit /
   checkpoint_emit, start) against a broker reduced to what the source can see of it.

   broker : per partition a high watermark (offset one past the newest message), the low watermark is the
            configuration constant c_low (offset of the oldest retained message), and the consumer group's
            committed offset per partition (NONE = -1001 = confluent_kafka.OFFSET_INVALID = nothing committed);
   run    : what one process holds: `positions`, the `auto.offset.reset == 'latest'` flag that poll_kafka
            overwrites with 'earliest' after its first pass, the batches emitted so far (each with its own
            RefCounter in the code; here: an id) and which of them have been completely processed
            (counter reached zero -> commit callback).
   events : Produce p n | AddPartition | Poll (one pass of the `while not self.stopped` loop) |
            BatchDone i (the counter of batch i of this run reaches zero) |
            Crash (the process dies: the run state is dropped, a new process with the same configuration
            and group id starts and seeds its positions from the broker's committed offsets).
   Partition-indexed data are total functions nat -> Z (only indices below nparts / npos matter).

   c_fix selects the behaviour for partitions discovered by refresh_partitions:
     false = AS FOUND  (positions.extend([-1001] * k): the group's committed offset is not consulted),
     true  = REPAIRED  (the new positions are the committed offsets). *)
From Coq Require Import List ZArith Bool Lia Arith.
Import ListNotations.

Definition NONE : Z := (-1001)%Z.

(* ---- the arithmetic of the inner loop body (sources.py, `for partition in range(self.npartitions)`) ----
     if reset == 'latest' and positions[partition] == -1001: positions[partition] = high
     current_position = positions[partition]
     lowest = max(current_position, low)
     if high > lowest + self.max_batch_size: high = lowest + self.max_batch_size
     if high > lowest: out.append((..., lowest, high - 1)); positions[partition] = high
   result: (emitted inclusive range, new position) *)
Definition kb_clamp (pos low high maxb : Z) (reset_latest : bool) : option (Z * Z) * Z :=
  let pos1 := if reset_latest && (pos =? -1001)%Z then high else pos in
  let lowest := Z.max pos1 low in
  let high1 := if (high >? lowest + maxb)%Z then (lowest + maxb)%Z else high in
  if (high1 >? lowest)%Z then (Some (lowest, (high1 - 1)%Z), high1) else (None, pos1).

Record cfg := {
  c_maxb : Z;              (* max_batch_size *)
  c_latest : bool;         (* consumer_params['auto.offset.reset'] == 'latest' at construction (also the default) *)
  c_np : option nat;       (* npartitions argument; None = ask the broker at start *)
  c_refresh : bool;        (* refresh_partitions *)
  c_low : Z;               (* low watermark *)
  c_fix : bool;            (* see header *)
}.

Record batch := { b_id : nat; b_part : nat; b_lo : Z; b_hi : Z }.   (* offsets lo..hi inclusive, as emitted *)

Record st := {
  (* broker *)
  nparts : nat;
  high : nat -> Z;
  comm : nat -> Z;
  (* run *)
  npos : nat;              (* len(self.positions) = self.npartitions *)
  pos : nat -> Z;          (* self.positions *)
  rcomm : nat -> Z;        (* ghost: the group's committed offset of p at the moment p entered this run (whether or not
                              the code asked for it); used only to STATE where a run's first range must start *)
  flag : bool;             (* consumer_params['auto.offset.reset'] == 'latest' still in force *)
  infl : list batch;       (* batches emitted in this run, NEWEST FIRST; b_id = emission number within the run *)
  dn : list nat;           (* ids of the batches of this run whose counter has reached zero *)
}.

Inductive event :=
| Produce (p : nat) (n : nat)
| AddPartition
| Poll
| BatchDone (i : nat)
| Crash.

Definition upd (f : nat -> Z) (p : nat) (v : Z) : nat -> Z := fun q => if Nat.eqb q p then v else f q.

Definition set_run (s : st) npos' pos' rcomm' flag' infl' dn' : st :=
  {| nparts := nparts s; high := high s; comm := comm s;
     npos := npos'; pos := pos'; rcomm := rcomm'; flag := flag'; infl := infl'; dn := dn' |}.

(* start of a process: npartitions (given or from list_topics), positions = consumer.committed(...) *)
Definition new_run (c : cfg) (s : st) : st :=
  set_run s (match c_np c with Some k => Nat.min k (nparts s) | None => nparts s end)
          (comm s) (comm s) (c_latest c) [] [].

Definition broker (n : nat) (hs cs : nat -> Z) : st :=
  {| nparts := n; high := hs; comm := cs; npos := 0; pos := cs; rcomm := cs; flag := false; infl := []; dn := [] |}.

Definition produce (s : st) (p n : nat) : st :=
  if p <? nparts s then
    {| nparts := nparts s; high := upd (high s) p (high s p + Z.of_nat n); comm := comm s;
       npos := npos s; pos := pos s; rcomm := rcomm s; flag := flag s; infl := infl s; dn := dn s |}
  else s.

Definition add_partition (c : cfg) (s : st) : st :=
  {| nparts := S (nparts s); high := upd (high s) (nparts s) (c_low c); comm := upd (comm s) (nparts s) NONE;
     npos := npos s; pos := pos s; rcomm := rcomm s; flag := flag s; infl := infl s; dn := dn s |}.

(* `if self.refresh_partitions: ... if new_partitions > self.npartitions: self.positions.extend(...)` *)
Definition refresh (c : cfg) (s : st) : st :=
  if c_refresh c && (npos s <? nparts s) then
    set_run s (nparts s)
            (fun p => if npos s <=? p then (if c_fix c then comm s p else NONE) else pos s p)
            (fun p => if npos s <=? p then comm s p else rcomm s p)
            (flag s) (infl s) (dn s)
  else s.

(* loop body for one partition *)
Definition poll_part (c : cfg) (s : st) (p : nat) : st :=
  let '(r, pos') := kb_clamp (pos s p) (c_low c) (high s p) (c_maxb c) (flag s) in
  set_run s (npos s) (upd (pos s) p pos') (rcomm s) (flag s)
          (match r with
           | Some (lo, hi) => {| b_id := length (infl s); b_part := p; b_lo := lo; b_hi := hi |} :: infl s
           | None => infl s
           end) (dn s).

Definition poll (c : cfg) (s : st) : st :=
  let s1 := refresh c s in
  let s2 := fold_left (poll_part c) (seq 0 (npos s1)) s1 in
  set_run s2 (npos s2) (pos s2) (rcomm s2) false (infl s2) (dn s2).

Definition find_batch (i : nat) (l : list batch) : option batch := find (fun b => Nat.eqb (b_id b) i) l.
Definition is_done (s : st) (i : nat) : bool := existsb (Nat.eqb i) (dn s).

(* the counter of batch i reaches zero: commit(offset = hi + 1), once *)
Definition batch_done (s : st) (i : nat) : st * list (nat * Z) :=
  match find_batch i (infl s) with
  | Some b =>
      if is_done s i then (s, [])
      else ({| nparts := nparts s; high := high s; comm := upd (comm s) (b_part b) (b_hi b + 1);
               npos := npos s; pos := pos s; rcomm := rcomm s; flag := flag s; infl := infl s; dn := i :: dn s |},
            [(b_part b, (b_hi b + 1)%Z)])
  | None => (s, [])
  end.

Definition range_of (b : batch) : nat * Z * Z := (b_part b, b_lo b, b_hi b).
(* ranges emitted between s and s' (s' extends the batch list of s), oldest first *)
Definition new_ranges (s s' : st) : list (nat * Z * Z) :=
  rev (map range_of (firstn (length (infl s') - length (infl s)) (infl s'))).

Definition obs := (list (nat * Z * Z) * list (nat * Z))%type.   (* ranges emitted, commits (partition, offset) *)

Definition step (c : cfg) (s : st) (e : event) : st * obs :=
  match e with
  | Produce p n => (produce s p n, ([], []))
  | AddPartition => (add_partition c s, ([], []))
  | Poll => let s' := poll c s in (s', (new_ranges s s', []))
  | BatchDone i => let '(s', cm) := batch_done s i in (s', ([], cm))
  | Crash => (new_run c s, ([], []))
  end.

Fixpoint run (c : cfg) (s : st) (evs : list event) : st :=
  match evs with
  | [] => s
  | e :: t => run c (fst (step c s e)) t
  end.

(* in-order completion per partition: batch i may complete only when every earlier batch of its partition has *)
Definition in_order (s : st) (i : nat) : bool :=
  match find_batch i (infl s) with
  | Some b => forallb (fun a => if Nat.eqb (b_part a) (b_part b) && (b_id a <? i) then is_done s (b_id a) else true) (infl s)
  | None => true
  end.

(* latest batch of partition p (the list is newest first) *)
Definition last_of (p : nat) (l : list batch) : option batch := find (fun b => Nat.eqb (b_part b) p) l.

(* ---- correspondence with the implementation (harness/c09_impl.py) ------------------------------------
   One harness step = a list of base events (start = [Poll]; poll with a synchronous sink = Poll followed by
   the BatchDone of every batch it emitted; crash+restart = [Crash; Poll]); the observation of the step is the
   concatenation of the observations of its events. *)
Fixpoint run_events (c : cfg) (s : st) (evs : list event) : st * obs :=
  match evs with
  | [] => (s, ([], []))
  | e :: t => let '(s1, (r1, c1)) := step c s e in
              let '(s2, (r2, c2)) := run_events c s1 t in (s2, (r1 ++ r2, c1 ++ c2))
  end.

Fixpoint run_steps (c : cfg) (s : st) (steps : list (list event)) : list obs :=
  match steps with
  | [] => []
  | evs :: t => let '(s1, o) := run_events c s evs in o :: run_steps c s1 t
  end.

Record kcase := {
  k_cfg : cfg;
  k_pre : list Z;                      (* high watermark of each existing partition before the first start *)
  k_steps : list (list event);
  k_observed : list obs;
}.

Definition range_eqb (a b : nat * Z * Z) : bool :=
  Nat.eqb (fst (fst a)) (fst (fst b)) && Z.eqb (snd (fst a)) (snd (fst b)) && Z.eqb (snd a) (snd b).
Definition commit_eqb (a b : nat * Z) : bool := Nat.eqb (fst a) (fst b) && Z.eqb (snd a) (snd b).
Fixpoint list_eqb {A} (eqb : A -> A -> bool) (l1 l2 : list A) : bool :=
  match l1, l2 with
  | [], [] => true
  | a :: t1, b :: t2 => eqb a b && list_eqb eqb t1 t2
  | _, _ => false
  end.
Definition obs_eqb (a b : obs) : bool :=
  list_eqb range_eqb (fst a) (fst b) && list_eqb commit_eqb (snd a) (snd b).

Definition k_init (k : kcase) : st :=
  new_run (k_cfg k) (broker (length (k_pre k)) (fun p => nth p (k_pre k) (c_low (k_cfg k))) (fun _ => NONE)).
Definition k_model (k : kcase) : list obs := run_steps (k_cfg k) (k_init k) (k_steps k).
Definition agree (k : kcase) : bool := list_eqb obs_eqb (k_model k) (k_observed k).

Fixpoint mismatches_from (i : nat) (cs : list kcase) : list nat :=
  match cs with
  | [] => []
  | k :: t => if agree k then mismatches_from (S i) t else i :: mismatches_from (S i) t
  end.
Definition mismatches (cs : list kcase) : list nat := mismatches_from 0 cs.

(* the same cases against the as-found (false) / repaired (true) discovery of partitions *)
Definition with_fix (fx : bool) (k : kcase) : kcase :=
  {| k_cfg := {| c_maxb := c_maxb (k_cfg k); c_latest := c_latest (k_cfg k); c_np := c_np (k_cfg k);
                 c_refresh := c_refresh (k_cfg k); c_low := c_low (k_cfg k); c_fix := fx |};
     k_pre := k_pre k; k_steps := k_steps k; k_observed := k_observed k |}.
Definition mismatches_fix (fx : bool) (cs : list kcase) : list nat := mismatches (map (with_fix fx) cs).
