(* C17 — proofs about the from_textfile model (Ext/TextFile.v). *)
From Coq Require Import List Ascii Bool Arith Lia.
From SZ Require Import Ext.TextFile.
Import ListNotations.

(* d occurs in s as a contiguous substring *)
Definition occurs (d s : text) : Prop := exists b a, s = b ++ d ++ a.
(* r is `part ++ d` and d occurs in r exactly once, namely as its suffix *)
Definition rec_ok (d r : text) : Prop :=
  (exists p, r = p ++ d) /\ forall l1 l2, r = l1 ++ d ++ l2 -> l2 = [].

Definition swap {A B} (p : A * B) : B * A := (snd p, fst p).

(* ------------------------------------------------------------------ prefixb / find *)
Lemma prefixb_spec d : forall s, prefixb d s = true <-> exists a, s = d ++ a.
Proof.
  induction d as [|x d IH]; intros s; cbn [prefixb].
  - split; [intros _; exists s; reflexivity | reflexivity].
  - destruct s as [|y s].
    + split; [discriminate|]. intros [a H]. discriminate.
    + rewrite andb_true_iff, Ascii.eqb_eq, IH. split.
      * intros [-> [a ->]]. exists a. reflexivity.
      * intros [a H]. cbn in H. injection H as -> ->. eauto.
Qed.

Lemma skipn_app_exact {A} (d a : list A) : skipn (length d) (d ++ a) = a.
Proof. induction d; cbn; auto. Qed.

Lemma prefixb_app_false d : forall s t, prefixb d s = false -> length d <= length s -> prefixb d (s ++ t) = false.
Proof.
  induction d as [|x d IH]; intros s t H L; cbn in *; [discriminate|].
  destruct s as [|y s]; cbn in *; [lia|].
  destruct (Ascii.eqb x y); cbn in *; auto. apply IH; auto. lia.
Qed.

Lemma find_eq d s : find d s =
  if prefixb d s then Some ([], skipn (length d) s)
  else match s with
       | [] => None
       | c :: s' => match find d s' with Some (b, a) => Some (c :: b, a) | None => None end
       end.
Proof. destruct s; reflexivity. Qed.

Lemma find_some d : forall s b a, find d s = Some (b, a) -> s = b ++ d ++ a.
Proof.
  induction s as [|c s IH]; intros b a H; rewrite find_eq in H; destruct (prefixb d _) eqn:E.
  - injection H as <- <-. destruct d; [reflexivity|discriminate].
  - discriminate.
  - injection H as <- <-. apply prefixb_spec in E as [x ->]. now rewrite skipn_app_exact.
  - destruct (find d s) as [[b0 a0]|] eqn:F; [|discriminate]. injection H as <- <-.
    cbn. f_equal. now apply IH.
Qed.

Lemma find_none d : forall s, find d s = None -> ~ occurs d s.
Proof.
  induction s as [|c s IH]; intros H [b [a Hs]]; rewrite find_eq in H; destruct (prefixb d _) eqn:E; try discriminate.
  - destruct b; [|discriminate]. cbn in Hs.
    assert (prefixb d [] = true) by (apply prefixb_spec; eauto). congruence.
  - destruct (find d s) as [[b0 a0]|] eqn:F; [discriminate|].
    destruct b as [|c' b].
    + assert (prefixb d (c :: s) = true) by (apply prefixb_spec; eauto). congruence.
    + cbn in Hs. injection Hs as -> Hs. apply IH; auto. exists b, a. exact Hs.
Qed.

Lemma find_leftmost d : forall s b a, find d s = Some (b, a) ->
  forall b' a', s = b' ++ d ++ a' -> length b <= length b'.
Proof.
  induction s as [|c s IH]; intros b a H b' a' Hs; rewrite find_eq in H; destruct (prefixb d _) eqn:E.
  - injection H as <- <-. cbn. lia.
  - discriminate.
  - injection H as <- <-. cbn. lia.
  - destruct (find d s) as [[b0 a0]|] eqn:F; [|discriminate]. injection H as <- <-.
    destruct b' as [|c' b'].
    + assert (prefixb d (c :: s) = true) by (apply prefixb_spec; eauto). congruence.
    + cbn in Hs. injection Hs as -> Hs. cbn. apply le_n_S. eapply IH; eauto.
Qed.

Lemma occurs_find d s : occurs d s -> exists b a, find d s = Some (b, a).
Proof.
  intros H. destruct (find d s) as [[b a]|] eqn:F; eauto. exfalso. eapply find_none; eauto.
Qed.

Lemma not_occurs_find d s : ~ occurs d s -> find d s = None.
Proof.
  intros H. destruct (find d s) as [[b a]|] eqn:F; auto. exfalso. apply H. exists b, a. now apply find_some.
Qed.

Lemma find_length d s b a : find d s = Some (b, a) -> length s = length b + length d + length a.
Proof. intros H. apply find_some in H. subst. rewrite !app_length. lia. Qed.

Lemma contains_find d : forall s, contains d s = match find d s with Some _ => true | None => false end.
Proof.
  induction s as [|c s IH]; rewrite find_eq; cbn [contains]; destruct (prefixb d _); cbn; auto.
  rewrite IH. destruct (find d s) as [[? ?]|]; reflexivity.
Qed.

Lemma contains_occurs d s : contains d s = true <-> occurs d s.
Proof.
  rewrite contains_find. split.
  - destruct (find d s) as [[b a]|] eqn:F; [|discriminate]. intros _. exists b, a. now apply find_some.
  - intros H. apply occurs_find in H as [b [a ->]]. reflexivity.
Qed.

(* CORE: a leftmost match found in a text stays the leftmost match when more text is appended *)
Lemma find_app d : forall s t b a, find d s = Some (b, a) -> find d (s ++ t) = Some (b, a ++ t).
Proof.
  induction s as [|c s IH]; intros t b a H; rewrite find_eq in H; destruct (prefixb d _) eqn:E; try discriminate.
  - injection H as <- <-. apply prefixb_spec in E as [x E]. destruct d; [|discriminate]. cbn in E. subst x.
    rewrite find_eq. cbn. reflexivity.
  - injection H as <- <-. apply prefixb_spec in E as [x E]. rewrite E.
    rewrite find_eq. rewrite <- app_assoc.
    assert (P : prefixb d (d ++ x ++ t) = true) by (apply prefixb_spec; eauto).
    rewrite P. now rewrite !skipn_app_exact.
  - destruct (find d s) as [[b0 a0]|] eqn:F; [|discriminate]. injection H as <- <-.
    rewrite find_eq.
    rewrite prefixb_app_false; auto.
    + cbn [app]. rewrite (IH t b0 a0 eq_refl). reflexivity.
    + apply find_length in F. cbn. lia.
Qed.

(* ------------------------------------------------------------------ fuel is irrelevant *)
Lemma split_f_enough d : d <> [] -> forall f f' s, length s <= f -> length s <= f' -> split_f f d s = split_f f' d s.
Proof.
  intros Hd. induction f as [|f IH]; intros f' s L L'.
  - destruct f'; cbn [split_f]; destruct (find d s) as [[b a]|] eqn:F; auto.
    apply find_length in F. destruct d; [congruence|]. cbn in F. lia.
  - destruct f'; cbn [split_f]; destruct (find d s) as [[b a]|] eqn:F; auto.
    + apply find_length in F. destruct d; [congruence|]. cbn in F. lia.
    + f_equal. apply find_length in F. destruct d; [congruence|]. cbn in F. apply IH; lia.
Qed.

Lemma py_split_none d s : find d s = None -> py_split d s = [s].
Proof. intros H. unfold py_split. destruct (length s); cbn [split_f]; rewrite H; reflexivity. Qed.

Lemma py_split_some d s b a : d <> [] -> find d s = Some (b, a) -> py_split d s = b :: py_split d a.
Proof.
  intros Hd H. unfold py_split. pose proof (find_length _ _ _ _ H) as L.
  destruct d as [|x d]; [congruence|]. cbn in L.
  destruct (length s) as [|n] eqn:Ls; [lia|]. cbn [split_f]. rewrite H. f_equal.
  apply split_f_enough; [discriminate| lia | lia].
Qed.

Lemma split_f_nonempty d f s : split_f f d s <> [].
Proof. destruct f; cbn; destruct (find d s) as [[? ?]|]; discriminate. Qed.

Lemma py_split_nonempty d s : py_split d s <> [].
Proof. apply split_f_nonempty. Qed.

Definition of_parts (d : text) (parts : list text) : list text * text :=
  (map (fun p => p ++ d) (removelast parts), last parts []).

Lemma scan_f_split_f d : forall f s, scan_f f d s = of_parts d (split_f f d s).
Proof.
  induction f as [|f IH]; intros s; cbn [scan_f split_f]; destruct (find d s) as [[b a]|]; try reflexivity.
  rewrite IH. unfold of_parts. pose proof (split_f_nonempty d f a) as N.
  destruct (split_f f d a) as [|p l] eqn:E; [congruence|]. reflexivity.
Qed.

Lemma scan_split d s : scan d s = of_parts d (py_split d s).
Proof. apply scan_f_split_f. Qed.

Lemma scan_none d s : find d s = None -> scan d s = ([], s).
Proof. intros H. rewrite scan_split, py_split_none; auto. Qed.

Lemma scan_some d s b a : d <> [] -> find d s = Some (b, a) ->
  scan d s = ((b ++ d) :: fst (scan d a), snd (scan d a)).
Proof.
  intros Hd H. rewrite !scan_split, (py_split_some d s b a Hd H). unfold of_parts.
  pose proof (py_split_nonempty d a) as N. destruct (py_split d a) as [|p l]; [congruence|]. reflexivity.
Qed.

(* induction principle on the length of the text *)
Lemma text_ind_len (P : text -> Prop) :
  (forall s, (forall s', length s' < length s -> P s') -> P s) -> forall s, P s.
Proof.
  intros H s. remember (length s) as n eqn:E. revert s E.
  induction n as [n IH] using lt_wf_ind. intros s ->. apply H. intros s' L. eapply IH; eauto.
Qed.

Lemma find_shorter d s b a : d <> [] -> find d s = Some (b, a) -> length a < length s.
Proof. intros Hd H. apply find_length in H. destruct d; [congruence|]. cbn in H. lia. Qed.

(* ------------------------------------------------------------------ properties of the one-shot scan *)
(* (a) nothing lost, duplicated, reordered or modified *)
Lemma scan_concat d : d <> [] -> forall s, concat (fst (scan d s)) ++ snd (scan d s) = s.
Proof.
  intros Hd. apply (text_ind_len (fun s => concat (fst (scan d s)) ++ snd (scan d s) = s)).
  intros s IH. destruct (find d s) as [[b a]|] eqn:F.
  - rewrite (scan_some d s b a Hd F). cbn [fst snd concat].
    rewrite <- !app_assoc, IH by (eapply find_shorter; eauto).
    symmetry. now apply find_some.
  - rewrite scan_none; auto.
Qed.

(* (d) the tail contains no complete delimiter *)
Lemma scan_tail_none d : d <> [] -> forall s, find d (snd (scan d s)) = None.
Proof.
  intros Hd. apply (text_ind_len (fun s => find d (snd (scan d s)) = None)).
  intros s IH. destruct (find d s) as [[b a]|] eqn:F.
  - rewrite (scan_some d s b a Hd F). cbn [snd]. apply IH. eapply find_shorter; eauto.
  - rewrite scan_none; auto.
Qed.

Lemma find_rec_ok d s b a : find d s = Some (b, a) -> rec_ok d (b ++ d).
Proof.
  intros F. split; [eauto|]. intros l1 l2 E.
  pose proof (find_some _ _ _ _ F) as Hs.
  assert (Hs' : s = l1 ++ d ++ (l2 ++ a)).
  { rewrite Hs. rewrite (app_assoc b d a), E. now rewrite <- !app_assoc. }
  pose proof (find_leftmost _ _ _ _ F _ _ Hs') as L.
  apply (f_equal (@length _)) in E. rewrite !app_length in E.
  destruct l2; [reflexivity|]. cbn in E. lia.
Qed.

(* (c) every record is part ++ d, and d occurs in it only as that suffix *)
Lemma scan_records_ok d : d <> [] -> forall s, Forall (rec_ok d) (fst (scan d s)).
Proof.
  intros Hd. apply (text_ind_len (fun s => Forall (rec_ok d) (fst (scan d s)))).
  intros s IH. destruct (find d s) as [[b a]|] eqn:F.
  - rewrite (scan_some d s b a Hd F). cbn [fst]. constructor.
    + eapply find_rec_ok; eauto.
    + apply IH. eapply find_shorter; eauto.
  - rewrite scan_none; auto. constructor.
Qed.

(* stability of the whole scan under extension: what was emitted stays, the tail is re-scanned *)
Lemma scan_app d : d <> [] -> forall s u,
  scan d (s ++ u) = (fst (scan d s) ++ fst (scan d (snd (scan d s) ++ u)), snd (scan d (snd (scan d s) ++ u))).
Proof.
  intros Hd s u. revert s. apply (text_ind_len (fun s => scan d (s ++ u) =
     (fst (scan d s) ++ fst (scan d (snd (scan d s) ++ u)), snd (scan d (snd (scan d s) ++ u))))).
  intros s IH. destruct (find d s) as [[b a]|] eqn:F.
  - rewrite (scan_some d s b a Hd F). cbn [fst snd].
    rewrite (scan_some d (s ++ u) b (a ++ u) Hd (find_app _ _ _ _ _ F)).
    rewrite IH by (eapply find_shorter; eauto). reflexivity.
  - rewrite (scan_none d s F). cbn [fst snd app]. now destruct (scan d (s ++ u)).
Qed.

Lemma app_eq_split {A} : forall (b x r y : list A), b ++ x = r ++ y -> length b <= length r ->
  exists m, r = b ++ m /\ x = m ++ y.
Proof.
  induction b as [|c b IH]; intros x r y E L; cbn in *.
  - exists r. auto.
  - destruct r as [|c' r]; cbn in *; [lia|]. injection E as -> E.
    destruct (IH _ _ _ E) as [m [-> ->]]; [lia|]. exists m. auto.
Qed.

(* the decomposition is unique: ANY way of writing the text as records (each containing the delimiter exactly
   once, as its suffix) followed by a delimiter-free tail is the one computed by scan *)
Lemma scan_unique d : d <> [] -> forall recs tail,
  Forall (rec_ok d) recs -> ~ occurs d tail -> scan d (concat recs ++ tail) = (recs, tail).
Proof.
  intros Hd recs tail HF HT. induction HF as [|r rs [[p Hp] Hu] HF IH]; cbn [concat app].
  - apply scan_none. now apply not_occurs_find.
  - set (rest := concat rs ++ tail) in *.
    assert (O : occurs d ((r ++ concat rs) ++ tail)).
    { exists p, rest. subst r rest. now rewrite <- !app_assoc. }
    apply occurs_find in O as [b [a F]].
    pose proof (find_some _ _ _ _ F) as Hs.
    assert (Hs2 : (r ++ concat rs) ++ tail = p ++ d ++ rest) by (subst r rest; now rewrite <- !app_assoc).
    pose proof (find_leftmost _ _ _ _ F _ _ Hs2) as L.
    assert (E : (b ++ d) ++ a = r ++ rest) by (rewrite <- !app_assoc; rewrite <- Hs; subst rest; now rewrite <- app_assoc).
    destruct (app_eq_split _ _ _ _ E) as [m [Hr Ha]].
    { subst r. rewrite !app_length. lia. }
    rewrite <- app_assoc in Hr. pose proof (Hu _ _ Hr) as ->. rewrite app_nil_r in Hr. cbn in Ha. subst a.
    rewrite (scan_some _ _ _ _ Hd F). fold rest. rewrite IH. cbn [fst snd]. now rewrite Hr.
Qed.

(* ------------------------------------------------------------------ the polling source *)
Lemma poll_scan d buf line : d <> [] -> find d buf = None -> poll d buf line = swap (scan d (buf ++ line)).
Proof.
  intros Hd Hb. destruct line as [|c l]; cbn [poll].
  - rewrite app_nil_r, scan_none; auto.
  - rewrite contains_find. destruct (find d (buf ++ c :: l)) as [[b a]|] eqn:F.
    + rewrite scan_split. reflexivity.
    + rewrite scan_none; auto.
Qed.

Lemma run_chunks_nil d buf : run_chunks d buf [] = (buf, []).
Proof. reflexivity. Qed.

Lemma run_chunks_cons d buf c cs : run_chunks d buf (c :: cs) =
  (fst (run_chunks d (fst (poll d buf c)) cs), snd (poll d buf c) ++ snd (run_chunks d (fst (poll d buf c)) cs)).
Proof.
  unfold run_chunks. cbn [run_polls]. destruct (poll d buf c) as [b1 r1]. cbn [fst snd].
  destruct (run_polls d b1 cs) as [b2 rs]. reflexivity.
Qed.

(* MAIN: from any state whose buffer holds no complete delimiter, polling chunk by chunk yields exactly the
   one-shot scan of buffer ++ all chunks: same records in the same order, same held-back tail *)
Theorem run_chunks_scan d : d <> [] -> forall chunks buf, find d buf = None ->
  run_chunks d buf chunks = swap (scan d (buf ++ concat chunks)).
Proof.
  intros Hd. induction chunks as [|c cs IH]; intros buf Hb.
  - cbn [concat]. rewrite app_nil_r, scan_none; auto.
  - rewrite run_chunks_cons, (poll_scan d buf c Hd Hb). unfold swap at 1 2 3. cbn [fst snd].
    rewrite IH by (apply scan_tail_none; auto).
    cbn [concat]. rewrite app_assoc, (scan_app d Hd (buf ++ c) (concat cs)). reflexivity.
Qed.

Lemma find_nil_none d : d <> [] -> find d [] = None.
Proof. destruct d; [congruence|]. reflexivity. Qed.

(* (b) chunk-independence *)
Theorem chunk_independent d chunks : d <> [] ->
  run_chunks d [] chunks = poll d [] (concat chunks).
Proof.
  intros Hd. rewrite run_chunks_scan, poll_scan; auto using find_nil_none.
Qed.

Theorem chunk_independent2 d chunks chunks' : d <> [] -> concat chunks = concat chunks' ->
  run_chunks d [] chunks = run_chunks d [] chunks'.
Proof. intros Hd E. rewrite !chunk_independent, E; auto. Qed.

(* reference in terms of str.split on the whole text *)
Theorem run_chunks_py_split d chunks : d <> [] ->
  run_chunks d [] chunks =
    (last (py_split d (concat chunks)) [], map (fun p => p ++ d) (removelast (py_split d (concat chunks)))).
Proof. intros Hd. rewrite run_chunks_scan, scan_split; auto using find_nil_none. Qed.

(* (a) *)
Theorem lossless d chunks : d <> [] ->
  concat (snd (run_chunks d [] chunks)) ++ fst (run_chunks d [] chunks) = concat chunks.
Proof.
  intros Hd. rewrite run_chunks_scan; auto using find_nil_none. cbn [swap fst snd app]. now apply scan_concat.
Qed.

(* (c) *)
Theorem records_terminated d chunks : d <> [] -> Forall (rec_ok d) (snd (run_chunks d [] chunks)).
Proof.
  intros Hd. rewrite run_chunks_scan; auto using find_nil_none. cbn [swap fst snd app]. now apply scan_records_ok.
Qed.

(* (d) *)
Theorem tail_no_delimiter d chunks : d <> [] -> ~ occurs d (fst (run_chunks d [] chunks)).
Proof.
  intros Hd. rewrite run_chunks_scan; auto using find_nil_none. cbn [swap fst snd app].
  apply find_none. now apply scan_tail_none.
Qed.

(* all four clauses together, plus uniqueness: the output is THE decomposition of the text *)
Theorem textfile_chunking d chunks : d <> [] ->
  let recs := snd (run_chunks d [] chunks) in
  let tail := fst (run_chunks d [] chunks) in
  concat recs ++ tail = concat chunks /\
  (tail, recs) = poll d [] (concat chunks) /\
  Forall (rec_ok d) recs /\
  ~ occurs d tail /\
  (forall recs' tail', Forall (rec_ok d) recs' -> ~ occurs d tail' -> concat recs' ++ tail' = concat chunks ->
     recs' = recs /\ tail' = tail).
Proof.
  intros Hd recs tail. repeat split.
  - now apply lossless.
  - unfold recs, tail. rewrite <- chunk_independent; auto. now destruct (run_chunks d [] chunks).
  - now apply records_terminated.
  - now apply tail_no_delimiter.
  - pose proof (scan_unique d Hd _ _ H H0) as U. rewrite H1 in U.
    unfold recs. rewrite run_chunks_scan; auto using find_nil_none. cbn [swap fst snd app]. now rewrite U.
  - pose proof (scan_unique d Hd _ _ H H0) as U. rewrite H1 in U.
    unfold tail. rewrite run_chunks_scan; auto using find_nil_none. cbn [swap fst snd app]. now rewrite U.
Qed.

(* timeliness / hold-back: after EVERY poll, what has been emitted so far is exactly the set of complete records
   of the text written so far (nothing early, nothing delayed past the poll that saw its delimiter) *)
Lemma run_polls_firstn d : forall chunks buf k,
  concat (firstn k (snd (run_polls d buf chunks))) = snd (run_chunks d buf (firstn k chunks)).
Proof.
  induction chunks as [|c cs IH]; intros buf k.
  - destruct k; reflexivity.
  - destruct k as [|k]; [reflexivity|]. cbn [firstn]. rewrite run_chunks_cons. cbn [snd run_polls].
    destruct (poll d buf c) as [b1 r1]. specialize (IH b1 k).
    destruct (run_polls d b1 cs) as [b2 rs]. cbn [snd fst firstn concat] in *. now rewrite IH.
Qed.

Theorem emitted_after_each_poll d chunks k : d <> [] ->
  concat (firstn k (snd (run_polls d [] chunks))) = fst (scan d (concat (firstn k chunks))).
Proof.
  intros Hd. rewrite run_polls_firstn, run_chunks_scan; auto using find_nil_none.
Qed.

(* ------------------------------------------------------------------ file layer, from_end *)
Lemma run_file_from_polls d : forall chunks s content, pos s = length content ->
  let r := run_file_from d s content chunks in
  (sbuf (fst r), snd r) = run_polls d (sbuf s) chunks.
Proof.
  induction chunks as [|c cs IH]; intros s content Hp; cbn [run_file_from run_polls]; [reflexivity|].
  unfold poll_file. rewrite Hp, skipn_app_exact.
  destruct (poll d (sbuf s) c) as [b1 r1].
  specialize (IH {| pos := length (content ++ c); sbuf := b1 |} (content ++ c) eq_refl). cbn [sbuf] in IH.
  destruct (run_file_from d _ (content ++ c) cs) as [s2 rs]. cbn [fst snd] in *.
  destruct (run_polls d b1 cs) as [b2 rs']. now injection IH as -> ->.
Qed.

(* what the source reads: with from_end the pre-existing content is skipped, otherwise it is part of the
   first read *)
Definition effective_chunks (from_end : bool) (pre : text) (chunks : list text) : list text :=
  match chunks with
  | [] => []
  | c :: cs => (if from_end then c else pre ++ c) :: cs
  end.

Theorem run_file_polls from_end d pre chunks :
  run_file from_end d pre chunks = run_polls d [] (effective_chunks from_end pre chunks).
Proof.
  unfold run_file. destruct chunks as [|c cs]; [reflexivity|]. cbn [run_file_from effective_chunks run_polls].
  unfold poll_file.
  assert (E : skipn (pos (src_init from_end pre)) (pre ++ c) = if from_end then c else pre ++ c).
  { destruct from_end; cbn [src_init pos]; [apply skipn_app_exact | reflexivity]. }
  rewrite E. cbn [src_init sbuf]. destruct (poll d [] _) as [b1 r1].
  pose proof (run_file_from_polls d cs {| pos := length (pre ++ c); sbuf := b1 |} (pre ++ c) eq_refl) as H.
  cbn [sbuf] in H. destruct (run_file_from d _ (pre ++ c) cs) as [s2 rs]. cbn [fst snd] in H.
  destruct (run_polls d b1 cs) as [b2 rs']. now injection H as -> ->.
Qed.

Lemma concat_effective fe pre chunks : chunks <> [] ->
  concat (effective_chunks fe pre chunks) = (if fe then [] else pre) ++ concat chunks.
Proof.
  destruct chunks as [|c cs]; [congruence|]. intros _. destruct fe; cbn; auto. now rewrite app_assoc.
Qed.

(* from_end = True: exactly the records of the text appended after the source was created, whatever was in
   the file before and however the appends are chunked *)
Theorem from_end_appended_only d pre chunks : d <> [] ->
  let r := run_file true d pre chunks in
  (concat (snd r), fst r) = scan d (concat chunks).
Proof.
  intros Hd r. unfold r. rewrite run_file_polls. destruct chunks as [|c cs].
  - cbn [effective_chunks run_polls concat fst snd]. now rewrite (scan_none d [] (find_nil_none d Hd)).
  - pose proof (run_chunks_scan d Hd (effective_chunks true pre (c :: cs)) [] (find_nil_none d Hd)) as H.
    unfold run_chunks in H. destruct (run_polls d [] _) as [b rs]. cbn [fst snd].
    rewrite concat_effective in H by discriminate. cbn [app] in H.
    unfold swap in H. injection H as -> ->. cbn [concat]. now destruct (scan d (c ++ concat cs)).
Qed.

(* from_end = False: pre-existing content is delivered too (as soon as one poll has happened) *)
Theorem from_start_everything d pre chunks : d <> [] -> chunks <> [] ->
  let r := run_file false d pre chunks in
  (concat (snd r), fst r) = scan d (pre ++ concat chunks).
Proof.
  intros Hd Hc r. unfold r. rewrite run_file_polls.
  pose proof (run_chunks_scan d Hd (effective_chunks false pre chunks) [] (find_nil_none d Hd)) as H.
  unfold run_chunks in H. destruct (run_polls d [] _) as [b rs]. cbn [fst snd].
  rewrite concat_effective in H by auto. cbn [app] in H.
  unfold swap in H. injection H as -> ->. now destruct (scan d (pre ++ concat chunks)).
Qed.

(* ------------------------------------------------------------------ as-found IO layer (text mode) *)
(* With a path argument the file is opened in universal-newline text mode and each poll's read() flushes a
   pending CR: a CRLF that is cut by a poll yields a spurious empty record.  Chunk-independence is refuted at
   the level of the bytes written to the file. *)
Example textmode_crlf_refuted :
  exists d raw1 raw2, d <> [] /\ concat raw1 = concat raw2 /\
    snd (run_chunks_textmode d raw1) <> snd (run_chunks_textmode d raw2).
Proof.
  exists [LF], [[ascii_of_nat 120; CR]; [LF]], [[ascii_of_nat 120; CR; LF]].
  split; [discriminate|]. split; [reflexivity|]. vm_compute. discriminate.
Qed.

(* ------------------------------------------------------------------ repaired IO layer (incremental decoding) *)
Lemma ends_cr_cons c s : s <> [] -> ends_cr (c :: s) = ends_cr s.
Proof. destruct s; [congruence|reflexivity]. Qed.

Lemma ends_cr_app x y : y <> [] -> ends_cr (x ++ y) = ends_cr y.
Proof.
  intros Hy. induction x as [|c x IH]; cbn [app]; auto.
  rewrite ends_cr_cons; auto. destruct x; cbn; [auto|discriminate].
Qed.

Lemma ends_cr_spec s : ends_cr s = true -> s = removelast s ++ [CR].
Proof.
  induction s as [|c s IH]; [discriminate|]. destruct s as [|c2 s].
  - cbn. intros H. apply Ascii.eqb_eq in H. now subst.
  - intros H. rewrite ends_cr_cons in H by discriminate. specialize (IH H).
    change (removelast (c :: c2 :: s)) with (c :: removelast (c2 :: s)). cbn [app]. now rewrite <- IH.
Qed.

Definition starts_lf (b : text) : bool := match b with c :: _ => Ascii.eqb c LF | [] => false end.

Lemma nl_translate_cons c s : nl_translate (c :: s) =
  if Ascii.eqb c CR then
    match s with
    | c2 :: s'' => if Ascii.eqb c2 LF then LF :: nl_translate s'' else LF :: nl_translate s
    | [] => [LF]
    end
  else c :: nl_translate s.
Proof. reflexivity. Qed.

(* translation distributes over a cut unless the cut separates a CR from the LF that follows it *)
Lemma nl_translate_app : forall a b, ends_cr a = false \/ starts_lf b = false ->
  nl_translate (a ++ b) = nl_translate a ++ nl_translate b.
Proof.
  intros a b. revert a. apply (text_ind_len (fun a => ends_cr a = false \/ starts_lf b = false ->
     nl_translate (a ++ b) = nl_translate a ++ nl_translate b)).
  intros a IH H. destruct a as [|c a']; [reflexivity|].
  assert (Hsub : forall t, length t < length (c :: a') -> (t = [] \/ ends_cr t = ends_cr (c :: a')) ->
                 nl_translate (t ++ b) = nl_translate t ++ nl_translate b).
  { intros t L [->|E]; [reflexivity|]. apply IH; auto. rewrite E. exact H. }
  cbn [app]. rewrite !nl_translate_cons. destruct (Ascii.eqb c CR) eqn:EC.
  - destruct a' as [|c2 a''].
    + cbn [app]. destruct H as [H|H]; [cbn [ends_cr] in H; congruence|].
      destruct b as [|c2 b']; [reflexivity|]. unfold starts_lf in H. rewrite H. reflexivity.
    + cbn [app]. destruct (Ascii.eqb c2 LF).
      * cbn [app]. f_equal. apply Hsub; [cbn; lia|].
        destruct a''; [now left|right]. now rewrite (ends_cr_cons c), (ends_cr_cons c2) by discriminate.
      * cbn [app]. f_equal. apply (Hsub (c2 :: a'')); [cbn; lia|]. right. now rewrite (ends_cr_cons c) by discriminate.
  - cbn [app]. f_equal. apply Hsub; [cbn; lia|].
    destruct a'; [now left|right]. now rewrite (ends_cr_cons c) by discriminate.
Qed.

Lemma strip_cr_app x y : y <> [] -> strip_cr (x ++ y) = x ++ strip_cr y.
Proof.
  intros Hy. unfold strip_cr. rewrite ends_cr_app by auto. destruct (ends_cr y); auto. now apply removelast_app.
Qed.

Lemma starts_lf_strip_cr t : starts_lf (strip_cr (CR :: t)) = false.
Proof.
  unfold strip_cr. destruct t as [|c t].
  - cbn. destruct (Ascii.eqb CR CR); reflexivity.
  - rewrite ends_cr_cons by discriminate. destruct (ends_cr (c :: t)); reflexivity.
Qed.

Lemma decode_all_cons pend r rs : decode_all pend (r :: rs) =
  (fst (decode_all (fst (nl_inc pend r)) rs), snd (nl_inc pend r) :: snd (decode_all (fst (nl_inc pend r)) rs)).
Proof. cbn [decode_all]. destruct (nl_inc pend r) as [p1 o]. cbn [fst snd]. now destruct (decode_all p1 rs). Qed.

Lemma decode_all_concat : forall raws pend,
  concat (snd (decode_all pend raws)) = nl_translate (strip_cr ((if pend then [CR] else []) ++ concat raws)) /\
  fst (decode_all pend raws) = ends_cr ((if pend then [CR] else []) ++ concat raws).
Proof.
  induction raws as [|r rs IH]; intros pend.
  - cbn [decode_all concat fst snd]. rewrite app_nil_r. destruct pend; split; reflexivity.
  - rewrite decode_all_cons. cbn [fst snd concat]. unfold nl_inc. cbn [fst snd].
    set (s := (if pend then [CR] else []) ++ r).
    rewrite (app_assoc _ r (concat rs)). fold s.
    destruct (IH (ends_cr s)) as [IH1 IH2]. rewrite IH1, IH2. clear IH1 IH2 IH.
    destruct (ends_cr s) eqn:E.
    + pose proof (ends_cr_spec s E) as Hs.
      assert (Ss : strip_cr s = removelast s) by (unfold strip_cr; now rewrite E).
      rewrite Ss.
      assert (Es : s ++ concat rs = removelast s ++ CR :: concat rs) by (rewrite Hs at 1; now rewrite <- app_assoc).
      rewrite Es. cbn [app]. split.
      * rewrite strip_cr_app by discriminate.
        rewrite nl_translate_app; [reflexivity|]. right. apply starts_lf_strip_cr.
      * now rewrite ends_cr_app by discriminate.
    + assert (Ss : strip_cr s = s) by (unfold strip_cr; now rewrite E).
      rewrite Ss. cbn [app]. destruct (concat rs) as [|c t] eqn:Ec.
      * rewrite (app_nil_r s), Ss. cbn [strip_cr ends_cr nl_translate]. rewrite app_nil_r. auto.
      * split.
        -- rewrite strip_cr_app by discriminate. rewrite nl_translate_app; auto.
        -- now rewrite ends_cr_app by discriminate.
Qed.

(* with incremental decoding the source is chunk-independent at the level of the bytes written: records and
   buffer are those of one poll over the translated whole text (a final CR still waits for its successor) *)
Theorem textmode_fixed_chunk_independent d raws : d <> [] ->
  run_chunks_textmode_fixed d raws = poll d [] (nl_translate (strip_cr (concat raws))).
Proof.
  intros Hd. unfold run_chunks_textmode_fixed. rewrite chunk_independent by auto.
  now rewrite (proj1 (decode_all_concat raws false)).
Qed.

Theorem textmode_fixed_chunk_independent2 d raws raws' : d <> [] -> concat raws = concat raws' ->
  run_chunks_textmode_fixed d raws = run_chunks_textmode_fixed d raws'.
Proof. intros Hd E. rewrite !textmode_fixed_chunk_independent, E; auto. Qed.
