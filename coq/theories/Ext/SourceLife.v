(* Source lifecycle (sources.py: Source.start / stop / run, from_periodic._run, from_iterable.run).
   `fixed = true`  : the repaired code (one polling loop survives stop()/start(); from_iterable keeps one iterator)
   `fixed = false` : the code as found (start() always schedules a new run(); from_iterable re-iterates and the
                     finishing loop sets stopped).
   A model step = what happens between two quiescent points of the event loop (harness/srcfam.py).
   Two things happen INSIDE a step and are part of the model:
   - `SMulti calls`: several start()/stop() calls back to back in one loop callback (no turn of the event loop in
     between; the run() coroutine that a start() schedules only begins once the callback has returned);
   - `ss_stop_on = Some v`: the consumer calls stop() on the source from inside its callback when it is handed the
     element v, i.e. while the polling coroutine is in the middle of an emission. *)
From Coq Require Import List ZArith Bool Lia Arith.
Import ListNotations.

Inductive skind := SPeriodic (poll : Z) | SIterable (items : list Z).

Inductive lmode :=
| LSleep (until : Z)           (* from_periodic: in asyncio.sleep(poll) *)
| LEmit.                       (* awaiting the consumer of the item just emitted *)

(* one live run() coroutine; an as-found from_iterable loop carries its own cursor *)
Record linst := { li_mode : lmode; li_cursor : nat }.

Record sst := {
  ss_fixed : bool; ss_kind : skind; ss_sync : bool;
  ss_now : Z; ss_stopped : bool;
  ss_loops : list linst;         (* live polling loops, oldest first *)
  ss_count : nat;                (* from_periodic: calls of the callback so far; fixed from_iterable: shared cursor *)
  ss_stop_on : option Z;         (* the consumer calls stop() from inside its callback when handed this element *)
}.

Definition s_init (fixed : bool) (k : skind) (sync : bool) (on : option Z) : sst :=
  {| ss_fixed := fixed; ss_kind := k; ss_sync := sync; ss_now := 0%Z; ss_stopped := true; ss_loops := []; ss_count := 0;
     ss_stop_on := on |}.

(* one lifecycle call *)
Inductive lcall := CStart | CStop.

Inductive sact := SStart | SStop | SAck | SAdv (dt : Z)
| SMulti (calls : list lcall).    (* back-to-back calls inside one loop callback *)

(* does the consumer react to the element x by calling stop()? *)
Definition hit (s : sst) (x : Z) : bool :=
  match ss_stop_on s with Some v => Z.eqb x v | None => false end.

Definition upd (s : sst) (now : Z) (stopped : bool) (loops : list linst) (count : nat) : sst :=
  {| ss_fixed := ss_fixed s; ss_kind := ss_kind s; ss_sync := ss_sync s; ss_now := now; ss_stopped := stopped;
     ss_loops := loops; ss_count := count; ss_stop_on := ss_stop_on s |}.

(* one loop is at its `while not self.stopped` test with cursor c (iterable) at time `now`; returns the loop
   (None = exited), the deliveries it makes before suspending, and the updated shared fields.  The consumer's
   stop() (hit) happens inside the emission: the flag is set when the emission returns; from_periodic then still
   sleeps (or awaits its consumer) before it looks at the flag, from_iterable looks at it at once. *)
Fixpoint loop_go (fuel : nat) (s : sst) (now : Z) (stopped : bool) (count : nat) (c : nat)
  : option linst * list (Z * Z) * bool * nat :=
  match fuel with
  | O => (None, [], stopped, count)
  | S fuel' =>
      if stopped then (None, [], stopped, count)
      else
        match ss_kind s with
        | SPeriodic poll =>
            let v := Z.of_nat (S count) in
            if ss_sync s then (Some {| li_mode := LSleep (now + poll)%Z; li_cursor := 0 |}, [(now, v)], hit s v, S count)
            else (Some {| li_mode := LEmit; li_cursor := 0 |}, [(now, v)], hit s v, S count)
        | SIterable items =>
            let cur := if ss_fixed s then count else c in
            match nth_error items cur with
            | None => (None, [], true, count)               (* exhausted: self.stopped = True *)
            | Some x =>
                let count' := if ss_fixed s then S count else count in
                if ss_sync s then
                  let '(l, dl, st', cnt') := loop_go fuel' s now (hit s x) count' (S c) in
                  (l, (now, x) :: dl, st', cnt')
                else (Some {| li_mode := LEmit; li_cursor := S c |}, [(now, x)], hit s x, count')
            end
        end
  end.

Definition fuel_of (s : sst) : nat :=
  match ss_kind s with SIterable items => S (S (length items)) | SPeriodic _ => 2 end.

(* resume, oldest first, the loops that can run at time `now`: sleepers that are due (when wake = true) *)
Fixpoint resume_due (s : sst) (now : Z) (loops : list linst) (stopped : bool) (count : nat)
  : list linst * list (Z * Z) * bool * nat :=
  match loops with
  | [] => ([], [], stopped, count)
  | l :: rest =>
      match li_mode l with
      | LSleep until =>
          if (until <=? now)%Z then
            let '(l', dl, st1, c1) := loop_go (fuel_of s) s now stopped count (li_cursor l) in
            let '(rest', dl2, st2, c2) := resume_due s now rest st1 c1 in
            ((match l' with Some x => [x] | None => [] end) ++ rest', dl ++ dl2, st2, c2)
          else
            let '(rest', dl2, st2, c2) := resume_due s now rest stopped count in
            (l :: rest', dl2, st2, c2)
      | LEmit =>
          let '(rest', dl2, st2, c2) := resume_due s now rest stopped count in
          (l :: rest', dl2, st2, c2)
      end
  end.

Definition s_tick (s : sst) : sst * list (Z * Z) :=
  let now := (ss_now s + 1)%Z in
  let '(loops, dl, st, c) := resume_due s now (ss_loops s) (ss_stopped s) (ss_count s) in
  (upd s now st loops c, dl).

Fixpoint s_adv (n : nat) (s : sst) : sst * list (Z * Z) :=
  match n with
  | O => (s, [])
  | S n' => let '(s1, d1) := s_tick s in let '(s2, d2) := s_adv n' s1 in (s2, d1 ++ d2)
  end.

(* the oldest loop awaiting its consumer *)
Fixpoint ack_first (s : sst) (loops : list linst) (stopped : bool) (count : nat)
  : list linst * list (Z * Z) * bool * nat :=
  match loops with
  | [] => ([], [], stopped, count)
  | l :: rest =>
      match li_mode l with
      | LEmit =>
          match ss_kind s with
          | SPeriodic poll => ({| li_mode := LSleep (ss_now s + poll)%Z; li_cursor := 0 |} :: rest, [], stopped, count)
          | SIterable items =>
              (* as found: after the emit `if self.stopped: break` then, at the end, self.stopped = True *)
              let '(l', dl, st1, c1) := loop_go (fuel_of s) s (ss_now s) stopped count (li_cursor l) in
              let st2 := if ss_fixed s then st1 else (match l' with None => true | Some _ => st1 end) in
              ((match l' with Some x => [x] | None => [] end) ++ rest, dl, st2, c1)
          end
      | LSleep _ =>
          let '(rest', dl, st, c) := ack_first s rest stopped count in (l :: rest', dl, st, c)
      end
  end.

(* the flags after back-to-back calls and the number of run() coroutines they schedule.  `running` = a polling
   loop is alive or already scheduled (repaired code: self._running) *)
Fixpoint multi_flags (fixed : bool) (calls : list lcall) (stopped running : bool) (spawn : nat) : bool * nat :=
  match calls with
  | [] => (stopped, spawn)
  | CStop :: t => multi_flags fixed t true running spawn
  | CStart :: t =>
      if stopped then
        if fixed && running then multi_flags fixed t false running spawn
        else multi_flags fixed t false true (S spawn)
      else multi_flags fixed t stopped running spawn
  end.

(* the scheduled run() coroutines begin, in order, once the callback has returned *)
Fixpoint spawn_go (n : nat) (s : sst) (now : Z) (stopped : bool) (count : nat)
  : list linst * list (Z * Z) * bool * nat :=
  match n with
  | O => ([], [], stopped, count)
  | S n' =>
      let '(l, dl, st, c) := loop_go (fuel_of s) s now stopped count 0 in
      let st' := if ss_fixed s then st else (match l, ss_kind s with None, SIterable _ => true | _, _ => st end) in
      let '(ls, dl2, st2, c2) := spawn_go n' s now st' c in
      ((match l with Some x => [x] | None => [] end) ++ ls, dl ++ dl2, st2, c2)
  end.

Definition no_loops (s : sst) : bool := match ss_loops s with [] => true | _ => false end.

Definition s_multi (s : sst) (calls : list lcall) : sst * list (Z * Z) :=
  let '(st, n) := multi_flags (ss_fixed s) calls (ss_stopped s) (negb (no_loops s)) 0 in
  let '(ls, dl, st', c) := spawn_go n s (ss_now s) st (ss_count s) in
  (upd s (ss_now s) st' (ss_loops s ++ ls) c, dl).

(* the last call decides the flag: an action that cannot leave a stopped source started *)
Definition quiet (a : sact) : bool :=
  match a with
  | SStart => false
  | SMulti calls => match last calls CStop with CStart => false | CStop => true end
  | _ => true
  end.

Definition s_step (s : sst) (a : sact) : sst * list (Z * Z) :=
  match a with
  | SStart =>
      if ss_stopped s then
        if ss_fixed s && negb (match ss_loops s with [] => true | _ => false end) then
          (* a loop that has not yet noticed the stop simply carries on *)
          (upd s (ss_now s) false (ss_loops s) (ss_count s), [])
        else
          let '(l, dl, st, c) := loop_go (fuel_of s) s (ss_now s) false (ss_count s) 0 in
          let st' := if ss_fixed s then st else (match l, ss_kind s with None, SIterable _ => true | _, _ => st end) in
          (upd s (ss_now s) st' (ss_loops s ++ match l with Some x => [x] | None => [] end) c, dl)
      else (s, [])
  | SStop => if ss_stopped s then (s, []) else (upd s (ss_now s) true (ss_loops s) (ss_count s), [])
  | SAck =>
      let '(loops, dl, st, c) := ack_first s (ss_loops s) (ss_stopped s) (ss_count s) in
      (upd s (ss_now s) st loops c, dl)
  | SAdv dt => s_adv (Z.to_nat dt) s
  | SMulti calls => s_multi s calls
  end.

Fixpoint s_run (s : sst) (acts : list sact) : sst * list (list (Z * Z)) :=
  match acts with
  | [] => (s, [])
  | a :: t => let '(s1, o) := s_step s a in let '(s2, os) := s_run s1 t in (s2, o :: os)
  end.

(* ---- comparison with observations of the real code --------------------------------------------------- *)
Record sobs := { so_now : Z; so_deliv : list (Z * Z); so_stopped : bool }.

Fixpoint s_trace (s : sst) (acts : list sact) : list sobs :=
  match acts with
  | [] => []
  | a :: t => let '(s1, o) := s_step s a in
              {| so_now := ss_now s1; so_deliv := o; so_stopped := ss_stopped s1 |} :: s_trace s1 t
  end.

Fixpoint zz_eqb (a b : list (Z * Z)) : bool :=
  match a, b with
  | [], [] => true
  | (x1, y1) :: t1, (x2, y2) :: t2 => Z.eqb x1 x2 && Z.eqb y1 y2 && zz_eqb t1 t2
  | _, _ => false
  end.
Definition sobs_eqb (a b : sobs) : bool :=
  Z.eqb (so_now a) (so_now b) && zz_eqb (so_deliv a) (so_deliv b) && Bool.eqb (so_stopped a) (so_stopped b).
Fixpoint sobs_list_eqb (a b : list sobs) : bool :=
  match a, b with
  | [], [] => true
  | x :: t1, y :: t2 => sobs_eqb x y && sobs_list_eqb t1 t2
  | _, _ => false
  end.

Record scase := { sc_init : sst; sc_acts : list sact; sc_observed : list sobs }.
Definition s_agree (c : scase) : bool := sobs_list_eqb (s_trace (sc_init c) (sc_acts c)) (sc_observed c).
Fixpoint s_mismatches_from (i : nat) (cs : list scase) : list nat :=
  match cs with
  | [] => []
  | c :: t => if s_agree c then s_mismatches_from (S i) t else i :: s_mismatches_from (S i) t
  end.
Definition s_mismatches (cs : list scase) : list nat := s_mismatches_from 0 cs.
