(* C09 — proofs about Ext/KafkaBatched.v: invariants of every state reachable by ANY event list
   (production, partition growth, polls, completions in any order, crashes at any point). *)
From Coq Require Import List ZArith Bool Lia Arith.
From SZ Require Import Ext.KafkaBatched.
Import ListNotations.
Open Scope Z_scope.

(* ------------------------------------------------------------------------------------------ clamp *)
Lemma kb_clamp_spec pos low high maxb fl r pos' :
  kb_clamp pos low high maxb fl = (r, pos') ->
  let pos1 := if fl && (pos =? -1001) then high else pos in
  match r with
  | Some (lo, hi) => lo = Z.max pos1 low /\ lo <= hi /\ hi + 1 <= high /\ hi + 1 <= lo + maxb /\ pos' = hi + 1
                     /\ (hi + 1 = high \/ hi + 1 = lo + maxb)
  | None => pos' = pos1 /\ (high <= Z.max pos1 low \/ maxb <= 0)
  end.
Proof.
  unfold kb_clamp. cbv zeta.
  set (pos1 := if fl && (pos =? -1001) then high else pos).
  destruct (Z.gtb_spec high (Z.max pos1 low + maxb)) as [E1|E1].
  - destruct (Z.gtb_spec (Z.max pos1 low + maxb) (Z.max pos1 low)) as [E2|E2]; intros H; inversion H; subst.
    + repeat split; lia.
    + split; [reflexivity | right; lia].
  - destruct (Z.gtb_spec high (Z.max pos1 low)) as [E2|E2]; intros H; inversion H; subst.
    + repeat split; lia.
    + split; [reflexivity | left; lia].
Qed.

(* the position never moves backwards, and -1001 is only ever replaced by the high watermark *)
Lemma pos1_cases (fl : bool) pos high :
  let pos1 := if fl && (pos =? -1001) then high else pos in
  pos1 = pos \/ (fl = true /\ pos = -1001 /\ pos1 = high).
Proof.
  cbv zeta. destruct fl; cbn [andb]; [|left; reflexivity].
  destruct (Z.eqb_spec pos (-1001)); [right; auto | left; reflexivity].
Qed.

(* ------------------------------------------------------------------------------------------ predicates *)
Definition wf_cfg (c : cfg) : Prop := 0 <= c_low c.
(* the discovery of partitions by refresh_partitions consults the committed offsets (repaired) or is off *)
Definition sound_refresh (c : cfg) : Prop := c_fix c = true \/ c_refresh c = false.

Fixpoint ids_ok (l : list batch) : Prop :=
  match l with [] => True | b :: t => b_id b = length t /\ ids_ok t end.

(* each range starts where the previous range of the same partition (in this run) ended *)
Fixpoint contig (l : list batch) : Prop :=
  match l with
  | [] => True
  | b :: t => match last_of (b_part b) t with Some a => b_lo b = b_hi a + 1 | None => True end /\ contig t
  end.

(* where the first range of a partition in a run must start, given the group's committed offset rc of that
   partition when it entered the run: at rc (raised to the low watermark if those messages are gone); with
   nothing committed, at the low watermark for 'earliest' and at some later offset for 'latest' *)
Definition first_ok (c : cfg) (rc lo : Z) : Prop :=
  (rc <> NONE -> lo = Z.max rc (c_low c)) /\ (rc = NONE -> c_latest c = false -> lo = c_low c) /\ c_low c <= lo.

Fixpoint firsts (c : cfg) (rc : nat -> Z) (l : list batch) : Prop :=
  match l with
  | [] => True
  | b :: t => match last_of (b_part b) t with Some _ => True | None => first_ok c (rc (b_part b)) (b_lo b) end
              /\ firsts c rc t
  end.

Fixpoint sorted_ok (l : list batch) : Prop :=
  match l with
  | [] => True
  | b :: t => (forall a, In a t -> b_part a = b_part b -> b_hi a + 1 <= b_lo b) /\ sorted_ok t
  end.

Record Inv (c : cfg) (s : st) : Prop := {
  i_wm : forall p, c_low c <= high s p;
  i_np : (npos s <= nparts s)%nat;
  i_ids : ids_ok (infl s);
  i_rng : forall b, In b (infl s) ->
      (b_part b < npos s)%nat /\ c_low c <= b_lo b /\ b_lo b <= b_hi b /\ b_hi b + 1 <= b_lo b + c_maxb c /\
      b_hi b + 1 <= high s (b_part b) /\ b_hi b + 1 <= pos s (b_part b);
  i_last : forall p a, last_of p (infl s) = Some a -> pos s p = b_hi a + 1;
  i_contig : contig (infl s);
  i_sorted : sorted_ok (infl s);
  i_flag : flag s = true -> c_latest c = true;
}.

Record InvS (c : cfg) (s : st) : Prop := {
  s_first : forall p, (p < npos s)%nat -> last_of p (infl s) = None ->
      pos s p = rcomm s p \/ (rcomm s p = NONE /\ c_latest c = true /\ c_low c <= pos s p);
  s_firsts : firsts c (rcomm s) (infl s);
  s_k : forall p, (p < npos s)%nat -> comm s p <= pos s p;
}.

Definition InvJ (s : st) : Prop :=
  forall b, In b (infl s) -> is_done s (b_id b) = false -> comm s (b_part b) <= b_lo b.

(* ------------------------------------------------------------------------------------------ list facts *)
Lemma last_of_some p l a : last_of p l = Some a -> In a l /\ b_part a = p.
Proof. unfold last_of. intros H. apply find_some in H as [H1 H2]. apply Nat.eqb_eq in H2. auto. Qed.

Lemma last_of_cons p b t : last_of p (b :: t) = if Nat.eqb (b_part b) p then Some b else last_of p t.
Proof. reflexivity. Qed.

Lemma find_batch_some i l b : find_batch i l = Some b -> In b l /\ b_id b = i.
Proof. unfold find_batch. intros H. apply find_some in H as [H1 H2]. apply Nat.eqb_eq in H2. auto. Qed.

Lemma ids_lt l : ids_ok l -> forall b, In b l -> (b_id b < length l)%nat.
Proof.
  induction l as [|x t IH]; cbn [ids_ok In length]; intros H b Hb; [contradiction|].
  destruct H as [H1 H2]. destruct Hb as [<-|Hb]; [lia|]. specialize (IH H2 b Hb). lia.
Qed.

Lemma sorted_lt l : ids_ok l -> sorted_ok l -> forall a b, In a l -> In b l -> b_part a = b_part b ->
  (b_id a < b_id b)%nat -> b_hi a + 1 <= b_lo b.
Proof.
  induction l as [|x t IH]; cbn [ids_ok sorted_ok In]; intros Hi Hs a b Ha Hb Hp Hlt; [contradiction|].
  destruct Hi as [Hi1 Hi2]. destruct Hs as [Hs1 Hs2].
  destruct Hb as [<-|Hb].
  - destruct Ha as [<-|Ha]; [lia|]. apply Hs1; assumption.
  - destruct Ha as [<-|Ha].
    + pose proof (ids_lt t Hi2 b Hb). lia.
    + apply (IH Hi2 Hs2 a b); assumption.
Qed.

Lemma contig_ext c rc rc' l : (forall b, In b l -> rc (b_part b) = rc' (b_part b)) -> firsts c rc l -> firsts c rc' l.
Proof.
  induction l as [|x t IH]; cbn [firsts]; intros He H; [exact I|].
  destruct H as [H1 H2]. split.
  - destruct (last_of (b_part x) t); [exact I|]. rewrite <- He; [exact H1 | left; reflexivity].
  - apply IH; [intros b Hb; apply He; right; exact Hb | exact H2].
Qed.

Lemma upd_eq f p v : upd f p v p = v.
Proof. unfold upd. rewrite Nat.eqb_refl. reflexivity. Qed.
Lemma upd_neq f p v q : q <> p -> upd f p v q = f q.
Proof. unfold upd. intros H. apply Nat.eqb_neq in H. rewrite H. reflexivity. Qed.

(* ------------------------------------------------------------------------------------------ new_run *)
Lemma inv_new_run c s : (forall p, c_low c <= high s p) -> Inv c (new_run c s).
Proof.
  intros Hw. unfold new_run, set_run. constructor; cbn.
  - exact Hw.
  - destruct (c_np c); lia.
  - exact I.
  - intros b [].
  - intros p a H; discriminate.
  - exact I.
  - exact I.
  - auto.
Qed.

Lemma invS_new_run c s : InvS c (new_run c s).
Proof.
  unfold new_run, set_run. constructor; cbn.
  - intros p _ _. left; reflexivity.
  - exact I.
  - intros p _. lia.
Qed.

Lemma invJ_new_run c s : InvJ (new_run c s).
Proof. intros b []. Qed.

(* ------------------------------------------------------------------------------------------ produce / add *)
Lemma inv_produce c s p n : Inv c s -> Inv c (produce s p n).
Proof.
  intros [Hw Hn Hi Hr Hl Hc Hs Hf]. unfold produce. destruct (p <? nparts s)%nat; [|constructor; assumption].
  constructor; cbn; try assumption.
  - intros q. unfold upd. destruct (Nat.eqb q p); [specialize (Hw p); lia | apply Hw].
  - intros b Hb. specialize (Hr b Hb). destruct Hr as (R1 & R2 & R3 & R4 & R5 & R6). unfold upd.
    pose proof (Nat2Z.is_nonneg n).
    destruct (Nat.eqb_spec (b_part b) p) as [e|e]; [rewrite e in *|]; repeat split; lia.
Qed.

Lemma invS_produce c s p n : InvS c s -> InvS c (produce s p n).
Proof. intros [H1 H2 H3]. unfold produce. destruct (p <? nparts s)%nat; constructor; assumption. Qed.

Lemma invJ_produce s p n : InvJ s -> InvJ (produce s p n).
Proof. unfold produce. destruct (p <? nparts s)%nat; auto. Qed.

Lemma inv_add c s : Inv c s -> Inv c (add_partition c s).
Proof.
  intros [Hw Hn Hi Hr Hl Hc Hs Hf]. unfold add_partition. constructor; cbn; try assumption.
  - intros q. unfold upd. destruct (Nat.eqb q (nparts s)); [lia | apply Hw].
  - lia.
  - intros b Hb. specialize (Hr b Hb). rewrite upd_neq by lia. exact Hr.
Qed.

Lemma invS_add c s : Inv c s -> InvS c s -> InvS c (add_partition c s).
Proof.
  intros I0 [H1 H2 H3]. unfold add_partition. constructor; cbn; try assumption.
  intros p Hp. pose proof (i_np c s I0). rewrite upd_neq by lia. apply H3; exact Hp.
Qed.

Lemma invJ_add c s : Inv c s -> InvJ s -> InvJ (add_partition c s).
Proof.
  intros I0 HJ b Hb Hd. cbn in *. pose proof (i_rng c s I0 b Hb) as Hr. pose proof (i_np c s I0).
  rewrite upd_neq by lia. apply HJ; assumption.
Qed.

(* ------------------------------------------------------------------------------------------ refresh *)
Lemma inv_refresh c s : Inv c s -> Inv c (refresh c s).
Proof.
  intros I0. unfold refresh. destruct (c_refresh c && (npos s <? nparts s)%nat) eqn:E; [|exact I0].
  destruct I0 as [Hw Hn Hi Hr Hl Hc Hs Hf]. unfold set_run. constructor; cbn; try assumption.
  - lia.
  - intros b Hb. specialize (Hr b Hb). destruct (Nat.leb_spec (npos s) (b_part b)); intuition lia.
  - intros p a Ha. pose proof (last_of_some _ _ _ Ha) as [Hin Hp]. pose proof (Hr a Hin).
    destruct (Nat.leb_spec (npos s) p); [lia | apply Hl; exact Ha].
Qed.

Lemma invS_refresh c s : sound_refresh c -> Inv c s -> InvS c s -> InvS c (refresh c s).
Proof.
  intros Hsr I0 IS. unfold refresh. destruct (c_refresh c && (npos s <? nparts s)%nat) eqn:E; [|exact IS].
  apply andb_true_iff in E as [E1 E2]. destruct Hsr as [Hfix|Hoff]; [|congruence].
  destruct IS as [H1 H2 H3]. unfold set_run. constructor; cbn.
  - intros p Hp Hnone. destruct (Nat.leb_spec (npos s) p).
    + rewrite Hfix. left; reflexivity.
    + apply H1; assumption.
  - apply contig_ext with (rc := rcomm s); [|exact H2].
    intros b Hb. pose proof (i_rng c s I0 b Hb). destruct (Nat.leb_spec (npos s) (b_part b)); [lia | reflexivity].
  - intros p Hp. destruct (Nat.leb_spec (npos s) p); [rewrite Hfix; lia | apply H3; assumption].
Qed.

Lemma invJ_refresh c s : InvJ s -> InvJ (refresh c s).
Proof. unfold refresh. destruct (c_refresh c && (npos s <? nparts s)%nat); auto. Qed.

Lemma refresh_broker c s : nparts (refresh c s) = nparts s /\ high (refresh c s) = high s /\ comm (refresh c s) = comm s
  /\ infl (refresh c s) = infl s /\ dn (refresh c s) = dn s /\ flag (refresh c s) = flag s.
Proof. unfold refresh. destruct (c_refresh c && (npos s <? nparts s)%nat); cbn; auto 10. Qed.

(* ------------------------------------------------------------------------------------------ poll_part *)
Lemma poll_part_frame c s p :
  npos (poll_part c s p) = npos s /\ nparts (poll_part c s p) = nparts s /\ high (poll_part c s p) = high s /\
  comm (poll_part c s p) = comm s /\ rcomm (poll_part c s p) = rcomm s /\ flag (poll_part c s p) = flag s /\
  dn (poll_part c s p) = dn s.
Proof. unfold poll_part. destruct (kb_clamp _ _ _ _ _) as [r pos']. cbn. auto 10. Qed.

Lemma inv_poll_part c s p : wf_cfg c -> (p < npos s)%nat -> Inv c s -> Inv c (poll_part c s p).
Proof.
  intros Hwf Hp [Hw Hn Hi Hr Hl Hc Hs Hf]. unfold poll_part.
  destruct (kb_clamp (pos s p) (c_low c) (high s p) (c_maxb c) (flag s)) as [r pos'] eqn:E.
  pose proof (kb_clamp_spec _ _ _ _ _ _ _ E) as Hk. cbv zeta in Hk.
  pose proof (pos1_cases (flag s) (pos s p) (high s p)) as Hp1. cbv zeta in Hp1.
  set (pos1 := if flag s && (pos s p =? -1001) then high s p else pos s p) in *.
  unfold wf_cfg in Hwf. pose proof (Hw p) as Hwp.
  assert (Hold : forall b, In b (infl s) -> b_part b = p -> b_hi b + 1 <= pos1 /\ pos1 = pos s p).
  { intros b Hb Hbp. specialize (Hr b Hb). rewrite Hbp in Hr. destruct Hp1 as [->|(_ & E1 & _)]; lia. }
  destruct r as [[lo hi]|].
  - destruct Hk as (Hlo & Hle & Hhi & Hmb & -> & _).
    unfold set_run. constructor; cbn [nparts high comm npos pos rcomm flag infl dn]; try assumption.
    + cbn [ids_ok]. split; [reflexivity | exact Hi].
    + intros b [<-|Hb]; cbn [b_part b_lo b_hi].
      * rewrite upd_eq. repeat split; lia.
      * specialize (Hr b Hb). destruct (Nat.eq_dec (b_part b) p) as [e|e].
        -- rewrite e in *. rewrite upd_eq. destruct (Hold b Hb e). intuition lia.
        -- rewrite upd_neq by exact e. exact Hr.
    + intros q a. rewrite last_of_cons. cbn [b_part]. destruct (Nat.eqb_spec p q) as [<-|e].
      * intros Ha; inversion Ha; subst. cbn [b_hi]. rewrite upd_eq. reflexivity.
      * intros Ha. rewrite upd_neq by auto. apply Hl; exact Ha.
    + cbn [contig b_part b_lo]. split; [|exact Hc].
      destruct (last_of p (infl s)) as [a|] eqn:Ea; [|exact I].
      pose proof (last_of_some _ _ _ Ea) as [Hin Hpa]. destruct (Hold a Hin Hpa) as [H1 H2].
      pose proof (Hl p a Ea). pose proof (Hr a Hin). lia.
    + cbn [sorted_ok b_part b_lo]. split; [|exact Hs]. intros a Ha Hpa. destruct (Hold a Ha Hpa). lia.
  - destruct Hk as (-> & _).
    unfold set_run. constructor; cbn [nparts high comm npos pos rcomm flag infl dn]; try assumption.
    + intros b Hb. specialize (Hr b Hb). destruct (Nat.eq_dec (b_part b) p) as [e|e].
      * rewrite e in *. rewrite upd_eq. destruct (Hold b Hb e). intuition lia.
      * rewrite upd_neq by exact e. exact Hr.
    + intros q a Ha. destruct (Nat.eq_dec q p) as [->|e].
      * rewrite upd_eq. pose proof (last_of_some _ _ _ Ha) as [Hin Hpa]. destruct (Hold a Hin Hpa) as [_ ->].
        apply Hl; exact Ha.
      * rewrite upd_neq by exact e. apply Hl; exact Ha.
Qed.

Lemma invS_poll_part c s p : wf_cfg c -> (p < npos s)%nat -> Inv c s -> InvS c s -> InvS c (poll_part c s p).
Proof.
  intros Hwf Hp I0 [H1 H2 H3]. pose proof I0 as [Hw Hn Hi Hr Hl Hc Hs Hf]. unfold poll_part.
  destruct (kb_clamp (pos s p) (c_low c) (high s p) (c_maxb c) (flag s)) as [r pos'] eqn:E.
  pose proof (kb_clamp_spec _ _ _ _ _ _ _ E) as Hk. cbv zeta in Hk.
  pose proof (pos1_cases (flag s) (pos s p) (high s p)) as Hp1. cbv zeta in Hp1.
  set (pos1 := if flag s && (pos s p =? -1001) then high s p else pos s p) in *.
  unfold wf_cfg in Hwf. pose proof (Hw p) as Hwp. pose proof (H3 p Hp) as Hkp.
  destruct r as [[lo hi]|].
  - destruct Hk as (Hlo & Hle & Hhi & Hmb & -> & _).
    unfold set_run. constructor; cbn [nparts high comm npos pos rcomm flag infl dn].
    + intros q Hq. rewrite last_of_cons. cbn [b_part]. destruct (Nat.eqb_spec p q) as [<-|e]; [discriminate|].
      intros Hn0. rewrite upd_neq by auto. apply H1; assumption.
    + cbn [firsts b_part b_lo]. split; [|exact H2].
      destruct (last_of p (infl s)) as [a|] eqn:Ea; [exact I|].
      specialize (H1 p Hp Ea). unfold first_ok, NONE in *.
      destruct H1 as [H1|(H1a & H1b & H1c)].
      * repeat split.
        -- intros Hne. destruct Hp1 as [->|(_ & E1 & _)]; [rewrite H1 in Hlo; exact Hlo | congruence].
        -- intros He Hlat. destruct Hp1 as [Hp1|(E0 & _)]; [rewrite Hp1, H1, He in Hlo; lia|].
           specialize (Hf E0). congruence.
        -- lia.
      * repeat split; [intros; congruence | intros; congruence | lia].
    + intros q Hq. destruct (Nat.eq_dec q p) as [->|e].
      * rewrite upd_eq. destruct Hp1 as [Hp1|(_ & E1 & E2)]; lia.
      * rewrite upd_neq by exact e. apply H3; exact Hq.
  - destruct Hk as (-> & _).
    unfold set_run. constructor; cbn [nparts high comm npos pos rcomm flag infl dn].
    + intros q Hq Hn0. destruct (Nat.eq_dec q p) as [->|e].
      * rewrite upd_eq. specialize (H1 p Hp Hn0). destruct Hp1 as [->|(E0 & E1 & E2)]; [exact H1|].
        right. rewrite E2. unfold NONE. destruct H1 as [H1|(H1a & H1b & H1c)]; [|lia].
        repeat split; [congruence | apply Hf; exact E0 | exact Hwp].
      * rewrite upd_neq by exact e. apply H1; assumption.
    + exact H2.
    + intros q Hq. destruct (Nat.eq_dec q p) as [->|e].
      * rewrite upd_eq. destruct Hp1 as [->|(_ & E1 & E2)]; lia.
      * rewrite upd_neq by exact e. apply H3; exact Hq.
Qed.

Lemma invJ_poll_part c s p : wf_cfg c -> (p < npos s)%nat -> Inv c s -> InvS c s -> InvJ s -> InvJ (poll_part c s p).
Proof.
  intros Hwf Hp I0 IS HJ. unfold poll_part.
  destruct (kb_clamp (pos s p) (c_low c) (high s p) (c_maxb c) (flag s)) as [r pos'] eqn:E.
  pose proof (kb_clamp_spec _ _ _ _ _ _ _ E) as Hk. cbv zeta in Hk.
  pose proof (pos1_cases (flag s) (pos s p) (high s p)) as Hp1. cbv zeta in Hp1.
  set (pos1 := if flag s && (pos s p =? -1001) then high s p else pos s p) in *.
  unfold wf_cfg in Hwf. pose proof (i_wm c s I0 p) as Hwp. pose proof (s_k c s IS p Hp) as Hkp.
  destruct r as [[lo hi]|]; [|exact HJ].
  destruct Hk as (Hlo & _). intros b [<-|Hb] Hd; cbn [set_run comm b_part b_lo] in *.
  - destruct Hp1 as [Hp1|(_ & E1 & E2)]; lia.
  - apply HJ; assumption.
Qed.

Lemma fold_poll_part c : wf_cfg c -> forall ps s, (forall p, In p ps -> (p < npos s)%nat) -> Inv c s ->
  let s' := fold_left (poll_part c) ps s in
  Inv c s' /\ npos s' = npos s /\ (InvS c s -> InvS c s') /\ (InvS c s -> InvJ s -> InvJ s').
Proof.
  intros Hwf. induction ps as [|p ps IH]; intros s Hps I0; cbn [fold_left]; [auto|].
  assert (Hp : (p < npos s)%nat) by (apply Hps; left; reflexivity).
  pose proof (inv_poll_part c s p Hwf Hp I0) as I1.
  destruct (poll_part_frame c s p) as (Hn & _).
  destruct (IH (poll_part c s p)) as (A & B & C & D); [intros q Hq; rewrite Hn; apply Hps; right; exact Hq | exact I1 |].
  cbv zeta in *. split; [exact A | split; [lia | split]].
  - intros IS. apply C. apply invS_poll_part; assumption.
  - intros IS HJ. apply D; [apply invS_poll_part; assumption | apply invJ_poll_part; assumption].
Qed.

Lemma inv_clear_flag c s : Inv c s -> Inv c (set_run s (npos s) (pos s) (rcomm s) false (infl s) (dn s)).
Proof. intros [Hw Hn Hi Hr Hl Hc Hs Hf]. constructor; cbn; try assumption. discriminate. Qed.

Lemma poll_inv c s : wf_cfg c -> Inv c s ->
  Inv c (poll c s) /\ (sound_refresh c -> InvS c s -> InvS c (poll c s)) /\
  (sound_refresh c -> InvS c s -> InvJ s -> InvJ (poll c s)).
Proof.
  intros Hwf I0. unfold poll.
  pose proof (inv_refresh c s I0) as I1.
  destruct (fold_poll_part c Hwf (seq 0 (npos (refresh c s))) (refresh c s)) as (A & B & C & D);
    [intros p Hp; apply in_seq in Hp; lia | exact I1 |].
  cbv zeta in *. set (s2 := fold_left (poll_part c) (seq 0 (npos (refresh c s))) (refresh c s)) in *.
  split; [|split].
  - apply inv_clear_flag; exact A.
  - intros Hsr IS. destruct (C (invS_refresh c s Hsr I0 IS)) as [X1 X2 X3]. constructor; cbn; assumption.
  - intros Hsr IS HJ. pose proof (D (invS_refresh c s Hsr I0 IS) (invJ_refresh c s HJ)) as X.
    intros b Hb Hd. apply X; assumption.
Qed.

(* ------------------------------------------------------------------------------------------ batch_done *)
Lemma batch_done_cases s i :
  (batch_done s i = (s, [])) \/
  exists b, find_batch i (infl s) = Some b /\ is_done s i = false /\
    batch_done s i =
      ({| nparts := nparts s; high := high s; comm := upd (comm s) (b_part b) (b_hi b + 1);
          npos := npos s; pos := pos s; rcomm := rcomm s; flag := flag s; infl := infl s; dn := i :: dn s |},
       [(b_part b, b_hi b + 1)]).
Proof.
  unfold batch_done. destruct (find_batch i (infl s)) as [b|]; [|left; reflexivity].
  destruct (is_done s i) eqn:E; [left; reflexivity|]. right. exists b. auto.
Qed.

Lemma inv_batch_done c s i : Inv c s -> Inv c (fst (batch_done s i)).
Proof.
  intros I0. destruct (batch_done_cases s i) as [->|(b & _ & _ & ->)]; [exact I0|].
  destruct I0 as [Hw Hn Hi Hr Hl Hc Hs Hf]. constructor; cbn; assumption.
Qed.

Lemma invS_batch_done c s i : Inv c s -> InvS c s -> InvS c (fst (batch_done s i)).
Proof.
  intros I0 IS. destruct (batch_done_cases s i) as [->|(b & Hb & _ & ->)]; [exact IS|].
  destruct IS as [H1 H2 H3]. constructor; cbn [fst nparts high comm npos pos rcomm flag infl dn]; try assumption.
  intros p Hp. apply find_batch_some in Hb as [Hin _]. pose proof (i_rng c s I0 b Hin).
  unfold upd. destruct (Nat.eqb_spec p (b_part b)) as [->|]; [lia | apply H3; exact Hp].
Qed.

Lemma invJ_batch_done c s i : Inv c s -> in_order s i = true -> InvJ s -> InvJ (fst (batch_done s i)).
Proof.
  intros I0 Hio HJ. destruct (batch_done_cases s i) as [->|(b & Hb & Hnd & ->)]; [exact HJ|].
  intros x Hx Hd. cbn [fst nparts high comm npos pos rcomm flag infl dn] in *.
  unfold is_done in Hd. cbn [dn existsb] in Hd. apply orb_false_iff in Hd as [Hd1 Hd2].
  apply Nat.eqb_neq in Hd1.
  unfold upd. destruct (Nat.eqb_spec (b_part x) (b_part b)) as [e|e]; [|apply HJ; assumption].
  unfold in_order in Hio. rewrite Hb in Hio. rewrite forallb_forall in Hio. specialize (Hio x Hx).
  rewrite e, Nat.eqb_refl in Hio. cbn [andb] in Hio.
  apply find_batch_some in Hb as [Hin Hid].
  destruct (Nat.ltb_spec (b_id x) i) as [Hlt|Hge].
  - unfold is_done in Hio. congruence.
  - apply (sorted_lt (infl s) (i_ids c s I0) (i_sorted c s I0) b x Hin Hx); [auto | lia].
Qed.

(* ------------------------------------------------------------------------------------------ reachability *)
(* every state of every run: any broker contents to start from, then any event list *)
Inductive reach (c : cfg) : st -> Prop :=
| reach_init n hs cs : (forall p, c_low c <= hs p) -> reach c (new_run c (broker n hs cs))
| reach_step s e : reach c s -> reach c (fst (step c s e)).

(* the same, with the proviso: batches of a partition complete in order *)
Inductive reach_io (c : cfg) : st -> Prop :=
| rio_init n hs cs : (forall p, c_low c <= hs p) -> reach_io c (new_run c (broker n hs cs))
| rio_step s e : reach_io c s -> (forall i, e = BatchDone i -> in_order s i = true) -> reach_io c (fst (step c s e)).

Lemma reach_io_reach c s : reach_io c s -> reach c s.
Proof. induction 1; [apply reach_init; assumption | apply reach_step; assumption]. Qed.

Lemma reach_run c s evs : reach c s -> reach c (run c s evs).
Proof. revert s. induction evs as [|e t IH]; intros s H; cbn [run]; [exact H | apply IH, reach_step, H]. Qed.

Lemma step_inv c s e : wf_cfg c -> Inv c s ->
  Inv c (fst (step c s e)) /\ (sound_refresh c -> InvS c s -> InvS c (fst (step c s e))).
Proof.
  intros Hwf I0. destruct e as [p n| | |i|]; cbn [step fst].
  - split; [apply inv_produce; exact I0 | intros _; apply invS_produce].
  - split; [apply inv_add; exact I0 | intros _; apply invS_add; exact I0].
  - destruct (poll_inv c s Hwf I0) as (A & B & _). split; assumption.
  - destruct (batch_done s i) as [s' cm] eqn:E. cbn [fst]. replace s' with (fst (batch_done s i)) by (rewrite E; reflexivity).
    split; [apply inv_batch_done; exact I0 | intros _; apply invS_batch_done; exact I0].
  - split; [apply inv_new_run; apply (i_wm c s I0) | intros _ _; apply invS_new_run].
Qed.

Lemma reach_inv c s : wf_cfg c -> reach c s -> Inv c s /\ (sound_refresh c -> InvS c s).
Proof.
  intros Hwf H. induction H as [n hs cs Hh | s e H [IH1 IH2]].
  - split; [apply inv_new_run; exact Hh | intros _; apply invS_new_run].
  - destruct (step_inv c s e Hwf IH1) as [A B]. split; [exact A | intros Hsr; apply B; auto].
Qed.

Lemma reach_io_invJ c s : wf_cfg c -> sound_refresh c -> reach_io c s -> InvJ s.
Proof.
  intros Hwf Hsr H. induction H as [n hs cs Hh | s e H IH Hio].
  - apply invJ_new_run.
  - destruct (reach_inv c s Hwf (reach_io_reach c s H)) as [I0 IS]. specialize (IS Hsr).
    destruct e as [p n| | |i|]; cbn [step fst].
    + apply invJ_produce; exact IH.
    + apply invJ_add with (c := c); assumption.
    + destruct (poll_inv c s Hwf I0) as (_ & _ & C). apply C; assumption.
    + destruct (batch_done s i) as [s' cm] eqn:E. cbn [fst]. replace s' with (fst (batch_done s i)) by (rewrite E; reflexivity).
      apply invJ_batch_done with (c := c); [exact I0 | apply Hio; reflexivity | exact IH].
    + apply invJ_new_run.
Qed.

(* ------------------------------------------------------------------------------------------ theorems *)
(* (1) gap-free, non-overlapping: within a run every range of a partition starts exactly one past the end of
   the previous range of that partition, and `positions` is one past the end of the latest range; the first
   range of a partition in a run starts at the group's committed offset (as it was when the partition entered
   the run), or at the reset position when nothing was committed. *)
Theorem ranges_contiguous c s : wf_cfg c -> reach c s ->
  contig (infl s) /\
  (forall p a, last_of p (infl s) = Some a -> pos s p = b_hi a + 1) /\
  (sound_refresh c -> firsts c (rcomm s) (infl s)).
Proof.
  intros Hwf H. destruct (reach_inv c s Hwf H) as [I0 IS]. repeat split.
  - apply (i_contig c s I0).
  - apply (i_last c s I0).
  - intros Hsr. apply (s_firsts c s (IS Hsr)).
Qed.

(* (2) never below the low watermark, never past the high watermark *)
Theorem range_le_watermark c s b : wf_cfg c -> reach c s -> In b (infl s) ->
  c_low c <= b_lo b /\ b_hi b < high s (b_part b).
Proof. intros Hwf H Hb. destruct (reach_inv c s Hwf H) as [I0 _]. pose proof (i_rng c s I0 b Hb). lia. Qed.

(* (3) at most max_batch_size messages *)
Theorem range_le_maxbatch c s b : wf_cfg c -> reach c s -> In b (infl s) -> b_hi b - b_lo b + 1 <= c_maxb c.
Proof. intros Hwf H Hb. destruct (reach_inv c s Hwf H) as [I0 _]. pose proof (i_rng c s I0 b Hb). lia. Qed.

(* (4) at least one message *)
Theorem ranges_nonempty c s b : wf_cfg c -> reach c s -> In b (infl s) -> b_lo b <= b_hi b.
Proof. intros Hwf H Hb. destruct (reach_inv c s Hwf H) as [I0 _]. pose proof (i_rng c s I0 b Hb). lia. Qed.

(* later ranges of a partition lie entirely above earlier ones (no overlap), by emission number *)
Theorem ranges_disjoint c s a b : wf_cfg c -> reach c s -> In a (infl s) -> In b (infl s) ->
  b_part a = b_part b -> (b_id a < b_id b)%nat -> b_hi a < b_lo b.
Proof.
  intros Hwf H Ha Hb Hp Hlt. destruct (reach_inv c s Hwf H) as [I0 _].
  pose proof (sorted_lt (infl s) (i_ids c s I0) (i_sorted c s I0) a b Ha Hb Hp Hlt). lia.
Qed.

(* (5) a commit of offset o for partition p is issued only by the event "batch i completely processed", for a
   batch i of the current run that was emitted earlier, was not yet completed, covers p and ends at o-1; and
   the group's committed offset changes in no other way (AddPartition creates the entry of a new partition). *)
Theorem commit_after_processing c s e s' rs cms p o :
  step c s e = (s', (rs, cms)) -> In (p, o) cms ->
  exists i b, e = BatchDone i /\ find_batch i (infl s) = Some b /\ is_done s i = false /\ is_done s' i = true /\
              b_part b = p /\ o = b_hi b + 1 /\ cms = [(p, o)].
Proof.
  destruct e as [q n| | |i|]; cbn [step]; intros H Hin; try (inversion H; subst; contradiction).
  destruct (batch_done_cases s i) as [E|(b & Hb & Hnd & E)]; rewrite E in H; inversion H; subst; [contradiction|].
  destruct Hin as [Hin|[]]. inversion Hin; subst.
  exists i, b. repeat split; auto. unfold is_done. cbn. rewrite Nat.eqb_refl. reflexivity.
Qed.

Theorem committed_changes_only_by_commit c s e p :
  comm (fst (step c s e)) p <> comm s p ->
  (exists o, In (p, o) (snd (snd (step c s e))) /\ comm (fst (step c s e)) p = o) \/ (e = AddPartition /\ p = nparts s).
Proof.
  destruct e as [q n| | |i|]; cbn [step fst snd]; intros H.
  - unfold produce in H. destruct (q <? nparts s)%nat; cbn in H; congruence.
  - right. split; [reflexivity|]. cbn in H. unfold upd in H. destruct (Nat.eqb_spec p (nparts s)); congruence.
  - exfalso. apply H. unfold poll. cbn [set_run comm].
    assert (G : forall ps s0, comm (fold_left (poll_part c) ps s0) = comm s0).
    { induction ps as [|x ps IH]; intros s0; cbn [fold_left]; [reflexivity|]. rewrite IH.
      destruct (poll_part_frame c s0 x) as (_ & _ & _ & G & _). exact G. }
    rewrite G. destruct (refresh_broker c s) as (_ & _ & -> & _). reflexivity.
  - destruct (batch_done_cases s i) as [E|(b & Hb & Hnd & E)]; rewrite E in *; cbn [fst snd] in *; [congruence|].
    cbn [comm] in H. unfold upd in *. destruct (Nat.eqb_spec p (b_part b)) as [->|]; [|congruence].
    left. exists (b_hi b + 1). split; [left; reflexivity|]. cbn [comm]. rewrite Nat.eqb_refl. reflexivity.
  - cbn in H. congruence.
Qed.

(* (6) at-least-once, under the proviso that batches of a partition complete in order: at every point of every
   run the committed offset of a partition is at or below the first offset of every batch of that partition
   that has not been completely processed; and a crash at that point starts a run whose positions ARE the
   committed offsets (with nothing emitted and nothing in flight), so by (1) its first range of that partition
   starts at or below every such batch: every message of it is delivered again. *)
Theorem at_least_once c s : wf_cfg c -> sound_refresh c -> reach_io c s ->
  (forall b, In b (infl s) -> is_done s (b_id b) = false -> comm s (b_part b) <= b_lo b) /\
  (let s' := fst (step c s Crash) in
   (forall p, pos s' p = comm s p /\ rcomm s' p = comm s p) /\ comm s' = comm s /\ high s' = high s /\
   infl s' = [] /\ dn s' = []).
Proof.
  intros Hwf Hsr H. split; [exact (reach_io_invJ c s Hwf Hsr H)|].
  cbn. repeat split.
Qed.

(* what the new run then does with a partition it knows from the start: its first range starts at
   max(committed, low), i.e. at or below the start of every batch that was not completely processed *)
Theorem restart_first_range c s s2 evs b a : wf_cfg c -> sound_refresh c -> reach_io c s ->
  In b (infl s) -> is_done s (b_id b) = false -> comm s (b_part b) <> NONE ->
  s2 = run c (fst (step c s Crash)) evs ->
  (forall p, rcomm s2 p = comm s p) ->          (* no further crash / late discovery in between: same run *)
  In a (infl s2) -> b_part a = b_part b -> (forall x, In x (infl s2) -> b_part x = b_part a -> (b_id a <= b_id x)%nat) ->
  b_lo a <= b_lo b.
Proof.
  intros Hwf Hsr H Hb Hnd Hc -> Hrc Ha Hp Hfirst.
  destruct (at_least_once c s Hwf Hsr H) as [HJ _]. specialize (HJ b Hb Hnd).
  pose proof (reach_run c _ evs (reach_step c s Crash (reach_io_reach c s H))) as R2.
  set (s2 := run c (fst (step c s Crash)) evs) in *.
  destruct (reach_inv c s2 Hwf R2) as [I2 IS2]. specialize (IS2 Hsr).
  destruct (reach_inv c s Hwf (reach_io_reach c s H)) as [I0 _].
  pose proof (i_rng c s I0 b Hb) as Hrb.
  (* a is the oldest batch of its partition in s2: firsts applies to it *)
  assert (G : forall l, ids_ok l -> firsts c (rcomm s2) l -> In a l ->
              (forall x, In x l -> b_part x = b_part a -> (b_id a <= b_id x)%nat) ->
              first_ok c (rcomm s2 (b_part a)) (b_lo a)).
  { induction l as [|x t IH]; cbn [ids_ok firsts In]; intros Hi Hf Hin Hmin; [contradiction|].
    destruct Hi as [Hi1 Hi2]. destruct Hf as [Hf1 Hf2]. destruct Hin as [->|Hin].
    - destruct (last_of (b_part a) t) as [y|] eqn:Ey; [|exact Hf1].
      apply last_of_some in Ey as [Hy1 Hy2]. pose proof (ids_lt t Hi2 y Hy1).
      specialize (Hmin y (or_intror Hy1) Hy2). lia.
    - apply IH; auto. }
  specialize (G (infl s2) (i_ids c s2 I2) (s_firsts c s2 IS2) Ha Hfirst).
  destruct G as (G1 & _ & _). rewrite Hrc, Hp in G1. specialize (G1 Hc). lia.
Qed.

(* ------------------------------------------------------------------------------------------ witnesses *)
Fixpoint io_ok (c : cfg) (s : st) (evs : list event) : bool :=
  match evs with
  | [] => true
  | e :: t => (match e with BatchDone i => in_order s i | _ => true end) && io_ok c (fst (step c s e)) t
  end.

Lemma reach_io_run c evs : forall s, reach_io c s -> io_ok c s evs = true -> reach_io c (run c s evs).
Proof.
  induction evs as [|e t IH]; intros s H Hok; cbn [run io_ok] in *; [exact H|].
  apply andb_true_iff in Hok as [H1 H2]. apply IH; [|exact H2].
  apply rio_step; [exact H|]. intros i ->. exact H1.
Qed.

(* WITHOUT the proviso the guarantee fails: two batches of one partition in flight, the later one completes
   first and commits offset 6; the earlier batch [0,2] is still unprocessed with the committed offset above it;
   after a crash the new run starts at 6, emits nothing and is at the high watermark: 0..2 are never delivered
   to a consumer that finishes them. *)
Definition oo_cfg : cfg := {| c_maxb := 3; c_latest := false; c_np := None; c_refresh := false; c_low := 0; c_fix := true |}.
Definition oo_state : st := run oo_cfg (new_run oo_cfg (broker 1 (fun _ => 6) (fun _ => NONE))) [Poll; Poll; BatchDone 1].
Definition oo_batch : batch := {| b_id := 0; b_part := 0; b_lo := 0; b_hi := 2 |}.

Theorem at_least_once_out_of_order_refuted :
  exists c s b, wf_cfg c /\ sound_refresh c /\ reach c s /\ In b (infl s) /\ is_done s (b_id b) = false /\
    b_lo b < comm s (b_part b) /\
    (let s2 := run c s [Crash; Poll; Poll] in infl s2 = [] /\ pos s2 (b_part b) = high s2 (b_part b)).
Proof.
  exists oo_cfg, oo_state, oo_batch. split; [unfold wf_cfg; cbn; lia|]. split; [left; reflexivity|].
  split; [apply reach_run, reach_init; intros; cbn; lia|].
  split; [vm_compute; auto|]. split; [vm_compute; reflexivity|]. split; [vm_compute; reflexivity|].
  vm_compute. split; reflexivity.
Qed.

(* AS FOUND (c_fix = false): a partition discovered by refresh_partitions gets position -1001 without asking for
   the group's committed offset.  npartitions=1 given, the topic has 2 partitions, 'latest': partition 1 is picked
   up by refresh, batches [0,1] and [2,3] are emitted, [0,1] completes (commit 2), [2,3] does not.  Completion is
   in order and the committed offset (2) is exactly the start of the unprocessed batch.  After the crash the new
   run rediscovers partition 1 in its first pass with position -1001, 'latest' resets it to the high watermark 4:
   nothing is emitted, 2..3 are never delivered again. *)
Definition rf_cfg (fx : bool) : cfg :=
  {| c_maxb := 2; c_latest := true; c_np := Some 1%nat; c_refresh := true; c_low := 0; c_fix := fx |}.
Definition rf_events : list event := [Poll; Produce 1 4; Poll; Poll; BatchDone 0].
Definition rf_state (fx : bool) : st := run (rf_cfg fx) (new_run (rf_cfg fx) (broker 2 (fun _ => 0) (fun _ => NONE))) rf_events.
Definition rf_batch : batch := {| b_id := 1; b_part := 1; b_lo := 2; b_hi := 3 |}.

Theorem refresh_discovery_as_found_refuted :
  exists c s b, wf_cfg c /\ c_fix c = false /\ reach_io c s /\ In b (infl s) /\ is_done s (b_id b) = false /\
    comm s (b_part b) = b_lo b /\
    (let s2 := run c s [Crash; Poll; Poll] in infl s2 = [] /\ pos s2 (b_part b) = high s2 (b_part b)).
Proof.
  exists (rf_cfg false), (rf_state false), rf_batch. split; [unfold wf_cfg; cbn; lia|]. split; [reflexivity|].
  split; [apply reach_io_run; [apply rio_init; intros; cbn; lia | vm_compute; reflexivity]|].
  split; [vm_compute; auto|]. split; [vm_compute; reflexivity|]. split; [vm_compute; reflexivity|].
  vm_compute. split; reflexivity.
Qed.

(* the same history on the repaired variant: the restarted run re-emits [2,3] *)
Example refresh_discovery_repaired_redelivers :
  map range_of (infl (run (rf_cfg true) (rf_state true) [Crash; Poll; Poll])) = [(1%nat, 2, 3)].
Proof. vm_compute. reflexivity. Qed.

(* AS FOUND, 'earliest': the same discovery restarts partition 1 at the low watermark although 2 is committed:
   the first range of the new run does not start at the committed offset (the completed batch is delivered twice). *)
Definition rfe_cfg : cfg := {| c_maxb := 2; c_latest := false; c_np := Some 1%nat; c_refresh := true; c_low := 0; c_fix := false |}.
Definition rfe_state : st :=
  run rfe_cfg (new_run rfe_cfg (broker 2 (fun _ => 0) (fun _ => NONE))) (rf_events ++ [Crash; Poll]).

Theorem first_range_as_found_refuted :
  exists c s, wf_cfg c /\ c_fix c = false /\ reach c s /\ ~ firsts c (rcomm s) (infl s).
Proof.
  exists rfe_cfg, rfe_state. split; [unfold wf_cfg; cbn; lia|]. split; [reflexivity|].
  split; [apply reach_run, reach_init; intros; cbn; lia|].
  intros H. vm_compute in H. destruct H as [[H _] _]. assert (E : (0 = 2)%Z) by (apply H; discriminate). discriminate.
Qed.

(* non-vacuity of the hypotheses: a wf, sound configuration with an in-order run that has two partitions, several
   ranges per partition, commits, a crash in the middle, and an unprocessed batch at the end *)
Definition nv_cfg : cfg := {| c_maxb := 2; c_latest := false; c_np := None; c_refresh := true; c_low := 1; c_fix := true |}.
Definition nv_events : list event :=
  [Poll; Produce 0 3; Poll; Poll; BatchDone 0; AddPartition; Produce 1 2; Poll; Crash; Poll; Poll; BatchDone 0; BatchDone 1].
Definition nv_init : st := new_run nv_cfg (broker 1 (fun _ => 2) (fun _ => NONE)).

(* ------------------------------------------------------------------------------------------ coverage *)
(* oldest batch of partition p in the run *)
Fixpoint first_of (p : nat) (l : list batch) : option batch :=
  match l with
  | [] => None
  | b :: t => match first_of p t with
              | Some a => Some a
              | None => if Nat.eqb (b_part b) p then Some b else None
              end
  end.

Lemma first_none_last_none p l : first_of p l = None -> last_of p l = None.
Proof.
  induction l as [|x t IH]; cbn [first_of]; intros H; [reflexivity|]. rewrite last_of_cons.
  destruct (first_of p t); [discriminate|]. destruct (Nat.eqb (b_part x) p); [discriminate | apply IH; reflexivity].
Qed.

Lemma last_none_first_none p l : last_of p l = None -> first_of p l = None.
Proof.
  induction l as [|x t IH]; cbn [first_of]; intros H; [reflexivity|]. rewrite last_of_cons in H.
  destruct (Nat.eqb (b_part x) p); [discriminate|]. rewrite (IH H). reflexivity.
Qed.

Lemma contig_cover l : contig l -> forall p a f, last_of p l = Some a -> first_of p l = Some f ->
  forall o, b_lo f <= o <= b_hi a -> exists b, In b l /\ b_part b = p /\ b_lo b <= o <= b_hi b.
Proof.
  induction l as [|x t IH]; intros Hc p a f Ha Hf o Ho; [discriminate|].
  cbn [contig] in Hc. destruct Hc as [Hc1 Hc2]. rewrite last_of_cons in Ha. cbn [first_of] in Hf.
  destruct (Nat.eqb_spec (b_part x) p) as [e|e].
  - inversion Ha; subst a. destruct (Z_le_gt_dec (b_lo x) o) as [Hle|Hgt].
    + exists x. split; [left; reflexivity | split; [exact e | lia]].
    + destruct (first_of p t) as [f'|] eqn:Ef.
      * inversion Hf; subst f'. rewrite e in Hc1. destruct (last_of p t) as [y|] eqn:Ey.
        -- destruct (IH Hc2 p y f Ey Ef o) as (b & Hb1 & Hb2 & Hb3); [lia|].
           exists b. split; [right; exact Hb1 | auto].
        -- rewrite (last_none_first_none p t Ey) in Ef. discriminate.
      * inversion Hf; subst f. lia.
  - destruct (first_of p t) as [f'|] eqn:Ef; [|discriminate]. inversion Hf; subst f'.
    destruct (IH Hc2 p a f Ha Ef o Ho) as (b & Hb1 & Hb2 & Hb3). exists b. split; [right; exact Hb1 | auto].
Qed.

(* gap-free in the strongest sense: every offset between the start of the run's first range of a partition and
   its current position lies in a batch emitted by this run (and by ranges_disjoint in exactly one) *)
Theorem ranges_cover c s p f o : wf_cfg c -> reach c s -> first_of p (infl s) = Some f -> b_lo f <= o < pos s p ->
  exists b, In b (infl s) /\ b_part b = p /\ b_lo b <= o <= b_hi b.
Proof.
  intros Hwf H Hf Ho. destruct (reach_inv c s Hwf H) as [I0 _].
  destruct (last_of p (infl s)) as [a|] eqn:Ea.
  - pose proof (i_last c s I0 p a Ea). apply (contig_cover (infl s) (i_contig c s I0) p a f Ea Hf). lia.
  - rewrite (last_none_first_none p (infl s) Ea) in Hf. discriminate.
Qed.
