(* Proofs about the source lifecycle model (Ext/SourceLife.v): Source.start / stop / run, from_periodic,
   from_iterable.  All theorems quantify over ALL histories `acts : list sact` of start / stop / ack / advance. *)
From Coq Require Import List ZArith Bool Lia Arith.
From SZ Require Import Ext.SourceLife.
Import ListNotations.

(* ---------------------------------------------------------------------------------------------------- *)
(* 0. Small utilities                                                                                   *)
(* ---------------------------------------------------------------------------------------------------- *)

Definition same_cfg (s s' : sst) : Prop :=
  ss_fixed s' = ss_fixed s /\ ss_kind s' = ss_kind s /\ ss_sync s' = ss_sync s.

Lemma same_cfg_refl s : same_cfg s s.
Proof. repeat split. Qed.

Lemma same_cfg_trans s1 s2 s3 : same_cfg s1 s2 -> same_cfg s2 s3 -> same_cfg s1 s3.
Proof. unfold same_cfg; intros (A & B & C) (D & E & F); repeat split; congruence. Qed.

Lemma same_cfg_upd s n st l c : same_cfg s (upd s n st l c).
Proof. repeat split. Qed.

Lemma fuel_of_S s : exists f, fuel_of s = S (S f).
Proof. unfold fuel_of; destruct (ss_kind s); eauto. Qed.

Lemma s_tick_cfg s s' d : s_tick s = (s', d) -> same_cfg s s'.
Proof.
  unfold s_tick.
  destruct (resume_due s (ss_now s + 1) (ss_loops s) (ss_stopped s) (ss_count s)) as [[[lo dl] st] c].
  intros H; inversion H; subst. apply same_cfg_upd.
Qed.

Lemma s_adv_cfg n : forall s s' d, s_adv n s = (s', d) -> same_cfg s s'.
Proof.
  induction n as [|n IH]; intros s s' d H; cbn [s_adv] in H.
  - inversion H; subst. apply same_cfg_refl.
  - destruct (s_tick s) as [s1 d1] eqn:E1. destruct (s_adv n s1) as [s2 d2] eqn:E2.
    inversion H; subst. eapply same_cfg_trans; [eapply s_tick_cfg; eauto | eapply IH; eauto].
Qed.

Lemma s_step_cfg s a s' d : s_step s a = (s', d) -> same_cfg s s'.
Proof.
  destruct a; cbn [s_step]; intros H.
  - destruct (ss_stopped s).
    + destruct (ss_fixed s && negb match ss_loops s with [] => true | _ :: _ => false end).
      * inversion H; subst. apply same_cfg_upd.
      * destruct (loop_go (fuel_of s) s (ss_now s) false (ss_count s) 0) as [[[l dl] st] c].
        inversion H; subst. apply same_cfg_upd.
    + inversion H; subst. apply same_cfg_refl.
  - destruct (ss_stopped s); inversion H; subst; [apply same_cfg_refl | apply same_cfg_upd].
  - destruct (ack_first s (ss_loops s) (ss_stopped s) (ss_count s)) as [[[lo dl] st] c].
    inversion H; subst. apply same_cfg_upd.
  - eapply s_adv_cfg; eauto.
Qed.

Lemma s_run_cfg acts : forall s s' outs, s_run s acts = (s', outs) -> same_cfg s s'.
Proof.
  induction acts as [|a t IH]; intros s s' outs H; cbn [s_run] in H.
  - inversion H; subst. apply same_cfg_refl.
  - destruct (s_step s a) as [s1 o] eqn:E1. destruct (s_run s1 t) as [s2 os] eqn:E2.
    inversion H; subst. eapply same_cfg_trans; [eapply s_step_cfg; eauto | eapply IH; eauto].
Qed.

(* ---------------------------------------------------------------------------------------------------- *)
(* 4. start on a started source / stop on a stopped source are no-ops (any state)                       *)
(* ---------------------------------------------------------------------------------------------------- *)

Theorem start_started_noop : forall s, ss_stopped s = false -> s_step s SStart = (s, []).
Proof. intros s H; cbn [s_step]; rewrite H; reflexivity. Qed.

Theorem stop_stopped_noop : forall s, ss_stopped s = true -> s_step s SStop = (s, []).
Proof. intros s H; cbn [s_step]; rewrite H; reflexivity. Qed.

(* ---------------------------------------------------------------------------------------------------- *)
(* 1. At most one polling loop (repaired variant)                                                       *)
(* ---------------------------------------------------------------------------------------------------- *)

Lemma opt_len (l : option linst) : length (match l with Some x => [x] | None => [] end) <= 1.
Proof. destruct l; simpl; lia. Qed.

(* resume_due never lengthens the loop list *)
Lemma resume_due_len s now : forall loops st c loops' dl st' c',
  resume_due s now loops st c = (loops', dl, st', c') -> length loops' <= length loops.
Proof.
  induction loops as [|l rest IH]; intros st c loops' dl st' c' H; cbn [resume_due] in H.
  - inversion H; subst; simpl; lia.
  - destruct (li_mode l) as [u|].
    + destruct (u <=? now)%Z.
      * destruct (loop_go (fuel_of s) s now st c (li_cursor l)) as [[[l1 dl1] st1] c1].
        destruct (resume_due s now rest st1 c1) as [[[r2 dl2] st2] c2] eqn:E2.
        inversion H; subst. apply IH in E2. rewrite app_length.
        pose proof (opt_len l1). simpl; lia.
      * destruct (resume_due s now rest st c) as [[[r2 dl2] st2] c2] eqn:E2.
        inversion H; subst. apply IH in E2. simpl; lia.
    + destruct (resume_due s now rest st c) as [[[r2 dl2] st2] c2] eqn:E2.
      inversion H; subst. apply IH in E2. simpl; lia.
Qed.

(* ack_first never lengthens the loop list *)
Lemma ack_first_len s : forall loops st c loops' dl st' c',
  ack_first s loops st c = (loops', dl, st', c') -> length loops' <= length loops.
Proof.
  induction loops as [|l rest IH]; intros st c loops' dl st' c' H; cbn [ack_first] in H.
  - inversion H; subst; simpl; lia.
  - destruct (li_mode l) as [u|].
    + destruct (ack_first s rest st c) as [[[r2 dl2] st2] c2] eqn:E2.
      inversion H; subst. apply IH in E2. simpl; lia.
    + destruct (ss_kind s).
      * inversion H; subst; simpl; lia.
      * destruct (loop_go (fuel_of s) s (ss_now s) st c (li_cursor l)) as [[[l1 dl1] st1] c1].
        inversion H; subst. rewrite app_length. pose proof (opt_len l1). simpl; lia.
Qed.

Lemma s_tick_len s s' d : s_tick s = (s', d) -> length (ss_loops s') <= length (ss_loops s).
Proof.
  unfold s_tick.
  destruct (resume_due s (ss_now s + 1) (ss_loops s) (ss_stopped s) (ss_count s)) as [[[lo dl] st] c] eqn:E.
  intros H; inversion H; subst. cbn [upd ss_loops]. eapply resume_due_len; eauto.
Qed.

Lemma s_adv_len n : forall s s' d, s_adv n s = (s', d) -> length (ss_loops s') <= length (ss_loops s).
Proof.
  induction n as [|n IH]; intros s s' d H; cbn [s_adv] in H.
  - inversion H; subst; lia.
  - destruct (s_tick s) as [s1 d1] eqn:E1. destruct (s_adv n s1) as [s2 d2] eqn:E2.
    inversion H; subst. apply s_tick_len in E1. apply IH in E2. lia.
Qed.

(* in the repaired variant start() spawns a loop only when none is alive *)
Lemma s_step_len s a s' d :
  ss_fixed s = true -> s_step s a = (s', d) -> length (ss_loops s) <= 1 -> length (ss_loops s') <= 1.
Proof.
  intros Hf H Hl. destruct a; cbn [s_step] in H.
  - destruct (ss_stopped s).
    + rewrite Hf in H. destruct (ss_loops s) as [|l0 r0] eqn:EL; cbn [andb negb] in H.
      * destruct (loop_go (fuel_of s) s (ss_now s) false (ss_count s) 0) as [[[l dl] st] c].
        inversion H; subst. cbn [upd ss_loops app]. apply opt_len.
      * inversion H; subst. cbn [upd ss_loops]. exact Hl.
    + inversion H; subst; exact Hl.
  - destruct (ss_stopped s); inversion H; subst; exact Hl.
  - destruct (ack_first s (ss_loops s) (ss_stopped s) (ss_count s)) as [[[lo dl] st] c] eqn:E.
    inversion H; subst. cbn [upd ss_loops]. apply ack_first_len in E. lia.
  - apply s_adv_len in H. lia.
Qed.

Lemma s_run_len acts : forall s s' outs,
  ss_fixed s = true -> s_run s acts = (s', outs) -> length (ss_loops s) <= 1 -> length (ss_loops s') <= 1.
Proof.
  induction acts as [|a t IH]; intros s s' outs Hf H Hl; cbn [s_run] in H.
  - inversion H; subst; exact Hl.
  - destruct (s_step s a) as [s1 o] eqn:E1. destruct (s_run s1 t) as [s2 os] eqn:E2.
    inversion H; subst. eapply IH; [| exact E2 |].
    + destruct (s_step_cfg _ _ _ _ E1) as (A & _). congruence.
    + eapply s_step_len; eauto.
Qed.

Theorem one_loop : forall k sync acts s outs,
  s_run (s_init true k sync) acts = (s, outs) -> length (ss_loops s) <= 1.
Proof. intros k sync acts s outs H. eapply s_run_len; [| exact H |]; simpl; auto. Qed.

(* 2. the code as found: start, stop, start leaves two polling loops alive *)
Theorem one_loop_refuted : exists k sync acts s outs,
  s_run (s_init false k sync) acts = (s, outs) /\ length (ss_loops s) = 2.
Proof.
  exists (SPeriodic 5), true, [SStart; SStop; SStart].
  eexists; eexists; split; [vm_compute; reflexivity | reflexivity].
Qed.

(* reachable states of the repaired variant *)
Definition reachable (s : sst) : Prop :=
  exists k sync acts outs, s_run (s_init true k sync) acts = (s, outs).

Lemma reachable_fixed s : reachable s -> ss_fixed s = true.
Proof. intros (k & sync & acts & outs & H). apply s_run_cfg in H. destruct H as (A & _). exact A. Qed.

Lemma reachable_one_loop s : reachable s -> length (ss_loops s) <= 1.
Proof. intros (k & sync & acts & outs & H). eapply one_loop; eauto. Qed.

(* ---------------------------------------------------------------------------------------------------- *)
(* 3. After stop() no new cycle begins until the next start()                                           *)
(*    (holds for ANY state with ss_stopped = true, both variants; reachability is not needed)           *)
(* ---------------------------------------------------------------------------------------------------- *)

Lemma loop_go_stopped f s now c cur : loop_go (S f) s now true c cur = (None, [], true, c).
Proof. reflexivity. Qed.

Lemma resume_due_stopped s now : forall loops c,
  exists loops', resume_due s now loops true c = (loops', [], true, c).
Proof.
  destruct (fuel_of_S s) as (f & Hf).
  induction loops as [|l rest IH]; intros c; cbn [resume_due].
  - eauto.
  - destruct (IH c) as (r' & E). destruct (li_mode l) as [u|].
    + destruct (u <=? now)%Z.
      * rewrite Hf, loop_go_stopped, E. eexists; reflexivity.
      * rewrite E. eexists; reflexivity.
    + rewrite E. eexists; reflexivity.
Qed.

Lemma ack_first_stopped s : forall loops c,
  exists loops', ack_first s loops true c = (loops', [], true, c).
Proof.
  destruct (fuel_of_S s) as (f & Hf).
  induction loops as [|l rest IH]; intros c; cbn [ack_first].
  - eauto.
  - destruct (IH c) as (r' & E). destruct (li_mode l) as [u|].
    + rewrite E. eexists; reflexivity.
    + destruct (ss_kind s) eqn:K.
      * eexists; reflexivity.
      * rewrite Hf, loop_go_stopped. destruct (ss_fixed s); eexists; reflexivity.
Qed.

Lemma s_tick_stopped s : ss_stopped s = true -> exists s', s_tick s = (s', []) /\ ss_stopped s' = true.
Proof.
  intros H. unfold s_tick. rewrite H.
  destruct (resume_due_stopped s (ss_now s + 1) (ss_loops s) (ss_count s)) as (lo & E). rewrite E.
  eexists; split; reflexivity.
Qed.

Lemma s_adv_stopped n : forall s, ss_stopped s = true -> exists s', s_adv n s = (s', []) /\ ss_stopped s' = true.
Proof.
  induction n as [|n IH]; intros s H; cbn [s_adv].
  - eauto.
  - destruct (s_tick_stopped s H) as (s1 & E1 & H1). rewrite E1.
    destruct (IH s1 H1) as (s2 & E2 & H2). rewrite E2. eexists; split; [reflexivity | exact H2].
Qed.

(* general form: any state, either variant *)
Lemma no_new_cycle_after_stop_any : forall s, ss_stopped s = true ->
  forall a, a <> SStart -> snd (s_step s a) = [] /\ ss_stopped (fst (s_step s a)) = true.
Proof.
  intros s H a Ha. destruct a; cbn [s_step].
  - congruence.
  - rewrite H. split; [reflexivity | exact H].
  - rewrite H. destruct (ack_first_stopped s (ss_loops s) (ss_count s)) as (lo & E). rewrite E.
    split; reflexivity.
  - destruct (s_adv_stopped (Z.to_nat dt) s H) as (s' & E & H'). rewrite E. split; [reflexivity | exact H'].
Qed.

Theorem no_new_cycle_after_stop : forall s, reachable s -> ss_stopped s = true ->
  forall a, a <> SStart -> snd (s_step s a) = [].
Proof. intros s _ H a Ha. apply no_new_cycle_after_stop_any; assumption. Qed.

(* ---------------------------------------------------------------------------------------------------- *)
(* Generic accumulation: if every burst of one loop (loop_go) extends the delivered-values list `F count` *)
(* consistently, then so does every step and every run.                                                  *)
(* ---------------------------------------------------------------------------------------------------- *)

Section Accum.
  Variable C : sst -> Prop.            (* configuration predicate, stable under same_cfg *)
  Variable I : nat -> Prop.            (* side invariant on the counter *)
  Variable F : nat -> list Z.          (* values delivered once the counter is c *)

  Definition Good (c : nat) (dl : list (Z * Z)) (c' : nat) : Prop :=
    I c -> I c' /\ F c ++ map snd dl = F c'.

  Hypothesis C_cfg : forall s s', same_cfg s s' -> C s -> C s'.
  Hypothesis go_good : forall s, C s -> forall fuel now st c cur l dl st' c',
    loop_go fuel s now st c cur = (l, dl, st', c') -> Good c dl c'.

  Lemma Good_refl c : Good c [] c.
  Proof. intros H; split; [exact H | apply app_nil_r]. Qed.

  Lemma Good_trans c d1 c1 d2 c2 : Good c d1 c1 -> Good c1 d2 c2 -> Good c (d1 ++ d2) c2.
  Proof.
    intros G1 G2 H. destruct (G1 H) as (H1 & E1). destruct (G2 H1) as (H2 & E2).
    split; [exact H2 |]. rewrite map_app, app_assoc, E1. exact E2.
  Qed.

  Lemma resume_due_good s (Hs : C s) now : forall loops st c loops' dl st' c',
    resume_due s now loops st c = (loops', dl, st', c') -> Good c dl c'.
  Proof.
    induction loops as [|l rest IH]; intros st c loops' dl st' c' H; cbn [resume_due] in H.
    - inversion H; subst. apply Good_refl.
    - destruct (li_mode l) as [u|].
      + destruct (u <=? now)%Z.
        * destruct (loop_go (fuel_of s) s now st c (li_cursor l)) as [[[l1 dl1] st1] c1] eqn:E1.
          destruct (resume_due s now rest st1 c1) as [[[r2 dl2] st2] c2] eqn:E2.
          inversion H; subst. eapply Good_trans; [eapply go_good; eauto | eapply IH; eauto].
        * destruct (resume_due s now rest st c) as [[[r2 dl2] st2] c2] eqn:E2.
          inversion H; subst. eapply IH; eauto.
      + destruct (resume_due s now rest st c) as [[[r2 dl2] st2] c2] eqn:E2.
        inversion H; subst. eapply IH; eauto.
  Qed.

  Lemma ack_first_good s (Hs : C s) : forall loops st c loops' dl st' c',
    ack_first s loops st c = (loops', dl, st', c') -> Good c dl c'.
  Proof.
    induction loops as [|l rest IH]; intros st c loops' dl st' c' H; cbn [ack_first] in H.
    - inversion H; subst. apply Good_refl.
    - destruct (li_mode l) as [u|].
      + destruct (ack_first s rest st c) as [[[r2 dl2] st2] c2] eqn:E2.
        inversion H; subst. eapply IH; eauto.
      + destruct (ss_kind s).
        * inversion H; subst. apply Good_refl.
        * destruct (loop_go (fuel_of s) s (ss_now s) st c (li_cursor l)) as [[[l1 dl1] st1] c1] eqn:E1.
          inversion H; subst. eapply go_good; eauto.
  Qed.

  Lemma s_tick_good s s' d : C s -> s_tick s = (s', d) -> Good (ss_count s) d (ss_count s').
  Proof.
    intros Hs. unfold s_tick.
    destruct (resume_due s (ss_now s + 1) (ss_loops s) (ss_stopped s) (ss_count s)) as [[[lo dl] st] c] eqn:E.
    intros H; inversion H; subst. cbn [upd ss_count]. eapply resume_due_good; eauto.
  Qed.

  Lemma s_adv_good n : forall s s' d, C s -> s_adv n s = (s', d) -> Good (ss_count s) d (ss_count s').
  Proof.
    induction n as [|n IH]; intros s s' d Hs H; cbn [s_adv] in H.
    - inversion H; subst. apply Good_refl.
    - destruct (s_tick s) as [s1 d1] eqn:E1. destruct (s_adv n s1) as [s2 d2] eqn:E2.
      inversion H; subst. eapply Good_trans; [eapply s_tick_good; eauto |].
      eapply IH; [| exact E2]. eapply C_cfg; [eapply s_tick_cfg; eauto | exact Hs].
  Qed.

  Lemma s_step_good s a s' d : C s -> s_step s a = (s', d) -> Good (ss_count s) d (ss_count s').
  Proof.
    intros Hs H. destruct a; cbn [s_step] in H.
    - destruct (ss_stopped s).
      + destruct (ss_fixed s && negb match ss_loops s with [] => true | _ :: _ => false end).
        * inversion H; subst. apply Good_refl.
        * destruct (loop_go (fuel_of s) s (ss_now s) false (ss_count s) 0) as [[[l dl] st] c] eqn:E.
          inversion H; subst. cbn [upd ss_count]. eapply go_good; eauto.
      + inversion H; subst. apply Good_refl.
    - destruct (ss_stopped s); inversion H; subst; apply Good_refl.
    - destruct (ack_first s (ss_loops s) (ss_stopped s) (ss_count s)) as [[[lo dl] st] c] eqn:E.
      inversion H; subst. cbn [upd ss_count]. eapply ack_first_good; eauto.
    - eapply s_adv_good; eauto.
  Qed.

  Lemma s_run_good acts : forall s s' outs,
    C s -> s_run s acts = (s', outs) -> Good (ss_count s) (concat outs) (ss_count s').
  Proof.
    induction acts as [|a t IH]; intros s s' outs Hs H; cbn [s_run] in H.
    - inversion H; subst. apply Good_refl.
    - destruct (s_step s a) as [s1 o] eqn:E1. destruct (s_run s1 t) as [s2 os] eqn:E2.
      inversion H; subst. cbn [concat]. eapply Good_trans; [eapply s_step_good; eauto |].
      eapply IH; [| exact E2]. eapply C_cfg; [eapply s_step_cfg; eauto | exact Hs].
  Qed.
End Accum.

(* ---------------------------------------------------------------------------------------------------- *)
(* 5. from_iterable (repaired): exactly the items, in order, each once                                   *)
(* ---------------------------------------------------------------------------------------------------- *)

Lemma nth_error_firstn_S (items : list Z) : forall c x,
  nth_error items c = Some x -> firstn (S c) items = firstn c items ++ [x] /\ S c <= length items.
Proof.
  induction items as [|y r IH]; intros [|c] x H; cbn in H; try discriminate.
  - inversion H; subst. split; [reflexivity | simpl; lia].
  - destruct (IH c x H) as (E & L). split; [| simpl; lia].
    change (firstn (S (S c)) (y :: r)) with (y :: firstn (S c) r). rewrite E. reflexivity.
Qed.

Lemma nth_error_skipn_S (items : list Z) : forall c x,
  nth_error items c = Some x -> skipn c items = x :: skipn (S c) items.
Proof.
  induction items as [|y r IH]; intros [|c] x H; cbn in H; try discriminate.
  - inversion H; subst. reflexivity.
  - apply IH in H. cbn [skipn]. cbn [skipn] in H. exact H.
Qed.

Definition iter_cfg (items : list Z) (s : sst) : Prop := ss_fixed s = true /\ ss_kind s = SIterable items.

Lemma iter_cfg_stable items s s' : same_cfg s s' -> iter_cfg items s -> iter_cfg items s'.
Proof. intros (A & B & _) (D & E). split; congruence. Qed.

Lemma loop_go_iter_good items s : iter_cfg items s -> forall fuel now st c cur l dl st' c',
  loop_go fuel s now st c cur = (l, dl, st', c') ->
  Good (fun c => c <= length items) (fun c => firstn c items) c dl c'.
Proof.
  intros (Hf & Hk). induction fuel as [|fuel IH]; intros now st c cur l dl st' c' H; cbn [loop_go] in H.
  - inversion H; subst. apply Good_refl.
  - destruct st; [inversion H; subst; apply Good_refl |].
    rewrite Hk, Hf in H.
    destruct (nth_error items c) as [x|] eqn:En.
    + destruct (nth_error_firstn_S _ _ _ En) as (EF & EL).
      assert (G1 : Good (fun c => c <= length items) (fun c => firstn c items) c [(now, x)] (S c)).
      { intros _. split; [exact EL |]. cbn [map snd]. symmetry; exact EF. }
      destruct (ss_sync s).
      * destruct (loop_go fuel s now false (S c) (S cur)) as [[[l1 dl1] st1] c1] eqn:E1.
        inversion H; subst. apply IH in E1.
        change ((now, x) :: dl1) with ([(now, x)] ++ dl1). eapply Good_trans; eauto.
      * inversion H; subst. exact G1.
    + inversion H; subst. apply Good_refl.
Qed.

Theorem from_iterable_exact : forall items sync acts s outs,
  s_run (s_init true (SIterable items) sync) acts = (s, outs) ->
  map snd (concat outs) = firstn (ss_count s) items /\ ss_count s <= length items.
Proof.
  intros items sync acts s outs H.
  eapply (s_run_good (iter_cfg items) (fun c => c <= length items) (fun c => firstn c items)) in H.
  - cbn [s_init ss_count] in H. destruct H as (L & E); [lia |]. cbn [firstn app] in E. split; assumption.
  - apply iter_cfg_stable.
  - apply loop_go_iter_good.
  - split; reflexivity.
Qed.

(* the shared cursor never moves backwards (any reachable-or-not state of the repaired from_iterable) *)
Lemma iter_count_mono items acts s s' outs :
  iter_cfg items s -> ss_count s <= length items -> s_run s acts = (s', outs) ->
  ss_count s <= ss_count s' <= length items.
Proof.
  intros Hc Hl H.
  eapply (s_run_good (iter_cfg items) (fun c => c <= length items) (fun c => firstn c items)) in H;
    [| apply iter_cfg_stable | apply loop_go_iter_good | exact Hc].
  destruct (H Hl) as (L & E). split; [| exact L].
  apply (f_equal (@length Z)) in E. rewrite app_length, !firstn_length in E. lia.
Qed.

(* ---------------------------------------------------------------------------------------------------- *)
(* 7. from_periodic: the callback results 1, 2, 3, ... each delivered exactly once, in order             *)
(* ---------------------------------------------------------------------------------------------------- *)

Definition per_cfg (poll : Z) (s : sst) : Prop := ss_kind s = SPeriodic poll.

Lemma per_cfg_stable poll s s' : same_cfg s s' -> per_cfg poll s -> per_cfg poll s'.
Proof. intros (_ & B & _) E. unfold per_cfg in *. congruence. Qed.

Lemma loop_go_per_good poll s : per_cfg poll s -> forall fuel now st c cur l dl st' c',
  loop_go fuel s now st c cur = (l, dl, st', c') ->
  Good (fun _ => True) (fun c => map Z.of_nat (seq 1 c)) c dl c'.
Proof.
  intros Hk fuel now st c cur l dl st' c' H. unfold per_cfg in Hk.
  destruct fuel as [|fuel]; cbn [loop_go] in H.
  - inversion H; subst. apply Good_refl.
  - destruct st; [inversion H; subst; apply Good_refl |].
    rewrite Hk in H.
    assert (G1 : Good (fun _ => True) (fun c => map Z.of_nat (seq 1 c)) c [(now, Z.of_nat (S c))] (S c)).
    { intros _. split; [exact I |]. cbn [map snd]. rewrite seq_S, map_app. reflexivity. }
    destruct (ss_sync s); inversion H; subst; exact G1.
Qed.

(* holds for both variants *)
Theorem periodic_values_any : forall fx poll sync acts s outs,
  s_run (s_init fx (SPeriodic poll) sync) acts = (s, outs) ->
  map snd (concat outs) = map Z.of_nat (seq 1 (ss_count s)).
Proof.
  intros fx poll sync acts s outs H.
  eapply (s_run_good (per_cfg poll) (fun _ => True) (fun c => map Z.of_nat (seq 1 c))) in H.
  - destruct H as (_ & E); [exact I |]. exact E.
  - apply per_cfg_stable.
  - apply loop_go_per_good.
  - reflexivity.
Qed.

Theorem periodic_values : forall poll sync acts s outs,
  s_run (s_init true (SPeriodic poll) sync) acts = (s, outs) ->
  map snd (concat outs) = map Z.of_nat (seq 1 (ss_count s)).
Proof. intros; eapply periodic_values_any; eauto. Qed.

(* ---------------------------------------------------------------------------------------------------- *)
(* 5b. from_iterable with a controlled (asynchronous) sink: back-pressure                                *)
(* ---------------------------------------------------------------------------------------------------- *)

Definition all_emit (loops : list linst) : Prop := Forall (fun l => li_mode l = LEmit) loops.

Definition bp_inv (items : list Z) (s : sst) : Prop :=
  ss_kind s = SIterable items /\ ss_sync s = false /\ all_emit (ss_loops s).

Lemma loop_go_bp items s : ss_kind s = SIterable items -> ss_sync s = false ->
  forall fuel now st c cur l dl st' c', loop_go fuel s now st c cur = (l, dl, st', c') ->
  length dl <= 1 /\ all_emit (match l with Some x => [x] | None => [] end).
Proof.
  intros Hk Hs fuel now st c cur l dl st' c' H. destruct fuel as [|fuel]; cbn [loop_go] in H.
  - inversion H; subst. split; [simpl; lia | constructor].
  - destruct st; [inversion H; subst; split; [simpl; lia | constructor] |].
    rewrite Hk, Hs in H.
    destruct (nth_error items (if ss_fixed s then c else cur)).
    + inversion H; subst. split; [simpl; lia |]. constructor; [reflexivity | constructor].
    + inversion H; subst. split; [simpl; lia | constructor].
Qed.

Lemma resume_due_all_emit s now : forall loops st c, all_emit loops ->
  resume_due s now loops st c = (loops, [], st, c).
Proof.
  induction loops as [|l rest IH]; intros st c Ha; cbn [resume_due].
  - reflexivity.
  - inversion Ha as [|? ? Hl Hr]; subst. rewrite Hl, (IH st c Hr). reflexivity.
Qed.

Lemma s_tick_bp items s : bp_inv items s -> exists s', s_tick s = (s', []) /\ bp_inv items s'.
Proof.
  intros (Hk & Hs & Ha). unfold s_tick. rewrite (resume_due_all_emit s _ _ _ _ Ha).
  eexists; split; [reflexivity |]. repeat split; assumption.
Qed.

Lemma s_adv_bp items n : forall s, bp_inv items s -> exists s', s_adv n s = (s', []) /\ bp_inv items s'.
Proof.
  induction n as [|n IH]; intros s H; cbn [s_adv].
  - eauto.
  - destruct (s_tick_bp items s H) as (s1 & E1 & H1). rewrite E1.
    destruct (IH s1 H1) as (s2 & E2 & H2). rewrite E2. eexists; split; [reflexivity | exact H2].
Qed.

Lemma s_step_bp items s a s' d : bp_inv items s -> s_step s a = (s', d) -> length d <= 1 /\ bp_inv items s'.
Proof.
  intros (Hk & Hs & Ha) H. destruct a; cbn [s_step] in H.
  - destruct (ss_stopped s).
    + destruct (ss_fixed s && negb match ss_loops s with [] => true | _ :: _ => false end).
      * inversion H; subst. split; [simpl; lia | repeat split; assumption].
      * destruct (loop_go (fuel_of s) s (ss_now s) false (ss_count s) 0) as [[[l dl] st] c] eqn:E.
        inversion H; subst. destruct (loop_go_bp items s Hk Hs _ _ _ _ _ _ _ _ _ E) as (L & A).
        split; [exact L |]. repeat split; try assumption. cbn [upd ss_loops].
        apply Forall_app; split; assumption.
    + inversion H; subst. split; [simpl; lia | repeat split; assumption].
  - destruct (ss_stopped s); inversion H; subst; (split; [simpl; lia | repeat split; assumption]).
  - destruct (ss_loops s) as [|l rest] eqn:EL; cbn [ack_first] in H.
    + inversion H; subst. split; [simpl; lia |]. repeat split; try assumption; try constructor.
    + inversion Ha as [|? ? Hl Hr]; subst. rewrite Hl, Hk in H.
      destruct (loop_go (fuel_of s) s (ss_now s) (ss_stopped s) (ss_count s) (li_cursor l))
        as [[[l1 dl1] st1] c1] eqn:E.
      inversion H; subst. destruct (loop_go_bp items s Hk Hs _ _ _ _ _ _ _ _ _ E) as (L & A).
      split; [exact L |]. repeat split; try assumption. cbn [upd ss_loops].
      apply Forall_app; split; assumption.
  - destruct (s_adv_bp items (Z.to_nat dt) s) as (s2 & E2 & H2); [repeat split; assumption |].
    rewrite E2 in H. inversion H; subst. split; [simpl; lia | exact H2].
Qed.

Lemma s_run_bp items acts : forall s s' outs, bp_inv items s -> s_run s acts = (s', outs) ->
  Forall (fun o => length o <= 1) outs /\ bp_inv items s'.
Proof.
  induction acts as [|a t IH]; intros s s' outs Hb H; cbn [s_run] in H.
  - inversion H; subst. split; [constructor | exact Hb].
  - destruct (s_step s a) as [s1 o] eqn:E1. destruct (s_run s1 t) as [s2 os] eqn:E2.
    inversion H; subst. destruct (s_step_bp _ _ _ _ _ Hb E1) as (L & H1).
    destruct (IH _ _ _ H1 E2) as (F2 & H2). split; [constructor; assumption | exact H2].
Qed.

Lemma bp_inv_init fx items : bp_inv items (s_init fx (SIterable items) false).
Proof. split; [reflexivity |]. split; [reflexivity | constructor]. Qed.

(* every live loop is awaiting its consumer, there is at most one, and no step delivers more than one item *)
Theorem from_iterable_backpressure : forall items acts s outs,
  s_run (s_init true (SIterable items) false) acts = (s, outs) ->
  Forall (fun l => li_mode l = LEmit) (ss_loops s) /\ length (ss_loops s) <= 1 /\
  Forall (fun o => length o <= 1) outs.
Proof.
  intros items acts s outs H.
  destruct (s_run_bp items acts _ _ _ (bp_inv_init true items) H) as (F1 & _ & _ & A).
  split; [exact A |]. split; [eapply one_loop; eauto | exact F1].
Qed.

(* while an item is outstanding at the consumer (a loop is alive), only the consumer's ack makes the source
   take the next item: start / stop / the passage of time deliver nothing *)
Theorem from_iterable_next_only_after_ack : forall items acts s outs,
  s_run (s_init true (SIterable items) false) acts = (s, outs) ->
  ss_loops s <> [] -> forall a, a <> SAck -> snd (s_step s a) = [].
Proof.
  intros items acts s outs H Hne a Ha.
  destruct (s_run_bp items acts _ _ _ (bp_inv_init true items) H) as (_ & Hb).
  assert (Hf : ss_fixed s = true) by (apply s_run_cfg in H; destruct H as (A & _); exact A).
  destruct a; cbn [s_step].
  - destruct (ss_stopped s); [| reflexivity]. rewrite Hf.
    destruct (ss_loops s); [congruence | reflexivity].
  - destruct (ss_stopped s); reflexivity.
  - congruence.
  - destruct (s_adv_bp items (Z.to_nat dt) s Hb) as (s2 & E2 & _). rewrite E2. reflexivity.
Qed.

(* ---------------------------------------------------------------------------------------------------- *)
(* 6. from_iterable: completeness                                                                        *)
(* ---------------------------------------------------------------------------------------------------- *)

(* once the cursor has reached the end, every item has been delivered (exactly once, in order) *)
Theorem from_iterable_complete : forall items sync acts s outs,
  s_run (s_init true (SIterable items) sync) acts = (s, outs) ->
  ss_count s = length items -> map snd (concat outs) = items.
Proof.
  intros items sync acts s outs H Hc.
  destruct (from_iterable_exact _ _ _ _ _ H) as (E & _). rewrite E, Hc. apply firstn_all.
Qed.

(* a synchronous sink: one burst of the loop emits all the remaining items and the source stops itself *)
Lemma loop_go_iter_sync items s : iter_cfg items s -> ss_sync s = true ->
  forall fuel now c cur, c <= length items -> length items - c < fuel ->
  loop_go fuel s now false c cur = (None, map (fun x => (now, x)) (skipn c items), true, length items).
Proof.
  intros (Hf & Hk) Hs. induction fuel as [|fuel IH]; intros now c cur Hc Hlt; [lia |].
  cbn [loop_go]. rewrite Hk, Hf, Hs.
  destruct (nth_error items c) as [x|] eqn:En.
  - destruct (nth_error_firstn_S _ _ _ En) as (_ & EL).
    rewrite (IH now (S c) (S cur)) by lia.
    rewrite (nth_error_skipn_S _ _ _ En). reflexivity.
  - apply nth_error_None in En. assert (c = length items) by lia. subst c.
    rewrite skipn_all. reflexivity.
Qed.

Lemma map_snd_stamp (now : Z) (l : list Z) : map snd (map (fun x => (now, x)) l) = l.
Proof. induction l as [|x r IH]; cbn [map snd]; [reflexivity | rewrite IH; reflexivity]. Qed.

Lemma start_iter_sync items s : iter_cfg items s -> ss_sync s = true ->
  ss_stopped s = true -> ss_loops s = [] -> ss_count s <= length items ->
  s_step s SStart =
    (upd s (ss_now s) true [] (length items), map (fun x => (ss_now s, x)) (skipn (ss_count s) items)).
Proof.
  intros Hc Hs Hst Hl Hle. pose proof Hc as (Hf & Hk). cbn [s_step]. rewrite Hst, Hf, Hl. cbn [andb negb].
  rewrite (loop_go_iter_sync items s Hc Hs).
  - reflexivity.
  - exact Hle.
  - unfold fuel_of. rewrite Hk. lia.
Qed.

Theorem from_iterable_sync_single_start : forall items s outs,
  s_run (s_init true (SIterable items) true) [SStart] = (s, outs) ->
  map snd (concat outs) = items /\ ss_count s = length items /\ ss_stopped s = true /\ ss_loops s = [].
Proof.
  intros items s outs H. cbn [s_run] in H.
  rewrite (start_iter_sync items) in H; try reflexivity; [| split; reflexivity | cbn; lia].
  inversion H; subst. cbn [concat s_init ss_count ss_now skipn]. rewrite app_nil_r, map_snd_stamp.
  repeat split.
Qed.

(* stronger: on a synchronous sink ANY history that contains a start delivers all items exactly once *)
Definition idle (s : sst) : Prop := ss_stopped s = true /\ ss_loops s = [] /\ ss_count s = 0.

Lemma idle_step items s a s' d : iter_cfg items s -> idle s -> a <> SStart -> s_step s a = (s', d) -> idle s'.
Proof.
  intros Hc (Hst & Hl & Hn) Ha H. destruct a; cbn [s_step] in H.
  - congruence.
  - rewrite Hst in H. inversion H; subst. repeat split; assumption.
  - rewrite Hl in H. cbn [ack_first] in H. inversion H; subst. repeat split; assumption.
  - revert s s' d Hc Hst Hl Hn H. induction (Z.to_nat dt) as [|n IH]; intros s s' d Hc Hst Hl Hn H; cbn [s_adv] in H.
    + inversion H; subst. repeat split; assumption.
    + unfold s_tick in H. rewrite Hl in H. cbn [resume_due] in H.
      destruct (s_adv n (upd s (ss_now s + 1) (ss_stopped s) [] (ss_count s))) as [s2 d2] eqn:E2.
      inversion H; subst. eapply IH; [| | | | exact E2].
      * eapply iter_cfg_stable; [apply same_cfg_upd | exact Hc].
      * exact Hst.
      * reflexivity.
      * exact Hn.
Qed.

Lemma idle_run_count items acts : forall s s' outs,
  iter_cfg items s -> ss_sync s = true -> idle s -> In SStart acts -> s_run s acts = (s', outs) ->
  ss_count s' = length items.
Proof.
  induction acts as [|a t IH]; intros s s' outs Hc Hs Hi Hin H; [destruct Hin |].
  cbn [s_run] in H.
  destruct (s_step s a) as [s1 o] eqn:E1. destruct (s_run s1 t) as [s2 os] eqn:E2.
  inversion H; subst.
  assert (Hc1 : iter_cfg items s1) by (eapply iter_cfg_stable; [eapply s_step_cfg; eauto | exact Hc]).
  assert (Hs1 : ss_sync s1 = true).
  { destruct (s_step_cfg _ _ _ _ E1) as (_ & _ & A). congruence. }
  destruct a.
  - destruct Hi as (Hst & Hl & Hn).
    rewrite (start_iter_sync items s Hc Hs Hst Hl) in E1 by lia. inversion E1; subst.
    pose proof (iter_count_mono items t _ _ _ Hc1 (le_n _) E2) as M. cbn [upd ss_count] in M. lia.
  - destruct Hin as [Hin | Hin]; [discriminate |].
    eapply IH; [exact Hc1 | exact Hs1 | | exact Hin | exact E2].
    eapply idle_step; [exact Hc | exact Hi | | exact E1]. discriminate.
  - destruct Hin as [Hin | Hin]; [discriminate |].
    eapply IH; [exact Hc1 | exact Hs1 | | exact Hin | exact E2].
    eapply idle_step; [exact Hc | exact Hi | | exact E1]. discriminate.
  - destruct Hin as [Hin | Hin]; [discriminate |].
    eapply IH; [exact Hc1 | exact Hs1 | | exact Hin | exact E2].
    eapply idle_step; [exact Hc | exact Hi | | exact E1]. discriminate.
Qed.

Theorem from_iterable_complete_sync : forall items acts s outs,
  In SStart acts -> s_run (s_init true (SIterable items) true) acts = (s, outs) ->
  map snd (concat outs) = items.
Proof.
  intros items acts s outs Hin H. eapply from_iterable_complete; [exact H |].
  eapply idle_run_count; [| | | exact Hin | exact H]; repeat split.
Qed.

(* ---------------------------------------------------------------------------------------------------- *)
(* 8. from_periodic (repaired): consecutive polls are at least `poll` apart, also across stop()/start()  *)
(* ---------------------------------------------------------------------------------------------------- *)

(* consecutive elements differ by at least poll *)
Fixpoint spaced (poll : Z) (ts : list Z) : Prop :=
  match ts with
  | [] => True
  | a :: t => match t with [] => True | b :: _ => (a + poll <= b)%Z end /\ spaced poll t
  end.

(* the same, with a lower bound `lb` for the first element (the earliest time the next poll may happen) *)
Fixpoint spaced_from (poll lb : Z) (ts : list Z) : Prop :=
  match ts with
  | [] => True
  | t :: r => (lb <= t)%Z /\ spaced_from poll (t + poll)%Z r
  end.

Fixpoint nlb (poll lb : Z) (ts : list Z) : Z :=
  match ts with
  | [] => lb
  | t :: r => nlb poll (t + poll)%Z r
  end.

Lemma spaced_from_spaced poll : forall ts lb, spaced_from poll lb ts -> spaced poll ts.
Proof.
  induction ts as [|a t IH]; intros lb H; cbn [spaced]; [exact I |].
  cbn [spaced_from] in H. destruct H as (_ & B). split; [| eapply IH; exact B].
  destruct t as [|b r]; [exact I |]. cbn [spaced_from] in B. destruct B as (B1 & _). exact B1.
Qed.

Lemma spaced_from_app poll : forall d1 lb d2,
  spaced_from poll lb d1 -> spaced_from poll (nlb poll lb d1) d2 -> spaced_from poll lb (d1 ++ d2).
Proof.
  induction d1 as [|a t IH]; intros lb d2 H1 H2; cbn [app]; [exact H2 |].
  cbn [spaced_from nlb] in *. destruct H1 as (A & B). split; [exact A | apply IH; assumption].
Qed.

Lemma nlb_app poll : forall d1 lb d2, nlb poll lb (d1 ++ d2) = nlb poll (nlb poll lb d1) d2.
Proof. induction d1 as [|a t IH]; intros lb d2; cbn [app nlb]; [reflexivity | apply IH]. Qed.

Lemma spaced_nth poll : forall ts, spaced poll ts ->
  forall i a b, nth_error ts i = Some a -> nth_error ts (S i) = Some b -> (a + poll <= b)%Z.
Proof.
  induction ts as [|x t IH]; intros H i a b Ha Hb; [destruct i; discriminate |].
  cbn [spaced] in H. destruct H as (H1 & H2). destruct i as [|i].
  - cbn in Ha, Hb. inversion Ha; subst. destruct t as [|y r]; [discriminate |].
    cbn in Hb. inversion Hb; subst. exact H1.
  - cbn [nth_error] in Ha. change (nth_error (x :: t) (S (S i))) with (nth_error t (S i)) in Hb.
    eapply IH; eauto.
Qed.

Definition mode_ok (poll lb now : Z) (m : lmode) : Prop :=
  match m with LSleep u => (lb <= u)%Z | LEmit => (lb <= now + poll)%Z end.

(* lb = (time of the last poll) + poll.  A sleeping loop wakes no earlier than lb; a loop awaiting its consumer
   will sleep `poll` from the ack; and when no loop is alive the old loop has already slept through lb. *)
Definition pinv (poll lb : Z) (s : sst) : Prop :=
  ss_fixed s = true /\ ss_kind s = SPeriodic poll /\
  match ss_loops s with
  | [] => (lb <= ss_now s)%Z
  | [l] => mode_ok poll lb (ss_now s) (li_mode l)
  | _ => False
  end.

Lemma s_tick_pinv poll lb s s' d : pinv poll lb s -> s_tick s = (s', d) ->
  spaced_from poll lb (map fst d) /\ pinv poll (nlb poll lb (map fst d)) s'.
Proof.
  intros (Hf & Hk & Hl). unfold s_tick. unfold pinv.
  destruct (ss_loops s) as [|l [|l2 r]] eqn:EL; [| | contradiction]; cbn [resume_due].
  - intros H; inversion H; subst. cbn [map spaced_from nlb upd ss_fixed ss_kind ss_loops ss_now].
    repeat split; try assumption. lia.
  - destruct (li_mode l) as [u|] eqn:EM; cbn [mode_ok] in Hl.
    + destruct (Z.leb_spec u (ss_now s + 1)) as [Hle|Hgt].
      * unfold fuel_of. rewrite Hk. cbn [loop_go]. destruct (ss_stopped s).
        -- intros H; inversion H; subst.
           cbn [app map spaced_from nlb upd ss_fixed ss_kind ss_loops ss_now].
           repeat split; try assumption. lia.
        -- rewrite Hk. destruct (ss_sync s); intros H; inversion H; subst;
             cbn [app map fst spaced_from nlb upd ss_fixed ss_kind ss_loops ss_now li_mode mode_ok];
             repeat split; try assumption; lia.
      * intros H; inversion H; subst.
        cbn [map spaced_from nlb upd ss_fixed ss_kind ss_loops ss_now]. rewrite EM. cbn [mode_ok].
        repeat split; assumption.
    + intros H; inversion H; subst.
      cbn [map spaced_from nlb upd ss_fixed ss_kind ss_loops ss_now]. rewrite EM. cbn [mode_ok].
      repeat split; try assumption. lia.
Qed.

Lemma s_adv_pinv poll n : forall lb s s' d, pinv poll lb s -> s_adv n s = (s', d) ->
  spaced_from poll lb (map fst d) /\ pinv poll (nlb poll lb (map fst d)) s'.
Proof.
  induction n as [|n IH]; intros lb s s' d Hp H; cbn [s_adv] in H.
  - inversion H; subst. cbn [map spaced_from nlb]. split; [exact I | exact Hp].
  - destruct (s_tick s) as [s1 d1] eqn:E1. destruct (s_adv n s1) as [s2 d2] eqn:E2.
    inversion H; subst. destruct (s_tick_pinv _ _ _ _ _ Hp E1) as (A1 & P1).
    destruct (IH _ _ _ _ P1 E2) as (A2 & P2). rewrite map_app, nlb_app.
    split; [apply spaced_from_app; assumption | exact P2].
Qed.

Lemma s_step_pinv poll lb s a s' d : pinv poll lb s -> s_step s a = (s', d) ->
  spaced_from poll lb (map fst d) /\ pinv poll (nlb poll lb (map fst d)) s'.
Proof.
  intros Hp H. pose proof Hp as (Hf & Hk & Hl). destruct a; cbn [s_step] in H.
  - destruct (ss_stopped s).
    + rewrite Hf in H. unfold pinv.
      destruct (ss_loops s) as [|l [|l2 r]] eqn:EL; [| | contradiction]; cbn [andb negb] in H.
      * unfold fuel_of in H. rewrite Hk in H. cbn [loop_go] in H. rewrite Hk in H.
        destruct (ss_sync s); inversion H; subst;
          cbn [app map fst spaced_from nlb upd ss_fixed ss_kind ss_loops ss_now li_mode mode_ok];
          repeat split; try assumption; lia.
      * inversion H; subst. cbn [map spaced_from nlb upd ss_fixed ss_kind ss_loops ss_now].
        repeat split; assumption.
    + inversion H; subst. cbn [map spaced_from nlb]. split; [exact I | exact Hp].
  - destruct (ss_stopped s); inversion H; subst; cbn [map spaced_from nlb]; (split; [exact I |]);
      [exact Hp |].
    unfold pinv. cbn [upd ss_fixed ss_kind ss_loops ss_now]. repeat split; assumption.
  - unfold pinv. destruct (ss_loops s) as [|l [|l2 r]] eqn:EL; [| | contradiction]; cbn [ack_first] in H.
    + inversion H; subst. cbn [map spaced_from nlb upd ss_fixed ss_kind ss_loops ss_now].
      repeat split; assumption.
    + destruct (li_mode l) as [u|] eqn:EM; cbn [mode_ok] in Hl.
      * inversion H; subst. cbn [map spaced_from nlb upd ss_fixed ss_kind ss_loops ss_now]. rewrite EM.
        repeat split; assumption.
      * rewrite Hk in H. inversion H; subst.
        cbn [map spaced_from nlb upd ss_fixed ss_kind ss_loops ss_now li_mode mode_ok].
        repeat split; assumption.
  - eapply s_adv_pinv; eauto.
Qed.

Lemma s_run_pinv poll acts : forall lb s s' outs, pinv poll lb s -> s_run s acts = (s', outs) ->
  spaced_from poll lb (map fst (concat outs)) /\ pinv poll (nlb poll lb (map fst (concat outs))) s'.
Proof.
  induction acts as [|a t IH]; intros lb s s' outs Hp H; cbn [s_run] in H.
  - inversion H; subst. cbn [concat map spaced_from nlb]. split; [exact I | exact Hp].
  - destruct (s_step s a) as [s1 o] eqn:E1. destruct (s_run s1 t) as [s2 os] eqn:E2.
    inversion H; subst. destruct (s_step_pinv _ _ _ _ _ _ Hp E1) as (A1 & P1).
    destruct (IH _ _ _ _ P1 E2) as (A2 & P2). cbn [concat]. rewrite map_app, nlb_app.
    split; [apply spaced_from_app; assumption | exact P2].
Qed.

(* true for every poll interval (for poll <= 0 it only says that time does not run backwards) *)
Theorem periodic_spacing_gen : forall poll sync acts s outs,
  s_run (s_init true (SPeriodic poll) sync) acts = (s, outs) -> spaced poll (map fst (concat outs)).
Proof.
  intros poll sync acts s outs H.
  assert (Hp : pinv poll 0 (s_init true (SPeriodic poll) sync)).
  { split; [reflexivity |]. split; [reflexivity |]. cbn [s_init ss_loops ss_now]. lia. }
  destruct (s_run_pinv poll acts _ _ _ _ Hp H) as (A & _). eapply spaced_from_spaced; exact A.
Qed.

Theorem periodic_spacing : forall poll sync acts s outs, (0 < poll)%Z ->
  s_run (s_init true (SPeriodic poll) sync) acts = (s, outs) ->
  spaced poll (map fst (concat outs)) /\
  (forall i t1 t2, nth_error (map fst (concat outs)) i = Some t1 ->
                   nth_error (map fst (concat outs)) (S i) = Some t2 -> (t1 + poll <= t2)%Z).
Proof.
  intros poll sync acts s outs _ H. pose proof (periodic_spacing_gen _ _ _ _ _ H) as Hs.
  split; [exact Hs | apply spaced_nth; exact Hs].
Qed.

(* the code as found violates it: start, stop, start polls twice at the same instant *)
Theorem periodic_spacing_asfound_refuted : exists poll sync acts s outs, (0 < poll)%Z /\
  s_run (s_init false (SPeriodic poll) sync) acts = (s, outs) /\ ~ spaced poll (map fst (concat outs)).
Proof.
  exists 5%Z, true, [SStart; SStop; SStart]. eexists; eexists.
  split; [lia |]. split; [vm_compute; reflexivity |].
  cbn. intros (A & _). lia.
Qed.

(* ---------------------------------------------------------------------------------------------------- *)
(* 6b. from_iterable with a controlled sink: one start and enough acks deliver everything                *)
(* ---------------------------------------------------------------------------------------------------- *)

Definition prog (items : list Z) (s : sst) : Prop :=
  (ss_stopped s = false /\ exists l, ss_loops s = [l] /\ li_mode l = LEmit) \/
  (ss_loops s = [] /\ ss_count s = length items).

Lemma go_ctrl items s now c cur : iter_cfg items s -> ss_sync s = false ->
  exists l st', loop_go (fuel_of s) s now false c cur
                = (l, match nth_error items c with Some x => [(now, x)] | None => [] end, st',
                   match nth_error items c with Some _ => S c | None => c end) /\
  match nth_error items c with
  | Some _ => st' = false /\ exists l', l = Some l' /\ li_mode l' = LEmit
  | None => st' = true /\ l = None
  end.
Proof.
  intros (Hf & Hk) Hs. destruct (fuel_of_S s) as (f & Ef). rewrite Ef. cbn [loop_go]. rewrite Hk, Hf, Hs.
  destruct (nth_error items c).
  - eexists; eexists; split; [reflexivity |]. split; [reflexivity |]. eexists; split; reflexivity.
  - eexists; eexists; split; [reflexivity |]. split; reflexivity.
Qed.

Lemma ack_prog items s s' d : iter_cfg items s -> ss_sync s = false -> ss_count s <= length items ->
  prog items s -> s_step s SAck = (s', d) ->
  prog items s' /\ (ss_count s' = length items \/ ss_count s' = S (ss_count s)).
Proof.
  intros Hc Hs Hle Hp H. pose proof Hc as (Hf & Hk). cbn [s_step] in H.
  destruct Hp as [(Hst & l & Hl & Hm) | (Hl & Hn)].
  - rewrite Hl, Hst in H. cbn [ack_first] in H. rewrite Hm, Hk in H.
    destruct (go_ctrl items s (ss_now s) (ss_count s) (li_cursor l) Hc Hs) as (l1 & st1 & E & Hcase).
    rewrite E, Hf in H. inversion H; subst. cbn [upd ss_count ss_loops ss_stopped].
    destruct (nth_error items (ss_count s)) eqn:En.
    + destruct Hcase as (A & l' & B & M). subst. split; [| right; reflexivity].
      left. split; [reflexivity |]. exists l'. split; [reflexivity | exact M].
    + destruct Hcase as (A & B). subst. apply nth_error_None in En.
      assert (ss_count s = length items) by lia.
      split; [right; split; [reflexivity | assumption] | left; assumption].
  - rewrite Hl in H. cbn [ack_first] in H. inversion H; subst. cbn [upd ss_count ss_loops].
    split; [right; split; [reflexivity | exact Hn] | left; exact Hn].
Qed.

Lemma acks_prog items n : forall s s' outs, iter_cfg items s -> ss_sync s = false ->
  ss_count s <= length items -> prog items s -> s_run s (repeat SAck n) = (s', outs) ->
  ss_count s' = length items \/ ss_count s + n <= ss_count s'.
Proof.
  induction n as [|n IH]; intros s s' outs Hc Hs Hle Hp H; cbn [repeat s_run] in H.
  - inversion H; subst. right; lia.
  - destruct (s_step s SAck) as [s1 o] eqn:E1. destruct (s_run s1 (repeat SAck n)) as [s2 os] eqn:E2.
    inversion H; subst.
    assert (Hc1 : iter_cfg items s1) by (eapply iter_cfg_stable; [eapply s_step_cfg; eauto | exact Hc]).
    assert (Hs1 : ss_sync s1 = false).
    { destruct (s_step_cfg _ _ _ _ E1) as (_ & _ & A). congruence. }
    destruct (ack_prog _ _ _ _ Hc Hs Hle Hp E1) as (Hp1 & Hcnt).
    assert (Hle1 : ss_count s1 <= length items) by (destruct Hcnt; lia || (
      pose proof (iter_count_mono items [SAck] s s1 [o] Hc Hle) as M; cbn [s_run] in M; rewrite E1 in M;
      specialize (M eq_refl); lia)).
    pose proof (iter_count_mono items _ _ _ _ Hc1 Hle1 E2) as M2.
    destruct (IH _ _ _ Hc1 Hs1 Hle1 Hp1 E2) as [A | A]; [left; exact A |].
    destruct Hcnt as [B | B]; [left; lia | right; lia].
Qed.

Lemma start_prog items s s1 o : iter_cfg items s -> ss_sync s = false ->
  ss_stopped s = true -> ss_loops s = [] -> ss_count s <= length items ->
  s_step s SStart = (s1, o) -> prog items s1 /\ ss_count s1 <= length items.
Proof.
  intros Hc Hs Hst Hl Hle E1. pose proof Hc as (Hf & Hk).
  cbn [s_step] in E1. rewrite Hst, Hf, Hl in E1. cbn [andb negb] in E1.
  destruct (go_ctrl items s (ss_now s) (ss_count s) 0 Hc Hs) as (l1 & st1 & E & Hcase).
  destruct (nth_error items (ss_count s)) eqn:En.
  - destruct Hcase as (A & l' & B & M). subst. rewrite E in E1. inversion E1; subst.
    cbn [upd ss_count ss_loops ss_stopped app].
    destruct (nth_error_firstn_S _ _ _ En) as (_ & L). split; [| exact L].
    left. split; [reflexivity |]. exists l'. split; [reflexivity | exact M].
  - destruct Hcase as (A & B). subst. rewrite E in E1. inversion E1; subst.
    unfold prog. cbn [upd ss_count ss_loops ss_stopped app]. apply nth_error_None in En.
    split; [right; split; [reflexivity | lia] | lia].
Qed.

Theorem from_iterable_complete_controlled : forall items n s outs, length items <= n ->
  s_run (s_init true (SIterable items) false) (SStart :: repeat SAck n) = (s, outs) ->
  map snd (concat outs) = items.
Proof.
  intros items n s outs Hn H. eapply from_iterable_complete; [exact H |].
  destruct (from_iterable_exact _ _ _ _ _ H) as (_ & Hub).
  cbn [s_run] in H. destruct (s_step (s_init true (SIterable items) false) SStart) as [s1 o] eqn:E1.
  destruct (s_run s1 (repeat SAck n)) as [s2 os] eqn:E2. inversion H; subst.
  assert (Hc0 : iter_cfg items (s_init true (SIterable items) false)) by (split; reflexivity).
  assert (Hc1 : iter_cfg items s1) by (eapply iter_cfg_stable; [eapply s_step_cfg; eauto | exact Hc0]).
  assert (Hs1 : ss_sync s1 = false).
  { destruct (s_step_cfg _ _ _ _ E1) as (_ & _ & A). rewrite A. reflexivity. }
  destruct (start_prog items _ _ _ Hc0 eq_refl eq_refl eq_refl (Nat.le_0_l _) E1) as (Hp1 & Hle1).
  destruct (acks_prog items n _ _ _ Hc1 Hs1 Hle1 Hp1 E2) as [A | A]; lia.
Qed.

(* ---------------------------------------------------------------------------------------------------- *)
(* Non-vacuity: concrete histories                                                                       *)
(* ---------------------------------------------------------------------------------------------------- *)

Example c18_nonvacuous :
  (* periodic (poll 3, synchronous sink): stop immediately followed by start while the loop sleeps; later a stop
     that the loop notices at its wake-up (it exits), and a fresh start: the polls happen at 0, 3, 6, 11 *)
  s_run (s_init true (SPeriodic 3) true)
        [SStart; SAdv 1; SStop; SStart; SAdv 2; SAdv 3; SStop; SAdv 5; SStart]
  = ({| ss_fixed := true; ss_kind := SPeriodic 3; ss_sync := true; ss_now := 11%Z; ss_stopped := false;
        ss_loops := [{| li_mode := LSleep 14; li_cursor := 0 |}]; ss_count := 4 |},
     [[(0, 1)]; []; []; []; [(3, 2)]; [(6, 3)]; []; []; [(11, 4)]])%Z
  (* the same history on the code as found: the restart spawns a second loop, polls at 0, 1, 3, 4, 6, 11 *)
  /\ map fst (concat (snd (s_run (s_init false (SPeriodic 3) true)
        [SStart; SAdv 1; SStop; SStart; SAdv 2; SAdv 3; SStop; SAdv 5; SStart]))) = [0; 1; 3; 4; 6; 11]%Z
  (* periodic with a controlled sink: the sleep starts at the ack *)
  /\ concat (snd (s_run (s_init true (SPeriodic 3) false)
        [SStart; SAdv 1; SStop; SStart; SAck; SAdv 2; SAdv 3; SAck; SStop; SAdv 5; SStart]))
     = [(0, 1); (4, 2); (11, 3)]%Z
  (* an iterable with a controlled sink, stopped and restarted in the middle: 10, 20, 30 exactly once *)
  /\ s_run (s_init true (SIterable [10; 20; 30]%Z) false)
        [SStart; SAck; SStop; SAck; SAdv 4; SStart; SAck; SAck; SStart]
  = ({| ss_fixed := true; ss_kind := SIterable [10; 20; 30]%Z; ss_sync := false; ss_now := 4%Z;
        ss_stopped := true; ss_loops := []; ss_count := 3 |},
     [[(0, 10)]; [(0, 20)]; []; []; []; [(4, 30)]; []; []; []])%Z
  (* the same on the code as found: the restart re-iterates from the beginning *)
  /\ map snd (concat (snd (s_run (s_init false (SIterable [10; 20; 30]%Z) false)
        [SStart; SAck; SStop; SAck; SAdv 4; SStart; SAck; SAck; SStart]))) = [10; 20; 10; 20; 30]%Z.
Proof. vm_compute. repeat split. Qed.

Print Assumptions one_loop.
Print Assumptions one_loop_refuted.
Print Assumptions no_new_cycle_after_stop.
Print Assumptions no_new_cycle_after_stop_any.
Print Assumptions start_started_noop.
Print Assumptions stop_stopped_noop.
Print Assumptions from_iterable_exact.
Print Assumptions from_iterable_backpressure.
Print Assumptions from_iterable_next_only_after_ack.
Print Assumptions from_iterable_complete.
Print Assumptions from_iterable_sync_single_start.
Print Assumptions from_iterable_complete_sync.
Print Assumptions from_iterable_complete_controlled.
Print Assumptions periodic_values.
Print Assumptions periodic_values_any.
Print Assumptions periodic_spacing_gen.
Print Assumptions periodic_spacing.
Print Assumptions periodic_spacing_asfound_refuted.
Print Assumptions c18_nonvacuous.
