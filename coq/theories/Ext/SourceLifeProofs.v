(* Proofs about the source lifecycle model (Ext/SourceLife.v): Source.start / stop / run, from_periodic,
   from_iterable.  All theorems quantify over ALL histories `acts : list sact` of start / stop / ack / advance /
   back-to-back calls inside one loop callback (SMulti), and over the consumer's reaction `on : option Z`
   (Some v = the consumer calls stop() from inside its callback when it is handed v). *)
From Coq Require Import List ZArith Bool Lia Arith.
From SZ Require Import Ext.SourceLife.
Import ListNotations.

(* ---------------------------------------------------------------------------------------------------- *)
(* 0. Small utilities                                                                                   *)
(* ---------------------------------------------------------------------------------------------------- *)

Definition same_cfg (s s' : sst) : Prop :=
  ss_fixed s' = ss_fixed s /\ ss_kind s' = ss_kind s /\ ss_sync s' = ss_sync s /\ ss_stop_on s' = ss_stop_on s.

Lemma same_cfg_refl s : same_cfg s s.
Proof. repeat split. Qed.

Lemma same_cfg_trans s1 s2 s3 : same_cfg s1 s2 -> same_cfg s2 s3 -> same_cfg s1 s3.
Proof. unfold same_cfg; intros (A & B & C & C') (D & E & F & F'); repeat split; congruence. Qed.

Lemma same_cfg_upd s n st l c : same_cfg s (upd s n st l c).
Proof. repeat split. Qed.

Lemma fuel_of_S s : exists f, fuel_of s = S (S f).
Proof. unfold fuel_of; destruct (ss_kind s); eauto. Qed.

Lemma s_tick_cfg s s' d : s_tick s = (s', d) -> same_cfg s s'.
Proof.
  unfold s_tick.
  destruct (resume_due s (ss_now s + 1) (ss_loops s) (ss_stopped s) (ss_count s)) as [[[lo dl] st] c].
  intros H; inversion H; subst. apply same_cfg_upd.
Qed.

Lemma s_adv_cfg n : forall s s' d, s_adv n s = (s', d) -> same_cfg s s'.
Proof.
  induction n as [|n IH]; intros s s' d H; cbn [s_adv] in H.
  - inversion H; subst. apply same_cfg_refl.
  - destruct (s_tick s) as [s1 d1] eqn:E1. destruct (s_adv n s1) as [s2 d2] eqn:E2.
    inversion H; subst. eapply same_cfg_trans; [eapply s_tick_cfg; eauto | eapply IH; eauto].
Qed.

Lemma s_step_cfg s a s' d : s_step s a = (s', d) -> same_cfg s s'.
Proof.
  destruct a; cbn [s_step]; intros H.
  - destruct (ss_stopped s).
    + destruct (ss_fixed s && negb match ss_loops s with [] => true | _ :: _ => false end).
      * inversion H; subst. apply same_cfg_upd.
      * destruct (loop_go (fuel_of s) s (ss_now s) false (ss_count s) 0) as [[[l dl] st] c].
        inversion H; subst. apply same_cfg_upd.
    + inversion H; subst. apply same_cfg_refl.
  - destruct (ss_stopped s); inversion H; subst; [apply same_cfg_refl | apply same_cfg_upd].
  - destruct (ack_first s (ss_loops s) (ss_stopped s) (ss_count s)) as [[[lo dl] st] c].
    inversion H; subst. apply same_cfg_upd.
  - eapply s_adv_cfg; eauto.
  - unfold s_multi in H.
    destruct (multi_flags (ss_fixed s) calls (ss_stopped s) (negb (no_loops s)) 0) as [st n].
    destruct (spawn_go n s (ss_now s) st (ss_count s)) as [[[ls dl] st'] c].
    inversion H; subst. apply same_cfg_upd.
Qed.

Lemma hit_cfg s s' x : same_cfg s s' -> hit s' x = hit s x.
Proof. intros (_ & _ & _ & A). unfold hit. rewrite A. reflexivity. Qed.

(* ---------------------------------------------------------------------------------------------------- *)
(* 0b. Back-to-back calls: the flags                                                                     *)
(* ---------------------------------------------------------------------------------------------------- *)

Definition flag_of (c : lcall) : bool := match c with CStart => false | CStop => true end.

(* the last call decides the flag *)
Lemma multi_flags_last fx : forall calls st r sp st' n,
  multi_flags fx calls st r sp = (st', n) ->
  st' = match calls with [] => st | _ :: _ => flag_of (last calls CStop) end.
Proof.
  induction calls as [|c t IH]; intros st r sp st' n H; cbn [multi_flags] in H.
  - inversion H; reflexivity.
  - assert (E : st' = match t with [] => flag_of c | _ :: _ => flag_of (last t CStop) end).
    { destruct c.
      - destruct st.
        + destruct (fx && r); apply IH in H; rewrite H; destruct t; reflexivity.
        + apply IH in H; rewrite H; destruct t; reflexivity.
      - apply IH in H; rewrite H; destruct t; reflexivity. }
    rewrite E. destruct t; reflexivity.
Qed.

Lemma multi_flags_mono fx : forall calls st r sp st' n,
  multi_flags fx calls st r sp = (st', n) -> sp <= n.
Proof.
  induction calls as [|c t IH]; intros st r sp st' n H; cbn [multi_flags] in H.
  - inversion H; lia.
  - destruct c.
    + destruct st; [destruct (fx && r) |]; apply IH in H; lia.
    + apply IH in H; lia.
Qed.

(* the repaired code schedules at most one run(), and none while a polling loop is alive *)
Lemma multi_flags_fixed : forall calls st r sp st' n,
  multi_flags true calls st r sp = (st', n) -> (r = true -> n = sp) /\ n <= S sp.
Proof.
  induction calls as [|c t IH]; intros st r sp st' n H; cbn [multi_flags] in H.
  - inversion H; subst. split; [reflexivity | lia].
  - destruct c.
    + destruct st.
      * destruct r; cbn [andb] in H.
        -- apply IH in H. exact H.
        -- apply IH in H. destruct H as (A & _). split; [discriminate |]. rewrite A by reflexivity. lia.
      * apply IH in H. exact H.
    + apply IH in H. exact H.
Qed.

(* on a stopped source without a live loop: no run() scheduled means that no start() was called *)
Lemma multi_flags_nospawn fx : forall calls sp st' n,
  multi_flags fx calls true false sp = (st', n) -> n = sp -> st' = true.
Proof.
  induction calls as [|c t IH]; intros sp st' n H E; cbn [multi_flags] in H.
  - inversion H; reflexivity.
  - destruct c.
    + rewrite andb_false_r in H. apply multi_flags_mono in H. lia.
    + eapply IH; eauto.
Qed.

Lemma quiet_spec a : quiet a = true <->
  a <> SStart /\ (forall calls, a = SMulti calls -> last calls CStop = CStop).
Proof.
  split.
  - intros H. split; [intros ->; discriminate |]. intros calls ->. cbn [quiet] in H.
    destruct (last calls CStop); [discriminate | reflexivity].
  - intros (A & B). destruct a; try reflexivity; [congruence |].
    cbn [quiet]. rewrite (B calls eq_refl). reflexivity.
Qed.

Lemma s_run_cfg acts : forall s s' outs, s_run s acts = (s', outs) -> same_cfg s s'.
Proof.
  induction acts as [|a t IH]; intros s s' outs H; cbn [s_run] in H.
  - inversion H; subst. apply same_cfg_refl.
  - destruct (s_step s a) as [s1 o] eqn:E1. destruct (s_run s1 t) as [s2 os] eqn:E2.
    inversion H; subst. eapply same_cfg_trans; [eapply s_step_cfg; eauto | eapply IH; eauto].
Qed.

(* ---------------------------------------------------------------------------------------------------- *)
(* 4. start on a started source / stop on a stopped source are no-ops (any state)                       *)
(* ---------------------------------------------------------------------------------------------------- *)

Theorem start_started_noop : forall s, ss_stopped s = false -> s_step s SStart = (s, []).
Proof. intros s H; cbn [s_step]; rewrite H; reflexivity. Qed.

Theorem stop_stopped_noop : forall s, ss_stopped s = true -> s_step s SStop = (s, []).
Proof. intros s H; cbn [s_step]; rewrite H; reflexivity. Qed.

(* ---------------------------------------------------------------------------------------------------- *)
(* 1. At most one polling loop (repaired variant)                                                       *)
(* ---------------------------------------------------------------------------------------------------- *)

Lemma opt_len (l : option linst) : length (match l with Some x => [x] | None => [] end) <= 1.
Proof. destruct l; simpl; lia. Qed.

(* resume_due never lengthens the loop list *)
Lemma resume_due_len s now : forall loops st c loops' dl st' c',
  resume_due s now loops st c = (loops', dl, st', c') -> length loops' <= length loops.
Proof.
  induction loops as [|l rest IH]; intros st c loops' dl st' c' H; cbn [resume_due] in H.
  - inversion H; subst; simpl; lia.
  - destruct (li_mode l) as [u|].
    + destruct (u <=? now)%Z.
      * destruct (loop_go (fuel_of s) s now st c (li_cursor l)) as [[[l1 dl1] st1] c1].
        destruct (resume_due s now rest st1 c1) as [[[r2 dl2] st2] c2] eqn:E2.
        inversion H; subst. apply IH in E2. rewrite app_length.
        pose proof (opt_len l1). simpl; lia.
      * destruct (resume_due s now rest st c) as [[[r2 dl2] st2] c2] eqn:E2.
        inversion H; subst. apply IH in E2. simpl; lia.
    + destruct (resume_due s now rest st c) as [[[r2 dl2] st2] c2] eqn:E2.
      inversion H; subst. apply IH in E2. simpl; lia.
Qed.

(* ack_first never lengthens the loop list *)
Lemma ack_first_len s : forall loops st c loops' dl st' c',
  ack_first s loops st c = (loops', dl, st', c') -> length loops' <= length loops.
Proof.
  induction loops as [|l rest IH]; intros st c loops' dl st' c' H; cbn [ack_first] in H.
  - inversion H; subst; simpl; lia.
  - destruct (li_mode l) as [u|].
    + destruct (ack_first s rest st c) as [[[r2 dl2] st2] c2] eqn:E2.
      inversion H; subst. apply IH in E2. simpl; lia.
    + destruct (ss_kind s).
      * inversion H; subst; simpl; lia.
      * destruct (loop_go (fuel_of s) s (ss_now s) st c (li_cursor l)) as [[[l1 dl1] st1] c1].
        inversion H; subst. rewrite app_length. pose proof (opt_len l1). simpl; lia.
Qed.

Lemma s_tick_len s s' d : s_tick s = (s', d) -> length (ss_loops s') <= length (ss_loops s).
Proof.
  unfold s_tick.
  destruct (resume_due s (ss_now s + 1) (ss_loops s) (ss_stopped s) (ss_count s)) as [[[lo dl] st] c] eqn:E.
  intros H; inversion H; subst. cbn [upd ss_loops]. eapply resume_due_len; eauto.
Qed.

Lemma s_adv_len n : forall s s' d, s_adv n s = (s', d) -> length (ss_loops s') <= length (ss_loops s).
Proof.
  induction n as [|n IH]; intros s s' d H; cbn [s_adv] in H.
  - inversion H; subst; lia.
  - destruct (s_tick s) as [s1 d1] eqn:E1. destruct (s_adv n s1) as [s2 d2] eqn:E2.
    inversion H; subst. apply s_tick_len in E1. apply IH in E2. lia.
Qed.

Lemma spawn_go_len s now : forall n st c ls dl st' c',
  spawn_go n s now st c = (ls, dl, st', c') -> length ls <= n.
Proof.
  induction n as [|n IH]; intros st c ls dl st' c' H; cbn [spawn_go] in H.
  - inversion H; subst; simpl; lia.
  - destruct (loop_go (fuel_of s) s now st c 0) as [[[l1 dl1] st1] c1].
    destruct (spawn_go n s now _ c1) as [[[ls2 dl2] st2] c2] eqn:E2.
    inversion H; subst. apply IH in E2. rewrite app_length. pose proof (opt_len l1). lia.
Qed.

(* in the repaired variant start() spawns a loop only when none is alive *)
Lemma s_step_len s a s' d :
  ss_fixed s = true -> s_step s a = (s', d) -> length (ss_loops s) <= 1 -> length (ss_loops s') <= 1.
Proof.
  intros Hf H Hl. destruct a; cbn [s_step] in H.
  - destruct (ss_stopped s).
    + rewrite Hf in H. destruct (ss_loops s) as [|l0 r0] eqn:EL; cbn [andb negb] in H.
      * destruct (loop_go (fuel_of s) s (ss_now s) false (ss_count s) 0) as [[[l dl] st] c].
        inversion H; subst. cbn [upd ss_loops app]. apply opt_len.
      * inversion H; subst. cbn [upd ss_loops]. exact Hl.
    + inversion H; subst; exact Hl.
  - destruct (ss_stopped s); inversion H; subst; exact Hl.
  - destruct (ack_first s (ss_loops s) (ss_stopped s) (ss_count s)) as [[[lo dl] st] c] eqn:E.
    inversion H; subst. cbn [upd ss_loops]. apply ack_first_len in E. lia.
  - apply s_adv_len in H. lia.
  - unfold s_multi in H. rewrite Hf in H.
    destruct (multi_flags true calls (ss_stopped s) (negb (no_loops s)) 0) as [st n] eqn:EF.
    destruct (spawn_go n s (ss_now s) st (ss_count s)) as [[[ls dl] st'] c] eqn:ES.
    inversion H; subst. cbn [upd ss_loops]. rewrite app_length.
    apply multi_flags_fixed in EF. destruct EF as (A & B). apply spawn_go_len in ES.
    unfold no_loops in A. destruct (ss_loops s) as [|l0 r0]; cbn [negb length] in *; [lia |].
    rewrite A in ES by reflexivity. lia.
Qed.

Lemma s_run_len acts : forall s s' outs,
  ss_fixed s = true -> s_run s acts = (s', outs) -> length (ss_loops s) <= 1 -> length (ss_loops s') <= 1.
Proof.
  induction acts as [|a t IH]; intros s s' outs Hf H Hl; cbn [s_run] in H.
  - inversion H; subst; exact Hl.
  - destruct (s_step s a) as [s1 o] eqn:E1. destruct (s_run s1 t) as [s2 os] eqn:E2.
    inversion H; subst. eapply IH; [| exact E2 |].
    + destruct (s_step_cfg _ _ _ _ E1) as (A & _). congruence.
    + eapply s_step_len; eauto.
Qed.

Theorem one_loop : forall k sync on acts s outs,
  s_run (s_init true k sync on) acts = (s, outs) -> length (ss_loops s) <= 1.
Proof. intros k sync on acts s outs H. eapply s_run_len; [| exact H |]; simpl; auto. Qed.

(* 2. the code as found: start, stop, start leaves two polling loops alive *)
Theorem one_loop_refuted : exists k sync on acts s outs,
  s_run (s_init false k sync on) acts = (s, outs) /\ length (ss_loops s) = 2.
Proof.
  exists (SPeriodic 5), true, None, [SStart; SStop; SStart].
  eexists; eexists; split; [vm_compute; reflexivity | reflexivity].
Qed.

(* the same with the three calls back to back inside one loop callback *)
Theorem one_loop_refuted_back_to_back : exists k sync on s outs,
  s_run (s_init false k sync on) [SMulti [CStart; CStop; CStart]] = (s, outs) /\ length (ss_loops s) = 2.
Proof.
  exists (SPeriodic 5), true, None.
  eexists; eexists; split; [vm_compute; reflexivity | reflexivity].
Qed.

(* reachable states of the repaired variant *)
Definition reachable (s : sst) : Prop :=
  exists k sync on acts outs, s_run (s_init true k sync on) acts = (s, outs).

Lemma reachable_fixed s : reachable s -> ss_fixed s = true.
Proof. intros (k & sync & on & acts & outs & H). apply s_run_cfg in H. destruct H as (A & _). exact A. Qed.

Lemma reachable_one_loop s : reachable s -> length (ss_loops s) <= 1.
Proof. intros (k & sync & on & acts & outs & H). eapply one_loop; eauto. Qed.

(* ---------------------------------------------------------------------------------------------------- *)
(* 3. After stop() no new cycle begins until the next start()                                           *)
(*    (holds for ANY state with ss_stopped = true, both variants; reachability is not needed)           *)
(* ---------------------------------------------------------------------------------------------------- *)

Lemma loop_go_stopped f s now c cur : loop_go (S f) s now true c cur = (None, [], true, c).
Proof. reflexivity. Qed.

Lemma resume_due_stopped s now : forall loops c,
  exists loops', resume_due s now loops true c = (loops', [], true, c).
Proof.
  destruct (fuel_of_S s) as (f & Hf).
  induction loops as [|l rest IH]; intros c; cbn [resume_due].
  - eauto.
  - destruct (IH c) as (r' & E). destruct (li_mode l) as [u|].
    + destruct (u <=? now)%Z.
      * rewrite Hf, loop_go_stopped, E. eexists; reflexivity.
      * rewrite E. eexists; reflexivity.
    + rewrite E. eexists; reflexivity.
Qed.

Lemma ack_first_stopped s : forall loops c,
  exists loops', ack_first s loops true c = (loops', [], true, c).
Proof.
  destruct (fuel_of_S s) as (f & Hf).
  induction loops as [|l rest IH]; intros c; cbn [ack_first].
  - eauto.
  - destruct (IH c) as (r' & E). destruct (li_mode l) as [u|].
    + rewrite E. eexists; reflexivity.
    + destruct (ss_kind s) eqn:K.
      * eexists; reflexivity.
      * rewrite Hf, loop_go_stopped. destruct (ss_fixed s); eexists; reflexivity.
Qed.

Lemma spawn_go_stopped s now : forall n c, spawn_go n s now true c = ([], [], true, c).
Proof.
  destruct (fuel_of_S s) as (f & Hf).
  induction n as [|n IH]; intros c; cbn [spawn_go]; [reflexivity |].
  rewrite Hf, loop_go_stopped. cbv beta iota.
  replace (if ss_fixed s then true else match ss_kind s with SPeriodic _ => true | SIterable _ => true end)
    with true by (destruct (ss_fixed s), (ss_kind s); reflexivity).
  rewrite IH. reflexivity.
Qed.

(* back-to-back calls whose last call is stop(): nothing is delivered, no loop appears, the source is stopped;
   in ANY state (in particular on a stopped source with no live loop), both variants *)
Theorem back_to_back_stop_last_is_silent : forall s pre,
  s_step s (SMulti (pre ++ [CStop])) = (upd s (ss_now s) true (ss_loops s) (ss_count s), []).
Proof.
  intros s pre. cbn [s_step]. unfold s_multi.
  destruct (multi_flags (ss_fixed s) (pre ++ [CStop]) (ss_stopped s) (negb (no_loops s)) 0) as [st n] eqn:EF.
  apply multi_flags_last in EF. rewrite last_last in EF.
  assert (E : st = true) by (rewrite EF; destruct pre; reflexivity). clear EF. subst st.
  rewrite spawn_go_stopped, app_nil_r. reflexivity.
Qed.

(* an action that cannot leave a stopped source started (quiet) on a stopped source: the flags *)
Lemma s_multi_stopped s calls : ss_stopped s = true -> last calls CStop = CStop ->
  s_multi s calls = (upd s (ss_now s) true (ss_loops s) (ss_count s), []).
Proof.
  intros Hst Hl. unfold s_multi.
  destruct (multi_flags (ss_fixed s) calls (ss_stopped s) (negb (no_loops s)) 0) as [st n] eqn:EF.
  apply multi_flags_last in EF. rewrite Hl, Hst in EF.
  assert (E : st = true) by (rewrite EF; destruct calls; reflexivity). clear EF. subst st.
  rewrite spawn_go_stopped, app_nil_r. reflexivity.
Qed.

Lemma s_tick_stopped s : ss_stopped s = true -> exists s', s_tick s = (s', []) /\ ss_stopped s' = true.
Proof.
  intros H. unfold s_tick. rewrite H.
  destruct (resume_due_stopped s (ss_now s + 1) (ss_loops s) (ss_count s)) as (lo & E). rewrite E.
  eexists; split; reflexivity.
Qed.

Lemma s_adv_stopped n : forall s, ss_stopped s = true -> exists s', s_adv n s = (s', []) /\ ss_stopped s' = true.
Proof.
  induction n as [|n IH]; intros s H; cbn [s_adv].
  - eauto.
  - destruct (s_tick_stopped s H) as (s1 & E1 & H1). rewrite E1.
    destruct (IH s1 H1) as (s2 & E2 & H2). rewrite E2. eexists; split; [reflexivity | exact H2].
Qed.

(* general form: any state, either variant *)
Lemma no_new_cycle_after_stop_any : forall s, ss_stopped s = true ->
  forall a, quiet a = true -> snd (s_step s a) = [] /\ ss_stopped (fst (s_step s a)) = true.
Proof.
  intros s H a Ha. destruct a; cbn [s_step].
  - discriminate.
  - rewrite H. split; [reflexivity | exact H].
  - rewrite H. destruct (ack_first_stopped s (ss_loops s) (ss_count s)) as (lo & E). rewrite E.
    split; reflexivity.
  - destruct (s_adv_stopped (Z.to_nat dt) s H) as (s' & E & H'). rewrite E. split; [reflexivity | exact H'].
  - cbn [quiet] in Ha. rewrite s_multi_stopped; [split; reflexivity | exact H |].
    destruct (last calls CStop); [discriminate | reflexivity].
Qed.

Theorem no_new_cycle_after_stop : forall s, reachable s -> ss_stopped s = true ->
  forall a, quiet a = true -> snd (s_step s a) = [].
Proof. intros s _ H a Ha. apply no_new_cycle_after_stop_any; assumption. Qed.

(* the statement with the old side condition `a <> SStart` does not extend to back-to-back calls:
   a callback that ends with start() does start the source *)
Theorem no_new_cycle_after_stop_literal_refuted : exists s a,
  reachable s /\ ss_stopped s = true /\ a <> SStart /\ snd (s_step s a) <> [].
Proof.
  exists (s_init true (SPeriodic 5) true None), (SMulti [CStop; CStart]).
  split; [exists (SPeriodic 5), true, None, [], []; reflexivity |].
  split; [reflexivity |]. split; [discriminate |]. vm_compute. discriminate.
Qed.

(* a whole continuation without a (possible) start delivers nothing and leaves the source stopped *)
Lemma quiet_run_stopped acts : forall s s' outs, ss_stopped s = true ->
  Forall (fun a => quiet a = true) acts -> s_run s acts = (s', outs) ->
  concat outs = [] /\ ss_stopped s' = true.
Proof.
  induction acts as [|a t IH]; intros s s' outs Hst Hq H; cbn [s_run] in H.
  - inversion H; subst. split; [reflexivity | exact Hst].
  - inversion Hq as [|? ? Qa Qt]; subst.
    destruct (no_new_cycle_after_stop_any s Hst a Qa) as (D & S1).
    destruct (s_step s a) as [s1 o] eqn:E1. destruct (s_run s1 t) as [s2 os] eqn:E2.
    inversion H; subst. cbn [fst snd] in *. subst o.
    destruct (IH _ _ _ S1 Qt E2) as (A & B). cbn [concat app]. split; assumption.
Qed.

(* ---------------------------------------------------------------------------------------------------- *)
(* Generic accumulation: if every burst of one loop (loop_go) extends the delivered-values list `F count` *)
(* consistently, then so does every step and every run.                                                  *)
(* ---------------------------------------------------------------------------------------------------- *)

Section Accum.
  Variable C : sst -> Prop.            (* configuration predicate, stable under same_cfg *)
  Variable I : nat -> Prop.            (* side invariant on the counter *)
  Variable F : nat -> list Z.          (* values delivered once the counter is c *)

  Definition Good (c : nat) (dl : list (Z * Z)) (c' : nat) : Prop :=
    I c -> I c' /\ F c ++ map snd dl = F c'.

  Hypothesis C_cfg : forall s s', same_cfg s s' -> C s -> C s'.
  Hypothesis go_good : forall s, C s -> forall fuel now st c cur l dl st' c',
    loop_go fuel s now st c cur = (l, dl, st', c') -> Good c dl c'.

  Lemma Good_refl c : Good c [] c.
  Proof. intros H; split; [exact H | apply app_nil_r]. Qed.

  Lemma Good_trans c d1 c1 d2 c2 : Good c d1 c1 -> Good c1 d2 c2 -> Good c (d1 ++ d2) c2.
  Proof.
    intros G1 G2 H. destruct (G1 H) as (H1 & E1). destruct (G2 H1) as (H2 & E2).
    split; [exact H2 |]. rewrite map_app, app_assoc, E1. exact E2.
  Qed.

  Lemma resume_due_good s (Hs : C s) now : forall loops st c loops' dl st' c',
    resume_due s now loops st c = (loops', dl, st', c') -> Good c dl c'.
  Proof.
    induction loops as [|l rest IH]; intros st c loops' dl st' c' H; cbn [resume_due] in H.
    - inversion H; subst. apply Good_refl.
    - destruct (li_mode l) as [u|].
      + destruct (u <=? now)%Z.
        * destruct (loop_go (fuel_of s) s now st c (li_cursor l)) as [[[l1 dl1] st1] c1] eqn:E1.
          destruct (resume_due s now rest st1 c1) as [[[r2 dl2] st2] c2] eqn:E2.
          inversion H; subst. eapply Good_trans; [eapply go_good; eauto | eapply IH; eauto].
        * destruct (resume_due s now rest st c) as [[[r2 dl2] st2] c2] eqn:E2.
          inversion H; subst. eapply IH; eauto.
      + destruct (resume_due s now rest st c) as [[[r2 dl2] st2] c2] eqn:E2.
        inversion H; subst. eapply IH; eauto.
  Qed.

  Lemma ack_first_good s (Hs : C s) : forall loops st c loops' dl st' c',
    ack_first s loops st c = (loops', dl, st', c') -> Good c dl c'.
  Proof.
    induction loops as [|l rest IH]; intros st c loops' dl st' c' H; cbn [ack_first] in H.
    - inversion H; subst. apply Good_refl.
    - destruct (li_mode l) as [u|].
      + destruct (ack_first s rest st c) as [[[r2 dl2] st2] c2] eqn:E2.
        inversion H; subst. eapply IH; eauto.
      + destruct (ss_kind s).
        * inversion H; subst. apply Good_refl.
        * destruct (loop_go (fuel_of s) s (ss_now s) st c (li_cursor l)) as [[[l1 dl1] st1] c1] eqn:E1.
          inversion H; subst. eapply go_good; eauto.
  Qed.

  Lemma spawn_go_good s (Hs : C s) now : forall n st c ls dl st' c',
    spawn_go n s now st c = (ls, dl, st', c') -> Good c dl c'.
  Proof.
    induction n as [|n IH]; intros st c ls dl st' c' H; cbn [spawn_go] in H.
    - inversion H; subst. apply Good_refl.
    - destruct (loop_go (fuel_of s) s now st c 0) as [[[l1 dl1] st1] c1] eqn:E1.
      destruct (spawn_go n s now _ c1) as [[[ls2 dl2] st2] c2] eqn:E2.
      inversion H; subst. eapply Good_trans; [eapply go_good; eauto | eapply IH; eauto].
  Qed.

  Lemma s_tick_good s s' d : C s -> s_tick s = (s', d) -> Good (ss_count s) d (ss_count s').
  Proof.
    intros Hs. unfold s_tick.
    destruct (resume_due s (ss_now s + 1) (ss_loops s) (ss_stopped s) (ss_count s)) as [[[lo dl] st] c] eqn:E.
    intros H; inversion H; subst. cbn [upd ss_count]. eapply resume_due_good; eauto.
  Qed.

  Lemma s_adv_good n : forall s s' d, C s -> s_adv n s = (s', d) -> Good (ss_count s) d (ss_count s').
  Proof.
    induction n as [|n IH]; intros s s' d Hs H; cbn [s_adv] in H.
    - inversion H; subst. apply Good_refl.
    - destruct (s_tick s) as [s1 d1] eqn:E1. destruct (s_adv n s1) as [s2 d2] eqn:E2.
      inversion H; subst. eapply Good_trans; [eapply s_tick_good; eauto |].
      eapply IH; [| exact E2]. eapply C_cfg; [eapply s_tick_cfg; eauto | exact Hs].
  Qed.

  Lemma s_step_good s a s' d : C s -> s_step s a = (s', d) -> Good (ss_count s) d (ss_count s').
  Proof.
    intros Hs H. destruct a; cbn [s_step] in H.
    - destruct (ss_stopped s).
      + destruct (ss_fixed s && negb match ss_loops s with [] => true | _ :: _ => false end).
        * inversion H; subst. apply Good_refl.
        * destruct (loop_go (fuel_of s) s (ss_now s) false (ss_count s) 0) as [[[l dl] st] c] eqn:E.
          inversion H; subst. cbn [upd ss_count]. eapply go_good; eauto.
      + inversion H; subst. apply Good_refl.
    - destruct (ss_stopped s); inversion H; subst; apply Good_refl.
    - destruct (ack_first s (ss_loops s) (ss_stopped s) (ss_count s)) as [[[lo dl] st] c] eqn:E.
      inversion H; subst. cbn [upd ss_count]. eapply ack_first_good; eauto.
    - eapply s_adv_good; eauto.
    - unfold s_multi in H.
      destruct (multi_flags (ss_fixed s) calls (ss_stopped s) (negb (no_loops s)) 0) as [st n].
      destruct (spawn_go n s (ss_now s) st (ss_count s)) as [[[ls dl] st'] c] eqn:E.
      inversion H; subst. cbn [upd ss_count]. eapply spawn_go_good; eauto.
  Qed.

  Lemma s_run_good acts : forall s s' outs,
    C s -> s_run s acts = (s', outs) -> Good (ss_count s) (concat outs) (ss_count s').
  Proof.
    induction acts as [|a t IH]; intros s s' outs Hs H; cbn [s_run] in H.
    - inversion H; subst. apply Good_refl.
    - destruct (s_step s a) as [s1 o] eqn:E1. destruct (s_run s1 t) as [s2 os] eqn:E2.
      inversion H; subst. cbn [concat]. eapply Good_trans; [eapply s_step_good; eauto |].
      eapply IH; [| exact E2]. eapply C_cfg; [eapply s_step_cfg; eauto | exact Hs].
  Qed.
End Accum.

(* ---------------------------------------------------------------------------------------------------- *)
(* 5. from_iterable (repaired): exactly the items, in order, each once                                   *)
(* ---------------------------------------------------------------------------------------------------- *)

Lemma nth_error_firstn_S (items : list Z) : forall c x,
  nth_error items c = Some x -> firstn (S c) items = firstn c items ++ [x] /\ S c <= length items.
Proof.
  induction items as [|y r IH]; intros [|c] x H; cbn in H; try discriminate.
  - inversion H; subst. split; [reflexivity | simpl; lia].
  - destruct (IH c x H) as (E & L). split; [| simpl; lia].
    change (firstn (S (S c)) (y :: r)) with (y :: firstn (S c) r). rewrite E. reflexivity.
Qed.

Lemma nth_error_skipn_S (items : list Z) : forall c x,
  nth_error items c = Some x -> skipn c items = x :: skipn (S c) items.
Proof.
  induction items as [|y r IH]; intros [|c] x H; cbn in H; try discriminate.
  - inversion H; subst. reflexivity.
  - apply IH in H. cbn [skipn]. cbn [skipn] in H. exact H.
Qed.

Definition iter_cfg (items : list Z) (s : sst) : Prop := ss_fixed s = true /\ ss_kind s = SIterable items.

Lemma iter_cfg_stable items s s' : same_cfg s s' -> iter_cfg items s -> iter_cfg items s'.
Proof. intros (A & B & _) (D & E). split; congruence. Qed.

Lemma loop_go_iter_good items s : iter_cfg items s -> forall fuel now st c cur l dl st' c',
  loop_go fuel s now st c cur = (l, dl, st', c') ->
  Good (fun c => c <= length items) (fun c => firstn c items) c dl c'.
Proof.
  intros (Hf & Hk). induction fuel as [|fuel IH]; intros now st c cur l dl st' c' H; cbn [loop_go] in H.
  - inversion H; subst. apply Good_refl.
  - destruct st; [inversion H; subst; apply Good_refl |].
    rewrite Hk, Hf in H.
    destruct (nth_error items c) as [x|] eqn:En.
    + destruct (nth_error_firstn_S _ _ _ En) as (EF & EL).
      assert (G1 : Good (fun c => c <= length items) (fun c => firstn c items) c [(now, x)] (S c)).
      { intros _. split; [exact EL |]. cbn [map snd]. symmetry; exact EF. }
      destruct (ss_sync s).
      * destruct (loop_go fuel s now (hit s x) (S c) (S cur)) as [[[l1 dl1] st1] c1] eqn:E1.
        inversion H; subst. apply IH in E1.
        change ((now, x) :: dl1) with ([(now, x)] ++ dl1). eapply Good_trans; eauto.
      * inversion H; subst. exact G1.
    + inversion H; subst. apply Good_refl.
Qed.

Theorem from_iterable_exact : forall items sync on acts s outs,
  s_run (s_init true (SIterable items) sync on) acts = (s, outs) ->
  map snd (concat outs) = firstn (ss_count s) items /\ ss_count s <= length items.
Proof.
  intros items sync on acts s outs H.
  eapply (s_run_good (iter_cfg items) (fun c => c <= length items) (fun c => firstn c items)) in H.
  - cbn [s_init ss_count] in H. destruct H as (L & E); [lia |]. cbn [firstn app] in E. split; assumption.
  - apply iter_cfg_stable.
  - apply loop_go_iter_good.
  - split; reflexivity.
Qed.

(* the shared cursor never moves backwards (any reachable-or-not state of the repaired from_iterable) *)
Lemma iter_count_mono items acts s s' outs :
  iter_cfg items s -> ss_count s <= length items -> s_run s acts = (s', outs) ->
  ss_count s <= ss_count s' <= length items.
Proof.
  intros Hc Hl H.
  eapply (s_run_good (iter_cfg items) (fun c => c <= length items) (fun c => firstn c items)) in H;
    [| apply iter_cfg_stable | apply loop_go_iter_good | exact Hc].
  destruct (H Hl) as (L & E). split; [| exact L].
  apply (f_equal (@length Z)) in E. rewrite app_length, !firstn_length in E. lia.
Qed.

(* ---------------------------------------------------------------------------------------------------- *)
(* 7. from_periodic: the callback results 1, 2, 3, ... each delivered exactly once, in order             *)
(* ---------------------------------------------------------------------------------------------------- *)

Definition per_cfg (poll : Z) (s : sst) : Prop := ss_kind s = SPeriodic poll.

Lemma per_cfg_stable poll s s' : same_cfg s s' -> per_cfg poll s -> per_cfg poll s'.
Proof. intros (_ & B & _) E. unfold per_cfg in *. congruence. Qed.

Lemma loop_go_per_good poll s : per_cfg poll s -> forall fuel now st c cur l dl st' c',
  loop_go fuel s now st c cur = (l, dl, st', c') ->
  Good (fun _ => True) (fun c => map Z.of_nat (seq 1 c)) c dl c'.
Proof.
  intros Hk fuel now st c cur l dl st' c' H. unfold per_cfg in Hk.
  destruct fuel as [|fuel]; cbn [loop_go] in H.
  - inversion H; subst. apply Good_refl.
  - destruct st; [inversion H; subst; apply Good_refl |].
    rewrite Hk in H.
    assert (G1 : Good (fun _ => True) (fun c => map Z.of_nat (seq 1 c)) c [(now, Z.of_nat (S c))] (S c)).
    { intros _. split; [exact I |]. cbn [map snd]. rewrite seq_S, map_app. reflexivity. }
    destruct (ss_sync s); inversion H; subst; exact G1.
Qed.

(* holds for both variants *)
Theorem periodic_values_any : forall fx poll sync on acts s outs,
  s_run (s_init fx (SPeriodic poll) sync on) acts = (s, outs) ->
  map snd (concat outs) = map Z.of_nat (seq 1 (ss_count s)).
Proof.
  intros fx poll sync on acts s outs H.
  eapply (s_run_good (per_cfg poll) (fun _ => True) (fun c => map Z.of_nat (seq 1 c))) in H.
  - destruct H as (_ & E); [exact I |]. exact E.
  - apply per_cfg_stable.
  - apply loop_go_per_good.
  - reflexivity.
Qed.

Theorem periodic_values : forall poll sync on acts s outs,
  s_run (s_init true (SPeriodic poll) sync on) acts = (s, outs) ->
  map snd (concat outs) = map Z.of_nat (seq 1 (ss_count s)).
Proof. intros; eapply periodic_values_any; eauto. Qed.

(* ---------------------------------------------------------------------------------------------------- *)
(* 5b. from_iterable with a controlled (asynchronous) sink: back-pressure                                *)
(* ---------------------------------------------------------------------------------------------------- *)

Definition all_emit (loops : list linst) : Prop := Forall (fun l => li_mode l = LEmit) loops.

Definition bp_inv (items : list Z) (s : sst) : Prop :=
  ss_fixed s = true /\ ss_kind s = SIterable items /\ ss_sync s = false /\ all_emit (ss_loops s).

Lemma loop_go_bp items s : ss_kind s = SIterable items -> ss_sync s = false ->
  forall fuel now st c cur l dl st' c', loop_go fuel s now st c cur = (l, dl, st', c') ->
  length dl <= 1 /\ all_emit (match l with Some x => [x] | None => [] end).
Proof.
  intros Hk Hs fuel now st c cur l dl st' c' H. destruct fuel as [|fuel]; cbn [loop_go] in H.
  - inversion H; subst. split; [simpl; lia | constructor].
  - destruct st; [inversion H; subst; split; [simpl; lia | constructor] |].
    rewrite Hk, Hs in H.
    destruct (nth_error items (if ss_fixed s then c else cur)).
    + inversion H; subst. split; [simpl; lia |]. constructor; [reflexivity | constructor].
    + inversion H; subst. split; [simpl; lia | constructor].
Qed.

Lemma resume_due_all_emit s now : forall loops st c, all_emit loops ->
  resume_due s now loops st c = (loops, [], st, c).
Proof.
  induction loops as [|l rest IH]; intros st c Ha; cbn [resume_due].
  - reflexivity.
  - inversion Ha as [|? ? Hl Hr]; subst. rewrite Hl, (IH st c Hr). reflexivity.
Qed.

Lemma s_tick_bp items s : bp_inv items s -> exists s', s_tick s = (s', []) /\ bp_inv items s'.
Proof.
  intros (Hfx & Hk & Hs & Ha). unfold s_tick. rewrite (resume_due_all_emit s _ _ _ _ Ha).
  eexists; split; [reflexivity |]. repeat split; assumption.
Qed.

Lemma s_adv_bp items n : forall s, bp_inv items s -> exists s', s_adv n s = (s', []) /\ bp_inv items s'.
Proof.
  induction n as [|n IH]; intros s H; cbn [s_adv].
  - eauto.
  - destruct (s_tick_bp items s H) as (s1 & E1 & H1). rewrite E1.
    destruct (IH s1 H1) as (s2 & E2 & H2). rewrite E2. eexists; split; [reflexivity | exact H2].
Qed.

Lemma s_step_bp items s a s' d : bp_inv items s -> s_step s a = (s', d) -> length d <= 1 /\ bp_inv items s'.
Proof.
  intros (Hfx & Hk & Hs & Ha) H. destruct a; cbn [s_step] in H.
  - destruct (ss_stopped s).
    + destruct (ss_fixed s && negb match ss_loops s with [] => true | _ :: _ => false end).
      * inversion H; subst. split; [simpl; lia | repeat split; assumption].
      * destruct (loop_go (fuel_of s) s (ss_now s) false (ss_count s) 0) as [[[l dl] st] c] eqn:E.
        inversion H; subst. destruct (loop_go_bp items s Hk Hs _ _ _ _ _ _ _ _ _ E) as (L & A).
        split; [exact L |]. repeat split; try assumption. cbn [upd ss_loops].
        apply Forall_app; split; assumption.
    + inversion H; subst. split; [simpl; lia | repeat split; assumption].
  - destruct (ss_stopped s); inversion H; subst; (split; [simpl; lia | repeat split; assumption]).
  - destruct (ss_loops s) as [|l rest] eqn:EL; cbn [ack_first] in H.
    + inversion H; subst. split; [simpl; lia |]. repeat split; try assumption; try constructor.
    + inversion Ha as [|? ? Hl Hr]; subst. rewrite Hl, Hk in H.
      destruct (loop_go (fuel_of s) s (ss_now s) (ss_stopped s) (ss_count s) (li_cursor l))
        as [[[l1 dl1] st1] c1] eqn:E.
      inversion H; subst. destruct (loop_go_bp items s Hk Hs _ _ _ _ _ _ _ _ _ E) as (L & A).
      split; [exact L |]. repeat split; try assumption. cbn [upd ss_loops].
      apply Forall_app; split; assumption.
  - destruct (s_adv_bp items (Z.to_nat dt) s) as (s2 & E2 & H2); [repeat split; assumption |].
    rewrite E2 in H. inversion H; subst. split; [simpl; lia | exact H2].
  - unfold s_multi in H. rewrite Hfx in H.
    destruct (multi_flags true calls (ss_stopped s) (negb (no_loops s)) 0) as [st n] eqn:EF.
    destruct (spawn_go n s (ss_now s) st (ss_count s)) as [[[ls dl] st'] c] eqn:ES.
    apply multi_flags_fixed in EF. destruct EF as (_ & Hn).
    assert (G : length dl <= 1 /\ all_emit ls).
    { destruct n as [|[|n]]; [| | lia]; cbn [spawn_go] in ES.
      - inversion ES; subst. split; [simpl; lia | constructor].
      - destruct (loop_go (fuel_of s) s (ss_now s) st (ss_count s) 0) as [[[l1 dl1] st1] c1] eqn:E1.
        inversion ES; subst. destruct (loop_go_bp items s Hk Hs _ _ _ _ _ _ _ _ _ E1) as (L & A).
        rewrite !app_nil_r. split; assumption. }
    destruct G as (L & A). inversion H; subst. split; [exact L |]. repeat split; try assumption.
    cbn [upd ss_loops]. apply Forall_app; split; assumption.
Qed.

Lemma s_run_bp items acts : forall s s' outs, bp_inv items s -> s_run s acts = (s', outs) ->
  Forall (fun o => length o <= 1) outs /\ bp_inv items s'.
Proof.
  induction acts as [|a t IH]; intros s s' outs Hb H; cbn [s_run] in H.
  - inversion H; subst. split; [constructor | exact Hb].
  - destruct (s_step s a) as [s1 o] eqn:E1. destruct (s_run s1 t) as [s2 os] eqn:E2.
    inversion H; subst. destruct (s_step_bp _ _ _ _ _ Hb E1) as (L & H1).
    destruct (IH _ _ _ H1 E2) as (F2 & H2). split; [constructor; assumption | exact H2].
Qed.

Lemma bp_inv_init items on : bp_inv items (s_init true (SIterable items) false on).
Proof. repeat split. constructor. Qed.

(* every live loop is awaiting its consumer, there is at most one, and no step delivers more than one item *)
Theorem from_iterable_backpressure : forall items on acts s outs,
  s_run (s_init true (SIterable items) false on) acts = (s, outs) ->
  Forall (fun l => li_mode l = LEmit) (ss_loops s) /\ length (ss_loops s) <= 1 /\
  Forall (fun o => length o <= 1) outs.
Proof.
  intros items on acts s outs H.
  destruct (s_run_bp items acts _ _ _ (bp_inv_init items on) H) as (F1 & _ & _ & _ & A).
  split; [exact A |]. split; [eapply one_loop; eauto | exact F1].
Qed.

(* while an item is outstanding at the consumer (a loop is alive), only the consumer's ack makes the source
   take the next item: start / stop / the passage of time deliver nothing *)
Theorem from_iterable_next_only_after_ack : forall items on acts s outs,
  s_run (s_init true (SIterable items) false on) acts = (s, outs) ->
  ss_loops s <> [] -> forall a, a <> SAck -> snd (s_step s a) = [].
Proof.
  intros items on acts s outs H Hne a Ha.
  destruct (s_run_bp items acts _ _ _ (bp_inv_init items on) H) as (_ & Hb).
  assert (Hf : ss_fixed s = true) by (apply s_run_cfg in H; destruct H as (A & _); exact A).
  destruct a; cbn [s_step].
  - destruct (ss_stopped s); [| reflexivity]. rewrite Hf.
    destruct (ss_loops s); [congruence | reflexivity].
  - destruct (ss_stopped s); reflexivity.
  - congruence.
  - destruct (s_adv_bp items (Z.to_nat dt) s Hb) as (s2 & E2 & _). rewrite E2. reflexivity.
  - (* a loop is alive: back-to-back calls only move the flag *)
    unfold s_multi. rewrite Hf.
    destruct (multi_flags true calls (ss_stopped s) (negb (no_loops s)) 0) as [st n] eqn:EF.
    apply multi_flags_fixed in EF. destruct EF as (A & _).
    unfold no_loops in A. destruct (ss_loops s) as [|l0 r0]; [congruence |].
    rewrite A by reflexivity. reflexivity.
Qed.

(* ---------------------------------------------------------------------------------------------------- *)
(* 6. from_iterable: completeness                                                                        *)
(* ---------------------------------------------------------------------------------------------------- *)

(* once the cursor has reached the end, every item has been delivered (exactly once, in order) *)
Theorem from_iterable_complete : forall items sync on acts s outs,
  s_run (s_init true (SIterable items) sync on) acts = (s, outs) ->
  ss_count s = length items -> map snd (concat outs) = items.
Proof.
  intros items sync on acts s outs H Hc.
  destruct (from_iterable_exact _ _ _ _ _ _ H) as (E & _). rewrite E, Hc. apply firstn_all.
Qed.

(* a synchronous sink whose consumer never calls stop(): one burst of the loop emits all the remaining items and
   the source stops itself *)
Lemma hit_none s x : ss_stop_on s = None -> hit s x = false.
Proof. intros H. unfold hit. rewrite H. reflexivity. Qed.

Lemma loop_go_iter_sync items s : iter_cfg items s -> ss_sync s = true -> ss_stop_on s = None ->
  forall fuel now c cur, c <= length items -> length items - c < fuel ->
  loop_go fuel s now false c cur = (None, map (fun x => (now, x)) (skipn c items), true, length items).
Proof.
  intros (Hf & Hk) Hs Hon. induction fuel as [|fuel IH]; intros now c cur Hc Hlt; [lia |].
  cbn [loop_go]. rewrite Hk, Hf, Hs.
  destruct (nth_error items c) as [x|] eqn:En.
  - destruct (nth_error_firstn_S _ _ _ En) as (_ & EL).
    rewrite (hit_none s x Hon).
    rewrite (IH now (S c) (S cur)) by lia.
    rewrite (nth_error_skipn_S _ _ _ En). reflexivity.
  - apply nth_error_None in En. assert (c = length items) by lia. subst c.
    rewrite skipn_all. reflexivity.
Qed.

Lemma map_snd_stamp (now : Z) (l : list Z) : map snd (map (fun x => (now, x)) l) = l.
Proof. induction l as [|x r IH]; cbn [map snd]; [reflexivity | rewrite IH; reflexivity]. Qed.

Lemma start_iter_sync items s : iter_cfg items s -> ss_sync s = true -> ss_stop_on s = None ->
  ss_stopped s = true -> ss_loops s = [] -> ss_count s <= length items ->
  s_step s SStart =
    (upd s (ss_now s) true [] (length items), map (fun x => (ss_now s, x)) (skipn (ss_count s) items)).
Proof.
  intros Hc Hs Hon Hst Hl Hle. pose proof Hc as (Hf & Hk). cbn [s_step]. rewrite Hst, Hf, Hl. cbn [andb negb].
  rewrite (loop_go_iter_sync items s Hc Hs Hon).
  - reflexivity.
  - exact Hle.
  - unfold fuel_of. rewrite Hk. lia.
Qed.

Theorem from_iterable_sync_single_start : forall items s outs,
  s_run (s_init true (SIterable items) true None) [SStart] = (s, outs) ->
  map snd (concat outs) = items /\ ss_count s = length items /\ ss_stopped s = true /\ ss_loops s = [].
Proof.
  intros items s outs H. cbn [s_run] in H.
  rewrite (start_iter_sync items) in H; try reflexivity; [| split; reflexivity | cbn; lia].
  inversion H; subst. cbn [concat s_init ss_count ss_now skipn]. rewrite app_nil_r, map_snd_stamp.
  repeat split.
Qed.

(* stronger: on a synchronous sink whose consumer never calls stop(), ANY history that contains a start delivers all
   items exactly once *)
Definition idle (s : sst) : Prop := ss_stopped s = true /\ ss_loops s = [] /\ ss_count s = 0.

(* from an idle source every step either leaves it idle (and was not a start) or has emitted everything *)
Lemma idle_step items s a s' d : iter_cfg items s -> ss_sync s = true -> ss_stop_on s = None -> idle s ->
  s_step s a = (s', d) -> (idle s' /\ a <> SStart) \/ ss_count s' = length items.
Proof.
  intros Hc Hs Hon (Hst & Hl & Hn) H. pose proof Hc as (Hf & Hk). destruct a.
  - right. rewrite (start_iter_sync items s Hc Hs Hon Hst Hl) in H by lia. inversion H; subst. reflexivity.
  - left. split; [| discriminate]. cbn [s_step] in H. rewrite Hst in H. inversion H; subst.
    repeat split; assumption.
  - left. split; [| discriminate]. cbn [s_step] in H. rewrite Hl in H. cbn [ack_first] in H.
    inversion H; subst. repeat split; assumption.
  - left. split; [| discriminate]. cbn [s_step] in H.
    revert s s' d Hc Hs Hon Hf Hk Hst Hl Hn H.
    induction (Z.to_nat dt) as [|n IH]; intros s s' d Hc Hs Hon Hf Hk Hst Hl Hn H; cbn [s_adv] in H.
    + inversion H; subst. repeat split; assumption.
    + unfold s_tick in H. rewrite Hl in H. cbn [resume_due] in H.
      destruct (s_adv n (upd s (ss_now s + 1) (ss_stopped s) [] (ss_count s))) as [s2 d2] eqn:E2.
      inversion H; subst. eapply IH; [| | | | | | | | exact E2]; try assumption; try reflexivity.
  - cbn [s_step] in H. unfold s_multi in H. rewrite Hf, Hst in H. unfold no_loops in H. rewrite Hl in H.
    cbn [negb] in H.
    destruct (multi_flags true calls true false 0) as [st n] eqn:EF.
    destruct (spawn_go n s (ss_now s) st (ss_count s)) as [[[ls dl] st'] c] eqn:ES.
    pose proof (multi_flags_fixed _ _ _ _ _ _ EF) as (_ & Hle).
    destruct n as [|[|n]]; [| | lia]; cbn [spawn_go] in ES.
    + left. split; [| discriminate]. apply multi_flags_nospawn in EF; [| reflexivity]. subst st.
      inversion ES; subst. inversion H; subst. repeat split; assumption.
    + destruct st.
      * left. split; [| discriminate]. destruct (fuel_of_S s) as (f & Ef).
        rewrite Ef, loop_go_stopped, Hf in ES. inversion ES; subst. inversion H; subst.
        repeat split; assumption.
      * right. rewrite (loop_go_iter_sync items s Hc Hs Hon) in ES; [| lia | unfold fuel_of; rewrite Hk; lia].
        rewrite Hf in ES. inversion ES; subst. inversion H; subst. reflexivity.
Qed.

Lemma idle_run_count items acts : forall s s' outs,
  iter_cfg items s -> ss_sync s = true -> ss_stop_on s = None -> idle s -> In SStart acts ->
  s_run s acts = (s', outs) -> ss_count s' = length items.
Proof.
  induction acts as [|a t IH]; intros s s' outs Hc Hs Hon Hi Hin H; [destruct Hin |].
  cbn [s_run] in H.
  destruct (s_step s a) as [s1 o] eqn:E1. destruct (s_run s1 t) as [s2 os] eqn:E2.
  inversion H; subst.
  assert (Hc1 : iter_cfg items s1) by (eapply iter_cfg_stable; [eapply s_step_cfg; eauto | exact Hc]).
  destruct (s_step_cfg _ _ _ _ E1) as (_ & _ & A & B).
  destruct (idle_step items _ _ _ _ Hc Hs Hon Hi E1) as [(Hi1 & Ha) | Hn].
  - destruct Hin as [Hin | Hin]; [congruence |].
    eapply IH; [exact Hc1 | congruence | congruence | exact Hi1 | exact Hin | exact E2].
  - assert (Hle : ss_count s1 <= length items) by lia.
    pose proof (iter_count_mono items t _ _ _ Hc1 Hle E2) as M. lia.
Qed.

Theorem from_iterable_complete_sync : forall items acts s outs,
  In SStart acts -> s_run (s_init true (SIterable items) true None) acts = (s, outs) ->
  map snd (concat outs) = items.
Proof.
  intros items acts s outs Hin H. eapply from_iterable_complete; [exact H |].
  eapply idle_run_count; [| | | | exact Hin | exact H]; repeat split.
Qed.

(* with a consumer that calls stop() inside its callback the source is, as it should be, NOT run to completion *)
Theorem from_iterable_complete_sync_needs_passive_consumer : exists items on acts s outs,
  In SStart acts /\ s_run (s_init true (SIterable items) true on) acts = (s, outs) /\
  map snd (concat outs) <> items.
Proof.
  exists [10; 11; 12]%Z, (Some 11%Z), [SStart; SAdv 3]. eexists; eexists.
  split; [left; reflexivity |]. split; [vm_compute; reflexivity |]. vm_compute. discriminate.
Qed.

(* ---------------------------------------------------------------------------------------------------- *)
(* 8. from_periodic (repaired): consecutive polls are at least `poll` apart, also across stop()/start()  *)
(* ---------------------------------------------------------------------------------------------------- *)

(* consecutive elements differ by at least poll *)
Fixpoint spaced (poll : Z) (ts : list Z) : Prop :=
  match ts with
  | [] => True
  | a :: t => match t with [] => True | b :: _ => (a + poll <= b)%Z end /\ spaced poll t
  end.

(* the same, with a lower bound `lb` for the first element (the earliest time the next poll may happen) *)
Fixpoint spaced_from (poll lb : Z) (ts : list Z) : Prop :=
  match ts with
  | [] => True
  | t :: r => (lb <= t)%Z /\ spaced_from poll (t + poll)%Z r
  end.

Fixpoint nlb (poll lb : Z) (ts : list Z) : Z :=
  match ts with
  | [] => lb
  | t :: r => nlb poll (t + poll)%Z r
  end.

Lemma spaced_from_spaced poll : forall ts lb, spaced_from poll lb ts -> spaced poll ts.
Proof.
  induction ts as [|a t IH]; intros lb H; cbn [spaced]; [exact I |].
  cbn [spaced_from] in H. destruct H as (_ & B). split; [| eapply IH; exact B].
  destruct t as [|b r]; [exact I |]. cbn [spaced_from] in B. destruct B as (B1 & _). exact B1.
Qed.

Lemma spaced_from_app poll : forall d1 lb d2,
  spaced_from poll lb d1 -> spaced_from poll (nlb poll lb d1) d2 -> spaced_from poll lb (d1 ++ d2).
Proof.
  induction d1 as [|a t IH]; intros lb d2 H1 H2; cbn [app]; [exact H2 |].
  cbn [spaced_from nlb] in *. destruct H1 as (A & B). split; [exact A | apply IH; assumption].
Qed.

Lemma nlb_app poll : forall d1 lb d2, nlb poll lb (d1 ++ d2) = nlb poll (nlb poll lb d1) d2.
Proof. induction d1 as [|a t IH]; intros lb d2; cbn [app nlb]; [reflexivity | apply IH]. Qed.

Lemma spaced_nth poll : forall ts, spaced poll ts ->
  forall i a b, nth_error ts i = Some a -> nth_error ts (S i) = Some b -> (a + poll <= b)%Z.
Proof.
  induction ts as [|x t IH]; intros H i a b Ha Hb; [destruct i; discriminate |].
  cbn [spaced] in H. destruct H as (H1 & H2). destruct i as [|i].
  - cbn in Ha, Hb. inversion Ha; subst. destruct t as [|y r]; [discriminate |].
    cbn in Hb. inversion Hb; subst. exact H1.
  - cbn [nth_error] in Ha. change (nth_error (x :: t) (S (S i))) with (nth_error t (S i)) in Hb.
    eapply IH; eauto.
Qed.

Definition mode_ok (poll lb now : Z) (m : lmode) : Prop :=
  match m with LSleep u => (lb <= u)%Z | LEmit => (lb <= now + poll)%Z end.

(* lb = (time of the last poll) + poll.  A sleeping loop wakes no earlier than lb; a loop awaiting its consumer
   will sleep `poll` from the ack; and when no loop is alive the old loop has already slept through lb. *)
Definition pinv (poll lb : Z) (s : sst) : Prop :=
  ss_fixed s = true /\ ss_kind s = SPeriodic poll /\
  match ss_loops s with
  | [] => (lb <= ss_now s)%Z
  | [l] => mode_ok poll lb (ss_now s) (li_mode l)
  | _ => False
  end.

Lemma s_tick_pinv poll lb s s' d : pinv poll lb s -> s_tick s = (s', d) ->
  spaced_from poll lb (map fst d) /\ pinv poll (nlb poll lb (map fst d)) s'.
Proof.
  intros (Hf & Hk & Hl). unfold s_tick. unfold pinv.
  destruct (ss_loops s) as [|l [|l2 r]] eqn:EL; [| | contradiction]; cbn [resume_due].
  - intros H; inversion H; subst. cbn [map spaced_from nlb upd ss_fixed ss_kind ss_loops ss_now].
    repeat split; try assumption. lia.
  - destruct (li_mode l) as [u|] eqn:EM; cbn [mode_ok] in Hl.
    + destruct (Z.leb_spec u (ss_now s + 1)) as [Hle|Hgt].
      * unfold fuel_of. rewrite Hk. cbn [loop_go]. destruct (ss_stopped s).
        -- intros H; inversion H; subst.
           cbn [app map spaced_from nlb upd ss_fixed ss_kind ss_loops ss_now].
           repeat split; try assumption. lia.
        -- rewrite Hk. destruct (ss_sync s); intros H; inversion H; subst;
             cbn [app map fst spaced_from nlb upd ss_fixed ss_kind ss_loops ss_now li_mode mode_ok];
             repeat split; try assumption; lia.
      * intros H; inversion H; subst.
        cbn [map spaced_from nlb upd ss_fixed ss_kind ss_loops ss_now]. rewrite EM. cbn [mode_ok].
        repeat split; assumption.
    + intros H; inversion H; subst.
      cbn [map spaced_from nlb upd ss_fixed ss_kind ss_loops ss_now]. rewrite EM. cbn [mode_ok].
      repeat split; try assumption. lia.
Qed.

Lemma s_adv_pinv poll n : forall lb s s' d, pinv poll lb s -> s_adv n s = (s', d) ->
  spaced_from poll lb (map fst d) /\ pinv poll (nlb poll lb (map fst d)) s'.
Proof.
  induction n as [|n IH]; intros lb s s' d Hp H; cbn [s_adv] in H.
  - inversion H; subst. cbn [map spaced_from nlb]. split; [exact I | exact Hp].
  - destruct (s_tick s) as [s1 d1] eqn:E1. destruct (s_adv n s1) as [s2 d2] eqn:E2.
    inversion H; subst. destruct (s_tick_pinv _ _ _ _ _ Hp E1) as (A1 & P1).
    destruct (IH _ _ _ _ P1 E2) as (A2 & P2). rewrite map_app, nlb_app.
    split; [apply spaced_from_app; assumption | exact P2].
Qed.

Lemma s_step_pinv poll lb s a s' d : pinv poll lb s -> s_step s a = (s', d) ->
  spaced_from poll lb (map fst d) /\ pinv poll (nlb poll lb (map fst d)) s'.
Proof.
  intros Hp H. pose proof Hp as (Hf & Hk & Hl). destruct a; cbn [s_step] in H.
  - destruct (ss_stopped s).
    + rewrite Hf in H. unfold pinv.
      destruct (ss_loops s) as [|l [|l2 r]] eqn:EL; [| | contradiction]; cbn [andb negb] in H.
      * unfold fuel_of in H. rewrite Hk in H. cbn [loop_go] in H. rewrite Hk in H.
        destruct (ss_sync s); inversion H; subst;
          cbn [app map fst spaced_from nlb upd ss_fixed ss_kind ss_loops ss_now li_mode mode_ok];
          repeat split; try assumption; lia.
      * inversion H; subst. cbn [map spaced_from nlb upd ss_fixed ss_kind ss_loops ss_now].
        repeat split; assumption.
    + inversion H; subst. cbn [map spaced_from nlb]. split; [exact I | exact Hp].
  - destruct (ss_stopped s); inversion H; subst; cbn [map spaced_from nlb]; (split; [exact I |]);
      [exact Hp |].
    unfold pinv. cbn [upd ss_fixed ss_kind ss_loops ss_now]. repeat split; assumption.
  - unfold pinv. destruct (ss_loops s) as [|l [|l2 r]] eqn:EL; [| | contradiction]; cbn [ack_first] in H.
    + inversion H; subst. cbn [map spaced_from nlb upd ss_fixed ss_kind ss_loops ss_now].
      repeat split; assumption.
    + destruct (li_mode l) as [u|] eqn:EM; cbn [mode_ok] in Hl.
      * inversion H; subst. cbn [map spaced_from nlb upd ss_fixed ss_kind ss_loops ss_now]. rewrite EM.
        repeat split; assumption.
      * rewrite Hk in H. inversion H; subst.
        cbn [map spaced_from nlb upd ss_fixed ss_kind ss_loops ss_now li_mode mode_ok].
        repeat split; assumption.
  - eapply s_adv_pinv; eauto.
  - unfold s_multi in H. rewrite Hf in H.
    destruct (multi_flags true calls (ss_stopped s) (negb (no_loops s)) 0) as [st n] eqn:EF.
    apply multi_flags_fixed in EF. destruct EF as (A & Hn).
    unfold pinv. unfold no_loops in A.
    destruct (ss_loops s) as [|l [|l2 r]] eqn:EL; [| | contradiction]; cbn [negb] in A.
    + destruct n as [|[|n]]; [| | lia]; cbn [spawn_go] in H.
      * inversion H; subst. cbn [app map spaced_from nlb upd ss_fixed ss_kind ss_loops ss_now].
        repeat split; assumption.
      * unfold fuel_of in H. rewrite Hk in H. cbn [loop_go] in H. destruct st.
        -- rewrite Hf in H. inversion H; subst.
           cbn [app map spaced_from nlb upd ss_fixed ss_kind ss_loops ss_now].
           repeat split; assumption.
        -- rewrite Hk, Hf in H. destruct (ss_sync s); inversion H; subst;
             cbn [app map fst spaced_from nlb upd ss_fixed ss_kind ss_loops ss_now li_mode mode_ok];
             repeat split; try assumption; lia.
    + rewrite A in H by reflexivity. cbn [spawn_go] in H. inversion H; subst.
      cbn [app map spaced_from nlb upd ss_fixed ss_kind ss_loops ss_now].
      repeat split; assumption.
Qed.

Lemma s_run_pinv poll acts : forall lb s s' outs, pinv poll lb s -> s_run s acts = (s', outs) ->
  spaced_from poll lb (map fst (concat outs)) /\ pinv poll (nlb poll lb (map fst (concat outs))) s'.
Proof.
  induction acts as [|a t IH]; intros lb s s' outs Hp H; cbn [s_run] in H.
  - inversion H; subst. cbn [concat map spaced_from nlb]. split; [exact I | exact Hp].
  - destruct (s_step s a) as [s1 o] eqn:E1. destruct (s_run s1 t) as [s2 os] eqn:E2.
    inversion H; subst. destruct (s_step_pinv _ _ _ _ _ _ Hp E1) as (A1 & P1).
    destruct (IH _ _ _ _ P1 E2) as (A2 & P2). cbn [concat]. rewrite map_app, nlb_app.
    split; [apply spaced_from_app; assumption | exact P2].
Qed.

(* true for every poll interval (for poll <= 0 it only says that time does not run backwards) *)
Theorem periodic_spacing_gen : forall poll sync on acts s outs,
  s_run (s_init true (SPeriodic poll) sync on) acts = (s, outs) -> spaced poll (map fst (concat outs)).
Proof.
  intros poll sync on acts s outs H.
  assert (Hp : pinv poll 0 (s_init true (SPeriodic poll) sync on)).
  { split; [reflexivity |]. split; [reflexivity |]. cbn [s_init ss_loops ss_now]. lia. }
  destruct (s_run_pinv poll acts _ _ _ _ Hp H) as (A & _). eapply spaced_from_spaced; exact A.
Qed.

Theorem periodic_spacing : forall poll sync on acts s outs, (0 < poll)%Z ->
  s_run (s_init true (SPeriodic poll) sync on) acts = (s, outs) ->
  spaced poll (map fst (concat outs)) /\
  (forall i t1 t2, nth_error (map fst (concat outs)) i = Some t1 ->
                   nth_error (map fst (concat outs)) (S i) = Some t2 -> (t1 + poll <= t2)%Z).
Proof.
  intros poll sync on acts s outs _ H. pose proof (periodic_spacing_gen _ _ _ _ _ _ H) as Hs.
  split; [exact Hs | apply spaced_nth; exact Hs].
Qed.

(* the code as found violates it: start, stop, start polls twice at the same instant *)
Theorem periodic_spacing_asfound_refuted : exists poll sync on acts s outs, (0 < poll)%Z /\
  s_run (s_init false (SPeriodic poll) sync on) acts = (s, outs) /\ ~ spaced poll (map fst (concat outs)).
Proof.
  exists 5%Z, true, None, [SStart; SStop; SStart]. eexists; eexists.
  split; [lia |]. split; [vm_compute; reflexivity |].
  cbn. intros (A & _). lia.
Qed.

(* ---------------------------------------------------------------------------------------------------- *)
(* 6b. from_iterable with a controlled sink: one start and enough acks deliver everything                *)
(* ---------------------------------------------------------------------------------------------------- *)

Definition prog (items : list Z) (s : sst) : Prop :=
  (ss_stopped s = false /\ exists l, ss_loops s = [l] /\ li_mode l = LEmit) \/
  (ss_loops s = [] /\ ss_count s = length items).

Lemma go_ctrl items s now c cur : iter_cfg items s -> ss_sync s = false -> ss_stop_on s = None ->
  exists l st', loop_go (fuel_of s) s now false c cur
                = (l, match nth_error items c with Some x => [(now, x)] | None => [] end, st',
                   match nth_error items c with Some _ => S c | None => c end) /\
  match nth_error items c with
  | Some _ => st' = false /\ exists l', l = Some l' /\ li_mode l' = LEmit
  | None => st' = true /\ l = None
  end.
Proof.
  intros (Hf & Hk) Hs Hon. destruct (fuel_of_S s) as (f & Ef). rewrite Ef. cbn [loop_go]. rewrite Hk, Hf, Hs.
  destruct (nth_error items c) as [x|].
  - rewrite (hit_none s x Hon).
    eexists; eexists; split; [reflexivity |]. split; [reflexivity |]. eexists; split; reflexivity.
  - eexists; eexists; split; [reflexivity |]. split; reflexivity.
Qed.

Lemma ack_prog items s s' d : iter_cfg items s -> ss_sync s = false -> ss_stop_on s = None ->
  ss_count s <= length items -> prog items s -> s_step s SAck = (s', d) ->
  prog items s' /\ (ss_count s' = length items \/ ss_count s' = S (ss_count s)).
Proof.
  intros Hc Hs Hon Hle Hp H. pose proof Hc as (Hf & Hk). cbn [s_step] in H.
  destruct Hp as [(Hst & l & Hl & Hm) | (Hl & Hn)].
  - rewrite Hl, Hst in H. cbn [ack_first] in H. rewrite Hm, Hk in H.
    destruct (go_ctrl items s (ss_now s) (ss_count s) (li_cursor l) Hc Hs Hon) as (l1 & st1 & E & Hcase).
    rewrite E, Hf in H. inversion H; subst. cbn [upd ss_count ss_loops ss_stopped].
    destruct (nth_error items (ss_count s)) eqn:En.
    + destruct Hcase as (A & l' & B & M). subst. split; [| right; reflexivity].
      left. split; [reflexivity |]. exists l'. split; [reflexivity | exact M].
    + destruct Hcase as (A & B). subst. apply nth_error_None in En.
      assert (ss_count s = length items) by lia.
      split; [right; split; [reflexivity | assumption] | left; assumption].
  - rewrite Hl in H. cbn [ack_first] in H. inversion H; subst. cbn [upd ss_count ss_loops].
    split; [right; split; [reflexivity | exact Hn] | left; exact Hn].
Qed.

Lemma acks_prog items n : forall s s' outs, iter_cfg items s -> ss_sync s = false -> ss_stop_on s = None ->
  ss_count s <= length items -> prog items s -> s_run s (repeat SAck n) = (s', outs) ->
  ss_count s' = length items \/ ss_count s + n <= ss_count s'.
Proof.
  induction n as [|n IH]; intros s s' outs Hc Hs Hon Hle Hp H; cbn [repeat s_run] in H.
  - inversion H; subst. right; lia.
  - destruct (s_step s SAck) as [s1 o] eqn:E1. destruct (s_run s1 (repeat SAck n)) as [s2 os] eqn:E2.
    inversion H; subst.
    assert (Hc1 : iter_cfg items s1) by (eapply iter_cfg_stable; [eapply s_step_cfg; eauto | exact Hc]).
    assert (Hs1 : ss_sync s1 = false).
    { destruct (s_step_cfg _ _ _ _ E1) as (_ & _ & A & _). congruence. }
    assert (Hon1 : ss_stop_on s1 = None).
    { destruct (s_step_cfg _ _ _ _ E1) as (_ & _ & _ & A). congruence. }
    destruct (ack_prog _ _ _ _ Hc Hs Hon Hle Hp E1) as (Hp1 & Hcnt).
    assert (Hle1 : ss_count s1 <= length items) by (destruct Hcnt; lia || (
      pose proof (iter_count_mono items [SAck] s s1 [o] Hc Hle) as M; cbn [s_run] in M; rewrite E1 in M;
      specialize (M eq_refl); lia)).
    pose proof (iter_count_mono items _ _ _ _ Hc1 Hle1 E2) as M2.
    destruct (IH _ _ _ Hc1 Hs1 Hon1 Hle1 Hp1 E2) as [A | A]; [left; exact A |].
    destruct Hcnt as [B | B]; [left; lia | right; lia].
Qed.

Lemma start_prog items s s1 o : iter_cfg items s -> ss_sync s = false -> ss_stop_on s = None ->
  ss_stopped s = true -> ss_loops s = [] -> ss_count s <= length items ->
  s_step s SStart = (s1, o) -> prog items s1 /\ ss_count s1 <= length items.
Proof.
  intros Hc Hs Hon Hst Hl Hle E1. pose proof Hc as (Hf & Hk).
  cbn [s_step] in E1. rewrite Hst, Hf, Hl in E1. cbn [andb negb] in E1.
  destruct (go_ctrl items s (ss_now s) (ss_count s) 0 Hc Hs Hon) as (l1 & st1 & E & Hcase).
  destruct (nth_error items (ss_count s)) eqn:En.
  - destruct Hcase as (A & l' & B & M). subst. rewrite E in E1. inversion E1; subst.
    cbn [upd ss_count ss_loops ss_stopped app].
    destruct (nth_error_firstn_S _ _ _ En) as (_ & L). split; [| exact L].
    left. split; [reflexivity |]. exists l'. split; [reflexivity | exact M].
  - destruct Hcase as (A & B). subst. rewrite E in E1. inversion E1; subst.
    unfold prog. cbn [upd ss_count ss_loops ss_stopped app]. apply nth_error_None in En.
    split; [right; split; [reflexivity | lia] | lia].
Qed.

Theorem from_iterable_complete_controlled : forall items n s outs, length items <= n ->
  s_run (s_init true (SIterable items) false None) (SStart :: repeat SAck n) = (s, outs) ->
  map snd (concat outs) = items.
Proof.
  intros items n s outs Hn H. eapply from_iterable_complete; [exact H |].
  destruct (from_iterable_exact _ _ _ _ _ _ H) as (_ & Hub).
  cbn [s_run] in H. destruct (s_step (s_init true (SIterable items) false None) SStart) as [s1 o] eqn:E1.
  destruct (s_run s1 (repeat SAck n)) as [s2 os] eqn:E2. inversion H; subst.
  assert (Hc0 : iter_cfg items (s_init true (SIterable items) false None)) by (split; reflexivity).
  assert (Hc1 : iter_cfg items s1) by (eapply iter_cfg_stable; [eapply s_step_cfg; eauto | exact Hc0]).
  assert (Hs1 : ss_sync s1 = false).
  { destruct (s_step_cfg _ _ _ _ E1) as (_ & _ & A & _). rewrite A. reflexivity. }
  assert (Hon1 : ss_stop_on s1 = None).
  { destruct (s_step_cfg _ _ _ _ E1) as (_ & _ & _ & A). rewrite A. reflexivity. }
  destruct (start_prog items _ _ _ Hc0 eq_refl eq_refl eq_refl eq_refl (Nat.le_0_l _) E1) as (Hp1 & Hle1).
  destruct (acks_prog items n _ _ _ Hc1 Hs1 Hon1 Hle1 Hp1 E2) as [A | A]; lia.
Qed.

(* ---------------------------------------------------------------------------------------------------- *)
(* 9. stop() called by the consumer from inside its callback (ss_stop_on = Some v)                       *)
(*    after the element that triggers it nothing is delivered until a start; any state, both variants    *)
(* ---------------------------------------------------------------------------------------------------- *)

Definition hitv (on : option Z) (x : Z) : bool := match on with Some v => Z.eqb x v | None => false end.

Lemma hit_hitv s x : hit s x = hitv (ss_stop_on s) x.
Proof. reflexivity. Qed.

(* within one burst of deliveries, the element that triggers the consumer's stop() is the last one *)
Fixpoint quiet_after_hit (on : option Z) (dl : list (Z * Z)) : Prop :=
  match dl with
  | [] => True
  | p :: r => (hitv on (snd p) = true -> r = []) /\ quiet_after_hit on r
  end.

Definition hit_in (on : option Z) (dl : list (Z * Z)) : bool := existsb (fun p => hitv on (snd p)) dl.

(* a piece of execution that starts with the flag st, delivers dl and ends with the flag st' *)
Definition Sil (on : option Z) (st : bool) (dl : list (Z * Z)) (st' : bool) : Prop :=
  quiet_after_hit on dl /\ (hit_in on dl = true -> st' = true) /\ (st = true -> dl = [] /\ st' = true).

Lemma Sil_refl on st : Sil on st [] st.
Proof. split; [exact I |]. split; [discriminate | auto]. Qed.

Lemma Sil_nil_true on st : Sil on st [] true.
Proof. split; [exact I |]. split; [discriminate | auto]. Qed.

Lemma quiet_after_hit_app on : forall d1 d2,
  quiet_after_hit on d1 -> (hit_in on d1 = true -> d2 = []) -> quiet_after_hit on d2 ->
  quiet_after_hit on (d1 ++ d2).
Proof.
  induction d1 as [|p r IH]; intros d2 H1 H12 H2; cbn [app]; [exact H2 |].
  cbn [quiet_after_hit] in *. destruct H1 as (A & B). split.
  - intros Hh. rewrite (A Hh). cbn [app]. apply H12. unfold hit_in. cbn [existsb]. rewrite Hh. reflexivity.
  - apply IH; [exact B | | exact H2]. intros Hr. apply H12. unfold hit_in in *. cbn [existsb]. rewrite Hr.
    apply orb_true_r.
Qed.

Lemma Sil_trans on st d1 st1 d2 st2 : Sil on st d1 st1 -> Sil on st1 d2 st2 -> Sil on st (d1 ++ d2) st2.
Proof.
  intros (Q1 & H1 & T1) (Q2 & H2 & T2). split; [| split].
  - apply quiet_after_hit_app; [exact Q1 | | exact Q2]. intros Hh. apply T2. apply H1. exact Hh.
  - unfold hit_in in *. rewrite existsb_app. intros Hh. apply orb_true_iff in Hh. destruct Hh as [Hh | Hh].
    + apply T2. apply H1. exact Hh.
    + apply H2. exact Hh.
  - intros Hst. destruct (T1 Hst) as (A & B). destruct (T2 B) as (C & D). subst. split; reflexivity.
Qed.

Lemma Sil_force on st dl st' : Sil on st dl st' -> Sil on st dl true.
Proof. intros (Q & H & T). split; [exact Q |]. split; [reflexivity |]. intros Hst. destruct (T Hst). auto. Qed.

Lemma Sil_single on now x : Sil on false [(now, x)] (hitv on x).
Proof.
  split; [| split].
  - cbn [quiet_after_hit]. auto.
  - unfold hit_in. cbn [existsb snd]. rewrite orb_false_r. auto.
  - discriminate.
Qed.

Lemma loop_go_sil s : forall fuel now st c cur l dl st' c',
  loop_go fuel s now st c cur = (l, dl, st', c') -> Sil (ss_stop_on s) st dl st'.
Proof.
  induction fuel as [|fuel IH]; intros now st c cur l dl st' c' H; cbn [loop_go] in H.
  - inversion H; subst. apply Sil_refl.
  - destruct st; [inversion H; subst; apply Sil_refl |].
    destruct (ss_kind s) as [poll | items].
    + destruct (ss_sync s); inversion H; subst; rewrite hit_hitv; apply Sil_single.
    + destruct (nth_error items (if ss_fixed s then c else cur)) as [x|].
      * destruct (ss_sync s).
        -- destruct (loop_go fuel s now (hit s x) (if ss_fixed s then S c else c) (S cur))
             as [[[l1 dl1] st1] c1] eqn:E1.
           inversion H; subst. apply IH in E1. rewrite hit_hitv in E1.
           change ((now, x) :: dl1) with ([(now, x)] ++ dl1).
           eapply Sil_trans; [apply Sil_single | exact E1].
        -- inversion H; subst. rewrite hit_hitv. apply Sil_single.
      * inversion H; subst. apply Sil_nil_true.
Qed.

Lemma resume_due_sil s now : forall loops st c loops' dl st' c',
  resume_due s now loops st c = (loops', dl, st', c') -> Sil (ss_stop_on s) st dl st'.
Proof.
  induction loops as [|l rest IH]; intros st c loops' dl st' c' H; cbn [resume_due] in H.
  - inversion H; subst. apply Sil_refl.
  - destruct (li_mode l) as [u|].
    + destruct (u <=? now)%Z.
      * destruct (loop_go (fuel_of s) s now st c (li_cursor l)) as [[[l1 dl1] st1] c1] eqn:E1.
        destruct (resume_due s now rest st1 c1) as [[[r2 dl2] st2] c2] eqn:E2.
        inversion H; subst. eapply Sil_trans; [eapply loop_go_sil; eauto | eapply IH; eauto].
      * destruct (resume_due s now rest st c) as [[[r2 dl2] st2] c2] eqn:E2.
        inversion H; subst. eapply IH; eauto.
    + destruct (resume_due s now rest st c) as [[[r2 dl2] st2] c2] eqn:E2.
      inversion H; subst. eapply IH; eauto.
Qed.

Lemma ack_first_sil s : forall loops st c loops' dl st' c',
  ack_first s loops st c = (loops', dl, st', c') -> Sil (ss_stop_on s) st dl st'.
Proof.
  induction loops as [|l rest IH]; intros st c loops' dl st' c' H; cbn [ack_first] in H.
  - inversion H; subst. apply Sil_refl.
  - destruct (li_mode l) as [u|].
    + destruct (ack_first s rest st c) as [[[r2 dl2] st2] c2] eqn:E2.
      inversion H; subst. eapply IH; eauto.
    + destruct (ss_kind s).
      * inversion H; subst. apply Sil_refl.
      * destruct (loop_go (fuel_of s) s (ss_now s) st c (li_cursor l)) as [[[l1 dl1] st1] c1] eqn:E1.
        apply loop_go_sil in E1. inversion H; subst.
        destruct (ss_fixed s); [exact E1 |]. destruct l1; [exact E1 | eapply Sil_force; exact E1].
Qed.

Lemma spawn_go_sil s now : forall n st c ls dl st' c',
  spawn_go n s now st c = (ls, dl, st', c') -> Sil (ss_stop_on s) st dl st'.
Proof.
  induction n as [|n IH]; intros st c ls dl st' c' H; cbn [spawn_go] in H.
  - inversion H; subst. apply Sil_refl.
  - destruct (loop_go (fuel_of s) s now st c 0) as [[[l1 dl1] st1] c1] eqn:E1.
    destruct (spawn_go n s now _ c1) as [[[ls2 dl2] st2] c2] eqn:E2.
    apply loop_go_sil in E1. apply IH in E2. inversion H; subst.
    eapply Sil_trans; [| exact E2].
    destruct (ss_fixed s); [exact E1 |].
    destruct l1; [exact E1 |]. destruct (ss_kind s); [exact E1 | eapply Sil_force; exact E1].
Qed.

Lemma s_tick_sil s s' d : s_tick s = (s', d) -> Sil (ss_stop_on s) (ss_stopped s) d (ss_stopped s').
Proof.
  unfold s_tick.
  destruct (resume_due s (ss_now s + 1) (ss_loops s) (ss_stopped s) (ss_count s)) as [[[lo dl] st] c] eqn:E.
  intros H; inversion H; subst. cbn [upd ss_stopped]. eapply resume_due_sil; eauto.
Qed.

Lemma s_adv_sil n : forall s s' d, s_adv n s = (s', d) -> Sil (ss_stop_on s) (ss_stopped s) d (ss_stopped s').
Proof.
  induction n as [|n IH]; intros s s' d H; cbn [s_adv] in H.
  - inversion H; subst. apply Sil_refl.
  - destruct (s_tick s) as [s1 d1] eqn:E1. destruct (s_adv n s1) as [s2 d2] eqn:E2.
    inversion H; subst. destruct (s_tick_cfg _ _ _ E1) as (_ & _ & _ & A).
    apply IH in E2. rewrite A in E2. eapply Sil_trans; [eapply s_tick_sil; eauto | exact E2].
Qed.

(* one step: the trigger is the last delivery of the step and the source is stopped when the step ends *)
Definition Sil2 (on : option Z) (dl : list (Z * Z)) (st' : bool) : Prop :=
  quiet_after_hit on dl /\ (hit_in on dl = true -> st' = true).

Lemma Sil_Sil2 on st dl st' : Sil on st dl st' -> Sil2 on dl st'.
Proof. intros (Q & H & _). split; assumption. Qed.

Lemma Sil2_nil on st : Sil2 on [] st.
Proof. split; [exact I | discriminate]. Qed.

Lemma s_step_sil s a s' d : s_step s a = (s', d) -> Sil2 (ss_stop_on s) d (ss_stopped s').
Proof.
  intros H. destruct a; cbn [s_step] in H.
  - destruct (ss_stopped s).
    + destruct (ss_fixed s && negb match ss_loops s with [] => true | _ :: _ => false end).
      * inversion H; subst. apply Sil2_nil.
      * destruct (loop_go (fuel_of s) s (ss_now s) false (ss_count s) 0) as [[[l dl] st] c] eqn:E.
        apply loop_go_sil in E. inversion H; subst. cbn [upd ss_stopped].
        eapply Sil_Sil2. destruct (ss_fixed s); [exact E |].
        destruct l; [exact E |]. destruct (ss_kind s); [exact E | eapply Sil_force; exact E].
    + inversion H; subst. apply Sil2_nil.
  - destruct (ss_stopped s); inversion H; subst; apply Sil2_nil.
  - destruct (ack_first s (ss_loops s) (ss_stopped s) (ss_count s)) as [[[lo dl] st] c] eqn:E.
    inversion H; subst. cbn [upd ss_stopped]. eapply Sil_Sil2. eapply ack_first_sil; eauto.
  - eapply Sil_Sil2. eapply s_adv_sil; eauto.
  - unfold s_multi in H.
    destruct (multi_flags (ss_fixed s) calls (ss_stopped s) (negb (no_loops s)) 0) as [st n].
    destruct (spawn_go n s (ss_now s) st (ss_count s)) as [[[ls dl] st'] c] eqn:E.
    inversion H; subst. cbn [upd ss_stopped]. eapply Sil_Sil2. eapply spawn_go_sil; eauto.
Qed.

Lemma quiet_after_hit_last v : forall d, quiet_after_hit (Some v) d -> In v (map snd d) ->
  exists pre t, d = pre ++ [(t, v)] /\ ~ In v (map snd pre).
Proof.
  induction d as [|[t0 v0] r IH]; intros Q Hin; [destruct Hin |].
  cbn [quiet_after_hit snd hitv] in Q. destruct Q as (A & B).
  destruct (Z.eqb_spec v0 v) as [E | NE].
  - subst v0. rewrite (A eq_refl). exists [], t0. split; [reflexivity | intros []].
  - cbn [map snd In] in Hin. destruct Hin as [Hin | Hin]; [congruence |].
    destruct (IH B Hin) as (pre & t & E & NI). exists ((t0, v0) :: pre), t. split.
    + rewrite E. reflexivity.
    + cbn [map snd In]. intros [X | X]; [congruence | exact (NI X)].
Qed.

Lemma hit_in_In v : forall d, In v (map snd d) -> hit_in (Some v) d = true.
Proof.
  induction d as [|[t0 v0] r IH]; intros Hin; [destruct Hin |].
  unfold hit_in in *. cbn [existsb]. cbn [map snd In] in Hin. apply orb_true_iff. destruct Hin as [E | Hin].
  - left. subst. cbn [snd hitv]. apply Z.eqb_refl.
  - right. apply IH. exact Hin.
Qed.

(* ANY state (reachable or not, either variant, any number of live loops), any action: if the step hands the
   consumer the element v on which it calls stop(), that delivery is the last one of the step, the source is
   stopped when the step ends, and every continuation without a (possible) start delivers nothing *)
Theorem stop_inside_callback_silences_any : forall s v a s1 d cont s2 outs,
  ss_stop_on s = Some v -> s_step s a = (s1, d) -> In v (map snd d) ->
  Forall (fun a => quiet a = true) cont -> s_run s1 cont = (s2, outs) ->
  (exists pre t, d = pre ++ [(t, v)] /\ ~ In v (map snd pre)) /\
  ss_stopped s1 = true /\ concat outs = [] /\ ss_stopped s2 = true.
Proof.
  intros s v a s1 d cont s2 outs Hon H Hin Hq Hr.
  destruct (s_step_sil _ _ _ _ H) as (Q & Hh). rewrite Hon in Q, Hh.
  split; [apply quiet_after_hit_last; assumption |].
  assert (S1 : ss_stopped s1 = true) by (apply Hh; apply hit_in_In; exact Hin).
  split; [exact S1 |]. eapply quiet_run_stopped; eauto.
Qed.

(* the same along every history from the initial state: from_periodic and from_iterable, synchronous and
   controlled sink, repaired and as-found code *)
Theorem stop_inside_callback_silences : forall fx k sync v hist a cont s0 outs0 s1 d s2 outs,
  s_run (s_init fx k sync (Some v)) hist = (s0, outs0) ->
  s_step s0 a = (s1, d) -> In v (map snd d) ->
  Forall (fun a => quiet a = true) cont -> s_run s1 cont = (s2, outs) ->
  (exists pre t, d = pre ++ [(t, v)] /\ ~ In v (map snd pre)) /\
  ss_stopped s1 = true /\ concat outs = [] /\ ss_stopped s2 = true.
Proof.
  intros fx k sync v hist a cont s0 outs0 s1 d s2 outs H0. eapply stop_inside_callback_silences_any.
  destruct (s_run_cfg _ _ _ _ H0) as (_ & _ & _ & A). rewrite A. reflexivity.
Qed.

(* ---------------------------------------------------------------------------------------------------- *)
(* 10. Back-to-back calls: a single call in a callback is the plain action                               *)
(* ---------------------------------------------------------------------------------------------------- *)

Theorem multi_single_start : forall s, s_step s (SMulti [CStart]) = s_step s SStart.
Proof.
  intros [fx k sy now st loops cnt on]. cbn [s_step]. unfold s_multi, no_loops.
  cbn [ss_fixed ss_stopped ss_loops ss_now ss_count multi_flags].
  destruct st.
  - destruct loops as [|l0 r0]; cbn [negb andb].
    + rewrite andb_false_r. cbn [spawn_go ss_fixed ss_kind].
      destruct (loop_go _ _ now false cnt 0) as [[[l dl] st1] c1].
      rewrite !app_nil_r. reflexivity.
    + rewrite andb_true_r. destruct fx.
      * cbn [spawn_go]. rewrite app_nil_r. reflexivity.
      * cbn [spawn_go ss_fixed ss_kind].
        destruct (loop_go _ _ now false cnt 0) as [[[l dl] st1] c1].
        rewrite !app_nil_r. reflexivity.
  - cbn [spawn_go]. rewrite app_nil_r. reflexivity.
Qed.

Theorem multi_single_stop : forall s, s_step s (SMulti [CStop]) = s_step s SStop.
Proof.
  intros [fx k sy now st loops cnt on]. cbn [s_step]. unfold s_multi.
  cbn [ss_fixed ss_stopped ss_loops ss_now ss_count multi_flags].
  rewrite spawn_go_stopped. rewrite app_nil_r. destruct st; reflexivity.
Qed.

(* the repaired code: while a polling loop is alive, back-to-back calls only move the flag (to what the last
   call says); nothing is delivered and no loop is added *)
Theorem multi_with_live_loop : forall s calls, ss_fixed s = true -> ss_loops s <> [] ->
  s_step s (SMulti calls) =
    (upd s (ss_now s) (match calls with [] => ss_stopped s | _ :: _ => flag_of (last calls CStop) end)
         (ss_loops s) (ss_count s), []).
Proof.
  intros s calls Hf Hl. cbn [s_step]. unfold s_multi. rewrite Hf.
  destruct (multi_flags true calls (ss_stopped s) (negb (no_loops s)) 0) as [st n] eqn:EF.
  pose proof (multi_flags_last _ _ _ _ _ _ _ EF) as E1.
  apply multi_flags_fixed in EF. destruct EF as (A & _).
  unfold no_loops in A. destruct (ss_loops s) as [|l0 r0] eqn:EL; [congruence |].
  rewrite A by reflexivity. cbn [spawn_go]. rewrite app_nil_r, E1. reflexivity.
Qed.

(* ---------------------------------------------------------------------------------------------------- *)
(* Non-vacuity: concrete histories                                                                       *)
(* ---------------------------------------------------------------------------------------------------- *)

Example c18_nonvacuous :
  (* periodic (poll 3, synchronous sink): stop immediately followed by start while the loop sleeps; later a stop
     that the loop notices at its wake-up (it exits), and a fresh start: the polls happen at 0, 3, 6, 11 *)
  s_run (s_init true (SPeriodic 3) true None)
        [SStart; SAdv 1; SStop; SStart; SAdv 2; SAdv 3; SStop; SAdv 5; SStart]
  = ({| ss_fixed := true; ss_kind := SPeriodic 3; ss_sync := true; ss_now := 11%Z; ss_stopped := false;
        ss_loops := [{| li_mode := LSleep 14; li_cursor := 0 |}]; ss_count := 4; ss_stop_on := None |},
     [[(0, 1)]; []; []; []; [(3, 2)]; [(6, 3)]; []; []; [(11, 4)]])%Z
  (* the same history on the code as found: the restart spawns a second loop, polls at 0, 1, 3, 4, 6, 11 *)
  /\ map fst (concat (snd (s_run (s_init false (SPeriodic 3) true None)
        [SStart; SAdv 1; SStop; SStart; SAdv 2; SAdv 3; SStop; SAdv 5; SStart]))) = [0; 1; 3; 4; 6; 11]%Z
  (* periodic with a controlled sink: the sleep starts at the ack *)
  /\ concat (snd (s_run (s_init true (SPeriodic 3) false None)
        [SStart; SAdv 1; SStop; SStart; SAck; SAdv 2; SAdv 3; SAck; SStop; SAdv 5; SStart]))
     = [(0, 1); (4, 2); (11, 3)]%Z
  (* an iterable with a controlled sink, stopped and restarted in the middle: 10, 20, 30 exactly once *)
  /\ s_run (s_init true (SIterable [10; 20; 30]%Z) false None)
        [SStart; SAck; SStop; SAck; SAdv 4; SStart; SAck; SAck; SStart]
  = ({| ss_fixed := true; ss_kind := SIterable [10; 20; 30]%Z; ss_sync := false; ss_now := 4%Z;
        ss_stopped := true; ss_loops := []; ss_count := 3; ss_stop_on := None |},
     [[(0, 10)]; [(0, 20)]; []; []; []; [(4, 30)]; []; []; []])%Z
  (* the same on the code as found: the restart re-iterates from the beginning *)
  /\ map snd (concat (snd (s_run (s_init false (SIterable [10; 20; 30]%Z) false None)
        [SStart; SAck; SStop; SAck; SAdv 4; SStart; SAck; SAck; SStart]))) = [10; 20; 10; 20; 30]%Z.
Proof. vm_compute. repeat split. Qed.

(* the consumer calls stop() from inside its callback: all four combinations source x sink (the same histories were
   run on the real code by harness/srcfam.py, with the same result) *)
Example stop_inside_callback_nonvacuous :
  (* from_periodic (poll 3), synchronous sink, stop() at the element 2: the loop still sleeps, then exits; nothing
     until the start at 10, which continues with 3 *)
  snd (s_run (s_init true (SPeriodic 3) true (Some 2%Z))
        [SStart; SAdv 3; SAdv 3; SAck; SStop; SMulti [CStart; CStop]; SAdv 4; SStart; SAdv 3])
    = [[(0, 1)]; [(3, 2)]; []; []; []; []; []; [(10, 3)]; [(13, 4)]]%Z
  (* from_periodic, controlled sink, stop() at the element 1 *)
  /\ snd (s_run (s_init true (SPeriodic 3) false (Some 1%Z)) [SStart; SAck; SAdv 5; SStart; SAdv 1])
    = [[(0, 1)]; []; []; [(5, 2)]; []]%Z
  (* from_iterable, synchronous sink, stop() at 11: the burst ends there; the next start delivers the rest *)
  /\ snd (s_run (s_init true (SIterable [10; 11; 12; 13]%Z) true (Some 11%Z))
        [SStart; SAdv 2; SAck; SMulti [CStart; CStop]; SStart])
    = [[(0, 10); (0, 11)]; []; []; []; [(2, 12); (2, 13)]]%Z
  (* from_iterable, controlled sink, stop() at 11; restarted by back-to-back stop(); start() *)
  /\ snd (s_run (s_init true (SIterable [10; 11; 12; 13]%Z) false (Some 11%Z))
        [SStart; SAck; SAck; SAdv 2; SMulti [CStop; CStart]; SAck; SAck])
    = [[(0, 10)]; [(0, 11)]; []; []; [(2, 12)]; [(2, 13)]; []]%Z
  (* the hypotheses of stop_inside_callback_silences are met by the first history: the step SAdv 3 delivers 2 *)
  /\ (exists s0 outs0 s1 d,
        s_run (s_init true (SPeriodic 3) true (Some 2%Z)) [SStart] = (s0, outs0) /\
        s_step s0 (SAdv 3) = (s1, d) /\ In 2%Z (map snd d) /\
        Forall (fun a => quiet a = true) [SAdv 3; SAck; SStop; SMulti [CStart; CStop]; SAdv 4]).
Proof.
  repeat split; try (vm_compute; reflexivity).
  eexists; eexists; eexists; eexists. split; [vm_compute; reflexivity |].
  split; [vm_compute; reflexivity |]. split; [vm_compute; auto |].
  repeat constructor.
Qed.

(* back-to-back calls: start(); stop() on an idle source does nothing; start(); stop(); start() starts ONE loop
   (two on the code as found); with a live loop only the flag moves *)
Example back_to_back_nonvacuous :
  s_run (s_init true (SPeriodic 3) true None)
        [SMulti [CStart; CStop]; SAdv 5; SMulti [CStart; CStop; CStart]; SAdv 3; SMulti [CStop; CStart];
         SMulti [CStart; CStop]; SAdv 3; SAdv 3]
  = ({| ss_fixed := true; ss_kind := SPeriodic 3; ss_sync := true; ss_now := 14%Z; ss_stopped := true;
        ss_loops := []; ss_count := 2; ss_stop_on := None |},
     [[]; []; [(5, 1)]; [(8, 2)]; []; []; []; []])%Z
  /\ snd (s_run (s_init false (SPeriodic 3) true None)
        [SMulti [CStart; CStop]; SAdv 5; SMulti [CStart; CStop; CStart]; SAdv 3; SMulti [CStop; CStart];
         SMulti [CStart; CStop]; SAdv 3; SAdv 3])
     = [[]; []; [(5, 1); (5, 2)]; [(8, 3); (8, 4)]; [(8, 5)]; []; []; []]%Z.
Proof. vm_compute. repeat split. Qed.

Print Assumptions one_loop.
Print Assumptions one_loop_refuted.
Print Assumptions one_loop_refuted_back_to_back.
Print Assumptions no_new_cycle_after_stop.
Print Assumptions no_new_cycle_after_stop_any.
Print Assumptions no_new_cycle_after_stop_literal_refuted.
Print Assumptions back_to_back_stop_last_is_silent.
Print Assumptions stop_inside_callback_silences_any.
Print Assumptions stop_inside_callback_silences.
Print Assumptions multi_single_start.
Print Assumptions multi_single_stop.
Print Assumptions multi_with_live_loop.
Print Assumptions from_iterable_complete_sync_needs_passive_consumer.
Print Assumptions start_started_noop.
Print Assumptions stop_stopped_noop.
Print Assumptions from_iterable_exact.
Print Assumptions from_iterable_backpressure.
Print Assumptions from_iterable_next_only_after_ack.
Print Assumptions from_iterable_complete.
Print Assumptions from_iterable_sync_single_start.
Print Assumptions from_iterable_complete_sync.
Print Assumptions from_iterable_complete_controlled.
Print Assumptions periodic_values.
Print Assumptions periodic_values_any.
Print Assumptions periodic_spacing_gen.
Print Assumptions periodic_spacing.
Print Assumptions periodic_spacing_asfound_refuted.
Print Assumptions c18_nonvacuous.
Print Assumptions stop_inside_callback_nonvacuous.
Print Assumptions back_to_back_nonvacuous.
