(* Base/BridgeAggs.v — the aggregation classes regenerated from streamz/dataframe/aggregations.py on every run
   (Gen/KA_*.v, harness/gen_aggs.py) ARE the hand-written model DF/Agg.v (repaired variant).

   The generated definitions are written over an abstract pandas interface (Base/AggPrims.v); here the interface is
   instantiated with the mini-model of DF/Frames.v (`frames_ops c` = the streaming Series holding column c,
   `frames_vops cs` = the streaming DataFrame with columns cs) and every generated function is proved equal to the
   corresponding field of the model's `aggregation` record.  An edit of an aggregation class changes a generated file,
   and the lemma about it stops checking.

   The proofs do not walk the generated terms: they unfold both sides, split on every test that is still in the goal
   (whatever its spelling), and decide the leaves by `lia` (counts), `ring` / `field` (exact rationals) or computation,
   after discarding the leaves whose assumptions contradict each other.  A tidy-up of the source that changes nothing
   observable (locals renamed or inlined, operands of + swapped, a test inverted with the branches swapped, a guard that
   only skips adding zero, ...) therefore still bridges; see harness/aggs_acceptance.py. *)
From Coq Require Import List ZArith QArith Qcanon Bool Lia.
From SZ Require Import Base.BridgeTac Base.AggPrims.
From SZ Require Import Gen.KA_Sum Gen.KA_Count Gen.KA_Size Gen.KA_Mean Gen.KA_Var Gen.KA_Accumulator.
From SZ Require Import DF.Frames DF.Agg.
Import ListNotations.

(* ---- the pandas interface, as modelled by DF/Frames.v ---- *)
Definition frames_ops (c : nat) : pd_ops :=
  mk_pd_ops frame (fun f => Z.of_nat (length f)) (fun f => psize (col c f)) (fun f => psum (col c f))
            (fun f => psumsq (col c f)) (fun f => pcount (col c f)) (fun _ => [])
            (fun n f => firstn (Z.to_nat n) f) (fun n f => skipn (Z.to_nat n) f).

(* a float result as the model's `option Qc` (None = NaN; the model does not tell an infinity from NaN) *)
Definition f2o (r : fnum) : option Qc := match r with FNum q => Some q | _ => None end.
Definition res_o {S} (p : S * fnum) : S * option Qc := (fst p, f2o (snd p)).

(* ---- tactics ---- *)
Lemma zq_is_z2qc : zq = z2qc. Proof. reflexivity. Qed.

Lemma z2qc_neq0 n : n <> 0%Z -> z2qc n <> Q2Qc 0.
Proof. intros H E. apply H, z2qc_eq0, E. Qed.

(* use what has been decided about a test wherever the test occurs again *)
Ltac use_hyps := repeat match goal with
  | H : ?c = true |- context [?c] => rewrite H
  | H : ?c = false |- context [?c] => rewrite H
  end.
(* one step of float arithmetic / pair projections; a zero test on an injected integer is the integer's zero test *)
Ltac fstep :=
  cbn [fdiv fmul fsub fadd fneg flift2 f2o res_o feqb andb orb negb fst snd];
  rewrite ?z2qc_eqb0, ?z2qc_eqb; use_hyps.
Ltac split1 := match goal with |- context [if ?c then _ else _] => let a := bool_atom c in destruct a eqn:? end.
Ltac fcrunch := repeat (fstep; try split1).

(* integer arguments of z2qc that are equal (given what the path assumes) but spelled differently *)
Ltac zq_unify := repeat match goal with
  | |- context [z2qc ?a] =>
    match goal with
    | |- context [z2qc ?b] => first [ constr_eq a b; fail 1 | replace (z2qc a) with (z2qc b) by (f_equal; lia) ]
    end
  end.
Ltac q_side := repeat split; try (apply z2qc_neq0; lia); try (intro; lia).
Ltac q_leaf := change zq with z2qc in *; zq_unify; first [ reflexivity | ring | field; q_side ].
(* constructors only: never take an arithmetic expression apart *)
Ltac congr := repeat match goal with
  | |- Some _ = Some _ => f_equal
  | |- (_, _) = (_, _) => f_equal
  | |- FNum _ = FNum _ => f_equal
  | |- _ :: _ = _ :: _ => f_equal
  end.
Ltac aleaf :=
  try reflexivity; try (exfalso; bool_hyps; lia); bool_hyps; congr;
  first [ reflexivity | lia | q_leaf ].

(* a batch is empty or not; its length is only known to be positive in the second case *)
Ltac frames_open :=
  cbn [frames_ops ser p_len p_size p_sum p_sumsq p_count p_empty
       on_new on_old initial sum_s count_s size_s mean_s var_s nonempty
       repaired mean_hack var_raises andb];
  unfold res_o, dup, mean_finish, var_finish, compute_result, qdivz;
  cbn [repaired mean_hack var_raises andb].
Ltac by_batch new :=
  destruct new as [|r new];
  [ unfold col, psumsq, sq, psize; cbn [length Z.of_nat map psum pcount nonempty]
  | cbn [nonempty];
    let L := fresh "L" in let HL := fresh "HL" in
    set (L := Z.of_nat (length (r :: new)));
    assert (HL : (0 < L)%Z) by (subst L; cbn [length]; lia);
    clearbody L ];
  frames_open; fcrunch; aleaf.

(* ---------------------------------------------------------------------------------------------------- Sum *)
Lemma bridge_sum_on_new c acc new : Some (gen_sum_on_new (frames_ops c) acc new) = on_new (sum_s c) acc new.
Proof. unfold gen_sum_on_new. frames_open. by_batch new. Qed.
Lemma bridge_sum_on_old c acc old : Some (gen_sum_on_old (frames_ops c) acc old) = on_old (sum_s c) acc old.
Proof. unfold gen_sum_on_old. frames_open. by_batch old. Qed.
Lemma bridge_sum_initial c new : gen_sum_initial (frames_ops c) new = initial (sum_s c) new.
Proof. unfold gen_sum_initial. frames_open. by_batch new. Qed.

(* ---------------------------------------------------------------------------------------------------- Count *)
Lemma bridge_count_on_new c acc new : Some (gen_count_on_new (frames_ops c) acc new) = on_new (count_s c) acc new.
Proof. unfold gen_count_on_new. frames_open. by_batch new. Qed.
Lemma bridge_count_on_old c acc old : Some (gen_count_on_old (frames_ops c) acc old) = on_old (count_s c) acc old.
Proof. unfold gen_count_on_old. frames_open. by_batch old. Qed.
Lemma bridge_count_initial c new : gen_count_initial (frames_ops c) new = initial (count_s c) new.
Proof. unfold gen_count_initial. frames_open. by_batch new. Qed.

(* ---------------------------------------------------------------------------------------------------- Size *)
Lemma bridge_size_on_new c acc new : Some (gen_size_on_new (frames_ops c) acc new) = on_new (size_s c) acc new.
Proof. unfold gen_size_on_new. frames_open. by_batch new. Qed.
Lemma bridge_size_on_old c acc old : Some (gen_size_on_old (frames_ops c) acc old) = on_old (size_s c) acc old.
Proof. unfold gen_size_on_old. frames_open. by_batch old. Qed.
Lemma bridge_size_initial c new : gen_size_initial (frames_ops c) new = initial (size_s c) new.
Proof. unfold gen_size_initial. frames_open. by_batch new. Qed.

(* ---------------------------------------------------------------------------------------------------- Mean *)
(* `_divide(totals, counts)` on numbers is the model's qdivz: NaN exactly when the count is 0 *)
Lemma bridge_divide c totals counts : f2o (gen_divide (frames_ops c) totals counts) = qdivz totals counts.
Proof. unfold gen_divide. frames_open. fcrunch; aleaf. Qed.
Lemma bridge_mean_on_new c acc new :
  Some (res_o (gen_mean_on_new (frames_ops c) acc new)) = on_new (mean_s c repaired) acc new.
Proof. destruct acc as [t n]. unfold gen_mean_on_new. frames_open. by_batch new. Qed.
Lemma bridge_mean_on_old c acc old :
  Some (res_o (gen_mean_on_old (frames_ops c) acc old)) = on_old (mean_s c repaired) acc old.
Proof. destruct acc as [t n]. unfold gen_mean_on_old. frames_open. by_batch old. Qed.
Lemma bridge_mean_initial c new : gen_mean_initial (frames_ops c) new = initial (mean_s c repaired) new.
Proof. unfold gen_mean_initial. frames_open. by_batch new. Qed.

(* ---------------------------------------------------------------------------------------------------- Var *)
(* `_compute_result(x, x2, n)` on numbers.  At n = ddof <> 0 the code divides by zero (numpy: NaN or an infinity, no
   exception); the model says NaN for both, and so does f2o. *)
Lemma bridge_var_compute_result c ddof x x2 n :
  f2o (gen_var_compute_result (frames_ops c) ddof x x2 n) = compute_result ddof x x2 n.
Proof. unfold gen_var_compute_result. frames_open. fcrunch; aleaf. Qed.

(* The model's state carries one more component than the code's: `py` = "the three statistics are still the python
   ints of `initial`" (it only matters for the as-found variant, where 0/0 on python ints raised).  The generated
   on_new / on_old compute the other three and the result; py becomes false as soon as a non-empty batch is seen. *)
Definition var_py (py : bool) (b : frame) : bool := if nonempty b then false else py.
Lemma bridge_var_on_new c ddof x x2 n py new :
  Some (let p := gen_var_on_new (frames_ops c) ddof (x, x2, n) new in ((fst p, var_py py new), f2o (snd p)))
  = on_new (var_s c repaired ddof) (x, x2, n, py) new.
Proof. unfold gen_var_on_new, var_py. frames_open. by_batch new. Qed.
Lemma bridge_var_on_old c ddof x x2 n py old :
  Some (let p := gen_var_on_old (frames_ops c) ddof (x, x2, n) old in ((fst p, var_py py old), f2o (snd p)))
  = on_old (var_s c repaired ddof) (x, x2, n, py) old.
Proof. unfold gen_var_on_old, var_py. frames_open. by_batch old. Qed.
Lemma bridge_var_initial c ddof new : (gen_var_initial (frames_ops c) new, true) = initial (var_s c repaired ddof) new.
Proof. unfold gen_var_initial. frames_open. by_batch new. Qed.

(* ---------------------------------------------------------------------------------------------------- accumulator *)
(* `accumulator(acc, new, agg)`: generic in the aggregation.  The model's on_new is option-valued (None = the call
   raised, used by the as-found variants); for an aggregation whose on_new is total - all repaired ones, by the lemmas
   above - the generated accumulator over the total function is the model's. *)
Lemma bridge_accumulator {S R} (agg : aggregation S R) (f : S -> frame -> S * R) :
  (forall s b, on_new agg s b = Some (f s b)) ->
  forall acc new, Some (gen_accumulator (initial agg) f acc new) = accumulator agg acc new.
Proof. intros Hf acc new. unfold gen_accumulator, accumulator. destruct acc; rewrite Hf; reflexivity. Qed.

(* `diff_expanding(dfs, new)` is the first step of the model's window_accumulator_expanding: the batch is kept unless it
   is empty, and nothing is ever handed to on_old *)
Lemma bridge_diff_expanding c dfs new :
  gen_diff_expanding (frames_ops c) dfs new = (if nonempty new then dfs ++ [new] else dfs, []).
Proof. unfold gen_diff_expanding. frames_open. by_batch new. Qed.
