(* Base/BridgeAggsWindow.v — the aggregation classes regenerated from streamz/dataframe/aggregations.py on every run
   (Gen/KA_*.v, harness/gen_aggs.py) ARE the aggregations of the window model DF/Window.v (C07), repaired variant
   (`mean_agg true true`, `var_agg true true ddof`: scalar path, repaired Mean / Var).

   DF/Window.v has its own frame type (one numeric cell per row) and keeps, per aggregation, the state transformers
   `on_new` / `on_old` and a separate function `fin` from the state to the emitted value; the python methods return
   the pair (state, value).  Each lemma therefore says: the first component of the generated function is the model's
   transformer, and the second is `fin` of that new state.  Here an infinity is not identified with NaN (`var_fin`
   yields OInf for a non-zero numerator over n - ddof = 0), so the float results are compared exactly.

   Same proof method as Base/BridgeAggs.v: unfold, split on every test in the goal, decide the leaves. *)
From Coq Require Import List ZArith QArith Qcanon Bool Lia.
From SZ Require Import Base.BridgeTac Base.AggPrims.
From SZ Require Import Gen.KA_Sum Gen.KA_Count Gen.KA_Size Gen.KA_Mean Gen.KA_Var Gen.KA_Accumulator.
From SZ Require Import DF.Window.
Import ListNotations.

Definition window_ops : pd_ops :=
  mk_pd_ops frame (fun f => zlen f) psize psum psumsq pcount (fun _ => [])
            (fun n f => firstn (Z.to_nat n) f) (fun n f => skipn (Z.to_nat n) f).

Definition f2onum (r : fnum) : onum := match r with FNum q => ONum q | FNan => ONan | FInf => OInf end.

(* ---- tactics (see Base/BridgeAggs.v) ---- *)
Lemma z2qc_neq0 n : n <> 0%Z -> z2qc n <> Q2Qc 0.
Proof. intros H E. apply H, z2qc_eq0, E. Qed.

Ltac use_hyps := repeat match goal with
  | H : ?c = true |- context [?c] => rewrite H
  | H : ?c = false |- context [?c] => rewrite H
  end.
Ltac fstep :=
  cbn [fdiv fmul fsub fadd fneg flift2 f2onum feqb andb orb negb fst snd];
  rewrite ?z2qc_eqb0, ?z2qc_eqb; use_hyps.
Ltac split1 := match goal with
  | |- context [if ?c then _ else _] =>
    let a := bool_atom c in
    lazymatch a with
    | (if Qc_eq_dec ?x ?y then _ else _) => destruct (Qc_eq_dec x y)
    | _ => destruct a eqn:?
    end
  end.
Ltac fcrunch := repeat (fstep; try split1).

Ltac zq_unify := repeat match goal with
  | |- context [z2qc ?a] =>
    match goal with
    | |- context [z2qc ?b] => first [ constr_eq a b; fail 1 | replace (z2qc a) with (z2qc b) by (f_equal; lia) ]
    end
  end.
Ltac q_side := repeat split; try (apply z2qc_neq0; lia); try (intro; lia).
Ltac q_leaf := zq_unify; first [ reflexivity | ring | field; q_side ].
Ltac congr := repeat match goal with
  | |- (_, _) = (_, _) => f_equal
  | |- ONum _ = ONum _ => f_equal
  | |- _ /\ _ => split
  end.
(* two spellings of the same rational, one assumed zero and the other assumed non-zero *)
Ltac qc_hyps := repeat match goal with
  | H : Qc_eq_bool _ _ = true |- _ => apply Qc_eq_bool_true in H
  | H : Qc_eq_bool _ _ = false |- _ => apply Qc_eq_bool_false in H
  end.
Ltac q_contra := exfalso; qc_hyps; match goal with
  | H : ?a <> ?b, E : ?a' = ?b |- _ => apply H; transitivity a'; [ q_leaf | exact E ]
  end.
Ltac aleaf :=
  try reflexivity; try (exfalso; bool_hyps; lia); try solve [q_contra]; bool_hyps; congr;
  first [ reflexivity | lia | q_leaf ].

Ltac window_open :=
  unfold Qc_eq_bool;
  cbn [window_ops ser p_len p_size p_sum p_sumsq p_count p_empty
       St init on_new on_old fin sum_agg count_agg size_agg mean_agg var_agg isnil
       andb negb fst snd];
  unfold mean_fix_count, mean_fin, var_fin, zlen, psize, q0, q1; change z2q with z2qc in *;
  cbn [andb negb fst snd].
Ltac by_batch new :=
  destruct new as [|r new];
  [ cbn [length Z.of_nat psum pcount psumsq fold_right isnil zlen]
  | cbn [isnil];
    let L := fresh "L" in let HL := fresh "HL" in
    set (L := Z.of_nat (length (r :: new)));
    assert (HL : (0 < L)%Z) by (subst L; cbn [length]; lia);
    clearbody L ];
  window_open; fcrunch; aleaf.

(* ---------------------------------------------------------------------------------------------------- Sum *)
Lemma bridge_w_sum_on_new acc new :
  fst (gen_sum_on_new window_ops acc new) = on_new sum_agg acc new /\
  ONum (snd (gen_sum_on_new window_ops acc new)) = fin sum_agg (on_new sum_agg acc new).
Proof. unfold gen_sum_on_new. window_open. by_batch new. Qed.
Lemma bridge_w_sum_on_old acc old :
  fst (gen_sum_on_old window_ops acc old) = on_old sum_agg acc old /\
  ONum (snd (gen_sum_on_old window_ops acc old)) = fin sum_agg (on_old sum_agg acc old).
Proof. unfold gen_sum_on_old. window_open. by_batch old. Qed.
Lemma bridge_w_sum_initial new : gen_sum_initial window_ops new = init sum_agg.
Proof. unfold gen_sum_initial. window_open. by_batch new. Qed.

(* ---------------------------------------------------------------------------------------------------- Count *)
Lemma bridge_w_count_on_new acc new :
  fst (gen_count_on_new window_ops acc new) = on_new count_agg acc new /\
  ONum (z2qc (snd (gen_count_on_new window_ops acc new))) = fin count_agg (on_new count_agg acc new).
Proof. unfold gen_count_on_new. window_open. by_batch new. Qed.
Lemma bridge_w_count_on_old acc old :
  fst (gen_count_on_old window_ops acc old) = on_old count_agg acc old /\
  ONum (z2qc (snd (gen_count_on_old window_ops acc old))) = fin count_agg (on_old count_agg acc old).
Proof. unfold gen_count_on_old. window_open. by_batch old. Qed.
Lemma bridge_w_count_initial new : gen_count_initial window_ops new = init count_agg.
Proof. unfold gen_count_initial. window_open. by_batch new. Qed.

(* ---------------------------------------------------------------------------------------------------- Size *)
Lemma bridge_w_size_on_new acc new :
  fst (gen_size_on_new window_ops acc new) = on_new size_agg acc new /\
  ONum (z2qc (snd (gen_size_on_new window_ops acc new))) = fin size_agg (on_new size_agg acc new).
Proof. unfold gen_size_on_new. window_open. by_batch new. Qed.
Lemma bridge_w_size_on_old acc old :
  fst (gen_size_on_old window_ops acc old) = on_old size_agg acc old /\
  ONum (z2qc (snd (gen_size_on_old window_ops acc old))) = fin size_agg (on_old size_agg acc old).
Proof. unfold gen_size_on_old. window_open. by_batch old. Qed.
Lemma bridge_w_size_initial new : gen_size_initial window_ops new = init size_agg.
Proof. unfold gen_size_initial. window_open. by_batch new. Qed.

(* ---------------------------------------------------------------------------------------------------- Mean *)
Lemma bridge_w_divide totals counts : f2onum (gen_divide window_ops totals counts) = mean_fin (totals, counts).
Proof. unfold gen_divide. window_open. fcrunch; aleaf. Qed.
Lemma bridge_w_mean_on_new acc new :
  fst (gen_mean_on_new window_ops acc new) = on_new (mean_agg true true) acc new /\
  f2onum (snd (gen_mean_on_new window_ops acc new)) = fin (mean_agg true true) (on_new (mean_agg true true) acc new).
Proof. destruct acc as [t n]. unfold gen_mean_on_new. window_open. by_batch new. Qed.
Lemma bridge_w_mean_on_old acc old :
  fst (gen_mean_on_old window_ops acc old) = on_old (mean_agg true true) acc old /\
  f2onum (snd (gen_mean_on_old window_ops acc old)) = fin (mean_agg true true) (on_old (mean_agg true true) acc old).
Proof. destruct acc as [t n]. unfold gen_mean_on_old. window_open. by_batch old. Qed.
Lemma bridge_w_mean_initial new : gen_mean_initial window_ops new = init (mean_agg true true).
Proof. unfold gen_mean_initial. window_open. by_batch new. Qed.

(* ---------------------------------------------------------------------------------------------------- Var *)
Lemma bridge_w_var_compute_result ddof x x2 n :
  f2onum (gen_var_compute_result window_ops ddof x x2 n) = var_fin ddof (x, x2, n).
Proof. unfold gen_var_compute_result. window_open. fcrunch; aleaf. Qed.
Lemma bridge_w_var_on_new ddof acc new :
  fst (gen_var_on_new window_ops ddof acc new) = on_new (var_agg true true ddof) acc new /\
  f2onum (snd (gen_var_on_new window_ops ddof acc new))
  = fin (var_agg true true ddof) (on_new (var_agg true true ddof) acc new).
Proof. destruct acc as [[x x2] n]. unfold gen_var_on_new. window_open. by_batch new. Qed.
Lemma bridge_w_var_on_old ddof acc old :
  fst (gen_var_on_old window_ops ddof acc old) = on_old (var_agg true true ddof) acc old /\
  f2onum (snd (gen_var_on_old window_ops ddof acc old))
  = fin (var_agg true true ddof) (on_old (var_agg true true ddof) acc old).
Proof. destruct acc as [[x x2] n]. unfold gen_var_on_old. window_open. by_batch old. Qed.
Lemma bridge_w_var_initial ddof new : gen_var_initial window_ops new = init (var_agg true true ddof).
Proof. unfold gen_var_initial. window_open. by_batch new. Qed.
(* the repaired Var never raises on the python ints of `initial` *)
Lemma bridge_w_var_total ddof : raises_on_pyint (var_agg true true ddof) = false.
Proof. reflexivity. Qed.

(* ---------------------------------------------------------------------------------------------------- expanding() *)
(* `diff_expanding(dfs, new)` is the model's diff for the expanding window *)
Lemma bridge_w_diff_expanding dfs new : Some (gen_diff_expanding window_ops dfs new) = diff WE dfs new.
Proof. unfold gen_diff_expanding. cbn [diff]. window_open. by_batch new. Qed.
