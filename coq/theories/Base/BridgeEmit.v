(* Bridge between `Stream._emit`, `Stream._retain_refs`, `Stream._release_refs` regenerated from the source under test on
   every run (Gen/KN__refs.v, Gen/KN__emit.v, written by harness/gen_emit.py in the monad of Base/MiniPyW.v) and the
   hand-written model of Sync/Pipeline.v: [retain], [release], [deliver], [push].

   1. gen_retain_refs / gen_release_refs are the model's retain / release (and never raise).
   2. The model's [deliver] is one call of the downstream's update ([call_update], which logs the call, evaluates the
      node's update and runs its action list with the recursive emit) followed by the release that follows the call in
      _emit - unless the call unwinds (SRaise from a node that is not a coroutine, SFuel), in which case there is no release
      and every later downstream is skipped ([deliver_call_release], [deliver_stop]).
   3. One turn of the loop of _emit is the model's [hand]: the test `downstream not in self.downstreams` is [attached]
      (membership in [downs] of the world at the time of the test); a child that has left the live set since the snapshot
      was taken is not called and the reference retained for it is released; otherwise the turn is [deliver].
   4. One unfolding of [push] is the generated _emit with `downstream.update` instantiated by [call_update] over the
      recursive push and `self.downstreams` read through [downs] ([bridge_emit]).

   An edit of the source that changes what these methods do changes the generated terms, and these proofs stop checking. *)
From Coq Require Import List ZArith Bool Arith Lia.
From SZ Require Import Base.Values Sync.Nodes Sync.Pipeline Base.MiniPyW.
From SZ Require Import Gen.KN__refs.
Import ListNotations.
Close Scope Z_scope.
Open Scope nat_scope.

(* ---- _retain_refs / _release_refs ------------------------------------------------------------------------------ *)
(* strong form: the generated helper returns (no KeyError) in exactly the model's world *)
(* a loop that carries no local and whose iteration never raises is a fold over the worlds *)
Lemma wfor_fold {A} (f : world -> A -> world) (body : A -> unit -> W unit) :
  (forall a w, body a tt w = WRet tt (f w a)) -> forall l w, wfor l tt body w = WRet tt (fold_left f l w).
Proof.
  intros H. induction l as [|a l IH]; intros w; cbn [wfor fold_left]; [reflexivity|].
  unfold wbind. rewrite H. apply IH.
Qed.
Lemma wbind_run {A B} (m : W A) (k : A -> W B) w a w' : m w = WRet a w' -> wbind m k w = k a w'.
Proof. intros H. unfold wbind. rewrite H. reflexivity. Qed.

(* the helper is its loop (whatever the shape of one iteration: guard, inverted guard with pass, guard with continue,
   a local for m['ref'], ...): one iteration is decided by splitting on `'ref' in m` *)
Ltac refs_loop f :=
  match goal with |- context [wfor ?l tt ?body] =>
    let H := fresh "H" in
    assert (H : forall a w0, body a tt w0 = WRet tt (f w0 a))
      by (intros a w0; cbv [wbind wret wlift wmod mdi_has_ref mdi_ref rc_retain rc_release negb];
          destruct (mref a); reflexivity);
    first [ erewrite wbind_run by (apply wfor_fold, H) | rewrite (wfor_fold f body H) ]
  end; reflexivity.

Theorem bridge_run_retain_refs : forall m n w, gen_body__retain_refs m n w = WRet tt (retain w m n).
Proof.
  intros m n w. unfold gen_body__retain_refs, retain.
  refs_loop (fun (w : world) (i : mdi) => if mref i then retain1 w (mid i) n else w).
Qed.

Theorem bridge_run_release_refs : forall m n w, gen_body__release_refs m n w = WRet tt (release w m n).
Proof.
  intros m n w. unfold gen_body__release_refs, release.
  refs_loop (fun (w : world) (i : mdi) => if mref i then release1 w (mid i) n else w).
Qed.

(* the literal form *)
Theorem bridge_retain_refs : forall w m n, gen_retain_refs w m n = retain w m n.
Proof. intros. unfold gen_retain_refs. rewrite bridge_run_retain_refs. reflexivity. Qed.

Theorem bridge_release_refs : forall w m n, gen_release_refs w m n = release w m n.
Proof. intros. unfold gen_release_refs. rewrite bridge_run_release_refs. reflexivity. Qed.

(* ---- deliver = call ; release ---------------------------------------------------------------------------------- *)
From SZ Require Import Sync.PushSpec.
From SZ Require Import Gen.KN__emit.

(* One `downstream.update(x, who=n, metadata=m)` call, WITHOUT the release that follows it in _emit: log the call,
   evaluate the node's update, run its action list with the emit of the downstream.  A coroutine node captures an
   exception in the future it returns (SFailed); any other node lets it propagate (SRaise). *)
Definition call_update (emitfrom : nat -> world -> val -> md -> world * status) (g : graph) (depth n : nat)
           (d : nat) (w : world) (x : val) (m : md) : world * status :=
  let nd := gnode g d in
  let coro := is_coroutine (nkind nd) in
  let w := wlog w {| e_depth := depth; e_src := n; e_dst := d; e_val := x; e_md := m |} in
  match update (nkind nd) (nst w d) (index_of n (ups nd)) x m with
  | None => (w, if coro then SFailed else SRaise)
  | Some acts =>
      let '(w, s') := run_actions (emitfrom d) coro d acts w in
      (w, match s' with SRaise => if coro then SFailed else SRaise | _ => s' end)
  end.

(* the callee of _emit at node n: the downstream's own _emit is the recursive push *)
Definition call_update_of (fuel : nat) (g : graph) (depth n : nat) : nat -> world -> val -> md -> world * status :=
  call_update (fun d => push fuel g (S depth) d) g depth n.

(* the hand model's deliver is the call followed by the release; when the call unwinds (an exception from a node that is
   not a coroutine, or fuel) there is no release.  A returned failed awaitable (SFailed) does not prevent the release. *)
Theorem deliver_call_release : forall emitfrom g depth n x m w s d, status_go s = true ->
  deliver emitfrom g depth n x m (w, s) d =
  let '(w', s') := call_update emitfrom g depth n d w x m in
  if status_go s' then (release w' m 1, status_join s s') else (w', s').
Proof.
  intros emitfrom g depth n x m w s d Hs. unfold deliver, call_update. rewrite Hs. cbv zeta.
  destruct (update _ _ _ x m) as [acts|].
  - destruct (run_actions _ _ d acts _) as [w' s'].
    destruct s', (is_coroutine (nkind (gnode g d))); cbn; try reflexivity; destruct s; try discriminate; reflexivity.
  - destruct (is_coroutine (nkind (gnode g d))); cbn; try reflexivity; destruct s; try discriminate; reflexivity.
Qed.

(* once a call has unwound, the remaining downstreams are not called *)
Theorem deliver_stop : forall emitfrom g depth n x m w s d, status_go s = false ->
  deliver emitfrom g depth n x m (w, s) d = (w, s).
Proof. intros. unfold deliver. rewrite H. reflexivity. Qed.

Lemma fold_deliver_stop emitfrom g depth n x m ds : forall w s, status_go s = false ->
  fold_left (deliver emitfrom g depth n x m) ds (w, s) = (w, s).
Proof.
  induction ds as [|d ds IH]; intros w s H; cbn [fold_left]; [reflexivity|].
  rewrite deliver_stop by exact H. apply IH, H.
Qed.

(* what the call returns: it unwinds exactly with SRaise (not a coroutine) or SFuel *)
Lemma call_update_coroutine emitfrom g depth n d w x m :
  is_coroutine (nkind (gnode g d)) = true -> snd (call_update emitfrom g depth n d w x m) <> SRaise.
Proof.
  intros H. unfold call_update. rewrite H. cbv zeta.
  destruct (update _ _ _ x m) as [acts|]; [|cbn; discriminate].
  destruct (run_actions _ _ d acts _) as [w' s']. destruct s'; cbn; discriminate.
Qed.

(* ---- the loop of _emit ------------------------------------------------------------------------------------------- *)
Lemma status_go_join s s' : status_go s = true -> status_go s' = true -> status_go (status_join s s') = true.
Proof. destruct s, s'; cbn; congruence. Qed.

(* symbolic execution of the straight-line part of a generated method *)
Lemma wrun_assoc {A B} (m : W A) (f : A -> W B) (k : B -> W aws) w :
  wrun (wbind (wbind m f) k) w = wrun (wbind m (fun a => wbind (f a) k)) w.
Proof. unfold wrun, wbind. destruct (m w); reflexivity. Qed.
Lemma wrun_ret {A} (a : A) (k : A -> W aws) w : wrun (wbind (wret a) k) w = wrun (k a) w.
Proof. reflexivity. Qed.
Lemma wrun_rd {A} (f : world -> A) (k : A -> W aws) w : wrun (wbind (wrd f) k) w = wrun (k (f w)) w.
Proof. reflexivity. Qed.
Lemma wrun_retain_refs m n (k : unit -> W aws) w :
  wrun (wbind (gen_body__retain_refs m n) k) w = wrun (k tt) (retain w m n).
Proof. unfold wrun, wbind. rewrite bridge_run_retain_refs. reflexivity. Qed.
Lemma wrun_release_refs m n (k : unit -> W aws) w :
  wrun (wbind (gen_body__release_refs m n) k) w = wrun (k tt) (release w m n).
Proof. unfold wrun, wbind. rewrite bridge_run_release_refs. reflexivity. Qed.
Lemma wrun_tail (m : W aws) w : wrun (wbind m (fun st => wret (aws_drop_none st))) w = wrun m w.
Proof. unfold wrun, wbind. destruct (m w); reflexivity. Qed.
Ltac wstep := repeat (first [rewrite wrun_assoc | rewrite wrun_rd | rewrite wrun_ret | rewrite wrun_retain_refs
                             | rewrite wrun_release_refs]; cbv beta).

Lemma fold_hand_stop emitfrom g depth n x m ds : forall w s, status_go s = false ->
  fold_left (hand emitfrom g depth n x m) ds (w, s) = (w, s).
Proof.
  induction ds as [|d ds IH]; intros w s H; cbn [fold_left]; [reflexivity|].
  rewrite hand_stop by exact H. apply IH, H.
Qed.

(* what one iteration of the loop has to be, whatever its shape in the source: the membership test on the CURRENT world;
   when the child is still there, the call followed - when the call returned - by joining what it returned to `result`
   and by the release; when it is gone, the release alone *)
Definition turn_spec emitfrom g depth n x m (body : nat -> aws -> W aws) : Prop :=
  forall d s w, body d s w =
     if node_in d (downs g w n) then
       let '(w', s') := call_update emitfrom g depth n d w x m in
       if status_go s' then WRet (status_join s s') (release w' m 1) else WExc w' s'
     else WRet s (release w m 1).

(* the loop: [body] is whatever the translator produced for one iteration *)
Lemma emit_loop emitfrom g depth n x m (body : nat -> aws -> W aws) :
  turn_spec emitfrom g depth n x m body ->
  forall ds w s, status_go s = true ->
  fold_left (hand emitfrom g depth n x m) ds (w, s) = wrun (wfor ds s body) w.
Proof.
  intros Hbody. induction ds as [|d ds IH]; intros w s Hs; cbn [fold_left wfor].
  - reflexivity.
  - unfold wrun, wbind. rewrite Hbody. change (node_in d (downs g w n)) with (attached g w n d).
    destruct (attached g w n d) eqn:Ha.
    + rewrite hand_attached by exact Ha. rewrite deliver_call_release by exact Hs.
      destruct (call_update emitfrom g depth n d w x m) as [w' s']. destruct (status_go s') eqn:Hg.
      * rewrite IH by (apply status_go_join; assumption). reflexivity.
      * apply fold_hand_stop, Hg.
    + rewrite hand_gone by assumption. rewrite IH by exact Hs. reflexivity.
Qed.

(* the part of _emit from `result = []` on: snapshot of the downstreams, loop, filtered return *)
Lemma emit_tail emitfrom g depth n x m (body : nat -> aws -> W aws) w :
  turn_spec emitfrom g depth n x m body ->
  fold_left (hand emitfrom g depth n x m) (downs g w n) (w, SOk) =
  wrun (wbind (wrd (fun w => downs g w n)) (fun ds =>
        wbind (wfor ds aws_nil body) (fun st => wret (aws_drop_none st)))) w.
Proof.
  intros Hbody. rewrite wrun_rd, wrun_tail. apply (emit_loop _ _ _ _ _ _ body Hbody). reflexivity.
Qed.

(* one iteration as the translator produced it: whatever its shape, unfold every bind, split on the membership test, on
   what the call returned (and on the uninterpreted `type(r) is list`), and compare *)
Ltac emit_body :=
  let d := fresh "d" in let s := fresh "s" in let w := fresh "w" in
  unfold turn_spec; intros d s w; cbv [wbind wcall wrd];
  match goal with |- context [node_in d ?l] => destruct (node_in d l) end;
  cbv beta iota zeta delta [negb];
  try match goal with |- context [call_update ?e ?g ?dp ?n d w ?x ?m] =>
    destruct (call_update e g dp n d w x m) as [?w2 ?s2] end;
  cbv beta iota zeta;
  try match goal with |- context [status_go ?s2] => destruct (status_go s2); [|reflexivity] end;
  repeat match goal with |- context [aw_is_list ?r] => destruct (aw_is_list r) end;
  cbv [wret aws_extend aws_append negb]; cbv beta iota zeta;
  rewrite ?bridge_run_release_refs; reflexivity.

(* ---- Stream._emit ------------------------------------------------------------------------------------------------ *)
(* general form: any emit of the downstreams *)
Theorem bridge_emit_gen : forall emitfrom g depth n w x m,
  (let ds := downs g w n in
   fold_left (hand emitfrom g depth n x m) ds (retain w m (Z.of_nat (length ds)), SOk))
  = gen_emit (fun w => downs g w n) (call_update emitfrom g depth n) w x m.
Proof.
  intros emitfrom g depth n w x m. cbv zeta. unfold gen_emit, gen_body__emit.
  destruct m as [|i m]; cbn [md_truthy negb].
  - (* `if metadata:` is False: nothing is retained and metadata = [] is passed on *)
    cbn [retain fold_left]. wstep. cbv zeta.
    apply emit_tail. emit_body.
  - (* `if metadata:` is True: every counter is retained once per downstream, before the first call *)
    set (m0 := i :: m). wstep. cbv zeta.
    rewrite <- (downs_retain g w m0 (Z.of_nat (length (downs g w n))) n) at 1.
    apply emit_tail. emit_body.
Qed.

(* Stream._emit at node n is one unfolding of the model's push: the callee is call_update over the recursive push *)
Theorem bridge_emit : forall fuel g depth n w x m,
  push (S fuel) g depth n w x m = gen_emit (fun w => downs g w n) (call_update_of fuel g depth n) w x m.
Proof. intros. unfold call_update_of. rewrite <- bridge_emit_gen. reflexivity. Qed.
