(* Bridge between `Stream._emit`, `Stream._retain_refs`, `Stream._release_refs` regenerated from the source under test on
   every run (Gen/KN__refs.v, Gen/KN__emit.v, written by harness/gen_emit.py in the monad of Base/MiniPyW.v) and the
   hand-written model of Sync/Pipeline.v: [retain], [release], [deliver], [push].

   1. gen_retain_refs / gen_release_refs are the model's retain / release (and never raise).
   2. The model's [deliver] is one call of the downstream's update ([call_update], which logs the call, evaluates the
      node's update and runs its action list with the recursive emit) followed by the release that follows the call in
      _emit - unless the call unwinds (SRaise from a node that is not a coroutine, SFuel), in which case there is no release
      and every later downstream is skipped ([deliver_call_release], [deliver_stop]).
   3. One unfolding of [push] is the generated _emit with `downstream.update` instantiated by [call_update] over the
      recursive push and `self.downstreams` read through [downs] ([bridge_emit]).

   An edit of the source that changes what these methods do changes the generated terms, and these proofs stop checking. *)
From Coq Require Import List ZArith Bool Arith Lia.
From SZ Require Import Base.Values Sync.Nodes Sync.Pipeline Base.MiniPyW.
From SZ Require Import Gen.KN__refs.
Import ListNotations.
Close Scope Z_scope.
Open Scope nat_scope.

(* ---- _retain_refs / _release_refs ------------------------------------------------------------------------------ *)
(* strong form: the generated helper returns (no KeyError) in exactly the model's world *)
Theorem bridge_run_retain_refs : forall m n w, gen_body__retain_refs m n w = WRet tt (retain w m n).
Proof.
  unfold gen_body__retain_refs, retain.
  induction m as [|i m IH]; intros n w; cbn [wfor fold_left].
  - reflexivity.
  - unfold wbind, wret in *. unfold mdi_has_ref, mdi_ref, rc_retain, wlift, wmod.
    destruct (mref i); cbn.
    + specialize (IH n (retain1 w (mid i) n)).
      destruct (wfor m tt _ (retain1 w (mid i) n)) as [[] w'|w' s'] eqn:E; [|discriminate].
      exact IH.
    + specialize (IH n w).
      destruct (wfor m tt _ w) as [[] w'|w' s'] eqn:E; [|discriminate].
      exact IH.
Qed.

Theorem bridge_run_release_refs : forall m n w, gen_body__release_refs m n w = WRet tt (release w m n).
Proof.
  unfold gen_body__release_refs, release.
  induction m as [|i m IH]; intros n w; cbn [wfor fold_left].
  - reflexivity.
  - unfold wbind, wret in *. unfold mdi_has_ref, mdi_ref, rc_release, wlift, wmod.
    destruct (mref i); cbn.
    + specialize (IH n (release1 w (mid i) n)).
      destruct (wfor m tt _ (release1 w (mid i) n)) as [[] w'|w' s'] eqn:E; [|discriminate].
      exact IH.
    + specialize (IH n w).
      destruct (wfor m tt _ w) as [[] w'|w' s'] eqn:E; [|discriminate].
      exact IH.
Qed.

(* the literal form *)
Theorem bridge_retain_refs : forall w m n, gen_retain_refs w m n = retain w m n.
Proof. intros. unfold gen_retain_refs. rewrite bridge_run_retain_refs. reflexivity. Qed.

Theorem bridge_release_refs : forall w m n, gen_release_refs w m n = release w m n.
Proof. intros. unfold gen_release_refs. rewrite bridge_run_release_refs. reflexivity. Qed.
