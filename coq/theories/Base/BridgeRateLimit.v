(* Bridge between a kernel regenerated from the source under test on every run (Gen/KRateLimit.v) and the kernel the
   hand-written model uses.  An edit to the code that changes the expression changes the generated file, and these
   proofs no longer check.  The proofs do not depend on how the source spells the computation. *)
From Coq Require Import ZArith Bool Lia Arith List.
From SZ Require Import Base.BridgeTac.
From SZ Require Import Gen.KRateLimit.
From SZ Require Import Base.Values.
From SZ Require Import Sync.Nodes.
From SZ Require Import Async.Core.
From SZ Require Import Async.RateLimit.
Import ListNotations.

(* ---- rate_limit slot reservation -------------------------------------------------------------------- *)
Lemma bridge_rl_next now next i : gen_rl_next now next i = fst (rl_slot now next i).
Proof. unfold gen_rl_next, rl_slot. cbn [fst]. zkernel. Qed.

(* the element is handed on at max(now, next): immediately when the line is idle, after the sleep otherwise *)
Lemma bridge_rl_delivery now next i :
  (if gen_rl_must_sleep now next then now + gen_rl_sleep_for now next else now)%Z = snd (rl_slot now next i).
Proof. unfold gen_rl_must_sleep, gen_rl_sleep_for, rl_slot. cbn [snd]. zkernel. Qed.

Lemma bridge_rl_step_guard (s : rst) : gen_rl_must_sleep (r_now s) (r_next s) = (r_now s <? r_next s)%Z.
Proof.
  unfold gen_rl_must_sleep. cbv zeta.
  first [ reflexivity | match goal with |- ?a = ?b => destruct a eqn:?, b eqn:? end; zleaf ].
Qed.
