(* Bridge between a kernel regenerated from the source under test on every run (Gen/KRateLimit.v) and the kernel the
   hand-written model uses.  An edit to the code that changes the expression changes the generated file, and these
   proofs no longer check. *)
From Coq Require Import ZArith Bool Lia Arith List.
From SZ Require Import Gen.KRateLimit.
From SZ Require Import Base.Values.
From SZ Require Import Sync.Nodes.
From SZ Require Import Async.Core.
From SZ Require Import Async.RateLimit.
Import ListNotations.

(* ---- rate_limit slot reservation -------------------------------------------------------------------- *)
Lemma bridge_rl_next now next i : gen_rl_next now next i = fst (rl_slot now next i).
Proof. reflexivity. Qed.

(* the element is handed on at max(now, next): immediately when the line is idle, after the sleep otherwise *)
Lemma bridge_rl_delivery now next i :
  (if gen_rl_must_sleep now next then now + gen_rl_sleep_for now next else now)%Z = snd (rl_slot now next i).
Proof.
  unfold gen_rl_must_sleep, gen_rl_sleep_for, rl_slot. cbn [snd].
  destruct (Z.ltb_spec now next); lia.
Qed.

Lemma bridge_rl_step_guard (s : rst) : gen_rl_must_sleep (r_now s) (r_next s) = (r_now s <? r_next s)%Z.
Proof. reflexivity. Qed.

