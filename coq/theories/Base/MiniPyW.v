(* MiniPyW: the world-level target language of harness/gen_emit.py.

   `Stream._emit`, `Stream._retain_refs` and `Stream._release_refs` of streamz/core.py are re-translated on every run,
   statement by statement and in source order, into terms of the monad [W] below (generated files Gen/KN__refs.v and
   Gen/KN__emit.v).  This file is hand written and fixes
     - the monad: state = the model's [world] (Sync/Pipeline.v); a computation either returns a value or UNWINDS with
       a non-normal [status] ([SRaise]: a python exception is propagating, [SFuel]: the model's recursion bound).  An
       unwinding computation skips everything that follows it ([wbind]), in particular the remaining iterations of a
       `for` loop ([wfor]) and the statements after the failing call in the same iteration;
     - how the python objects the three methods touch are represented:
         a metadata dictionary            = [mdi]   ('ref' in m = [mref m], m['ref'] = the counter [mid m])
         a RefCounter                     = its id; retain / release = the model's [retain1] / [release1]
                                            (tied to RefCounter.retain / release by Base/BridgeRefCounter.v)
         a downstream node                = its index in the graph
         what `downstream.update` returned and the list `result` of awaitables
                                          = a [status] restricted to [SOk] (no failed awaitable) / [SFailed] (a failed
                                            awaitable: an exception captured by a coroutine node).  The list itself is
                                            NOT represented: extend / append / the final `is not None` filter act on the
                                            status only.
   A python construct without a definition here does not compile (fail closed). *)
From Coq Require Import List ZArith Bool Arith.
From SZ Require Import Base.Values Sync.Nodes Sync.Pipeline.
Import ListNotations.
Close Scope Z_scope.
Open Scope nat_scope.

(* ---- the monad ----------------------------------------------------------------------------------------------- *)
Inductive wres (A : Type) :=
| WRet (a : A) (w : world)            (* returned a in world w *)
| WExc (w : world) (s : status).      (* unwinding with status s (never SOk / SFailed, see [wcall]) in world w *)
Arguments WRet {A}. Arguments WExc {A}.

Definition W (A : Type) := world -> wres A.

Definition wret {A} (a : A) : W A := fun w => WRet a w.
Definition wbind {A B} (m : W A) (k : A -> W B) : W B := fun w =>
  match m w with
  | WRet a w' => k a w'
  | WExc w' s => WExc w' s
  end.
Definition wrd {A} (f : world -> A) : W A := fun w => WRet (f w) w.
Definition wmod (f : world -> world) : W unit := fun w => WRet tt (f w).
(* an operation that may raise (KeyError, ...) *)
Definition wlift {A} (o : option A) : W A := fun w =>
  match o with Some a => WRet a w | None => WExc w SRaise end.

(* for v in l: body  -- the locals the body reassigns are threaded through as [st] *)
Fixpoint wfor {A St} (l : list A) (st : St) (body : A -> St -> W St) : W St :=
  match l with
  | [] => wret st
  | a :: t => wbind (body a st) (fun st' => wfor t st' body)
  end.

(* `continue` has no construct of its own: harness/pynorm.py turns `if c: [C;] continue` followed by B, at the top level of
   a loop body, into `if c: C else: B` before the translation; any other `continue` is refused by the translator. *)

(* `d in self.downstreams` / `d not in self.downstreams`: membership of a node in (the list read from) the live set; the
   translator reads the set at the point of the test: wrd (fun w => node_in d (downstreams w)) *)
Definition node_in (d : nat) (l : list nat) : bool := existsb (Nat.eqb d) l.

Declare Scope pyw_scope.
Delimit Scope pyw_scope with pyw.
Notation "'do' x <- m ;; k" := (wbind m (fun x => k))
  (at level 200, x name, m at level 100, k at level 200, right associativity) : pyw_scope.

(* ---- awaitables ---------------------------------------------------------------------------------------------- *)
(* what one `downstream.update(..)` returned (None, a future or a list of them) *)
Definition aw := status.
(* the local list `result` *)
Definition aws := status.
Definition aws_nil : aws := SOk.                                         (* [] *)
Definition aws_extend (l : aws) (r : aw) : aws := status_join l r.       (* l.extend(r), l += r *)
Definition aws_append (l : aws) (r : aw) : aws := status_join l r.       (* l.append(r) *)
Definition aws_drop_none (l : aws) : aws := l.                           (* [e for e in l if e is not None] *)
(* `type(r) is list`: the representation cannot tell; the bridge holds for either answer *)
Definition aw_is_list (r : aw) : bool := true.

(* r = downstream.update(x, who=self, metadata=metadata): the callee is a parameter of the generated _emit.  It either
   returns (SOk / SFailed) or the exception / fuel exhaustion unwinds through _emit. *)
Definition wcall (f : world -> world * status) : W aw := fun w =>
  let '(w', s) := f w in if status_go s then WRet s w' else WExc w' s.

(* ---- metadata ------------------------------------------------------------------------------------------------- *)
(* `if metadata:` on the argument of _emit, which is a list or None: None is represented by [] (the translator accepts
   only uses of the argument that do not tell the two apart) *)
Definition md_truthy (m : md) : bool := match m with [] => false | _ => true end.

(* ---- metadata dictionaries and reference counters -------------------------------------------------------------- *)
Definition mdi_has_ref (m : mdi) : bool := mref m.                        (* 'ref' in m *)
Definition mdi_ref (m : mdi) : option nat := if mref m then Some (mid m) else None.   (* m['ref'], KeyError if absent *)
Definition rc_retain (r : nat) (n : Z) : W unit := wmod (fun w => retain1 w r n).    (* <RefCounter>.retain(n) *)
Definition rc_release (r : nat) (n : Z) : W unit := wmod (fun w => release1 w r n).  (* <RefCounter>.release(n) *)

(* ---- running ------------------------------------------------------------------------------------------------- *)
(* _emit as a function world -> world * status: the returned list of awaitables is represented by the status only *)
Definition wrun (m : W aws) (w : world) : world * status :=
  match m w with
  | WRet s w' => (w', s)
  | WExc w' s => (w', s)
  end.
(* the world a computation ends in *)
Definition wworld {A} (r : wres A) : world := match r with WRet _ w => w | WExc w _ => w end.
