(* Bridge between a kernel regenerated from the source under test on every run (Gen/KKafka.v) and the kernel the
   hand-written model uses.  An edit to the code that changes the expression changes the generated file, and these
   proofs no longer check.  The proofs do not depend on how the source spells the computation (locals, nesting of the
   conditions, max/min instead of a conditional): they split on the conditions and decide by linear arithmetic. *)
From Coq Require Import ZArith Bool Lia Arith List.
From SZ Require Import Base.BridgeTac.
From SZ Require Import Gen.KKafka.
From SZ Require Import Ext.KafkaBatched.
Import ListNotations.

(* ---- Kafka batch clamp and commit offset ------------------------------------------------------------------ *)
Lemma bridge_kb_clamp pos low high maxb reset : gen_kb_clamp pos low high maxb reset = kb_clamp pos low high maxb reset.
Proof. unfold gen_kb_clamp, kb_clamp. zkernel. Qed.

Lemma bridge_kb_commit hi : gen_kb_commit_offset hi = (hi + 1)%Z.
Proof. unfold gen_kb_commit_offset. zkernel. Qed.
