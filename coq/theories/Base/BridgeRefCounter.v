(* Bridge between a kernel regenerated from the source under test on every run (Gen/KRefCounter.v) and the kernel the
   hand-written model uses.  An edit to the code that changes the expression changes the generated file, and these
   proofs no longer check.  The proofs do not depend on how the source spells the computation. *)
From Coq Require Import ZArith Bool Lia Arith List.
From SZ Require Import Base.BridgeTac.
From SZ Require Import Gen.KRefCounter.
From SZ Require Import Base.Values.
From SZ Require Import Sync.Nodes.
From SZ Require Import Sync.Pipeline.
From SZ Require Import Async.Core.
Import ListNotations.

(* ---- RefCounter ---------------------------------------------------------------------------------------- *)
Lemma bridge_rc_retain_sync w r n : cnt (retain1 w r n) r = gen_rc_retain (cnt w r) n.
Proof. unfold gen_rc_retain. cbn. rewrite Nat.eqb_refl. zkernel. Qed.

Lemma bridge_rc_release_sync w r n :
  cnt (release1 w r n) r = fst (gen_rc_release (cnt w r) n) /\
  fired (release1 w r n) = if snd (gen_rc_release (cnt w r) n) then fired w ++ [r] else fired w.
Proof.
  unfold gen_rc_release. cbn. rewrite Nat.eqb_refl. split; zkernel.
Qed.

Lemma bridge_rc_retain_async s r n : rcnt (rc_retain1 s r n) r = gen_rc_retain (rcnt s r) n.
Proof. unfold gen_rc_retain. cbn. rewrite Nat.eqb_refl. zkernel. Qed.

Lemma bridge_rc_release_async s r n :
  rcnt (rc_release1 s r n) r = fst (gen_rc_release (rcnt s r) n) /\
  rfired (rc_release1 s r n) = if snd (gen_rc_release (rcnt s r) n) then rfired s ++ [r] else rfired s.
Proof.
  unfold gen_rc_release. cbn. rewrite Nat.eqb_refl. split; zkernel.
Qed.
