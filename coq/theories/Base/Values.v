(* Values flowing through pipelines and the shared table of user-function
   symbols.  The same table exists in harness/symbols.py; a case is pure data. *)
From Coq Require Import List ZArith Bool Lia.
Import ListNotations.
Open Scope Z_scope.

Inductive val :=
| VInt (z : Z)
| VTup (l : list val)
| VList (l : list val)
| VNone.

Fixpoint val_eqb (a b : val) {struct a} : bool :=
  let fix leqb (l1 l2 : list val) {struct l1} : bool :=
      match l1, l2 with
      | [], [] => true
      | x :: t1, y :: t2 => val_eqb x y && leqb t1 t2
      | _, _ => false
      end in
  match a, b with
  | VInt x, VInt y => Z.eqb x y
  | VTup l1, VTup l2 => leqb l1 l2
  | VList l1, VList l2 => leqb l1 l2
  | VNone, VNone => true
  | _, _ => false
  end.

Fixpoint list_eqb {A} (e : A -> A -> bool) (l1 l2 : list A) : bool :=
  match l1, l2 with
  | [], [] => true
  | x :: t1, y :: t2 => e x y && list_eqb e t1 t2
  | _, _ => false
  end.

Lemma list_eqb_spec {A} (e : A -> A -> bool) :
  (forall a b, e a b = true <-> a = b) ->
  forall l1 l2, list_eqb e l1 l2 = true <-> l1 = l2.
Proof.
  intros He. induction l1 as [|x t IH]; destruct l2 as [|y t2]; cbn; split; intros H;
    try reflexivity; try discriminate.
  - apply andb_true_iff in H as [H1 H2]. apply He in H1. apply IH in H2. congruence.
  - injection H as -> ->. apply andb_true_iff; split; [apply He | apply IH]; reflexivity.
Qed.

(* python: iterating a value (flatten / starmap / sum) *)
Definition items (v : val) : option (list val) :=
  match v with
  | VTup l | VList l => Some l
  | _ => None
  end.

(* deep sum of all integers inside a value (python: harness.symbols.deep_sum) *)
Fixpoint deep_sum (v : val) : Z :=
  let fix go (l : list val) : Z :=
      match l with [] => 0 | x :: t => deep_sum x + go t end in
  match v with
  | VInt z => z
  | VTup l | VList l => go l
  | VNone => 0
  end.

(* ---- unary function symbols ------------------------------------------- *)
Inductive fn1 :=
| FId
| FInc
| FDouble
| FNeg
| FAddK (k : Z)
| FModK (k : Z)            (* k > 0 *)
| FDeepSum                 (* any value -> int *)
| FPair                    (* x -> (x, x+1)  for ints *)
| FRange                   (* x -> [0 .. x mod 3)  list, for flatten *)
| FFailIn (bad : list Z) (f : fn1).   (* raises when the deep sum of the argument is in bad *)

Fixpoint interp1 (f : fn1) (v : val) : option val :=
  match f with
  | FId => Some v
  | FInc => match v with VInt z => Some (VInt (z + 1)) | _ => None end
  | FDouble => match v with VInt z => Some (VInt (2 * z)) | _ => None end
  | FNeg => match v with VInt z => Some (VInt (- z)) | _ => None end
  | FAddK k => match v with VInt z => Some (VInt (z + k)) | _ => None end
  | FModK k => match v with VInt z => Some (VInt (z mod k)) | _ => None end
  | FDeepSum => Some (VInt (deep_sum v))
  | FPair => match v with VInt z => Some (VTup [VInt z; VInt (z + 1)]) | _ => None end
  | FRange => match v with
              | VInt z => Some (VList (map (fun i => VInt (Z.of_nat i)) (seq 0 (Z.to_nat (z mod 3)))))
              | _ => None end
  | FFailIn bad g => if existsb (Z.eqb (deep_sum v)) bad then None else interp1 g v
  end.

(* ---- predicates -------------------------------------------------------- *)
Inductive pred :=
| PTrue | PFalse
| PEven                    (* deep sum even *)
| PLtK (k : Z)             (* deep sum < k *)
| PModNe (k r : Z)         (* deep sum mod k <> r *)
| PFailIn (bad : list Z) (p : pred).

Fixpoint interpP (p : pred) (v : val) : option bool :=
  match p with
  | PTrue => Some true
  | PFalse => Some false
  | PEven => Some (Z.even (deep_sum v))
  | PLtK k => Some (deep_sum v <? k)
  | PModNe k r => Some (negb (deep_sum v mod k =? r))
  | PFailIn bad q => if existsb (Z.eqb (deep_sum v)) bad then None else interpP q v
  end.

(* ---- binary functions (accumulate) ------------------------------------ *)
Inductive fn2 :=
| BAdd                      (* acc + deep_sum x, acc must be int *)
| BMax
| BSnd                      (* returns x *)
| BCountTo (k : Z)          (* (acc + 1) mod k *)
| BFailIn (bad : list Z) (f : fn2).  (* raises when deep_sum x in bad *)

Fixpoint interp2 (f : fn2) (acc x : val) : option val :=
  match f with
  | BAdd => match acc with VInt a => Some (VInt (a + deep_sum x)) | _ => None end
  | BMax => match acc with VInt a => Some (VInt (Z.max a (deep_sum x))) | _ => None end
  | BSnd => Some x
  | BCountTo k => match acc with VInt a => Some (VInt ((a + 1) mod k)) | _ => None end
  | BFailIn bad g => if existsb (Z.eqb (deep_sum x)) bad then None else interp2 g acc x
  end.

(* ---- n-ary functions (starmap): applied to the items of a tuple -------- *)
Inductive fnN :=
| NSum                      (* sum of deep sums of the args *)
| NFirst                    (* first arg; raises on () *)
| NTuple                    (* tuple(args) reversed *)
| NFailIn (bad : list Z) (f : fnN).

Fixpoint interpN (f : fnN) (args : list val) : option val :=
  match f with
  | NSum => Some (VInt (deep_sum (VTup args)))
  | NFirst => match args with a :: _ => Some a | [] => None end
  | NTuple => Some (VTup (rev args))
  | NFailIn bad g => if existsb (Z.eqb (deep_sum (VTup args))) bad then None else interpN g args
  end.

(* ---- key functions (partition / unique): never fail on our values ------ *)
Inductive keyfn :=
| KeyId
| KeyMod (k : Z)            (* deep_sum x mod k *)
| KeySum.                   (* deep_sum x *)

Definition interpK (k : keyfn) (v : val) : val :=
  match k with
  | KeyId => v
  | KeyMod m => VInt (deep_sum v mod m)
  | KeySum => VInt (deep_sum v)
  end.
