(* Base/BridgeAggsIloc.v — `diff_iloc` (the row-count window, `window(n=N)`) regenerated from aggregations.py on every run
   (Gen/KA_DiffIloc.v, harness/gen_aggs.py) IS the model's DF/Window.v diff_iloc.

   The translator turns the `while n > 0` loop into a recursive function on explicit fuel over the loop-carried variables
   (the deque, the list of decayed frames, the number of rows still to drop); `None` stands for python's IndexError on
   `dfs[0]` of an empty deque and for running out of fuel.  The lemma below proves that with the fuel the translator
   supplies (number of stored frames + 2) neither happens, for EVERY deque (also one holding empty frames), and that the
   result is the model's `drop_front`: exactly the oldest `total - N` rows leave, whole frames first, then a prefix of
   the next frame.

   The proof is by induction on the deque; inside, it splits on whatever tests the generated term and the model contain
   and closes the contradictory combinations by `lia`, so the spelling of the tests (`n > 0` / `0 < n`, `len(dfs[0]) <= n`
   / `n >= len(dfs[0])`) does not matter.  It does depend on the ORDER of the loop-carried variables (deque, decayed
   frames, counter = textual order of their first update in the loop body). *)
From Coq Require Import List ZArith QArith Qcanon Bool Lia Arith.
From SZ Require Import Base.BridgeTac Base.AggPrims.
From SZ Require Import Gen.KA_DiffIloc.
From SZ Require Import DF.Window.
From SZ Require Import Base.BridgeAggsWindow.
Import ListNotations.

Lemma total_len_cons d rest : total_len (d :: rest) = (length d + total_len rest)%nat.
Proof. unfold total_len. cbn [concat]. apply app_length. Qed.

Lemma p_total_window dfs : p_total window_ops dfs = Z.of_nat (total_len dfs).
Proof.
  induction dfs as [|d rest IH]; [reflexivity|].
  rewrite total_len_cons. change (p_total window_ops (d :: rest)) with (zlen d + p_total window_ops rest)%Z.
  rewrite IH. unfold zlen. lia.
Qed.

Lemma total_len_app dfs new : total_len (dfs ++ [new]) = (total_len dfs + length new)%nat.
Proof. unfold total_len. rewrite concat_app, app_length. cbn [concat]. rewrite app_nil_r. reflexivity. Qed.

Lemma isnil_len {A} (l : list A) : isnil l = negb (0 <? Z.of_nat (length l))%Z.
Proof. destruct l; reflexivity. Qed.

(* split on the tests of both sides, discard what contradicts *)
Ltac iloc_split :=
  repeat (match goal with
          | |- context [if ?c then _ else _] => let d := inner_if c in let a := bool_atom d in destruct a eqn:?
          end; cbn [negb andb orb]).
Ltac iloc_absurd := try (exfalso; bool_hyps; unfold zlen in *; lia).

Lemma w_iloc_loop dfs0 new w : forall dfs old z fuel,
  (Z.to_nat z <= total_len dfs)%nat -> (length dfs + 2 <= fuel)%nat ->
  gen_diff_iloc_loop window_ops dfs0 new w fuel dfs old z
  = Some (fst (drop_front dfs (Z.to_nat z)), old ++ snd (drop_front dfs (Z.to_nat z))).
Proof.
  induction dfs as [|d rest IH]; intros old z fuel Hm Hf;
    (destruct fuel as [|fuel]; [cbn [length] in Hf; lia|]);
    cbn [gen_diff_iloc_loop window_ops ser p_len p_take p_drop].
  - (* empty deque: nothing can be dropped *)
    cbn [total_len concat length] in Hm.
    destruct (Z.to_nat z) eqn:E; [|lia].
    iloc_split; iloc_absurd. cbn [drop_front fst snd]. rewrite app_nil_r. reflexivity.
  - rewrite total_len_cons in Hm. cbn [length] in Hf.
    destruct (Z.to_nat z) as [|m] eqn:E.
    + (* nothing left to drop *)
      iloc_split; iloc_absurd. cbn [drop_front fst snd]. rewrite app_nil_r. reflexivity.
    + cbn [drop_front]. rewrite <- E.
      iloc_split; iloc_absurd.
      * (* the oldest frame leaves as a whole *)
        rewrite IH by (unfold zlen in *; bool_hyps; lia).
        replace (Z.to_nat (z - zlen d)) with (Z.to_nat z - length d)%nat by (unfold zlen; lia).
        destruct (drop_front rest (Z.to_nat z - length d)) as [k o]. cbn [fst snd].
        rewrite <- app_assoc. reflexivity.
      * (* the window starts inside the oldest frame: one more call, which exits *)
        destruct fuel as [|fuel]; [lia|].
        cbn [gen_diff_iloc_loop window_ops ser p_len p_take p_drop].
        iloc_split; iloc_absurd. cbn [fst snd]. reflexivity.
Qed.

Lemma bridge_w_diff_iloc N dfs new :
  gen_diff_iloc window_ops dfs new (Z.of_nat N) = Some (diff_iloc N dfs new).
Proof.
  unfold gen_diff_iloc, diff_iloc. cbn [window_ops ser p_len].
  assert (Hloop : forall d1 : list frame,
            gen_diff_iloc_loop window_ops dfs new (Z.of_nat N) (S (S (length d1))) d1 []
              (p_total window_ops d1 - Z.of_nat N) = Some (drop_front d1 (total_len d1 - N))).
  { intro d1. rewrite p_total_window, w_iloc_loop by lia.
    replace (Z.to_nat (Z.of_nat (total_len d1) - Z.of_nat N)) with (total_len d1 - N)%nat by lia.
    destruct (drop_front d1 (total_len d1 - N)). reflexivity. }
  rewrite !Hloop, !isnil_len. unfold zlen.
  iloc_split; iloc_absurd; reflexivity.
Qed.
