(* MiniPy: the small target language of harness/gen_kernels.py (node translator).

   The `update` method of every synchronous node class of streamz/core.py is re-translated on every run, statement by
   statement and in source order, into a term of the monad [M S] below (generated files Gen/KN_<class>.v).  This file
   is hand written and fixes
     - the monad: a state [S] (the python-level attributes of the node), a log of effects ([item]: attribute write,
       _retain_refs, _release_refs, _emit, loop-iteration boundary) and exceptions;
     - [finish]: how a finished run is rendered as the `option (list action)` of Sync/Nodes.v;
     - for every class the python attributes it may touch (getters / setters / container methods) in terms of the
       model's [nstate].  A method the translator meets that has no definition here does not compile (fail closed).

   Rendering rule ([render]): python mutates attributes one statement at a time, the model commits a node's state with
   one [ASet].  Between two emissions (and between two iterations of a `while`) all writes are merged into the
   position of the LAST write of that stretch; a stateful method that never wrote commits its unchanged state once at
   the end.  An exception raised before any effect is the model's [None]; an exception after an effect is [RLate],
   which no model result equals. *)
From Coq Require Import List ZArith Bool Arith Lia.
From SZ Require Import Base.Values Sync.Nodes.
Import ListNotations.
Close Scope Z_scope.
Open Scope nat_scope.

(* ---- results ------------------------------------------------------------------------------------------------- *)
Inductive result :=
| RNone                         (* raised before any effect *)
| RSome (l : list action)       (* returned *)
| RLate (l : list action).      (* raised after the effects l: outside the model *)

Definition of_option (o : option (list action)) : result :=
  match o with Some l => RSome l | None => RNone end.
Definition to_option (r : result) : option (list action) :=
  match r with RSome l => Some l | _ => None end.
Lemma to_of_option o : to_option (of_option o) = o.
Proof. destruct o; reflexivity. Qed.

(* ---- the monad ----------------------------------------------------------------------------------------------- *)
Section Monad.
Context {PS : Type}.

Inductive item :=
| IWrite (s : PS)               (* an attribute of self was assigned / a container attribute was mutated *)
| IRetain (m : md)              (* self._retain_refs(m) *)
| IRelease (m : md)             (* self._release_refs(m) *)
| IEmit (x : val) (m : md)      (* self._emit(x, metadata=m) *)
| IBar.                         (* start of an iteration of a `while` loop *)

Inductive res (A : Type) :=
| Ok (a : A) (s : PS) (o : list item)
| Err (o : list item).
Arguments Ok {A}. Arguments Err {A}.

Definition M (A : Type) := PS -> res A.

Definition ret {A} (a : A) : M A := fun s => Ok a s [].
Definition bind {A B} (m : M A) (k : A -> M B) : M B := fun s =>
  match m s with
  | Ok a s1 o1 =>
      match k a s1 with
      | Ok b s2 o2 => Ok b s2 (o1 ++ o2)
      | Err o2 => Err (o1 ++ o2)
      end
  | Err o => Err o
  end.
Definition raise {A} : M A := fun _ => Err [].
Definition rd {A} (f : PS -> A) : M A := fun s => Ok (f s) s [].
Definition wr (f : PS -> PS) : M unit := fun s => let s' := f s in Ok tt s' [IWrite s'].
(* a container method that returns something and mutates: f s = (result, new state) *)
Definition wr_get {A} (f : PS -> option (A * PS)) : M A := fun s =>
  match f s with Some (a, s') => Ok a s' [IWrite s'] | None => Err [] end.
Definition tell (i : item) : M unit := fun s => Ok tt s [i].
Definition lift {A} (o : option A) : M A := match o with Some a => ret a | None => raise end.

(* what _emit returns (a list of awaitables): opaque *)
Definition aw := unit.
Definition emit (x : val) (m : md) : M aw := tell (IEmit x m).
Definition retain_refs (m : md) : M unit := tell (IRetain m).
Definition release_refs (m : md) : M unit := tell (IRelease m).

(* try: r = f(..) except Exception as e: logger.exception(e); raise  -- the exception propagates *)
Definition call {A} (o : option A) : M A := lift o.

(* while c: body  -- with explicit fuel; running out of fuel is an error (never equal to a model result) *)
Fixpoint while_ (fuel : nat) (c : M bool) (body : M unit) : M unit :=
  match fuel with
  | O => bind c (fun b => if b then raise else ret tt)
  | S fuel' =>
      bind c (fun b => if b then bind (tell IBar) (fun _ => bind body (fun _ => while_ fuel' c body)) else ret tt)
  end.

(* for v in l: body  -- the local variables the body reassigns are threaded through as [st] *)
Fixpoint for_ {A St} (l : list A) (st : St) (body : A -> St -> M St) : M St :=
  match l with
  | [] => ret st
  | a :: t => bind (body a st) (fun st' => for_ t st' body)
  end.

(* ---- rendering ----------------------------------------------------------------------------------------------- *)
Variable store : PS -> nstate.

Fixpoint later_write (l : list item) : bool :=
  match l with
  | [] => false
  | IWrite _ :: _ => true
  | IEmit _ _ :: _ => false
  | IBar :: _ => false
  | _ :: t => later_write t
  end.

Fixpoint render (l : list item) : list action :=
  match l with
  | [] => []
  | IWrite s :: t => if later_write t then render t else ASet (store s) :: render t
  | IRetain m :: t => ARetain m :: render t
  | IRelease m :: t => ARelease m :: render t
  | IEmit x m :: t => AEmit x m :: render t
  | IBar :: t => render t
  end.

Definition is_set (a : action) : bool := match a with ASet _ => true | _ => false end.

Definition finish (stateful : bool) (r : res unit) : result :=
  match r with
  | Ok _ s o =>
      let a := render o in
      RSome (if stateful && negb (existsb is_set a) then a ++ [ASet (store s)] else a)
  | Err [] => RNone
  | Err o => RLate (render o)
  end.

End Monad.
Arguments Ok {PS A}. Arguments Err {PS A}.
Arguments M : clear implicits.
Arguments item : clear implicits.
Arguments res : clear implicits.

Declare Scope py_scope.
Delimit Scope py_scope with py.
Notation "'do' x <- m ;; k" := (bind m (fun x => k))
  (at level 200, x name, m at level 100, k at level 200, right associativity) : py_scope.

(* ---- python builtins on values ------------------------------------------------------------------------------- *)
(* a, b = v *)
Definition unpack2 (v : val) : option (val * val) :=
  match items v with Some [a; b] => Some (a, b) | _ => None end.
(* x + args where args is a tuple: only a tuple can be added to a tuple *)
Definition tuple_add (x : val) (args : list val) : option val :=
  match x with VTup l => Some (VTup (l ++ args)) | _ => None end.
(* f( *y ): the argument is iterated *)
Definition star (y : val) : option (list val) := items y.
(* x[i] for i in l *)
Fixpoint map_opt {A B} (f : A -> option B) (l : list A) : option (list B) :=
  match l with
  | [] => Some []
  | a :: t => match f a with
              | Some b => match map_opt f t with Some r => Some (b :: r) | None => None end
              | None => None
              end
  end.
(* `self.state is no_default` on an attribute that holds a value or the sentinel *)
Definition is_no_default (o : option val) : bool := match o with None => true | Some _ => false end.
(* truthiness *)
Definition truthy_md (m : md) : bool := match m with [] => false | _ => true end.
Definition truthy_list {A} (l : list A) : bool := match l with [] => false | _ => true end.
Definition truthy_optnat (o : option nat) : bool := match o with Some (S _) => true | _ => false end.
(* [m for ml in L for m in ml] *)
Definition flatten_md (l : list md) : md := flat_map (fun x => x) l.

(* pluck.pick is an index or a list of indices *)
Definition pick_is_list (p : pick) : bool := match p with PickMany _ => true | PickOne _ => false end.
Definition pick_list (p : pick) : list nat := match p with PickMany l => l | PickOne _ => [] end.
Definition pick_one (p : pick) : nat := match p with PickOne i => i | PickMany _ => 0 end.

(* ---- attributes of the node classes -------------------------------------------------------------------------- *)
(* naming: <class>_<attribute> reads, <class>_<attribute>_set assigns, <class>_<attribute>_<method> is a container
   method.  For most classes S = nstate and store = id. *)
Definition store_id (s : nstate) : nstate := s.

(* accumulate: self.state is the model's st_acc, None = the no_default sentinel *)
Definition accumulate_state (s : nstate) : option val := st_acc s.
Definition accumulate_state_set (v : val) (s : nstate) : nstate := set_acc s (Some v).

(* ---- more builtins ------------------------------------------------------------------------------------------- *)
Definition is_none {A} (o : option A) : bool := match o with None => true | Some _ => false end.
Definition is_none_fn {A B} (o : option (A -> B)) : bool := is_none o.
(* self._key(x) where self._key may be None: calling None raises *)
Definition opt_callf {A B} (o : option (A -> B)) (a : A) : option B :=
  match o with Some f => Some (f a) | None => None end.
(* state >= end where end may be None (python 3 refuses to order an int and None; the source guards it) *)
Definition optnat_le (o : option nat) (n : nat) : bool := match o with Some e => e <=? n | None => false end.

(* ---- partition: _buffer and _metadata_buffer are defaultdict(list) with the same keys; the model keeps, per key,
        the pair (buffer, metadata buffer) in st_keyed.  Reading a missing key creates the empty entry. *)
Definition kget (k : val) (s : nstate) : list val * md :=
  match assoc_get k (st_keyed s) with Some b => b | None => ([], []) end.
Definition kput (k : val) (b : list val * md) (s : nstate) : nstate := set_keyed s (assoc_set k b (st_keyed s)).
Definition partition__buffer_touch (k : val) (s : nstate) : nstate := kput k (kget k s) s.
Definition partition__buffer_getitem (k : val) (s : nstate) : list val := fst (kget k s).
Definition partition__buffer_setitem (k : val) (v : list val) (s : nstate) : nstate := kput k (v, snd (kget k s)) s.
Definition partition__buffer_item_append (k : val) (x : val) (s : nstate) : nstate :=
  kput k (fst (kget k s) ++ [x], snd (kget k s)) s.
Definition partition__metadata_buffer_touch (k : val) (s : nstate) : nstate := kput k (kget k s) s.
Definition partition__metadata_buffer_getitem (k : val) (s : nstate) : md := snd (kget k s).
Definition partition__metadata_buffer_setitem (k : val) (v : md) (s : nstate) : nstate := kput k (fst (kget k s), v) s.
Definition partition__metadata_buffer_item_extend (k : val) (m : md) (s : nstate) : nstate :=
  kput k (fst (kget k s), snd (kget k s) ++ m) s.

(* ---- sliding_window: _buffer = deque(maxlen=n) of values (st_seen); metadata_buffer = deque(maxlen=n) of metadata
        lists: the model keeps them in st_win together with the value they arrived with (a ghost: the last element of
        _buffer at the time of the append) *)
Definition sliding_window__buffer (s : nstate) : list val := st_seen s.
Definition sliding_window__buffer_append (n : nat) (x : val) (s : nstate) : nstate :=
  set_seen s (lastn n (st_seen s ++ [x])).
Definition sliding_window_metadata_buffer (s : nstate) : list md := map snd (st_win s).
Definition sliding_window_metadata_buffer_append (n : nat) (m : md) (s : nstate) : nstate :=
  set_win s (lastn n (st_win s ++ [(last (st_seen s) VNone, m)])).
Definition sliding_window_metadata_buffer_popleft (s : nstate) : option (md * nstate) :=
  match st_win s with
  | (_, m) :: t => Some (m, set_win s t)
  | [] => None                       (* IndexError: pop from an empty deque *)
  end.

(* ---- unique (history kept as a list, most recent first) ------------------------------------------------------ *)
Definition unique_seen_contains (y : val) (s : nstate) : bool := mem_val y (st_seen s).
Definition unique_seen_remove (y : val) (s : nstate) : nstate := set_seen s (remove_val y (st_seen s)).
Definition unique_seen_insert (y : val) (s : nstate) : nstate := set_seen s (y :: st_seen s).     (* insert(0, y) *)
(* del l[k:]; del l[None:] empties the list *)
Definition unique_seen_delfrom (k : option nat) (s : nstate) : nstate :=
  set_seen s (match k with Some k => firstn k (st_seen s) | None => [] end).

(* ---- collect: cache and metadata_cache are two flat deques.  Python-level state: the values, and the metadata in
        the chunks it was extended by (metadata_cache = their concatenation).  The model pairs every value with its
        chunk; a value that came without metadata has no chunk (`if metadata:`) and is paired with []. *)
Record collect_st := { cc_cache : list val; cc_chunks : list md }.
Definition collect_load (s : nstate) : collect_st := {| cc_cache := map fst (st_win s); cc_chunks := map snd (st_win s) |}.
Definition collect_store (s : nstate) (p : collect_st) : nstate :=
  set_win s (combine (cc_cache p) (cc_chunks p ++ repeat [] (length (cc_cache p) - length (cc_chunks p)))).
Definition collect_cache (p : collect_st) : list val := cc_cache p.
Definition collect_metadata_cache (p : collect_st) : md := flatten_md (cc_chunks p).
Definition collect_cache_append (x : val) (p : collect_st) : collect_st :=
  {| cc_cache := cc_cache p ++ [x]; cc_chunks := cc_chunks p |}.
Definition collect_metadata_cache_extend (m : md) (p : collect_st) : collect_st :=
  {| cc_cache := cc_cache p; cc_chunks := cc_chunks p ++ [m] |}.
Definition collect_cache_clear (p : collect_st) : collect_st := {| cc_cache := []; cc_chunks := cc_chunks p |}.
Definition collect_metadata_cache_clear (p : collect_st) : collect_st := {| cc_cache := cc_cache p; cc_chunks := [] |}.

(* ---- slice: self.state counts the elements seen (st_n); removing itself from the upstreams = st_detached -------- *)
Definition slice_state (s : nstate) : nat := st_n s.
Definition slice_state_set (n : nat) (s : nstate) : nstate := set_n s n (st_detached s).
Definition slice_detach (s : nstate) : nstate := set_n s (st_n s) true.

(* ---- combine_latest / zip_latest: python keeps three parallel attributes
          last     : list, the latest value per upstream (None before the first)
          metadata : list, the metadata that came with it (None before the first)
          missing  : set of the upstreams that have not emitted yet
        (zip_latest also lossless_buffer, a deque of (value, metadata)).  The model keeps st_last : per upstream
        None (= missing) or Some (value, metadata), and st_win for the buffer. *)
Record latest_st := { ls_last : list val; ls_meta : list (option md); ls_missing : list bool; ls_buf : list (val * md) }.
Definition latest_val (o : option (val * md)) : val := match o with Some (v, _) => v | None => VNone end.
Definition latest_md (o : option (val * md)) : option md := option_map snd o.
Definition latest_load (s : nstate) : latest_st :=
  {| ls_last := map latest_val (st_last s); ls_meta := map latest_md (st_last s);
     ls_missing := map is_none (st_last s); ls_buf := st_win s |}.
Fixpoint latest_zip (l : list val) (m : list (option md)) (x : list bool) : list (option (val * md)) :=
  match l, m, x with
  | v :: l', om :: m', b :: x' =>
      (if b then None else Some (v, match om with Some d => d | None => [] end)) :: latest_zip l' m' x'
  | _, _, _ => []
  end.
Definition combine_latest_store (s : nstate) (p : latest_st) : nstate :=
  set_last s (latest_zip (ls_last p) (ls_meta p) (ls_missing p)).
Definition zip_latest_store (s : nstate) (p : latest_st) : nstate :=
  set_win (set_last s (latest_zip (ls_last p) (ls_meta p) (ls_missing p))) (ls_buf p).

Definition truthy_optmd (o : option md) : bool := match o with Some m => truthy_md m | None => false end.
Definition truthy_flags (l : list bool) : bool := existsb (fun b => b) l.       (* a non-empty set *)
(* [m for ml in self.metadata for m in ml]: iterating None raises *)
Fixpoint flatten_optmd (l : list (option md)) : option md :=
  match l with
  | [] => Some []
  | Some m :: t => match flatten_optmd t with Some r => Some (m ++ r) | None => None end
  | None :: _ => None
  end.

Definition ls_set_last f (p : latest_st) : latest_st :=
  {| ls_last := f (ls_last p); ls_meta := ls_meta p; ls_missing := ls_missing p; ls_buf := ls_buf p |}.
Definition ls_set_meta f (p : latest_st) : latest_st :=
  {| ls_last := ls_last p; ls_meta := f (ls_meta p); ls_missing := ls_missing p; ls_buf := ls_buf p |}.
Definition ls_set_missing f (p : latest_st) : latest_st :=
  {| ls_last := ls_last p; ls_meta := ls_meta p; ls_missing := f (ls_missing p); ls_buf := ls_buf p |}.
Definition ls_set_buf f (p : latest_st) : latest_st :=
  {| ls_last := ls_last p; ls_meta := ls_meta p; ls_missing := ls_missing p; ls_buf := f (ls_buf p) |}.

Definition combine_latest_last (p : latest_st) : list val := ls_last p.
Definition combine_latest_last_setitem (i : nat) (v : val) : latest_st -> latest_st := ls_set_last (set_nth i v).
Definition combine_latest_metadata (p : latest_st) : list (option md) := ls_meta p.
Definition combine_latest_metadata_getitem (i : nat) (p : latest_st) : option md := nth i (ls_meta p) None.
Definition combine_latest_metadata_setitem (i : nat) (m : md) : latest_st -> latest_st := ls_set_meta (set_nth i (Some m)).
Definition combine_latest_missing (p : latest_st) : list bool := ls_missing p.
Definition combine_latest_missing_contains (i : nat) (p : latest_st) : bool := nth i (ls_missing p) false.
Definition combine_latest_missing_remove (i : nat) : latest_st -> latest_st := ls_set_missing (set_nth i false).
(* self.emit_on: the upstreams that trigger an emission (all of them when the argument was None) *)
Definition combine_latest_emit_on_contains (emit_on : option (list nat)) (i : nat) : bool :=
  match emit_on with None => true | Some ps => existsb (Nat.eqb i) ps end.

Definition zip_latest_last := combine_latest_last.
Definition zip_latest_last_setitem := combine_latest_last_setitem.
Definition zip_latest_metadata := combine_latest_metadata.
Definition zip_latest_metadata_getitem := combine_latest_metadata_getitem.
Definition zip_latest_metadata_setitem := combine_latest_metadata_setitem.
Definition zip_latest_missing := combine_latest_missing.
Definition zip_latest_missing_contains := combine_latest_missing_contains.
Definition zip_latest_missing_remove := combine_latest_missing_remove.
Definition zip_latest_lossless_buffer (p : latest_st) : list (val * md) := ls_buf p.
Definition zip_latest_lossless_buffer_append (e : val * md) : latest_st -> latest_st := ls_set_buf (fun b => b ++ [e]).
Definition zip_latest_lossless_buffer_popleft (p : latest_st) : option ((val * md) * latest_st) :=
  match ls_buf p with
  | e :: t => Some (e, ls_set_buf (fun _ => t) p)
  | [] => None
  end.

(* ---- partition_unique: _buffer : dict key -> value, _metadata_buffer : dict key -> metadata (python dicts keep
        insertion order; assigning an existing key keeps its place).  The model keeps one list of
        (key, ([value], metadata)) in st_keyed. *)
Record pu_st := { pu_buf : list (val * val); pu_mbuf : list (val * md) }.
Definition pu_fb (e : val * (list val * md)) : val * val := (fst e, hd VNone (fst (snd e))).
Definition pu_fm (e : val * (list val * md)) : val * md := (fst e, snd (snd e)).
Definition partition_unique_load (s : nstate) : pu_st :=
  {| pu_buf := map pu_fb (st_keyed s); pu_mbuf := map pu_fm (st_keyed s) |}.
Definition pu_join (bm : (val * val) * (val * md)) : val * (list val * md) :=
  (fst (fst bm), ([snd (fst bm)], snd (snd bm))).
Definition partition_unique_store (s : nstate) (p : pu_st) : nstate :=
  set_keyed s (map pu_join (combine (pu_buf p) (pu_mbuf p))).
Definition partition_unique__buffer (p : pu_st) : list (val * val) := pu_buf p.
Definition partition_unique__buffer_set (d : list (val * val)) (p : pu_st) : pu_st := {| pu_buf := d; pu_mbuf := pu_mbuf p |}.
Definition partition_unique__metadata_buffer (p : pu_st) : list (val * md) := pu_mbuf p.
Definition partition_unique__metadata_buffer_set (d : list (val * md)) (p : pu_st) : pu_st := {| pu_buf := pu_buf p; pu_mbuf := d |}.
(* d.pop(k, None) *)
Definition partition_unique__buffer_pop (k : val) (p : pu_st) : option (option val * pu_st) :=
  Some (assoc_get k (pu_buf p), {| pu_buf := assoc_remove k (pu_buf p); pu_mbuf := pu_mbuf p |}).
Definition partition_unique__metadata_buffer_pop (k : val) (p : pu_st) : option (option md * pu_st) :=
  Some (assoc_get k (pu_mbuf p), {| pu_buf := pu_buf p; pu_mbuf := assoc_remove k (pu_mbuf p) |}).
Definition partition_unique__buffer_setitem (k v : val) (p : pu_st) : pu_st :=
  {| pu_buf := assoc_set k v (pu_buf p); pu_mbuf := pu_mbuf p |}.
Definition partition_unique__metadata_buffer_setitem (k : val) (m : md) (p : pu_st) : pu_st :=
  {| pu_buf := pu_buf p; pu_mbuf := assoc_set k m (pu_mbuf p) |}.
Definition partition_unique__buffer_contains (k : val) (p : pu_st) : bool := negb (is_none (assoc_get k (pu_buf p))).
Definition partition_unique__buffer_values (p : pu_st) : list val := map snd (pu_buf p).
Definition partition_unique__metadata_buffer_values (p : pu_st) : list md := map snd (pu_mbuf p).

(* ---- zip: self.buffers maps every upstream to a deque of (value, metadata); the model keeps them by position in
        st_ports.  maxsize / condition (backpressure) are not part of the synchronous model (Async/ZipBP.v). ---------- *)
Section MapM.
Context {PS : Type}.
(* [f(v) for v in l] where f reads the state or may raise *)
Fixpoint mapM {A B} (f : A -> M PS B) (l : list A) : M PS (list B) :=
  match l with
  | [] => ret []
  | a :: t => bind (f a) (fun b => bind (mapM f t) (fun r => ret (b :: r)))
  end.
End MapM.
Definition zip_upstreams (s : nstate) : list nat := seq 0 (length (st_ports s)).
Definition zip_buffers_getitem (i : nat) (s : nstate) : list (val * md) := nth i (st_ports s) [].
Definition zip_buffers_item_append (i : nat) (e : val * md) (s : nstate) : nstate :=
  set_ports s (set_nth i (nth i (st_ports s) [] ++ [e]) (st_ports s)).
Definition zip_buffers_values (s : nstate) : list (list (val * md)) := st_ports s.
(* for buf in self.buffers.values(): buf.popleft()   -- popping an empty deque raises *)
Definition zip_buffers_each_popleft (s : nstate) : option (unit * nstate) :=
  if forallb truthy_list (st_ports s) then Some (tt, set_ports s (map (@tl _) (st_ports s))) else None.
(* zip( *vals ) of a list of pairs: the tuple of first components and the tuple of second components *)
Definition unzip_pairs (l : list (val * md)) : list val * list md := (map fst l, map snd l).
