(* MiniPy: the small target language of harness/gen_kernels.py (node translator).

   The `update` method of every synchronous node class of streamz/core.py is re-translated on every run, statement by
   statement and in source order, into a term of the monad [M S] below (generated files Gen/KN_<class>.v).  This file
   is hand written and fixes
     - the monad: a state [S] (the python-level attributes of the node), a log of effects ([item]: attribute write,
       _retain_refs, _release_refs, _emit, loop-iteration boundary) and exceptions;
     - [finish]: how a finished run is rendered as the `option (list action)` of Sync/Nodes.v;
     - for every class the python attributes it may touch (getters / setters / container methods) in terms of the
       model's [nstate].  A method the translator meets that has no definition here does not compile (fail closed).

   Rendering rule ([render]): python mutates attributes one statement at a time, the model commits a node's state with
   one [ASet].  Between two emissions (and between two iterations of a `while`) all writes are merged into the
   position of the LAST write of that stretch; a stateful method that never wrote commits its unchanged state once at
   the end.  An exception raised before any effect is the model's [None]; an exception after an effect is [RLate],
   which no model result equals. *)
From Coq Require Import List ZArith Bool Arith Lia.
From SZ Require Import Base.Values Sync.Nodes.
Import ListNotations.
Close Scope Z_scope.
Open Scope nat_scope.

(* ---- results ------------------------------------------------------------------------------------------------- *)
Inductive result :=
| RNone                         (* raised before any effect *)
| RSome (l : list action)       (* returned *)
| RLate (l : list action).      (* raised after the effects l: outside the model *)

Definition of_option (o : option (list action)) : result :=
  match o with Some l => RSome l | None => RNone end.
Definition to_option (r : result) : option (list action) :=
  match r with RSome l => Some l | _ => None end.
Lemma to_of_option o : to_option (of_option o) = o.
Proof. destruct o; reflexivity. Qed.

(* ---- the monad ----------------------------------------------------------------------------------------------- *)
Section Monad.
Context {PS : Type}.

Inductive item :=
| IWrite (s : PS)               (* an attribute of self was assigned / a container attribute was mutated *)
| IRetain (m : md)              (* self._retain_refs(m) *)
| IRelease (m : md)             (* self._release_refs(m) *)
| IEmit (x : val) (m : md)      (* self._emit(x, metadata=m) *)
| IBar.                         (* start of an iteration of a `while` loop *)

Inductive res (A : Type) :=
| Ok (a : A) (s : PS) (o : list item)
| Err (o : list item).
Arguments Ok {A}. Arguments Err {A}.

Definition M (A : Type) := PS -> res A.

Definition ret {A} (a : A) : M A := fun s => Ok a s [].
Definition bind {A B} (m : M A) (k : A -> M B) : M B := fun s =>
  match m s with
  | Ok a s1 o1 =>
      match k a s1 with
      | Ok b s2 o2 => Ok b s2 (o1 ++ o2)
      | Err o2 => Err (o1 ++ o2)
      end
  | Err o => Err o
  end.
Definition raise {A} : M A := fun _ => Err [].
Definition rd {A} (f : PS -> A) : M A := fun s => Ok (f s) s [].
Definition wr (f : PS -> PS) : M unit := fun s => let s' := f s in Ok tt s' [IWrite s'].
(* a container method that returns something and mutates: f s = (result, new state) *)
Definition wr_get {A} (f : PS -> option (A * PS)) : M A := fun s =>
  match f s with Some (a, s') => Ok a s' [IWrite s'] | None => Err [] end.
Definition tell (i : item) : M unit := fun s => Ok tt s [i].
Definition lift {A} (o : option A) : M A := match o with Some a => ret a | None => raise end.

(* what _emit returns (a list of awaitables): opaque *)
Definition aw := unit.
Definition emit (x : val) (m : md) : M aw := tell (IEmit x m).
Definition retain_refs (m : md) : M unit := tell (IRetain m).
Definition release_refs (m : md) : M unit := tell (IRelease m).

(* try: r = f(..) except Exception as e: logger.exception(e); raise  -- the exception propagates *)
Definition call {A} (o : option A) : M A := lift o.

(* while c: body  -- with explicit fuel; running out of fuel is an error (never equal to a model result) *)
Fixpoint while_ (fuel : nat) (c : M bool) (body : M unit) : M unit :=
  match fuel with
  | O => bind c (fun b => if b then raise else ret tt)
  | S fuel' =>
      bind c (fun b => if b then bind (tell IBar) (fun _ => bind body (fun _ => while_ fuel' c body)) else ret tt)
  end.

(* for v in l: body  -- the local variables the body reassigns are threaded through as [st] *)
Fixpoint for_ {A St} (l : list A) (st : St) (body : A -> St -> M St) : M St :=
  match l with
  | [] => ret st
  | a :: t => bind (body a st) (fun st' => for_ t st' body)
  end.

(* ---- rendering ----------------------------------------------------------------------------------------------- *)
Variable store : PS -> nstate.

Fixpoint later_write (l : list item) : bool :=
  match l with
  | [] => false
  | IWrite _ :: _ => true
  | IEmit _ _ :: _ => false
  | IBar :: _ => false
  | _ :: t => later_write t
  end.

Fixpoint render (l : list item) : list action :=
  match l with
  | [] => []
  | IWrite s :: t => if later_write t then render t else ASet (store s) :: render t
  | IRetain m :: t => ARetain m :: render t
  | IRelease m :: t => ARelease m :: render t
  | IEmit x m :: t => AEmit x m :: render t
  | IBar :: t => render t
  end.

Definition is_set (a : action) : bool := match a with ASet _ => true | _ => false end.

Definition finish (stateful : bool) (r : res unit) : result :=
  match r with
  | Ok _ s o =>
      let a := render o in
      RSome (if stateful && negb (existsb is_set a) then a ++ [ASet (store s)] else a)
  | Err [] => RNone
  | Err o => RLate (render o)
  end.

End Monad.
Arguments Ok {PS A}. Arguments Err {PS A}.
Arguments M : clear implicits.
Arguments item : clear implicits.
Arguments res : clear implicits.

Declare Scope py_scope.
Delimit Scope py_scope with py.
Notation "'do' x <- m ;; k" := (bind m (fun x => k))
  (at level 200, x name, m at level 100, k at level 200, right associativity) : py_scope.

(* ---- python builtins on values ------------------------------------------------------------------------------- *)
(* a, b = v *)
Definition unpack2 (v : val) : option (val * val) :=
  match items v with Some [a; b] => Some (a, b) | _ => None end.
(* x + args where args is a tuple: only a tuple can be added to a tuple *)
Definition tuple_add (x : val) (args : list val) : option val :=
  match x with VTup l => Some (VTup (l ++ args)) | _ => None end.
(* f( *y ): the argument is iterated *)
Definition star (y : val) : option (list val) := items y.
(* x[i] for i in l *)
Fixpoint map_opt {A B} (f : A -> option B) (l : list A) : option (list B) :=
  match l with
  | [] => Some []
  | a :: t => match f a with
              | Some b => match map_opt f t with Some r => Some (b :: r) | None => None end
              | None => None
              end
  end.
(* `self.state is no_default` on an attribute that holds a value or the sentinel *)
Definition is_no_default (o : option val) : bool := match o with None => true | Some _ => false end.
(* truthiness *)
Definition truthy_md (m : md) : bool := match m with [] => false | _ => true end.
Definition truthy_list {A} (l : list A) : bool := match l with [] => false | _ => true end.
Definition truthy_optnat (o : option nat) : bool := match o with Some (S _) => true | _ => false end.
(* [m for ml in L for m in ml] *)
Definition flatten_md (l : list md) : md := flat_map (fun x => x) l.

(* pluck.pick is an index or a list of indices *)
Definition pick_is_list (p : pick) : bool := match p with PickMany _ => true | PickOne _ => false end.
Definition pick_list (p : pick) : list nat := match p with PickMany l => l | PickOne _ => [] end.
Definition pick_one (p : pick) : nat := match p with PickOne i => i | PickMany _ => 0 end.

(* ---- attributes of the node classes -------------------------------------------------------------------------- *)
(* naming: <class>_<attribute> reads, <class>_<attribute>_set assigns, <class>_<attribute>_<method> is a container
   method.  For most classes S = nstate and store = id. *)
Definition store_id (s : nstate) : nstate := s.

(* accumulate: self.state is the model's st_acc, None = the no_default sentinel *)
Definition accumulate_state (s : nstate) : option val := st_acc s.
Definition accumulate_state_set (v : val) (s : nstate) : nstate := set_acc s (Some v).
