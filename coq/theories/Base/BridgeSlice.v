(* Bridge between a kernel regenerated from the source under test on every run (Gen/KSlice.v) and the kernel the
   hand-written model uses.  An edit to the code that changes the expression changes the generated file, and these
   proofs no longer check. *)
From Coq Require Import ZArith Bool Lia Arith List.
From SZ Require Import Base.BridgeTac.
From SZ Require Import Gen.KSlice.
From SZ Require Import Base.Values.
From SZ Require Import Sync.Nodes.
From SZ Require Import Sync.Pipeline.
From SZ Require Import Sync.PushSpec.
From SZ Require Import Sync.NodeSem.
Import ListNotations.

(* ---- slice gate ------------------------------------------------------------------------------------------ *)
Lemma bridge_slice_pass (n start step : nat) : (1 <= step)%nat ->
  gen_slice_pass (Z.of_nat n) (Z.of_nat start) (Z.of_nat step) = slice_pass start step n.
Proof.
  intros Hs. unfold gen_slice_pass, slice_pass. cbv zeta.
  destruct (Nat.leb_spec start n) as [H|H]; cbn [andb].
  - rewrite <- ?Nat2Z.inj_sub by exact H. rewrite <- ?Nat2Z.inj_mod. bool_eq.
  - bool_eq.
Qed.

(* the counter is advanced by one before _check_end and before the emission *)
Lemma bridge_slice_next (n : nat) : gen_slice_next (Z.of_nat n) = Z.of_nat (S n).
Proof. unfold gen_slice_next. cbv zeta. lia. Qed.

Lemma bridge_slice_done (n : nat) (stop : option nat) :
  gen_slice_done (Z.of_nat (S n)) (option_map Z.of_nat stop) =
  match stop with Some e => (e <=? S n)%nat | None => false end.
Proof. destruct stop as [e|]; cbn [gen_slice_done option_map]; cbv zeta; bool_eq. Qed.

Lemma bridge_slice_finished (n : nat) (stop : option nat) :
  gen_slice_finished (Z.of_nat n) (option_map Z.of_nat stop) =
  match stop with Some e => (e <=? n)%nat | None => false end.
Proof. destruct stop as [e|]; cbn [gen_slice_finished option_map]; cbv zeta; bool_eq. Qed.

(* the model's slice update is exactly: nothing once finished; otherwise gate, count, check, then pass on *)
Lemma bridge_slice_update start stop step s p x m : (1 <= step)%nat ->
  update (KSlice start stop step) s p x m =
  if gen_slice_finished (Z.of_nat (st_n s)) (option_map Z.of_nat stop) then Some [ASet s] else
  Some (ASet (set_n s (S (st_n s)) (gen_slice_done (Z.of_nat (S (st_n s))) (option_map Z.of_nat stop)))
        :: (if gen_slice_pass (Z.of_nat (st_n s)) (Z.of_nat start) (Z.of_nat step) then [Nodes.AEmit x m] else [])).
Proof.
  intros Hs. cbn [update]. rewrite bridge_slice_finished, bridge_slice_pass by exact Hs. rewrite bridge_slice_done. reflexivity.
Qed.
