(* Bridge between the `update` methods regenerated from the source under test on every run (Gen/KN_<class>.v, written
   by harness/gen_nodes.py in the monad of Base/MiniPy.v) and the hand-written model Sync/Nodes.v.
   For every class:  gen_run_<class> .. = of_option (update (K<Kind> ..) ..)   (the strong form: the generated method
   never raises after an effect), and its corollary in the form  gen_update_<class> .. = update (K<Kind> ..) .. .
   An edit of the source that changes what a method does changes the generated term, and these proofs stop checking. *)
From Coq Require Import List ZArith Bool Arith Lia.
From SZ Require Import Base.Values Sync.Nodes Base.MiniPy.
From SZ Require Sync.NodeSem2.
From SZ Require Import Gen.KN_accumulate Gen.KN_map Gen.KN_filter Gen.KN_starmap Gen.KN_pluck Gen.KN_union Gen.KN_Stream.
From SZ Require Import Gen.KN_flatten Gen.KN_partition Gen.KN_sliding_window Gen.KN_unique Gen.KN_collect Gen.KN_slice.
Import ListNotations.
Close Scope Z_scope.
Open Scope nat_scope.

(* symbolic execution of a generated method: unfold the monad and the attribute definitions, nothing arithmetic *)
Ltac py := cbn [bind ret raise rd wr wr_get tell lift call emit retain_refs release_refs finish render later_write
                existsb is_set app andb negb orb store_id to_option of_option fst snd
                st_acc st_n st_detached st_keyed st_win st_seen st_ports st_last
                set_acc set_n set_keyed set_win set_seen set_ports set_last
                is_no_default accumulate_state accumulate_state_set
                is_none is_none_fn opt_callf truthy_optnat truthy_md truthy_list
                cc_cache cc_chunks].

Lemma bind_unfold {PS A B} (m : M PS A) (k : A -> M PS B) s :
  bind m k s = match m s with
               | Ok a s1 o1 => match k a s1 with Ok b s2 o2 => Ok b s2 (o1 ++ o2) | Err o2 => Err (o1 ++ o2) end
               | Err o => Err o
               end.
Proof. reflexivity. Qed.

(* the literal form follows from the strong one *)
Lemma weaken r o : r = of_option o -> to_option r = o.
Proof. intros ->. apply to_of_option. Qed.

(* ---- Stream / union ------------------------------------------------------------------------------------------ *)
Theorem bridge_run_Stream s p x m : gen_run_Stream s p x m = of_option (update KSource s p x m).
Proof. reflexivity. Qed.
Theorem bridge_update_Stream s p x m : gen_update_Stream s p x m = update KSource s p x m.
Proof. apply weaken, bridge_run_Stream. Qed.

Theorem bridge_run_union s p x m : gen_run_union s p x m = of_option (update KUnion s p x m).
Proof. reflexivity. Qed.
Theorem bridge_update_union s p x m : gen_update_union s p x m = update KUnion s p x m.
Proof. apply weaken, bridge_run_union. Qed.

(* ---- map ----------------------------------------------------------------------------------------------------- *)
Theorem bridge_run_map f s p x m : gen_run_map f s p x m = of_option (update (KMap f) s p x m).
Proof.
  unfold gen_run_map, gen_body_map. cbn [update]. destruct (f x); reflexivity.
Qed.
Theorem bridge_update_map f s p x m : gen_update_map f s p x m = update (KMap f) s p x m.
Proof. apply weaken, bridge_run_map. Qed.

(* ---- filter -------------------------------------------------------------------------------------------------- *)
Theorem bridge_run_filter f s p x m : gen_run_filter f s p x m = of_option (update (KFilter f) s p x m).
Proof.
  unfold gen_run_filter, gen_body_filter. cbn [update]. destruct (f x) as [[|]|]; reflexivity.
Qed.
Theorem bridge_update_filter f s p x m : gen_update_filter f s p x m = update (KFilter f) s p x m.
Proof. apply weaken, bridge_run_filter. Qed.

(* ---- starmap: the model's function symbol includes self.args, i.e. args = () here ------------------------------ *)
Theorem bridge_run_starmap f s p x m : gen_run_starmap f [] s p x m = of_option (update (KStarmap f) s p x m).
Proof.
  unfold gen_run_starmap, gen_body_starmap. cbn [update].
  destruct x as [z|l|l|]; try reflexivity. cbn [tuple_add]. rewrite app_nil_r. cbn [lift star items bind ret].
  destruct (f l); reflexivity.
Qed.
Theorem bridge_update_starmap f s p x m : gen_update_starmap f [] s p x m = update (KStarmap f) s p x m.
Proof. apply weaken, bridge_run_starmap. Qed.

(* ---- pluck --------------------------------------------------------------------------------------------------- *)
Lemma map_opt_all_some {A B} (f : A -> option B) l : map_opt f l = all_some (map f l).
Proof. induction l as [|a t IH]; cbn; [reflexivity|]. destruct (f a); [rewrite IH|]; reflexivity. Qed.

Theorem bridge_run_pluck pk s p x m : gen_run_pluck pk s p x m = of_option (update (KPluck pk) s p x m).
Proof.
  unfold gen_run_pluck, gen_body_pluck. destruct pk as [i|l]; cbn [update pick_is_list pick_list pick_one].
  - destruct (py_index x i); reflexivity.
  - rewrite map_opt_all_some. destruct (all_some _); reflexivity.
Qed.
Theorem bridge_update_pluck pk s p x m : gen_update_pluck pk s p x m = update (KPluck pk) s p x m.
Proof. apply weaken, bridge_run_pluck. Qed.

(* ---- accumulate ---------------------------------------------------------------------------------------------- *)
Theorem bridge_run_accumulate f start rs ws s p x m :
  gen_run_accumulate f rs ws s p x m = of_option (update (KAccum f start rs ws) s p x m).
Proof.
  unfold gen_run_accumulate, gen_body_accumulate. cbn [update].
  destruct s as [acc n det keyed win seen ports last]. py.
  destruct acc as [a|]; py.
  - destruct (f a x) as [r|]; py; [|reflexivity].
    destruct rs; py.
    + unfold unpack2. destruct (items r) as [[|st [|res [|? ?]]]|]; py; try reflexivity. destruct ws; reflexivity.
    + destruct ws; reflexivity.
  - destruct ws; reflexivity.
Qed.
Theorem bridge_update_accumulate f start rs ws s p x m :
  gen_update_accumulate f rs ws s p x m = update (KAccum f start rs ws) s p x m.
Proof. apply weaken, (bridge_run_accumulate f start). Qed.

(* ---- flatten ------------------------------------------------------------------------------------------------- *)
Lemma for_emit_all (body : val -> val -> M nstate val) :
  (forall a it s, body a it s = Ok a s [IEmit it []]) ->
  forall t h s, for_ t h body s = Ok (last (h :: t) VNone) s (map (fun y => IEmit y []) (removelast (h :: t))).
Proof.
  intros Hb. induction t as [|a t IH]; intros h s.
  - reflexivity.
  - cbn [for_]. unfold bind. rewrite Hb, IH.
    change (removelast (h :: a :: t)) with (h :: removelast (a :: t)).
    change (last (h :: a :: t) VNone) with (last (a :: t) VNone). reflexivity.
Qed.

Lemma render_emits (l : list val) (rest : list (item nstate)) :
  render store_id (map (fun y => IEmit y []) l ++ rest) = map (fun y => AEmit y []) l ++ render store_id rest.
Proof. induction l as [|a t IH]; cbn; [reflexivity|]. rewrite IH. reflexivity. Qed.

Theorem bridge_run_flatten s p x m : gen_run_flatten s p x m = of_option (update KFlatten s p x m).
Proof.
  unfold gen_run_flatten, gen_body_flatten. cbn [update].
  destruct (items x) as [[|h t]|]; py; try reflexivity.
  rewrite bind_unfold, for_emit_all by (intros; reflexivity). py.
  unfold finish. rewrite render_emits. reflexivity.
Qed.
Theorem bridge_update_flatten s p x m : gen_update_flatten s p x m = update KFlatten s p x m.
Proof. apply weaken, bridge_run_flatten. Qed.

(* ---- partition (timeout None) ------------------------------------------------------------------------------------ *)
Lemma assoc_get_set_same {B} k (b : B) l : assoc_get k (assoc_set k b l) = Some b.
Proof.
  induction l as [|[k' b'] t IH]; cbn [assoc_set assoc_get].
  - rewrite NodeSem2.val_eqb_refl. reflexivity.
  - destruct (val_eqb k k') eqn:E; cbn [assoc_get]; rewrite E; [reflexivity | exact IH].
Qed.
Lemma assoc_set_set {B} k (a b : B) l : assoc_set k b (assoc_set k a l) = assoc_set k b l.
Proof.
  induction l as [|[k' b'] t IH]; cbn [assoc_set].
  - rewrite NodeSem2.val_eqb_refl. reflexivity.
  - destruct (val_eqb k k') eqn:E; cbn [assoc_set]; rewrite E; [reflexivity | rewrite IH; reflexivity].
Qed.
Ltac unfold_partition := unfold partition__buffer_touch, partition__buffer_getitem, partition__buffer_setitem,
  partition__buffer_item_append, partition__metadata_buffer_touch, partition__metadata_buffer_getitem,
  partition__metadata_buffer_setitem, partition__metadata_buffer_item_extend, kput, kget.
Ltac norm_assoc := repeat (progress (rewrite ?assoc_get_set_same, ?assoc_set_set; py)).

Theorem bridge_run_partition n key s p x m :
  gen_run_partition n key s p x m = of_option (update (KPartition n key) s p x m).
Proof.
  unfold gen_run_partition, gen_body_partition. cbn [update].
  destruct s as [acc cnt det keyed win seen ports last].
  set (ky := match key with Some kf => kf x | None => VNone end).
  assert (K : forall (k : val -> M nstate unit) s0,
            bind (if is_none_fn key then ret VNone else bind (call (opt_callf key x)) (fun v2 => ret v2)) k s0 = k ky s0).
  { intros k s0. destruct key; py; destruct (k _ s0); reflexivity. }
  py. rewrite K. unfold_partition. py. norm_assoc.
  destruct (assoc_get ky keyed) as [[vs ms]|] eqn:E; py;
    match goal with |- context [length ?l =? n] => destruct (length l =? n) end; norm_assoc; reflexivity.
Qed.
Theorem bridge_update_partition n key s p x m :
  gen_update_partition n key s p x m = update (KPartition n key) s p x m.
Proof. apply weaken, bridge_run_partition. Qed.
(* the model treats exactly the classes whose update is a gen.coroutine in the source as coroutines *)
Theorem bridge_coroutine_partition n key : is_coroutine (KPartition n key) = gen_is_coroutine_partition.
Proof. reflexivity. Qed.

(* ---- sliding_window (n >= 1: with maxlen 0 the source pops from an empty deque) ---------------------------------- *)
Lemma last_lastn_snoc {A} n (l : list A) a d : 1 <= n -> last (lastn n (l ++ [a])) d = a.
Proof.
  intros H. destruct n as [|k]; [lia|]. rewrite NodeSem2.lastn_snoc. apply last_last.
Qed.
Lemma flatten_md_map_snd {A} (l : list (A * md)) : flatten_md (map snd l) = flat_map snd l.
Proof. unfold flatten_md. induction l as [|a t IH]; cbn; [reflexivity|]. rewrite IH. reflexivity. Qed.

Theorem bridge_run_sliding_window n partial s p x m : 1 <= n ->
  gen_run_sliding_window n partial s p x m = of_option (update (KSliding n partial) s p x m).
Proof.
  intros Hn. unfold gen_run_sliding_window, gen_body_sliding_window. cbn [update].
  unfold sliding_window__buffer, sliding_window__buffer_append, sliding_window_metadata_buffer,
    sliding_window_metadata_buffer_append, sliding_window_metadata_buffer_popleft.
  destruct s as [acc cnt det keyed win seen ports last]. py.
  rewrite last_lastn_snoc by exact Hn.
  set (vals := lastn n (seen ++ [x])). set (w' := lastn n (win ++ [(x, m)])).
  destruct (partial || (length vals =? n)); py; [|reflexivity].
  rewrite map_length, flatten_md_map_snd.
  destruct (length w' =? n) eqn:E; py; [|reflexivity].
  destruct w' as [|[x0 hm] t]; py; [|reflexivity].
  apply Nat.eqb_eq in E. cbn in E. lia.
Qed.
Theorem bridge_update_sliding_window n partial s p x m : 1 <= n ->
  gen_update_sliding_window n partial s p x m = update (KSliding n partial) s p x m.
Proof. intros H. apply weaken, bridge_run_sliding_window, H. Qed.

(* ---- unique (history kept as a list) ----------------------------------------------------------------------------- *)
Theorem bridge_run_unique maxsize key s p x m :
  gen_run_unique maxsize key s p x m = of_option (update (KUnique maxsize key) s p x m).
Proof.
  unfold gen_run_unique, gen_body_unique. cbn [update].
  unfold unique_seen_contains, unique_seen_remove, unique_seen_insert, unique_seen_delfrom.
  destruct s as [acc cnt det keyed win seen ports last]. py.
  destruct (mem_val (key x) seen); py; destruct maxsize as [[|k]|]; py; reflexivity.
Qed.
Theorem bridge_update_unique maxsize key s p x m :
  gen_update_unique maxsize key s p x m = update (KUnique maxsize key) s p x m.
Proof. apply weaken, bridge_run_unique. Qed.

(* ---- collect and collect.flush ----------------------------------------------------------------------------------- *)
Lemma combine_fst_snd {A B} (l : list (A * B)) : combine (map fst l) (map snd l) = l.
Proof. induction l as [|[a b] t IH]; cbn; [reflexivity|]. rewrite IH. reflexivity. Qed.
Lemma combine_snoc {A B} (l1 : list A) (l2 : list B) a b : length l1 = length l2 ->
  combine (l1 ++ [a]) (l2 ++ [b]) = combine l1 l2 ++ [(a, b)].
Proof.
  revert l2. induction l1 as [|h t IH]; intros [|h2 t2] H; cbn in *; try discriminate; [reflexivity|].
  rewrite IH by lia. reflexivity.
Qed.

Theorem bridge_run_collect s p x m : gen_run_collect s p x m = of_option (update KCollect s p x m).
Proof.
  unfold gen_run_collect, gen_body_collect. cbn [update].
  unfold collect_store, collect_load, collect_cache_append, collect_metadata_cache_extend.
  destruct s as [acc cnt det keyed win seen ports last]. py.
  assert (L : length (map fst win) = length (map snd win)) by (rewrite !map_length; reflexivity).
  destruct m as [|i m]; py.
  - rewrite app_length, L. cbn [length]. replace (length (map snd win) + 1 - length (map snd win)) with 1 by lia.
    cbn [repeat]. rewrite combine_snoc, combine_fst_snd by exact L. reflexivity.
  - rewrite !app_length, L. cbn [length]. rewrite Nat.sub_diag. cbn [repeat]. rewrite app_nil_r.
    rewrite combine_snoc, combine_fst_snd by exact L. reflexivity.
Qed.
Theorem bridge_update_collect s p x m : gen_update_collect s p x m = update KCollect s p x m.
Proof. apply weaken, bridge_run_collect. Qed.

Theorem bridge_flush_collect s : gen_flush_collect s = RSome (flush_actions s).
Proof.
  unfold gen_flush_collect, gen_body_collect_flush, flush_actions.
  unfold collect_store, collect_load, collect_cache, collect_metadata_cache, collect_cache_clear, collect_metadata_cache_clear.
  destruct s as [acc cnt det keyed win seen ports last]. py.
  rewrite flatten_md_map_snd. reflexivity.
Qed.

(* ---- slice (update is only delivered to a node that has not removed itself from its upstream) -------------------- *)
Theorem bridge_run_slice star stop step s p x m : st_detached s = false ->
  gen_run_slice star stop step s p x m = of_option (update (KSlice star stop step) s p x m).
Proof.
  intros Hd. unfold gen_run_slice, gen_body_slice. cbn [update].
  unfold slice_state, slice_state_set, slice_detach.
  destruct s as [acc cnt det keyed win seen ports last]. cbn [st_detached] in Hd. subst det. py.
  destruct ((star <=? cnt) && ((cnt - star) mod step =? 0)); py; rewrite Nat.add_1_r;
    (destruct stop as [e|]; cbn [is_none optnat_le negb andb]; [destruct (e <=? S cnt); py; reflexivity | reflexivity]).
Qed.
Theorem bridge_update_slice star stop step s p x m : st_detached s = false ->
  gen_update_slice star stop step s p x m = update (KSlice star stop step) s p x m.
Proof. intros H. apply weaken, bridge_run_slice, H. Qed.
