(* Bridge between the `update` methods regenerated from the source under test on every run (Gen/KN_<class>.v, written
   by harness/gen_nodes.py in the monad of Base/MiniPy.v) and the hand-written model Sync/Nodes.v.
   For every class:  gen_run_<class> .. = of_option (update (K<Kind> ..) ..)   (the strong form: the generated method
   never raises after an effect), and its corollary in the form  gen_update_<class> .. = update (K<Kind> ..) .. .
   An edit of the source that changes what a method does changes the generated term, and these proofs stop checking. *)
From Coq Require Import List ZArith Bool Arith Lia.
From SZ Require Import Base.Values Sync.Nodes Base.MiniPy.
From SZ Require Import Gen.KN_accumulate Gen.KN_map Gen.KN_filter Gen.KN_starmap Gen.KN_pluck Gen.KN_union Gen.KN_Stream.
Import ListNotations.
Close Scope Z_scope.
Open Scope nat_scope.

(* symbolic execution of a generated method: unfold the monad and the attribute definitions, nothing arithmetic *)
Ltac py := cbn [bind ret raise rd wr wr_get tell lift call emit retain_refs release_refs finish render later_write
                existsb is_set app andb negb orb store_id to_option of_option fst snd
                st_acc st_n st_detached st_keyed st_win st_seen st_ports st_last
                set_acc set_n set_keyed set_win set_seen set_ports set_last
                is_no_default accumulate_state accumulate_state_set].

(* the literal form follows from the strong one *)
Lemma weaken r o : r = of_option o -> to_option r = o.
Proof. intros ->. apply to_of_option. Qed.

(* ---- Stream / union ------------------------------------------------------------------------------------------ *)
Theorem bridge_run_Stream s p x m : gen_run_Stream s p x m = of_option (update KSource s p x m).
Proof. reflexivity. Qed.
Theorem bridge_update_Stream s p x m : gen_update_Stream s p x m = update KSource s p x m.
Proof. apply weaken, bridge_run_Stream. Qed.

Theorem bridge_run_union s p x m : gen_run_union s p x m = of_option (update KUnion s p x m).
Proof. reflexivity. Qed.
Theorem bridge_update_union s p x m : gen_update_union s p x m = update KUnion s p x m.
Proof. apply weaken, bridge_run_union. Qed.

(* ---- map ----------------------------------------------------------------------------------------------------- *)
Theorem bridge_run_map f s p x m : gen_run_map f s p x m = of_option (update (KMap f) s p x m).
Proof.
  unfold gen_run_map, gen_body_map. cbn [update]. destruct (f x); reflexivity.
Qed.
Theorem bridge_update_map f s p x m : gen_update_map f s p x m = update (KMap f) s p x m.
Proof. apply weaken, bridge_run_map. Qed.

(* ---- filter -------------------------------------------------------------------------------------------------- *)
Theorem bridge_run_filter f s p x m : gen_run_filter f s p x m = of_option (update (KFilter f) s p x m).
Proof.
  unfold gen_run_filter, gen_body_filter. cbn [update]. destruct (f x) as [[|]|]; reflexivity.
Qed.
Theorem bridge_update_filter f s p x m : gen_update_filter f s p x m = update (KFilter f) s p x m.
Proof. apply weaken, bridge_run_filter. Qed.

(* ---- starmap: the model's function symbol includes self.args, i.e. args = () here ------------------------------ *)
Theorem bridge_run_starmap f s p x m : gen_run_starmap f [] s p x m = of_option (update (KStarmap f) s p x m).
Proof.
  unfold gen_run_starmap, gen_body_starmap. cbn [update].
  destruct x as [z|l|l|]; try reflexivity. cbn [tuple_add]. rewrite app_nil_r. cbn [lift star items bind ret].
  destruct (f l); reflexivity.
Qed.
Theorem bridge_update_starmap f s p x m : gen_update_starmap f [] s p x m = update (KStarmap f) s p x m.
Proof. apply weaken, bridge_run_starmap. Qed.

(* ---- pluck --------------------------------------------------------------------------------------------------- *)
Lemma map_opt_all_some {A B} (f : A -> option B) l : map_opt f l = all_some (map f l).
Proof. induction l as [|a t IH]; cbn; [reflexivity|]. destruct (f a); [rewrite IH|]; reflexivity. Qed.

Theorem bridge_run_pluck pk s p x m : gen_run_pluck pk s p x m = of_option (update (KPluck pk) s p x m).
Proof.
  unfold gen_run_pluck, gen_body_pluck. destruct pk as [i|l]; cbn [update pick_is_list pick_list pick_one].
  - destruct (py_index x i); reflexivity.
  - rewrite map_opt_all_some. destruct (all_some _); reflexivity.
Qed.
Theorem bridge_update_pluck pk s p x m : gen_update_pluck pk s p x m = update (KPluck pk) s p x m.
Proof. apply weaken, bridge_run_pluck. Qed.

(* ---- accumulate ---------------------------------------------------------------------------------------------- *)
Theorem bridge_run_accumulate f start rs ws s p x m :
  gen_run_accumulate f rs ws s p x m = of_option (update (KAccum f start rs ws) s p x m).
Proof.
  unfold gen_run_accumulate, gen_body_accumulate. cbn [update].
  destruct s as [acc n det keyed win seen ports last]. py.
  destruct acc as [a|]; py.
  - destruct (f a x) as [r|]; py; [|reflexivity].
    destruct rs; py.
    + unfold unpack2. destruct (items r) as [[|st [|res [|? ?]]]|]; py; try reflexivity. destruct ws; reflexivity.
    + destruct ws; reflexivity.
  - destruct ws; reflexivity.
Qed.
Theorem bridge_update_accumulate f start rs ws s p x m :
  gen_update_accumulate f rs ws s p x m = update (KAccum f start rs ws) s p x m.
Proof. apply weaken, (bridge_run_accumulate f start). Qed.
