(* Bridge between the `update` methods regenerated from the source under test on every run (Gen/KN_<class>.v, written
   by harness/gen_nodes.py in the monad of Base/MiniPy.v) and the hand-written model Sync/Nodes.v.
   For every class:  gen_run_<class> .. = of_option (update (K<Kind> ..) ..)   (the strong form: the generated method
   never raises after an effect), and its corollary in the form  gen_update_<class> .. = update (K<Kind> ..) .. .
   An edit of the source that changes what a method does changes the generated term, and these proofs stop checking. *)
From Coq Require Import List ZArith Bool Arith Lia.
From SZ Require Import Base.Values Sync.Nodes Base.MiniPy Base.BridgeTac.
From SZ Require Sync.NodeSem2.
From SZ Require Import Gen.KN_accumulate Gen.KN_map Gen.KN_filter Gen.KN_starmap Gen.KN_pluck Gen.KN_union Gen.KN_Stream.
From SZ Require Import Gen.KN_flatten Gen.KN_partition Gen.KN_sliding_window Gen.KN_unique Gen.KN_collect Gen.KN_slice.
From SZ Require Import Gen.KN_combine_latest Gen.KN_zip_latest Gen.KN_partition_unique Gen.KN_zip.
From SZ Require Import Sync.Pipeline.
Import ListNotations.
Close Scope Z_scope.
Open Scope nat_scope.

(* symbolic execution of a generated method: unfold the monad and the attribute definitions, nothing arithmetic *)
Ltac py := cbn [bind ret raise rd wr wr_get tell lift call emit retain_refs release_refs finish render later_write
                existsb is_set app andb negb orb store_id to_option of_option fst snd
                st_acc st_n st_detached st_keyed st_win st_seen st_ports st_last
                set_acc set_n set_keyed set_win set_seen set_ports set_last
                is_no_default accumulate_state accumulate_state_set
                is_none is_none_fn opt_callf truthy_optnat truthy_md truthy_list
                cc_cache cc_chunks
                ls_last ls_meta ls_missing ls_buf ls_set_last ls_set_meta ls_set_missing ls_set_buf truthy_optmd].

Lemma bind_unfold {PS A B} (m : M PS A) (k : A -> M PS B) s :
  bind m k s = match m s with
               | Ok a s1 o1 => match k a s1 with Ok b s2 o2 => Ok b s2 (o1 ++ o2) | Err o2 => Err (o1 ++ o2) end
               | Err o => Err o
               end.
Proof. reflexivity. Qed.

Lemma bind_ret {PS A B} (a : A) (k : A -> M PS B) s : bind (ret a) k s = k a s.
Proof. unfold bind, ret. destruct (k a s); reflexivity. Qed.
Lemma bind_rd {PS A B} (f : PS -> A) (k : A -> M PS B) s : bind (rd f) k s = k (f s) s.
Proof. unfold bind, rd. destruct (k (f s) s); reflexivity. Qed.
Lemma bind_bind {PS A B C} (m : M PS A) (f : A -> M PS B) (g : B -> M PS C) s :
  bind (bind m f) g s = bind m (fun a => bind (f a) g) s.
Proof.
  unfold bind. destruct (m s) as [a s1 o1|o1]; [|reflexivity].
  destruct (f a s1) as [b s2 o2|o2]; [|reflexivity].
  destruct (g b s2) as [c s3 o3|o3]; rewrite app_assoc; reflexivity.
Qed.
Ltac pyr := repeat (progress (py; rewrite ?bind_bind, ?bind_rd, ?bind_ret)).

(* Execute, and split on whatever the generated method or the model still asks (innermost scrutinee first; a compound test
   is split atom by atom), until both sides are the same value.  The script does not mention the order, the number or the
   nesting of the generated steps.  [tac] is run after every execution step (rewrites with arithmetic facts). *)
Ltac splittable d ::= lazymatch type of d with res _ _ => fail | _ => idtac end.   (* a run is executed, not split *)
(* a test of MiniPy.v on a variable is decided by the shape of the variable *)
Ltac var_or v d :=
  match constr:(Set) with
  | _ => let _ := match goal with _ => is_var v end in constr:(v)
  | _ => constr:(d)
  end.
Ltac subject d ::=
  lazymatch d with
  | pick_is_list ?v => var_or v d | is_none ?v => var_or v d | is_none_fn ?v => var_or v d
  | is_no_default ?v => var_or v d | truthy_md ?v => var_or v d | truthy_list ?v => var_or v d
  | truthy_optmd ?v => var_or v d | truthy_optnat ?v => var_or v d | items ?v => var_or v d
  | _ => d
  end.
Ltac crunch_with tac := repeat (repeat (progress (pyr; tac)); first [reflexivity | split_once]).
Ltac crunch := crunch_with idtac.
(* leaves that need arithmetic: a test spelled differently on the two sides leaves contradictory assumptions *)
Ltac leaves := cbn [length] in *; arith_leaf.

(* the literal form follows from the strong one *)
Lemma weaken r o : r = of_option o -> to_option r = o.
Proof. intros ->. apply to_of_option. Qed.

(* ---- Stream / union ------------------------------------------------------------------------------------------ *)
Theorem bridge_run_Stream s p x m : gen_run_Stream s p x m = of_option (update KSource s p x m).
Proof. reflexivity. Qed.
Theorem bridge_update_Stream s p x m : gen_update_Stream s p x m = update KSource s p x m.
Proof. apply weaken, bridge_run_Stream. Qed.

Theorem bridge_run_union s p x m : gen_run_union s p x m = of_option (update KUnion s p x m).
Proof. reflexivity. Qed.
Theorem bridge_update_union s p x m : gen_update_union s p x m = update KUnion s p x m.
Proof. apply weaken, bridge_run_union. Qed.

(* ---- map ----------------------------------------------------------------------------------------------------- *)
Theorem bridge_run_map f s p x m : gen_run_map f s p x m = of_option (update (KMap f) s p x m).
Proof. unfold gen_run_map, gen_body_map. cbn [update]. crunch. Qed.
Theorem bridge_update_map f s p x m : gen_update_map f s p x m = update (KMap f) s p x m.
Proof. apply weaken, bridge_run_map. Qed.

(* ---- filter -------------------------------------------------------------------------------------------------- *)
Theorem bridge_run_filter f s p x m : gen_run_filter f s p x m = of_option (update (KFilter f) s p x m).
Proof. unfold gen_run_filter, gen_body_filter. cbn [update]. crunch. Qed.
Theorem bridge_update_filter f s p x m : gen_update_filter f s p x m = update (KFilter f) s p x m.
Proof. apply weaken, bridge_run_filter. Qed.

(* ---- starmap: the model's function symbol includes self.args, i.e. args = () here ------------------------------ *)
Theorem bridge_run_starmap f s p x m : gen_run_starmap f [] s p x m = of_option (update (KStarmap f) s p x m).
Proof.
  unfold gen_run_starmap, gen_body_starmap. cbn [update].
  crunch_with ltac:(cbn [tuple_add star items]; rewrite ?app_nil_r).
Qed.
Theorem bridge_update_starmap f s p x m : gen_update_starmap f [] s p x m = update (KStarmap f) s p x m.
Proof. apply weaken, bridge_run_starmap. Qed.

(* ---- pluck --------------------------------------------------------------------------------------------------- *)
Lemma map_opt_all_some {A B} (f : A -> option B) l : map_opt f l = all_some (map f l).
Proof. induction l as [|a t IH]; cbn; [reflexivity|]. destruct (f a); [rewrite IH|]; reflexivity. Qed.

Theorem bridge_run_pluck pk s p x m : gen_run_pluck pk s p x m = of_option (update (KPluck pk) s p x m).
Proof.
  unfold gen_run_pluck, gen_body_pluck. cbn [update].
  crunch_with ltac:(cbn [pick_is_list pick_list pick_one]; rewrite ?map_opt_all_some).
Qed.
Theorem bridge_update_pluck pk s p x m : gen_update_pluck pk s p x m = update (KPluck pk) s p x m.
Proof. apply weaken, bridge_run_pluck. Qed.

(* ---- accumulate ---------------------------------------------------------------------------------------------- *)
Theorem bridge_run_accumulate f start rs ws s p x m :
  gen_run_accumulate f rs ws s p x m = of_option (update (KAccum f start rs ws) s p x m).
Proof.
  unfold gen_run_accumulate, gen_body_accumulate. cbn [update].
  destruct s as [acc n det keyed win seen ports last].
  crunch_with ltac:(unfold unpack2).
Qed.
Theorem bridge_update_accumulate f start rs ws s p x m :
  gen_update_accumulate f rs ws s p x m = update (KAccum f start rs ws) s p x m.
Proof. apply weaken, (bridge_run_accumulate f start). Qed.

(* ---- flatten ------------------------------------------------------------------------------------------------- *)
Lemma for_emit_all (body : val -> val -> M nstate val) :
  (forall a it s, body a it s = Ok a s [IEmit it []]) ->
  forall t h s, for_ t h body s = Ok (last (h :: t) VNone) s (map (fun y => IEmit y []) (removelast (h :: t))).
Proof.
  intros Hb. induction t as [|a t IH]; intros h s.
  - reflexivity.
  - cbn [for_]. unfold bind. rewrite Hb, IH.
    change (removelast (h :: a :: t)) with (h :: removelast (a :: t)).
    change (last (h :: a :: t) VNone) with (last (a :: t) VNone). reflexivity.
Qed.

Lemma render_emits (l : list val) (rest : list (item nstate)) :
  render store_id (map (fun y => IEmit y []) l ++ rest) = map (fun y => AEmit y []) l ++ render store_id rest.
Proof. induction l as [|a t IH]; cbn; [reflexivity|]. rewrite IH. reflexivity. Qed.

Theorem bridge_run_flatten s p x m : gen_run_flatten s p x m = of_option (update KFlatten s p x m).
Proof.
  unfold gen_run_flatten, gen_body_flatten. cbn [update].
  destruct (items x) as [[|h t]|]; py; try reflexivity.
  rewrite bind_unfold, for_emit_all by (intros; reflexivity). py.
  unfold finish. rewrite render_emits. reflexivity.
Qed.
Theorem bridge_update_flatten s p x m : gen_update_flatten s p x m = update KFlatten s p x m.
Proof. apply weaken, bridge_run_flatten. Qed.

(* ---- partition (timeout None) ------------------------------------------------------------------------------------ *)
Lemma assoc_get_set_same {B} k (b : B) l : assoc_get k (assoc_set k b l) = Some b.
Proof.
  induction l as [|[k' b'] t IH]; cbn [assoc_set assoc_get].
  - rewrite NodeSem2.val_eqb_refl. reflexivity.
  - destruct (val_eqb k k') eqn:E; cbn [assoc_get]; rewrite E; [reflexivity | exact IH].
Qed.
Lemma assoc_set_set {B} k (a b : B) l : assoc_set k b (assoc_set k a l) = assoc_set k b l.
Proof.
  induction l as [|[k' b'] t IH]; cbn [assoc_set].
  - rewrite NodeSem2.val_eqb_refl. reflexivity.
  - destruct (val_eqb k k') eqn:E; cbn [assoc_set]; rewrite E; [reflexivity | rewrite IH; reflexivity].
Qed.
Ltac unfold_partition := unfold partition__buffer_touch, partition__buffer_getitem, partition__buffer_setitem,
  partition__buffer_item_append, partition__metadata_buffer_touch, partition__metadata_buffer_getitem,
  partition__metadata_buffer_setitem, partition__metadata_buffer_item_extend, kput, kget.
Ltac norm_assoc := repeat (progress (rewrite ?assoc_get_set_same, ?assoc_set_set; py)).

Theorem bridge_run_partition n key s p x m :
  gen_run_partition n key s p x m = of_option (update (KPartition n key) s p x m).
Proof.
  unfold gen_run_partition, gen_body_partition. cbn [update].
  destruct s as [acc cnt det keyed win seen ports last].
  (* however the source computes the key (helper, inlined if/elif, conditional expression): decide it first *)
  destruct key as [kf|]; unfold_partition; pyr; norm_assoc;
    match goal with |- context [assoc_get ?k keyed] => destruct (assoc_get k keyed) as [[vs ms]|] eqn:E end; pyr; norm_assoc;
    repeat (split_eqb; norm_assoc); reflexivity.
Qed.
Theorem bridge_update_partition n key s p x m :
  gen_update_partition n key s p x m = update (KPartition n key) s p x m.
Proof. apply weaken, bridge_run_partition. Qed.
(* the model treats exactly the classes whose update is a gen.coroutine in the source as coroutines *)
Theorem bridge_coroutine_partition n key : is_coroutine (KPartition n key) = gen_is_coroutine_partition.
Proof. reflexivity. Qed.

(* ---- sliding_window (n >= 1: with maxlen 0 the source pops from an empty deque) ---------------------------------- *)
Lemma last_lastn_snoc {A} n (l : list A) a d : 1 <= n -> last (lastn n (l ++ [a])) d = a.
Proof.
  intros H. destruct n as [|k]; [lia|]. rewrite NodeSem2.lastn_snoc. apply last_last.
Qed.
Lemma flatten_md_map_snd {A} (l : list (A * md)) : flatten_md (map snd l) = flat_map snd l.
Proof. unfold flatten_md. induction l as [|a t IH]; cbn; [reflexivity|]. rewrite IH. reflexivity. Qed.

Theorem bridge_run_sliding_window n partial s p x m : 1 <= n ->
  gen_run_sliding_window n partial s p x m = of_option (update (KSliding n partial) s p x m).
Proof.
  intros Hn. unfold gen_run_sliding_window, gen_body_sliding_window. cbn [update].
  unfold sliding_window__buffer, sliding_window__buffer_append, sliding_window_metadata_buffer,
    sliding_window_metadata_buffer_append, sliding_window_metadata_buffer_popleft.
  destruct s as [acc cnt det keyed win seen ports last]. py.
  rewrite ?last_lastn_snoc by exact Hn.
  set (vals := lastn n (seen ++ [x])). set (w' := lastn n (win ++ [(x, m)])).
  crunch_with ltac:(rewrite ?map_length, ?flatten_md_map_snd).
  all: leaves.
Qed.
Theorem bridge_update_sliding_window n partial s p x m : 1 <= n ->
  gen_update_sliding_window n partial s p x m = update (KSliding n partial) s p x m.
Proof. intros H. apply weaken, bridge_run_sliding_window, H. Qed.

(* ---- unique (history kept as a list) ----------------------------------------------------------------------------- *)
Theorem bridge_run_unique maxsize key s p x m :
  gen_run_unique maxsize key s p x m = of_option (update (KUnique maxsize key) s p x m).
Proof.
  unfold gen_run_unique, gen_body_unique. cbn [update].
  unfold unique_seen_contains, unique_seen_remove, unique_seen_insert, unique_seen_delfrom.
  destruct s as [acc cnt det keyed win seen ports last].
  crunch.
Qed.
Theorem bridge_update_unique maxsize key s p x m :
  gen_update_unique maxsize key s p x m = update (KUnique maxsize key) s p x m.
Proof. apply weaken, bridge_run_unique. Qed.

(* ---- collect and collect.flush ----------------------------------------------------------------------------------- *)
Lemma combine_fst_snd {A B} (l : list (A * B)) : combine (map fst l) (map snd l) = l.
Proof. induction l as [|[a b] t IH]; cbn; [reflexivity|]. rewrite IH. reflexivity. Qed.
Lemma combine_snoc {A B} (l1 : list A) (l2 : list B) a b : length l1 = length l2 ->
  combine (l1 ++ [a]) (l2 ++ [b]) = combine l1 l2 ++ [(a, b)].
Proof.
  revert l2. induction l1 as [|h t IH]; intros [|h2 t2] H; cbn in *; try discriminate; [reflexivity|].
  rewrite IH by lia. reflexivity.
Qed.

Theorem bridge_run_collect s p x m : gen_run_collect s p x m = of_option (update KCollect s p x m).
Proof.
  unfold gen_run_collect, gen_body_collect. cbn [update].
  unfold collect_store, collect_load, collect_cache_append, collect_metadata_cache_extend.
  destruct s as [acc cnt det keyed win seen ports last]. py.
  assert (L : length (map fst win) = length (map snd win)) by (rewrite !map_length; reflexivity).
  destruct m as [|i m]; py.
  - rewrite app_length, L. cbn [length]. replace (length (map snd win) + 1 - length (map snd win)) with 1 by lia.
    cbn [repeat]. rewrite combine_snoc, combine_fst_snd by exact L. reflexivity.
  - rewrite !app_length, L. cbn [length]. rewrite Nat.sub_diag. cbn [repeat]. rewrite app_nil_r.
    rewrite combine_snoc, combine_fst_snd by exact L. reflexivity.
Qed.
Theorem bridge_update_collect s p x m : gen_update_collect s p x m = update KCollect s p x m.
Proof. apply weaken, bridge_run_collect. Qed.

Theorem bridge_flush_collect s : gen_flush_collect s = RSome (flush_actions s).
Proof.
  unfold gen_flush_collect, gen_body_collect_flush, flush_actions.
  unfold collect_store, collect_load, collect_cache, collect_metadata_cache, collect_cache_clear, collect_metadata_cache_clear.
  destruct s as [acc cnt det keyed win seen ports last]. py.
  rewrite flatten_md_map_snd. reflexivity.
Qed.

(* ---- slice (update is only delivered to a node that has not removed itself from its upstream) -------------------- *)
Theorem bridge_run_slice star stop step s p x m : st_detached s = false ->
  gen_run_slice star stop step s p x m = of_option (update (KSlice star stop step) s p x m).
Proof.
  intros Hd. unfold gen_run_slice, gen_body_slice. cbn [update].
  unfold slice_state, slice_state_set, slice_detach.
  destruct s as [acc cnt det keyed win seen ports last]. cbn [st_detached] in Hd. subst det.
  crunch_with ltac:(rewrite ?Nat.add_1_r; cbn [is_none optnat_le Nat.add]).
  all: leaves.
Qed.
Theorem bridge_update_slice star stop step s p x m : st_detached s = false ->
  gen_update_slice star stop step s p x m = update (KSlice star stop step) s p x m.
Proof. intros H. apply weaken, bridge_run_slice, H. Qed.

(* ================================================================================================================
   combine_latest, zip_latest: equality modulo retains / releases of an EMPTY metadata list.
   The source skips `self._release_refs(old)` when the stored metadata is empty (`if self.metadata[idx]:`), the model
   always lists `ARelease old`.  An ARelease [] / ARetain [] has no effect in Pipeline.run_actions (strip_run_actions).
   Side condition: the port is one of the node's upstreams (st_last has one entry per upstream). *)
(* ---- results modulo retains / releases of an empty metadata list (no effect in Pipeline.run_actions) ---- *)
Definition noop (a : action) : bool := match a with ARetain [] | ARelease [] => true | _ => false end.
Definition strip (l : list action) : list action := filter (fun a => negb (noop a)) l.
Definition strip_r (r : result) : result :=
  match r with RSome l => RSome (strip l) | RLate l => RLate (strip l) | RNone => RNone end.

Lemma map_set_nth {A B} (f : A -> B) p a l : map f (set_nth p a l) = set_nth p (f a) (map f l).
Proof. revert p. induction l as [|h t IH]; intros [|p]; cbn; try reflexivity. rewrite IH. reflexivity. Qed.
Lemma set_nth_same {A} p (a d : A) l : nth p l d = a -> p < length l -> set_nth p a l = l.
Proof.
  revert p. induction l as [|h t IH]; intros [|p] H Hl; cbn in *; try lia; [congruence|].
  rewrite IH by (assumption || lia). reflexivity.
Qed.
Lemma nth_map_in {A B} (f : A -> B) p l d e : p < length l -> nth p (map f l) e = f (nth p l d).
Proof. revert p. induction l as [|h t IH]; intros [|p] H; cbn in *; try lia; [reflexivity|]. apply IH. lia. Qed.
Lemma latest_roundtrip L : latest_zip (map latest_val L) (map latest_md L) (map is_none L) = L.
Proof. induction L as [|[[v m]|] t IH]; cbn; [reflexivity| |]; rewrite IH; reflexivity. Qed.
Lemma latest_full L :
  match all_some L with
  | Some full => truthy_flags (map is_none L) = false /\ map latest_val L = map fst full /\
                 flatten_optmd (map latest_md L) = Some (flat_map snd full)
  | None => truthy_flags (map is_none L) = true
  end.
Proof.
  induction L as [|[[v m]|] t IH]; cbn [all_some map is_none truthy_flags existsb latest_val latest_md option_map snd
                                           flatten_optmd orb]; [repeat split| |reflexivity].
  destruct (all_some t) as [full|]; cbn [map fst snd flat_map].
  - destruct IH as [H1 [H2 H3]]. unfold truthy_flags in H1. rewrite H1, H2, H3. repeat split.
  - exact IH.
Qed.
Lemma truthy_flags_nth p l : nth p l false = true -> truthy_flags l = true.
Proof.
  unfold truthy_flags. revert p. induction l as [|h t IH]; intros [|p] H; cbn [nth existsb] in *; try discriminate.
  - rewrite H. reflexivity.
  - rewrite (IH p H). apply orb_true_r.
Qed.


Lemma strip_run_actions emit coro d l w : run_actions emit coro d (strip l) w = run_actions emit coro d l w.
Proof.
  unfold run_actions. generalize (w, SOk). induction l as [|a l IH]; intros ws; [reflexivity|].
  cbn [strip filter]. fold (strip l). destruct (noop a) eqn:N; cbn [negb fold_left].
  - rewrite IH. f_equal. destruct ws as [w0 s0]. destruct a as [| [|] | [|] |]; try discriminate;
      cbn [do_action]; destruct (if coro then status_ok s0 else status_go s0); reflexivity.
  - apply IH.
Qed.
Lemma weaken_strip r o : strip_r r = strip_r (of_option o) -> option_map strip (to_option r) = option_map strip o.
Proof. destruct r, o; cbn; intros H; try discriminate; try reflexivity. injection H as ->. reflexivity. Qed.

(* As for zip_latest below: first decide everything the method can ask about the state (was this upstream's entry
   present, was its stored metadata empty, are all entries present afterwards, does this upstream trigger an emission),
   turn the answers into rewrite rules, then only execute. *)
Theorem bridge_run_combine_latest eo s p x m : p < length (st_last s) ->
  strip_r (gen_run_combine_latest eo s p x m) = strip_r (of_option (update (KCombineLatest eo) s p x m)).
Proof.
  intros Hp. unfold gen_run_combine_latest, gen_body_combine_latest. cbn [update].
  unfold combine_latest_store, latest_load, combine_latest_last, combine_latest_last_setitem, combine_latest_metadata,
    combine_latest_metadata_getitem, combine_latest_metadata_setitem, combine_latest_missing,
    combine_latest_missing_contains, combine_latest_missing_remove.
  destruct s as [acc cnt det keyed win seen ports L]. cbn [st_last] in Hp.
  set (L' := set_nth p (Some (x, m)) L).
  assert (Ev : set_nth p x (map latest_val L) = map latest_val L') by (unfold L'; rewrite map_set_nth; reflexivity).
  assert (Em : set_nth p (Some m) (map latest_md L) = map latest_md L') by (unfold L'; rewrite map_set_nth; reflexivity).
  assert (Ei : set_nth p false (map is_none L) = map is_none L') by (unfold L'; rewrite map_set_nth; reflexivity).
  assert (F := latest_full L').
  assert (Nmd := nth_map_in latest_md p L None None Hp).
  assert (Nis := nth_map_in is_none p L None false Hp).
  assert (T : combine_latest_emit_on_contains eo p =
              match eo with Some ps => existsb (Nat.eqb p) ps | None => true end) by reflexivity.
  destruct (match eo with Some ps => existsb (Nat.eqb p) ps | None => true end) eqn:Tr;
  destruct (nth p L None) as [[ov om]|] eqn:Eo; cbn [latest_md option_map snd is_none] in Nmd, Nis.
  all: try (assert (Ei' : map is_none L = map is_none L')
              by (rewrite <- Ei; symmetry; apply set_nth_same with (d := false); [exact Nis | rewrite map_length; exact Hp]);
            assert (Nis' : nth p (map is_none L') false = false) by (rewrite <- Ei'; exact Nis)).
  all: try (assert (Et : truthy_flags (map is_none L) = true) by (apply (truthy_flags_nth p); exact Nis)).
  all: try (destruct om as [|i om]).
  all: destruct (all_some L') as [full|] eqn:EA; [destruct F as [F1 [F2 F3]]|].
  all: repeat (progress (pyr; fold L'; rewrite ?Eo, ?Nmd, ?Nis, ?Nis', ?Ev, ?Em, ?Ei', ?Ei, ?Et, ?EA, ?F1, ?F3, ?F, ?T, ?Tr,
                                   ?latest_roundtrip; rewrite <- ?F2;
                         cbn [truthy_optmd orb andb negb latest_val latest_md option_map fst snd])).
  all: reflexivity.
Qed.

Theorem bridge_update_combine_latest eo s p x m : p < length (st_last s) ->
  option_map strip (gen_update_combine_latest eo s p x m) = option_map strip (update (KCombineLatest eo) s p x m).
Proof. intros H. apply weaken_strip, bridge_run_combine_latest, H. Qed.

(* ---- zip_latest: the `while self.lossless_buffer` loop --------------------------------------------------------- *)
Section Drain.
Variables (cond : M latest_st bool) (body : M latest_st unit).
Hypothesis Hcond : forall st, cond st = Ok (truthy_list (ls_buf st)) st [].
Variables (lv : list val) (lm : list (option md)) (fo : md) (miss : list bool).
Definition mk hv hm buf : latest_st := {| ls_last := hv :: lv; ls_meta := hm :: lm; ls_missing := miss; ls_buf := buf |}.
Hypothesis Hbody : forall hv hm x0 m0 rest, body (mk hv hm ((x0, m0) :: rest)) =
   Ok tt (mk x0 (Some m0) rest)
      [IWrite (mk hv hm rest); IWrite (mk x0 hm rest); IWrite (mk x0 (Some m0) rest);
       IEmit (VTup (x0 :: lv)) (m0 ++ fo); IRelease m0].
Fixpoint drain_items hv hm (buf : list (val * md)) : list (item latest_st) :=
  match buf with
  | [] => []
  | (x0, m0) :: rest =>
      IBar :: IWrite (mk hv hm rest) :: IWrite (mk x0 hm rest) :: IWrite (mk x0 (Some m0) rest)
      :: IEmit (VTup (x0 :: lv)) (m0 ++ fo) :: IRelease m0 :: drain_items x0 (Some m0) rest
  end.
Fixpoint drain_final hv hm (buf : list (val * md)) : latest_st :=
  match buf with
  | [] => mk hv hm []
  | (x0, m0) :: rest => drain_final x0 (Some m0) rest
  end.
Lemma while_drain : forall buf fuel hv hm, length buf <= fuel ->
  while_ fuel cond body (mk hv hm buf) = Ok tt (drain_final hv hm buf) (drain_items hv hm buf).
Proof.
  induction buf as [|[x0 m0] rest IH]; intros fuel hv hm Hf.
  - destruct fuel; cbn [while_]; rewrite bind_unfold, Hcond; reflexivity.
  - destruct fuel as [|fuel]; [cbn in Hf; lia|]. cbn [while_]. rewrite bind_unfold, Hcond. cbn [ls_buf mk truthy_list].
    rewrite bind_unfold. cbn [tell]. rewrite bind_unfold, Hbody. rewrite IH by (cbn in Hf; lia). reflexivity.
Qed.
End Drain.


Section MDrain.
Variables (s : nstate) (T : list (option (val * md))) (others : list (val * md)).
Fixpoint mdrain (b : list (val * md)) : list action :=
  match b with
  | [] => []
  | (x0, m0) :: rest =>
      ASet (set_win (set_last s (Some (x0, m0) :: T)) rest)
      :: AEmit (VTup (x0 :: map fst others)) (m0 ++ flat_map snd others) :: ARelease m0 :: mdrain rest
  end.
End MDrain.
Lemma later_write_drain lv lm fo miss hv hm buf : later_write (drain_items lv lm fo miss hv hm buf) = false.
Proof. destruct buf as [|[x0 m0] rest]; reflexivity. Qed.

Lemma render_drain s T others : map latest_val T = map fst others ->
  forall buf hv hm,
  render (zip_latest_store s)
    (drain_items (map latest_val T) (map latest_md T) (flat_map snd others) (false :: map is_none T) hv hm buf)
  = mdrain s T others buf.
Proof.
  intros Hv. induction buf as [|[x0 m0] rest IH]; intros hv hm; [reflexivity|].
  cbn [drain_items render later_write]. rewrite IH. cbn [mdrain]. unfold zip_latest_store, mk.
  cbn [ls_last ls_meta ls_missing ls_buf latest_zip]. rewrite latest_roundtrip, Hv. reflexivity.
Qed.

Lemma later_write_app {PS} (pre X : list (item PS)) :
  (X = [] \/ exists t, X = IBar :: t) -> later_write (pre ++ X) = later_write pre.
Proof.
  intros HX. induction pre as [|i pre IH]; cbn [app later_write].
  - destruct HX as [->|[t ->]]; reflexivity.
  - destruct i; try reflexivity; exact IH.
Qed.
Lemma render_app_bar {PS} (store : PS -> nstate) (pre X : list (item PS)) :
  (X = [] \/ exists t, X = IBar :: t) -> render store (pre ++ X) = render store pre ++ render store X.
Proof.
  intros HX. induction pre as [|i pre IH]; cbn [app render]; [reflexivity|].
  destruct i; rewrite ?IH; try reflexivity.
  rewrite later_write_app by exact HX. destruct (later_write pre); reflexivity.
Qed.
Lemma drain_items_shape lv lm fo miss hv hm buf :
  drain_items lv lm fo miss hv hm buf = [] \/ exists t, drain_items lv lm fo miss hv hm buf = IBar :: t.
Proof. destruct buf as [|[x0 m0] rest]; [left; reflexivity | right; eexists; reflexivity]. Qed.

Ltac unfold_zl := unfold latest_load, zip_latest_last, zip_latest_last_setitem, zip_latest_metadata,
    zip_latest_metadata_getitem, zip_latest_metadata_setitem, zip_latest_missing, zip_latest_missing_contains,
    zip_latest_missing_remove, zip_latest_lossless_buffer, zip_latest_lossless_buffer_append,
    zip_latest_lossless_buffer_popleft, combine_latest_last, combine_latest_last_setitem, combine_latest_metadata,
    combine_latest_metadata_getitem, combine_latest_metadata_setitem, combine_latest_missing,
    combine_latest_missing_contains, combine_latest_missing_remove, ls_set_last, ls_set_meta, ls_set_missing, ls_set_buf.

Ltac pz := repeat (progress (py; cbn [map nth set_nth Nat.eqb is_none all_some length];
                             rewrite ?bind_bind, ?bind_rd, ?bind_ret)).
(* the leaf of the proof in which the loop runs: T = the other upstreams' entries, all present *)
Ltac loop_leaf T others hv0 hm0 buf F2 F3 :=
  match goal with |- context [while_ _ ?cnd ?bdy] =>
  assert (Hb : forall hv hm x0 m0 rest,
    bdy (mk (map latest_val T) (map latest_md T) (false :: map is_none T) hv hm ((x0, m0) :: rest)) =
    Ok tt (mk (map latest_val T) (map latest_md T) (false :: map is_none T) x0 (Some m0) rest)
      [IWrite (mk (map latest_val T) (map latest_md T) (false :: map is_none T) hv hm rest);
       IWrite (mk (map latest_val T) (map latest_md T) (false :: map is_none T) x0 hm rest);
       IWrite (mk (map latest_val T) (map latest_md T) (false :: map is_none T) x0 (Some m0) rest);
       IEmit (VTup (x0 :: map latest_val T)) (m0 ++ flat_map snd others); IRelease m0])
    by (intros; unfold mk; pz; cbn [flatten_optmd]; rewrite F3; pz; reflexivity);
  rewrite bind_unfold;
  match goal with |- context [while_ _ cnd bdy ?st] =>
    change st with (mk (map latest_val T) (map latest_md T) (false :: map is_none T) hv0 hm0 buf) end;
  rewrite (while_drain cnd bdy (fun st => eq_refl) _ _ _ _ Hb) by lia
  end;
  cbn [bind ret app]; rewrite app_nil_r;
  cbn [finish render later_write]; rewrite later_write_drain; cbn [existsb is_set orb negb andb];
  rewrite render_drain by exact F2;
  unfold mk, zip_latest_store; cbn [ls_last ls_meta ls_missing ls_buf latest_zip]; rewrite ?latest_roundtrip;
  reflexivity.

Lemma truthy_flags_cons b l : truthy_flags (b :: l) = b || truthy_flags l.
Proof. reflexivity. Qed.

(* a leaf in which the loop does not run: the final state is committed once *)
Ltac store_leaf Ev := unfold zip_latest_store; pz; cbn [latest_zip]; rewrite ?Ev, ?latest_roundtrip; reflexivity.

(* The proof first decides everything the method can ask about the state (is the entry of this upstream / of the lossless
   upstream present, is its stored metadata empty, are all the others present), turns the answers into rewrite rules for
   the forms these questions take after unfolding, and then only executes: it does not depend on how the source nests,
   merges, orders or negates its tests. *)
Theorem bridge_run_zip_latest s p x m : p < length (st_last s) ->
  strip_r (gen_run_zip_latest s p x m) = strip_r (of_option (update KZipLatest s p x m)).
Proof.
  intros Hp. unfold gen_run_zip_latest, gen_body_zip_latest. cbn [update].
  destruct s as [acc cnt det keyed win seen ports L]. cbn [st_last st_win] in *.
  destruct L as [|o T0]; [cbn in Hp; lia|].
  destruct p as [|p'].
  - (* the lossless upstream *)
    assert (F := latest_full T0). unfold_zl.
    destruct o as [[ov om]|]; (destruct (all_some T0) as [others|] eqn:EA; [destruct F as [F1 [F2 F3]]|]);
      repeat (progress (pz; rewrite ?truthy_flags_cons, ?EA, ?F1, ?F; cbn [orb andb negb]));
      first [ loop_leaf T0 others x (Some m) (win ++ [(x, m)]) F2 F3 | store_leaf F2 ].
  - (* another upstream *)
    assert (Hp' : p' < length T0) by (cbn in Hp; lia).
    set (T' := set_nth p' (Some (x, m)) T0).
    assert (Ev : set_nth p' x (map latest_val T0) = map latest_val T') by (unfold T'; rewrite map_set_nth; reflexivity).
    assert (Em : set_nth p' (Some m) (map latest_md T0) = map latest_md T') by (unfold T'; rewrite map_set_nth; reflexivity).
    assert (Ei : set_nth p' false (map is_none T0) = map is_none T') by (unfold T'; rewrite map_set_nth; reflexivity).
    assert (F := latest_full T').
    assert (Nmd := nth_map_in latest_md p' T0 None None Hp').
    assert (Nis := nth_map_in is_none p' T0 None false Hp').
    unfold_zl.
    destruct (nth p' T0 None) as [[ov om]|] eqn:Eo; cbn [latest_md option_map snd is_none] in Nmd, Nis.
    + (* it had emitted before: its old metadata is released (unless empty); the set of missing upstreams is unchanged *)
      assert (Ei' : map is_none T0 = map is_none T').
      { rewrite <- Ei. symmetry. apply set_nth_same with (d := false); [|rewrite map_length; exact Hp']. exact Nis. }
      assert (Nis' : nth p' (map is_none T') false = false) by (rewrite <- Ei'; exact Nis).
      destruct om as [|i om]; destruct o as [[v0 m0]|];
        (destruct (all_some T') as [others|] eqn:EA; [destruct F as [F1 [F2 F3]]|]);
        repeat (progress (pz; fold T'; rewrite ?truthy_flags_cons, ?Eo, ?Nmd, ?Nis, ?Nis', ?Ev, ?Em, ?Ei', ?EA, ?F1, ?F;
                          cbn [truthy_optmd orb andb negb latest_val latest_md option_map fst snd]));
        first [ loop_leaf T' others v0 (Some m0) win F2 F3 | store_leaf Ev ].
    + (* first element from this upstream: it was missing *)
      assert (Et : truthy_flags (map is_none T0) = true) by (apply (truthy_flags_nth p'); exact Nis).
      destruct o as [[v0 m0]|];
        (destruct (all_some T') as [others|] eqn:EA; [destruct F as [F1 [F2 F3]]|]);
        repeat (progress (pz; fold T'; rewrite ?truthy_flags_cons, ?Eo, ?Nmd, ?Nis, ?Et, ?Ev, ?Em, ?Ei, ?EA, ?F1, ?F;
                          cbn [truthy_optmd orb andb negb latest_val latest_md option_map fst snd]));
        first [ loop_leaf T' others v0 (Some m0) win F2 F3 | store_leaf Ev ].
Qed.

Theorem bridge_update_zip_latest s p x m : p < length (st_last s) ->
  option_map strip (gen_update_zip_latest s p x m) = option_map strip (update KZipLatest s p x m).
Proof. intros H. apply weaken_strip, bridge_run_zip_latest, H. Qed.

(* ---- partition_unique: modulo empty releases (`if replaced:` / `elif metadata:` in the source); invariant of the
        reachable states: every entry holds exactly one value and the keys are distinct ------------------------------ *)
Definition pu_single (e : val * (list val * md)) : Prop := exists v, fst (snd e) = [v].
Definition pu_inv (K : list (val * (list val * md))) : Prop := Forall pu_single K /\ NoDup (map fst K).

Lemma assoc_get_map {B C} (g : B -> C) y (K : list (val * B)) :
  assoc_get y (map (fun e => (fst e, g (snd e))) K) = option_map g (assoc_get y K).
Proof. induction K as [|[k b] t IH]; cbn; [reflexivity|]. destruct (val_eqb y k); [reflexivity | exact IH]. Qed.
Lemma assoc_remove_map {B C} (g : B -> C) y (K : list (val * B)) :
  assoc_remove y (map (fun e => (fst e, g (snd e))) K) = map (fun e => (fst e, g (snd e))) (assoc_remove y K).
Proof. induction K as [|[k b] t IH]; cbn; [reflexivity|]. destruct (val_eqb y k); cbn; [reflexivity | rewrite IH; reflexivity]. Qed.
Lemma assoc_set_absent {B} y (v : B) l : assoc_get y l = None -> assoc_set y v l = l ++ [(y, v)].
Proof.
  induction l as [|[k b] t IH]; cbn; [reflexivity|]. destruct (val_eqb y k); [discriminate|]. intros H. rewrite IH by exact H. reflexivity.
Qed.
Lemma assoc_get_In {B} y (l : list (val * B)) b : assoc_get y l = Some b -> In y (map fst l).
Proof.
  induction l as [|[k b'] t IH]; cbn; [discriminate|]. destruct (val_eqb y k) eqn:E.
  - intros _. left. apply NodeSem2.val_eqb_spec in E. congruence.
  - intros H. right. apply IH, H.
Qed.
Lemma assoc_get_remove {B} y (l : list (val * B)) : NoDup (map fst l) -> assoc_get y (assoc_remove y l) = None.
Proof.
  induction l as [|[k b] t IH]; cbn; [reflexivity|]. intros H. inversion H as [|? ? Hn Hd]; subst.
  destruct (val_eqb y k) eqn:E; cbn.
  - apply NodeSem2.val_eqb_spec in E. subst k. destruct (assoc_get y t) eqn:G; [|reflexivity].
    exfalso. apply Hn. eapply assoc_get_In, G.
  - rewrite E. apply IH, Hd.
Qed.
Lemma pu_roundtrip K : Forall pu_single K -> map pu_join (combine (map pu_fb K) (map pu_fm K)) = K.
Proof.
  induction 1 as [|[k [vs md0]] t [v Hv] Ht IH]; cbn; [reflexivity|]. cbn in Hv. subst vs. rewrite IH. reflexivity.
Qed.
Lemma pu_vals K : Forall pu_single K -> map snd (map pu_fb K) = flat_map (fun e => fst (snd e)) K.
Proof. induction 1 as [|[k [vs md0]] t [v Hv] Ht IH]; cbn; [reflexivity|]. cbn in Hv. subst vs. rewrite IH. reflexivity. Qed.
Lemma pu_mds K : flatten_md (filter truthy_md (map snd (map pu_fm K))) = flat_map (fun e => snd (snd e)) K.
Proof.
  unfold flatten_md. induction K as [|[k [vs md0]] t IH]; cbn; [reflexivity|].
  destruct md0 as [|i md0]; cbn; rewrite IH; reflexivity.
Qed.
Lemma pu_single_snoc K y x m : Forall pu_single K -> Forall pu_single (K ++ [(y, ([x], m))]).
Proof. intros H. apply Forall_app. split; [exact H|]. constructor; [exists x; reflexivity | constructor]. Qed.
Lemma Forall_assoc_remove {B} (P : val * B -> Prop) y l : Forall P l -> Forall P (assoc_remove y l).
Proof. induction 1 as [|[k b] t Hk Ht IH]; cbn; [constructor|]. destruct (val_eqb y k); [exact Ht | constructor; assumption]. Qed.

Ltac pu := repeat (progress (py; cbn [pu_buf pu_mbuf]; rewrite ?bind_bind, ?bind_rd, ?bind_ret)).
Ltac fin_pu SB SM RB RM GB GM :=
    repeat (progress (pu; rewrite ?RB, ?RM, ?GB, ?GM; rewrite ?SB, ?SM by assumption;
                      rewrite ?map_length, ?pu_mds; rewrite ?pu_vals, ?pu_roundtrip by assumption)).

Theorem bridge_run_partition_unique n key kl s p x m : pu_inv (st_keyed s) ->
  strip_r (gen_run_partition_unique n key kl s p x m) = strip_r (of_option (update (KPartUnique n key kl) s p x m)).
Proof.
  intros [I1 I2]. unfold gen_run_partition_unique, gen_body_partition_unique. cbn [update].
  unfold partition_unique_load, partition_unique__buffer, partition_unique__buffer_set, partition_unique__metadata_buffer,
    partition_unique__metadata_buffer_set, partition_unique__buffer_pop, partition_unique__metadata_buffer_pop,
    partition_unique__buffer_setitem, partition_unique__metadata_buffer_setitem, partition_unique__buffer_contains,
    partition_unique__buffer_values, partition_unique__metadata_buffer_values.
  destruct s as [acc cnt det K win seen ports last]. cbn [st_keyed] in *.
  set (y := key x).
  assert (GB : forall K0, assoc_get y (map pu_fb K0) = option_map (fun b => hd VNone (fst b)) (assoc_get y K0))
    by (intros; apply (assoc_get_map (fun b => hd VNone (fst b)))).
  assert (GM : forall K0, assoc_get y (map pu_fm K0) = option_map (fun b => snd b) (assoc_get y K0))
    by (intros; apply (assoc_get_map (fun b => snd b))).
  assert (RB : forall K0, assoc_remove y (map pu_fb K0) = map pu_fb (assoc_remove y K0))
    by (intros; apply (assoc_remove_map (fun b => hd VNone (fst b)))).
  assert (RM : forall K0, assoc_remove y (map pu_fm K0) = map pu_fm (assoc_remove y K0))
    by (intros; apply (assoc_remove_map (fun b => snd b))).
  assert (SB : forall K0, assoc_get y K0 = None -> assoc_set y x (map pu_fb K0) = map pu_fb (K0 ++ [(y, ([x], m))])).
  { intros K0 H. rewrite assoc_set_absent by (rewrite GB, H; reflexivity). rewrite map_app. reflexivity. }
  assert (SM : forall K0, assoc_get y K0 = None -> assoc_set y m (map pu_fm K0) = map pu_fm (K0 ++ [(y, ([x], m))])).
  { intros K0 H. rewrite assoc_set_absent by (rewrite GM, H; reflexivity). rewrite map_app. reflexivity. }
  assert (N1 : assoc_get y (assoc_remove y K) = None) by (apply assoc_get_remove, I2).
  assert (I1r : Forall pu_single (assoc_remove y K)) by (apply Forall_assoc_remove, I1).
  assert (I1a : Forall pu_single (assoc_remove y K ++ [(y, ([x], m))])) by (apply pu_single_snoc, I1r).
  assert (I1b : Forall pu_single (K ++ [(y, ([x], m))])) by (apply pu_single_snoc, I1).
  destruct kl.
  - (* keep = 'last' *)
    pu. rewrite GM. destruct (assoc_get y K) as [[ovs om]|] eqn:G; cbn [option_map snd truthy_optmd].
    + destruct om as [|i om]; fin_pu SB SM RB RM GB GM;
        (split_eqb; fin_pu SB SM RB RM GB GM;
         unfold partition_unique_store; fin_pu SB SM RB RM GB GM; reflexivity).
    + fin_pu SB SM RB RM GB GM;
        (split_eqb; fin_pu SB SM RB RM GB GM;
         unfold partition_unique_store; fin_pu SB SM RB RM GB GM; reflexivity).
  - (* keep = 'first' *)
    pu. rewrite GB. destruct (assoc_get y K) as [[ovs om]|] eqn:G; cbn [option_map is_none negb].
    + destruct m as [|i m]; fin_pu SB SM RB RM GB GM;
        (split_eqb; fin_pu SB SM RB RM GB GM;
         unfold partition_unique_store; fin_pu SB SM RB RM GB GM; reflexivity).
    + fin_pu SB SM RB RM GB GM;
        (split_eqb; fin_pu SB SM RB RM GB GM;
         unfold partition_unique_store; fin_pu SB SM RB RM GB GM; reflexivity).
Qed.

Theorem bridge_update_partition_unique n key kl s p x m : pu_inv (st_keyed s) ->
  option_map strip (gen_update_partition_unique n key kl s p x m) = option_map strip (update (KPartUnique n key kl) s p x m).
Proof. intros H. apply weaken_strip, bridge_run_partition_unique, H. Qed.
(* the invariant holds initially and is preserved by the model's update *)
Lemma pu_inv_init n key kl nups : pu_inv (st_keyed (init_state (KPartUnique n key kl) nups)).
Proof. split; constructor. Qed.

Lemma In_assoc_get {B} y (l : list (val * B)) : In y (map fst l) -> assoc_get y l <> None.
Proof.
  induction l as [|[k b] t IH]; cbn; [tauto|]. intros [E|H].
  - subst k. rewrite NodeSem2.val_eqb_refl. discriminate.
  - destruct (val_eqb y k); [discriminate | apply IH, H].
Qed.
Lemma In_assoc_remove {B} y z (l : list (val * B)) : In z (map fst (assoc_remove y l)) -> In z (map fst l).
Proof.
  induction l as [|[k b] t IH]; cbn; [tauto|]. destruct (val_eqb y k); cbn; [tauto|]. intros [E|H]; [left; exact E | right; apply IH, H].
Qed.
Lemma NoDup_assoc_remove {B} y (l : list (val * B)) : NoDup (map fst l) -> NoDup (map fst (assoc_remove y l)).
Proof.
  induction l as [|[k b] t IH]; cbn; [constructor|]. intros H. inversion H as [|? ? Hn Hd]; subst.
  destruct (val_eqb y k); cbn; [exact Hd|]. constructor; [|apply IH, Hd]. intros X. apply Hn. eapply In_assoc_remove, X.
Qed.
Lemma NoDup_snoc (l : list val) y : NoDup l -> ~ In y l -> NoDup (l ++ [y]).
Proof.
  intros H Hn. induction H as [|a l Ha Hl IH]; cbn; [constructor; [tauto|constructor]|].
  constructor.
  - rewrite in_app_iff. cbn. intros [X|[X|[]]]; [tauto | subst; apply Hn; left; reflexivity].
  - apply IH. intros X. apply Hn. right. exact X.
Qed.
Theorem pu_inv_preserved n key kl s p x m acts s' : pu_inv (st_keyed s) ->
  update (KPartUnique n key kl) s p x m = Some acts -> In (ASet s') acts -> pu_inv (st_keyed s').
Proof.
  intros [I1 I2]. cbn [update]. set (y := key x).
  assert (Hnil : pu_inv []) by (split; constructor).
  assert (Ha : pu_inv (assoc_remove y (st_keyed s) ++ [(y, ([x], m))])).
  { split; [apply pu_single_snoc, Forall_assoc_remove, I1|]. rewrite map_app. apply NoDup_snoc; [apply NoDup_assoc_remove, I2|].
    intros X. apply In_assoc_get in X. apply X, assoc_get_remove, I2. }
  assert (Hb : assoc_get y (st_keyed s) = None -> pu_inv (st_keyed s ++ [(y, ([x], m))])).
  { intros G. split; [apply pu_single_snoc, I1|]. rewrite map_app. apply NoDup_snoc; [exact I2|].
    intros X. apply In_assoc_get in X. apply X, G. }
  assert (Hs : pu_inv (st_keyed s)) by (split; assumption).
  destruct kl.
  - destruct (assoc_get y (st_keyed s)) as [[ovs om]|];
      (destruct (length _ =? n); intros E; injection E as <-; cbn; intros H;
       repeat (destruct H as [H|H]; [try discriminate; injection H as <-; cbn [st_keyed set_keyed]; assumption|]); destruct H).
  - destruct (assoc_get y (st_keyed s)) as [[ovs om]|] eqn:G;
      (destruct (length _ =? n); intros E; injection E as <-; cbn; intros H;
       repeat (destruct H as [H|H]; [try discriminate; injection H as <-; cbn [st_keyed set_keyed]; auto|]); destruct H).
Qed.

(* ---- zip: update and the inlined _emit_tuple; pack_literals is the model's (not translated); the backpressure
        (maxsize, condition) takes no step in the synchronous model.  Side condition: the port is an upstream. ----------- *)
Lemma nth_set_nth_same {A} p (a d : A) l : p < length l -> nth p (set_nth p a l) d = a.
Proof. revert p. induction l as [|h t IH]; intros [|p] H; cbn in *; try lia; [reflexivity|]. apply IH. lia. Qed.
Lemma forallb_truthy {A} (B : list (list A)) : forallb truthy_list B = forallb (fun b => negb (length b =? 0)) B.
Proof. induction B as [|[|a b] t IH]; cbn; [reflexivity|reflexivity|exact IH]. Qed.

Lemma mapM_heads (body : nat -> M nstate (val * md)) :
  (forall up s, body up s = match nth_error (nth up (st_ports s) []) 0 with Some h => Ok h s [] | None => Err [] end) ->
  forall B pre s, st_ports s = pre ++ B -> forallb truthy_list B = true ->
  mapM body (seq (length pre) (length B)) s = Ok (map (hd (VNone, [])) B) s [].
Proof.
  intros Hb. induction B as [|b B IH]; intros pre s Hs Ha; [reflexivity|].
  cbn [length seq mapM]. cbn [forallb] in Ha. apply andb_true_iff in Ha as [Hb1 Ha].
  rewrite bind_unfold, Hb, Hs. rewrite app_nth2 by lia. rewrite Nat.sub_diag. cbn [nth].
  destruct b as [|h b]; [discriminate|]. cbn [nth_error].
  rewrite bind_unfold.
  replace (S (length pre)) with (length (pre ++ [h :: b])) by (rewrite app_length; cbn; lia).
  rewrite IH; [reflexivity| |exact Ha]. rewrite Hs, <- app_assoc. reflexivity.
Qed.

Theorem bridge_run_zip lits maxsize s p x m : p < length (st_ports s) ->
  gen_run_zip lits maxsize s p x m = of_option (update (KZip lits) s p x m).
Proof.
  intros Hp. unfold gen_run_zip, gen_body_zip. cbn [update].
  unfold zip_buffers_getitem, zip_buffers_item_append, zip_buffers_values, zip_buffers_each_popleft, zip_upstreams.
  destruct s as [acc cnt det keyed win seen ports last]. cbn [st_ports] in Hp. pyr.
  set (L := nth p ports [] ++ [(x, m)]). set (B := set_nth p L ports).
  assert (NB : nth p B [] = L) by (apply nth_set_nth_same, Hp).
  rewrite ?NB, <- ?forallb_truthy.
  (* the two things update asks, decided one by one (in whatever order and spelling the source tests them) *)
  split_eqb_on (length L) 1; destruct (forallb truthy_list B) eqn:C; cbn [andb]; pyr; rewrite ?NB.
  1: { rewrite bind_unfold.
    match goal with |- context [mapM ?f (seq 0 (length B)) ?st] =>
      assert (Hf : forall up s, f up s = match nth_error (nth up (st_ports s) []) 0 with Some h => Ok h s [] | None => Err [] end)
        by (intros up s0; pyr; destruct (nth_error (nth up (st_ports s0) []) 0); reflexivity);
      pose proof (mapM_heads f Hf B [] st eq_refl C) as Hm; change (length (@nil (list (val * md)))) with 0 in Hm; rewrite Hm end.
    pyr. rewrite bind_unfold. unfold wr_get at 1. cbn [st_ports set_ports]. rewrite C. pyr. unfold unzip_pairs. cbn [fst snd]. rewrite flatten_md_map_snd.
    destruct lits as [|l lits]; pyr; reflexivity. }
  all: destruct (maxsize <? length L); reflexivity.
Qed.

Theorem bridge_update_zip lits maxsize s p x m : p < length (st_ports s) ->
  gen_update_zip lits maxsize s p x m = update (KZip lits) s p x m.
Proof. intros H. apply weaken, bridge_run_zip, H. Qed.
