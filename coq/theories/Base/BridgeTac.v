(* Tactics shared by the bridge proofs Base/Bridge*.v.

   A bridge states `term generated from the source under test = hand-written model`.  The generated term is rebuilt from
   the CURRENT source on every run, so a tidy-up of the source that changes nothing observable (a local introduced or
   removed, `a and b` split into nested ifs, a condition inverted with the branches swapped, a conditional expression
   instead of an if statement, ...) changes its SHAPE.  The proofs therefore do not walk the generated term position by
   position: they normalise both sides, split on whatever scrutinee is still in the goal, and close the leaves by
   computation or linear arithmetic.  Nothing here can make a false bridge provable. *)
From Coq Require Import ZArith Bool Lia Arith List.

(* boolean hypotheses (as left by [destruct c eqn:?]) as arithmetic facts *)
Ltac bool_hyps := repeat match goal with
  | H : true = false |- _ => discriminate H
  | H : false = true |- _ => discriminate H
  | H : andb _ _ = true |- _ => apply andb_true_iff in H; destruct H
  | H : andb _ _ = false |- _ => apply andb_false_iff in H; destruct H
  | H : orb _ _ = true |- _ => apply orb_true_iff in H; destruct H
  | H : orb _ _ = false |- _ => apply orb_false_iff in H; destruct H
  | H : negb _ = true |- _ => apply negb_true_iff in H
  | H : negb _ = false |- _ => apply negb_false_iff in H
  | H : (_ <? _)%Z = true |- _ => apply Z.ltb_lt in H
  | H : (_ <? _)%Z = false |- _ => apply Z.ltb_ge in H
  | H : (_ <=? _)%Z = true |- _ => apply Z.leb_le in H
  | H : (_ <=? _)%Z = false |- _ => apply Z.leb_gt in H
  | H : (_ >? _)%Z = _ |- _ => rewrite Z.gtb_ltb in H
  | H : (_ >=? _)%Z = _ |- _ => rewrite Z.geb_leb in H
  | H : (_ =? _)%Z = true |- _ => apply Z.eqb_eq in H
  | H : (_ =? _)%Z = false |- _ => apply Z.eqb_neq in H
  | H : (_ <? _)%nat = true |- _ => apply Nat.ltb_lt in H
  | H : (_ <? _)%nat = false |- _ => apply Nat.ltb_ge in H
  | H : (_ <=? _)%nat = true |- _ => apply Nat.leb_le in H
  | H : (_ <=? _)%nat = false |- _ => apply Nat.leb_gt in H
  | H : (_ =? _)%nat = true |- _ => apply Nat.eqb_eq in H
  | H : (_ =? _)%nat = false |- _ => apply Nat.eqb_neq in H
  end.

(* split on every conditional still in the goal (innermost scrutinee first), remembering what was assumed *)
Ltac inner_if c :=
  lazymatch c with
  | context [if ?d then _ else _] => inner_if d
  | _ => c
  end.
Ltac split_ifs := repeat match goal with
  | |- context [if ?c then _ else _] => let d := inner_if c in destruct d eqn:?
  end.

(* a leaf of an arithmetic kernel bridge: both sides are closed expressions over Z / bool / option / pairs *)
Ltac zleaf :=
  try reflexivity; bool_hyps; subst;
  first [ reflexivity | exfalso; lia | lia | repeat (f_equal; try lia) ].

(* an arithmetic kernel: unfold the local definitions of both sides, split, decide *)
Ltac zkernel := cbv zeta; split_ifs; zleaf.
