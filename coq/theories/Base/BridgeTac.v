(* Tactics shared by the bridge proofs Base/Bridge*.v.

   A bridge states `term generated from the source under test = hand-written model`.  The generated term is rebuilt from
   the CURRENT source on every run, so a tidy-up of the source that changes nothing observable (a local introduced or
   removed, `a and b` split into nested ifs, a condition inverted with the branches swapped, a conditional expression
   instead of an if statement, ...) changes its SHAPE.  The proofs therefore do not walk the generated term position by
   position: they normalise both sides, split on whatever scrutinee is still in the goal, and close the leaves by
   computation or linear arithmetic.  Nothing here can make a false bridge provable. *)
From Coq Require Import ZArith Bool Lia Arith List.

(* boolean hypotheses (as left by [destruct c eqn:?]) as arithmetic facts *)
Ltac bool_hyps := repeat match goal with
  | H : true = false |- _ => discriminate H
  | H : false = true |- _ => discriminate H
  | H : andb _ _ = true |- _ => apply andb_true_iff in H; destruct H
  | H : andb _ _ = false |- _ => apply andb_false_iff in H; destruct H
  | H : orb _ _ = true |- _ => apply orb_true_iff in H; destruct H
  | H : orb _ _ = false |- _ => apply orb_false_iff in H; destruct H
  | H : negb _ = true |- _ => apply negb_true_iff in H
  | H : negb _ = false |- _ => apply negb_false_iff in H
  | H : (_ <? _)%Z = true |- _ => apply Z.ltb_lt in H
  | H : (_ <? _)%Z = false |- _ => apply Z.ltb_ge in H
  | H : (_ <=? _)%Z = true |- _ => apply Z.leb_le in H
  | H : (_ <=? _)%Z = false |- _ => apply Z.leb_gt in H
  | H : (_ >? _)%Z = _ |- _ => rewrite Z.gtb_ltb in H
  | H : (_ >=? _)%Z = _ |- _ => rewrite Z.geb_leb in H
  | H : (_ =? _)%Z = true |- _ => apply Z.eqb_eq in H
  | H : (_ =? _)%Z = false |- _ => apply Z.eqb_neq in H
  | H : (_ <? _)%nat = true |- _ => apply Nat.ltb_lt in H
  | H : (_ <? _)%nat = false |- _ => apply Nat.ltb_ge in H
  | H : (_ <=? _)%nat = true |- _ => apply Nat.leb_le in H
  | H : (_ <=? _)%nat = false |- _ => apply Nat.leb_gt in H
  | H : (_ =? _)%nat = true |- _ => apply Nat.eqb_eq in H
  | H : (_ =? _)%nat = false |- _ => apply Nat.eqb_neq in H
  end.

(* split on every conditional still in the goal (innermost scrutinee first), remembering what was assumed *)
Ltac inner_if c :=
  lazymatch c with
  | context [if ?d then _ else _] => inner_if d
  | _ => c
  end.
Ltac split_ifs := repeat match goal with
  | |- context [if ?c then _ else _] => let d := inner_if c in destruct d eqn:?
  end.

(* a leaf of an arithmetic kernel bridge: both sides are closed expressions over Z / bool / option / pairs *)
Ltac zleaf :=
  try reflexivity; bool_hyps; try subst;
  first [ reflexivity | exfalso; lia | lia | repeat (f_equal; try lia) ].

(* an arithmetic kernel: unfold the local definitions of both sides, split, decide *)
Ltac zkernel := cbv zeta; split_ifs; zleaf.

(* ---- splitting on tests, whatever their shape ---------------------------------------------------------------------- *)
(* the first atom of a test built with && || negb and conditionals *)
Ltac bool_atom c :=
  lazymatch c with
  | andb ?a _ => bool_atom a
  | orb ?a _ => bool_atom a
  | negb ?a => bool_atom a
  | (if ?a then _ else _) => bool_atom a
  | _ => c
  end.
(* split on the atoms of every test still in the goal: `a && b`, nested ifs, `negb a` with swapped branches and De Morgan
   variants all end in the same leaves *)
Ltac split_tests :=
  repeat (match goal with
          | |- context [if ?c then _ else _] => let a := bool_atom c in destruct a eqn:?
          end; cbn [andb orb negb]).

(* the innermost scrutinee of the matches in a term *)
Ltac scrutinee t :=
  lazymatch t with
  | context [match ?c with _ => _ end] => scrutinee c
  | _ => t
  end.
(* which scrutinees may be split on (a bridge file can exclude the terms that are merely not executed yet) *)
Ltac splittable d := idtac.
(* what to split on for a scrutinee (a bridge file can say: for a test `is_none o` split on o itself) *)
Ltac subject d := d.
Ltac split_on d := let e := subject d in splittable e; destruct e eqn:?.
Ltac split_once :=
  match goal with
  | |- context [if ?c then _ else _] => let a := bool_atom c in let d := scrutinee a in split_on d
  | |- context [match ?c with _ => _ end] => let d := scrutinee c in split_on d
  end; cbn [andb orb negb].

(* contradictory or arithmetic leaf over nat / Z *)
Ltac arith_leaf := first [ reflexivity | exfalso; bool_hyps; try subst; lia | bool_hyps; try subst; repeat (f_equal; try lia) ].

(* two boolean expressions that say the same thing in different words *)
Ltac bool_eq := first [ reflexivity | match goal with |- ?a = ?b => destruct a eqn:?; destruct b eqn:?; arith_leaf end ].

(* decide one equality test between naturals in the goal; the mirrored test (b =? a) is decided along with it *)
Ltac split_eqb_on a b :=
  let E := fresh "E" in
  destruct (Nat.eqb_spec a b) as [E|E];
  [ try rewrite (proj2 (Nat.eqb_eq b a) (eq_sym E)) | try rewrite (proj2 (Nat.eqb_neq b a) (not_eq_sym E)) ].
Ltac split_eqb := match goal with |- context [Nat.eqb ?a ?b] => split_eqb_on a b end.
