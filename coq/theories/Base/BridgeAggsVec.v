(* Base/BridgeAggsVec.v — vector path of the aggregation classes regenerated from aggregations.py (Gen/KA_*.v, the
   definitions `gen_*_v`): a streaming DataFrame, where every statistic is a pandas Series with one entry per column
   (`isinstance(x, Number)` is false, `acc + new.sum()` is element-wise).  Bridged to the `_v` aggregations of DF/Agg.v.

   `frames_vops cs` instantiates the abstract interface with DF/Frames.v: the frame with columns cs.
   Proof method: split on the scalar tests (empty batch? ddof = 0?), then every component is an equation between
   element-wise combinations of the same lists: generalise the lists, induct on one and case on the others, and decide
   the equation between the two head elements exactly as on the scalar path (Base/BridgeAggs.v).  Nothing depends on
   how the element-wise expression is nested or spelled. *)
From Coq Require Import List ZArith QArith Qcanon Bool Lia.
From SZ Require Import Base.BridgeTac Base.AggPrims.
From SZ Require Import Gen.KA_Sum Gen.KA_Count Gen.KA_Size Gen.KA_Mean Gen.KA_Var.
From SZ Require Import DF.Frames DF.Agg.
From SZ Require Import Base.BridgeAggs.
Import ListNotations.

Definition frames_vops (cs : list nat) : pdv_ops :=
  mk_pdv_ops frame (fun f => Z.of_nat (length f)) (fsize cs) (per cs psum) (per cs psumsq) (per cs pcount) (fun _ => []).

Definition res_vo {S} (p : S * list fnum) : S * list (option Qc) := (fst p, map f2o (snd p)).

(* ---- tactics ---- *)
(* the scalar tests only (no float arithmetic yet: it sits under the binders of the element-wise functions) *)
Ltac vsplit := repeat (use_hyps; cbn [negb andb orb fst snd res_vo]; try split1).

Ltac vopen :=
  cbn [frames_vops vfr v_len v_size v_sum v_sumsq v_count v_empty
       on_new on_old initial sum_v count_v size_v mean_v var_v nonempty];
  unfold dup, zipw3, res_vo; cbn [fst snd].

(* the per-column statistics of the batch are just some lists *)
Ltac gen_per := repeat match goal with |- context [per ?cs ?g ?f] => generalize (per cs g f); intro end.
Ltac revert_lists := repeat match goal with
  | l : list _ |- ?G => match G with context [l] => revert l end
  end.
(* case on every list still quantified in the goal *)
Ltac case_lists := repeat (let m := fresh "m" in intro m; destruct m as [|? m]).
Ltac vhead := cbn [fst snd]; unfold compute_result, qdivz; fcrunch; aleaf.
Lemma cons_eq {A} (a b : A) l l' : a = b -> l = l' -> a :: l = b :: l'.
Proof. intros -> ->. reflexivity. Qed.
Ltac vec_ind :=
  gen_per; revert_lists;
  let l := fresh "l" in let IH := fresh "IH" in
  intro l; induction l as [|? l IH]; case_lists;
  cbn [vzip zipw map]; try reflexivity;
  (apply cons_eq; [ vhead | apply IH ]).
Ltac vec_eq := reflexivity || vec_ind.
Ltac vcongr := repeat match goal with
  | |- Some _ = Some _ => f_equal
  | |- (_, _) = (_, _) => f_equal
  end.
Ltac by_batch_v new :=
  destruct new as [|r new];
  [ cbn [length Z.of_nat nonempty]
  | cbn [nonempty];
    let L := fresh "L" in let HL := fresh "HL" in
    set (L := Z.of_nat (length (r :: new)));
    assert (HL : (0 < L)%Z) by (subst L; cbn [length]; lia);
    clearbody L ];
  vopen; vsplit; try (exfalso; bool_hyps; lia); vcongr; vec_eq.

(* ---------------------------------------------------------------------------------------------------- Sum *)
Lemma bridge_sum_on_new_v cs acc new : Some (gen_sum_on_new_v (frames_vops cs) acc new) = on_new (sum_v cs) acc new.
Proof. unfold gen_sum_on_new_v. vopen. by_batch_v new. Qed.
Lemma bridge_sum_on_old_v cs acc old : Some (gen_sum_on_old_v (frames_vops cs) acc old) = on_old (sum_v cs) acc old.
Proof. unfold gen_sum_on_old_v. vopen. by_batch_v old. Qed.
Lemma bridge_sum_initial_v cs new : gen_sum_initial_v (frames_vops cs) new = initial (sum_v cs) new.
Proof. unfold gen_sum_initial_v. vopen. unfold per. rewrite ?map_map. reflexivity. Qed.

(* ---------------------------------------------------------------------------------------------------- Count *)
Lemma bridge_count_on_new_v cs acc new : Some (gen_count_on_new_v (frames_vops cs) acc new) = on_new (count_v cs) acc new.
Proof. unfold gen_count_on_new_v. vopen. by_batch_v new. Qed.
Lemma bridge_count_on_old_v cs acc old : Some (gen_count_on_old_v (frames_vops cs) acc old) = on_old (count_v cs) acc old.
Proof. unfold gen_count_on_old_v. vopen. by_batch_v old. Qed.
(* `new.iloc[:0].count()`: the count of every column of the empty frame *)
Lemma bridge_count_initial_v cs new : gen_count_initial_v (frames_vops cs) new = initial (count_v cs) new.
Proof. unfold gen_count_initial_v. vopen. unfold per. reflexivity. Qed.

(* ---------------------------------------------------------------------------------------------------- Size *)
Lemma bridge_size_on_new_v cs acc new : Some (gen_size_on_new_v (frames_vops cs) acc new) = on_new (size_v cs) acc new.
Proof. unfold gen_size_on_new_v. vopen. vcongr; (reflexivity || lia). Qed.
Lemma bridge_size_on_old_v cs acc old : Some (gen_size_on_old_v (frames_vops cs) acc old) = on_old (size_v cs) acc old.
Proof. unfold gen_size_on_old_v. vopen. vcongr; (reflexivity || lia). Qed.
Lemma bridge_size_initial_v cs new : gen_size_initial_v (frames_vops cs) new = initial (size_v cs) new.
Proof. reflexivity. Qed.

(* ---------------------------------------------------------------------------------------------------- Mean *)
(* `_divide(totals, counts)` on per-column Series: no scalar test, NaN per column where the count is 0 *)
Lemma bridge_divide_v cs totals counts : map f2o (gen_divide_v (frames_vops cs) totals counts) = zipw qdivz totals counts.
Proof. unfold gen_divide_v. vopen. vec_eq. Qed.
Lemma bridge_mean_on_new_v cs acc new :
  Some (res_vo (gen_mean_on_new_v (frames_vops cs) acc new)) = on_new (mean_v cs) acc new.
Proof. destruct acc as [t n]. unfold gen_mean_on_new_v. vopen. by_batch_v new. Qed.
Lemma bridge_mean_on_old_v cs acc old :
  Some (res_vo (gen_mean_on_old_v (frames_vops cs) acc old)) = on_old (mean_v cs) acc old.
Proof. destruct acc as [t n]. unfold gen_mean_on_old_v. vopen. by_batch_v old. Qed.
Lemma bridge_mean_initial_v cs new : gen_mean_initial_v (frames_vops cs) new = initial (mean_v cs) new.
Proof. unfold gen_mean_initial_v. vopen. unfold per. rewrite ?map_map. reflexivity. Qed.

(* ---------------------------------------------------------------------------------------------------- Var *)
Lemma bridge_var_compute_result_v cs ddof x x2 n :
  map f2o (gen_var_compute_result_v (frames_vops cs) ddof x x2 n) = zipw3 (compute_result ddof) x x2 n.
Proof. unfold gen_var_compute_result_v. vopen. vsplit; vec_eq. Qed.
Lemma bridge_var_on_new_v cs ddof acc new :
  Some (res_vo (gen_var_on_new_v (frames_vops cs) ddof acc new)) = on_new (var_v cs ddof) acc new.
Proof. destruct acc as [[x x2] n]. unfold gen_var_on_new_v. vopen. by_batch_v new. Qed.
Lemma bridge_var_on_old_v cs ddof acc old :
  Some (res_vo (gen_var_on_old_v (frames_vops cs) ddof acc old)) = on_old (var_v cs ddof) acc old.
Proof. destruct acc as [[x x2] n]. unfold gen_var_on_old_v. vopen. by_batch_v old. Qed.
Lemma bridge_var_initial_v cs ddof new : gen_var_initial_v (frames_vops cs) new = initial (var_v cs ddof) new.
Proof. unfold gen_var_initial_v. vopen. unfold per. rewrite ?map_map. reflexivity. Qed.
