(* C19 — one event loop per pipeline; async pipelines never leave the caller's loop.
   Only statements closed by `exact`; the model is Ext/LoopPercolate.v, proofs are in Ext/LoopPercolateProofs.v.

   cfg = (fix_init, fix_join, has_client) selects the variant of Stream.__init__ (see LoopPercolate.v);
   /repo as found is `as_found` = (false,false,false).  Theorems that need the repaired __init__ say
   `fix_init c = true`; everything else holds for every variant, in particular for the code as found. *)
From Coq Require Import List Arith Bool.
From SZ Require Import Ext.LoopPercolate.
From SZ Require Import Ext.LoopPercolateProofs.
From SZ Require Import Ext.LoopPercolateCases.
Import ListNotations.

(* the percolation fuel chosen by the model is always enough: OutOfFuel never hides an outcome *)
Theorem C19_fuel_enough : forall c g r, construct c g r <> OutOfFuel.
Proof. exact construct_fuel_enough. Qed.
Print Assumptions C19_fuel_enough.

(* ---- one loop / one mode per connected pipeline, over ALL sessions of successful constructions ---------- *)
(* Session c [] rs g: the requests rs, issued in order from the empty graph, all succeed and give g; every
   request refers to existing nodes and satisfies join_ok: either the variant percolates on joins, or all
   upstreams of the request agree on loop and on asynchronous-vs-blocking (always true for <= 1 upstream). *)
Theorem C19_one_loop : forall c rs g i j,
  Session c [] rs g -> connected g i j ->
  (forall la lb, gl g i = Some la -> gl g j = Some lb -> la = lb) /\
  (forall a b, ga g i = Some a -> ga g j = Some b -> a = b).
Proof. exact one_loop_sessions. Qed.
Print Assumptions C19_one_loop.

(* stronger: connected nodes have the SAME loop field (both unset or both the same loop) and the same
   asynchronous-vs-blocking mode *)
Theorem C19_one_loop_strong : forall c g i j,
  Built c g -> connected g i j -> gl g i = gl g j /\ is_true (ga g i) = is_true (ga g j).
Proof. exact one_loop_strong. Qed.
Print Assumptions C19_one_loop_strong.

Theorem C19_step_preserves_invariants : forall c g r g',
  W g -> Edge g -> valid g r -> join_ok c g r -> construct c g r = Ok g' -> W g' /\ Edge g'.
Proof. exact construct_inv. Qed.
Print Assumptions C19_step_preserves_invariants.

(* the linear fluent API (every node has at most one upstream) needs no side condition *)
Theorem C19_linear_sessions_unconditional : forall c g r, length (r_ups r) <= 1 -> join_ok c g r.
Proof. exact single_upstream_join_ok. Qed.
Print Assumptions C19_linear_sessions_unconditional.

(* the side condition is necessary for the code as found (and with only __init__ repaired): joining an
   asynchronous and a blocking pipeline succeeds and leaves one connected pipeline on two loops *)
Theorem C19_one_loop_join_refuted : forall fi,
  exists rs g, build (mkCfg fi false false) [] rs = Some g /\ connected g 0 1 /\
    gl g 0 = Some Current /\ gl g 1 = Some Background /\ ga g 0 = Some true /\ ga g 1 = Some false.
Proof. exact one_loop_join_refuted. Qed.
Print Assumptions C19_one_loop_join_refuted.

(* ---- inherits ------------------------------------------------------------------------------------------ *)
Theorem C19_inherits : forall c g r l,
  fix_join c = false -> r_async r = None -> r_loop r = None -> first_loop g (r_ups r) = Some l ->
  construct c g r = Ok (finish g r (Some l) (first_true g (r_ups r))).
Proof. exact inherits. Qed.
Print Assumptions C19_inherits.

Theorem C19_inherits_single : forall c g r u l g',
  r_async r = None -> r_loop r = None -> r_ups r = [u] -> u < length g -> gl g u = Some l ->
  construct c g r = Ok g' ->
  gl g' (length g) = Some l /\ is_true (ga g' (length g)) = is_true (ga g u).
Proof. exact inherits_single. Qed.
Print Assumptions C19_inherits_single.

(* ---- conflict_raises ----------------------------------------------------------------------------------- *)
Theorem C19_conflict_raises_loop : forall c g r l u l',
  r_loop r = Some l -> In u (r_ups r) -> u < length g -> gl g u = Some l' -> l' <> l ->
  exists g', construct c g r = Raise g' /\ fills g g'.
Proof. exact conflict_raises_loop. Qed.
Print Assumptions C19_conflict_raises_loop.

Theorem C19_conflict_raises_mode : forall c g r a u a',
  r_async r = Some a -> In u (r_ups r) -> u < length g -> ga g u = Some a' -> a' <> a ->
  exists g', construct c g r = Raise g' /\ fills g g'.
Proof. exact conflict_raises_mode. Qed.
Print Assumptions C19_conflict_raises_mode.

(* graph unchanged when the conflicting node is the first upstream itself *)
Theorem C19_conflict_mode_unchanged : forall c g r a u rest a',
  r_async r = Some a -> r_ups r = u :: rest -> u < length g -> ga g u = Some a' -> a' <> a ->
  construct c g r = Raise g.
Proof. exact conflict_mode_unchanged. Qed.
Theorem C19_conflict_loop_unchanged : forall c g r l u rest l',
  fix_join c = false -> r_async r = None -> r_loop r = Some l -> r_ups r = u :: rest -> u < length g ->
  gl g u = Some l' -> l' <> l -> construct c g r = Raise g.
Proof. exact conflict_loop_unchanged. Qed.
Print Assumptions C19_conflict_mode_unchanged.
Print Assumptions C19_conflict_loop_unchanged.

(* in general a raising constructor may already have filled unset fields of nodes it walked over (the Python
   code mutates before it finds the conflict) — but it never overwrites a set field and never changes edges *)
Theorem C19_raise_only_fills : forall c g r g', construct c g r = Raise g' -> fills g g'.
Proof. exact construct_raise_fills. Qed.
Print Assumptions C19_raise_only_fills.

(* ---- declared_async_on_current (repaired __init__) / refuted (as found) --------------------------------- *)
Theorem C19_declared_async_on_current : forall c g r g',
  fix_init c = true -> r_async r = Some true -> r_loop r = None -> first_loop g (r_ups r) = None ->
  construct c g r = Ok g' ->
  gl g' (length g) = Some Current /\ ga g' (length g) = Some true.
Proof. exact declared_async_on_current. Qed.
Print Assumptions C19_declared_async_on_current.

Theorem C19_declared_async_source : forall c g ens,
  fix_init c = true ->
  construct c g (mkReq [] (Some true) None ens) = Ok (g ++ [mkNode (Some Current) (Some true) [] []]).
Proof. exact declared_async_source. Qed.
Print Assumptions C19_declared_async_source.

Theorem C19_declared_async_on_current_refuted :
  exists g r, r_async r = Some true /\ r_loop r = None /\ first_loop g (r_ups r) = None /\
    exists g', construct as_found g r = Ok g' /\
               gl g' (length g) = Some Background /\ ga g' (length g) = Some false.
Proof. exact declared_async_on_current_refuted. Qed.
Print Assumptions C19_declared_async_on_current_refuted.

Theorem C19_declared_async_raises_refuted :
  exists g r, r_async r = Some true /\ r_loop r = None /\ first_loop g (r_ups r) = None /\
    (forall i, ga g i <> Some false) /\
    construct as_found g r = Raise [mkNode None (Some true) [] []].
Proof. exact declared_async_raises_refuted. Qed.
Print Assumptions C19_declared_async_raises_refuted.

(* ---- fallback_background -------------------------------------------------------------------------------- *)
Theorem C19_fallback_background : forall c g r g',
  r_ensure r = true -> r_async r = None -> r_loop r = None ->
  first_loop g (r_ups r) = None -> first_true g (r_ups r) = None ->
  construct c g r = Ok g' ->
  gl g' (length g) = Some (bg_loop c) /\ ga g' (length g) = Some false.
Proof. exact fallback_background. Qed.
Print Assumptions C19_fallback_background.

Theorem C19_fallback_background_source : forall c g,
  construct c g (mkReq [] None None true) = Ok (g ++ [mkNode (Some (bg_loop c)) (Some false) [] []]).
Proof. exact fallback_background_source. Qed.
Print Assumptions C19_fallback_background_source.

(* ---- non-vacuity: a fan-out / fan-in session meets the hypotheses of C19_one_loop ------------------------ *)
(* s = Stream(); m = s.map(f); b = s.buffer(2); u = m.union(b); w = u.timed_window(1) *)
Definition nv_session : list request :=
  [mkReq [] None None false; mkReq [0] None None false; mkReq [0] None None true;
   mkReq [1; 2] None None false; mkReq [3] None None true].

Example C19_one_loop_nonvacuous :
  exists g, Session repaired [] nv_session g /\ connected g 1 4 /\
            gl g 1 = Some Background /\ gl g 4 = Some Background /\ ga g 1 = Some false /\ length g = 5.
Proof.
  eexists. split.
  - unfold nv_session. cbn [Session].
    repeat (split; [intros u Hu; simpl in Hu; simpl; repeat (destruct Hu as [<-|Hu]; [auto with arith|]); tauto|];
            split; [right; intros u u' Hu Hu'; simpl in Hu, Hu';
                    repeat (destruct Hu as [<-|Hu]; [|]); try tauto;
                    repeat (destruct Hu' as [<-|Hu']; [|]); try tauto; vm_compute; auto|];
            eexists; split; [vm_compute; reflexivity|]).
    reflexivity.
  - split; [|vm_compute; auto].
    apply conn_trans with (j := 3); [apply conn_down|apply conn_down]; simpl; auto.
Qed.
