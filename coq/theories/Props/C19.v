From Coq Require Import List Arith Bool.
From SZ Require Import Ext.LoopPercolate Ext.LoopPercolateProofs Ext.LoopPercolateCases.
Import ListNotations.
