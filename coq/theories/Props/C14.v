(* C14 - provisional: replaced when the per-node proof files are complete. *)
From Coq Require Import List ZArith.
From SZ Require Import Base.Values.
From SZ Require Import Sync.Nodes.
From SZ Require Import Async.Core.
From SZ Require Import Async.Plain.
Import ListNotations.

Theorem C14_callback_only_at_zero : forall s m r,
  In r (rfired (rc_release s m 1)) -> In r (rfired s) \/ (rcnt s r - mocc m r <= 0)%Z /\ (1 <= mocc m r)%Z.
Proof. exact rfired_release_new. Qed.
Print Assumptions C14_callback_only_at_zero.
