(* C14 - latest delivers an in-order subsequence ending with the newest element.
   Statements restated from the proof files by harness/mkprops.py; every theorem quantifies over ALL action
   lists (schedules of emits, consumer completions, task completions, time advances). *)
From Coq Require Import List ZArith Bool Arith Permutation Sorted.
From SZ Require Import Base.Values.
From SZ Require Import Sync.Nodes.
From SZ Require Import Async.Core.
From SZ Require Async.LatestProofs.
Import ListNotations.

(* from Async.LatestProofs *)
Section S_latest_subseq_LatestProofs.
Import SZ.Async.LatestProofs.
Theorem C14_latest_subseq : forall (sync : bool) (acts : list act) (s : nm_state Latest.latest_model) (outs : list (list (Z * val * list mdi) * list nat)), run_steps Latest.latest_model (Latest.l_init sync) acts = (s, outs) -> Sublist (deliv_items (all_deliv outs)) (ins_of acts).
Proof. exact (@latest_subseq). Qed.
End S_latest_subseq_LatestProofs.
Print Assumptions C14_latest_subseq.

(* from Async.LatestProofs *)
Section S_latest_final_LatestProofs.
Import SZ.Async.LatestProofs.
Theorem C14_latest_final : forall (sync : bool) (acts : list act) (s : nm_state Latest.latest_model) (outs : list (list (Z * val * list mdi) * list nat)) (d : val * list mdi), run_steps Latest.latest_model (Latest.l_init sync) acts = (s, outs) -> Latest.l_busy s = None -> Latest.l_fresh s = false /\ (ins_of acts <> [] -> last (deliv_items (all_deliv outs)) d = last (ins_of acts) d).
Proof. exact (@latest_final). Qed.
End S_latest_final_LatestProofs.
Print Assumptions C14_latest_final.

(* from Async.LatestProofs *)
Section S_latest_done_LatestProofs.
Import SZ.Async.LatestProofs.
Theorem C14_latest_done : forall (sync : bool) (acts : list act) (s : nm_state Latest.latest_model) (outs : list (list (Z * val * list mdi) * list nat)), run_steps Latest.latest_model (Latest.l_init sync) acts = (s, outs) -> all_done outs = seq 0 (n_emits acts).
Proof. exact (@latest_done). Qed.
End S_latest_done_LatestProofs.
Print Assumptions C14_latest_done.

