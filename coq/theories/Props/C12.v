(* C12 — aggregation state can be checkpointed and resumed without changing results.
   Only statements closed by `exact`; generic theorem in DF/Resume.v, operator models in DF/{Agg,GroupBy}.v.

   `run func st bs` is the accumulate node (returns_state=True) fed the batches bs from node state st
   (None = the `start=None` sentinel).  With `with_state=True` the node emits (state, result) pairs: the k-th
   entry of `run` is `Some (s, r)`.  The theorems: a fresh node started with `start = s` and fed the remaining
   batches emits exactly the remaining entries -- results AND states -- of the uninterrupted run, for every
   batch sequence and every cut k >= 1 (k = 0 is the trivial restart with the same `start`).

   Proved for: Sum, Count, Size, Mean (as found and repaired), Var through `accumulator` and through
   `window_accumulator`/expanding, on Series and DataFrames; ValueCounts; GroupbySum/Count/Size/Mean/Var with a
   column or a streaming-Series grouper.  rolling / window(n) / window(value) / windowed groupby / ewm are not
   modelled here (C07/C11 models): for them C12 rests on the implementation-level cut test of check_c12.py. *)
From Coq Require Import List ZArith QArith Qcanon Bool Arith.
From SZ Require Import DF.Frames.
From SZ Require Import DF.Agg.
From SZ Require Import DF.GroupBy.
From SZ Require Import DF.AggProofs.
From SZ Require Import DF.GroupByProofs.
From SZ Require Import DF.Resume.
Import ListNotations.
Close Scope Qc_scope. Close Scope Q_scope. Close Scope Z_scope. Open Scope nat_scope.

(* generic: any operator of the shape Stream.accumulate accepts *)
Theorem C12_resume_any_cut : forall (St X Rs : Type) (func : option St -> X -> option (St * Rs))
  (bs : list X) (k : nat) (st : option St),
  run func (state_after func st (firstn k bs)) (skipn k bs) = skipn k (run func st bs).
Proof. exact @resume_any_cut. Qed.
Print Assumptions C12_resume_any_cut.

Theorem C12_emitted_state_is_state : forall (St X Rs : Type) (func : option St -> X -> option (St * Rs))
  (bs : list X) (i : nat) (st : option St) s r,
  nth_error (run func st bs) i = Some (Some (s, r)) -> state_after func st (firstn (S i) bs) = Some s.
Proof. exact @emitted_state_is_state. Qed.
Print Assumptions C12_emitted_state_is_state.

Theorem C12_resume_from_emitted : forall (St X Rs : Type) (func : option St -> X -> option (St * Rs))
  (bs : list X) (k : nat) (st : option St) s r,
  1 <= k -> nth_error (run func st bs) (k - 1) = Some (Some (s, r)) ->
  run func (Some s) (skipn k bs) = skipn k (run func st bs).
Proof. exact @resume_from_emitted. Qed.
Print Assumptions C12_resume_from_emitted.

(* ---- instances: reductions (sdf.x.sum(start=s) ...), any aggregation object, both paths ---- *)
Theorem C12_reduction : forall (S R : Type) (agg : aggregation S R) (bs : list frame) k st s r,
  1 <= k -> nth_error (run (accumulator agg) st bs) (k - 1) = Some (Some (s, r)) ->
  run (accumulator agg) (Some s) (skipn k bs) = skipn k (run (accumulator agg) st bs).
Proof. exact (fun S R agg => resume_from_emitted (accumulator agg)). Qed.
Theorem C12_expanding : forall (S R : Type) (agg : aggregation S R) (bs : list frame) k st s r,
  1 <= k -> nth_error (run (window_accumulator_expanding agg) st bs) (k - 1) = Some (Some (s, r)) ->
  run (window_accumulator_expanding agg) (Some s) (skipn k bs) = skipn k (run (window_accumulator_expanding agg) st bs).
Proof. exact (fun S R agg => resume_from_emitted (window_accumulator_expanding agg)). Qed.
Theorem C12_groupby : forall (S R : Type) gs (agg : gaggregation S R) (bs : list frame) k st s r,
  1 <= k -> nth_error (grun gs agg st bs) (k - 1) = Some (Some (s, r)) ->
  grun gs agg (Some s) (skipn k bs) = skipn k (grun gs agg st bs).
Proof. exact (fun S R gs agg => resume_groupby gs agg). Qed.
Print Assumptions C12_reduction.
Print Assumptions C12_expanding.
Print Assumptions C12_groupby.

(* the concrete operators (so that the statement names what was modelled) *)
Theorem C12_series_sum c : forall (bs : list frame) k st s r,
  1 <= k -> nth_error (run (accumulator (sum_s c)) st bs) (k - 1) = Some (Some (s, r)) ->
  run (accumulator (sum_s c)) (Some s) (skipn k bs) = skipn k (run (accumulator (sum_s c)) st bs).
Proof. exact (C12_reduction _ _ (sum_s c)). Qed.
Theorem C12_series_count c : forall (bs : list frame) k st s r,
  1 <= k -> nth_error (run (accumulator (count_s c)) st bs) (k - 1) = Some (Some (s, r)) ->
  run (accumulator (count_s c)) (Some s) (skipn k bs) = skipn k (run (accumulator (count_s c)) st bs).
Proof. exact (C12_reduction _ _ (count_s c)). Qed.
Theorem C12_series_mean c v : forall (bs : list frame) k st s r,
  1 <= k -> nth_error (run (accumulator (mean_s c v)) st bs) (k - 1) = Some (Some (s, r)) ->
  run (accumulator (mean_s c v)) (Some s) (skipn k bs) = skipn k (run (accumulator (mean_s c v)) st bs).
Proof. exact (C12_reduction _ _ (mean_s c v)). Qed.
Theorem C12_frame_mean cs : forall (bs : list frame) k st s r,
  1 <= k -> nth_error (run (accumulator (mean_v cs)) st bs) (k - 1) = Some (Some (s, r)) ->
  run (accumulator (mean_v cs)) (Some s) (skipn k bs) = skipn k (run (accumulator (mean_v cs)) st bs).
Proof. exact (C12_reduction _ _ (mean_v cs)). Qed.
Theorem C12_value_counts : forall (bs : list frame) k st s r,
  1 <= k -> nth_error (run (accumulator value_counts_agg) st bs) (k - 1) = Some (Some (s, r)) ->
  run (accumulator value_counts_agg) (Some s) (skipn k bs) = skipn k (run (accumulator value_counts_agg) st bs).
Proof. exact (C12_reduction _ _ value_counts_agg). Qed.
Theorem C12_expanding_var c v ddof : forall (bs : list frame) k st s r,
  1 <= k -> nth_error (run (window_accumulator_expanding (var_s c v ddof)) st bs) (k - 1) = Some (Some (s, r)) ->
  run (window_accumulator_expanding (var_s c v ddof)) (Some s) (skipn k bs)
    = skipn k (run (window_accumulator_expanding (var_s c v ddof)) st bs).
Proof. exact (C12_expanding _ _ (var_s c v ddof)). Qed.
Theorem C12_groupby_sum gs c : forall (bs : list frame) k st s r,
  1 <= k -> nth_error (grun gs (gsum c) st bs) (k - 1) = Some (Some (s, r)) ->
  grun gs (gsum c) (Some s) (skipn k bs) = skipn k (grun gs (gsum c) st bs).
Proof. exact (C12_groupby _ _ gs (gsum c)). Qed.
Theorem C12_groupby_count gs c : forall (bs : list frame) k st s r,
  1 <= k -> nth_error (grun gs (gcount c) st bs) (k - 1) = Some (Some (s, r)) ->
  grun gs (gcount c) (Some s) (skipn k bs) = skipn k (grun gs (gcount c) st bs).
Proof. exact (C12_groupby _ _ gs (gcount c)). Qed.
Theorem C12_groupby_size gs : forall (bs : list frame) k st s r,
  1 <= k -> nth_error (grun gs gsize st bs) (k - 1) = Some (Some (s, r)) ->
  grun gs gsize (Some s) (skipn k bs) = skipn k (grun gs gsize st bs).
Proof. exact (C12_groupby _ _ gs gsize). Qed.
Theorem C12_groupby_mean gs c : forall (bs : list frame) k st s r,
  1 <= k -> nth_error (grun gs (gmean c) st bs) (k - 1) = Some (Some (s, r)) ->
  grun gs (gmean c) (Some s) (skipn k bs) = skipn k (grun gs (gmean c) st bs).
Proof. exact (C12_groupby _ _ gs (gmean c)). Qed.
Theorem C12_groupby_var gs c ddof : forall (bs : list frame) k st s r,
  1 <= k -> nth_error (grun gs (gvar c ddof) st bs) (k - 1) = Some (Some (s, r)) ->
  grun gs (gvar c ddof) (Some s) (skipn k bs) = skipn k (grun gs (gvar c ddof) st bs).
Proof. exact (C12_groupby _ _ gs (gvar c ddof)). Qed.
Print Assumptions C12_series_mean.
Print Assumptions C12_groupby_var.

(* resumed runs keep agreeing with pandas on the WHOLE prefix (C06 after a restart) *)
Theorem C12_resume_then_prefix : forall (St Rs : Type) (f : option St -> frame -> option (St * Rs)) inv res,
  step_ok f inv res ->
  forall (bs : list frame) k j s r, 1 <= k -> k < j <= length bs ->
    nth_error (run f None bs) (k - 1) = Some (Some (s, r)) ->
    concat (firstn j bs) <> [] ->
    emitted (run f (Some s) (skipn k bs)) (j - k) = Some (res (concat (firstn j bs))).
Proof. exact @resume_then_prefix. Qed.
Print Assumptions C12_resume_then_prefix.

(* non-vacuity: cut a groupby-mean run with an empty batch, NaN cells and keys after its 2nd batch *)
Definition ex_r (s : Z) (k : option Z) (x : option Qc) : row := mkrow s k [x].
Definition ex_bs : list frame :=
  [ [ex_r 0 (Some 2%Z) (Some (mkq 4 1))];
    [];
    [ex_r 1 (Some 1%Z) None; ex_r 2 None (Some (mkq 5 1)); ex_r 3 (Some 2%Z) (Some (mkq 1 1))];
    [ex_r 4 (Some 1%Z) (Some (mkq 3 1))] ].
Example C12_nonvacuous :
  exists s r, nth_error (grun GSer (gmean 0) None ex_bs) (2 - 1) = Some (Some (s, r)) /\
    length (grun GSer (gmean 0) (Some s) (skipn 2 ex_bs)) = 2 /\
    grun GSer (gmean 0) (Some s) (skipn 2 ex_bs) = skipn 2 (grun GSer (gmean 0) None ex_bs).
Proof.
  eexists. eexists. split; [vm_compute; reflexivity|]. split; [vm_compute; reflexivity|].
  eapply C12_groupby; [auto with arith|vm_compute; reflexivity].
Qed.

(* ---- aggregation bridges (harness/mkprops_aggs.py): begin ---- *)
(* The aggregation classes are the ones regenerated from the source under test on this run: Gen/KA_<class>.v is written by
   harness/gen_aggs.py from the python AST of streamz/dataframe/aggregations.py (symbolic execution over an abstract pandas
   interface, Base/AggPrims.v; the mapping of the pandas primitives is printed into every generated file).
   Base/BridgeAggs.v (streaming Series: statistics are numbers) and Base/BridgeAggsVec.v (streaming DataFrame: one
   statistic per column) prove that, with the interface instantiated by DF/Frames.v, they are the fields of the
   aggregation records of DF/Agg.v, repaired variant.  f2o: a float result as option Qc (NaN and the infinities are None);
   var_py: the model's extra state component "still the python ints of `initial`". *)
From SZ Require Import Base.AggPrims Base.BridgeAggs Base.BridgeAggsVec.
From SZ Require Gen.KA_Sum Gen.KA_Count Gen.KA_Size Gen.KA_Mean Gen.KA_Var Gen.KA_Accumulator.
Theorem C12_bridge_Sum :
  (* sum_on_new *)
  (forall c acc new, Some (Gen.KA_Sum.gen_sum_on_new (frames_ops c) acc new) = Agg.on_new (sum_s c) acc new) /\
  (* sum_initial *)
  (forall c new, Gen.KA_Sum.gen_sum_initial (frames_ops c) new = Agg.initial (sum_s c) new) /\
  (* sum_on_new_v *)
  (forall cs acc new, Some (Gen.KA_Sum.gen_sum_on_new_v (frames_vops cs) acc new) = Agg.on_new (sum_v cs) acc new) /\
  (* sum_initial_v *)
  (forall cs new, Gen.KA_Sum.gen_sum_initial_v (frames_vops cs) new = Agg.initial (sum_v cs) new).
Proof. exact (conj bridge_sum_on_new (conj bridge_sum_initial (conj bridge_sum_on_new_v bridge_sum_initial_v))). Qed.
Print Assumptions C12_bridge_Sum.
Theorem C12_bridge_Count :
  (* count_on_new *)
  (forall c acc new, Some (Gen.KA_Count.gen_count_on_new (frames_ops c) acc new) = Agg.on_new (count_s c) acc new) /\
  (* count_initial *)
  (forall c new, Gen.KA_Count.gen_count_initial (frames_ops c) new = Agg.initial (count_s c) new) /\
  (* count_on_new_v *)
  (forall cs acc new, Some (Gen.KA_Count.gen_count_on_new_v (frames_vops cs) acc new) = Agg.on_new (count_v cs) acc new) /\
  (* count_initial_v *)
  (forall cs new, Gen.KA_Count.gen_count_initial_v (frames_vops cs) new = Agg.initial (count_v cs) new).
Proof. exact (conj bridge_count_on_new (conj bridge_count_initial (conj bridge_count_on_new_v bridge_count_initial_v))). Qed.
Print Assumptions C12_bridge_Count.
Theorem C12_bridge_Size :
  (* size_on_new *)
  (forall c acc new, Some (Gen.KA_Size.gen_size_on_new (frames_ops c) acc new) = Agg.on_new (size_s c) acc new) /\
  (* size_initial *)
  (forall c new, Gen.KA_Size.gen_size_initial (frames_ops c) new = Agg.initial (size_s c) new) /\
  (* size_on_new_v *)
  (forall cs acc new, Some (Gen.KA_Size.gen_size_on_new_v (frames_vops cs) acc new) = Agg.on_new (size_v cs) acc new) /\
  (* size_initial_v *)
  (forall cs new, Gen.KA_Size.gen_size_initial_v (frames_vops cs) new = Agg.initial (size_v cs) new).
Proof. exact (conj bridge_size_on_new (conj bridge_size_initial (conj bridge_size_on_new_v bridge_size_initial_v))). Qed.
Print Assumptions C12_bridge_Size.
Theorem C12_bridge_Mean :
  (* mean_on_new *)
  (forall c acc new, Some (res_o (Gen.KA_Mean.gen_mean_on_new (frames_ops c) acc new)) = Agg.on_new (mean_s c repaired) acc new) /\
  (* mean_initial *)
  (forall c new, Gen.KA_Mean.gen_mean_initial (frames_ops c) new = Agg.initial (mean_s c repaired) new) /\
  (* mean_on_new_v *)
  (forall cs acc new, Some (res_vo (Gen.KA_Mean.gen_mean_on_new_v (frames_vops cs) acc new)) = Agg.on_new (mean_v cs) acc new) /\
  (* mean_initial_v *)
  (forall cs new, Gen.KA_Mean.gen_mean_initial_v (frames_vops cs) new = Agg.initial (mean_v cs) new).
Proof. exact (conj bridge_mean_on_new (conj bridge_mean_initial (conj bridge_mean_on_new_v bridge_mean_initial_v))). Qed.
Print Assumptions C12_bridge_Mean.
Theorem C12_bridge_Var :
  (* var_on_new *)
  (forall c ddof x x2 n py new,
   Some (let p := Gen.KA_Var.gen_var_on_new (frames_ops c) ddof (x, x2, n) new in ((fst p, var_py py new), f2o (snd p)))
   = Agg.on_new (var_s c repaired ddof) (x, x2, n, py) new) /\
  (* var_initial *)
  (forall c ddof new, (Gen.KA_Var.gen_var_initial (frames_ops c) new, true) = Agg.initial (var_s c repaired ddof) new) /\
  (* var_on_new_v *)
  (forall cs ddof acc new, Some (res_vo (Gen.KA_Var.gen_var_on_new_v (frames_vops cs) ddof acc new)) = Agg.on_new (var_v cs ddof) acc new) /\
  (* var_initial_v *)
  (forall cs ddof new, Gen.KA_Var.gen_var_initial_v (frames_vops cs) new = Agg.initial (var_v cs ddof) new).
Proof. exact (conj bridge_var_on_new (conj bridge_var_initial (conj bridge_var_on_new_v bridge_var_initial_v))). Qed.
Print Assumptions C12_bridge_Var.
Theorem C12_bridge_accumulator :
  (* accumulator *)
  (forall (S R : Type) (agg : aggregation S R) (f : S -> frame -> S * R),
   (forall s b, Agg.on_new agg s b = Some (f s b)) ->
   forall acc new, Some (Gen.KA_Accumulator.gen_accumulator (Agg.initial agg) f acc new) = accumulator agg acc new).
Proof. exact (@bridge_accumulator). Qed.
Print Assumptions C12_bridge_accumulator.
(* ---- aggregation bridges (harness/mkprops_aggs.py): end ---- *)
