(* C12 — aggregation state can be checkpointed and resumed without changing results.
   Only statements closed by `exact`; generic theorem in DF/Resume.v, operator models in DF/{Agg,GroupBy}.v.

   `run func st bs` is the accumulate node (returns_state=True) fed the batches bs from node state st
   (None = the `start=None` sentinel).  With `with_state=True` the node emits (state, result) pairs: the k-th
   entry of `run` is `Some (s, r)`.  The theorems: a fresh node started with `start = s` and fed the remaining
   batches emits exactly the remaining entries -- results AND states -- of the uninterrupted run, for every
   batch sequence and every cut k >= 1 (k = 0 is the trivial restart with the same `start`).

   Proved for: Sum, Count, Size, Mean (as found and repaired), Var through `accumulator` and through
   `window_accumulator`/expanding, on Series and DataFrames; ValueCounts; GroupbySum/Count/Size/Mean/Var with a
   column or a streaming-Series grouper.  rolling / window(n) / window(value) / windowed groupby / ewm are not
   modelled here (C07/C11 models): for them C12 rests on the implementation-level cut test of check_c12.py. *)
From Coq Require Import List ZArith QArith Qcanon Bool Arith.
From SZ Require Import DF.Frames.
From SZ Require Import DF.Agg.
From SZ Require Import DF.GroupBy.
From SZ Require Import DF.AggProofs.
From SZ Require Import DF.GroupByProofs.
From SZ Require Import DF.Resume.
Import ListNotations.
Close Scope Qc_scope. Close Scope Q_scope. Close Scope Z_scope. Open Scope nat_scope.

(* generic: any operator of the shape Stream.accumulate accepts *)
Theorem C12_resume_any_cut : forall (St X Rs : Type) (func : option St -> X -> option (St * Rs))
  (bs : list X) (k : nat) (st : option St),
  run func (state_after func st (firstn k bs)) (skipn k bs) = skipn k (run func st bs).
Proof. exact @resume_any_cut. Qed.
Print Assumptions C12_resume_any_cut.

Theorem C12_emitted_state_is_state : forall (St X Rs : Type) (func : option St -> X -> option (St * Rs))
  (bs : list X) (i : nat) (st : option St) s r,
  nth_error (run func st bs) i = Some (Some (s, r)) -> state_after func st (firstn (S i) bs) = Some s.
Proof. exact @emitted_state_is_state. Qed.
Print Assumptions C12_emitted_state_is_state.

Theorem C12_resume_from_emitted : forall (St X Rs : Type) (func : option St -> X -> option (St * Rs))
  (bs : list X) (k : nat) (st : option St) s r,
  1 <= k -> nth_error (run func st bs) (k - 1) = Some (Some (s, r)) ->
  run func (Some s) (skipn k bs) = skipn k (run func st bs).
Proof. exact @resume_from_emitted. Qed.
Print Assumptions C12_resume_from_emitted.

(* ---- instances: reductions (sdf.x.sum(start=s) ...), any aggregation object, both paths ---- *)
Theorem C12_reduction : forall (S R : Type) (agg : aggregation S R) (bs : list frame) k st s r,
  1 <= k -> nth_error (run (accumulator agg) st bs) (k - 1) = Some (Some (s, r)) ->
  run (accumulator agg) (Some s) (skipn k bs) = skipn k (run (accumulator agg) st bs).
Proof. exact (fun S R agg => resume_from_emitted (accumulator agg)). Qed.
Theorem C12_expanding : forall (S R : Type) (agg : aggregation S R) (bs : list frame) k st s r,
  1 <= k -> nth_error (run (window_accumulator_expanding agg) st bs) (k - 1) = Some (Some (s, r)) ->
  run (window_accumulator_expanding agg) (Some s) (skipn k bs) = skipn k (run (window_accumulator_expanding agg) st bs).
Proof. exact (fun S R agg => resume_from_emitted (window_accumulator_expanding agg)). Qed.
Theorem C12_groupby : forall (S R : Type) gs (agg : gaggregation S R) (bs : list frame) k st s r,
  1 <= k -> nth_error (grun gs agg st bs) (k - 1) = Some (Some (s, r)) ->
  grun gs agg (Some s) (skipn k bs) = skipn k (grun gs agg st bs).
Proof. exact (fun S R gs agg => resume_groupby gs agg). Qed.
Print Assumptions C12_reduction.
Print Assumptions C12_expanding.
Print Assumptions C12_groupby.

(* the concrete operators (so that the statement names what was modelled) *)
Theorem C12_series_sum c : forall (bs : list frame) k st s r,
  1 <= k -> nth_error (run (accumulator (sum_s c)) st bs) (k - 1) = Some (Some (s, r)) ->
  run (accumulator (sum_s c)) (Some s) (skipn k bs) = skipn k (run (accumulator (sum_s c)) st bs).
Proof. exact (C12_reduction _ _ (sum_s c)). Qed.
Theorem C12_series_count c : forall (bs : list frame) k st s r,
  1 <= k -> nth_error (run (accumulator (count_s c)) st bs) (k - 1) = Some (Some (s, r)) ->
  run (accumulator (count_s c)) (Some s) (skipn k bs) = skipn k (run (accumulator (count_s c)) st bs).
Proof. exact (C12_reduction _ _ (count_s c)). Qed.
Theorem C12_series_mean c v : forall (bs : list frame) k st s r,
  1 <= k -> nth_error (run (accumulator (mean_s c v)) st bs) (k - 1) = Some (Some (s, r)) ->
  run (accumulator (mean_s c v)) (Some s) (skipn k bs) = skipn k (run (accumulator (mean_s c v)) st bs).
Proof. exact (C12_reduction _ _ (mean_s c v)). Qed.
Theorem C12_frame_mean cs : forall (bs : list frame) k st s r,
  1 <= k -> nth_error (run (accumulator (mean_v cs)) st bs) (k - 1) = Some (Some (s, r)) ->
  run (accumulator (mean_v cs)) (Some s) (skipn k bs) = skipn k (run (accumulator (mean_v cs)) st bs).
Proof. exact (C12_reduction _ _ (mean_v cs)). Qed.
Theorem C12_value_counts : forall (bs : list frame) k st s r,
  1 <= k -> nth_error (run (accumulator value_counts_agg) st bs) (k - 1) = Some (Some (s, r)) ->
  run (accumulator value_counts_agg) (Some s) (skipn k bs) = skipn k (run (accumulator value_counts_agg) st bs).
Proof. exact (C12_reduction _ _ value_counts_agg). Qed.
Theorem C12_expanding_var c v ddof : forall (bs : list frame) k st s r,
  1 <= k -> nth_error (run (window_accumulator_expanding (var_s c v ddof)) st bs) (k - 1) = Some (Some (s, r)) ->
  run (window_accumulator_expanding (var_s c v ddof)) (Some s) (skipn k bs)
    = skipn k (run (window_accumulator_expanding (var_s c v ddof)) st bs).
Proof. exact (C12_expanding _ _ (var_s c v ddof)). Qed.
Theorem C12_groupby_sum gs c : forall (bs : list frame) k st s r,
  1 <= k -> nth_error (grun gs (gsum c) st bs) (k - 1) = Some (Some (s, r)) ->
  grun gs (gsum c) (Some s) (skipn k bs) = skipn k (grun gs (gsum c) st bs).
Proof. exact (C12_groupby _ _ gs (gsum c)). Qed.
Theorem C12_groupby_count gs c : forall (bs : list frame) k st s r,
  1 <= k -> nth_error (grun gs (gcount c) st bs) (k - 1) = Some (Some (s, r)) ->
  grun gs (gcount c) (Some s) (skipn k bs) = skipn k (grun gs (gcount c) st bs).
Proof. exact (C12_groupby _ _ gs (gcount c)). Qed.
Theorem C12_groupby_size gs : forall (bs : list frame) k st s r,
  1 <= k -> nth_error (grun gs gsize st bs) (k - 1) = Some (Some (s, r)) ->
  grun gs gsize (Some s) (skipn k bs) = skipn k (grun gs gsize st bs).
Proof. exact (C12_groupby _ _ gs gsize). Qed.
Theorem C12_groupby_mean gs c : forall (bs : list frame) k st s r,
  1 <= k -> nth_error (grun gs (gmean c) st bs) (k - 1) = Some (Some (s, r)) ->
  grun gs (gmean c) (Some s) (skipn k bs) = skipn k (grun gs (gmean c) st bs).
Proof. exact (C12_groupby _ _ gs (gmean c)). Qed.
Theorem C12_groupby_var gs c ddof : forall (bs : list frame) k st s r,
  1 <= k -> nth_error (grun gs (gvar c ddof) st bs) (k - 1) = Some (Some (s, r)) ->
  grun gs (gvar c ddof) (Some s) (skipn k bs) = skipn k (grun gs (gvar c ddof) st bs).
Proof. exact (C12_groupby _ _ gs (gvar c ddof)). Qed.
Print Assumptions C12_series_mean.
Print Assumptions C12_groupby_var.

(* resumed runs keep agreeing with pandas on the WHOLE prefix (C06 after a restart) *)
Theorem C12_resume_then_prefix : forall (St Rs : Type) (f : option St -> frame -> option (St * Rs)) inv res,
  step_ok f inv res ->
  forall (bs : list frame) k j s r, 1 <= k -> k < j <= length bs ->
    nth_error (run f None bs) (k - 1) = Some (Some (s, r)) ->
    concat (firstn j bs) <> [] ->
    emitted (run f (Some s) (skipn k bs)) (j - k) = Some (res (concat (firstn j bs))).
Proof. exact @resume_then_prefix. Qed.
Print Assumptions C12_resume_then_prefix.

(* non-vacuity: cut a groupby-mean run with an empty batch, NaN cells and keys after its 2nd batch *)
Definition ex_r (s : Z) (k : option Z) (x : option Qc) : row := mkrow s k [x].
Definition ex_bs : list frame :=
  [ [ex_r 0 (Some 2%Z) (Some (mkq 4 1))];
    [];
    [ex_r 1 (Some 1%Z) None; ex_r 2 None (Some (mkq 5 1)); ex_r 3 (Some 2%Z) (Some (mkq 1 1))];
    [ex_r 4 (Some 1%Z) (Some (mkq 3 1))] ].
Example C12_nonvacuous :
  exists s r, nth_error (grun GSer (gmean 0) None ex_bs) (2 - 1) = Some (Some (s, r)) /\
    length (grun GSer (gmean 0) (Some s) (skipn 2 ex_bs)) = 2 /\
    grun GSer (gmean 0) (Some s) (skipn 2 ex_bs) = skipn 2 (grun GSer (gmean 0) None ex_bs).
Proof.
  eexists. eexists. split; [vm_compute; reflexivity|]. split; [vm_compute; reflexivity|].
  eapply C12_groupby; [auto with arith|vm_compute; reflexivity].
Qed.
