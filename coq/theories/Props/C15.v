(* C15 - delivery follows the current topology under connect / disconnect / destroy / garbage collection.
   Statements restated from Sync/TopologyProofs.v and Sync/TopologyReentrant.v; `reachable g` = g results from ANY
   legal history (no parallel edges) of node creation, emission, connect, disconnect, destroy, reference drops and
   emissions during which a reactive sink edits the graph from inside its callback (ORemit), with collection after
   every step. *)
From Coq Require Import List ZArith Bool Arith Relations.
From SZ Require Import Base.Values.
From SZ Require Import Sync.Topology.
From SZ Require Import Sync.TopologyProofs.
From SZ Require Import Sync.TopologyReentrant.
Import ListNotations.

Theorem C15_links_consistent : forall g : tgraph, reachable g -> (forall u d : nat, t_alive (tget g u) = true -> t_alive (tget g d) = true -> In d (t_downs (tget g u)) <-> In u (t_ups (tget g d))) /\ (forall n : nat, t_alive (tget g n) = true -> NoDup (t_ups (tget g n)) /\ NoDup (t_downs (tget g n))) /\ (forall n i : nat, t_alive (tget g n) = true -> In i (t_ups (tget g n)) \/ In i (t_downs (tget g n)) -> i < length g) /\ (forall u d : nat, t_alive (tget g d) = true -> In u (t_ups (tget g d)) -> u < d) /\ (forall u d : nat, t_alive (tget g u) = true -> In d (t_downs (tget g u)) -> u < d).
Proof. exact (@links_consistent). Qed.
Print Assumptions C15_links_consistent.

Theorem C15_downs_alive : forall g : tgraph, reachable g -> forall u d : nat, t_alive (tget g u) = true -> In d (t_downs (tget g u)) -> t_alive (tget g d) = true.
Proof. exact (@downs_alive). Qed.
Print Assumptions C15_downs_alive.

Theorem C15_ups_alive : forall g : tgraph, reachable g -> forall u d : nat, t_alive (tget g d) = true -> In u (t_ups (tget g d)) -> t_alive (tget g u) = true.
Proof. exact (@ups_alive). Qed.
Print Assumptions C15_ups_alive.

Theorem C15_temit_frame : forall (f : nat) (g : tgraph) (n : nat) (x : val) (g' : tgraph) (log : list tdeliv), TInv0 g -> alive g n -> temit f g n x = (g', log) -> length g' = length g /\ (forall i : nat, tk (tget g' i) = tk (tget g i) /\ t_ups (tget g' i) = t_ups (tget g i) /\ t_downs (tget g' i) = t_downs (tget g i) /\ t_alive (tget g' i) = t_alive (tget g i) /\ t_held (tget g' i) = t_held (tget g i) /\ t_reg (tget g' i) = t_reg (tget g i)).
Proof. exact (@temit_frame). Qed.
Print Assumptions C15_temit_frame.

Theorem C15_emit_along_edges : forall (f : nat) (g : tgraph) (n : nat) (x : val) (g' : tgraph) (log : list tdeliv), TInv0 g -> alive g n -> temit f g n x = (g', log) -> (forall (s d : nat) (v : val), In (s, d, v) log -> t_alive (tget g d) = true /\ In d (t_downs (tget g s))) /\ (f <> 0 -> filter (fun e : nat * nat * val => fst (fst e) =? n) log = map (fun d : nat => (n, d, x)) (t_downs (tget g n))).
Proof. exact (@emit_along_edges). Qed.
Print Assumptions C15_emit_along_edges.

Theorem C15_dropped_branch_silent : forall (g : tgraph) (n : nat) (x : val) (g' : tgraph) (r : tres) (log : list tdeliv), reachable g -> wf_op g (OEmit n x) -> tstep g (OEmit n x) = (g', r, log) -> r = ROk /\ (forall (s d : nat) (v : val), In (s, d, v) log -> t_alive (tget g d) = true /\ In d (t_downs (tget g s))) /\ filter (fun e : nat * nat * val => fst (fst e) =? n) log = map (fun d : nat => (n, d, x)) (t_downs (tget g n)).
Proof. exact (@dropped_branch_silent). Qed.
Print Assumptions C15_dropped_branch_silent.

Theorem C15_emit_preserves_liveness : forall (g : tgraph) (n : nat) (x : val), reachable g -> wf_op g (OEmit n x) -> forall i : nat, t_alive (tget (step_g g (OEmit n x)) i) = t_alive (tget g i).
Proof. exact (@emit_preserves_liveness). Qed.
Print Assumptions C15_emit_preserves_liveness.

Theorem C15_sink_survives_drop : forall (g : tgraph) (o : top) (s : nat), TInv0 g -> wf_op g o -> t_alive (tget g s) = true -> t_reg (tget g s) = true -> t_alive (tget (step_g g o) s) = true /\ (forall u : nat, clos_refl_trans nat (fun a b : nat => In b (t_ups (tget (step_g g o) a))) s u -> t_alive (tget (step_g g o) u) = true).
Proof. exact (@sink_survives_drop). Qed.
Print Assumptions C15_sink_survives_drop.

Theorem C15_sink_survives_own_drop : forall (g : tgraph) (s : nat), reachable g -> wf_op g (ODrop s) -> t_reg (tget g s) = true -> t_alive (tget (step_g g (ODrop s)) s) = true.
Proof. exact (@sink_survives_own_drop). Qed.
Print Assumptions C15_sink_survives_own_drop.

(* (since combine_latest(emit_on=...) nodes are modelled: a stream named by the emit_on of a live node is referenced by it) *)
Theorem C15_collect_dead : forall (g : tgraph) (n : nat), TShape g -> t_held (tget g n) = false -> t_reg (tget g n) = false -> t_downs (tget g n) = [] -> (forall j t : nat, alive g j -> tk (tget g j) = TCombineOn t -> t <> n) -> t_alive (tget (collect g) n) = false.
Proof. exact (@collect_dead). Qed.
Print Assumptions C15_collect_dead.

Theorem C15_destroyed_and_dropped_dies : forall (g : tgraph) (n : nat), TInv0 g -> wf_op g (ODestroy n) -> t_downs (tget g n) = [] -> (forall j t : nat, tk (tget g j) = TCombineOn t -> t <> n) -> wf_op (step_g g (ODestroy n)) (ODrop n) /\ t_alive (tget (step_g (step_g g (ODestroy n)) (ODrop n)) n) = false.
Proof. exact (@destroyed_and_dropped_dies). Qed.
Print Assumptions C15_destroyed_and_dropped_dies.

Theorem C15_combine_aligned : forall g : tgraph, reachable g -> forall i : nat, t_alive (tget g i) = true -> tk (tget g i) = TCombine -> length (t_last (tget g i)) = length (t_ups (tget g i)).
Proof. exact (@combine_aligned). Qed.
Print Assumptions C15_combine_aligned.

Theorem C15_zip_keys : forall g : tgraph, reachable g -> forall i : nat, t_alive (tget g i) = true -> tk (tget g i) = TZip -> NoDup (map fst (t_bufs (tget g i))) /\ (forall u : nat, In u (map fst (t_bufs (tget g i))) <-> In u (t_ups (tget g i))).
Proof. exact (@zip_keys). Qed.
Print Assumptions C15_zip_keys.

Theorem C15_zip_never_wedged : forall g : tgraph, reachable g -> forall i : nat, t_alive (tget g i) = true -> tk (tget g i) = TZip -> zip_ready (tget g i) = false.
Proof. exact (@zip_never_wedged). Qed.
Print Assumptions C15_zip_never_wedged.

Theorem C15_zip_never_wedged_step : forall (g : tgraph) (o : top), reachable g -> wf_op g o -> forall i : nat, t_alive (tget (step_g g o) i) = true -> tk (tget (step_g g o) i) = TZip -> zip_ready (tget (step_g g o) i) = false.
Proof. exact (@zip_never_wedged_step). Qed.
Print Assumptions C15_zip_never_wedged_step.

Theorem C15_collect_idempotent : forall g : tgraph, TShape g -> collect (collect g) = collect g.
Proof. exact (@collect_idempotent). Qed.
Print Assumptions C15_collect_idempotent.

Theorem C15_reachable_collected : forall g : tgraph, reachable g -> collect g = g.
Proof. exact (@reachable_collected). Qed.
Print Assumptions C15_reachable_collected.

Theorem C15_disconnect_non_edge_raises : forall (g : tgraph) (u d : nat), reachable g -> wf_op g (ODisconnect u d) -> ~ In d (t_downs (tget g u)) -> tstep g (ODisconnect u d) = (g, RRaise, []).
Proof. exact (@disconnect_non_edge_raises). Qed.
Print Assumptions C15_disconnect_non_edge_raises.

(* ---- graph edits made INSIDE a delivery (ORemit n x t e: emit x at n; the reactive sink t performs the edit e from
        inside its callback the first time it is handed an element, while the loops of Stream._emit above it on the
        call stack keep walking the snapshot of the downstream set they took when they started; before each hand-over
        such a loop tests `downstream not in self.downstreams` on the current graph, so a child detached before it
        was served is skipped, and a child attached during the emission - not in the snapshot of the running loop - is
        served only by the emissions that start later) ---- *)

Theorem C15_reentrant_links_consistent : forall (g : tgraph) (n : nat) (x : val) (t : nat) (e : tedit), reachable g -> wf_op g (ORemit n x t e) -> let g' := step_g g (ORemit n x t e) in (forall u d : nat, t_alive (tget g' u) = true -> t_alive (tget g' d) = true -> In d (t_downs (tget g' u)) <-> In u (t_ups (tget g' d))) /\ (forall i : nat, t_alive (tget g' i) = true -> NoDup (t_ups (tget g' i)) /\ NoDup (t_downs (tget g' i))) /\ (forall i j : nat, t_alive (tget g' i) = true -> In j (t_ups (tget g' i)) \/ In j (t_downs (tget g' i)) -> j < length g') /\ (forall u d : nat, t_alive (tget g' d) = true -> In u (t_ups (tget g' d)) -> u < d) /\ (forall u d : nat, t_alive (tget g' u) = true -> In d (t_downs (tget g' u)) -> u < d).
Proof. exact (@reentrant_links_consistent). Qed.
Print Assumptions C15_reentrant_links_consistent.

Theorem C15_reentrant_raw_invariant : forall (g : tgraph) (n : nat) (x : val) (t : nat) (e : tedit) (g' : tgraph) (p' : rpend) (r : bool) (log : list tdeliv), reachable g -> wf_op g (ORemit n x t e) -> rdeliver (S (length g)) g (Some (t, e)) n x = (g', p', r, log) -> TInv0 g'.
Proof. exact (@reentrant_raw_invariant). Qed.
Print Assumptions C15_reentrant_raw_invariant.

(* such an emission never raises: the update of a zip / combine_latest node is only handed an element by one of its inputs *)
Theorem C15_reentrant_never_raises : forall (f : nat) (g : tgraph) (p : rpend) (n : nat) (x : val) (g' : tgraph) (p' : rpend) (r : bool) (log : list tdeliv), TInv0 g -> pend_ok g p -> alive g n -> rdeliver f g p n x = (g', p', r, log) -> r = false.
Proof. exact (@reentrant_never_raises). Qed.
Print Assumptions C15_reentrant_never_raises.

Theorem C15_reentrant_step_never_raises : forall (g : tgraph) (n : nat) (x : val) (t : nat) (e : tedit) (g' : tgraph) (r : tres) (log : list tdeliv), reachable g -> wf_op g (ORemit n x t e) -> tstep g (ORemit n x t e) = (g', r, log) -> r = ROk.
Proof. exact (@reentrant_step_never_raises). Qed.
Print Assumptions C15_reentrant_step_never_raises.

(* no hypothesis on the result of the step *)
Theorem C15_reentrant_untouched_sibling_gets_element : forall (g : tgraph) (n : nat) (x : val) (t : nat) (e : tedit) (g' : tgraph) (r : tres) (log : list tdeliv), reachable g -> wf_op g (ORemit n x t e) -> tstep g (ORemit n x t e) = (g', r, log) -> forall P c : nat, tk (tget g P) = TPipe -> In c (t_downs (tget g P)) -> t_alive (tget g' P) = true -> In c (t_downs (tget g' P)) -> cnt_edge P c log = cnt_to P log + b2n (n =? P).
Proof. exact (@reentrant_untouched_sibling). Qed.
Print Assumptions C15_reentrant_untouched_sibling_gets_element.

(* the former witness of the defect "detached-input-still-served": the zip node 3, detached from 0 by the reactive sink 2
   during the emission at 0, is skipped; the step returns and the late sibling 5 gets the element *)
Theorem C15_reentrant_detached_combiner_not_served : legal [] c15r_bad_ops /\ (let g := run_ops [] c15r_bad_ops in wf_op g (ORemit 0 (VInt 2%Z) 2 (EDisconnect 0 3)) /\ (exists (g' : tgraph) (log : list tdeliv), tstep g (ORemit 0 (VInt 2%Z) 2 (EDisconnect 0 3)) = (g', ROk, log) /\ tk (tget g 0) = TPipe /\ tk (tget g 3) = TZip /\ In 3 (t_downs (tget g 0)) /\ ~ In 3 (t_downs (tget g' 0)) /\ In 5 (t_downs (tget g 0)) /\ t_alive (tget g' 0) = true /\ In 5 (t_downs (tget g' 0)) /\ log = [(0, 2, VInt 2%Z); (0, 5, VInt 2%Z)] /\ cnt_edge 0 3 log = 0 /\ cnt_edge 0 5 log = 1 /\ cnt_to 0 log + b2n (0 =? 0) = 1)).
Proof. exact reentrant_detached_combiner_not_served. Qed.
Print Assumptions C15_reentrant_detached_combiner_not_served.

Theorem C15_reentrant_next_emit_follows_new_topology : forall (g : tgraph) (n : nat) (x : val) (t : nat) (e : tedit) (m : nat) (y : val) (g2 : tgraph) (r : tres) (log : list tdeliv), reachable g -> wf_op g (ORemit n x t e) -> let g1 := step_g g (ORemit n x t e) in wf_op g1 (OEmit m y) -> tstep g1 (OEmit m y) = (g2, r, log) -> r = ROk /\ (forall (s d : nat) (v : val), In (s, d, v) log -> t_alive (tget g1 d) = true /\ In d (t_downs (tget g1 s))) /\ filter (fun e0 : nat * nat * val => fst (fst e0) =? m) log = map (fun d : nat => (m, d, y)) (t_downs (tget g1 m)).
Proof. exact (@reentrant_next_emit_follows_new_topology). Qed.
Print Assumptions C15_reentrant_next_emit_follows_new_topology.

(* without a pending edit the re-entrant delivery is the plain emission: the new test is vacuous when nobody edits the graph *)
Theorem C15_reentrant_without_edit_is_plain_emit : forall (f : nat) (g : tgraph) (n : nat) (x : val) (g' : tgraph) (l : list tdeliv), TInv0 g -> alive g n -> temit f g n x = (g', l) -> rdeliver f g None n x = (g', None, false, l).
Proof. exact (@reentrant_without_edit_is_plain_emit). Qed.
Print Assumptions C15_reentrant_without_edit_is_plain_emit.

Theorem C15_emit_forwarded_to_every_child : forall (g : tgraph) (n : nat) (x : val) (g' : tgraph) (r : tres) (log : list tdeliv), reachable g -> wf_op g (OEmit n x) -> tstep g (OEmit n x) = (g', r, log) -> forall P c : nat, tk (tget g P) = TPipe -> In c (t_downs (tget g P)) -> cnt_edge P c log = cnt_to P log + b2n (n =? P).
Proof. exact (@emit_forwarded_to_every_child). Qed.
Print Assumptions C15_emit_forwarded_to_every_child.

Example C15_reentrant_nonvacuous : legal [] c15r_ops /\ map (fun o => (to_raised o, to_deliv o)) (skipn 8 (trun [] c15r_ops)) = [ (false, [(0, 1, VInt 1%Z); (1, 2, VInt 1%Z); (1, 3, VInt 1%Z); (1, 4, VInt 1%Z); (4, 5, VInt 1%Z); (4, 6, VInt 1%Z); (6, 7, VInt 1%Z)]); (false, [(0, 1, VInt 2%Z); (1, 2, VInt 2%Z); (1, 4, VInt 2%Z); (4, 5, VInt 2%Z); (4, 6, VInt 2%Z); (6, 7, VInt 2%Z)]); (false, [(0, 1, VInt 3%Z); (1, 2, VInt 3%Z); (1, 4, VInt 3%Z); (4, 5, VInt 3%Z); (4, 6, VInt 3%Z); (6, 7, VInt 3%Z)]) ] /\ links_of (run_ops [] c15r_ops) = [ (true, [], [1]); (true, [0], [2; 4]); (true, [1], []); (true, [], []); (true, [1], [5; 6]); (true, [4], []); (true, [4], [7]); (true, [6], []) ].
Proof. exact c15_reentrant_nonvacuous. Qed.
Print Assumptions C15_reentrant_nonvacuous.

Example C15_reentrant_sibling_nonvacuous : let g := run_ops [] (firstn 9 c15r_ops) in reachable g /\ wf_op g (ORemit 0 (VInt 2%Z) 2 (EDisconnect 1 3)) /\ exists g' log, tstep g (ORemit 0 (VInt 2%Z) 2 (EDisconnect 1 3)) = (g', ROk, log) /\ tk (tget g 1) = TPipe /\ In 4 (t_downs (tget g 1)) /\ t_alive (tget g' 1) = true /\ In 4 (t_downs (tget g' 1)) /\ cnt_edge 1 4 log = 1 /\ cnt_to 1 log = 1 /\ In 3 (t_downs (tget g 1)) /\ ~ In 3 (t_downs (tget g' 1)) /\ cnt_edge 1 3 log = 0.
Proof. exact c15_reentrant_sibling_nonvacuous. Qed.
Print Assumptions C15_reentrant_sibling_nonvacuous.

(* ---- combine_latest with an explicit emit_on (TCombineOn t: emit_on names the stream t, given as a stream or by
        position at construction) ---- *)

Theorem C15_emit_on_only_when_triggered : forall (g : tgraph) (o : top) (g' : tgraph) (r : tres) (log : list tdeliv), reachable g -> wf_op g o -> tstep g o = (g', r, log) -> forall (z t c : nat) (v : val), tk (tget g z) = TCombineOn t -> In (z, c, v) log -> (exists x : val, o = OEmit z x) \/ (exists (x : val) (t' : nat) (e : tedit), o = ORemit z x t' e) \/ (exists w : val, In (t, z, w) log).
Proof. exact (@emit_on_only_when_triggered). Qed.
Print Assumptions C15_emit_on_only_when_triggered.

Theorem C15_combine_on_aligned : forall g : tgraph, reachable g -> forall i t : nat, t_alive (tget g i) = true -> tk (tget g i) = TCombineOn t -> length (t_last (tget g i)) = length (t_ups (tget g i)) /\ t_alive (tget g t) = true.
Proof. exact (@combine_on_aligned). Qed.
Print Assumptions C15_combine_on_aligned.

Example C15_emit_on_nonvacuous : legal [] c15on_ops /\ map (fun o => (to_raised o, to_deliv o)) (skipn 5 (trun [] c15on_ops)) = [ (false, [(1, 3, VInt 10%Z)]); (false, [(0, 3, VInt 1%Z); (3, 4, VTup [VInt 1%Z; VInt 10%Z])]); (false, [(1, 3, VInt 20%Z)]); (false, []); (false, [(0, 3, VInt 2%Z)]); (false, [(2, 3, VInt 7%Z)]); (false, [(0, 3, VInt 3%Z); (3, 4, VTup [VInt 3%Z; VInt 20%Z; VInt 7%Z])]); (false, []); (false, [(0, 3, VInt 4%Z); (3, 4, VTup [VInt 4%Z; VInt 7%Z])]); (false, []); (false, [(2, 3, VInt 8%Z)]); (false, []); (false, []) ] /\ links_of (run_ops [] c15on_ops) = [ (true, [], []); (false, [], []); (true, [], [3]); (true, [2], [4]); (true, [3], []) ].
Proof. exact c15_emit_on_nonvacuous. Qed.
Print Assumptions C15_emit_on_nonvacuous.

