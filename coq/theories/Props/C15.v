(* provisional *)
From Coq Require Import List ZArith.
From SZ Require Import Base.Values.
From SZ Require Import Sync.Topology.
Import ListNotations.
Example C15_smoke : length (trun [] [ONew TPipe []; ONew TSink [0]; OEmit 0 (VInt 1%Z)]) = 3.
Proof. vm_compute. reflexivity. Qed.
Print Assumptions C15_smoke.
