(* C15 - delivery follows the current topology under connect / disconnect / destroy / garbage collection.
   Statements restated from Sync/TopologyProofs.v; `reachable g` = g results from ANY legal history (no parallel
   edges) of node creation, emission, connect, disconnect, destroy and reference drops, with collection after every step. *)
From Coq Require Import List ZArith Bool Arith Relations.
From SZ Require Import Base.Values.
From SZ Require Import Sync.Topology.
From SZ Require Import Sync.TopologyProofs.
Import ListNotations.

Theorem C15_links_consistent : forall g : tgraph, reachable g -> (forall u d : nat, t_alive (tget g u) = true -> t_alive (tget g d) = true -> In d (t_downs (tget g u)) <-> In u (t_ups (tget g d))) /\ (forall n : nat, t_alive (tget g n) = true -> NoDup (t_ups (tget g n)) /\ NoDup (t_downs (tget g n))) /\ (forall n i : nat, t_alive (tget g n) = true -> In i (t_ups (tget g n)) \/ In i (t_downs (tget g n)) -> i < length g) /\ (forall u d : nat, t_alive (tget g d) = true -> In u (t_ups (tget g d)) -> u < d) /\ (forall u d : nat, t_alive (tget g u) = true -> In d (t_downs (tget g u)) -> u < d).
Proof. exact (@links_consistent). Qed.
Print Assumptions C15_links_consistent.

Theorem C15_downs_alive : forall g : tgraph, reachable g -> forall u d : nat, t_alive (tget g u) = true -> In d (t_downs (tget g u)) -> t_alive (tget g d) = true.
Proof. exact (@downs_alive). Qed.
Print Assumptions C15_downs_alive.

Theorem C15_ups_alive : forall g : tgraph, reachable g -> forall u d : nat, t_alive (tget g d) = true -> In u (t_ups (tget g d)) -> t_alive (tget g u) = true.
Proof. exact (@ups_alive). Qed.
Print Assumptions C15_ups_alive.

Theorem C15_temit_frame : forall (f : nat) (g : tgraph) (n : nat) (x : val) (g' : tgraph) (log : list tdeliv), TInv0 g -> alive g n -> temit f g n x = (g', log) -> length g' = length g /\ (forall i : nat, tk (tget g' i) = tk (tget g i) /\ t_ups (tget g' i) = t_ups (tget g i) /\ t_downs (tget g' i) = t_downs (tget g i) /\ t_alive (tget g' i) = t_alive (tget g i) /\ t_held (tget g' i) = t_held (tget g i) /\ t_reg (tget g' i) = t_reg (tget g i)).
Proof. exact (@temit_frame). Qed.
Print Assumptions C15_temit_frame.

Theorem C15_emit_along_edges : forall (f : nat) (g : tgraph) (n : nat) (x : val) (g' : tgraph) (log : list tdeliv), TInv0 g -> alive g n -> temit f g n x = (g', log) -> (forall (s d : nat) (v : val), In (s, d, v) log -> t_alive (tget g d) = true /\ In d (t_downs (tget g s))) /\ (f <> 0 -> filter (fun e : nat * nat * val => fst (fst e) =? n) log = map (fun d : nat => (n, d, x)) (t_downs (tget g n))).
Proof. exact (@emit_along_edges). Qed.
Print Assumptions C15_emit_along_edges.

Theorem C15_dropped_branch_silent : forall (g : tgraph) (n : nat) (x : val) (g' : tgraph) (r : tres) (log : list tdeliv), reachable g -> wf_op g (OEmit n x) -> tstep g (OEmit n x) = (g', r, log) -> r = ROk /\ (forall (s d : nat) (v : val), In (s, d, v) log -> t_alive (tget g d) = true /\ In d (t_downs (tget g s))) /\ filter (fun e : nat * nat * val => fst (fst e) =? n) log = map (fun d : nat => (n, d, x)) (t_downs (tget g n)).
Proof. exact (@dropped_branch_silent). Qed.
Print Assumptions C15_dropped_branch_silent.

Theorem C15_emit_preserves_liveness : forall (g : tgraph) (n : nat) (x : val), reachable g -> wf_op g (OEmit n x) -> forall i : nat, t_alive (tget (step_g g (OEmit n x)) i) = t_alive (tget g i).
Proof. exact (@emit_preserves_liveness). Qed.
Print Assumptions C15_emit_preserves_liveness.

Theorem C15_sink_survives_drop : forall (g : tgraph) (o : top) (s : nat), TInv0 g -> wf_op g o -> t_alive (tget g s) = true -> t_reg (tget g s) = true -> t_alive (tget (step_g g o) s) = true /\ (forall u : nat, clos_refl_trans nat (fun a b : nat => In b (t_ups (tget (step_g g o) a))) s u -> t_alive (tget (step_g g o) u) = true).
Proof. exact (@sink_survives_drop). Qed.
Print Assumptions C15_sink_survives_drop.

Theorem C15_sink_survives_own_drop : forall (g : tgraph) (s : nat), reachable g -> wf_op g (ODrop s) -> t_reg (tget g s) = true -> t_alive (tget (step_g g (ODrop s)) s) = true.
Proof. exact (@sink_survives_own_drop). Qed.
Print Assumptions C15_sink_survives_own_drop.

Theorem C15_collect_dead : forall (g : tgraph) (n : nat), TShape g -> t_held (tget g n) = false -> t_reg (tget g n) = false -> t_downs (tget g n) = [] -> t_alive (tget (collect g) n) = false.
Proof. exact (@collect_dead). Qed.
Print Assumptions C15_collect_dead.

Theorem C15_destroyed_and_dropped_dies : forall (g : tgraph) (n : nat), TInv0 g -> wf_op g (ODestroy n) -> t_downs (tget g n) = [] -> wf_op (step_g g (ODestroy n)) (ODrop n) /\ t_alive (tget (step_g (step_g g (ODestroy n)) (ODrop n)) n) = false.
Proof. exact (@destroyed_and_dropped_dies). Qed.
Print Assumptions C15_destroyed_and_dropped_dies.

Theorem C15_combine_aligned : forall g : tgraph, reachable g -> forall i : nat, t_alive (tget g i) = true -> tk (tget g i) = TCombine -> length (t_last (tget g i)) = length (t_ups (tget g i)).
Proof. exact (@combine_aligned). Qed.
Print Assumptions C15_combine_aligned.

Theorem C15_zip_keys : forall g : tgraph, reachable g -> forall i : nat, t_alive (tget g i) = true -> tk (tget g i) = TZip -> NoDup (map fst (t_bufs (tget g i))) /\ (forall u : nat, In u (map fst (t_bufs (tget g i))) <-> In u (t_ups (tget g i))).
Proof. exact (@zip_keys). Qed.
Print Assumptions C15_zip_keys.

Theorem C15_zip_never_wedged : forall g : tgraph, reachable g -> forall i : nat, t_alive (tget g i) = true -> tk (tget g i) = TZip -> zip_ready (tget g i) = false.
Proof. exact (@zip_never_wedged). Qed.
Print Assumptions C15_zip_never_wedged.

Theorem C15_zip_never_wedged_step : forall (g : tgraph) (o : top), reachable g -> wf_op g o -> forall i : nat, t_alive (tget (step_g g o) i) = true -> tk (tget (step_g g o) i) = TZip -> zip_ready (tget (step_g g o) i) = false.
Proof. exact (@zip_never_wedged_step). Qed.
Print Assumptions C15_zip_never_wedged_step.

Theorem C15_collect_idempotent : forall g : tgraph, TShape g -> collect (collect g) = collect g.
Proof. exact (@collect_idempotent). Qed.
Print Assumptions C15_collect_idempotent.

Theorem C15_reachable_collected : forall g : tgraph, reachable g -> collect g = g.
Proof. exact (@reachable_collected). Qed.
Print Assumptions C15_reachable_collected.

Theorem C15_disconnect_non_edge_raises : forall (g : tgraph) (u d : nat), reachable g -> wf_op g (ODisconnect u d) -> ~ In d (t_downs (tget g u)) -> tstep g (ODisconnect u d) = (g, RRaise, []).
Proof. exact (@disconnect_non_edge_raises). Qed.
Print Assumptions C15_disconnect_non_edge_raises.

