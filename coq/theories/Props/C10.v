(* C10 — metadata travels with exactly the data it describes.
   In the model a metadata value is a `list mdi`: flatness is by type; the correspondence check refuses
   (reports) any non-flat metadata the implementation delivers.  The pipeline-level statement is
   C01's dataflow theorem, whose edges carry (value, metadata) PAIRS; the per-kind statements say
   which metadata each output carries. *)
From Coq Require Import List ZArith Bool Arith.
From SZ Require Import Base.Values Sync.Nodes Sync.Pipeline Sync.PushSpec Sync.Dataflow Sync.NodeSem.
Import ListNotations.

(* every permanent edge carries exactly the (value, metadata) outputs of its source's update;
   edges out of entry points carry exactly the (value, metadata) pairs that were emitted *)
Theorem C10_md_follows_dataflow : forall g evs w,
  wf_dag g -> emit_only g evs -> exec g evs = (w, SOk) -> RunInv g evs w.
Proof. exact pipeline_dataflow. Qed.
Print Assumptions C10_md_follows_dataflow.

(* one-to-one nodes pass the metadata unchanged *)
Theorem C10_map_md : forall f s l, fold_outs (KMap f) s l = map_sem f l.
Proof. exact sem_map. Qed.
Theorem C10_filter_md : forall p s l, fold_outs (KFilter p) s l = filter_sem p l.
Proof. exact sem_filter. Qed.
Theorem C10_starmap_md : forall f s l, fold_outs (KStarmap f) s l = starmap_sem f l.
Proof. exact sem_starmap. Qed.
Theorem C10_pluck_md : forall i s l, fold_outs (KPluck (PickOne i)) s l = pluck_one_sem i l.
Proof. exact sem_pluck_one. Qed.
Theorem C10_accumulate_md : forall f start s l,
  fold_outs (KAccum f start false false) s l = scan f (st_acc s) l.
Proof. exact sem_accumulate. Qed.
Theorem C10_slice_md : forall start stop step s l,
  fold_outs (KSlice start stop step) s l = slice_sem start stop step (st_n s) l.
Proof. exact sem_slice. Qed.
Theorem C10_identity_md : forall k s l, k = KSource \/ k = KUnion ->
  fold_outs k s l = map (fun a => (aval a, amd a)) l.
Proof. exact sem_identity. Qed.
(* a one-to-many node attaches the metadata to the LAST piece, earlier pieces carry none *)
Theorem C10_flatten_md : forall s l, fold_outs KFlatten s l = flatten_sem l.
Proof. exact sem_flatten. Qed.
(* a batching node passes the concatenation of the members' metadata in member order *)
Theorem C10_partition_md : forall n l s buf,
  part_buf s = (map aval buf, flat_map amd buf) ->
  fold_outs (KPartition n None) s l = chunks n buf l.
Proof. exact sem_partition. Qed.
Print Assumptions C10_flatten_md.
Print Assumptions C10_partition_md.

Example C10_nonvacuous :
  flatten_sem [(0, VTup [VInt 1%Z; VInt 2%Z], [{| mid := 7; mref := true |}])]
  = [(VInt 1%Z, []); (VInt 2%Z, [{| mid := 7; mref := true |}])]
  /\ chunks 2 [] [(0, VInt 1%Z, [{| mid := 1; mref := false |}]); (0, VInt 2%Z, []); (0, VInt 3%Z, [{| mid := 3; mref := true |}])]
     = [(VTup [VInt 1%Z; VInt 2%Z], [{| mid := 1; mref := false |}])].
Proof. split; vm_compute; reflexivity. Qed.

(* ---- _emit bridges (harness/mkprops_emit.py): begin ---- *)
(* Stream._emit, Stream._retain_refs and Stream._release_refs are the ones regenerated from the source under test on this
   run: Gen/KN__refs.v and Gen/KN__emit.v are written by harness/gen_emit.py from the python AST of streamz/core.py,
   statement by statement, in the world-level monad of Base/MiniPyW.v (an exception raised by `downstream.update` unwinds
   the loop; the returned list of awaitables is represented by the status only).  Base/BridgeEmit.v proves that they are
   the model's retain / release / push: `downstream.update` is the parameter call_update (log the call, evaluate the node's
   update, run its action list with the recursive push), `self.downstreams` is read through the model's downs, one turn
   of the loop is the model's hand (the test `downstream not in self.downstreams` is attached: membership in downs of the
   world at the time of the test; a child that left since the snapshot is not called and the reference retained for it is
   released), and the model's deliver is the call followed by the release - unless the call unwinds. *)
From SZ Require Import Base.MiniPyW Base.BridgeEmit.
Theorem C10_emit_matches_source :
  forall fuel g depth n w x m,
  push (S fuel) g depth n w x m =
  Gen.KN__emit.gen_emit (fun w => downs g w n) (call_update_of fuel g depth n) w x m.
Proof. exact bridge_emit. Qed.
Print Assumptions C10_emit_matches_source.
Theorem C10_emit_matches_source_any_callee :
  forall emitfrom g depth n w x m,
  (let ds := downs g w n in
   fold_left (hand emitfrom g depth n x m) ds (retain w m (Z.of_nat (length ds)), SOk)) =
  Gen.KN__emit.gen_emit (fun w => downs g w n) (call_update emitfrom g depth n) w x m.
Proof. exact bridge_emit_gen. Qed.
Print Assumptions C10_emit_matches_source_any_callee.
Theorem C10_retain_refs_matches_source :
  forall w m n, Gen.KN__refs.gen_retain_refs w m n = retain w m n.
Proof. exact bridge_retain_refs. Qed.
Print Assumptions C10_retain_refs_matches_source.
Theorem C10_release_refs_matches_source :
  forall w m n, Gen.KN__refs.gen_release_refs w m n = release w m n.
Proof. exact bridge_release_refs. Qed.
Print Assumptions C10_release_refs_matches_source.
(* ---- _emit bridges (harness/mkprops_emit.py): end ---- *)

(* ---- node bridges (harness/mkprops_nodes.py): begin ---- *)
(* The update methods of the node classes are the ones regenerated from the source under test on this run:
   Gen/KN_<class>.v is written by harness/gen_nodes.py from the python AST of streamz/core.py, statement by statement,
   in the monad of Base/MiniPy.v; Base/BridgeNodes.v proves that it is the update function of Sync/Nodes.v.
   `run` form: additionally the method never raises after an effect (RLate); `update` form: the model's
   option (list action).  For combine_latest / zip_latest (and partition_unique) the equality is modulo
   retains / releases of an EMPTY metadata list, which Pipeline.run_actions ignores (strip_run_actions). *)
From SZ Require Import Base.MiniPy Base.BridgeNodes.
Theorem C10_update_flatten_matches_source :
  forall s p x m, Gen.KN_flatten.gen_update_flatten s p x m = update (KFlatten) s p x m.
Proof. exact bridge_update_flatten. Qed.
Print Assumptions C10_update_flatten_matches_source.
Theorem C10_run_flatten_matches_source :
  forall s p x m, Gen.KN_flatten.gen_run_flatten s p x m = of_option (update (KFlatten) s p x m).
Proof. exact bridge_run_flatten. Qed.
Print Assumptions C10_run_flatten_matches_source.
Theorem C10_update_partition_matches_source :
  forall n key s p x m, Gen.KN_partition.gen_update_partition n key s p x m = update (KPartition n key) s p x m.
Proof. exact bridge_update_partition. Qed.
Print Assumptions C10_update_partition_matches_source.
Theorem C10_run_partition_matches_source :
  forall n key s p x m, Gen.KN_partition.gen_run_partition n key s p x m = of_option (update (KPartition n key) s p x m).
Proof. exact bridge_run_partition. Qed.
Print Assumptions C10_run_partition_matches_source.
Theorem C10_coroutine_partition_matches_source :
  forall n key, is_coroutine (KPartition n key) = Gen.KN_partition.gen_is_coroutine_partition.
Proof. exact bridge_coroutine_partition. Qed.
Print Assumptions C10_coroutine_partition_matches_source.
Theorem C10_update_sliding_window_matches_source :
  forall n partial s p x m, 1 <= n ->
  Gen.KN_sliding_window.gen_update_sliding_window n partial s p x m = update (KSliding n partial) s p x m.
Proof. exact bridge_update_sliding_window. Qed.
Print Assumptions C10_update_sliding_window_matches_source.
Theorem C10_run_sliding_window_matches_source :
  forall n partial s p x m, 1 <= n ->
  Gen.KN_sliding_window.gen_run_sliding_window n partial s p x m = of_option (update (KSliding n partial) s p x m).
Proof. exact bridge_run_sliding_window. Qed.
Print Assumptions C10_run_sliding_window_matches_source.
Theorem C10_update_collect_matches_source :
  forall s p x m, Gen.KN_collect.gen_update_collect s p x m = update (KCollect) s p x m.
Proof. exact bridge_update_collect. Qed.
Print Assumptions C10_update_collect_matches_source.
Theorem C10_run_collect_matches_source :
  forall s p x m, Gen.KN_collect.gen_run_collect s p x m = of_option (update (KCollect) s p x m).
Proof. exact bridge_run_collect. Qed.
Print Assumptions C10_run_collect_matches_source.
Theorem C10_flush_collect_matches_source :
  forall s, Gen.KN_collect.gen_flush_collect s = RSome (flush_actions s).
Proof. exact bridge_flush_collect. Qed.
Print Assumptions C10_flush_collect_matches_source.
Theorem C10_update_zip_matches_source :
  forall lits maxsize s p x m, p < length (st_ports s) ->
  Gen.KN_zip.gen_update_zip lits maxsize s p x m = update (KZip lits) s p x m.
Proof. exact bridge_update_zip. Qed.
Print Assumptions C10_update_zip_matches_source.
Theorem C10_run_zip_matches_source :
  forall lits maxsize s p x m, p < length (st_ports s) ->
  Gen.KN_zip.gen_run_zip lits maxsize s p x m = of_option (update (KZip lits) s p x m).
Proof. exact bridge_run_zip. Qed.
Print Assumptions C10_run_zip_matches_source.
Theorem C10_strip_has_no_effect : forall emit coro d l w, run_actions emit coro d (strip l) w = run_actions emit coro d l w.
Proof. exact strip_run_actions. Qed.
Print Assumptions C10_strip_has_no_effect.
Theorem C10_update_combine_latest_matches_source :
  forall eo s p x m, p < length (st_last s) ->
  option_map strip (Gen.KN_combine_latest.gen_update_combine_latest eo s p x m) = option_map strip (update (KCombineLatest eo) s p x m).
Proof. exact bridge_update_combine_latest. Qed.
Print Assumptions C10_update_combine_latest_matches_source.
Theorem C10_run_combine_latest_matches_source :
  forall eo s p x m, p < length (st_last s) ->
  strip_r (Gen.KN_combine_latest.gen_run_combine_latest eo s p x m) = strip_r (of_option (update (KCombineLatest eo) s p x m)).
Proof. exact bridge_run_combine_latest. Qed.
Print Assumptions C10_run_combine_latest_matches_source.
Theorem C10_update_zip_latest_matches_source :
  forall s p x m, p < length (st_last s) ->
  option_map strip (Gen.KN_zip_latest.gen_update_zip_latest s p x m) = option_map strip (update (KZipLatest) s p x m).
Proof. exact bridge_update_zip_latest. Qed.
Print Assumptions C10_update_zip_latest_matches_source.
Theorem C10_run_zip_latest_matches_source :
  forall s p x m, p < length (st_last s) ->
  strip_r (Gen.KN_zip_latest.gen_run_zip_latest s p x m) = strip_r (of_option (update (KZipLatest) s p x m)).
Proof. exact bridge_run_zip_latest. Qed.
Print Assumptions C10_run_zip_latest_matches_source.
Theorem C10_update_partition_unique_matches_source :
  forall n key kl s p x m, pu_inv (st_keyed s) ->
  option_map strip (Gen.KN_partition_unique.gen_update_partition_unique n key kl s p x m) = option_map strip (update (KPartUnique n key kl) s p x m).
Proof. exact bridge_update_partition_unique. Qed.
Print Assumptions C10_update_partition_unique_matches_source.
Theorem C10_run_partition_unique_matches_source :
  forall n key kl s p x m, pu_inv (st_keyed s) ->
  strip_r (Gen.KN_partition_unique.gen_run_partition_unique n key kl s p x m) = strip_r (of_option (update (KPartUnique n key kl) s p x m)).
Proof. exact bridge_run_partition_unique. Qed.
Print Assumptions C10_run_partition_unique_matches_source.
Theorem C10_partition_unique_invariant :
  forall n key kl s p x m acts s', pu_inv (st_keyed s) -> update (KPartUnique n key kl) s p x m = Some acts -> In (ASet s') acts -> pu_inv (st_keyed s').
Proof. exact pu_inv_preserved. Qed.
Print Assumptions C10_partition_unique_invariant.
Theorem C10_partition_unique_invariant_init :
  forall n key kl nups, pu_inv (st_keyed (init_state (KPartUnique n key kl) nups)).
Proof. exact pu_inv_init. Qed.
Print Assumptions C10_partition_unique_invariant_init.
(* ---- node bridges (harness/mkprops_nodes.py): end ---- *)

(* ---- generated by harness/mkprops_sync.py: begin ---- *)
From SZ Require Sync.NodeSem2.
Section G_sem_accumulate_full.
Import SZ.Sync.NodeSem2.
Theorem C10_sem_accumulate_full : forall (f : val -> val -> option val) (start : option val) (rs ws : bool) (s : nstate) (l : list arrival), fold_outs (KAccum f start rs ws) s l = scan_full f rs ws (st_acc s) l.
Proof. exact (@sem_accumulate_full). Qed.
End G_sem_accumulate_full.
Print Assumptions C10_sem_accumulate_full.
Section G_sem_sliding.
Import SZ.Sync.NodeSem2.
Theorem C10_sem_sliding : forall (n : nat) (partial : bool) (l : list arrival) (s : nstate) (pre : list arrival), 1 <= n -> sliding_inv n s pre -> fold_outs (KSliding n partial) s l = sliding_sem n partial pre l.
Proof. exact (@sem_sliding). Qed.
End G_sem_sliding.
Print Assumptions C10_sem_sliding.
Section G_sem_unique.
Import SZ.Sync.NodeSem2.
Theorem C10_sem_unique : forall (maxsize : option nat) (key : val -> val) (l : list arrival) (s : nstate) (pre : list arrival), unique_inv maxsize key s pre -> fold_outs (KUnique maxsize key) s l = unique_sem maxsize key pre l.
Proof. exact (@sem_unique). Qed.
End G_sem_unique.
Print Assumptions C10_sem_unique.
Section G_sem_combine_latest.
Import SZ.Sync.NodeSem2.
Theorem C10_sem_combine_latest : forall (arity : nat) (emit_on : option (list nat)) (l : list arrival) (s : nstate) (pre : list arrival), latest_inv arity s pre -> fold_outs (KCombineLatest emit_on) s l = combine_latest_sem arity emit_on pre l.
Proof. exact (@sem_combine_latest). Qed.
End G_sem_combine_latest.
Print Assumptions C10_sem_combine_latest.
Section G_sem_zip.
Import SZ.Sync.NodeSem2.
Theorem C10_sem_zip : forall (lits : list (nat * val)) (arity : nat) (l : list arrival), 1 <= arity -> Forall (fun a : arrival => aport a < arity) l -> fold_outs (KZip lits) (init_state (KZip lits) arity) l = zip_sem lits arity l /\ st_ports (fold_state (KZip lits) (init_state (KZip lits) arity) l) = map (fun p : nat => skipn (length (zip_sem lits arity l)) (col p l)) (seq 0 arity).
Proof. exact (@sem_zip). Qed.
End G_sem_zip.
Print Assumptions C10_sem_zip.
Section G_sem_partition_key.
Import SZ.Sync.NodeSem2.
Theorem C10_sem_partition_key : forall (n : nat) (key : val -> val) (l : list arrival) (s : nstate) (pre : list arrival), 1 <= n -> partition_key_inv n key s pre -> fold_outs (KPartition n (Some key)) s l = partition_key_sem n key pre l.
Proof. exact (@sem_partition_key). Qed.
End G_sem_partition_key.
Print Assumptions C10_sem_partition_key.
Section G_sem_part_unique.
Import SZ.Sync.NodeSem2.
Theorem C10_sem_part_unique : forall (n : nat) (key : val -> val) (kl : bool) (l : list arrival) (s : nstate) (buf : list arrival), pu_inv key s buf -> fold_outs (KPartUnique n key kl) s l = part_unique_sem n key kl buf l.
Proof. exact (@sem_part_unique). Qed.
End G_sem_part_unique.
Print Assumptions C10_sem_part_unique.
Section G_sem_zip_latest.
Import SZ.Sync.NodeSem2.
Theorem C10_sem_zip_latest : forall (arity : nat) (l : list arrival) (s : nstate) (pre : list arrival), 1 <= arity -> zl_inv arity s pre -> fold_outs KZipLatest s l = zip_latest_sem arity pre l.
Proof. exact (@sem_zip_latest). Qed.
End G_sem_zip_latest.
Print Assumptions C10_sem_zip_latest.
Section G_collect_flush.
Import SZ.Sync.NodeSem2.
Theorem C10_collect_flush : forall (s : nstate) (l : list arrival), st_win s = [] -> let s' := fold_state KCollect s l in outs (flush_actions s') = [chunk_out l] /\ st_win (final_state (flush_actions s') s') = [].
Proof. exact (@collect_flush). Qed.
End G_collect_flush.
Print Assumptions C10_collect_flush.
(* ---- generated by harness/mkprops_sync.py: end ---- *)
