(* C10 — metadata travels with exactly the data it describes.
   In the model a metadata value is a `list mdi`: flatness is by type; the correspondence check refuses
   (reports) any non-flat metadata the implementation delivers.  The pipeline-level statement is
   C01's dataflow theorem, whose edges carry (value, metadata) PAIRS; the per-kind statements say
   which metadata each output carries. *)
From Coq Require Import List ZArith Bool Arith.
From SZ Require Import Base.Values Sync.Nodes Sync.Pipeline Sync.PushSpec Sync.Dataflow Sync.NodeSem.
Import ListNotations.

(* every permanent edge carries exactly the (value, metadata) outputs of its source's update;
   edges out of entry points carry exactly the (value, metadata) pairs that were emitted *)
Theorem C10_md_follows_dataflow : forall g evs w,
  wf_dag g -> emit_only g evs -> exec g evs = (w, SOk) -> RunInv g evs w.
Proof. exact pipeline_dataflow. Qed.
Print Assumptions C10_md_follows_dataflow.

(* one-to-one nodes pass the metadata unchanged *)
Theorem C10_map_md : forall f s l, fold_outs (KMap f) s l = map_sem f l.
Proof. exact sem_map. Qed.
Theorem C10_filter_md : forall p s l, fold_outs (KFilter p) s l = filter_sem p l.
Proof. exact sem_filter. Qed.
Theorem C10_starmap_md : forall f s l, fold_outs (KStarmap f) s l = starmap_sem f l.
Proof. exact sem_starmap. Qed.
Theorem C10_pluck_md : forall i s l, fold_outs (KPluck (PickOne i)) s l = pluck_one_sem i l.
Proof. exact sem_pluck_one. Qed.
Theorem C10_accumulate_md : forall f start s l,
  fold_outs (KAccum f start false false) s l = scan f (st_acc s) l.
Proof. exact sem_accumulate. Qed.
Theorem C10_slice_md : forall start stop step s l,
  fold_outs (KSlice start stop step) s l = slice_sem start step (st_n s) l.
Proof. exact sem_slice. Qed.
Theorem C10_identity_md : forall k s l, k = KSource \/ k = KUnion ->
  fold_outs k s l = map (fun a => (aval a, amd a)) l.
Proof. exact sem_identity. Qed.
(* a one-to-many node attaches the metadata to the LAST piece, earlier pieces carry none *)
Theorem C10_flatten_md : forall s l, fold_outs KFlatten s l = flatten_sem l.
Proof. exact sem_flatten. Qed.
(* a batching node passes the concatenation of the members' metadata in member order *)
Theorem C10_partition_md : forall n l s buf,
  part_buf s = (map aval buf, flat_map amd buf) ->
  fold_outs (KPartition n None) s l = chunks n buf l.
Proof. exact sem_partition. Qed.
Print Assumptions C10_flatten_md.
Print Assumptions C10_partition_md.

Example C10_nonvacuous :
  flatten_sem [(0, VTup [VInt 1%Z; VInt 2%Z], [{| mid := 7; mref := true |}])]
  = [(VInt 1%Z, []); (VInt 2%Z, [{| mid := 7; mref := true |}])]
  /\ chunks 2 [] [(0, VInt 1%Z, [{| mid := 1; mref := false |}]); (0, VInt 2%Z, []); (0, VInt 3%Z, [{| mid := 3; mref := true |}])]
     = [(VTup [VInt 1%Z; VInt 2%Z], [{| mid := 1; mref := false |}])].
Proof. split; vm_compute; reflexivity. Qed.
