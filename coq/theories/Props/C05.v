(* C05 — checkpoint liveness/balance (synchronous part; asynchronous nodes are added by Async/). *)
From Coq Require Import List ZArith Bool Arith Lia.
From SZ Require Import Base.Values Sync.Nodes Sync.Pipeline Sync.PushSpec Sync.Dataflow Sync.RefCount.
Import ListNotations.

(* every exception-free push preserves  count r - holders r  exactly, from ANY world, in ANY DAG *)
Theorem C05_push_preserves_excess : forall g, wf_dag g -> graph_books g ->
  forall fuel depth d w y my w', WF g w -> push fuel g depth d w y my = (w', SOk) ->
  forall r, excess g w' r = excess g w r.
Proof. exact push_excess. Qed.
Print Assumptions C05_push_preserves_excess.

(* at every quiescent point the count equals the number of legitimate holders *)
Theorem C05_balance_at_quiescence : forall g evs w,
  wf_dag g -> books_graph_ok g -> emits_only evs -> exec g evs = (w, SOk) ->
  forall r, cnt w r = holders g w r.
Proof. exact balance_at_quiescence. Qed.
Print Assumptions C05_balance_at_quiescence.

Theorem C05_count_nonneg : forall g evs w,
  wf_dag g -> books_graph_ok g -> emits_only evs -> exec g evs = (w, SOk) ->
  forall r, (0 <= cnt w r)%Z.
Proof. exact count_nonneg. Qed.

Theorem C05_left_pipeline_zero : forall g evs w r,
  wf_dag g -> books_graph_ok g -> emits_only evs -> exec g evs = (w, SOk) ->
  (forall d, d < length g -> occ (held (nkind (gnode g d)) (nst w d)) r = 0%Z) -> cnt w r = 0%Z.
Proof. exact left_pipeline_zero. Qed.
Print Assumptions C05_left_pipeline_zero.

(* the per-kind obligation is discharged for these kinds; for sliding_window, zip, combine_latest,
   zip_latest and partition_unique it needs a state invariant (window shorter than n, port < arity)
   and is NOT proved here: those kinds are covered by correspondence and oracle only (partial). *)
Theorem C05_kind_books : forall k, books_kind_ok k = true -> kind_books k.
Proof. exact kind_books_ok. Qed.
Print Assumptions C05_kind_books.

(* RefCounter.release schedules the callback exactly when the count drops to <= 0 *)
Theorem C05_release_fires : forall w r n,
  fired (release1 w r n) = if (cnt w r - n <=? 0)%Z then fired w ++ [r] else fired w.
Proof. exact release1_fires. Qed.

Definition ex5_g : graph :=
  [ {| nkind := KSource; ups := [] |};
    {| nkind := KFilter (interpP PEven); ups := [0] |};
    {| nkind := KPartition 2 None; ups := [1] |};
    {| nkind := KCollect; ups := [0] |};
    {| nkind := KSink (fun _ => Some tt); ups := [2] |} ].
Definition ex5_evs : list event :=
  [EEmit 0 (VInt 2%Z) [{| mid := 0; mref := true |}]; EEmit 0 (VInt 3%Z) [{| mid := 1; mref := true |}];
   EEmit 0 (VInt 4%Z) [{| mid := 2; mref := true |}]].
Example C05_nonvacuous :
  wf_dag ex5_g /\ books_graph_ok ex5_g /\ emits_only ex5_evs /\ snd (exec ex5_g ex5_evs) = SOk /\
  map (cnt (fst (exec ex5_g ex5_evs))) [0; 1; 2] = [1%Z; 1%Z; 1%Z] /\
  map (holders ex5_g (fst (exec ex5_g ex5_evs))) [0; 1; 2] = [1%Z; 1%Z; 1%Z].
Proof.
  split; [apply wf_dagb_spec; vm_compute; reflexivity|].
  split; [intros d Hd; do 5 (destruct d as [|d]; [reflexivity|]); cbn in Hd; lia|].
  split; [intros e [<-|[<-|[<-|[]]]]; exact I|].
  repeat split; vm_compute; reflexivity.
Qed.

(* RefCounter.retain / release of the model are the expressions regenerated from the source on this run *)
From SZ Require Import Base.BridgeRefCounter.
Theorem C05_refcounter_kernel_matches_source : forall w r n,
  cnt (release1 w r n) r = fst (Gen.KRefCounter.gen_rc_release (cnt w r) n) /\
  fired (release1 w r n) = if snd (Gen.KRefCounter.gen_rc_release (cnt w r) n) then fired w ++ [r] else fired w.
Proof. exact bridge_rc_release_sync. Qed.
Theorem C05_refcounter_retain_matches_source : forall w r n, cnt (retain1 w r n) r = Gen.KRefCounter.gen_rc_retain (cnt w r) n.
Proof. exact bridge_rc_retain_sync. Qed.
Print Assumptions C05_refcounter_kernel_matches_source.
