(* C05 — checkpoint liveness/balance (synchronous part; asynchronous nodes are added by Async/). *)
From Coq Require Import List ZArith Bool Arith Lia.
From SZ Require Import Base.Values Sync.Nodes Sync.Pipeline Sync.PushSpec Sync.Dataflow Sync.RefCount.
Import ListNotations.

(* every exception-free push preserves  count r - holders r  exactly, from ANY world, in ANY DAG *)
Theorem C05_push_preserves_excess : forall g, wf_dag g -> graph_books g ->
  forall fuel depth d w y my w', WF g w -> push fuel g depth d w y my = (w', SOk) ->
  forall r, excess g w' r = excess g w r.
Proof. exact push_excess. Qed.
Print Assumptions C05_push_preserves_excess.

(* at every quiescent point the count equals the number of legitimate holders *)
Theorem C05_balance_at_quiescence : forall g evs w,
  wf_dag g -> books_graph_ok g -> emits_only evs -> exec g evs = (w, SOk) ->
  forall r, cnt w r = holders g w r.
Proof. exact balance_at_quiescence. Qed.
Print Assumptions C05_balance_at_quiescence.

Theorem C05_count_nonneg : forall g evs w,
  wf_dag g -> books_graph_ok g -> emits_only evs -> exec g evs = (w, SOk) ->
  forall r, (0 <= cnt w r)%Z.
Proof. exact count_nonneg. Qed.

Theorem C05_left_pipeline_zero : forall g evs w r,
  wf_dag g -> books_graph_ok g -> emits_only evs -> exec g evs = (w, SOk) ->
  (forall d, d < length g -> occ (held (nkind (gnode g d)) (nst w d)) r = 0%Z) -> cnt w r = 0%Z.
Proof. exact left_pipeline_zero. Qed.
Print Assumptions C05_left_pipeline_zero.

(* the per-kind obligation is discharged unconditionally for these kinds; for sliding_window, zip,
   combine_latest and zip_latest it needs a state invariant (window shorter than n, port < arity):
   those are proved in Sync/RefCountFull.v (generated section below: C05_balance_at_quiescence_full
   holds for graphs of ALL node kinds), together with witnesses that the invariant is necessary. *)
Theorem C05_kind_books : forall k, books_kind_ok k = true -> kind_books k.
Proof. exact kind_books_ok. Qed.
Print Assumptions C05_kind_books.

(* RefCounter.release schedules the callback exactly when the count drops to <= 0 *)
Theorem C05_release_fires : forall w r n,
  fired (release1 w r n) = if (cnt w r - n <=? 0)%Z then fired w ++ [r] else fired w.
Proof. exact release1_fires. Qed.

Definition ex5_g : graph :=
  [ {| nkind := KSource; ups := [] |};
    {| nkind := KFilter (interpP PEven); ups := [0] |};
    {| nkind := KPartition 2 None; ups := [1] |};
    {| nkind := KCollect; ups := [0] |};
    {| nkind := KSink (fun _ => Some tt); ups := [2] |} ].
Definition ex5_evs : list event :=
  [EEmit 0 (VInt 2%Z) [{| mid := 0; mref := true |}]; EEmit 0 (VInt 3%Z) [{| mid := 1; mref := true |}];
   EEmit 0 (VInt 4%Z) [{| mid := 2; mref := true |}]].
Example C05_nonvacuous :
  wf_dag ex5_g /\ books_graph_ok ex5_g /\ emits_only ex5_evs /\ snd (exec ex5_g ex5_evs) = SOk /\
  map (cnt (fst (exec ex5_g ex5_evs))) [0; 1; 2] = [1%Z; 1%Z; 1%Z] /\
  map (holders ex5_g (fst (exec ex5_g ex5_evs))) [0; 1; 2] = [1%Z; 1%Z; 1%Z].
Proof.
  split; [apply wf_dagb_spec; vm_compute; reflexivity|].
  split; [intros d Hd; do 5 (destruct d as [|d]; [reflexivity|]); cbn in Hd; lia|].
  split; [intros e [<-|[<-|[<-|[]]]]; exact I|].
  repeat split; vm_compute; reflexivity.
Qed.

(* RefCounter.retain / release of the model are the expressions regenerated from the source on this run *)
From SZ Require Import Base.BridgeRefCounter.
Theorem C05_refcounter_kernel_matches_source : forall w r n,
  cnt (release1 w r n) r = fst (Gen.KRefCounter.gen_rc_release (cnt w r) n) /\
  fired (release1 w r n) = if snd (Gen.KRefCounter.gen_rc_release (cnt w r) n) then fired w ++ [r] else fired w.
Proof. exact bridge_rc_release_sync. Qed.
Theorem C05_refcounter_retain_matches_source : forall w r n, cnt (retain1 w r n) r = Gen.KRefCounter.gen_rc_retain (cnt w r) n.
Proof. exact bridge_rc_retain_sync. Qed.
Print Assumptions C05_refcounter_kernel_matches_source.

(* the turn of a child that left since the snapshot was taken is not vacuous, and it is balanced: node 2 is a slice that
   ends after one element and is attached to the source 0 AND to the map 1 (through connect).  An emission at 0 walks the
   snapshot [1; 2]: 1 hands the element on to 2, which takes it, finishes and removes itself from the downstreams of both;
   when the loop of 0 reaches 2 it is gone (Stream._emit: `downstream not in self.downstreams`): no call 0 -> 2, and the
   reference retained for it up-front is released - the counter is back at the owner's 1 and no callback was scheduled.
   (With the first wording of the repair of defect 32, a bare `continue`, the count stayed at 2.) *)
Definition ex_skip_g : graph :=
  [ {| nkind := KSource; ups := [] |};
    {| nkind := KMap (fun v => Some v); ups := [0] |};
    {| nkind := KSlice 0 (Some 1) 1; ups := [0; 1] |};
    {| nkind := KSink (fun _ => Some tt); ups := [2] |} ].
Example C05_ex_skip_is_a_dag : wf_dag ex_skip_g.
Proof. apply wf_dagb_spec. reflexivity. Qed.
Example C05_detached_child_skipped_and_balanced :
  let w0 := retain1 (init_world ex_skip_g) 0 1 in            (* the owner's reference *)
  let '(w1, s1) := push 6 ex_skip_g 0 0 w0 (VInt 7%Z) [{| mid := 0; mref := true |}] in
  s1 = SOk /\ downs ex_skip_g w0 0 = [1; 2] /\ downs ex_skip_g w1 0 = [1] /\
  map (fun e => (e_src e, e_dst e)) (rev (log w1)) = [(0, 1); (1, 2); (2, 3)] /\
  cnt w1 0 = 1%Z /\ fired w1 = [].
Proof. vm_compute. repeat split; reflexivity. Qed.

(* ---- _emit bridges (harness/mkprops_emit.py): begin ---- *)
(* Stream._emit, Stream._retain_refs and Stream._release_refs are the ones regenerated from the source under test on this
   run: Gen/KN__refs.v and Gen/KN__emit.v are written by harness/gen_emit.py from the python AST of streamz/core.py,
   statement by statement, in the world-level monad of Base/MiniPyW.v (an exception raised by `downstream.update` unwinds
   the loop; the returned list of awaitables is represented by the status only).  Base/BridgeEmit.v proves that they are
   the model's retain / release / push: `downstream.update` is the parameter call_update (log the call, evaluate the node's
   update, run its action list with the recursive push), `self.downstreams` is read through the model's downs, one turn
   of the loop is the model's hand (the test `downstream not in self.downstreams` is attached: membership in downs of the
   world at the time of the test; a child that left since the snapshot is not called and the reference retained for it is
   released), and the model's deliver is the call followed by the release - unless the call unwinds. *)
From SZ Require Import Base.MiniPyW Base.BridgeEmit.
Theorem C05_run_retain_refs_matches_source :
  forall m n w, Gen.KN__refs.gen_body__retain_refs m n w = WRet tt (retain w m n).
Proof. exact bridge_run_retain_refs. Qed.
Print Assumptions C05_run_retain_refs_matches_source.
Theorem C05_run_release_refs_matches_source :
  forall m n w, Gen.KN__refs.gen_body__release_refs m n w = WRet tt (release w m n).
Proof. exact bridge_run_release_refs. Qed.
Print Assumptions C05_run_release_refs_matches_source.
Theorem C05_retain_refs_matches_source :
  forall w m n, Gen.KN__refs.gen_retain_refs w m n = retain w m n.
Proof. exact bridge_retain_refs. Qed.
Print Assumptions C05_retain_refs_matches_source.
Theorem C05_release_refs_matches_source :
  forall w m n, Gen.KN__refs.gen_release_refs w m n = release w m n.
Proof. exact bridge_release_refs. Qed.
Print Assumptions C05_release_refs_matches_source.
Theorem C05_emit_matches_source :
  forall fuel g depth n w x m,
  push (S fuel) g depth n w x m =
  Gen.KN__emit.gen_emit (fun w => downs g w n) (call_update_of fuel g depth n) w x m.
Proof. exact bridge_emit. Qed.
Print Assumptions C05_emit_matches_source.
Theorem C05_emit_matches_source_any_callee :
  forall emitfrom g depth n w x m,
  (let ds := downs g w n in
   fold_left (hand emitfrom g depth n x m) ds (retain w m (Z.of_nat (length ds)), SOk)) =
  Gen.KN__emit.gen_emit (fun w => downs g w n) (call_update emitfrom g depth n) w x m.
Proof. exact bridge_emit_gen. Qed.
Print Assumptions C05_emit_matches_source_any_callee.
Theorem C05_deliver_is_call_then_release :
  forall emitfrom g depth n x m w s d, status_go s = true ->
  deliver emitfrom g depth n x m (w, s) d =
  let '(w', s') := call_update emitfrom g depth n d w x m in
  if status_go s' then (release w' m 1, status_join s s') else (w', s').
Proof. exact deliver_call_release. Qed.
Print Assumptions C05_deliver_is_call_then_release.
Theorem C05_deliver_skipped_after_unwinding :
  forall emitfrom g depth n x m w s d, status_go s = false -> deliver emitfrom g depth n x m (w, s) d = (w, s).
Proof. exact deliver_stop. Qed.
Print Assumptions C05_deliver_skipped_after_unwinding.
Theorem C05_turn_is_hand_over_when_still_attached :
  forall emitfrom g depth n x m w s d, attached g w n d = true ->
  hand emitfrom g depth n x m (w, s) d = deliver emitfrom g depth n x m (w, s) d.
Proof. exact hand_attached. Qed.
Print Assumptions C05_turn_is_hand_over_when_still_attached.
Theorem C05_turn_only_releases_when_detached :
  forall emitfrom g depth n x m w s d, status_go s = true -> attached g w n d = false ->
  hand emitfrom g depth n x m (w, s) d = (release w m 1, s).
Proof. exact hand_gone. Qed.
Print Assumptions C05_turn_only_releases_when_detached.
(* ---- _emit bridges (harness/mkprops_emit.py): end ---- *)

(* ---- node bridges (harness/mkprops_nodes.py): begin ---- *)
(* The update methods of the node classes are the ones regenerated from the source under test on this run:
   Gen/KN_<class>.v is written by harness/gen_nodes.py from the python AST of streamz/core.py, statement by statement,
   in the monad of Base/MiniPy.v; Base/BridgeNodes.v proves that it is the update function of Sync/Nodes.v.
   `run` form: additionally the method never raises after an effect (RLate); `update` form: the model's
   option (list action).  For combine_latest / zip_latest (and partition_unique) the equality is modulo
   retains / releases of an EMPTY metadata list, which Pipeline.run_actions ignores (strip_run_actions). *)
From SZ Require Import Base.MiniPy Base.BridgeNodes.
Theorem C05_update_partition_matches_source :
  forall n key s p x m, Gen.KN_partition.gen_update_partition n key s p x m = update (KPartition n key) s p x m.
Proof. exact bridge_update_partition. Qed.
Print Assumptions C05_update_partition_matches_source.
Theorem C05_run_partition_matches_source :
  forall n key s p x m, Gen.KN_partition.gen_run_partition n key s p x m = of_option (update (KPartition n key) s p x m).
Proof. exact bridge_run_partition. Qed.
Print Assumptions C05_run_partition_matches_source.
Theorem C05_coroutine_partition_matches_source :
  forall n key, is_coroutine (KPartition n key) = Gen.KN_partition.gen_is_coroutine_partition.
Proof. exact bridge_coroutine_partition. Qed.
Print Assumptions C05_coroutine_partition_matches_source.
Theorem C05_update_sliding_window_matches_source :
  forall n partial s p x m, 1 <= n ->
  Gen.KN_sliding_window.gen_update_sliding_window n partial s p x m = update (KSliding n partial) s p x m.
Proof. exact bridge_update_sliding_window. Qed.
Print Assumptions C05_update_sliding_window_matches_source.
Theorem C05_run_sliding_window_matches_source :
  forall n partial s p x m, 1 <= n ->
  Gen.KN_sliding_window.gen_run_sliding_window n partial s p x m = of_option (update (KSliding n partial) s p x m).
Proof. exact bridge_run_sliding_window. Qed.
Print Assumptions C05_run_sliding_window_matches_source.
Theorem C05_update_collect_matches_source :
  forall s p x m, Gen.KN_collect.gen_update_collect s p x m = update (KCollect) s p x m.
Proof. exact bridge_update_collect. Qed.
Print Assumptions C05_update_collect_matches_source.
Theorem C05_run_collect_matches_source :
  forall s p x m, Gen.KN_collect.gen_run_collect s p x m = of_option (update (KCollect) s p x m).
Proof. exact bridge_run_collect. Qed.
Print Assumptions C05_run_collect_matches_source.
Theorem C05_flush_collect_matches_source :
  forall s, Gen.KN_collect.gen_flush_collect s = RSome (flush_actions s).
Proof. exact bridge_flush_collect. Qed.
Print Assumptions C05_flush_collect_matches_source.
Theorem C05_update_zip_matches_source :
  forall lits maxsize s p x m, p < length (st_ports s) ->
  Gen.KN_zip.gen_update_zip lits maxsize s p x m = update (KZip lits) s p x m.
Proof. exact bridge_update_zip. Qed.
Print Assumptions C05_update_zip_matches_source.
Theorem C05_run_zip_matches_source :
  forall lits maxsize s p x m, p < length (st_ports s) ->
  Gen.KN_zip.gen_run_zip lits maxsize s p x m = of_option (update (KZip lits) s p x m).
Proof. exact bridge_run_zip. Qed.
Print Assumptions C05_run_zip_matches_source.
Theorem C05_strip_has_no_effect : forall emit coro d l w, run_actions emit coro d (strip l) w = run_actions emit coro d l w.
Proof. exact strip_run_actions. Qed.
Print Assumptions C05_strip_has_no_effect.
Theorem C05_update_combine_latest_matches_source :
  forall eo s p x m, p < length (st_last s) ->
  option_map strip (Gen.KN_combine_latest.gen_update_combine_latest eo s p x m) = option_map strip (update (KCombineLatest eo) s p x m).
Proof. exact bridge_update_combine_latest. Qed.
Print Assumptions C05_update_combine_latest_matches_source.
Theorem C05_run_combine_latest_matches_source :
  forall eo s p x m, p < length (st_last s) ->
  strip_r (Gen.KN_combine_latest.gen_run_combine_latest eo s p x m) = strip_r (of_option (update (KCombineLatest eo) s p x m)).
Proof. exact bridge_run_combine_latest. Qed.
Print Assumptions C05_run_combine_latest_matches_source.
Theorem C05_update_zip_latest_matches_source :
  forall s p x m, p < length (st_last s) ->
  option_map strip (Gen.KN_zip_latest.gen_update_zip_latest s p x m) = option_map strip (update (KZipLatest) s p x m).
Proof. exact bridge_update_zip_latest. Qed.
Print Assumptions C05_update_zip_latest_matches_source.
Theorem C05_run_zip_latest_matches_source :
  forall s p x m, p < length (st_last s) ->
  strip_r (Gen.KN_zip_latest.gen_run_zip_latest s p x m) = strip_r (of_option (update (KZipLatest) s p x m)).
Proof. exact bridge_run_zip_latest. Qed.
Print Assumptions C05_run_zip_latest_matches_source.
Theorem C05_update_partition_unique_matches_source :
  forall n key kl s p x m, pu_inv (st_keyed s) ->
  option_map strip (Gen.KN_partition_unique.gen_update_partition_unique n key kl s p x m) = option_map strip (update (KPartUnique n key kl) s p x m).
Proof. exact bridge_update_partition_unique. Qed.
Print Assumptions C05_update_partition_unique_matches_source.
Theorem C05_run_partition_unique_matches_source :
  forall n key kl s p x m, pu_inv (st_keyed s) ->
  strip_r (Gen.KN_partition_unique.gen_run_partition_unique n key kl s p x m) = strip_r (of_option (update (KPartUnique n key kl) s p x m)).
Proof. exact bridge_run_partition_unique. Qed.
Print Assumptions C05_run_partition_unique_matches_source.
Theorem C05_partition_unique_invariant :
  forall n key kl s p x m acts s', pu_inv (st_keyed s) -> update (KPartUnique n key kl) s p x m = Some acts -> In (ASet s') acts -> pu_inv (st_keyed s').
Proof. exact pu_inv_preserved. Qed.
Print Assumptions C05_partition_unique_invariant.
Theorem C05_partition_unique_invariant_init :
  forall n key kl nups, pu_inv (st_keyed (init_state (KPartUnique n key kl) nups)).
Proof. exact pu_inv_init. Qed.
Print Assumptions C05_partition_unique_invariant_init.
(* ---- node bridges (harness/mkprops_nodes.py): end ---- *)

(* ---- generated by harness/mkprops_sync.py: begin ---- *)
From SZ Require Sync.FeedbackRC.
From SZ Require Sync.RefCountFull.
From SZ Require Sync.RefCount.
From SZ Require Sync.RefCountFull.
From SZ Require Sync.Feedback.
Section G_push_excess_any_graph.
Import SZ.Sync.RefCount.
Import SZ.Sync.RefCountFull.
Import SZ.Sync.Feedback.
Import SZ.Sync.FeedbackRC.
Theorem C05_push_excess_any_graph : forall g : graph, all_params_ok g -> all_state_first g -> forall (fuel depth d : nat) (w : world) (y : val) (my : list mdi) (w' : world), RefCountFull.WInv g w -> push fuel g depth d w y my = (w', SOk) -> RefCountFull.WInv g w' /\ (forall r : nat, excess g w' r = excess g w r).
Proof. exact (@push_excess_any_graph). Qed.
End G_push_excess_any_graph.
Print Assumptions C05_push_excess_any_graph.
Section G_exec_excess_any_graph.
Import SZ.Sync.RefCount.
Import SZ.Sync.RefCountFull.
Import SZ.Sync.Feedback.
Import SZ.Sync.FeedbackRC.
Theorem C05_exec_excess_any_graph : forall (g : graph) (fuel : nat), all_params_ok g -> all_state_first g -> forall (evs : list event) (w w' : world), RefCountFull.WInv g w -> emits_only evs -> exec_from fuel g w evs = (w', SOk) -> RefCountFull.WInv g w' /\ (forall r : nat, excess g w' r = excess g w r).
Proof. exact (@exec_excess_any_graph). Qed.
End G_exec_excess_any_graph.
Print Assumptions C05_exec_excess_any_graph.
Section G_balance_at_quiescence_any_graph.
Import SZ.Sync.RefCount.
Import SZ.Sync.RefCountFull.
Import SZ.Sync.Feedback.
Import SZ.Sync.FeedbackRC.
Theorem C05_balance_at_quiescence_any_graph : forall (g : graph) (fuel : nat) (evs : list event) (w : world), all_params_ok g -> all_state_first g -> emits_only evs -> exec_from fuel g (init_world g) evs = (w, SOk) -> forall r : nat, cnt w r = holders g w r.
Proof. exact (@balance_at_quiescence_any_graph). Qed.
End G_balance_at_quiescence_any_graph.
Print Assumptions C05_balance_at_quiescence_any_graph.
Section G_count_nonneg_any_graph.
Import SZ.Sync.RefCount.
Import SZ.Sync.RefCountFull.
Import SZ.Sync.Feedback.
Import SZ.Sync.FeedbackRC.
Theorem C05_count_nonneg_any_graph : forall (g : graph) (fuel : nat) (evs : list event) (w : world), all_params_ok g -> all_state_first g -> emits_only evs -> exec_from fuel g (init_world g) evs = (w, SOk) -> forall r : nat, (0 <= cnt w r)%Z.
Proof. exact (@count_nonneg_any_graph). Qed.
End G_count_nonneg_any_graph.
Print Assumptions C05_count_nonneg_any_graph.
Section G_zip_latest_cycle_unbalanced.
Import SZ.Sync.RefCount.
Import SZ.Sync.RefCountFull.
Import SZ.Sync.Feedback.
Import SZ.Sync.FeedbackRC.
Theorem C05_zip_latest_cycle_unbalanced : all_params_ok zlg /\ emits_only zl_evs /\ snd zl_run = SOk /\ (forall d : nat, d < length zlg -> d <> 3 -> Feedback.state_first_kindb (nkind (gnode zlg d)) = true) /\ Feedback.reentered (log (fst zl_run)) = true /\ map (cnt (fst zl_run)) (seq 0 3) = [(-1)%Z; (-1)%Z; 0%Z] /\ map (holders zlg (fst zl_run)) (seq 0 3) = [0%Z; 0%Z; 1%Z] /\ fired (fst zl_run) = [1; 0; 0; 1; 1; 2].
Proof. exact (@zip_latest_cycle_unbalanced). Qed.
End G_zip_latest_cycle_unbalanced.
Print Assumptions C05_zip_latest_cycle_unbalanced.
Section G_balance_needs_state_first_refuted.
Import SZ.Sync.RefCount.
Import SZ.Sync.RefCountFull.
Import SZ.Sync.Feedback.
Import SZ.Sync.FeedbackRC.
Theorem C05_balance_needs_state_first_refuted : ~ (forall (g : graph) (fuel : nat) (evs : list event) (w : world), all_params_ok g -> emits_only evs -> exec_from fuel g (init_world g) evs = (w, SOk) -> forall r : nat, cnt w r = holders g w r).
Proof. exact (@balance_needs_state_first_refuted). Qed.
End G_balance_needs_state_first_refuted.
Print Assumptions C05_balance_needs_state_first_refuted.
Section G_kind_books_inv.
Import SZ.Sync.RefCountFull.
Theorem C05_kind_books_inv : forall (nd : node) (s : nstate) (p : nat) (x : val) (m : list mdi) (acts : list action) (r : nat), node_inv nd s -> p < length (ups nd) -> update (nkind nd) s p x m = Some acts -> books acts r = (occ (held (nkind nd) (final_state acts s)) r - occ (held (nkind nd) s) r)%Z.
Proof. exact (@kind_books_inv). Qed.
End G_kind_books_inv.
Print Assumptions C05_kind_books_inv.
Section G_node_inv_preserved.
Import SZ.Sync.RefCountFull.
Theorem C05_node_inv_preserved : forall (nd : node) (s : nstate) (p : nat) (x : val) (m : list mdi) (acts : list action), node_inv nd s -> p < length (ups nd) -> update (nkind nd) s p x m = Some acts -> node_inv nd (final_state acts s).
Proof. exact (@node_inv_preserved). Qed.
End G_node_inv_preserved.
Print Assumptions C05_node_inv_preserved.
Section G_node_inv_init.
Import SZ.Sync.RefCountFull.
Theorem C05_node_inv_init : forall nd : node, node_params_ok nd -> node_inv nd (init_state (nkind nd) (length (ups nd))).
Proof. exact (@node_inv_init). Qed.
End G_node_inv_init.
Print Assumptions C05_node_inv_init.
Section G_push_excess_full.
Import SZ.Sync.RefCountFull.
Theorem C05_push_excess_full : forall g : graph, wf_dag g -> (forall d : nat, d < length g -> node_params_ok (gnode g d)) -> forall (fuel depth d : nat) (w : world) (y : val) (my : list mdi) (w' : world), WInv g w -> push fuel g depth d w y my = (w', SOk) -> WInv g w' /\ (forall r : nat, excess g w' r = excess g w r).
Proof. exact (@push_excess_full). Qed.
End G_push_excess_full.
Print Assumptions C05_push_excess_full.
Section G_exec_excess_full.
Import SZ.Sync.RefCountFull.
Theorem C05_exec_excess_full : forall g : graph, wf_dag g -> (forall d : nat, d < length g -> node_params_ok (gnode g d)) -> forall (evs : list event) (w w' : world), WInv g w -> emits_only evs -> exec_from (fuel_for g) g w evs = (w', SOk) -> WInv g w' /\ (forall r : nat, excess g w' r = excess g w r).
Proof. exact (@exec_excess_full). Qed.
End G_exec_excess_full.
Print Assumptions C05_exec_excess_full.
Section G_balance_at_quiescence_full.
Import SZ.Sync.RefCountFull.
Theorem C05_balance_at_quiescence_full : forall (g : graph) (evs : list event) (w : world), wf_dag g -> (forall d : nat, d < length g -> node_params_ok (gnode g d)) -> emits_only evs -> exec g evs = (w, SOk) -> forall r : nat, cnt w r = holders g w r.
Proof. exact (@balance_at_quiescence_full). Qed.
End G_balance_at_quiescence_full.
Print Assumptions C05_balance_at_quiescence_full.
Section G_count_nonneg_full.
Import SZ.Sync.RefCountFull.
Theorem C05_count_nonneg_full : forall (g : graph) (evs : list event) (w : world), wf_dag g -> (forall d : nat, d < length g -> node_params_ok (gnode g d)) -> emits_only evs -> exec g evs = (w, SOk) -> forall r : nat, (0 <= cnt w r)%Z.
Proof. exact (@count_nonneg_full). Qed.
End G_count_nonneg_full.
Print Assumptions C05_count_nonneg_full.
Section G_left_pipeline_zero_full.
Import SZ.Sync.RefCountFull.
Theorem C05_left_pipeline_zero_full : forall (g : graph) (evs : list event) (w : world) (r : nat), wf_dag g -> (forall d : nat, d < length g -> node_params_ok (gnode g d)) -> emits_only evs -> exec g evs = (w, SOk) -> (forall d : nat, d < length g -> occ (held (nkind (gnode g d)) (nst w d)) r = 0%Z) -> cnt w r = 0%Z.
Proof. exact (@left_pipeline_zero_full). Qed.
End G_left_pipeline_zero_full.
Print Assumptions C05_left_pipeline_zero_full.
Section G_sliding_books_needs_inv.
Import SZ.Sync.RefCountFull.
Theorem C05_sliding_books_needs_inv : ~ kind_books (KSliding 1 false).
Proof. exact (@sliding_books_needs_inv). Qed.
End G_sliding_books_needs_inv.
Print Assumptions C05_sliding_books_needs_inv.
Section G_zip_books_needs_inv.
Import SZ.Sync.RefCountFull.
Theorem C05_zip_books_needs_inv : ~ kind_books (KZip []).
Proof. exact (@zip_books_needs_inv). Qed.
End G_zip_books_needs_inv.
Print Assumptions C05_zip_books_needs_inv.
Section G_books_full_nonvacuous.
Import SZ.Sync.RefCountFull.
Theorem C05_books_full_nonvacuous : wf_dag ex_g /\ (forall d : nat, d < length ex_g -> node_params_ok (gnode ex_g d)) /\ emits_only ex_evs /\ snd (exec ex_g ex_evs) = SOk /\ map (cnt (fst (exec ex_g ex_evs))) (seq 0 10) = [0%Z; 0%Z; 0%Z; 0%Z; 1%Z; 0%Z; 2%Z; 1%Z; 4%Z; 0%Z] /\ map (holders ex_g (fst (exec ex_g ex_evs))) (seq 0 10) = [0%Z; 0%Z; 0%Z; 0%Z; 1%Z; 0%Z; 2%Z; 1%Z; 4%Z; 0%Z] /\ map (fun d : nat => map (occ (held (nkind (gnode ex_g d)) (nst (fst (exec ex_g ex_evs)) d))) (seq 0 9)) (seq 2 5) = [[0%Z; 0%Z; 0%Z; 0%Z; 0%Z; 0%Z; 0%Z; 0%Z; 1%Z]; [0%Z; 0%Z; 0%Z; 0%Z; 1%Z; 0%Z; 0%Z; 1%Z; 1%Z]; [0%Z; 0%Z; 0%Z; 0%Z; 0%Z; 0%Z; 1%Z; 0%Z; 1%Z]; [0%Z; 0%Z; 0%Z; 0%Z; 0%Z; 0%Z; 1%Z; 0%Z; 0%Z]; [0%Z; 0%Z; 0%Z; 0%Z; 0%Z; 0%Z; 0%Z; 0%Z; 1%Z]] /\ (forall r : nat, cnt (fst (exec ex_g ex_evs)) r = holders ex_g (fst (exec ex_g ex_evs)) r).
Proof. exact (@books_full_nonvacuous). Qed.
End G_books_full_nonvacuous.
Print Assumptions C05_books_full_nonvacuous.
(* ---- generated by harness/mkprops_sync.py: end ---- *)
