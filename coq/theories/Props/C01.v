(* C01 — pipelines compute the dataflow semantics: no loss, duplication, reordering.
   Only statements closed by `exact`; models and proofs live in Sync/. *)
From Coq Require Import List ZArith Bool Arith.
From SZ Require Import Base.Values Sync.Nodes Sync.Pipeline Sync.PushSpec Sync.Dataflow Sync.NodeSem Sync.Fuel.
Import ListNotations.
Close Scope Z_scope. Open Scope nat_scope.

(* Whole runs, any DAG over the catalogue, any emissions at any entry points, interleaved in any way:
   every node's state is its update folded over what arrived; every permanent edge u->d carried exactly
   the outputs of u (nothing lost, duplicated, reordered; every branch sees every element); every edge out
   of an entry point carried exactly what was emitted there; deliveries only along edges. *)
Theorem C01_pipeline_dataflow : forall g evs w,
  wf_dag g -> emit_only g evs -> exec g evs = (w, SOk) -> RunInv g evs w.
Proof. exact pipeline_dataflow. Qed.
Print Assumptions C01_pipeline_dataflow.

Theorem C01_edge_faithful : forall g evs w u d,
  wf_dag g -> emit_only g evs -> exec g evs = (w, SOk) ->
  ups (gnode g d) = [u] -> d < length g -> permanent g d = true ->
  vals_of_arr (arr g (rev (log w)) d) =
    if ups (gnode g u) then inputs evs u
    else fold_outs (nkind (gnode g u)) (init_st g u) (arr g (rev (log w)) u).
Proof. exact edge_faithful. Qed.
Print Assumptions C01_edge_faithful.

(* siblings see each element in attachment order, each cascade completing before the next *)
Theorem C01_sibling_order : forall g fuel depth n w x m w',
  wf_dag g -> WF g w -> push fuel g depth n w x m = (w', SOk) ->
  exists new, log w' = rev new ++ log w /\
    filter (fun e => e_depth e =? depth) new = map (fun d => mk_entry depth n d x m) (downs g w n) /\
    (forall e, In e new -> depth <= e_depth e) /\
    (forall e, In e new -> is_down g (e_src e) (e_dst e) = true).
Proof. exact sibling_order. Qed.
Print Assumptions C01_sibling_order.

(* the fuel of run/exec is always sufficient in a DAG: SFuel never hides a result *)
Theorem C01_fuel_enough : forall g w e, wf_dag g -> snd (step (fuel_for g) g w e) <> SFuel.
Proof. exact step_fuel_enough. Qed.
Print Assumptions C01_fuel_enough.

(* per-node list-level meanings *)
Theorem C01_sem_identity : forall k s l, k = KSource \/ k = KUnion ->
  fold_outs k s l = map (fun a => (aval a, amd a)) l.
Proof. exact sem_identity. Qed.
Theorem C01_sem_map : forall f s l, fold_outs (KMap f) s l = map_sem f l.
Proof. exact sem_map. Qed.
Theorem C01_sem_filter : forall p s l, fold_outs (KFilter p) s l = filter_sem p l.
Proof. exact sem_filter. Qed.
Theorem C01_sem_starmap : forall f s l, fold_outs (KStarmap f) s l = starmap_sem f l.
Proof. exact sem_starmap. Qed.
Theorem C01_sem_pluck : forall i s l, fold_outs (KPluck (PickOne i)) s l = pluck_one_sem i l.
Proof. exact sem_pluck_one. Qed.
Theorem C01_sem_flatten : forall s l, fold_outs KFlatten s l = flatten_sem l.
Proof. exact sem_flatten. Qed.
Theorem C01_sem_accumulate : forall f start s l,
  fold_outs (KAccum f start false false) s l = scan f (st_acc s) l.
Proof. exact sem_accumulate. Qed.
Theorem C01_sem_slice : forall start stop step s l,
  fold_outs (KSlice start stop step) s l = slice_sem start step (st_n s) l.
Proof. exact sem_slice. Qed.
Theorem C01_slice_detach : forall start e step s a,
  st_detached (upd_state (KSlice start (Some e) step) s a) = (e <=? S (st_n s)).
Proof. exact slice_detach. Qed.
Theorem C01_sem_partition : forall n l s buf,
  part_buf s = (map aval buf, flat_map amd buf) ->
  fold_outs (KPartition n None) s l = chunks n buf l.
Proof. exact sem_partition. Qed.
Theorem C01_chunks_lossless : forall n l buf, length buf < n ->
  exists rest, length rest < n /\
    flat_map (fun c => match fst c with VTup vs => vs | _ => [] end) (chunks n buf l) ++ map aval rest
      = map aval buf ++ map aval l /\
    Forall (fun c => match fst c with VTup vs => length vs = n | _ => False end) (chunks n buf l).
Proof. exact chunks_concat. Qed.
Theorem C01_sem_sink : forall f s l, fold_outs (KSink f) s l = [].
Proof. exact sem_sink. Qed.
Print Assumptions C01_sem_partition.
Print Assumptions C01_chunks_lossless.
Print Assumptions C01_sem_slice.

(* non-vacuity: a concrete fan-out/fan-in pipeline meets the hypotheses and the run is exception-free *)
Definition ex_g : graph :=
  [ {| nkind := KSource; ups := [] |};
    {| nkind := KMap (interp1 FInc); ups := [0] |};
    {| nkind := KPartition 2 None; ups := [1] |};
    {| nkind := KFilter (interpP PEven); ups := [0] |};
    {| nkind := KZip []; ups := [1; 3] |};
    {| nkind := KSink (fun _ => Some tt); ups := [2] |};
    {| nkind := KSink (fun _ => Some tt); ups := [4] |} ].
Definition ex_evs : list event :=
  [EEmit 0 (VInt 1%Z) [{| mid := 0; mref := true |}]; EEmit 0 (VInt 2%Z) []; EEmit 0 (VInt 4%Z) []].
Example C01_nonvacuous :
  wf_dag ex_g /\ emit_only ex_g ex_evs /\ snd (exec ex_g ex_evs) = SOk /\
  length (log (fst (exec ex_g ex_evs))) = 17.
Proof.
  split; [apply wf_dagb_spec; vm_compute; reflexivity|].
  split; [intros e [<-|[<-|[<-|[]]]]; reflexivity|].
  split; vm_compute; reflexivity.
Qed.

(* the slice gate and end test of the model are the expressions regenerated from the source on this run *)
From SZ Require Import Base.BridgeSlice.
Theorem C01_slice_kernel_matches_source : forall start stop step s p x m, 1 <= step ->
  update (KSlice start stop step) s p x m =
  Some ((if Gen.KSlice.gen_slice_pass (Z.of_nat (st_n s)) (Z.of_nat start) (Z.of_nat step) then [Nodes.AEmit x m] else [])
        ++ [ASet (set_n s (S (st_n s)) (Gen.KSlice.gen_slice_done (Z.of_nat (S (st_n s))) (option_map Z.of_nat stop)))]).
Proof. exact bridge_slice_update. Qed.
Print Assumptions C01_slice_kernel_matches_source.
