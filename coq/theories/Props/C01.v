(* C01 — pipelines compute the dataflow semantics: no loss, duplication, reordering.
   Only statements closed by `exact`; models and proofs live in Sync/. *)
From Coq Require Import List ZArith Bool Arith.
From SZ Require Import Base.Values Sync.Nodes Sync.Pipeline Sync.PushSpec Sync.Dataflow Sync.NodeSem Sync.Fuel.
Import ListNotations.
Close Scope Z_scope. Open Scope nat_scope.

(* Whole runs, any DAG over the catalogue, any emissions at any entry points, interleaved in any way:
   every node's state is its update folded over what arrived; every permanent edge u->d carried exactly
   the outputs of u (nothing lost, duplicated, reordered; every branch sees every element); every edge out
   of an entry point carried exactly what was emitted there; deliveries only along edges. *)
Theorem C01_pipeline_dataflow : forall g evs w,
  wf_dag g -> emit_only g evs -> exec g evs = (w, SOk) -> RunInv g evs w.
Proof. exact pipeline_dataflow. Qed.
Print Assumptions C01_pipeline_dataflow.

Theorem C01_edge_faithful : forall g evs w u d,
  wf_dag g -> emit_only g evs -> exec g evs = (w, SOk) ->
  ups (gnode g d) = [u] -> d < length g -> permanent g d = true ->
  vals_of_arr (arr g (rev (log w)) d) =
    if ups (gnode g u) then inputs evs u
    else fold_outs (nkind (gnode g u)) (init_st g u) (arr g (rev (log w)) u).
Proof. exact edge_faithful. Qed.
Print Assumptions C01_edge_faithful.

(* siblings see each element in attachment order, each cascade completing before the next: one call per downstream of
   the snapshot that is still attached when its turn comes ([keep]); every permanent downstream is.  (Stream._emit tests
   `downstream not in self.downstreams` before each hand-over: only a slice with an end that finished during an earlier
   hand-over of the same emission - possible when it is attached to several upstreams - is skipped.) *)
Theorem C01_sibling_order : forall g fuel depth n w x m w',
  wf_dag g -> WF g w -> push fuel g depth n w x m = (w', SOk) ->
  exists new keep, log w' = rev new ++ log w /\
    (forall d, permanent g d = true -> keep d = true) /\
    filter (fun e => e_depth e =? depth) new = map (fun d => mk_entry depth n d x m) (filter keep (downs g w n)) /\
    (forall e, In e new -> depth <= e_depth e) /\
    (forall e, In e new -> is_down g (e_src e) (e_dst e) = true).
Proof. exact sibling_order. Qed.
Print Assumptions C01_sibling_order.

(* no slice with an end among the downstreams: exactly one call per downstream, in attachment order *)
Theorem C01_sibling_order_permanent : forall g fuel depth n w x m w',
  wf_dag g -> WF g w -> (forall d, In d (downs g w n) -> permanent g d = true) ->
  push fuel g depth n w x m = (w', SOk) ->
  exists new, log w' = rev new ++ log w /\
    filter (fun e => e_depth e =? depth) new = map (fun d => mk_entry depth n d x m) (downs g w n) /\
    (forall e, In e new -> depth <= e_depth e) /\
    (forall e, In e new -> is_down g (e_src e) (e_dst e) = true).
Proof. exact sibling_order_permanent. Qed.
Print Assumptions C01_sibling_order_permanent.

(* the fuel of run/exec is always sufficient in a DAG: SFuel never hides a result *)
Theorem C01_fuel_enough : forall g w e, wf_dag g -> snd (step (fuel_for g) g w e) <> SFuel.
Proof. exact step_fuel_enough. Qed.
Print Assumptions C01_fuel_enough.

(* per-node list-level meanings *)
Theorem C01_sem_identity : forall k s l, k = KSource \/ k = KUnion ->
  fold_outs k s l = map (fun a => (aval a, amd a)) l.
Proof. exact sem_identity. Qed.
Theorem C01_sem_map : forall f s l, fold_outs (KMap f) s l = map_sem f l.
Proof. exact sem_map. Qed.
Theorem C01_sem_filter : forall p s l, fold_outs (KFilter p) s l = filter_sem p l.
Proof. exact sem_filter. Qed.
Theorem C01_sem_starmap : forall f s l, fold_outs (KStarmap f) s l = starmap_sem f l.
Proof. exact sem_starmap. Qed.
Theorem C01_sem_pluck : forall i s l, fold_outs (KPluck (PickOne i)) s l = pluck_one_sem i l.
Proof. exact sem_pluck_one. Qed.
Theorem C01_sem_flatten : forall s l, fold_outs KFlatten s l = flatten_sem l.
Proof. exact sem_flatten. Qed.
Theorem C01_sem_accumulate : forall f start s l,
  fold_outs (KAccum f start false false) s l = scan f (st_acc s) l.
Proof. exact sem_accumulate. Qed.
Theorem C01_sem_slice : forall start stop step s l,
  fold_outs (KSlice start stop step) s l = slice_sem start stop step (st_n s) l.
Proof. exact sem_slice. Qed.
Theorem C01_slice_detach : forall start e step s a, (e <=? st_n s) = false ->
  st_detached (upd_state (KSlice start (Some e) step) s a) = (e <=? S (st_n s)).
Proof. exact slice_detach. Qed.
Theorem C01_sem_partition : forall n l s buf,
  part_buf s = (map aval buf, flat_map amd buf) ->
  fold_outs (KPartition n None) s l = chunks n buf l.
Proof. exact sem_partition. Qed.
Theorem C01_chunks_lossless : forall n l buf, length buf < n ->
  exists rest, length rest < n /\
    flat_map (fun c => match fst c with VTup vs => vs | _ => [] end) (chunks n buf l) ++ map aval rest
      = map aval buf ++ map aval l /\
    Forall (fun c => match fst c with VTup vs => length vs = n | _ => False end) (chunks n buf l).
Proof. exact chunks_concat. Qed.
Theorem C01_sem_sink : forall f s l, fold_outs (KSink f) s l = [].
Proof. exact sem_sink. Qed.
Print Assumptions C01_sem_partition.
Print Assumptions C01_chunks_lossless.
Print Assumptions C01_sem_slice.

(* non-vacuity: a concrete fan-out/fan-in pipeline meets the hypotheses and the run is exception-free *)
Definition ex_g : graph :=
  [ {| nkind := KSource; ups := [] |};
    {| nkind := KMap (interp1 FInc); ups := [0] |};
    {| nkind := KPartition 2 None; ups := [1] |};
    {| nkind := KFilter (interpP PEven); ups := [0] |};
    {| nkind := KZip []; ups := [1; 3] |};
    {| nkind := KSink (fun _ => Some tt); ups := [2] |};
    {| nkind := KSink (fun _ => Some tt); ups := [4] |} ].
Definition ex_evs : list event :=
  [EEmit 0 (VInt 1%Z) [{| mid := 0; mref := true |}]; EEmit 0 (VInt 2%Z) []; EEmit 0 (VInt 4%Z) []].
Example C01_nonvacuous :
  wf_dag ex_g /\ emit_only ex_g ex_evs /\ snd (exec ex_g ex_evs) = SOk /\
  length (log (fst (exec ex_g ex_evs))) = 17.
Proof.
  split; [apply wf_dagb_spec; vm_compute; reflexivity|].
  split; [intros e [<-|[<-|[<-|[]]]]; reflexivity|].
  split; vm_compute; reflexivity.
Qed.

(* the slice gate and end test of the model are the expressions regenerated from the source on this run *)
From SZ Require Import Base.BridgeSlice.
Theorem C01_slice_kernel_matches_source : forall start stop step s p x m, 1 <= step ->
  update (KSlice start stop step) s p x m =
  if Gen.KSlice.gen_slice_finished (Z.of_nat (st_n s)) (option_map Z.of_nat stop) then Some [ASet s] else
  Some (ASet (set_n s (S (st_n s)) (Gen.KSlice.gen_slice_done (Z.of_nat (S (st_n s))) (option_map Z.of_nat stop)))
        :: (if Gen.KSlice.gen_slice_pass (Z.of_nat (st_n s)) (Z.of_nat start) (Z.of_nat step) then [Nodes.AEmit x m] else [])).
Proof. exact bridge_slice_update. Qed.
Print Assumptions C01_slice_kernel_matches_source.

(* ---- _emit bridges (harness/mkprops_emit.py): begin ---- *)
(* Stream._emit, Stream._retain_refs and Stream._release_refs are the ones regenerated from the source under test on this
   run: Gen/KN__refs.v and Gen/KN__emit.v are written by harness/gen_emit.py from the python AST of streamz/core.py,
   statement by statement, in the world-level monad of Base/MiniPyW.v (an exception raised by `downstream.update` unwinds
   the loop; the returned list of awaitables is represented by the status only).  Base/BridgeEmit.v proves that they are
   the model's retain / release / push: `downstream.update` is the parameter call_update (log the call, evaluate the node's
   update, run its action list with the recursive push), `self.downstreams` is read through the model's downs, one turn
   of the loop is the model's hand (the test `downstream not in self.downstreams` is attached: membership in downs of the
   world at the time of the test; a child that left since the snapshot is not called and the reference retained for it is
   released), and the model's deliver is the call followed by the release - unless the call unwinds. *)
From SZ Require Import Base.MiniPyW Base.BridgeEmit.
Theorem C01_emit_matches_source :
  forall fuel g depth n w x m,
  push (S fuel) g depth n w x m =
  Gen.KN__emit.gen_emit (fun w => downs g w n) (call_update_of fuel g depth n) w x m.
Proof. exact bridge_emit. Qed.
Print Assumptions C01_emit_matches_source.
Theorem C01_emit_matches_source_any_callee :
  forall emitfrom g depth n w x m,
  (let ds := downs g w n in
   fold_left (hand emitfrom g depth n x m) ds (retain w m (Z.of_nat (length ds)), SOk)) =
  Gen.KN__emit.gen_emit (fun w => downs g w n) (call_update emitfrom g depth n) w x m.
Proof. exact bridge_emit_gen. Qed.
Print Assumptions C01_emit_matches_source_any_callee.
Theorem C01_deliver_is_call_then_release :
  forall emitfrom g depth n x m w s d, status_go s = true ->
  deliver emitfrom g depth n x m (w, s) d =
  let '(w', s') := call_update emitfrom g depth n d w x m in
  if status_go s' then (release w' m 1, status_join s s') else (w', s').
Proof. exact deliver_call_release. Qed.
Print Assumptions C01_deliver_is_call_then_release.
Theorem C01_deliver_skipped_after_unwinding :
  forall emitfrom g depth n x m w s d, status_go s = false -> deliver emitfrom g depth n x m (w, s) d = (w, s).
Proof. exact deliver_stop. Qed.
Print Assumptions C01_deliver_skipped_after_unwinding.
Theorem C01_turn_is_hand_over_when_still_attached :
  forall emitfrom g depth n x m w s d, attached g w n d = true ->
  hand emitfrom g depth n x m (w, s) d = deliver emitfrom g depth n x m (w, s) d.
Proof. exact hand_attached. Qed.
Print Assumptions C01_turn_is_hand_over_when_still_attached.
Theorem C01_turn_only_releases_when_detached :
  forall emitfrom g depth n x m w s d, status_go s = true -> attached g w n d = false ->
  hand emitfrom g depth n x m (w, s) d = (release w m 1, s).
Proof. exact hand_gone. Qed.
Print Assumptions C01_turn_only_releases_when_detached.
Theorem C01_turn_skipped_after_unwinding :
  forall emitfrom g depth n x m w s d, status_go s = false -> hand emitfrom g depth n x m (w, s) d = (w, s).
Proof. exact hand_stop. Qed.
Print Assumptions C01_turn_skipped_after_unwinding.
Theorem C01_coroutine_call_never_unwinds_with_exception :
  forall emitfrom g depth n d w x m, is_coroutine (nkind (gnode g d)) = true ->
  snd (call_update emitfrom g depth n d w x m) <> SRaise.
Proof. exact call_update_coroutine. Qed.
Print Assumptions C01_coroutine_call_never_unwinds_with_exception.
(* ---- _emit bridges (harness/mkprops_emit.py): end ---- *)

(* ---- node bridges (harness/mkprops_nodes.py): begin ---- *)
(* The update methods of the node classes are the ones regenerated from the source under test on this run:
   Gen/KN_<class>.v is written by harness/gen_nodes.py from the python AST of streamz/core.py, statement by statement,
   in the monad of Base/MiniPy.v; Base/BridgeNodes.v proves that it is the update function of Sync/Nodes.v.
   `run` form: additionally the method never raises after an effect (RLate); `update` form: the model's
   option (list action).  For combine_latest / zip_latest (and partition_unique) the equality is modulo
   retains / releases of an EMPTY metadata list, which Pipeline.run_actions ignores (strip_run_actions). *)
From SZ Require Import Base.MiniPy Base.BridgeNodes.
Theorem C01_update_accumulate_matches_source :
  forall f start rs ws s p x m, Gen.KN_accumulate.gen_update_accumulate f rs ws s p x m = update (KAccum f start rs ws) s p x m.
Proof. exact (fun f start => bridge_update_accumulate f start). Qed.
Print Assumptions C01_update_accumulate_matches_source.
Theorem C01_run_accumulate_matches_source :
  forall f start rs ws s p x m, Gen.KN_accumulate.gen_run_accumulate f rs ws s p x m = of_option (update (KAccum f start rs ws) s p x m).
Proof. exact (fun f start => bridge_run_accumulate f start). Qed.
Print Assumptions C01_run_accumulate_matches_source.
Theorem C01_update_map_matches_source :
  forall f s p x m, Gen.KN_map.gen_update_map f s p x m = update (KMap f) s p x m.
Proof. exact bridge_update_map. Qed.
Print Assumptions C01_update_map_matches_source.
Theorem C01_run_map_matches_source :
  forall f s p x m, Gen.KN_map.gen_run_map f s p x m = of_option (update (KMap f) s p x m).
Proof. exact bridge_run_map. Qed.
Print Assumptions C01_run_map_matches_source.
Theorem C01_update_filter_matches_source :
  forall f s p x m, Gen.KN_filter.gen_update_filter f s p x m = update (KFilter f) s p x m.
Proof. exact bridge_update_filter. Qed.
Print Assumptions C01_update_filter_matches_source.
Theorem C01_run_filter_matches_source :
  forall f s p x m, Gen.KN_filter.gen_run_filter f s p x m = of_option (update (KFilter f) s p x m).
Proof. exact bridge_run_filter. Qed.
Print Assumptions C01_run_filter_matches_source.
Theorem C01_update_starmap_matches_source :
  forall f s p x m, Gen.KN_starmap.gen_update_starmap f [] s p x m = update (KStarmap f) s p x m.
Proof. exact bridge_update_starmap. Qed.
Print Assumptions C01_update_starmap_matches_source.
Theorem C01_run_starmap_matches_source :
  forall f s p x m, Gen.KN_starmap.gen_run_starmap f [] s p x m = of_option (update (KStarmap f) s p x m).
Proof. exact bridge_run_starmap. Qed.
Print Assumptions C01_run_starmap_matches_source.
Theorem C01_update_pluck_matches_source :
  forall pk s p x m, Gen.KN_pluck.gen_update_pluck pk s p x m = update (KPluck pk) s p x m.
Proof. exact bridge_update_pluck. Qed.
Print Assumptions C01_update_pluck_matches_source.
Theorem C01_run_pluck_matches_source :
  forall pk s p x m, Gen.KN_pluck.gen_run_pluck pk s p x m = of_option (update (KPluck pk) s p x m).
Proof. exact bridge_run_pluck. Qed.
Print Assumptions C01_run_pluck_matches_source.
Theorem C01_update_flatten_matches_source :
  forall s p x m, Gen.KN_flatten.gen_update_flatten s p x m = update (KFlatten) s p x m.
Proof. exact bridge_update_flatten. Qed.
Print Assumptions C01_update_flatten_matches_source.
Theorem C01_run_flatten_matches_source :
  forall s p x m, Gen.KN_flatten.gen_run_flatten s p x m = of_option (update (KFlatten) s p x m).
Proof. exact bridge_run_flatten. Qed.
Print Assumptions C01_run_flatten_matches_source.
Theorem C01_update_partition_matches_source :
  forall n key s p x m, Gen.KN_partition.gen_update_partition n key s p x m = update (KPartition n key) s p x m.
Proof. exact bridge_update_partition. Qed.
Print Assumptions C01_update_partition_matches_source.
Theorem C01_run_partition_matches_source :
  forall n key s p x m, Gen.KN_partition.gen_run_partition n key s p x m = of_option (update (KPartition n key) s p x m).
Proof. exact bridge_run_partition. Qed.
Print Assumptions C01_run_partition_matches_source.
Theorem C01_coroutine_partition_matches_source :
  forall n key, is_coroutine (KPartition n key) = Gen.KN_partition.gen_is_coroutine_partition.
Proof. exact bridge_coroutine_partition. Qed.
Print Assumptions C01_coroutine_partition_matches_source.
Theorem C01_update_sliding_window_matches_source :
  forall n partial s p x m, 1 <= n ->
  Gen.KN_sliding_window.gen_update_sliding_window n partial s p x m = update (KSliding n partial) s p x m.
Proof. exact bridge_update_sliding_window. Qed.
Print Assumptions C01_update_sliding_window_matches_source.
Theorem C01_run_sliding_window_matches_source :
  forall n partial s p x m, 1 <= n ->
  Gen.KN_sliding_window.gen_run_sliding_window n partial s p x m = of_option (update (KSliding n partial) s p x m).
Proof. exact bridge_run_sliding_window. Qed.
Print Assumptions C01_run_sliding_window_matches_source.
Theorem C01_update_unique_matches_source :
  forall maxsize key s p x m, Gen.KN_unique.gen_update_unique maxsize key s p x m = update (KUnique maxsize key) s p x m.
Proof. exact bridge_update_unique. Qed.
Print Assumptions C01_update_unique_matches_source.
Theorem C01_run_unique_matches_source :
  forall maxsize key s p x m, Gen.KN_unique.gen_run_unique maxsize key s p x m = of_option (update (KUnique maxsize key) s p x m).
Proof. exact bridge_run_unique. Qed.
Print Assumptions C01_run_unique_matches_source.
Theorem C01_update_collect_matches_source :
  forall s p x m, Gen.KN_collect.gen_update_collect s p x m = update (KCollect) s p x m.
Proof. exact bridge_update_collect. Qed.
Print Assumptions C01_update_collect_matches_source.
Theorem C01_run_collect_matches_source :
  forall s p x m, Gen.KN_collect.gen_run_collect s p x m = of_option (update (KCollect) s p x m).
Proof. exact bridge_run_collect. Qed.
Print Assumptions C01_run_collect_matches_source.
Theorem C01_flush_collect_matches_source :
  forall s, Gen.KN_collect.gen_flush_collect s = RSome (flush_actions s).
Proof. exact bridge_flush_collect. Qed.
Print Assumptions C01_flush_collect_matches_source.
Theorem C01_update_slice_matches_source :
  forall start stop step s p x m, st_detached s = false ->
  Gen.KN_slice.gen_update_slice start stop step s p x m = update (KSlice start stop step) s p x m.
Proof. exact bridge_update_slice. Qed.
Print Assumptions C01_update_slice_matches_source.
Theorem C01_run_slice_matches_source :
  forall start stop step s p x m, st_detached s = false ->
  Gen.KN_slice.gen_run_slice start stop step s p x m = of_option (update (KSlice start stop step) s p x m).
Proof. exact bridge_run_slice. Qed.
Print Assumptions C01_run_slice_matches_source.
Theorem C01_update_union_matches_source :
  forall s p x m, Gen.KN_union.gen_update_union s p x m = update (KUnion) s p x m.
Proof. exact bridge_update_union. Qed.
Print Assumptions C01_update_union_matches_source.
Theorem C01_run_union_matches_source :
  forall s p x m, Gen.KN_union.gen_run_union s p x m = of_option (update (KUnion) s p x m).
Proof. exact bridge_run_union. Qed.
Print Assumptions C01_run_union_matches_source.
Theorem C01_update_Stream_matches_source :
  forall s p x m, Gen.KN_Stream.gen_update_Stream s p x m = update (KSource) s p x m.
Proof. exact bridge_update_Stream. Qed.
Print Assumptions C01_update_Stream_matches_source.
Theorem C01_run_Stream_matches_source :
  forall s p x m, Gen.KN_Stream.gen_run_Stream s p x m = of_option (update (KSource) s p x m).
Proof. exact bridge_run_Stream. Qed.
Print Assumptions C01_run_Stream_matches_source.
Theorem C01_update_zip_matches_source :
  forall lits maxsize s p x m, p < length (st_ports s) ->
  Gen.KN_zip.gen_update_zip lits maxsize s p x m = update (KZip lits) s p x m.
Proof. exact bridge_update_zip. Qed.
Print Assumptions C01_update_zip_matches_source.
Theorem C01_run_zip_matches_source :
  forall lits maxsize s p x m, p < length (st_ports s) ->
  Gen.KN_zip.gen_run_zip lits maxsize s p x m = of_option (update (KZip lits) s p x m).
Proof. exact bridge_run_zip. Qed.
Print Assumptions C01_run_zip_matches_source.
Theorem C01_strip_has_no_effect : forall emit coro d l w, run_actions emit coro d (strip l) w = run_actions emit coro d l w.
Proof. exact strip_run_actions. Qed.
Print Assumptions C01_strip_has_no_effect.
Theorem C01_update_combine_latest_matches_source :
  forall eo s p x m, p < length (st_last s) ->
  option_map strip (Gen.KN_combine_latest.gen_update_combine_latest eo s p x m) = option_map strip (update (KCombineLatest eo) s p x m).
Proof. exact bridge_update_combine_latest. Qed.
Print Assumptions C01_update_combine_latest_matches_source.
Theorem C01_run_combine_latest_matches_source :
  forall eo s p x m, p < length (st_last s) ->
  strip_r (Gen.KN_combine_latest.gen_run_combine_latest eo s p x m) = strip_r (of_option (update (KCombineLatest eo) s p x m)).
Proof. exact bridge_run_combine_latest. Qed.
Print Assumptions C01_run_combine_latest_matches_source.
Theorem C01_update_zip_latest_matches_source :
  forall s p x m, p < length (st_last s) ->
  option_map strip (Gen.KN_zip_latest.gen_update_zip_latest s p x m) = option_map strip (update (KZipLatest) s p x m).
Proof. exact bridge_update_zip_latest. Qed.
Print Assumptions C01_update_zip_latest_matches_source.
Theorem C01_run_zip_latest_matches_source :
  forall s p x m, p < length (st_last s) ->
  strip_r (Gen.KN_zip_latest.gen_run_zip_latest s p x m) = strip_r (of_option (update (KZipLatest) s p x m)).
Proof. exact bridge_run_zip_latest. Qed.
Print Assumptions C01_run_zip_latest_matches_source.
Theorem C01_update_partition_unique_matches_source :
  forall n key kl s p x m, pu_inv (st_keyed s) ->
  option_map strip (Gen.KN_partition_unique.gen_update_partition_unique n key kl s p x m) = option_map strip (update (KPartUnique n key kl) s p x m).
Proof. exact bridge_update_partition_unique. Qed.
Print Assumptions C01_update_partition_unique_matches_source.
Theorem C01_run_partition_unique_matches_source :
  forall n key kl s p x m, pu_inv (st_keyed s) ->
  strip_r (Gen.KN_partition_unique.gen_run_partition_unique n key kl s p x m) = strip_r (of_option (update (KPartUnique n key kl) s p x m)).
Proof. exact bridge_run_partition_unique. Qed.
Print Assumptions C01_run_partition_unique_matches_source.
Theorem C01_partition_unique_invariant :
  forall n key kl s p x m acts s', pu_inv (st_keyed s) -> update (KPartUnique n key kl) s p x m = Some acts -> In (ASet s') acts -> pu_inv (st_keyed s').
Proof. exact pu_inv_preserved. Qed.
Print Assumptions C01_partition_unique_invariant.
Theorem C01_partition_unique_invariant_init :
  forall n key kl nups, pu_inv (st_keyed (init_state (KPartUnique n key kl) nups)).
Proof. exact pu_inv_init. Qed.
Print Assumptions C01_partition_unique_invariant_init.
(* ---- node bridges (harness/mkprops_nodes.py): end ---- *)

(* ---- generated by harness/mkprops_sync.py: begin ---- *)
From SZ Require Sync.NodeSem2.
From SZ Require Sync.Feedback.
From SZ Require Sync.RefCount.
Section G_sem_accumulate_full.
Import SZ.Sync.NodeSem2.
Theorem C01_sem_accumulate_full : forall (f : val -> val -> option val) (start : option val) (rs ws : bool) (s : nstate) (l : list arrival), fold_outs (KAccum f start rs ws) s l = scan_full f rs ws (st_acc s) l.
Proof. exact (@sem_accumulate_full). Qed.
End G_sem_accumulate_full.
Print Assumptions C01_sem_accumulate_full.
Section G_sem_sliding.
Import SZ.Sync.NodeSem2.
Theorem C01_sem_sliding : forall (n : nat) (partial : bool) (l : list arrival) (s : nstate) (pre : list arrival), 1 <= n -> sliding_inv n s pre -> fold_outs (KSliding n partial) s l = sliding_sem n partial pre l.
Proof. exact (@sem_sliding). Qed.
End G_sem_sliding.
Print Assumptions C01_sem_sliding.
Section G_sliding_sem_by_index.
Import SZ.Sync.NodeSem2.
Theorem C01_sliding_sem_by_index : forall (n : nat) (partial : bool) (l : list arrival), sliding_sem n partial [] l = flat_map (fun i : nat => if partial || (n <=? S i) then [chunk_out (lastn n (firstn (S i) l))] else []) (seq 0 (length l)).
Proof. exact (@sliding_sem_by_index). Qed.
End G_sliding_sem_by_index.
Print Assumptions C01_sliding_sem_by_index.
Section G_sem_unique.
Import SZ.Sync.NodeSem2.
Theorem C01_sem_unique : forall (maxsize : option nat) (key : val -> val) (l : list arrival) (s : nstate) (pre : list arrival), unique_inv maxsize key s pre -> fold_outs (KUnique maxsize key) s l = unique_sem maxsize key pre l.
Proof. exact (@sem_unique). Qed.
End G_sem_unique.
Print Assumptions C01_sem_unique.
Section G_unique_unbounded.
Import SZ.Sync.NodeSem2.
Theorem C01_unique_unbounded : forall (maxsize : option nat) (key : val -> val) (pre l : list arrival), maxsize = None \/ maxsize = Some 0 -> unique_sem maxsize key pre l = prefix_sem (first_occ_step key) pre l.
Proof. exact (@unique_unbounded). Qed.
End G_unique_unbounded.
Print Assumptions C01_unique_unbounded.
Section G_unique_maxsize_1.
Import SZ.Sync.NodeSem2.
Theorem C01_unique_maxsize_1 : forall (key : val -> val) (pre l : list arrival), unique_sem (Some 1) key pre l = prefix_sem (dedup_adjacent_step key) pre l.
Proof. exact (@unique_maxsize_1). Qed.
End G_unique_maxsize_1.
Print Assumptions C01_unique_maxsize_1.
Section G_sem_collect.
Import SZ.Sync.NodeSem2.
Theorem C01_sem_collect : forall (s : nstate) (l : list arrival), fold_outs KCollect s l = [].
Proof. exact (@sem_collect). Qed.
End G_sem_collect.
Print Assumptions C01_sem_collect.
Section G_collect_flush.
Import SZ.Sync.NodeSem2.
Theorem C01_collect_flush : forall (s : nstate) (l : list arrival), st_win s = [] -> let s' := fold_state KCollect s l in outs (flush_actions s') = [chunk_out l] /\ st_win (final_state (flush_actions s') s') = [].
Proof. exact (@collect_flush). Qed.
End G_collect_flush.
Print Assumptions C01_collect_flush.
Section G_sem_combine_latest.
Import SZ.Sync.NodeSem2.
Theorem C01_sem_combine_latest : forall (arity : nat) (emit_on : option (list nat)) (l : list arrival) (s : nstate) (pre : list arrival), latest_inv arity s pre -> fold_outs (KCombineLatest emit_on) s l = combine_latest_sem arity emit_on pre l.
Proof. exact (@sem_combine_latest). Qed.
End G_sem_combine_latest.
Print Assumptions C01_sem_combine_latest.
Section G_sem_zip.
Import SZ.Sync.NodeSem2.
Theorem C01_sem_zip : forall (lits : list (nat * val)) (arity : nat) (l : list arrival), 1 <= arity -> Forall (fun a : arrival => aport a < arity) l -> fold_outs (KZip lits) (init_state (KZip lits) arity) l = zip_sem lits arity l /\ st_ports (fold_state (KZip lits) (init_state (KZip lits) arity) l) = map (fun p : nat => skipn (length (zip_sem lits arity l)) (col p l)) (seq 0 arity).
Proof. exact (@sem_zip). Qed.
End G_sem_zip.
Print Assumptions C01_sem_zip.
Section G_sem_zip2.
Import SZ.Sync.NodeSem2.
Theorem C01_sem_zip2 : forall l : list arrival, Forall (fun a : arrival => aport a < 2) l -> fold_outs (KZip []) (init_state (KZip []) 2) l = map (fun ab : arrival * arrival => (VTup [aval (fst ab); aval (snd ab)], amd (fst ab) ++ amd (snd ab))) (combine (on_port 0 l) (on_port 1 l)).
Proof. exact (@sem_zip2). Qed.
End G_sem_zip2.
Print Assumptions C01_sem_zip2.
Section G_zip_sem_transpose.
Import SZ.Sync.NodeSem2.
Theorem C01_zip_sem_transpose : forall (lits : list (nat * val)) (arity : nat) (l : list arrival), 1 <= arity -> zip_sem lits arity l = map (fun row : list (val * list mdi) => (VTup (pack_literals lits (map fst row) 0), flat_map snd row)) (zipn (cols arity l)).
Proof. exact (@zip_sem_transpose). Qed.
End G_zip_sem_transpose.
Print Assumptions C01_zip_sem_transpose.
Section G_sem_partition_key.
Import SZ.Sync.NodeSem2.
Theorem C01_sem_partition_key : forall (n : nat) (key : val -> val) (l : list arrival) (s : nstate) (pre : list arrival), 1 <= n -> partition_key_inv n key s pre -> fold_outs (KPartition n (Some key)) s l = partition_key_sem n key pre l.
Proof. exact (@sem_partition_key). Qed.
End G_sem_partition_key.
Print Assumptions C01_sem_partition_key.
Section G_partition_key_per_key.
Import SZ.Sync.NodeSem2.
Theorem C01_partition_key_per_key : forall (n : nat) (key : val -> val) (y : val), 1 <= n -> forall l pre : list arrival, prefix_sem (partition_key_step_for n key y) pre l = chunks n (pending n (same_key key y pre)) (same_key key y l).
Proof. exact (@partition_key_per_key). Qed.
End G_partition_key_per_key.
Print Assumptions C01_partition_key_per_key.
Section G_partition_key_nothing_lost.
Import SZ.Sync.NodeSem2.
Theorem C01_partition_key_nothing_lost : forall (n : nat) (key : val -> val) (y : val) (l : list arrival), 1 <= n -> exists rest : list arrival, length rest < n /\ flat_map (fun c : val * list mdi => match fst c with | VTup vs => vs | _ => [] end) (prefix_sem (partition_key_step_for n key y) [] l) ++ map aval rest = map aval (same_key key y l).
Proof. exact (@partition_key_nothing_lost). Qed.
End G_partition_key_nothing_lost.
Print Assumptions C01_partition_key_nothing_lost.
Section G_sem_part_unique.
Import SZ.Sync.NodeSem2.
Theorem C01_sem_part_unique : forall (n : nat) (key : val -> val) (kl : bool) (l : list arrival) (s : nstate) (buf : list arrival), pu_inv key s buf -> fold_outs (KPartUnique n key kl) s l = part_unique_sem n key kl buf l.
Proof. exact (@sem_part_unique). Qed.
End G_sem_part_unique.
Print Assumptions C01_sem_part_unique.
Section G_part_unique_distinct.
Import SZ.Sync.NodeSem2.
Theorem C01_part_unique_distinct : forall (n : nat) (key : val -> val) (kl : bool) (l buf : list arrival), NoDup (keys_of key buf) -> Forall (fun o : val * list mdi => exists c : list arrival, o = chunk_out c /\ length c = n /\ NoDup (keys_of key c)) (part_unique_sem n key kl buf l).
Proof. exact (@part_unique_distinct). Qed.
End G_part_unique_distinct.
Print Assumptions C01_part_unique_distinct.
Section G_sem_zip_latest.
Import SZ.Sync.NodeSem2.
Theorem C01_sem_zip_latest : forall (arity : nat) (l : list arrival) (s : nstate) (pre : list arrival), 1 <= arity -> zl_inv arity s pre -> fold_outs KZipLatest s l = zip_latest_sem arity pre l.
Proof. exact (@sem_zip_latest). Qed.
End G_sem_zip_latest.
Print Assumptions C01_sem_zip_latest.
Section G_zip_latest_lossless.
Import SZ.Sync.NodeSem2.
Theorem C01_zip_latest_lossless : forall arity : nat, 1 <= arity -> forall l pre : list arrival, map out_head (zip_latest_sem arity pre l) ++ map aval (zl_pending arity (pre ++ l)) = map aval (zl_pending arity pre) ++ map aval (on_port 0 l).
Proof. exact (@zip_latest_lossless). Qed.
End G_zip_latest_lossless.
Print Assumptions C01_zip_latest_lossless.
Section G_state_first_ok.
Import SZ.Sync.RefCount.
Import SZ.Sync.Feedback.
Theorem C01_state_first_ok : forall k : kind, state_first_kindb k = true -> state_first k.
Proof. exact (@state_first_ok). Qed.
End G_state_first_ok.
Print Assumptions C01_state_first_ok.
Section G_zip_latest_not_state_first.
Import SZ.Sync.RefCount.
Import SZ.Sync.Feedback.
Theorem C01_zip_latest_not_state_first : ~ state_first KZipLatest.
Proof. exact (@zip_latest_not_state_first). Qed.
End G_zip_latest_not_state_first.
Print Assumptions C01_zip_latest_not_state_first.
Section G_flush_state_first.
Import SZ.Sync.RefCount.
Import SZ.Sync.Feedback.
Theorem C01_flush_state_first : forall s : nstate, state_first_acts (flush_actions s).
Proof. exact (@flush_state_first). Qed.
End G_flush_state_first.
Print Assumptions C01_flush_state_first.
Section G_push_state_fold_any_graph.
Import SZ.Sync.RefCount.
Import SZ.Sync.Feedback.
Theorem C01_push_state_fold_any_graph : forall (g : list node) (fuel depth n : nat) (w : world) (x : val) (m : list mdi) (w' : world) (st : status), length (sts w) = length g -> push fuel g depth n w x m = (w', st) -> exists new : list entry, log w' = rev new ++ log w /\ length (sts w') = length g /\ (forall e : entry, In e new -> is_down g (e_src e) (e_dst e) = true /\ depth <= e_depth e) /\ (forall d : nat, d < length g -> state_first (nkind (gnode g d)) -> nst w' d = fold_state (nkind (gnode g d)) (nst w d) (arr g new d)).
Proof. exact (@push_state_fold_any_graph). Qed.
End G_push_state_fold_any_graph.
Print Assumptions C01_push_state_fold_any_graph.
Section G_exec_state_fold_any_graph.
Import SZ.Sync.RefCount.
Import SZ.Sync.Feedback.
Theorem C01_exec_state_fold_any_graph : forall (g : graph) (fuel : nat) (evs : list event) (w : world) (st : status), exec_from fuel g (init_world g) evs = (w, st) -> emits_only evs -> forall d : nat, d < length g -> state_first (nkind (gnode g d)) -> nst w d = fold_state (nkind (gnode g d)) (init_st g d) (arr g (rev (log w)) d).
Proof. exact (@exec_state_fold_any_graph). Qed.
End G_exec_state_fold_any_graph.
Print Assumptions C01_exec_state_fold_any_graph.
Section G_exec_calls_along_edges_any_graph.
Import SZ.Sync.RefCount.
Import SZ.Sync.Feedback.
Theorem C01_exec_calls_along_edges_any_graph : forall (g : graph) (fuel : nat) (evs : list event) (w : world) (st : status), exec_from fuel g (init_world g) evs = (w, st) -> emits_only evs -> length (sts w) = length g /\ (forall e : entry, In e (log w) -> is_down g (e_src e) (e_dst e) = true).
Proof. exact (@exec_calls_along_edges_any_graph). Qed.
End G_exec_calls_along_edges_any_graph.
Print Assumptions C01_exec_calls_along_edges_any_graph.
Section G_exec_state_fold_flush_any_graph.
Import SZ.Sync.RefCount.
Import SZ.Sync.Feedback.
Theorem C01_exec_state_fold_flush_any_graph : forall (g : graph) (fuel : nat) (evs : list event) (w : world) (st : status), exec_from fuel g (init_world g) evs = (w, st) -> forall d : nat, d < length g -> state_first (nkind (gnode g d)) -> nst w d = fold_stim (nkind (gnode g d)) (init_st g d) (stims_from fuel g (init_world g) evs d).
Proof. exact (@exec_state_fold_flush_any_graph). Qed.
End G_exec_state_fold_flush_any_graph.
Print Assumptions C01_exec_state_fold_flush_any_graph.
Section G_single_emit_ok.
Import SZ.Sync.RefCount.
Import SZ.Sync.Feedback.
Theorem C01_single_emit_ok : forall k : kind, single_emit_kindb k = true -> single_emit k.
Proof. exact (@single_emit_ok). Qed.
End G_single_emit_ok.
Print Assumptions C01_single_emit_ok.
Section G_push_first_edge_any_graph.
Import SZ.Sync.RefCount.
Import SZ.Sync.Feedback.
Theorem C01_push_first_edge_any_graph : forall (g : list node) (u d0 : nat) (rest : list nat), u < length g -> state_first (nkind (gnode g u)) -> single_emit (nkind (gnode g u)) -> sdowns g u = d0 :: rest -> (forall d : nat, In d (sdowns g u) -> permanent g d = true) -> forall (fuel depth n : nat) (w : world) (x : val) (m : list mdi) (w' : world) (st : status), WF g w -> push fuel g depth n w x m = (w', st) -> st <> SFuel -> exists new : list entry, log w' = rev new ++ log w /\ WF g w' /\ edge new u d0 = (if n =? u then [(x, m)] else []) ++ fold_outs (nkind (gnode g u)) (nst w u) (arr g new u).
Proof. exact (@push_first_edge_any_graph). Qed.
End G_push_first_edge_any_graph.
Print Assumptions C01_push_first_edge_any_graph.
Section G_exec_first_edge_any_graph.
Import SZ.Sync.RefCount.
Import SZ.Sync.Feedback.
Theorem C01_exec_first_edge_any_graph : forall (g : list node) (u d0 : nat) (rest : list nat) (fuel : nat) (evs : list event) (w : world) (st : status), u < length g -> state_first (nkind (gnode g u)) -> single_emit (nkind (gnode g u)) -> sdowns g u = d0 :: rest -> (forall d : nat, In d (sdowns g u) -> permanent g d = true) -> emits_only evs -> (forall e : event, In e evs -> match e with | EEmit n _ _ => n <> u | EFlush _ => True end) -> exec_from fuel g (init_world g) evs = (w, st) -> st <> SFuel -> edge (rev (log w)) u d0 = fold_outs (nkind (gnode g u)) (init_st g u) (arr g (rev (log w)) u).
Proof. exact (@exec_first_edge_any_graph). Qed.
End G_exec_first_edge_any_graph.
Print Assumptions C01_exec_first_edge_any_graph.
Section G_first_edge_needs_fuel.
Import SZ.Sync.RefCount.
Import SZ.Sync.Feedback.
Theorem C01_first_edge_needs_fuel : exists w' : world, push 2 fb_g 0 0 (init_world fb_g) (VInt 1) [] = (w', SFuel) /\ edge (rev (log w')) 2 3 = [] /\ fold_outs (nkind (gnode fb_g 2)) (init_st fb_g 2) (arr fb_g (rev (log w')) 2) = [(VInt 1, [])] /\ st_acc (nst w' 2) = Some (VInt 1).
Proof. exact (@first_edge_needs_fuel). Qed.
End G_first_edge_needs_fuel.
Print Assumptions C01_first_edge_needs_fuel.
(* ---- generated by harness/mkprops_sync.py: end ---- *)
