(* C11 — rolling / cumulative / expanding / ewm results do not depend on batching.
   Only statements closed by `exact`; model in DF/Rolling.v (+ DF/Window.v for expanding), proofs in DF/RollingProofs.v.
   No theorem has a hypothesis on batch sizes: empty batches and batches shorter than the window are included. *)
From Coq Require Import List ZArith QArith Qcanon Bool.
From SZ Require Import DF.Window DF.WindowProofs DF.Rolling DF.RollingProofs.
Import ListNotations.
Close Scope Qc_scope. Close Scope Q_scope. Open Scope nat_scope.

(* rolling(w rows).op(): for EVERY window function op (sum, mean, min, max, count, median, std, var, quantile, ... —
   anything that is a function of the last w rows), every w, every split: the emitted pieces, concatenated, are
   pandas' one-pass rolling result; each piece has one value per row of its batch *)
Theorem C11_rolling_split_indep : forall w op batches,
  concat (roll_run w op batches) = pd_rolling w op (concat batches).
Proof. exact rolling_split_indep. Qed.
Theorem C11_rolling_shape : forall w op batches acc,
  map (@length _) (run_steps (roll_step w op) acc batches) = map (@length _) batches.
Proof. exact roll_run_shape. Qed.
Print Assumptions C11_rolling_split_indep.

(* rolling(time window T) on non-decreasing stamps *)
Theorem C11_trolling_split_indep : forall T op, (0 <= T)%Z -> forall batches, ssorted (concat batches) ->
  concat (troll_run T op batches) = pd_trolling T op (concat batches).
Proof. exact trolling_split_indep. Qed.
Print Assumptions C11_trolling_split_indep.

(* cumsum/cumprod/cummin/cummax (any binary f), repaired carry (last valid running value) *)
Theorem C11_cum_split_indep : forall f batches, concat (cum_run true f batches) = pd_cum f (concat batches).
Proof. exact cum_split_indep. Qed.
Print Assumptions C11_cum_split_indep.
(* as found: a batch that ends with a NaN cell loses the running value *)
Theorem C11_cum_nan_tail_refuted : exists batches, concat (cum_run false Qcplus batches) <> pd_cum Qcplus (concat batches).
Proof. exact cum_nan_tail_refuted. Qed.
Print Assumptions C11_cum_nan_tail_refuted.

(* ewm(com).mean(), q = com/(1+com) >= 0, NaN-free data, repaired start: the value emitted after batch k is pandas'
   adjust=True weighted mean sum q^i x_(t-i) / sum q^i at the last row of the first k batches *)
Theorem C11_ewm_split_indep : forall q, (0 <= q)%Qc -> forall batches,
  ewm_run true q batches = map (ewm_spec q) (qprefixes_from [] batches).
Proof. exact ewm_split_indep. Qed.
Print Assumptions C11_ewm_split_indep.
Theorem C11_ewm_empty_first_refuted : exists q batches, (0 <= q)%Qc /\
  ewm_run false q batches <> map (ewm_spec q) (qprefixes_from [] batches).
Proof. exact ewm_empty_first_refuted. Qed.

(* the code as found, where its two defects do not bite: no batch ends with a NaN cell / the first batch is not empty *)
Theorem C11_cum_split_indep_asfound : forall f batches, Forall ends_valid batches ->
  concat (cum_run false f batches) = pd_cum f (concat batches).
Proof. exact cum_split_indep_asfound. Qed.
Theorem C11_ewm_split_indep_asfound : forall q, (0 <= q)%Qc -> forall x t rest,
  ewm_run false q ((x :: t) :: rest) = map (ewm_spec q) (qprefixes_from [] ((x :: t) :: rest)).
Proof. exact ewm_split_indep_asfound. Qed.
Print Assumptions C11_cum_split_indep_asfound.
Print Assumptions C11_ewm_split_indep_asfound.

(* expanding().agg(): value after batch k = the aggregation of all rows of the first k batches *)
Theorem C11_expanding_split_indep : forall A h, lawful A h -> forall batches,
  wrun A WE batches = map (fun p => RScal (fin A (h p))) (prefixes batches).
Proof. exact expanding_split_indep. Qed.
Print Assumptions C11_expanding_split_indep.

(* non-vacuity: concrete runs with an empty batch and batches shorter than the window *)
Definition nvb : list frame := [[rw 0 0 1]; []; [rw 1 0 2; rw 1 0 4]; [rw 5 0 3]].
Definition onq (o : onum) : Q := match o with ONum v => this v | ONan => (-1 # 1)%Q | OInf => (-2 # 1)%Q end.
Example C11_nonvacuous_rolling :
  map (map onq) (roll_run 3 (rop RSum 3) nvb) = [[-1 # 1]; []; [-1 # 1; 7 # 1]; [9 # 1]]%Q /\
  map (map onq) (troll_run 2 (rop RSum 1) nvb) = [[1 # 1]; []; [3 # 1; 7 # 1]; [3 # 1]]%Q /\
  ssorted (concat nvb).
Proof.
  split; [vm_compute; reflexivity|]. split; [vm_compute; reflexivity|].
  simpl. repeat split; intros b Hb; simpl in Hb; intuition (subst; simpl; discriminate).
Qed.
Example C11_nonvacuous_cum_ewm :
  concat (cum_run true Qcplus [[oc 1; None]; []; [oc 3]]) = [oc 1; None; oc 4] /\
  (0 <= Q2Qc (1 # 2))%Qc /\
  map (fun r => match r with EVal v => this v | EEmpty => (-1 # 1)%Q end)
      (ewm_run true (Q2Qc (1 # 2)) [[]; [z2q 1; z2q 2]; []; [z2q 3]]) = [-1 # 1; 5 # 3; 5 # 3; 17 # 7]%Q.
Proof. split; [vm_compute; reflexivity|]. split; [discriminate|vm_compute; reflexivity]. Qed.
