(* C04 - the completion callback never precedes completion.
   Statements restated from the proof files by harness/mkprops.py; every theorem quantifies over ALL action
   lists (schedules of emits, consumer completions, task completions, time advances). *)
From Coq Require Import List ZArith Bool Arith Permutation Sorted.
From SZ Require Import Base.Values.
From SZ Require Import Sync.Nodes.
From SZ Require Import Async.Core.
From SZ Require Async.BufferProofs.
From SZ Require Async.DelayProofs.
From SZ Require Async.LatestProofs.
From SZ Require Async.RateLimitProofs.
From SZ Require Async.TimedWindowProofs.
From SZ Require Async.PartitionTOProofs.
From SZ Require Async.MapAsyncProofs.
From SZ Require Async.ZipBPProofs.
From SZ Require Async.Plain.
From SZ Require Base.BridgeRefCounter.
From SZ Require Base.BridgeEmit.
Import ListNotations.

(* from Async.BufferProofs *)
Section S_buffer_cb_not_early_BufferProofs.
Import SZ.Async.BufferProofs.
Theorem C04_buffer_cb_not_early : forall (n : nat) (sync : bool) (acts : list act) (s : nm_state Buffer.buffer_model) (outs : list (list (Z * val * list mdi) * list nat)), run_steps Buffer.buffer_model (Buffer.b_init n sync) acts = (s, outs) -> NoDup (ids_of acts) -> forall r : nat, In r (rfired (Buffer.b_rc s)) -> mocc (b_held s) r = 0%Z.
Proof. exact (@buffer_cb_not_early). Qed.
End S_buffer_cb_not_early_BufferProofs.
Print Assumptions C04_buffer_cb_not_early.

(* from Async.DelayProofs *)
Section S_delay_cb_not_early_DelayProofs.
Import SZ.Async.DelayProofs.
Theorem C04_delay_cb_not_early : forall (interval : Z) (sync : bool) (acts : list act) (s : nm_state Delay.delay_model) (outs : list (list (Z * val * list mdi) * list nat)), run_steps Delay.delay_model (Delay.d_init interval sync) acts = (s, outs) -> NoDup (ids_of acts) -> forall r : nat, In r (rfired (Delay.d_rc s)) -> mocc (d_held s) r = 0%Z.
Proof. exact (@delay_cb_not_early). Qed.
End S_delay_cb_not_early_DelayProofs.
Print Assumptions C04_delay_cb_not_early.

(* from Async.LatestProofs *)
Section S_latest_cb_not_early_LatestProofs.
Import SZ.Async.LatestProofs.
Theorem C04_latest_cb_not_early : forall (sync : bool) (acts : list act) (s : nm_state Latest.latest_model) (outs : list (list (Z * val * list mdi) * list nat)), run_steps Latest.latest_model (Latest.l_init sync) acts = (s, outs) -> NoDup (ids_of acts) -> forall r : nat, In r (rfired (Latest.l_rc s)) -> mocc (l_held s) r = 0%Z.
Proof. exact (@latest_cb_not_early). Qed.
End S_latest_cb_not_early_LatestProofs.
Print Assumptions C04_latest_cb_not_early.

(* from Async.LatestProofs *)
Section S_latest_slot_kept_LatestProofs.
Import SZ.Async.LatestProofs.
Theorem C04_latest_slot_kept : forall (sync : bool) (acts : list act) (s : nm_state Latest.latest_model) (outs : list (list (Z * val * list mdi) * list nat)) (x : val) (m : list mdi), run_steps Latest.latest_model (Latest.l_init sync) acts = (s, outs) -> NoDup (ids_of acts) -> Latest.l_slot s = Some (x, m) -> forall r : nat, (1 <= mocc m r)%Z -> ~ In r (rfired (Latest.l_rc s)).
Proof. exact (@latest_slot_kept). Qed.
End S_latest_slot_kept_LatestProofs.
Print Assumptions C04_latest_slot_kept.

(* from Async.RateLimitProofs *)
Section S_rl_cb_not_early_RateLimitProofs.
Import SZ.Async.RateLimitProofs.
Theorem C04_rl_cb_not_early : forall (i : Z) (sync : bool) (acts : list act) (s : RateLimit.rst) (outs : list (list (Z * val * list mdi) * list nat)), (0 < i)%Z -> run_steps RateLimit.rate_limit_model (RateLimit.r_init i sync) acts = (s, outs) -> NoDup (ids_of acts) -> forall r : nat, In r (rfired (RateLimit.r_rc s)) -> mocc (r_held s) r = 0%Z.
Proof. exact (@rl_cb_not_early). Qed.
End S_rl_cb_not_early_RateLimitProofs.
Print Assumptions C04_rl_cb_not_early.

(* from Async.TimedWindowProofs *)
Section S_tw_cb_not_early_TimedWindowProofs.
Import SZ.Async.TimedWindowProofs.
Theorem C04_tw_cb_not_early : forall (i : Z) (sync : bool) (uniq : option ((val -> val) * bool)) (acts : list act) (s : TimedWindow.wst) (outs : list (list (Z * val * list mdi) * list nat)), (0 < i)%Z -> run_steps TimedWindow.timed_window_model (fst (TimedWindow.w_init i sync uniq)) acts = (s, outs) -> NoDup (ids_of acts) -> forall r : nat, In r (rfired (TimedWindow.w_rc s)) -> mocc (w_held s) r = 0%Z.
Proof. exact (@tw_cb_not_early). Qed.
End S_tw_cb_not_early_TimedWindowProofs.
Print Assumptions C04_tw_cb_not_early.

(* from Async.PartitionTOProofs *)
Section S_partition_cb_not_early_PartitionTOProofs.
Import SZ.Async.PartitionTOProofs.
Theorem C04_partition_cb_not_early : forall (n : nat) (to : option Z) (key : option (val -> val)) (sync : bool) (acts : list act) (s : PartitionTO.pst) (outs : list (list (Z * val * list mdi) * list nat)), 1 <= n -> (forall t : Z, to = Some t -> (0 < t)%Z) -> run_steps PartitionTO.partition_model (PartitionTO.p_init n to key sync) acts = (s, outs) -> NoDup (ids_of acts) -> forall r : nat, In r (rfired (PartitionTO.p_rc s)) -> mocc (p_held s) r = 0%Z.
Proof. exact (@partition_cb_not_early). Qed.
End S_partition_cb_not_early_PartitionTOProofs.
Print Assumptions C04_partition_cb_not_early.

(* from Async.MapAsyncProofs *)
Section S_map_async_cb_not_early_MapAsyncProofs.
Import SZ.Async.MapAsyncProofs.
Theorem C04_map_async_cb_not_early : forall (p : nat) (sync : bool) (acts : list act) (s : nm_state MapAsync.map_async_model) (outs : list (list (Z * val * list mdi) * list nat)), run_steps MapAsync.map_async_model (MapAsync.m_init p sync) acts = (s, outs) -> NoDup (ids_of acts) -> forall r : nat, In r (rfired (MapAsync.m_rc s)) -> mocc (m_held s) r = 0%Z.
Proof. exact (@map_async_cb_not_early). Qed.
End S_map_async_cb_not_early_MapAsyncProofs.
Print Assumptions C04_map_async_cb_not_early.

(* from Async.ZipBPProofs *)
Section S_zip_cb_not_early_buffered_ZipBPProofs.
Import SZ.Async.ZipBPProofs.
Theorem C04_zip_cb_not_early_buffered : forall (mx : nat) (sync : bool) (acts : list act) (s : nm_state ZipBP.zip_model) (outs : list (list (Z * val * list mdi) * list nat)), run_steps ZipBP.zip_model (ZipBP.z_init mx sync) acts = (s, outs) -> NoDup (ids_of acts) -> forall r : nat, In r (rfired (ZipBP.z_rc s)) -> mocc (z_held s) r = 0%Z.
Proof. exact (@zip_cb_not_early_buffered). Qed.
End S_zip_cb_not_early_buffered_ZipBPProofs.
Print Assumptions C04_zip_cb_not_early_buffered.

(* from Async.ZipBPProofs *)
Section S_zip_cb_early_refuted_ZipBPProofs.
Import SZ.Async.ZipBPProofs.
Theorem C04_zip_cb_early_refuted : exists (acts : list act) (s : nm_state ZipBP.zip_model) (outs : list (list (Z * val * list mdi) * list nat)) (r : nat), NoDup (ids_of acts) /\ run_steps ZipBP.zip_model (ZipBP.z_init 1 false) acts = (s, outs) /\ In r (rfired (ZipBP.z_rc s)) /\ ZipBP.z_flight s <> [].
Proof. exact (@zip_cb_early_refuted). Qed.
End S_zip_cb_early_refuted_ZipBPProofs.
Print Assumptions C04_zip_cb_early_refuted.

(* from Async.Plain *)
Section S_plain_cb_early_refuted_Plain.
Import SZ.Async.Plain.
Theorem C04_plain_cb_early_refuted : exists (acts : list act) (s : nm_state plain_model) (outs : list (list (Z * val * list mdi) * list nat)) (r : nat), NoDup (ids_of acts) /\ run_steps plain_model (pl_init false) acts = (s, outs) /\ In r (rfired (pl_rc s)) /\ pl_flight s <> [].
Proof. exact (@plain_cb_early_refuted). Qed.
End S_plain_cb_early_refuted_Plain.
Print Assumptions C04_plain_cb_early_refuted.

(* from Base.BridgeRefCounter *)
Section S_bridge_rc_release_async_BridgeRefCounter.
Import SZ.Base.BridgeRefCounter.
Theorem C04_bridge_rc_release_async : forall (s : rcs) (r : nat) (n : Z), rcnt (rc_release1 s r n) r = fst (KRefCounter.gen_rc_release (rcnt s r) n) /\ rfired (rc_release1 s r n) = (if snd (KRefCounter.gen_rc_release (rcnt s r) n) then rfired s ++ [r] else rfired s).
Proof. exact (@bridge_rc_release_async). Qed.
End S_bridge_rc_release_async_BridgeRefCounter.
Print Assumptions C04_bridge_rc_release_async.

(* from Base.BridgeRefCounter *)
Section S_bridge_rc_retain_async_BridgeRefCounter.
Import SZ.Base.BridgeRefCounter.
Theorem C04_bridge_rc_retain_async : forall (s : rcs) (r : nat) (n : Z), rcnt (rc_retain1 s r n) r = KRefCounter.gen_rc_retain (rcnt s r) n.
Proof. exact (@bridge_rc_retain_async). Qed.
End S_bridge_rc_retain_async_BridgeRefCounter.
Print Assumptions C04_bridge_rc_retain_async.

(* from Base.BridgeEmit *)
Section S_bridge_retain_refs_BridgeEmit.
Import SZ.Base.BridgeEmit.
Theorem C04_bridge_retain_refs : forall (w : Pipeline.world) (m : list mdi) (n : Z), KN__refs.gen_retain_refs w m n = Pipeline.retain w m n.
Proof. exact (@bridge_retain_refs). Qed.
End S_bridge_retain_refs_BridgeEmit.
Print Assumptions C04_bridge_retain_refs.

(* from Base.BridgeEmit *)
Section S_bridge_release_refs_BridgeEmit.
Import SZ.Base.BridgeEmit.
Theorem C04_bridge_release_refs : forall (w : Pipeline.world) (m : list mdi) (n : Z), KN__refs.gen_release_refs w m n = Pipeline.release w m n.
Proof. exact (@bridge_release_refs). Qed.
End S_bridge_release_refs_BridgeEmit.
Print Assumptions C04_bridge_release_refs.

