(* C08 - time windows conserve elements and honour their deadline.
   Statements restated from the proof files by harness/mkprops.py; every theorem quantifies over ALL action
   lists (schedules of emits, consumer completions, task completions, time advances). *)
From Coq Require Import List ZArith Bool Arith Permutation Sorted.
From SZ Require Import Base.Values.
From SZ Require Import Sync.Nodes.
From SZ Require Import Async.Core.
From SZ Require Async.TimedWindowProofs.
From SZ Require Async.PartitionTOProofs.
Import ListNotations.

(* from Async.TimedWindowProofs *)
Section S_tw_conserve_TimedWindowProofs.
Import SZ.Async.TimedWindowProofs.
Theorem C08_tw_conserve : forall (i : Z) (sync : bool) (uniq : option ((val -> val) * bool)) (acts : list act) (s : TimedWindow.wst) (outs : list (list (Z * val * list mdi) * list nat)), (0 < i)%Z -> run_steps TimedWindow.timed_window_model (fst (TimedWindow.w_init i sync uniq)) acts = (s, outs) -> uniq = None -> flat_map (fun d : Z * val * list mdi => batch_items (snd (fst d))) (all_deliv (snd (TimedWindow.w_init i sync uniq) :: outs)) ++ map fst (w_items s) = map fst (ins_of acts) /\ flat_map snd (all_deliv (snd (TimedWindow.w_init i sync uniq) :: outs)) ++ flat_map snd (w_items s) = flat_map snd (ins_of acts).
Proof. exact (@tw_conserve). Qed.
End S_tw_conserve_TimedWindowProofs.
Print Assumptions C08_tw_conserve.

(* from Async.TimedWindowProofs *)
Section S_tw_unique_keys_TimedWindowProofs.
Import SZ.Async.TimedWindowProofs.
Theorem C08_tw_unique_keys : forall (i : Z) (sync : bool) (uniq : option ((val -> val) * bool)) (acts : list act) (s : TimedWindow.wst) (outs : list (list (Z * val * list mdi) * list nat)), (0 < i)%Z -> run_steps TimedWindow.timed_window_model (fst (TimedWindow.w_init i sync uniq)) acts = (s, outs) -> forall (key : val -> val) (keep : bool), uniq = Some (key, keep) -> Forall (fun d : Z * val * list mdi => NoDup (map key (batch_items (snd (fst d))))) (all_deliv (snd (TimedWindow.w_init i sync uniq) :: outs)) /\ NoDup (map key (map fst (w_items s))).
Proof. exact (@tw_unique_keys). Qed.
End S_tw_unique_keys_TimedWindowProofs.
Print Assumptions C08_tw_unique_keys.

(* from Async.TimedWindowProofs *)
Section S_tw_deadline_TimedWindowProofs.
Import SZ.Async.TimedWindowProofs.
Theorem C08_tw_deadline : forall (i : Z) (sync : bool) (uniq : option ((val -> val) * bool)) (acts : list act) (s : TimedWindow.wst) (outs : list (list (Z * val * list mdi) * list nat)), (0 < i)%Z -> run_steps TimedWindow.timed_window_model (fst (TimedWindow.w_init i sync uniq)) acts = (s, outs) -> forall u : Z, TimedWindow.w_mode s = TimedWindow.WSleep u -> (TimedWindow.w_now s < u <= TimedWindow.w_now s + i)%Z.
Proof. exact (@tw_deadline). Qed.
End S_tw_deadline_TimedWindowProofs.
Print Assumptions C08_tw_deadline.

(* from Async.TimedWindowProofs *)
Section S_tw_sync_never_awaits_TimedWindowProofs.
Import SZ.Async.TimedWindowProofs.
Theorem C08_tw_sync_never_awaits : forall (i : Z) (sync : bool) (uniq : option ((val -> val) * bool)) (acts : list act) (s : TimedWindow.wst) (outs : list (list (Z * val * list mdi) * list nat)), (0 < i)%Z -> run_steps TimedWindow.timed_window_model (fst (TimedWindow.w_init i sync uniq)) acts = (s, outs) -> TimedWindow.w_sync s = true -> exists u : Z, TimedWindow.w_mode s = TimedWindow.WSleep u.
Proof. exact (@tw_sync_never_awaits). Qed.
End S_tw_sync_never_awaits_TimedWindowProofs.
Print Assumptions C08_tw_sync_never_awaits.

(* from Async.PartitionTOProofs *)
Section S_partition_size_PartitionTOProofs.
Import SZ.Async.PartitionTOProofs.
Theorem C08_partition_size : forall (n : nat) (to : option Z) (key : option (val -> val)) (sync : bool) (acts : list act) (s : PartitionTO.pst) (outs : list (list (Z * val * list mdi) * list nat)), 1 <= n -> (forall t : Z, to = Some t -> (0 < t)%Z) -> run_steps PartitionTO.partition_model (PartitionTO.p_init n to key sync) acts = (s, outs) -> Forall (fun d : Z * val * list mdi => exists vs : list val, snd (fst d) = VTup vs /\ 1 <= length vs <= n) (all_deliv outs).
Proof. exact (@partition_size). Qed.
End S_partition_size_PartitionTOProofs.
Print Assumptions C08_partition_size.

(* from Async.PartitionTOProofs *)
Section S_partition_conserve_PartitionTOProofs.
Import SZ.Async.PartitionTOProofs.
Theorem C08_partition_conserve : forall (n : nat) (to : option Z) (key : option (val -> val)) (sync : bool) (acts : list act) (s : PartitionTO.pst) (outs : list (list (Z * val * list mdi) * list nat)), 1 <= n -> (forall t : Z, to = Some t -> (0 < t)%Z) -> run_steps PartitionTO.partition_model (PartitionTO.p_init n to key sync) acts = (s, outs) -> key = None -> flat_map (fun d : Z * val * list mdi => tuple_items (snd (fst d))) (all_deliv outs) ++ p_items s = map fst (ins_of acts).
Proof. exact (@partition_conserve). Qed.
End S_partition_conserve_PartitionTOProofs.
Print Assumptions C08_partition_conserve.

(* from Async.PartitionTOProofs *)
Section S_partition_timer_inv_gen_PartitionTOProofs.
Import SZ.Async.PartitionTOProofs.
Theorem C08_partition_timer_inv_gen : forall (n : nat) (to : option Z) (key : option (val -> val)) (sync : bool) (acts : list act) (s : PartitionTO.pst) (outs : list (list (Z * val * list mdi) * list nat)), 1 <= n -> (forall t : Z, to = Some t -> (0 < t)%Z) -> run_steps PartitionTO.partition_model (PartitionTO.p_init n to key sync) acts = (s, outs) -> forall t : Z, to = Some t -> NoDup (map fst (PartitionTO.p_timers s)) /\ (forall k : val, In k (map fst (PartitionTO.p_timers s)) <-> fst (PartitionTO.p_get k (PartitionTO.p_bufs s)) <> []) /\ Forall (fun kd : val * Z => (PartitionTO.p_now s < snd kd <= PartitionTO.p_now s + t)%Z) (PartitionTO.p_timers s).
Proof. exact (@partition_timer_inv_gen). Qed.
End S_partition_timer_inv_gen_PartitionTOProofs.
Print Assumptions C08_partition_timer_inv_gen.

(* from Async.PartitionTOProofs *)
Section S_partition_buf_bound_PartitionTOProofs.
Import SZ.Async.PartitionTOProofs.
Theorem C08_partition_buf_bound : forall (n : nat) (to : option Z) (key : option (val -> val)) (sync : bool) (acts : list act) (s : PartitionTO.pst) (outs : list (list (Z * val * list mdi) * list nat)), 1 <= n -> (forall t : Z, to = Some t -> (0 < t)%Z) -> run_steps PartitionTO.partition_model (PartitionTO.p_init n to key sync) acts = (s, outs) -> forall k : val, length (fst (PartitionTO.p_get k (PartitionTO.p_bufs s))) < n.
Proof. exact (@partition_buf_bound). Qed.
End S_partition_buf_bound_PartitionTOProofs.
Print Assumptions C08_partition_buf_bound.

(* from Async.PartitionTOProofs *)
Section S_partition_no_timeout_no_timers_PartitionTOProofs.
Import SZ.Async.PartitionTOProofs.
Theorem C08_partition_no_timeout_no_timers : forall (n : nat) (to : option Z) (key : option (val -> val)) (sync : bool) (acts : list act) (s : PartitionTO.pst) (outs : list (list (Z * val * list mdi) * list nat)), 1 <= n -> (forall t : Z, to = Some t -> (0 < t)%Z) -> run_steps PartitionTO.partition_model (PartitionTO.p_init n to key sync) acts = (s, outs) -> to = None -> PartitionTO.p_timers s = [].
Proof. exact (@partition_no_timeout_no_timers). Qed.
End S_partition_no_timeout_no_timers_PartitionTOProofs.
Print Assumptions C08_partition_no_timeout_no_timers.

