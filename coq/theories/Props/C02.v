(* C02 - asynchronous timing never changes what lossless pipelines deliver.
   Statements restated from the proof files by harness/mkprops.py; every theorem quantifies over ALL action
   lists (schedules of emits, consumer completions, task completions, time advances). *)
From Coq Require Import List ZArith Bool Arith Permutation Sorted.
From SZ Require Import Base.Values.
From SZ Require Import Sync.Nodes.
From SZ Require Import Async.Core.
From SZ Require Async.BufferProofs.
From SZ Require Async.DelayProofs.
From SZ Require Async.RateLimitProofs.
From SZ Require Async.MapAsyncProofs.
From SZ Require Async.TimedWindowProofs.
From SZ Require Async.PartitionTOProofs.
From SZ Require Async.ZipBPProofs.
From SZ Require Async.Compose.
Import ListNotations.

(* from Async.BufferProofs *)
Section S_buffer_fifo_BufferProofs.
Import SZ.Async.BufferProofs.
Theorem C02_buffer_fifo : forall (n : nat) (sync : bool) (acts : list act) (s : nm_state Buffer.buffer_model) (outs : list (list (Z * val * list mdi) * list nat)), run_steps Buffer.buffer_model (Buffer.b_init n sync) acts = (s, outs) -> deliv_items (all_deliv outs) ++ b_pending s = ins_of acts.
Proof. exact (@buffer_fifo). Qed.
End S_buffer_fifo_BufferProofs.
Print Assumptions C02_buffer_fifo.

(* from Async.DelayProofs *)
Section S_delay_fifo_DelayProofs.
Import SZ.Async.DelayProofs.
Theorem C02_delay_fifo : forall (interval : Z) (sync : bool) (acts : list act) (s : nm_state Delay.delay_model) (outs : list (list (Z * val * list mdi) * list nat)), run_steps Delay.delay_model (Delay.d_init interval sync) acts = (s, outs) -> deliv_items (all_deliv outs) ++ d_pending s = ins_of acts.
Proof. exact (@delay_fifo). Qed.
End S_delay_fifo_DelayProofs.
Print Assumptions C02_delay_fifo.

(* from Async.RateLimitProofs *)
Section S_rl_fifo_RateLimitProofs.
Import SZ.Async.RateLimitProofs.
Theorem C02_rl_fifo : forall (i : Z) (sync : bool) (acts : list act) (s : RateLimit.rst) (outs : list (list (Z * val * list mdi) * list nat)), (0 < i)%Z -> run_steps RateLimit.rate_limit_model (RateLimit.r_init i sync) acts = (s, outs) -> deliv_items (all_deliv outs) ++ r_pending s = ins_of acts.
Proof. exact (@rl_fifo). Qed.
End S_rl_fifo_RateLimitProofs.
Print Assumptions C02_rl_fifo.

(* from Async.MapAsyncProofs *)
Section S_map_async_order_MapAsyncProofs.
Import SZ.Async.MapAsyncProofs.
Theorem C02_map_async_order : forall (p : nat) (sync : bool) (acts : list act) (s : nm_state MapAsync.map_async_model) (outs : list (list (Z * val * list mdi) * list nat)), run_steps MapAsync.map_async_model (MapAsync.m_init p sync) acts = (s, outs) -> deliv_items (all_deliv outs) = map (fun xm : val * list mdi => (MapAsync.task_result (fst xm), snd xm)) (firstn (length (all_deliv outs)) (ins_of acts)).
Proof. exact (@map_async_order). Qed.
End S_map_async_order_MapAsyncProofs.
Print Assumptions C02_map_async_order.

(* from Async.TimedWindowProofs *)
Section S_tw_conserve_TimedWindowProofs.
Import SZ.Async.TimedWindowProofs.
Theorem C02_tw_conserve : forall (i : Z) (sync : bool) (uniq : option ((val -> val) * bool)) (acts : list act) (s : TimedWindow.wst) (outs : list (list (Z * val * list mdi) * list nat)), (0 < i)%Z -> run_steps TimedWindow.timed_window_model (fst (TimedWindow.w_init i sync uniq)) acts = (s, outs) -> uniq = None -> flat_map (fun d : Z * val * list mdi => batch_items (snd (fst d))) (all_deliv (snd (TimedWindow.w_init i sync uniq) :: outs)) ++ map fst (w_items s) = map fst (ins_of acts) /\ flat_map snd (all_deliv (snd (TimedWindow.w_init i sync uniq) :: outs)) ++ flat_map snd (w_items s) = flat_map snd (ins_of acts).
Proof. exact (@tw_conserve). Qed.
End S_tw_conserve_TimedWindowProofs.
Print Assumptions C02_tw_conserve.

(* from Async.TimedWindowProofs *)
Section S_tw_unique_keys_TimedWindowProofs.
Import SZ.Async.TimedWindowProofs.
Theorem C02_tw_unique_keys : forall (i : Z) (sync : bool) (uniq : option ((val -> val) * bool)) (acts : list act) (s : TimedWindow.wst) (outs : list (list (Z * val * list mdi) * list nat)), (0 < i)%Z -> run_steps TimedWindow.timed_window_model (fst (TimedWindow.w_init i sync uniq)) acts = (s, outs) -> forall (key : val -> val) (keep : bool), uniq = Some (key, keep) -> Forall (fun d : Z * val * list mdi => NoDup (map key (batch_items (snd (fst d))))) (all_deliv (snd (TimedWindow.w_init i sync uniq) :: outs)) /\ NoDup (map key (map fst (w_items s))).
Proof. exact (@tw_unique_keys). Qed.
End S_tw_unique_keys_TimedWindowProofs.
Print Assumptions C02_tw_unique_keys.

(* from Async.PartitionTOProofs *)
Section S_partition_conserve_PartitionTOProofs.
Import SZ.Async.PartitionTOProofs.
Theorem C02_partition_conserve : forall (n : nat) (to : option Z) (key : option (val -> val)) (sync : bool) (acts : list act) (s : PartitionTO.pst) (outs : list (list (Z * val * list mdi) * list nat)), 1 <= n -> (forall t : Z, to = Some t -> (0 < t)%Z) -> run_steps PartitionTO.partition_model (PartitionTO.p_init n to key sync) acts = (s, outs) -> key = None -> flat_map (fun d : Z * val * list mdi => tuple_items (snd (fst d))) (all_deliv outs) ++ p_items s = map fst (ins_of acts).
Proof. exact (@partition_conserve). Qed.
End S_partition_conserve_PartitionTOProofs.
Print Assumptions C02_partition_conserve.

(* from Async.ZipBPProofs *)
Section S_zip_pairs_partial_ZipBPProofs.
Import SZ.Async.ZipBPProofs.
Theorem C02_zip_pairs_partial : forall (mx : nat) (sync : bool) (acts : list act) (s : nm_state ZipBP.zip_model) (outs : list (list (Z * val * list mdi) * list nat)), Forall src_ok acts -> run_steps ZipBP.zip_model (ZipBP.z_init mx sync) acts = (s, outs) -> let k := length (all_deliv outs) in map (fun d : Z * val * list mdi => snd (fst d)) (all_deliv outs) = map (fun p : val * list mdi * (val * list mdi) => VTup [fst (fst p); fst (snd p)]) (combine (firstn k (ins_src 0 acts)) (firstn k (ins_src 1 acts))) /\ ZipBP.z_a s = skipn k (ins_src 0 acts) /\ ZipBP.z_b s = skipn k (ins_src 1 acts) /\ (ZipBP.z_a s = [] \/ ZipBP.z_b s = []).
Proof. exact (@zip_pairs_partial). Qed.
End S_zip_pairs_partial_ZipBPProofs.
Print Assumptions C02_zip_pairs_partial.

(* from Async.ZipBPProofs *)
Section S_zip_pairs_md_ZipBPProofs.
Import SZ.Async.ZipBPProofs.
Theorem C02_zip_pairs_md : forall (mx : nat) (sync : bool) (acts : list act) (s : nm_state ZipBP.zip_model) (outs : list (list (Z * val * list mdi) * list nat)), Forall src_ok acts -> run_steps ZipBP.zip_model (ZipBP.z_init mx sync) acts = (s, outs) -> let k := length (all_deliv outs) in map snd (all_deliv outs) = map (fun p : val * list mdi * (val * list mdi) => snd (fst p) ++ snd (snd p)) (combine (firstn k (ins_src 0 acts)) (firstn k (ins_src 1 acts))).
Proof. exact (@zip_pairs_md). Qed.
End S_zip_pairs_md_ZipBPProofs.
Print Assumptions C02_zip_pairs_md.

(* from Async.Compose *)
Section S_chain_prefix_Compose.
Import SZ.Async.Compose.
Theorem C02_chain_prefix : forall (A B C : Type) (f : list A -> list B) (g : list B -> list C) (ins : list A) (mid : list B) (outs : list C), monotone g -> prefix mid (f ins) -> prefix outs (g mid) -> prefix outs (g (f ins)).
Proof. exact (@chain_prefix). Qed.
End S_chain_prefix_Compose.
Print Assumptions C02_chain_prefix.

(* from Async.Compose *)
Section S_chain_complete_Compose.
Import SZ.Async.Compose.
Theorem C02_chain_complete : forall (A B C : Type) (f : list A -> list B) (g : list B -> list C) (ins : list A) (mid : list B) (outs : list C), mid = f ins -> outs = g mid -> outs = g (f ins).
Proof. exact (@chain_complete). Qed.
End S_chain_complete_Compose.
Print Assumptions C02_chain_complete.

