(* C16 — failures reach the emitter, keep node state intact, are never checkpointed. *)
From Coq Require Import List ZArith Bool Arith.
From SZ Require Import Base.Values Sync.Nodes Sync.Pipeline Sync.PushSpec Sync.Dataflow Sync.Faults.
Import ListNotations.

(* a normal return of emit means no user function raised anywhere in the cascade
   (contrapositive: any raising user function makes emit raise) *)
Theorem C16_exn_reaches_emit : forall g fuel depth n w x m w',
  wf_dag g -> WF g w -> push fuel g depth n w x m = (w', SOk) ->
  exists new, log w' = rev new ++ log w /\
    forall d, fold_ok (nkind (gnode g d)) (nst w d) (arr g new d) = true.
Proof. exact exn_reaches_emit. Qed.
Print Assumptions C16_exn_reaches_emit.

Theorem C16_run_ok_no_failure : forall g evs w,
  wf_dag g -> emit_only g evs -> exec g evs = (w, SOk) ->
  forall d, fold_ok (nkind (gnode g d)) (init_st g d) (arr g (rev (log w)) d) = true.
Proof. exact run_ok_no_failure. Qed.

(* the raising call changes no node state, no counter and schedules no callback *)
Theorem C16_failing_call_changes_nothing : forall emitfrom g depth n x m w d,
  update (nkind (gnode g d)) (nst w d) (index_of n (ups (gnode g d))) x m = None ->
  is_coroutine (nkind (gnode g d)) = false ->
  let '(w', s) := deliver emitfrom g depth n x m (w, SOk) d in
  s = SRaise /\ sts w' = sts w /\ (forall r, cnt w' r = cnt w r) /\ fired w' = fired w.
Proof. exact failing_call_changes_nothing. Qed.
Print Assumptions C16_failing_call_changes_nothing.

(* later elements are processed as if the failing element had not been offered to that node *)
Theorem C16_later_as_if_not_offered : forall k s a l,
  update k s (fst (fst a)) (snd (fst a)) (snd a) = None ->
  fold_state k s (a :: l) = fold_state k s l /\ fold_outs k s (a :: l) = fold_outs k s l.
Proof. exact later_as_if_not_offered. Qed.

(* never checkpointed: in a directly connected pipeline an emit that raises leaves every counter of
   the failed element >= 1 and has not scheduled its callback; and no later emit ever schedules it *)
Theorem C16_cb_never_for_failed : forall g fuel n w x m w' r,
  direct_graph g -> (0 <= cnt w r)%Z -> (1 <= occ_ref m r)%Z ->
  push fuel g 0 n w x m = (w', SRaise) ->
  (1 <= cnt w' r)%Z /\ nfired w' r = nfired w r.
Proof. exact cb_never_for_failed. Qed.
Print Assumptions C16_cb_never_for_failed.

Theorem C16_failed_stays_unfired : forall g fuel n w x m w' s r,
  direct_graph g -> (1 <= cnt w r)%Z -> push fuel g 0 n w x m = (w', s) ->
  (1 <= cnt w' r)%Z /\ nfired w' r = nfired w r.
Proof. exact failed_stays_unfired. Qed.
Print Assumptions C16_failed_stays_unfired.

Definition ex16_g : graph :=
  [ {| nkind := KSource; ups := [] |};
    {| nkind := KAccum (interp2 (BFailIn [3%Z] BAdd)) (Some (VInt 0%Z)) false false; ups := [0] |};
    {| nkind := KSink (fun _ => Some tt); ups := [1] |};
    {| nkind := KSink (fun _ => Some tt); ups := [0] |} ].
Example C16_nonvacuous :
  let w0 := init_world ex16_g in
  let '(w1, s1) := push 5 ex16_g 0 0 w0 (VInt 2%Z) [{| mid := 0; mref := true |}] in
  let '(w2, s2) := push 5 ex16_g 0 0 w1 (VInt 3%Z) [{| mid := 1; mref := true |}] in
  let '(w3, s3) := push 5 ex16_g 0 0 w2 (VInt 4%Z) [{| mid := 2; mref := true |}] in
  s1 = SOk /\ s2 = SRaise /\ s3 = SOk /\ st_acc (nst w3 1) = Some (VInt 6%Z) /\
  cnt w3 1 = 2%Z /\ fired w3 = [0; 2].
Proof. vm_compute. repeat split; reflexivity. Qed.

(* ---- _emit bridges (harness/mkprops_emit.py): begin ---- *)
(* Stream._emit, Stream._retain_refs and Stream._release_refs are the ones regenerated from the source under test on this
   run: Gen/KN__refs.v and Gen/KN__emit.v are written by harness/gen_emit.py from the python AST of streamz/core.py,
   statement by statement, in the world-level monad of Base/MiniPyW.v (an exception raised by `downstream.update` unwinds
   the loop; the returned list of awaitables is represented by the status only).  Base/BridgeEmit.v proves that they are
   the model's retain / release / push: `downstream.update` is the parameter call_update (log the call, evaluate the node's
   update, run its action list with the recursive push), `self.downstreams` is read through the model's downs, one turn
   of the loop is the model's hand (the test `downstream not in self.downstreams` is attached: membership in downs of the
   world at the time of the test; a child that left since the snapshot is not called and the reference retained for it is
   released), and the model's deliver is the call followed by the release - unless the call unwinds. *)
From SZ Require Import Base.MiniPyW Base.BridgeEmit.
Theorem C16_emit_matches_source :
  forall fuel g depth n w x m,
  push (S fuel) g depth n w x m =
  Gen.KN__emit.gen_emit (fun w => downs g w n) (call_update_of fuel g depth n) w x m.
Proof. exact bridge_emit. Qed.
Print Assumptions C16_emit_matches_source.
Theorem C16_emit_matches_source_any_callee :
  forall emitfrom g depth n w x m,
  (let ds := downs g w n in
   fold_left (hand emitfrom g depth n x m) ds (retain w m (Z.of_nat (length ds)), SOk)) =
  Gen.KN__emit.gen_emit (fun w => downs g w n) (call_update emitfrom g depth n) w x m.
Proof. exact bridge_emit_gen. Qed.
Print Assumptions C16_emit_matches_source_any_callee.
Theorem C16_deliver_is_call_then_release :
  forall emitfrom g depth n x m w s d, status_go s = true ->
  deliver emitfrom g depth n x m (w, s) d =
  let '(w', s') := call_update emitfrom g depth n d w x m in
  if status_go s' then (release w' m 1, status_join s s') else (w', s').
Proof. exact deliver_call_release. Qed.
Print Assumptions C16_deliver_is_call_then_release.
Theorem C16_deliver_skipped_after_unwinding :
  forall emitfrom g depth n x m w s d, status_go s = false -> deliver emitfrom g depth n x m (w, s) d = (w, s).
Proof. exact deliver_stop. Qed.
Print Assumptions C16_deliver_skipped_after_unwinding.
Theorem C16_turn_is_hand_over_when_still_attached :
  forall emitfrom g depth n x m w s d, attached g w n d = true ->
  hand emitfrom g depth n x m (w, s) d = deliver emitfrom g depth n x m (w, s) d.
Proof. exact hand_attached. Qed.
Print Assumptions C16_turn_is_hand_over_when_still_attached.
Theorem C16_turn_only_releases_when_detached :
  forall emitfrom g depth n x m w s d, status_go s = true -> attached g w n d = false ->
  hand emitfrom g depth n x m (w, s) d = (release w m 1, s).
Proof. exact hand_gone. Qed.
Print Assumptions C16_turn_only_releases_when_detached.
Theorem C16_turn_skipped_after_unwinding :
  forall emitfrom g depth n x m w s d, status_go s = false -> hand emitfrom g depth n x m (w, s) d = (w, s).
Proof. exact hand_stop. Qed.
Print Assumptions C16_turn_skipped_after_unwinding.
Theorem C16_coroutine_call_never_unwinds_with_exception :
  forall emitfrom g depth n d w x m, is_coroutine (nkind (gnode g d)) = true ->
  snd (call_update emitfrom g depth n d w x m) <> SRaise.
Proof. exact call_update_coroutine. Qed.
Print Assumptions C16_coroutine_call_never_unwinds_with_exception.
(* ---- _emit bridges (harness/mkprops_emit.py): end ---- *)

(* ---- generated by harness/mkprops_sync.py: begin ---- *)
From SZ Require Sync.Feedback.
From SZ Require Sync.RefCount.
Section G_state_first_ok.
Import SZ.Sync.RefCount.
Import SZ.Sync.Feedback.
Theorem C16_state_first_ok : forall k : kind, state_first_kindb k = true -> state_first k.
Proof. exact (@state_first_ok). Qed.
End G_state_first_ok.
Print Assumptions C16_state_first_ok.
Section G_push_state_fold_any_graph.
Import SZ.Sync.RefCount.
Import SZ.Sync.Feedback.
Theorem C16_push_state_fold_any_graph : forall (g : list node) (fuel depth n : nat) (w : world) (x : val) (m : list mdi) (w' : world) (st : status), length (sts w) = length g -> push fuel g depth n w x m = (w', st) -> exists new : list entry, log w' = rev new ++ log w /\ length (sts w') = length g /\ (forall e : entry, In e new -> is_down g (e_src e) (e_dst e) = true /\ depth <= e_depth e) /\ (forall d : nat, d < length g -> state_first (nkind (gnode g d)) -> nst w' d = fold_state (nkind (gnode g d)) (nst w d) (arr g new d)).
Proof. exact (@push_state_fold_any_graph). Qed.
End G_push_state_fold_any_graph.
Print Assumptions C16_push_state_fold_any_graph.
(* ---- generated by harness/mkprops_sync.py: end ---- *)
