(* C06 — streaming dataframe aggregations equal pandas on everything seen so far.
   Only statements closed by `exact`; models in DF/{Frames,Agg,GroupBy}.v, proofs in DF/{AggProofs,GroupByProofs,AggExpr}.v.

   Reading guide: `bs` is ANY list of batches (any sizes, empty batches anywhere, NaN cells, NaN / repeated /
   vanishing keys); `emitted (run ...) k` is what the sink receives after the k-th batch; the right-hand sides are
   the pandas mini-model (DF/Frames.v) applied to `concat (firstn k bs)`.  `repaired` / `as_found` select the
   behaviour of Mean's scalar `counts = 1` branch and of Var's Python-int 0/0 (see DF/Agg.v). *)
From Coq Require Import List ZArith QArith Qcanon Bool Arith.
From SZ Require Import DF.Frames.
From SZ Require Import DF.Agg.
From SZ Require Import DF.GroupBy.
From SZ Require Import DF.AggProofs.
From SZ Require Import DF.GroupByProofs.
From SZ Require Import DF.AggExpr.
Import ListNotations.
Close Scope Qc_scope. Close Scope Q_scope. Close Scope Z_scope. Open Scope nat_scope.

Section Statements.
Variable bs : list frame.
Variable k : nat.
Hypothesis Hk : 1 <= k <= length bs.
Hypothesis Hrows : concat (firstn k bs) <> [].
Let P := concat (firstn k bs).

(* ---- reductions on a streaming Series (column c) ---- *)
Theorem C06_series_sum c : emitted (run (accumulator (sum_s c)) None bs) k = Some (psum (col c P)).
Proof. exact (sum_s_prefix bs k Hk Hrows c). Qed.
Theorem C06_series_count c : emitted (run (accumulator (count_s c)) None bs) k = Some (pcount (col c P)).
Proof. exact (count_s_prefix bs k Hk Hrows c). Qed.
Theorem C06_series_size c : emitted (run (accumulator (size_s c)) None bs) k = Some (psize (col c P)).
Proof. exact (size_s_prefix bs k Hk Hrows c). Qed.
Theorem C06_series_mean c : emitted (run (accumulator (mean_s c repaired)) None bs) k = Some (pmean (col c P)).
Proof. exact (mean_s_prefix bs k Hk Hrows c). Qed.
(* ---- reductions on a streaming DataFrame (columns cs): one statistic per column ---- *)
Theorem C06_frame_sum cs : emitted (run (accumulator (sum_v cs)) None bs) k = Some (per cs psum P).
Proof. exact (sum_v_prefix bs k Hk Hrows cs). Qed.
Theorem C06_frame_count cs : emitted (run (accumulator (count_v cs)) None bs) k = Some (per cs pcount P).
Proof. exact (count_v_prefix bs k Hk Hrows cs). Qed.
Theorem C06_frame_size cs : emitted (run (accumulator (size_v cs)) None bs) k = Some (fsize cs P).
Proof. exact (size_v_prefix bs k Hk Hrows cs). Qed.
Theorem C06_frame_mean cs : emitted (run (accumulator (mean_v cs)) None bs) k = Some (per cs pmean P).
Proof. exact (mean_v_prefix bs k Hk Hrows cs). Qed.

(* ---- var / std (expanding()): state = exact sufficient statistics, value = pandas var(ddof), ddof in {0,1};
        holds for BOTH variants: the as-found ZeroDivisionError can only hit an empty prefix ---- *)
Theorem C06_var_state c v ddof :
  exists dfs py, nth_error (run (window_accumulator_expanding (var_s c v ddof)) None bs) (k - 1)
    = Some (Some ((dfs, (psum (col c P), psumsq (col c P), pcount (col c P), py)),
                  compute_result ddof (psum (col c P)) (psumsq (col c P)) (pcount (col c P))))
    /\ concat dfs = P.
Proof. exact (var_s_state_prefix bs k Hk Hrows c v ddof). Qed.
Theorem C06_series_var c v ddof : (0 <= ddof <= 1)%Z ->
  emitted (run (window_accumulator_expanding (var_s c v ddof)) None bs) k = Some (pvar ddof (col c P)).
Proof. exact (var_s_prefix bs k Hk Hrows c v ddof). Qed.
Theorem C06_frame_var cs ddof : (0 <= ddof <= 1)%Z ->
  emitted (run (window_accumulator_expanding (var_v cs ddof)) None bs) k = Some (per cs (pvar ddof) P).
Proof. exact (var_v_prefix bs k Hk Hrows cs ddof). Qed.
Theorem C06_expanding_mean c : emitted (run (window_accumulator_expanding (mean_s c repaired)) None bs) k = Some (pmean (col c P)).
Proof. exact (exp_mean_s_prefix bs k Hk Hrows c). Qed.
Theorem C06_expanding_sum c : emitted (run (window_accumulator_expanding (sum_s c)) None bs) k = Some (psum (col c P)).
Proof. exact (exp_sum_s_prefix bs k Hk Hrows c). Qed.
Theorem C06_expanding_count c : emitted (run (window_accumulator_expanding (count_s c)) None bs) k = Some (pcount (col c P)).
Proof. exact (exp_count_s_prefix bs k Hk Hrows c). Qed.

(* ---- value_counts and groupby, grouper given as a column (GCol) or as a streaming Series (GSer) ---- *)
Theorem C06_value_counts : emitted (run (accumulator value_counts_agg) None bs) k = Some (pvalue_counts P).
Proof. exact (value_counts_prefix bs k Hk Hrows). Qed.
Theorem C06_groupby_sum gs c : emitted (grun gs (gsum c) None bs) k = Some (pgsum c P).
Proof. exact (gsum_prefix gs c bs k Hk Hrows). Qed.
Theorem C06_groupby_count gs c : emitted (grun gs (gcount c) None bs) k = Some (pgcount c P).
Proof. exact (gcount_prefix gs c bs k Hk Hrows). Qed.
Theorem C06_groupby_size gs : emitted (grun gs gsize None bs) k = Some (pgsize P).
Proof. exact (gsize_prefix gs bs k Hk Hrows). Qed.
Theorem C06_groupby_mean gs c : emitted (grun gs (gmean c) None bs) k = Some (pgmean c P).
Proof. exact (gmean_prefix gs c bs k Hk Hrows). Qed.
Theorem C06_groupby_var_state gs c ddof :
  nth_error (grun gs (gvar c ddof) None bs) (k - 1)
    = Some (Some ((pgsum c P, pgsumsq c P, pgcount c P), gvar_res c ddof P)).
Proof. exact (gvar_state_prefix gs c bs k Hk Hrows ddof). Qed.
Theorem C06_groupby_var gs c ddof : (0 <= ddof <= 1)%Z ->
  emitted (grun gs (gvar c ddof) None bs) k = Some (pgvar ddof c P).
Proof. exact (gvar_prefix gs c bs k Hk Hrows ddof). Qed.
End Statements.

Print Assumptions C06_series_sum.
Print Assumptions C06_series_count.
Print Assumptions C06_series_size.
Print Assumptions C06_series_mean.
Print Assumptions C06_frame_sum.
Print Assumptions C06_frame_count.
Print Assumptions C06_frame_size.
Print Assumptions C06_frame_mean.
Print Assumptions C06_var_state.
Print Assumptions C06_series_var.
Print Assumptions C06_frame_var.
Print Assumptions C06_expanding_mean.
Print Assumptions C06_expanding_sum.
Print Assumptions C06_expanding_count.
Print Assumptions C06_value_counts.
Print Assumptions C06_groupby_sum.
Print Assumptions C06_groupby_count.
Print Assumptions C06_groupby_size.
Print Assumptions C06_groupby_mean.
Print Assumptions C06_groupby_var_state.
Print Assumptions C06_groupby_var.

(* _compute_result on the sufficient statistics IS the textbook variance sum((x - mean)^2)/(n - ddof) *)
Theorem C06_var_formula_textbook : forall ddof s, (0 <= ddof <= 1)%Z ->
  compute_result ddof (psum s) (psumsq s) (pcount s) = pvar ddof s.
Proof. exact compute_result_textbook. Qed.
Print Assumptions C06_var_formula_textbook.

(* groupby output: each non-NaN key of the prefix exactly once, sorted (keys that vanish from later batches stay) *)
Theorem C06_groupby_keys : forall (A : Type) (agg : frame -> A) f,
  ssorted (map fst (pgroupby agg f)) /\ forall x, In x (map fst (pgroupby agg f)) <-> In x (keys_of f).
Proof. exact @pgroupby_keys. Qed.
Print Assumptions C06_groupby_keys.

(* an upstream boolean filter: the batches the aggregation sees concatenate to the filtered table, so all theorems
   above apply to `map (pfilter_gt c t) bs` with pandas evaluated on the filtered prefix *)
Theorem C06_filtered_prefix : forall c t (bs : list frame) k,
  concat (firstn k (map (pfilter_gt c t) bs)) = pfilter_gt c t (concat (firstn k bs)).
Proof. exact filtered_prefix. Qed.
Print Assumptions C06_filtered_prefix.

(* elementwise expressions: per batch what pandas yields on that batch; pieces concatenate to pandas on the table *)
Theorem C06_elementwise_per_batch : forall e bs, seval e bs = map (peval e) bs.
Proof. exact elementwise_per_batch. Qed.
Theorem C06_elementwise_concat : forall e bs, concat (seval e bs) = peval e (concat bs).
Proof. exact elementwise_concat. Qed.
Theorem C06_filter_per_batch : forall (p : row -> bool) (bs : list frame),
  concat (map (filter p) bs) = filter p (concat bs).
Proof. exact filter_per_batch. Qed.
Print Assumptions C06_elementwise_per_batch.
Print Assumptions C06_elementwise_concat.
Print Assumptions C06_filter_per_batch.

(* ---- the defects of the tree as found ---- *)
(* Series.mean(): an empty first batch stores counts = 1 into the state: mean of {1, 3} comes out as 4/3 *)
Theorem C06_mean_empty_first_refuted :
  exists bs k, 1 <= k <= length bs /\ concat (firstn k bs) <> [] /\
    emitted (run (accumulator (mean_s 0 as_found)) None bs) k <> Some (pmean (col 0 (concat (firstn k bs)))).
Proof. exact mean_empty_first_refuted. Qed.
(* ... and an all-NaN prefix gives 0 where pandas gives NaN *)
Theorem C06_mean_all_nan_refuted :
  exists bs k, 1 <= k <= length bs /\ concat (firstn k bs) <> [] /\
    emitted (run (accumulator (mean_s 0 as_found)) None bs) k <> Some (pmean (col 0 (concat (firstn k bs)))).
Proof. exact mean_all_nan_refuted. Qed.
(* as found, Series.mean() is right whenever the first batch already holds a non-NaN value *)
Theorem C06_mean_asfound_partial : forall c (b0 : frame) (bs : list frame) k,
  (0 < pcount (col c b0))%Z -> 1 <= k <= length (b0 :: bs) ->
  emitted (run (accumulator (mean_s c as_found)) None (b0 :: bs)) k
    = Some (pmean (col c (concat (firstn k (b0 :: bs))))).
Proof. exact mean_s_asfound_partial. Qed.
(* expanding().x.var(): as found, an empty first batch raises (no emission); repaired, it emits *)
Theorem C06_var_empty_first_raises :
  run (window_accumulator_expanding (var_s 0 as_found 1)) None [[]] = [None]
  /\ exists r, run (window_accumulator_expanding (var_s 0 repaired 1)) None [[]] = [Some r].
Proof. exact var_empty_first_raises. Qed.
Print Assumptions C06_mean_empty_first_refuted.
Print Assumptions C06_mean_all_nan_refuted.
Print Assumptions C06_mean_asfound_partial.
Print Assumptions C06_var_empty_first_raises.

(* ---- non-vacuity: a concrete table with NaNs, colliding / vanishing / NaN keys, split with empty batches ---- *)
Definition ex_r (s : Z) (k : option Z) (x y : option Qc) : row := mkrow s k [x; y].
Definition ex_bs : list frame :=
  [ [];
    [ex_r 0 (Some 3%Z) (Some (mkq 4 1)) None; ex_r 1 (Some 1%Z) None (Some (mkq 2 1))];
    [];
    [ex_r 2 (Some 1%Z) (Some (mkq 1 1)) (Some (mkq 3 1)); ex_r 3 None (Some (mkq 2 1)) (Some (mkq 2 1));
     ex_r 4 (Some 2%Z) (Some (mkq 7 1)) None] ].
Example C06_nonvacuous :
  (1 <= 4 <= length ex_bs) /\ concat (firstn 4 ex_bs) <> [] /\
  emitted (run (accumulator (mean_s 0 repaired)) None ex_bs) 4 = Some (Some (mkq 7 2)) /\
  emitted (grun GSer (gmean 0) None ex_bs) 4 = Some [(1%Z, Some (mkq 1 1)); (2%Z, Some (mkq 7 1)); (3%Z, Some (mkq 4 1))] /\
  emitted (grun GCol (gcount 1) None ex_bs) 4 = Some [(1%Z, 2%Z); (2%Z, 0%Z); (3%Z, 0%Z)] /\
  emitted (run (window_accumulator_expanding (var_s 0 as_found 1)) None ex_bs) 4 = Some (Some (mkq 7 1)) /\
  emitted (run (accumulator (mean_s 0 as_found)) None ex_bs) 4 = Some (Some (mkq 14 5)).
Proof.
  split; [cbn; auto with arith|]. split; [discriminate|].
  repeat split; vm_compute; repeat (first [reflexivity | apply Qc_is_canon; reflexivity | f_equal]).
Qed.

(* ---- aggregation bridges (harness/mkprops_aggs.py): begin ---- *)
(* The aggregation classes are the ones regenerated from the source under test on this run: Gen/KA_<class>.v is written by
   harness/gen_aggs.py from the python AST of streamz/dataframe/aggregations.py (symbolic execution over an abstract pandas
   interface, Base/AggPrims.v; the mapping of the pandas primitives is printed into every generated file).
   Base/BridgeAggs.v (streaming Series: statistics are numbers) and Base/BridgeAggsVec.v (streaming DataFrame: one
   statistic per column) prove that, with the interface instantiated by DF/Frames.v, they are the fields of the
   aggregation records of DF/Agg.v, repaired variant.  f2o: a float result as option Qc (NaN and the infinities are None);
   var_py: the model's extra state component "still the python ints of `initial`". *)
From SZ Require Import Base.AggPrims Base.BridgeAggs Base.BridgeAggsVec.
From SZ Require Gen.KA_Sum Gen.KA_Count Gen.KA_Size Gen.KA_Mean Gen.KA_Var Gen.KA_Accumulator.
Theorem C06_bridge_Sum :
  (* sum_on_new *)
  (forall c acc new, Some (Gen.KA_Sum.gen_sum_on_new (frames_ops c) acc new) = Agg.on_new (sum_s c) acc new) /\
  (* sum_on_old *)
  (forall c acc old, Some (Gen.KA_Sum.gen_sum_on_old (frames_ops c) acc old) = Agg.on_old (sum_s c) acc old) /\
  (* sum_initial *)
  (forall c new, Gen.KA_Sum.gen_sum_initial (frames_ops c) new = Agg.initial (sum_s c) new) /\
  (* sum_on_new_v *)
  (forall cs acc new, Some (Gen.KA_Sum.gen_sum_on_new_v (frames_vops cs) acc new) = Agg.on_new (sum_v cs) acc new) /\
  (* sum_on_old_v *)
  (forall cs acc old, Some (Gen.KA_Sum.gen_sum_on_old_v (frames_vops cs) acc old) = Agg.on_old (sum_v cs) acc old) /\
  (* sum_initial_v *)
  (forall cs new, Gen.KA_Sum.gen_sum_initial_v (frames_vops cs) new = Agg.initial (sum_v cs) new).
Proof. exact (conj bridge_sum_on_new (conj bridge_sum_on_old (conj bridge_sum_initial (conj bridge_sum_on_new_v (conj bridge_sum_on_old_v bridge_sum_initial_v))))). Qed.
Print Assumptions C06_bridge_Sum.
Theorem C06_bridge_Count :
  (* count_on_new *)
  (forall c acc new, Some (Gen.KA_Count.gen_count_on_new (frames_ops c) acc new) = Agg.on_new (count_s c) acc new) /\
  (* count_on_old *)
  (forall c acc old, Some (Gen.KA_Count.gen_count_on_old (frames_ops c) acc old) = Agg.on_old (count_s c) acc old) /\
  (* count_initial *)
  (forall c new, Gen.KA_Count.gen_count_initial (frames_ops c) new = Agg.initial (count_s c) new) /\
  (* count_on_new_v *)
  (forall cs acc new, Some (Gen.KA_Count.gen_count_on_new_v (frames_vops cs) acc new) = Agg.on_new (count_v cs) acc new) /\
  (* count_on_old_v *)
  (forall cs acc old, Some (Gen.KA_Count.gen_count_on_old_v (frames_vops cs) acc old) = Agg.on_old (count_v cs) acc old) /\
  (* count_initial_v *)
  (forall cs new, Gen.KA_Count.gen_count_initial_v (frames_vops cs) new = Agg.initial (count_v cs) new).
Proof. exact (conj bridge_count_on_new (conj bridge_count_on_old (conj bridge_count_initial (conj bridge_count_on_new_v (conj bridge_count_on_old_v bridge_count_initial_v))))). Qed.
Print Assumptions C06_bridge_Count.
Theorem C06_bridge_Size :
  (* size_on_new *)
  (forall c acc new, Some (Gen.KA_Size.gen_size_on_new (frames_ops c) acc new) = Agg.on_new (size_s c) acc new) /\
  (* size_on_old *)
  (forall c acc old, Some (Gen.KA_Size.gen_size_on_old (frames_ops c) acc old) = Agg.on_old (size_s c) acc old) /\
  (* size_initial *)
  (forall c new, Gen.KA_Size.gen_size_initial (frames_ops c) new = Agg.initial (size_s c) new) /\
  (* size_on_new_v *)
  (forall cs acc new, Some (Gen.KA_Size.gen_size_on_new_v (frames_vops cs) acc new) = Agg.on_new (size_v cs) acc new) /\
  (* size_on_old_v *)
  (forall cs acc old, Some (Gen.KA_Size.gen_size_on_old_v (frames_vops cs) acc old) = Agg.on_old (size_v cs) acc old) /\
  (* size_initial_v *)
  (forall cs new, Gen.KA_Size.gen_size_initial_v (frames_vops cs) new = Agg.initial (size_v cs) new).
Proof. exact (conj bridge_size_on_new (conj bridge_size_on_old (conj bridge_size_initial (conj bridge_size_on_new_v (conj bridge_size_on_old_v bridge_size_initial_v))))). Qed.
Print Assumptions C06_bridge_Size.
Theorem C06_bridge_Mean :
  (* divide *)
  (forall c totals counts, f2o (Gen.KA_Mean.gen_divide (frames_ops c) totals counts) = qdivz totals counts) /\
  (* mean_on_new *)
  (forall c acc new, Some (res_o (Gen.KA_Mean.gen_mean_on_new (frames_ops c) acc new)) = Agg.on_new (mean_s c repaired) acc new) /\
  (* mean_on_old *)
  (forall c acc old, Some (res_o (Gen.KA_Mean.gen_mean_on_old (frames_ops c) acc old)) = Agg.on_old (mean_s c repaired) acc old) /\
  (* mean_initial *)
  (forall c new, Gen.KA_Mean.gen_mean_initial (frames_ops c) new = Agg.initial (mean_s c repaired) new) /\
  (* divide_v *)
  (forall cs totals counts, map f2o (Gen.KA_Mean.gen_divide_v (frames_vops cs) totals counts) = zipw qdivz totals counts) /\
  (* mean_on_new_v *)
  (forall cs acc new, Some (res_vo (Gen.KA_Mean.gen_mean_on_new_v (frames_vops cs) acc new)) = Agg.on_new (mean_v cs) acc new) /\
  (* mean_on_old_v *)
  (forall cs acc old, Some (res_vo (Gen.KA_Mean.gen_mean_on_old_v (frames_vops cs) acc old)) = Agg.on_old (mean_v cs) acc old) /\
  (* mean_initial_v *)
  (forall cs new, Gen.KA_Mean.gen_mean_initial_v (frames_vops cs) new = Agg.initial (mean_v cs) new).
Proof. exact (conj bridge_divide (conj bridge_mean_on_new (conj bridge_mean_on_old (conj bridge_mean_initial (conj bridge_divide_v (conj bridge_mean_on_new_v (conj bridge_mean_on_old_v bridge_mean_initial_v))))))). Qed.
Print Assumptions C06_bridge_Mean.
Theorem C06_bridge_Var :
  (* var_compute_result *)
  (forall c ddof x x2 n, f2o (Gen.KA_Var.gen_var_compute_result (frames_ops c) ddof x x2 n) = compute_result ddof x x2 n) /\
  (* var_on_new *)
  (forall c ddof x x2 n py new,
   Some (let p := Gen.KA_Var.gen_var_on_new (frames_ops c) ddof (x, x2, n) new in ((fst p, var_py py new), f2o (snd p)))
   = Agg.on_new (var_s c repaired ddof) (x, x2, n, py) new) /\
  (* var_on_old *)
  (forall c ddof x x2 n py old,
   Some (let p := Gen.KA_Var.gen_var_on_old (frames_ops c) ddof (x, x2, n) old in ((fst p, var_py py old), f2o (snd p)))
   = Agg.on_old (var_s c repaired ddof) (x, x2, n, py) old) /\
  (* var_initial *)
  (forall c ddof new, (Gen.KA_Var.gen_var_initial (frames_ops c) new, true) = Agg.initial (var_s c repaired ddof) new) /\
  (* var_compute_result_v *)
  (forall cs ddof x x2 n, map f2o (Gen.KA_Var.gen_var_compute_result_v (frames_vops cs) ddof x x2 n) = zipw3 (compute_result ddof) x x2 n) /\
  (* var_on_new_v *)
  (forall cs ddof acc new, Some (res_vo (Gen.KA_Var.gen_var_on_new_v (frames_vops cs) ddof acc new)) = Agg.on_new (var_v cs ddof) acc new) /\
  (* var_on_old_v *)
  (forall cs ddof acc old, Some (res_vo (Gen.KA_Var.gen_var_on_old_v (frames_vops cs) ddof acc old)) = Agg.on_old (var_v cs ddof) acc old) /\
  (* var_initial_v *)
  (forall cs ddof new, Gen.KA_Var.gen_var_initial_v (frames_vops cs) new = Agg.initial (var_v cs ddof) new).
Proof. exact (conj bridge_var_compute_result (conj bridge_var_on_new (conj bridge_var_on_old (conj bridge_var_initial (conj bridge_var_compute_result_v (conj bridge_var_on_new_v (conj bridge_var_on_old_v bridge_var_initial_v))))))). Qed.
Print Assumptions C06_bridge_Var.
Theorem C06_bridge_accumulator :
  (* accumulator *)
  (forall (S R : Type) (agg : aggregation S R) (f : S -> frame -> S * R),
   (forall s b, Agg.on_new agg s b = Some (f s b)) ->
   forall acc new, Some (Gen.KA_Accumulator.gen_accumulator (Agg.initial agg) f acc new) = accumulator agg acc new).
Proof. exact (@bridge_accumulator). Qed.
Print Assumptions C06_bridge_accumulator.
Theorem C06_bridge_diff :
  (* diff_expanding *)
  (forall c dfs new, Gen.KA_Accumulator.gen_diff_expanding (frames_ops c) dfs new = (if nonempty new then dfs ++ [new] else dfs, [])).
Proof. exact bridge_diff_expanding. Qed.
Print Assumptions C06_bridge_diff.
(* ---- aggregation bridges (harness/mkprops_aggs.py): end ---- *)
