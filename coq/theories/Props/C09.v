(* C09 — Kafka batches: gap-free offsets, commit after processing, at-least-once.
   Only statements closed by `exact`; model in Ext/KafkaBatched.v, proofs in Ext/KafkaBatchedProofs.v.

   `reach c s`    : s is the state after ANY broker contents followed by ANY list of events
                    Produce p n | AddPartition | Poll | BatchDone i | Crash   (crash possible after every event);
   `reach_io c s` : the same where every BatchDone respects per-partition emission order (the proviso);
   `infl s`       : the batches emitted by the current run (newest first), `dn s` those completely processed;
   `wf_cfg c`     : 0 <= low watermark;  `sound_refresh c` : refresh_partitions is off, or the repaired discovery
                    (new partitions take the group's committed offset) is in place. *)
From Coq Require Import List ZArith Bool Lia.
From SZ Require Import Ext.KafkaBatched.
From SZ Require Import Ext.KafkaBatchedProofs.
Import ListNotations.
Open Scope Z_scope.

(* the arithmetic of the inner loop body *)
Theorem C09_clamp : forall pos low high maxb fl r pos',
  kb_clamp pos low high maxb fl = (r, pos') ->
  let pos1 := if fl && (pos =? -1001) then high else pos in
  match r with
  | Some (lo, hi) => lo = Z.max pos1 low /\ lo <= hi /\ hi + 1 <= high /\ hi + 1 <= lo + maxb /\ pos' = hi + 1
                     /\ (hi + 1 = high \/ hi + 1 = lo + maxb)
  | None => pos' = pos1 /\ (high <= Z.max pos1 low \/ maxb <= 0)
  end.
Proof. exact kb_clamp_spec. Qed.
Print Assumptions C09_clamp.

(* contiguous, and the first range of a partition in a run starts at the committed offset / reset position *)
Theorem C09_ranges_contiguous : forall c s, wf_cfg c -> reach c s ->
  contig (infl s) /\
  (forall p a, last_of p (infl s) = Some a -> pos s p = b_hi a + 1) /\
  (sound_refresh c -> firsts c (rcomm s) (infl s)).
Proof. exact ranges_contiguous. Qed.
Print Assumptions C09_ranges_contiguous.

Theorem C09_ranges_disjoint : forall c s a b, wf_cfg c -> reach c s -> In a (infl s) -> In b (infl s) ->
  b_part a = b_part b -> (b_id a < b_id b)%nat -> b_hi a < b_lo b.
Proof. exact ranges_disjoint. Qed.
Print Assumptions C09_ranges_disjoint.

(* no gaps: every offset from the start of the run's first range of p up to positions[p] is in an emitted batch *)
Theorem C09_ranges_cover : forall c s p f o, wf_cfg c -> reach c s -> first_of p (infl s) = Some f -> b_lo f <= o < pos s p ->
  exists b, In b (infl s) /\ b_part b = p /\ b_lo b <= o <= b_hi b.
Proof. exact ranges_cover. Qed.
Print Assumptions C09_ranges_cover.

Theorem C09_range_le_watermark : forall c s b, wf_cfg c -> reach c s -> In b (infl s) ->
  c_low c <= b_lo b /\ b_hi b < high s (b_part b).
Proof. exact range_le_watermark. Qed.
Print Assumptions C09_range_le_watermark.

Theorem C09_range_le_maxbatch : forall c s b, wf_cfg c -> reach c s -> In b (infl s) -> b_hi b - b_lo b + 1 <= c_maxb c.
Proof. exact range_le_maxbatch. Qed.
Print Assumptions C09_range_le_maxbatch.

Theorem C09_ranges_nonempty : forall c s b, wf_cfg c -> reach c s -> In b (infl s) -> b_lo b <= b_hi b.
Proof. exact ranges_nonempty. Qed.
Print Assumptions C09_ranges_nonempty.

(* a commit happens only at the completion of the batch that ends just before the committed offset *)
Theorem C09_commit_after_processing : forall c s e s' rs cms p o,
  step c s e = (s', (rs, cms)) -> In (p, o) cms ->
  exists i b, e = BatchDone i /\ find_batch i (infl s) = Some b /\ is_done s i = false /\ is_done s' i = true /\
              b_part b = p /\ o = b_hi b + 1 /\ cms = [(p, o)].
Proof. exact commit_after_processing. Qed.
Print Assumptions C09_commit_after_processing.

Theorem C09_committed_changes_only_by_commit : forall c s e p,
  comm (fst (step c s e)) p <> comm s p ->
  (exists o, In (p, o) (snd (snd (step c s e))) /\ comm (fst (step c s e)) p = o) \/ (e = AddPartition /\ p = nparts s).
Proof. exact committed_changes_only_by_commit. Qed.
Print Assumptions C09_committed_changes_only_by_commit.

(* at-least-once under in-order completion: committed <= start of every unprocessed batch, and a crash restarts
   exactly at the committed offsets with nothing in flight *)
Theorem C09_at_least_once : forall c s, wf_cfg c -> sound_refresh c -> reach_io c s ->
  (forall b, In b (infl s) -> is_done s (b_id b) = false -> comm s (b_part b) <= b_lo b) /\
  (let s' := fst (step c s Crash) in
   (forall p, pos s' p = comm s p /\ rcomm s' p = comm s p) /\ comm s' = comm s /\ high s' = high s /\
   infl s' = [] /\ dn s' = []).
Proof. exact at_least_once. Qed.
Print Assumptions C09_at_least_once.

(* ... so the first range the restarted run emits for that partition starts at or below the unprocessed batch *)
Theorem C09_restart_first_range : forall c s s2 evs b a, wf_cfg c -> sound_refresh c -> reach_io c s ->
  In b (infl s) -> is_done s (b_id b) = false -> comm s (b_part b) <> NONE ->
  s2 = run c (fst (step c s Crash)) evs ->
  (forall p, rcomm s2 p = comm s p) ->
  In a (infl s2) -> b_part a = b_part b -> (forall x, In x (infl s2) -> b_part x = b_part a -> (b_id a <= b_id x)%nat) ->
  b_lo a <= b_lo b.
Proof. exact restart_first_range. Qed.
Print Assumptions C09_restart_first_range.

(* why the proviso is there *)
Theorem C09_at_least_once_out_of_order_refuted :
  exists c s b, wf_cfg c /\ sound_refresh c /\ reach c s /\ In b (infl s) /\ is_done s (b_id b) = false /\
    b_lo b < comm s (b_part b) /\
    (let s2 := run c s [Crash; Poll; Poll] in infl s2 = [] /\ pos s2 (b_part b) = high s2 (b_part b)).
Proof. exact at_least_once_out_of_order_refuted. Qed.
Print Assumptions C09_at_least_once_out_of_order_refuted.

(* AS FOUND: partitions discovered by refresh_partitions ignore the committed offset *)
Theorem C09_refresh_discovery_as_found_refuted :
  exists c s b, wf_cfg c /\ c_fix c = false /\ reach_io c s /\ In b (infl s) /\ is_done s (b_id b) = false /\
    comm s (b_part b) = b_lo b /\
    (let s2 := run c s [Crash; Poll; Poll] in infl s2 = [] /\ pos s2 (b_part b) = high s2 (b_part b)).
Proof. exact refresh_discovery_as_found_refuted. Qed.
Print Assumptions C09_refresh_discovery_as_found_refuted.

Theorem C09_first_range_as_found_refuted :
  exists c s, wf_cfg c /\ c_fix c = false /\ reach c s /\ ~ firsts c (rcomm s) (infl s).
Proof. exact first_range_as_found_refuted. Qed.
Print Assumptions C09_first_range_as_found_refuted.

(* non-vacuity: a well-formed, sound configuration (low watermark 1, refresh on) and an in-order history with a
   partition added on the fly, several ranges per partition, commits, a crash in the middle; at the end partition 0
   has batch [4,4] unprocessed with committed offset 4, partition 1 is fully processed *)
Example C09_nonvacuous :
  wf_cfg nv_cfg /\ sound_refresh nv_cfg /\ reach_io nv_cfg (run nv_cfg nv_init nv_events) /\
  (let s := run nv_cfg nv_init nv_events in
   map range_of (infl s) = [(0%nat, 4, 4); (1%nat, 1, 2); (0%nat, 2, 3)] /\ dn s = [1%nat; 0%nat] /\
   map (comm s) [0%nat; 1%nat] = [4; 3] /\
   run_steps nv_cfg nv_init [[Poll]; [Produce 0 3]; [Poll]; [BatchDone 0]] =
     [([(0%nat, 1, 1)], []); ([], []); ([(0%nat, 2, 3)], []); ([], [(0%nat, 2)])]).
Proof.
  split; [unfold wf_cfg; cbn; lia|]. split; [left; reflexivity|].
  split; [apply reach_io_run; [apply rio_init; intros; cbn; lia | vm_compute; reflexivity]|].
  vm_compute. repeat split.
Qed.

(* the per-partition clamp and the commit offset of the model are the expressions regenerated from the source on this run *)
From SZ Require Import Base.BridgeKafka.
Theorem C09_clamp_kernel_matches_source : forall pos low high maxb reset,
  Gen.KKafka.gen_kb_clamp pos low high maxb reset = kb_clamp pos low high maxb reset.
Proof. exact bridge_kb_clamp. Qed.
Theorem C09_commit_offset_matches_source : forall hi, Gen.KKafka.gen_kb_commit_offset hi = (hi + 1)%Z.
Proof. exact bridge_kb_commit. Qed.
Print Assumptions C09_clamp_kernel_matches_source.
