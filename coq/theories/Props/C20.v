(* C20 - a Dask-backed pipeline segment scatter() ... gather() is observationally equivalent to the local one. *)
From Coq Require Import List ZArith Bool Arith Lia.
From SZ Require Import Base.Values.
From SZ Require Import Ext.DaskFutures.
From SZ Require Import Ext.DaskFuturesProofs.
Import ListNotations.
Close Scope Z_scope.
Open Scope nat_scope.

(* the value of a submitted task is the function applied to the values of its arguments *)
Theorem C20_force_submit : forall st f x,
  force (fst (submit st (TApp1 f x))) (snd (submit st (TApp1 f x))) = f (force st x).
Proof. exact force_submit. Qed.
Print Assumptions C20_force_submit.

(* determinacy: in whatever order the cluster finishes tasks (completions of ineligible tasks are no-ops),
   every finished future holds the value the store assigns to it ... *)
Theorem C20_completion_determinate : forall look st order f0,
  consistent look st -> fin_ok look f0 -> fin_ok look (cluster_run st order f0).
Proof. exact completion_determinate. Qed.
Print Assumptions C20_completion_determinate.

(* ... so two completion orders agree on every future both have finished, and that value is [force] *)
Theorem C20_completion_order_irrelevant : forall st order1 order2 k v1 v2,
  wf_store st ->
  fin_get (cluster_run st order1 []) k = Some v1 ->
  fin_get (cluster_run st order2 []) k = Some v2 -> v1 = v2 /\ v1 = force st (XFut k).
Proof. exact completion_order_irrelevant. Qed.
Print Assumptions C20_completion_order_irrelevant.

(* the equations of a well-formed store have exactly one solution *)
Theorem C20_values_exist : forall st, wf_store st -> consistent (look_of (eval_store st)) st.
Proof. exact eval_store_consistent. Qed.
Theorem C20_values_unique : forall st l1 l2, wf_store st -> consistent l1 st -> consistent l2 st ->
  forall k, k < length st -> l1 k = l2 k.
Proof. exact consistent_unique. Qed.
Print Assumptions C20_values_unique.

(* dask.py's map / starmap / accumulate against the core classes, one arrival *)
Theorem C20_dask_map_equiv : forall f q st x look,
  let '(q', st', o) := dstep (LMap f) q st x in
  consistent look st' -> option_map (resolve look) o = Some (f (resolve look x)) /\ q' = q.
Proof. exact dask_map_equiv. Qed.
Print Assumptions C20_dask_map_equiv.

Theorem C20_dask_starmap_equiv : forall f q st x look,
  let '(q', st', o) := dstep (LStarmap f) q st x in
  consistent look st' -> option_map (resolve look) o = Some (f (tup_items (resolve look x))) /\ q' = q.
Proof. exact dask_starmap_equiv. Qed.
Print Assumptions C20_dask_starmap_equiv.

Theorem C20_dask_accumulate_equiv : forall f start rs ws state st x look,
  let '(q', st', o) := dstep (LAccum f start rs ws) (QAcc state) st x in
  consistent look st' ->
  lstep (LAccum f start rs ws) (QAcc (option_map (resolve look) state)) (resolve look x)
  = (qmap (resolve look) q', option_map (resolve look) o).
Proof. exact dask_accumulate_equiv. Qed.
Print Assumptions C20_dask_accumulate_equiv.

(* pipeline level: every pipeline over map / starmap / accumulate (start or not, returns_state, with_state) /
   partition / sliding_window / buffer and zip / union of two such chains, every input sequence: forcing the
   sequence of futures that reaches gather - under any valuation satisfying the tasks' equations, hence under
   the values of any completion order - is the local pipeline's sink sequence, element for element *)
Theorem C20_dask_equiv : forall p xs st arr look,
  drun p xs = (st, arr) -> consistent look st -> map (resolve look) arr = lrun p xs.
Proof. exact dask_equiv. Qed.
Print Assumptions C20_dask_equiv.

(* gather hands the sink the store's value of each arrival it emits (as found and repaired) *)
Theorem C20_gather_delivers_forced : forall look f pend ordered,
  fin_ok look f ->
  let d := fst ((if ordered : bool then take_prefix else take_all) f pend) in
  map (resolve (fin_look f)) d = map (resolve look) d.
Proof. exact gather_delivers_forced. Qed.
Print Assumptions C20_gather_delivers_forced.

(* order at gather: the repaired gather emits a prefix of the waiting arrivals in arrival order; the gather
   as found does the same as long as at most one arrival is waiting (one arrival per awaited emit, or a
   buffer in front of it) *)
Theorem C20_gather_ordered_prefix : forall f pend d r, take_prefix f pend = (d, r) -> pend = d ++ r.
Proof. exact take_prefix_split. Qed.
Theorem C20_gather_as_found_single : forall f pend, length pend <= 1 -> take_all f pend = take_prefix f pend.
Proof. exact take_all_single. Qed.
Print Assumptions C20_gather_as_found_single.

(* as found, two arrivals produced by ONE awaited emit (union of two branches in front of a bare gather) are
   emitted in completion order: the sink sequence differs from the local one.  Witness computed. *)
Theorem C20_dask_order_fanin_refuted :
  exists c evs xs, c_ordered c = false /\
    w_pend (exec c evs) = [] /\ w_queue (exec c evs) = [] /\
    w_out (exec c evs) <> lrun (stages_of c false) xs /\
    w_out (exec c evs) = [VInt 10%Z; VInt 6%Z] /\ lrun (stages_of c false) xs = [VInt 6%Z; VInt 10%Z].
Proof. exact dask_order_fanin_refuted. Qed.
Print Assumptions C20_dask_order_fanin_refuted.

(* reference counters: scatter / gather retain on entry and release after their downstream emission *)
Theorem C20_dask_refs_balanced : forall evs w, rc_excess (rc_run w evs) = rc_excess w.
Proof. exact dask_refs_balanced. Qed.
Print Assumptions C20_dask_refs_balanced.
Theorem C20_dask_refs_quiescent : forall evs w,
  rc_hold (rc_run w evs) = [] -> rc_cnt (rc_run w evs) = rc_excess w.
Proof. exact dask_refs_quiescent. Qed.
Theorem C20_dask_refs_not_early : forall evs w,
  (0 <= rc_excess w)%Z -> rc_hold (rc_run w evs) <> [] -> (0 < rc_cnt (rc_run w evs))%Z.
Proof. exact dask_refs_not_early. Qed.
Print Assumptions C20_dask_refs_not_early.

(* ---- non-vacuity: a concrete pipeline, its store is well formed, a 'later tasks first' completion order
   finishes everything, and the forced arrivals are the local output ------------------------------------ *)
Definition inc (v : val) : val := match v with VInt z => VInt (z + 1)%Z | _ => VNone end.
Definition add (a x : val) : val := match a, x with VInt p, VInt q => VInt (p + q)%Z | _, _ => VNone end.
Definition addrs (a x : val) : val := VTup [add a x; VTup [a; add a x]].
Definition ex_p : list stage :=
  [SLeaf (LMap inc); SZip [LAccum addrs None true false] [LPartition 2]; SLeaf (LStarmap (fun l => VTup (rev l)))].
Definition ex_xs : list val := [VInt 1%Z; VInt 2%Z; VInt 3%Z; VInt 4%Z].

Fixpoint wf_storeb_from (k : nat) (st : store) : bool :=
  match st with
  | [] => true
  | t :: r => forallb (fun i => i <? k) (task_deps t) && wf_storeb_from (S k) r
  end.

Example C20_nonvacuous :
  let '(st, arr) := drun ex_p ex_xs in
  wf_storeb_from 0 st = true /\ length st = 19 /\ arr = [XFut 7; XFut 18] /\
  (* 'later tasks first': repeated sweeps from the newest id down; ineligible requests are ignored *)
  (let order := concat (repeat (rev (seq 0 19)) 19) in
   let f := cluster_run st order [(0, VInt 1%Z); (2, VInt 2%Z); (8, VInt 3%Z); (13, VInt 4%Z)] in
   length f = 19 /\ map (resolve (fin_look f)) arr = lrun ex_p ex_xs) /\
  map (force st) arr = lrun ex_p ex_xs /\
  lrun ex_p ex_xs = [VTup [VTup [VInt 2%Z; VInt 3%Z]; VInt 2%Z];
                     VTup [VTup [VInt 4%Z; VInt 5%Z]; VTup [VInt 2%Z; VInt 5%Z]]].
Proof. vm_compute. repeat split; reflexivity. Qed.
