(* C13 - rate_limit spaces emissions by at least the interval and keeps order; delay keeps order and count.
   Statements restated from the proof files by harness/mkprops.py; every theorem quantifies over ALL action
   lists (schedules of emits, consumer completions, task completions, time advances). *)
From Coq Require Import List ZArith Bool Arith Permutation Sorted.
From SZ Require Import Base.Values.
From SZ Require Import Sync.Nodes.
From SZ Require Import Async.Core.
From SZ Require Async.RateLimitProofs.
From SZ Require Async.DelayProofs.
From SZ Require Base.BridgeRateLimit.
Import ListNotations.

(* from Async.RateLimitProofs *)
Section S_rl_spacing_RateLimitProofs.
Import SZ.Async.RateLimitProofs.
Theorem C13_rl_spacing : forall (i : Z) (sync : bool) (acts : list act) (s : RateLimit.rst) (outs : list (list (Z * val * list mdi) * list nat)), (0 < i)%Z -> run_steps RateLimit.rate_limit_model (RateLimit.r_init i sync) acts = (s, outs) -> spaced i (deliv_times (all_deliv outs)).
Proof. exact (@rl_spacing). Qed.
End S_rl_spacing_RateLimitProofs.
Print Assumptions C13_rl_spacing.

(* from Async.RateLimitProofs *)
Section S_rl_fifo_RateLimitProofs.
Import SZ.Async.RateLimitProofs.
Theorem C13_rl_fifo : forall (i : Z) (sync : bool) (acts : list act) (s : RateLimit.rst) (outs : list (list (Z * val * list mdi) * list nat)), (0 < i)%Z -> run_steps RateLimit.rate_limit_model (RateLimit.r_init i sync) acts = (s, outs) -> deliv_items (all_deliv outs) ++ r_pending s = ins_of acts.
Proof. exact (@rl_fifo). Qed.
End S_rl_fifo_RateLimitProofs.
Print Assumptions C13_rl_fifo.

(* from Async.RateLimitProofs *)
Section S_rl_idle_no_delay_RateLimitProofs.
Import SZ.Async.RateLimitProofs.
Theorem C13_rl_idle_no_delay : forall (s : RateLimit.rst) (src : nat) (x : val) (m : list mdi), (RateLimit.r_next s <= RateLimit.r_now s)%Z -> fst (snd (RateLimit.r_step s (AEmit src x m))) = [(RateLimit.r_now s, x, m)].
Proof. exact (@rl_idle_no_delay). Qed.
End S_rl_idle_no_delay_RateLimitProofs.
Print Assumptions C13_rl_idle_no_delay.

(* from Async.RateLimitProofs *)
Section S_rl_done_sync_RateLimitProofs.
Import SZ.Async.RateLimitProofs.
Theorem C13_rl_done_sync : forall (i : Z) (sync : bool) (acts : list act) (s : RateLimit.rst) (outs : list (list (Z * val * list mdi) * list nat)), (0 < i)%Z -> run_steps RateLimit.rate_limit_model (RateLimit.r_init i sync) acts = (s, outs) -> sync = true -> RateLimit.r_flight s = [] /\ Forall (fun o : list (Z * val * list mdi) * list nat => length (snd o) = length (fst o)) outs /\ all_done outs = seq 0 (length (all_deliv outs)).
Proof. exact (@rl_done_sync). Qed.
End S_rl_done_sync_RateLimitProofs.
Print Assumptions C13_rl_done_sync.

(* from Async.RateLimitProofs *)
Section S_rl_sleepers_spaced_RateLimitProofs.
Import SZ.Async.RateLimitProofs.
Theorem C13_rl_sleepers_spaced : forall (i : Z) (sync : bool) (acts : list act) (s : RateLimit.rst) (outs : list (list (Z * val * list mdi) * list nat)), (0 < i)%Z -> run_steps RateLimit.rate_limit_model (RateLimit.r_init i sync) acts = (s, outs) -> spaced i (deliv_times (all_deliv outs) ++ map s_due (RateLimit.r_sleep s)) /\ Forall (fun t : Z => (RateLimit.r_now s < t)%Z) (map s_due (RateLimit.r_sleep s)) /\ Forall (fun t : Z => (t <= RateLimit.r_now s)%Z) (deliv_times (all_deliv outs)).
Proof. exact (@rl_sleepers_spaced). Qed.
End S_rl_sleepers_spaced_RateLimitProofs.
Print Assumptions C13_rl_sleepers_spaced.

(* from Async.RateLimitProofs *)
Section S_rl_idle_no_sleepers_RateLimitProofs.
Import SZ.Async.RateLimitProofs.
Theorem C13_rl_idle_no_sleepers : forall (i : Z) (sync : bool) (acts : list act) (s : RateLimit.rst) (outs : list (list (Z * val * list mdi) * list nat)), (0 < i)%Z -> run_steps RateLimit.rate_limit_model (RateLimit.r_init i sync) acts = (s, outs) -> (RateLimit.r_next s <= RateLimit.r_now s)%Z -> RateLimit.r_sleep s = [].
Proof. exact (@rl_idle_no_sleepers). Qed.
End S_rl_idle_no_sleepers_RateLimitProofs.
Print Assumptions C13_rl_idle_no_sleepers.

(* from Async.DelayProofs *)
Section S_delay_fifo_DelayProofs.
Import SZ.Async.DelayProofs.
Theorem C13_delay_fifo : forall (interval : Z) (sync : bool) (acts : list act) (s : nm_state Delay.delay_model) (outs : list (list (Z * val * list mdi) * list nat)), run_steps Delay.delay_model (Delay.d_init interval sync) acts = (s, outs) -> deliv_items (all_deliv outs) ++ d_pending s = ins_of acts.
Proof. exact (@delay_fifo). Qed.
End S_delay_fifo_DelayProofs.
Print Assumptions C13_delay_fifo.

(* from Async.DelayProofs *)
Section S_delay_done_DelayProofs.
Import SZ.Async.DelayProofs.
Theorem C13_delay_done : forall (interval : Z) (sync : bool) (acts : list act) (s : nm_state Delay.delay_model) (outs : list (list (Z * val * list mdi) * list nat)), run_steps Delay.delay_model (Delay.d_init interval sync) acts = (s, outs) -> all_done outs = seq 0 (n_emits acts).
Proof. exact (@delay_done). Qed.
End S_delay_done_DelayProofs.
Print Assumptions C13_delay_done.

(* from Async.DelayProofs *)
Section S_delay_times_sorted_DelayProofs.
Import SZ.Async.DelayProofs.
Theorem C13_delay_times_sorted : forall (interval : Z) (sync : bool) (acts : list act) (s : nm_state Delay.delay_model) (outs : list (list (Z * val * list mdi) * list nat)), run_steps Delay.delay_model (Delay.d_init interval sync) acts = (s, outs) -> StronglySorted Z.le (deliv_times (all_deliv outs)) /\ Forall (fun t : Z => (t <= Delay.d_now s)%Z) (deliv_times (all_deliv outs)).
Proof. exact (@delay_times_sorted). Qed.
End S_delay_times_sorted_DelayProofs.
Print Assumptions C13_delay_times_sorted.

(* from Async.DelayProofs *)
Section S_delay_no_stall_DelayProofs.
Import SZ.Async.DelayProofs.
Theorem C13_delay_no_stall : forall (interval : Z) (sync : bool) (acts : list act) (s : nm_state Delay.delay_model) (outs : list (list (Z * val * list mdi) * list nat)), (0 < interval)%Z -> run_steps Delay.delay_model (Delay.d_init interval sync) acts = (s, outs) -> forall t0 : Z, Delay.d_mode s = Delay.DWait t0 -> d_pending s = [].
Proof. exact (@delay_no_stall). Qed.
End S_delay_no_stall_DelayProofs.
Print Assumptions C13_delay_no_stall.

(* from Base.BridgeRateLimit *)
Section S_bridge_rl_next_BridgeRateLimit.
Import SZ.Base.BridgeRateLimit.
Theorem C13_bridge_rl_next : forall now next i : Z, KRateLimit.gen_rl_next now next i = fst (RateLimit.rl_slot now next i).
Proof. exact (@bridge_rl_next). Qed.
End S_bridge_rl_next_BridgeRateLimit.
Print Assumptions C13_bridge_rl_next.

(* from Base.BridgeRateLimit *)
Section S_bridge_rl_delivery_BridgeRateLimit.
Import SZ.Base.BridgeRateLimit.
Theorem C13_bridge_rl_delivery : forall now next i : Z, (if KRateLimit.gen_rl_must_sleep now next then (now + KRateLimit.gen_rl_sleep_for now next)%Z else now) = snd (RateLimit.rl_slot now next i).
Proof. exact (@bridge_rl_delivery). Qed.
End S_bridge_rl_delivery_BridgeRateLimit.
Print Assumptions C13_bridge_rl_delivery.

