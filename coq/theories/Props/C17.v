(* C17 — file-based sources deliver every record exactly once however the data arrives.
   Only statements closed by `exact`; models live in Ext/TextFile.v, Ext/Filenames.v, proofs in Ext/*Proofs.v. *)
From Coq Require Import String.
From Coq Require Import List Ascii Bool Arith Sorting.Sorted.
From SZ Require Import Ext.TextFile.
From SZ Require Import Ext.TextFileProofs.
From SZ Require Import Ext.Filenames.
From SZ Require Import Ext.FilenamesProofs.
Import ListNotations.

(* ---------------- from_textfile ----------------
   For ALL non-empty delimiters d and ALL lists of chunks (any lengths, empty chunks included, boundaries
   anywhere, also inside a multi-character delimiter), polling once per chunk:
   (a) emitted records followed by the held-back buffer reproduce the written text exactly;
   (b) records and buffer are those of ONE poll over the whole text (chunk-independence);
   (c) every record is `part ++ d` and d occurs in it exactly once, as that suffix;
   (d) the held-back tail contains no complete occurrence of d;
   (e) this decomposition of the text is the only one with (c) and (d). *)
Theorem C17_textfile_chunking : forall d chunks, d <> [] ->
  let recs := snd (run_chunks d [] chunks) in
  let tail := fst (run_chunks d [] chunks) in
  concat recs ++ tail = concat chunks /\
  (tail, recs) = poll d [] (concat chunks) /\
  Forall (rec_ok d) recs /\
  ~ occurs d tail /\
  (forall recs' tail', Forall (rec_ok d) recs' -> ~ occurs d tail' -> concat recs' ++ tail' = concat chunks ->
     recs' = recs /\ tail' = tail).
Proof. exact textfile_chunking. Qed.
Print Assumptions C17_textfile_chunking.

(* two ways of chunking the same text are indistinguishable *)
Theorem C17_chunk_independent : forall d chunks chunks', d <> [] -> concat chunks = concat chunks' ->
  run_chunks d [] chunks = run_chunks d [] chunks'.
Proof. exact chunk_independent2. Qed.
Print Assumptions C17_chunk_independent.

(* the records are those of Python's str.split applied once to the whole text *)
Theorem C17_records_are_split : forall d chunks, d <> [] ->
  run_chunks d [] chunks =
    (last (py_split d (concat chunks)) [], map (fun p => p ++ d) (removelast (py_split d (concat chunks)))).
Proof. exact run_chunks_py_split. Qed.
Print Assumptions C17_records_are_split.

(* from any intermediate state (buffer without a complete delimiter) *)
Theorem C17_run_chunks_scan : forall d, d <> [] -> forall chunks buf, find d buf = None ->
  run_chunks d buf chunks = swap (scan d (buf ++ concat chunks)).
Proof. exact run_chunks_scan. Qed.
Print Assumptions C17_run_chunks_scan.

(* core lemma: a leftmost match stays the leftmost match when text is appended *)
Theorem C17_leftmost_match_stable : forall d s t b a, find d s = Some (b, a) -> find d (s ++ t) = Some (b, a ++ t).
Proof. exact find_app. Qed.
Print Assumptions C17_leftmost_match_stable.

(* hold-back and timeliness: after every poll, exactly the complete records of the text written so far *)
Theorem C17_emitted_after_each_poll : forall d chunks k, d <> [] ->
  concat (firstn k (snd (run_polls d [] chunks))) = fst (scan d (concat (firstn k chunks))).
Proof. exact emitted_after_each_poll. Qed.
Print Assumptions C17_emitted_after_each_poll.

(* from_end=True: pre-existing content is skipped, everything appended afterwards is delivered as above *)
Theorem C17_from_end : forall d pre chunks, d <> [] ->
  let r := run_file true d pre chunks in (concat (snd r), fst r) = scan d (concat chunks).
Proof. exact from_end_appended_only. Qed.
Print Assumptions C17_from_end.

Theorem C17_from_start : forall d pre chunks, d <> [] -> chunks <> [] ->
  let r := run_file false d pre chunks in (concat (snd r), fst r) = scan d (pre ++ concat chunks).
Proof. exact from_start_everything. Qed.
Print Assumptions C17_from_start.

(* the file layer adds nothing but the initial offset *)
Theorem C17_file_layer : forall from_end d pre chunks,
  run_file from_end d pre chunks = run_polls d [] (effective_chunks from_end pre chunks).
Proof. exact run_file_polls. Qed.
Print Assumptions C17_file_layer.

(* AS FOUND, outside the character-level model: a path argument is opened in universal-newline text mode and
   every poll's read() flushes a pending CR, so a CRLF cut by a poll gives a spurious empty record. *)
Theorem C17_textmode_crlf_refuted :
  exists d raw1 raw2, d <> [] /\ concat raw1 = concat raw2 /\
    snd (run_chunks_textmode d raw1) <> snd (run_chunks_textmode d raw2).
Proof. exact textmode_crlf_refuted. Qed.
Print Assumptions C17_textmode_crlf_refuted.

(* REPAIRED IO layer (bytes decoded incrementally, a trailing CR held back until its successor is read): the
   source is chunk-independent at the level of the bytes written, for all raw chunkings. *)
Theorem C17_textmode_fixed_chunk_independent : forall d raws, d <> [] ->
  run_chunks_textmode_fixed d raws = poll d [] (nl_translate (strip_cr (concat raws))).
Proof. exact textmode_fixed_chunk_independent. Qed.
Print Assumptions C17_textmode_fixed_chunk_independent.

Theorem C17_textmode_fixed_chunk_independent2 : forall d raws raws', d <> [] -> concat raws = concat raws' ->
  run_chunks_textmode_fixed d raws = run_chunks_textmode_fixed d raws'.
Proof. exact textmode_fixed_chunk_independent2. Qed.
Print Assumptions C17_textmode_fixed_chunk_independent2.

(* ---------------- filenames ----------------
   For ANY sequence of directory snapshots (growing, shrinking, names re-appearing, any listing order):
   one output list per poll; each strictly sorted (code-point order), hence duplicate-free; over the whole run
   no name twice; every name that ever appears is emitted; and it is emitted at the first poll where present. *)
Theorem C17_filenames_once_sorted : forall snaps : list (list name),
  let outs := frun [] snaps in
  length outs = length snaps /\
  Forall (StronglySorted name_lt) outs /\
  NoDup (concat outs) /\
  (forall x, In x (concat outs) <-> In x (concat snaps)) /\
  (forall k x, In x (nth k outs []) <->
               In x (nth k snaps []) /\ forall j, j < k -> ~ In x (nth j snaps [])).
Proof. exact filenames_once_sorted. Qed.
Print Assumptions C17_filenames_once_sorted.

Theorem C17_filenames_poll_is_sorted_set : forall (snaps : list (list name)) k (l : list name),
  StronglySorted name_lt l ->
  (forall x, In x l <-> In x (nth k snaps []) /\ forall j, j < k -> ~ In x (nth j snaps [])) ->
  nth k (frun [] snaps) [] = l.
Proof. exact filenames_poll_is_sorted_set. Qed.
Print Assumptions C17_filenames_poll_is_sorted_set.

(* name_lt is a strict total order (so "sorted" is meaningful) *)
Theorem C17_name_order : (forall a, name_ltb a a = false) /\
  (forall a b c, name_ltb a b = true -> name_ltb b c = true -> name_ltb a c = true) /\
  (forall a b, name_ltb a b = false -> name_ltb b a = false -> a = b).
Proof. exact (conj ltb_irrefl (conj ltb_trans ltb_trich)). Qed.
Print Assumptions C17_name_order.

(* ---------------- non-vacuity ---------------- *)
Definition S17 (s : string) : text := list_ascii_of_string s.
Local Open Scope string_scope.
(* delimiter "aba" (self-overlapping), text "xababa" ++ "abab" ++ "a" cut inside delimiter occurrences, with an
   empty chunk; three polls emit "xaba" early, then nothing, then "baaba"; the tail "ba" waits *)
Example C17_nonvacuous :
  S17 "aba" <> [] /\
  run_polls (S17 "aba") [] [S17 "xab"; S17 "ab"; []; S17 "aaba"; S17 "ba"] =
    (S17 "ba", [[]; [S17 "xaba"]; []; [S17 "baaba"]; []]) /\
  run_chunks (S17 "aba") [] [S17 "xababaababa"] = (S17 "ba", [S17 "xaba"; S17 "baaba"]) /\
  run_file true (S17 "|") (S17 "old|st") [S17 "a"; S17 "|b"] = (S17 "b", [[]; [S17 "a|"]]) /\
  frun [] [[S17 "b"; S17 "a10"]; [S17 "a10"; S17 "a9"; S17 "B"; S17 "b"]; [S17 "a9"]; [S17 "a"; S17 "b"]]
    = [[S17 "a10"; S17 "b"]; [S17 "B"; S17 "a9"]; []; [S17 "a"]].
Proof. split; [discriminate|]. repeat split; vm_compute; reflexivity. Qed.
