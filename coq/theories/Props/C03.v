(* C03 - backpressure: emit waits, in-flight data bounded, no lost wake-up.
   Statements restated from the proof files by harness/mkprops.py; every theorem quantifies over ALL action
   lists (schedules of emits, consumer completions, task completions, time advances). *)
From Coq Require Import List ZArith Bool Arith Permutation Sorted.
From SZ Require Import Base.Values.
From SZ Require Import Sync.Nodes.
From SZ Require Import Async.Core.
From SZ Require Async.BufferProofs.
From SZ Require Async.MapAsyncProofs.
From SZ Require Async.ZipBPProofs.
From SZ Require Async.TimedWindowProofs.
From SZ Require Async.DelayProofs.
From SZ Require Async.LatestProofs.
From SZ Require Async.RateLimitProofs.
From SZ Require Async.Plain.
Import ListNotations.

(* from Async.BufferProofs *)
Section S_buffer_bound_BufferProofs.
Import SZ.Async.BufferProofs.
Theorem C03_buffer_bound : forall (n : nat) (sync : bool) (acts : list act) (s : nm_state Buffer.buffer_model) (outs : list (list (Z * val * list mdi) * list nat)), run_steps Buffer.buffer_model (Buffer.b_init n sync) acts = (s, outs) -> length (Buffer.b_q s) <= n /\ (Buffer.b_putters s <> [] -> length (Buffer.b_q s) = n /\ Buffer.b_busy s <> None).
Proof. exact (@buffer_bound). Qed.
End S_buffer_bound_BufferProofs.
Print Assumptions C03_buffer_bound.

(* from Async.BufferProofs *)
Section S_buffer_no_lost_wakeup_BufferProofs.
Import SZ.Async.BufferProofs.
Theorem C03_buffer_no_lost_wakeup : forall (n : nat) (sync : bool) (acts : list act) (s : nm_state Buffer.buffer_model) (outs : list (list (Z * val * list mdi) * list nat)), run_steps Buffer.buffer_model (Buffer.b_init n sync) acts = (s, outs) -> Buffer.b_busy s = None -> Buffer.b_q s = [] /\ Buffer.b_putters s = [].
Proof. exact (@buffer_no_lost_wakeup). Qed.
End S_buffer_no_lost_wakeup_BufferProofs.
Print Assumptions C03_buffer_no_lost_wakeup.

(* from Async.BufferProofs *)
Section S_buffer_done_BufferProofs.
Import SZ.Async.BufferProofs.
Theorem C03_buffer_done : forall (n : nat) (sync : bool) (acts : list act) (s : nm_state Buffer.buffer_model) (outs : list (list (Z * val * list mdi) * list nat)), run_steps Buffer.buffer_model (Buffer.b_init n sync) acts = (s, outs) -> Permutation (all_done outs ++ map snd (Buffer.b_putters s)) (seq 0 (n_emits acts)).
Proof. exact (@buffer_done). Qed.
End S_buffer_done_BufferProofs.
Print Assumptions C03_buffer_done.

(* from Async.MapAsyncProofs *)
Section S_map_async_bound_p1_MapAsyncProofs.
Import SZ.Async.MapAsyncProofs.
Theorem C03_map_async_bound_p1 : forall (p : nat) (sync : bool) (acts : list act) (s : nm_state MapAsync.map_async_model) (outs : list (list (Z * val * list mdi) * list nat)), run_steps MapAsync.map_async_model (MapAsync.m_init p sync) acts = (s, outs) -> length (MapAsync.m_running s) <= S p.
Proof. exact (@map_async_bound_p1). Qed.
End S_map_async_bound_p1_MapAsyncProofs.
Print Assumptions C03_map_async_bound_p1.

(* from Async.MapAsyncProofs *)
Section S_map_async_bound_refuted_MapAsyncProofs.
Import SZ.Async.MapAsyncProofs.
Theorem C03_map_async_bound_refuted : exists (acts : list act) (s : nm_state MapAsync.map_async_model) (outs : list (list (Z * val * list mdi) * list nat)), run_steps MapAsync.map_async_model (MapAsync.m_init 2 false) acts = (s, outs) /\ length (MapAsync.m_running s) = 3.
Proof. exact (@map_async_bound_refuted). Qed.
End S_map_async_bound_refuted_MapAsyncProofs.
Print Assumptions C03_map_async_bound_refuted.

(* from Async.MapAsyncProofs *)
Section S_map_async_queue_bound_MapAsyncProofs.
Import SZ.Async.MapAsyncProofs.
Theorem C03_map_async_queue_bound : forall (p : nat) (sync : bool) (acts : list act) (s : nm_state MapAsync.map_async_model) (outs : list (list (Z * val * list mdi) * list nat)), run_steps MapAsync.map_async_model (MapAsync.m_init p sync) acts = (s, outs) -> length (MapAsync.m_queue s) <= p.
Proof. exact (@map_async_queue_bound). Qed.
End S_map_async_queue_bound_MapAsyncProofs.
Print Assumptions C03_map_async_queue_bound.

(* from Async.ZipBPProofs *)
Section S_zip_waiters_released_ZipBPProofs.
Import SZ.Async.ZipBPProofs.
Theorem C03_zip_waiters_released : forall (mx : nat) (sync : bool) (acts : list act) (a : act) (s : nm_state ZipBP.zip_model) (outs : list (list (Z * val * list mdi) * list nat)) (o : list (Z * val * list mdi) * list nat), run_steps ZipBP.zip_model (ZipBP.z_init mx sync) (acts ++ [a]) = (s, outs ++ [o]) -> fst o <> [] -> ZipBP.z_waiters s = [].
Proof. exact (@zip_waiters_released). Qed.
End S_zip_waiters_released_ZipBPProofs.
Print Assumptions C03_zip_waiters_released.

(* from Async.TimedWindowProofs *)
Section S_tw_waiting_TimedWindowProofs.
Import SZ.Async.TimedWindowProofs.
Theorem C03_tw_waiting : forall (i : Z) (sync : bool) (uniq : option ((val -> val) * bool)) (acts : list act) (s : TimedWindow.wst) (outs : list (list (Z * val * list mdi) * list nat)), (0 < i)%Z -> run_steps TimedWindow.timed_window_model (fst (TimedWindow.w_init i sync uniq)) acts = (s, outs) -> forall u : Z, TimedWindow.w_mode s = TimedWindow.WSleep u -> TimedWindow.w_waiting s = [].
Proof. exact (@tw_waiting). Qed.
End S_tw_waiting_TimedWindowProofs.
Print Assumptions C03_tw_waiting.

(* from Async.TimedWindowProofs *)
Section S_tw_done_TimedWindowProofs.
Import SZ.Async.TimedWindowProofs.
Theorem C03_tw_done : forall (i : Z) (sync : bool) (uniq : option ((val -> val) * bool)) (acts : list act) (s : TimedWindow.wst) (outs : list (list (Z * val * list mdi) * list nat)), (0 < i)%Z -> run_steps TimedWindow.timed_window_model (fst (TimedWindow.w_init i sync uniq)) acts = (s, outs) -> all_done (snd (TimedWindow.w_init i sync uniq) :: outs) ++ TimedWindow.w_waiting s = seq 0 (n_emits acts).
Proof. exact (@tw_done). Qed.
End S_tw_done_TimedWindowProofs.
Print Assumptions C03_tw_done.

(* from Async.DelayProofs *)
Section S_delay_done_DelayProofs.
Import SZ.Async.DelayProofs.
Theorem C03_delay_done : forall (interval : Z) (sync : bool) (acts : list act) (s : nm_state Delay.delay_model) (outs : list (list (Z * val * list mdi) * list nat)), run_steps Delay.delay_model (Delay.d_init interval sync) acts = (s, outs) -> all_done outs = seq 0 (n_emits acts).
Proof. exact (@delay_done). Qed.
End S_delay_done_DelayProofs.
Print Assumptions C03_delay_done.

(* from Async.LatestProofs *)
Section S_latest_done_LatestProofs.
Import SZ.Async.LatestProofs.
Theorem C03_latest_done : forall (sync : bool) (acts : list act) (s : nm_state Latest.latest_model) (outs : list (list (Z * val * list mdi) * list nat)), run_steps Latest.latest_model (Latest.l_init sync) acts = (s, outs) -> all_done outs = seq 0 (n_emits acts).
Proof. exact (@latest_done). Qed.
End S_latest_done_LatestProofs.
Print Assumptions C03_latest_done.

(* from Async.RateLimitProofs *)
Section S_rl_done_RateLimitProofs.
Import SZ.Async.RateLimitProofs.
Theorem C03_rl_done : forall (i : Z) (sync : bool) (acts : list act) (s : RateLimit.rst) (outs : list (list (Z * val * list mdi) * list nat)), (0 < i)%Z -> run_steps RateLimit.rate_limit_model (RateLimit.r_init i sync) acts = (s, outs) -> all_done outs ++ map snd (RateLimit.r_flight s) = seq 0 (length (all_deliv outs)).
Proof. exact (@rl_done). Qed.
End S_rl_done_RateLimitProofs.
Print Assumptions C03_rl_done.

(* from Async.Plain *)
Section S_plain_emit_waits_Plain.
Import SZ.Async.Plain.
Theorem C03_plain_emit_waits : forall (s : plst) (src : nat) (x : val) (m : list mdi), pl_sync s = false -> snd (snd (pl_step s (AEmit src x m))) = [] /\ In (pl_next s) (pl_flight (fst (pl_step s (AEmit src x m)))).
Proof. exact (@plain_emit_waits). Qed.
End S_plain_emit_waits_Plain.
Print Assumptions C03_plain_emit_waits.

