(* C05 (asynchronous part) - asynchronous part of C05: count = holders at every quiescent point of every schedule.
   Statements restated from the proof files by harness/mkprops.py; every theorem quantifies over ALL action
   lists (schedules of emits, consumer completions, task completions, time advances). *)
From Coq Require Import List ZArith Bool Arith Permutation Sorted.
From SZ Require Import Base.Values.
From SZ Require Import Sync.Nodes.
From SZ Require Import Async.Core.
From SZ Require Async.BufferProofs.
From SZ Require Async.DelayProofs.
From SZ Require Async.LatestProofs.
From SZ Require Async.RateLimitProofs.
From SZ Require Async.TimedWindowProofs.
From SZ Require Async.PartitionTOProofs.
From SZ Require Async.MapAsyncProofs.
From SZ Require Async.ZipBPProofs.
Import ListNotations.

(* from Async.BufferProofs *)
Section S_buffer_balance_BufferProofs.
Import SZ.Async.BufferProofs.
Theorem C05A_buffer_balance : forall (n : nat) (sync : bool) (acts : list act) (s : nm_state Buffer.buffer_model) (outs : list (list (Z * val * list mdi) * list nat)), run_steps Buffer.buffer_model (Buffer.b_init n sync) acts = (s, outs) -> forall r : nat, rcnt (Buffer.b_rc s) r = mocc (b_held s) r.
Proof. exact (@buffer_balance). Qed.
End S_buffer_balance_BufferProofs.
Print Assumptions C05A_buffer_balance.

(* from Async.DelayProofs *)
Section S_delay_balance_DelayProofs.
Import SZ.Async.DelayProofs.
Theorem C05A_delay_balance : forall (interval : Z) (sync : bool) (acts : list act) (s : nm_state Delay.delay_model) (outs : list (list (Z * val * list mdi) * list nat)), run_steps Delay.delay_model (Delay.d_init interval sync) acts = (s, outs) -> forall r : nat, rcnt (Delay.d_rc s) r = mocc (d_held s) r.
Proof. exact (@delay_balance). Qed.
End S_delay_balance_DelayProofs.
Print Assumptions C05A_delay_balance.

(* from Async.LatestProofs *)
Section S_latest_balance_LatestProofs.
Import SZ.Async.LatestProofs.
Theorem C05A_latest_balance : forall (sync : bool) (acts : list act) (s : nm_state Latest.latest_model) (outs : list (list (Z * val * list mdi) * list nat)), run_steps Latest.latest_model (Latest.l_init sync) acts = (s, outs) -> forall r : nat, rcnt (Latest.l_rc s) r = mocc (l_held s) r.
Proof. exact (@latest_balance). Qed.
End S_latest_balance_LatestProofs.
Print Assumptions C05A_latest_balance.

(* from Async.RateLimitProofs *)
Section S_rl_balance_RateLimitProofs.
Import SZ.Async.RateLimitProofs.
Theorem C05A_rl_balance : forall (i : Z) (sync : bool) (acts : list act) (s : RateLimit.rst) (outs : list (list (Z * val * list mdi) * list nat)), (0 < i)%Z -> run_steps RateLimit.rate_limit_model (RateLimit.r_init i sync) acts = (s, outs) -> forall r : nat, rcnt (RateLimit.r_rc s) r = mocc (r_held s) r.
Proof. exact (@rl_balance). Qed.
End S_rl_balance_RateLimitProofs.
Print Assumptions C05A_rl_balance.

(* from Async.TimedWindowProofs *)
Section S_tw_balance_TimedWindowProofs.
Import SZ.Async.TimedWindowProofs.
Theorem C05A_tw_balance : forall (i : Z) (sync : bool) (uniq : option ((val -> val) * bool)) (acts : list act) (s : TimedWindow.wst) (outs : list (list (Z * val * list mdi) * list nat)), (0 < i)%Z -> run_steps TimedWindow.timed_window_model (fst (TimedWindow.w_init i sync uniq)) acts = (s, outs) -> forall r : nat, rcnt (TimedWindow.w_rc s) r = mocc (w_held s) r.
Proof. exact (@tw_balance). Qed.
End S_tw_balance_TimedWindowProofs.
Print Assumptions C05A_tw_balance.

(* from Async.PartitionTOProofs *)
Section S_partition_balance_PartitionTOProofs.
Import SZ.Async.PartitionTOProofs.
Theorem C05A_partition_balance : forall (n : nat) (to : option Z) (key : option (val -> val)) (sync : bool) (acts : list act) (s : PartitionTO.pst) (outs : list (list (Z * val * list mdi) * list nat)), 1 <= n -> (forall t : Z, to = Some t -> (0 < t)%Z) -> run_steps PartitionTO.partition_model (PartitionTO.p_init n to key sync) acts = (s, outs) -> forall r : nat, rcnt (PartitionTO.p_rc s) r = mocc (p_held s) r.
Proof. exact (@partition_balance). Qed.
End S_partition_balance_PartitionTOProofs.
Print Assumptions C05A_partition_balance.

(* from Async.MapAsyncProofs *)
Section S_map_async_balance_MapAsyncProofs.
Import SZ.Async.MapAsyncProofs.
Theorem C05A_map_async_balance : forall (p : nat) (sync : bool) (acts : list act) (s : nm_state MapAsync.map_async_model) (outs : list (list (Z * val * list mdi) * list nat)), run_steps MapAsync.map_async_model (MapAsync.m_init p sync) acts = (s, outs) -> forall r : nat, rcnt (MapAsync.m_rc s) r = mocc (m_held s) r.
Proof. exact (@map_async_balance). Qed.
End S_map_async_balance_MapAsyncProofs.
Print Assumptions C05A_map_async_balance.

(* from Async.ZipBPProofs *)
Section S_zip_balance_ZipBPProofs.
Import SZ.Async.ZipBPProofs.
Theorem C05A_zip_balance : forall (mx : nat) (sync : bool) (acts : list act) (s : nm_state ZipBP.zip_model) (outs : list (list (Z * val * list mdi) * list nat)), run_steps ZipBP.zip_model (ZipBP.z_init mx sync) acts = (s, outs) -> forall r : nat, rcnt (ZipBP.z_rc s) r = mocc (z_held s) r.
Proof. exact (@zip_balance). Qed.
End S_zip_balance_ZipBPProofs.
Print Assumptions C05A_zip_balance.

(* from Async.BufferProofs *)
Section S_buffer_count_nonneg_BufferProofs.
Import SZ.Async.BufferProofs.
Theorem C05A_buffer_count_nonneg : forall (n : nat) (sync : bool) (acts : list act) (s : nm_state Buffer.buffer_model) (outs : list (list (Z * val * list mdi) * list nat)), run_steps Buffer.buffer_model (Buffer.b_init n sync) acts = (s, outs) -> forall r : nat, (0 <= rcnt (Buffer.b_rc s) r)%Z.
Proof. exact (@buffer_count_nonneg). Qed.
End S_buffer_count_nonneg_BufferProofs.
Print Assumptions C05A_buffer_count_nonneg.

(* from Async.MapAsyncProofs *)
Section S_map_async_count_nonneg_MapAsyncProofs.
Import SZ.Async.MapAsyncProofs.
Theorem C05A_map_async_count_nonneg : forall (p : nat) (sync : bool) (acts : list act) (s : nm_state MapAsync.map_async_model) (outs : list (list (Z * val * list mdi) * list nat)), run_steps MapAsync.map_async_model (MapAsync.m_init p sync) acts = (s, outs) -> forall r : nat, (0 <= rcnt (MapAsync.m_rc s) r)%Z.
Proof. exact (@map_async_count_nonneg). Qed.
End S_map_async_count_nonneg_MapAsyncProofs.
Print Assumptions C05A_map_async_count_nonneg.

