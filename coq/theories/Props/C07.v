(* C07 — windowed aggregations equal pandas on exactly the rows inside the window.
   Only statements closed by `exact`; model in DF/Window.v, proofs in DF/WindowProofs.v, DF/WindowGroupProofs.v.
   `lawful A h` = the aggregation's state after absorbing rows W is h W, on_new extends W, on_old removes a prefix
   of W (on_old is the inverse of on_new).  `prefixes batches` = concat of the first k batches, k = 1..|batches|. *)
From Coq Require Import List ZArith QArith Qcanon Bool.
From SZ Require Import DF.Window DF.WindowProofs DF.WindowGroupProofs DF.WindowVar.
Import ListNotations.
Close Scope Qc_scope. Close Scope Q_scope. Open Scope nat_scope.

(* window(n=N): for every N (also N = 0), every list of batches (empty, shorter, longer than the window):
   the k-th emitted value is the aggregation of the last N rows of the first k batches *)
Theorem C07_window_n_correct : forall A h, lawful A h -> forall N batches,
  wrun A (WN N) batches = map (fun p => RScal (fin A (h (window_n N p)))) (prefixes batches).
Proof. exact window_n_correct. Qed.
Print Assumptions C07_window_n_correct.

(* window(value=T), repaired diff_loc: for every T >= 1ns and non-decreasing stamps the k-th emitted value is the
   aggregation of the rows whose stamp is > newest - T *)
Theorem C07_window_t_correct : forall A h, lawful A h -> forall T batches, (1 <= T)%Z -> ssorted (concat batches) ->
  wrun A (WT true T) batches = map (fun p => RScal (fin A (h (window_t T p)))) (prefixes batches).
Proof. exact window_t_correct. Qed.
Print Assumptions C07_window_t_correct.

(* the invariant behind both: diff_iloc retains exactly the last N rows and hands the rest to on_old *)
Theorem C07_diff_iloc_spec : forall N dfs new,
  concat (fst (diff_iloc N dfs new)) = lastn N (concat dfs ++ new) /\
  concat (snd (diff_iloc N dfs new)) ++ concat (fst (diff_iloc N dfs new)) = concat dfs ++ new.
Proof. exact diff_iloc_spec. Qed.
Theorem C07_diff_loc_spec : forall T (dfs : list frame) (pre new : frame), (1 <= T)%Z ->
  concat dfs = window_t T pre -> nonempty_all dfs -> ssorted (pre ++ new) ->
  exists dfs' old, diff_loc true T dfs new = Some (dfs', old) /\
    concat old ++ concat dfs' = concat dfs ++ new /\
    concat dfs' = window_t T (pre ++ new) /\ nonempty_all dfs'.
Proof. exact diff_loc_spec. Qed.
Print Assumptions C07_diff_loc_spec.

(* the aggregations of aggregations.py are lawful: Sum, Count, Size, Mean (sum,count), Var (x, x2, n) *)
Theorem C07_sum_lawful : lawful sum_agg psum.
Proof. exact sum_lawful. Qed.
Theorem C07_count_lawful : lawful count_agg pcount.
Proof. exact count_lawful. Qed.
Theorem C07_size_lawful : lawful size_agg psize.
Proof. exact size_lawful. Qed.
(* Mean on a DataFrame/groupby (counts is a Series), or the repaired scalar Mean *)
Theorem C07_mean_lawful : forall scalar fx, scalar && negb fx = false -> lawful (mean_agg scalar fx) mean_h.
Proof. exact mean_lawful. Qed.
Theorem C07_var_lawful : forall scalar fx ddof, scalar && negb fx = false -> lawful (var_agg scalar fx ddof) var_h.
Proof. exact var_lawful. Qed.
Print Assumptions C07_var_lawful.

(* instances read as pandas: sum skips NaN; mean = sum/count, NaN when count = 0 *)
Theorem C07_window_n_sum : forall N batches,
  wrun sum_agg (WN N) batches = map (fun p => RScal (ONum (psum (window_n N p)))) (prefixes batches).
Proof. exact (window_n_correct sum_agg psum sum_lawful). Qed.
Theorem C07_window_t_mean : forall T batches, (1 <= T)%Z -> ssorted (concat batches) ->
  wrun (mean_agg true true) (WT true T) batches =
  map (fun p => RScal (mean_fin (psum (window_t T p), pcount (window_t T p)))) (prefixes batches).
Proof. exact (window_t_correct (mean_agg true true) mean_h (mean_lawful true true eq_refl)). Qed.
Print Assumptions C07_window_t_mean.

(* var: the streaming formula on (sum, sum of squares, count) is pandas' two-pass variance, NaN for n <= ddof *)
Theorem C07_var_is_pandas : forall ddof f, ddof = 0%Z \/ ddof = 1%Z -> var_fin ddof (var_h f) = pd_var ddof f.
Proof. exact var_fin_is_pandas. Qed.
Theorem C07_window_n_var_pandas : forall scalar fx ddof, (scalar && negb fx = false)%bool -> ddof = 0%Z \/ ddof = 1%Z ->
  forall N batches,
  wrun (var_agg scalar fx ddof) (WN N) batches = map (fun p => RScal (pd_var ddof (window_n N p))) (prefixes batches).
Proof. exact window_n_var_pandas. Qed.
Theorem C07_window_t_var_pandas : forall scalar fx ddof, (scalar && negb fx = false)%bool -> ddof = 0%Z \/ ddof = 1%Z ->
  forall T batches, (1 <= T)%Z -> ssorted (concat batches) ->
  wrun (var_agg scalar fx ddof) (WT true T) batches = map (fun p => RScal (pd_var ddof (window_t T p))) (prefixes batches).
Proof. exact window_t_var_pandas. Qed.
Print Assumptions C07_window_t_var_pandas.

(* windowed groupby (column grouper): the emitted Series is pandas' groupby over the window rows: exactly the keys
   present in the window, sorted, each with the aggregation of its rows; keys whose rows all left the window are
   gone, keys that come back re-appear *)
Theorem C07_wgroupby_n_correct : forall A h, lawful A h -> forall N batches,
  grun A false (WN N) batches =
  map (fun p => RMap (pd_groupby (fun rows => fin A (h rows)) (window_n N p))) (prefixes batches).
Proof. exact wgroupby_n_correct. Qed.
Theorem C07_wgroupby_t_correct : forall A h, lawful A h -> forall T batches, (1 <= T)%Z -> ssorted (concat batches) ->
  grun A false (WT true T) batches =
  map (fun p => RMap (pd_groupby (fun rows => fin A (h rows)) (window_t T p))) (prefixes batches).
Proof. exact wgroupby_t_correct. Qed.
Theorem C07_wgroupby_keys : forall A h, lawful A h -> forall N batches,
  map res_keys (grun A false (WN N) batches) = map (fun p => skeys (window_n N p)) (prefixes batches).
Proof. exact wgroupby_keys. Qed.
Theorem C07_wgroupby_keys_t : forall A h, lawful A h -> forall T batches, (1 <= T)%Z -> ssorted (concat batches) ->
  map res_keys (grun A false (WT true T) batches) = map (fun p => skeys (window_t T p)) (prefixes batches).
Proof. exact wgroupby_keys_t. Qed.
Print Assumptions C07_wgroupby_n_correct.
Print Assumptions C07_wgroupby_t_correct.
Print Assumptions C07_wgroupby_keys.

(* streaming grouper (window.groupby(window.key): a second zipped stream kept in `groupers`, aligned by diff_align)
   = column grouper, for row-count windows; with C07_wgroupby_n_correct this gives the pandas result for both *)
Theorem C07_diff_align_shape : forall dfs1 dfs' old, shape dfs1 dfs' old -> diff_align dfs' (K dfs1) = (K old, K dfs').
Proof. exact diff_align_shape. Qed.
Theorem C07_wgroupby_streaming_n : forall A N batches, grun A true (WN N) batches = grun A false (WN N) batches.
Proof. exact wgroupby_streaming_n. Qed.
Print Assumptions C07_wgroupby_streaming_n.

(* as-found code: the property fails (each witness is replayed on the real code by the check) *)
Theorem C07_diff_loc_boundary_refuted : exists T batches, (1 <= T)%Z /\ ssorted (concat batches) /\
  wrun sum_agg (WT false T) batches <> map (fun p => RScal (fin sum_agg (psum (window_t T p)))) (prefixes batches).
Proof. exact diff_loc_boundary_refuted. Qed.
Theorem C07_diff_loc_T1_raises : wrun sum_agg (WT false 1%Z) [[rw 0 0 1; rw 1 0 2]] = [RExc].
Proof. exact diff_loc_T1_raises. Qed.
Theorem C07_mean_scalar_count_zero_refuted : exists N batches,
  wrun (mean_agg true false) (WN N) batches <> map (fun p => RScal (mean_fin (mean_h (window_n N p)))) (prefixes batches).
Proof. exact mean_scalar_count_zero_refuted. Qed.
Theorem C07_var_scalar_empty_raises : wrun (var_agg true false 1%Z) (WN 2%nat) [[]; [rw 0 0 2]] = [RExc; RScal ONan].
Proof. exact var_scalar_empty_raises. Qed.
Print Assumptions C07_diff_loc_boundary_refuted.

(* non-vacuity: a run with a batch larger than the window, an empty batch in the middle, a key (0) that leaves
   and re-enters; the hypotheses of the value-window theorem hold for it and the results are not trivial *)
Definition nv_batches : list frame :=
  [[rw 0 0 1; rw 1 1 2; rw 2 0 4]; []; [rw 3 1 3]; [rw 3 2 5; rw 5 0 7]].
Example C07_nonvacuous_sorted : (1 <= 2)%Z /\ ssorted (concat nv_batches).
Proof. split; [discriminate|]. simpl. repeat split; intros b Hb; simpl in Hb; intuition (subst; simpl; discriminate). Qed.
Example C07_nonvacuous_keys :
  map res_keys (grun sum_agg false (WN 2) nv_batches) = [[0%Z; 1%Z]; [0%Z; 1%Z]; [0%Z; 1%Z]; [0%Z; 2%Z]] /\
  map res_keys (grun sum_agg false (WT true 2%Z) nv_batches) = [[0%Z; 1%Z]; [0%Z; 1%Z]; [0%Z; 1%Z]; [0%Z]].
Proof. split; vm_compute; reflexivity. Qed.
Example C07_nonvacuous_values :
  map res_q (wrun sum_agg (WN 2) nv_batches) = [6 # 1; 6 # 1; 7 # 1; 12 # 1]%Q /\
  map res_q (wrun (mean_agg true true) (WT true 2%Z) nv_batches) = [3 # 1; 3 # 1; 7 # 2; 7 # 1]%Q.
Proof. split; vm_compute; reflexivity. Qed.

(* ---- aggregation bridges (harness/mkprops_aggs.py): begin ---- *)
(* The aggregation classes are the ones regenerated from the source under test on this run: Gen/KA_<class>.v is written by
   harness/gen_aggs.py from the python AST of streamz/dataframe/aggregations.py (symbolic execution over an abstract pandas
   interface, Base/AggPrims.v; the mapping of the pandas primitives is printed into every generated file).
   Base/BridgeAggsWindow.v proves that, with the interface instantiated by the frames of DF/Window.v, the state component
   they return is the model's on_new / on_old and the value they return is `fin` of that state (repaired scalar variant:
   mean_agg true true, var_agg true true ddof); f2onum: a float result as the model's onum, infinities kept apart. *)
From SZ Require Import Base.AggPrims Base.BridgeAggsWindow Base.BridgeAggsIloc.
From SZ Require Gen.KA_Sum Gen.KA_Count Gen.KA_Size Gen.KA_Mean Gen.KA_Var Gen.KA_Accumulator Gen.KA_DiffIloc.
Theorem C07_bridge_Sum :
  (* sum_on_new *)
  (forall acc new,
   fst (Gen.KA_Sum.gen_sum_on_new window_ops acc new) = Window.on_new sum_agg acc new /\
   ONum (snd (Gen.KA_Sum.gen_sum_on_new window_ops acc new)) = fin sum_agg (Window.on_new sum_agg acc new)) /\
  (* sum_on_old *)
  (forall acc old,
   fst (Gen.KA_Sum.gen_sum_on_old window_ops acc old) = Window.on_old sum_agg acc old /\
   ONum (snd (Gen.KA_Sum.gen_sum_on_old window_ops acc old)) = fin sum_agg (Window.on_old sum_agg acc old)) /\
  (* sum_initial *)
  (forall new, Gen.KA_Sum.gen_sum_initial window_ops new = init sum_agg).
Proof. exact (conj bridge_w_sum_on_new (conj bridge_w_sum_on_old bridge_w_sum_initial)). Qed.
Print Assumptions C07_bridge_Sum.
Theorem C07_bridge_Count :
  (* count_on_new *)
  (forall acc new,
   fst (Gen.KA_Count.gen_count_on_new window_ops acc new) = Window.on_new count_agg acc new /\
   ONum (z2qc (snd (Gen.KA_Count.gen_count_on_new window_ops acc new))) = fin count_agg (Window.on_new count_agg acc new)) /\
  (* count_on_old *)
  (forall acc old,
   fst (Gen.KA_Count.gen_count_on_old window_ops acc old) = Window.on_old count_agg acc old /\
   ONum (z2qc (snd (Gen.KA_Count.gen_count_on_old window_ops acc old))) = fin count_agg (Window.on_old count_agg acc old)) /\
  (* count_initial *)
  (forall new, Gen.KA_Count.gen_count_initial window_ops new = init count_agg).
Proof. exact (conj bridge_w_count_on_new (conj bridge_w_count_on_old bridge_w_count_initial)). Qed.
Print Assumptions C07_bridge_Count.
Theorem C07_bridge_Size :
  (* size_on_new *)
  (forall acc new,
   fst (Gen.KA_Size.gen_size_on_new window_ops acc new) = Window.on_new size_agg acc new /\
   ONum (z2qc (snd (Gen.KA_Size.gen_size_on_new window_ops acc new))) = fin size_agg (Window.on_new size_agg acc new)) /\
  (* size_on_old *)
  (forall acc old,
   fst (Gen.KA_Size.gen_size_on_old window_ops acc old) = Window.on_old size_agg acc old /\
   ONum (z2qc (snd (Gen.KA_Size.gen_size_on_old window_ops acc old))) = fin size_agg (Window.on_old size_agg acc old)) /\
  (* size_initial *)
  (forall new, Gen.KA_Size.gen_size_initial window_ops new = init size_agg).
Proof. exact (conj bridge_w_size_on_new (conj bridge_w_size_on_old bridge_w_size_initial)). Qed.
Print Assumptions C07_bridge_Size.
Theorem C07_bridge_Mean :
  (* mean_on_new *)
  (forall acc new,
   fst (Gen.KA_Mean.gen_mean_on_new window_ops acc new) = Window.on_new (mean_agg true true) acc new /\
   f2onum (snd (Gen.KA_Mean.gen_mean_on_new window_ops acc new)) = fin (mean_agg true true) (Window.on_new (mean_agg true true) acc new)) /\
  (* mean_on_old *)
  (forall acc old,
   fst (Gen.KA_Mean.gen_mean_on_old window_ops acc old) = Window.on_old (mean_agg true true) acc old /\
   f2onum (snd (Gen.KA_Mean.gen_mean_on_old window_ops acc old)) = fin (mean_agg true true) (Window.on_old (mean_agg true true) acc old)) /\
  (* mean_initial *)
  (forall new, Gen.KA_Mean.gen_mean_initial window_ops new = init (mean_agg true true)) /\
  (* divide *)
  (forall totals counts, f2onum (Gen.KA_Mean.gen_divide window_ops totals counts) = mean_fin (totals, counts)).
Proof. exact (conj bridge_w_mean_on_new (conj bridge_w_mean_on_old (conj bridge_w_mean_initial bridge_w_divide))). Qed.
Print Assumptions C07_bridge_Mean.
Theorem C07_bridge_Var :
  (* var_on_new *)
  (forall ddof acc new,
   fst (Gen.KA_Var.gen_var_on_new window_ops ddof acc new) = Window.on_new (var_agg true true ddof) acc new /\
   f2onum (snd (Gen.KA_Var.gen_var_on_new window_ops ddof acc new)) = fin (var_agg true true ddof) (Window.on_new (var_agg true true ddof) acc new)) /\
  (* var_on_old *)
  (forall ddof acc old,
   fst (Gen.KA_Var.gen_var_on_old window_ops ddof acc old) = Window.on_old (var_agg true true ddof) acc old /\
   f2onum (snd (Gen.KA_Var.gen_var_on_old window_ops ddof acc old)) = fin (var_agg true true ddof) (Window.on_old (var_agg true true ddof) acc old)) /\
  (* var_initial *)
  (forall ddof new, Gen.KA_Var.gen_var_initial window_ops new = init (var_agg true true ddof)) /\
  (* var_compute_result *)
  (forall ddof x x2 n, f2onum (Gen.KA_Var.gen_var_compute_result window_ops ddof x x2 n) = var_fin ddof (x, x2, n)) /\
  (* var_total *)
  (forall ddof, raises_on_pyint (var_agg true true ddof) = false).
Proof. exact (conj bridge_w_var_on_new (conj bridge_w_var_on_old (conj bridge_w_var_initial (conj bridge_w_var_compute_result bridge_w_var_total)))). Qed.
Print Assumptions C07_bridge_Var.
Theorem C07_bridge_diff :
  (* diff_expanding *)
  (forall dfs new, Some (Gen.KA_Accumulator.gen_diff_expanding window_ops dfs new) = diff WE dfs new) /\
  (* diff_iloc *)
  (forall N dfs new, Gen.KA_DiffIloc.gen_diff_iloc window_ops dfs new (Z.of_nat N) = Some (diff_iloc N dfs new)).
Proof. exact (conj bridge_w_diff_expanding bridge_w_diff_iloc). Qed.
Print Assumptions C07_bridge_diff.
(* ---- aggregation bridges (harness/mkprops_aggs.py): end ---- *)
