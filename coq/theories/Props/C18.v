(* C18 - source lifecycle: one polling loop at a time, nothing new after stop, from_iterable exact.
   Statements restated from Ext/SourceLifeProofs.v; all quantify over ALL histories of start / stop / consumer
   completion / time advance.  s_init true = the repaired code, s_init false = the code as found. *)
From Coq Require Import List ZArith Bool Arith.
From SZ Require Import Ext.SourceLife.
From SZ Require Import Ext.SourceLifeProofs.
Import ListNotations.

Theorem C18_one_loop : forall (k : skind) (sync : bool) (acts : list sact) (s : sst) (outs : list (list (Z * Z))), s_run (s_init true k sync) acts = (s, outs) -> length (ss_loops s) <= 1.
Proof. exact (@one_loop). Qed.
Print Assumptions C18_one_loop.

Theorem C18_one_loop_refuted : exists (k : skind) (sync : bool) (acts : list sact) (s : sst) (outs : list (list (Z * Z))), s_run (s_init false k sync) acts = (s, outs) /\ length (ss_loops s) = 2.
Proof. exact (@one_loop_refuted). Qed.
Print Assumptions C18_one_loop_refuted.

Theorem C18_no_new_cycle_after_stop : forall s : sst, reachable s -> ss_stopped s = true -> forall a : sact, a <> SStart -> snd (s_step s a) = [].
Proof. exact (@no_new_cycle_after_stop). Qed.
Print Assumptions C18_no_new_cycle_after_stop.

Theorem C18_no_new_cycle_after_stop_any : forall s : sst, ss_stopped s = true -> forall a : sact, a <> SStart -> snd (s_step s a) = [] /\ ss_stopped (fst (s_step s a)) = true.
Proof. exact (@no_new_cycle_after_stop_any). Qed.
Print Assumptions C18_no_new_cycle_after_stop_any.

Theorem C18_start_started_noop : forall s : sst, ss_stopped s = false -> s_step s SStart = (s, []).
Proof. exact (@start_started_noop). Qed.
Print Assumptions C18_start_started_noop.

Theorem C18_stop_stopped_noop : forall s : sst, ss_stopped s = true -> s_step s SStop = (s, []).
Proof. exact (@stop_stopped_noop). Qed.
Print Assumptions C18_stop_stopped_noop.

Theorem C18_from_iterable_exact : forall (items : list Z) (sync : bool) (acts : list sact) (s : sst) (outs : list (list (Z * Z))), s_run (s_init true (SIterable items) sync) acts = (s, outs) -> map snd (concat outs) = firstn (ss_count s) items /\ ss_count s <= length items.
Proof. exact (@from_iterable_exact). Qed.
Print Assumptions C18_from_iterable_exact.

Theorem C18_from_iterable_backpressure : forall (items : list Z) (acts : list sact) (s : sst) (outs : list (list (Z * Z))), s_run (s_init true (SIterable items) false) acts = (s, outs) -> Forall (fun l : linst => li_mode l = LEmit) (ss_loops s) /\ length (ss_loops s) <= 1 /\ Forall (fun o : list (Z * Z) => length o <= 1) outs.
Proof. exact (@from_iterable_backpressure). Qed.
Print Assumptions C18_from_iterable_backpressure.

Theorem C18_from_iterable_next_only_after_ack : forall (items : list Z) (acts : list sact) (s : sst) (outs : list (list (Z * Z))), s_run (s_init true (SIterable items) false) acts = (s, outs) -> ss_loops s <> [] -> forall a : sact, a <> SAck -> snd (s_step s a) = [].
Proof. exact (@from_iterable_next_only_after_ack). Qed.
Print Assumptions C18_from_iterable_next_only_after_ack.

Theorem C18_from_iterable_complete : forall (items : list Z) (sync : bool) (acts : list sact) (s : sst) (outs : list (list (Z * Z))), s_run (s_init true (SIterable items) sync) acts = (s, outs) -> ss_count s = length items -> map snd (concat outs) = items.
Proof. exact (@from_iterable_complete). Qed.
Print Assumptions C18_from_iterable_complete.

Theorem C18_from_iterable_sync_single_start : forall (items : list Z) (s : sst) (outs : list (list (Z * Z))), s_run (s_init true (SIterable items) true) [SStart] = (s, outs) -> map snd (concat outs) = items /\ ss_count s = length items /\ ss_stopped s = true /\ ss_loops s = [].
Proof. exact (@from_iterable_sync_single_start). Qed.
Print Assumptions C18_from_iterable_sync_single_start.

Theorem C18_periodic_values : forall (poll : Z) (sync : bool) (acts : list sact) (s : sst) (outs : list (list (Z * Z))), s_run (s_init true (SPeriodic poll) sync) acts = (s, outs) -> map snd (concat outs) = map Z.of_nat (seq 1 (ss_count s)).
Proof. exact (@periodic_values). Qed.
Print Assumptions C18_periodic_values.

Theorem C18_periodic_spacing : forall (poll : Z) (sync : bool) (acts : list sact) (s : sst) (outs : list (list (Z * Z))), (0 < poll)%Z -> s_run (s_init true (SPeriodic poll) sync) acts = (s, outs) -> spaced poll (map fst (concat outs)) /\ (forall (i : nat) (t1 t2 : Z), nth_error (map fst (concat outs)) i = Some t1 -> nth_error (map fst (concat outs)) (S i) = Some t2 -> (t1 + poll <= t2)%Z).
Proof. exact (@periodic_spacing). Qed.
Print Assumptions C18_periodic_spacing.

Theorem C18_periodic_spacing_asfound_refuted : exists (poll : Z) (sync : bool) (acts : list sact) (s : sst) (outs : list (list (Z * Z))), (0 < poll)%Z /\ s_run (s_init false (SPeriodic poll) sync) acts = (s, outs) /\ ~ spaced poll (map fst (concat outs)).
Proof. exact (@periodic_spacing_asfound_refuted). Qed.
Print Assumptions C18_periodic_spacing_asfound_refuted.

