(* C18 - source lifecycle: one polling loop at a time, nothing new after stop, from_iterable exact.
   Statements restated from Ext/SourceLifeProofs.v; all quantify over ALL histories of start / stop / consumer
   completion / time advance / back-to-back calls inside one loop callback (SMulti), and over the consumer's
   reaction `on` (Some v = the consumer calls stop() from inside its callback when it is handed v).
   s_init true = the repaired code, s_init false = the code as found.
   `quiet a` = the action cannot leave a stopped source started: not a start, and not back-to-back calls whose
   last call is start (C18_quiet_spec). *)
From Coq Require Import List ZArith Bool Arith.
From SZ Require Import Ext.SourceLife.
From SZ Require Import Ext.SourceLifeProofs.
Import ListNotations.

Theorem C18_one_loop : forall (k : skind) (sync : bool) (on : option Z) (acts : list sact) (s : sst) (outs : list (list (Z * Z))), s_run (s_init true k sync on) acts = (s, outs) -> length (ss_loops s) <= 1.
Proof. exact (@one_loop). Qed.
Print Assumptions C18_one_loop.

Theorem C18_one_loop_refuted : exists (k : skind) (sync : bool) (on : option Z) (acts : list sact) (s : sst) (outs : list (list (Z * Z))), s_run (s_init false k sync on) acts = (s, outs) /\ length (ss_loops s) = 2.
Proof. exact (@one_loop_refuted). Qed.
Print Assumptions C18_one_loop_refuted.

Theorem C18_one_loop_refuted_back_to_back : exists (k : skind) (sync : bool) (on : option Z) (s : sst) (outs : list (list (Z * Z))), s_run (s_init false k sync on) [SMulti [CStart; CStop; CStart]] = (s, outs) /\ length (ss_loops s) = 2.
Proof. exact (@one_loop_refuted_back_to_back). Qed.
Print Assumptions C18_one_loop_refuted_back_to_back.

Theorem C18_no_new_cycle_after_stop : forall s : sst, reachable s -> ss_stopped s = true -> forall a : sact, quiet a = true -> snd (s_step s a) = [].
Proof. exact (@no_new_cycle_after_stop). Qed.
Print Assumptions C18_no_new_cycle_after_stop.

Theorem C18_no_new_cycle_after_stop_any : forall s : sst, ss_stopped s = true -> forall a : sact, quiet a = true -> snd (s_step s a) = [] /\ ss_stopped (fst (s_step s a)) = true.
Proof. exact (@no_new_cycle_after_stop_any). Qed.
Print Assumptions C18_no_new_cycle_after_stop_any.

Theorem C18_quiet_spec : forall a : sact, quiet a = true <-> a <> SStart /\ (forall calls : list lcall, a = SMulti calls -> last calls CStop = CStop).
Proof. exact (@quiet_spec). Qed.
Print Assumptions C18_quiet_spec.

Theorem C18_no_new_cycle_after_stop_literal_refuted : exists (s : sst) (a : sact), reachable s /\ ss_stopped s = true /\ a <> SStart /\ snd (s_step s a) <> [].
Proof. exact (@no_new_cycle_after_stop_literal_refuted). Qed.
Print Assumptions C18_no_new_cycle_after_stop_literal_refuted.

Theorem C18_back_to_back_stop_last_is_silent : forall (s : sst) (pre : list lcall), s_step s (SMulti (pre ++ [CStop])) = (upd s (ss_now s) true (ss_loops s) (ss_count s), []).
Proof. exact (@back_to_back_stop_last_is_silent). Qed.
Print Assumptions C18_back_to_back_stop_last_is_silent.

Theorem C18_stop_inside_callback_silences : forall (fx : bool) (k : skind) (sync : bool) (v : Z) (hist : list sact) (a : sact) (cont : list sact) (s0 : sst) (outs0 : list (list (Z * Z))) (s1 : sst) (d : list (Z * Z)) (s2 : sst) (outs : list (list (Z * Z))), s_run (s_init fx k sync (Some v)) hist = (s0, outs0) -> s_step s0 a = (s1, d) -> In v (map snd d) -> Forall (fun a0 : sact => quiet a0 = true) cont -> s_run s1 cont = (s2, outs) -> (exists (pre : list (Z * Z)) (t : Z), d = pre ++ [(t, v)] /\ ~ In v (map snd pre)) /\ ss_stopped s1 = true /\ concat outs = [] /\ ss_stopped s2 = true.
Proof. exact (@stop_inside_callback_silences). Qed.
Print Assumptions C18_stop_inside_callback_silences.

Theorem C18_stop_inside_callback_silences_any : forall (s : sst) (v : Z) (a : sact) (s1 : sst) (d : list (Z * Z)) (cont : list sact) (s2 : sst) (outs : list (list (Z * Z))), ss_stop_on s = Some v -> s_step s a = (s1, d) -> In v (map snd d) -> Forall (fun a0 : sact => quiet a0 = true) cont -> s_run s1 cont = (s2, outs) -> (exists (pre : list (Z * Z)) (t : Z), d = pre ++ [(t, v)] /\ ~ In v (map snd pre)) /\ ss_stopped s1 = true /\ concat outs = [] /\ ss_stopped s2 = true.
Proof. exact (@stop_inside_callback_silences_any). Qed.
Print Assumptions C18_stop_inside_callback_silences_any.

Theorem C18_multi_single_start : forall s : sst, s_step s (SMulti [CStart]) = s_step s SStart.
Proof. exact (@multi_single_start). Qed.
Print Assumptions C18_multi_single_start.

Theorem C18_multi_single_stop : forall s : sst, s_step s (SMulti [CStop]) = s_step s SStop.
Proof. exact (@multi_single_stop). Qed.
Print Assumptions C18_multi_single_stop.

Theorem C18_multi_with_live_loop : forall (s : sst) (calls : list lcall), ss_fixed s = true -> ss_loops s <> [] -> s_step s (SMulti calls) = (upd s (ss_now s) (match calls with [] => ss_stopped s | _ :: _ => flag_of (last calls CStop) end) (ss_loops s) (ss_count s), []).
Proof. exact (@multi_with_live_loop). Qed.
Print Assumptions C18_multi_with_live_loop.

Theorem C18_start_started_noop : forall s : sst, ss_stopped s = false -> s_step s SStart = (s, []).
Proof. exact (@start_started_noop). Qed.
Print Assumptions C18_start_started_noop.

Theorem C18_stop_stopped_noop : forall s : sst, ss_stopped s = true -> s_step s SStop = (s, []).
Proof. exact (@stop_stopped_noop). Qed.
Print Assumptions C18_stop_stopped_noop.

Theorem C18_from_iterable_exact : forall (items : list Z) (sync : bool) (on : option Z) (acts : list sact) (s : sst) (outs : list (list (Z * Z))), s_run (s_init true (SIterable items) sync on) acts = (s, outs) -> map snd (concat outs) = firstn (ss_count s) items /\ ss_count s <= length items.
Proof. exact (@from_iterable_exact). Qed.
Print Assumptions C18_from_iterable_exact.

Theorem C18_from_iterable_backpressure : forall (items : list Z) (on : option Z) (acts : list sact) (s : sst) (outs : list (list (Z * Z))), s_run (s_init true (SIterable items) false on) acts = (s, outs) -> Forall (fun l : linst => li_mode l = LEmit) (ss_loops s) /\ length (ss_loops s) <= 1 /\ Forall (fun o : list (Z * Z) => length o <= 1) outs.
Proof. exact (@from_iterable_backpressure). Qed.
Print Assumptions C18_from_iterable_backpressure.

Theorem C18_from_iterable_next_only_after_ack : forall (items : list Z) (on : option Z) (acts : list sact) (s : sst) (outs : list (list (Z * Z))), s_run (s_init true (SIterable items) false on) acts = (s, outs) -> ss_loops s <> [] -> forall a : sact, a <> SAck -> snd (s_step s a) = [].
Proof. exact (@from_iterable_next_only_after_ack). Qed.
Print Assumptions C18_from_iterable_next_only_after_ack.

Theorem C18_from_iterable_complete : forall (items : list Z) (sync : bool) (on : option Z) (acts : list sact) (s : sst) (outs : list (list (Z * Z))), s_run (s_init true (SIterable items) sync on) acts = (s, outs) -> ss_count s = length items -> map snd (concat outs) = items.
Proof. exact (@from_iterable_complete). Qed.
Print Assumptions C18_from_iterable_complete.

Theorem C18_from_iterable_sync_single_start : forall (items : list Z) (s : sst) (outs : list (list (Z * Z))), s_run (s_init true (SIterable items) true None) [SStart] = (s, outs) -> map snd (concat outs) = items /\ ss_count s = length items /\ ss_stopped s = true /\ ss_loops s = [].
Proof. exact (@from_iterable_sync_single_start). Qed.
Print Assumptions C18_from_iterable_sync_single_start.

Theorem C18_from_iterable_complete_sync : forall (items : list Z) (acts : list sact) (s : sst) (outs : list (list (Z * Z))), In SStart acts -> s_run (s_init true (SIterable items) true None) acts = (s, outs) -> map snd (concat outs) = items.
Proof. exact (@from_iterable_complete_sync). Qed.
Print Assumptions C18_from_iterable_complete_sync.

Theorem C18_periodic_values : forall (poll : Z) (sync : bool) (on : option Z) (acts : list sact) (s : sst) (outs : list (list (Z * Z))), s_run (s_init true (SPeriodic poll) sync on) acts = (s, outs) -> map snd (concat outs) = map Z.of_nat (seq 1 (ss_count s)).
Proof. exact (@periodic_values). Qed.
Print Assumptions C18_periodic_values.

Theorem C18_periodic_spacing : forall (poll : Z) (sync : bool) (on : option Z) (acts : list sact) (s : sst) (outs : list (list (Z * Z))), (0 < poll)%Z -> s_run (s_init true (SPeriodic poll) sync on) acts = (s, outs) -> spaced poll (map fst (concat outs)) /\ (forall (i : nat) (t1 t2 : Z), nth_error (map fst (concat outs)) i = Some t1 -> nth_error (map fst (concat outs)) (S i) = Some t2 -> (t1 + poll <= t2)%Z).
Proof. exact (@periodic_spacing). Qed.
Print Assumptions C18_periodic_spacing.

Theorem C18_periodic_spacing_asfound_refuted : exists (poll : Z) (sync : bool) (on : option Z) (acts : list sact) (s : sst) (outs : list (list (Z * Z))), (0 < poll)%Z /\ s_run (s_init false (SPeriodic poll) sync on) acts = (s, outs) /\ ~ spaced poll (map fst (concat outs)).
Proof. exact (@periodic_spacing_asfound_refuted). Qed.
Print Assumptions C18_periodic_spacing_asfound_refuted.

Example C18_stop_inside_callback_nonvacuous : snd (s_run (s_init true (SPeriodic 3) true (Some 2%Z)) [SStart; SAdv 3; SAdv 3; SAck; SStop; SMulti [CStart; CStop]; SAdv 4; SStart; SAdv 3]) = [[(0, 1)]; [(3, 2)]; []; []; []; []; []; [(10, 3)]; [(13, 4)]]%Z /\ snd (s_run (s_init true (SPeriodic 3) false (Some 1%Z)) [SStart; SAck; SAdv 5; SStart; SAdv 1]) = [[(0, 1)]; []; []; [(5, 2)]; []]%Z /\ snd (s_run (s_init true (SIterable [10; 11; 12; 13]%Z) true (Some 11%Z)) [SStart; SAdv 2; SAck; SMulti [CStart; CStop]; SStart]) = [[(0, 10); (0, 11)]; []; []; []; [(2, 12); (2, 13)]]%Z /\ snd (s_run (s_init true (SIterable [10; 11; 12; 13]%Z) false (Some 11%Z)) [SStart; SAck; SAck; SAdv 2; SMulti [CStop; CStart]; SAck; SAck]) = [[(0, 10)]; [(0, 11)]; []; []; [(2, 12)]; [(2, 13)]; []]%Z /\ (exists (s0 : sst) (outs0 : list (list (Z * Z))) (s1 : sst) (d : list (Z * Z)), s_run (s_init true (SPeriodic 3) true (Some 2%Z)) [SStart] = (s0, outs0) /\ s_step s0 (SAdv 3) = (s1, d) /\ In 2%Z (map snd d) /\ Forall (fun a : sact => quiet a = true) [SAdv 3; SAck; SStop; SMulti [CStart; CStop]; SAdv 4]).
Proof. exact (@stop_inside_callback_nonvacuous). Qed.
Print Assumptions C18_stop_inside_callback_nonvacuous.

Example C18_back_to_back_nonvacuous : s_run (s_init true (SPeriodic 3) true None) [SMulti [CStart; CStop]; SAdv 5; SMulti [CStart; CStop; CStart]; SAdv 3; SMulti [CStop; CStart]; SMulti [CStart; CStop]; SAdv 3; SAdv 3] = ({| ss_fixed := true; ss_kind := SPeriodic 3; ss_sync := true; ss_now := 14%Z; ss_stopped := true; ss_loops := []; ss_count := 2; ss_stop_on := None |}, [[]; []; [(5, 1)]; [(8, 2)]; []; []; []; []])%Z /\ snd (s_run (s_init false (SPeriodic 3) true None) [SMulti [CStart; CStop]; SAdv 5; SMulti [CStart; CStop; CStart]; SAdv 3; SMulti [CStop; CStart]; SMulti [CStart; CStop]; SAdv 3; SAdv 3]) = [[]; []; [(5, 1); (5, 2)]; [(8, 3); (8, 4)]; [(8, 5)]; []; []; []]%Z.
Proof. exact (@back_to_back_nonvacuous). Qed.
Print Assumptions C18_back_to_back_nonvacuous.

