(* DF/Resume.v — C12: the state exposed by `with_state=True` is the whole state of the accumulate node, so a
   fresh node started with `start=<that state>` continues exactly like the uninterrupted run.

   The theorem is generic in the binary operator `func` (anything of the shape Stream.accumulate accepts with
   returns_state=True); what is specific to streamz is in the *model* it is applied to:
   - the node stores exactly the first component `func` returned (core.py accumulate.update), and with
     `with_state=True` emits exactly that component next to the result: `emitted_state_is_state`;
   - a resumed node holds `Some s`, so every operator takes its `acc is not None` branch and never calls
     `agg.initial` again; states are values (computing the `example` with the start state cannot alter it);
   - a raising call leaves the node state untouched (modelled by `run`).
   Instances for every operator modelled in DF/Agg.v and DF/GroupBy.v are stated in Props/C12.v. *)
From Coq Require Import List ZArith QArith Qcanon Bool Lia.
From SZ Require Import DF.Frames.
From SZ Require Import DF.Agg.
From SZ Require Import DF.GroupBy.
From SZ Require Import DF.AggProofs.
From SZ Require Import DF.GroupByProofs.
Import ListNotations.

Section Resume.
  Context {St X Rs : Type}.
  Variable func : option St -> X -> option (St * Rs).

  (* self.state of the accumulate node after the inputs xs *)
  Fixpoint state_after (st : option St) (xs : list X) : option St :=
    match xs with
    | [] => st
    | x :: t => match func st x with
                | None => state_after st t
                | Some (s, _) => state_after (Some s) t
                end
    end.

  Theorem resume_any_cut : forall (bs : list X) (k : nat) (st : option St),
    run func (state_after st (firstn k bs)) (skipn k bs) = skipn k (run func st bs).
  Proof.
    induction bs as [|x t IH]; intros [|k] st; cbn [firstn skipn state_after run]; try reflexivity.
    destruct (func st x) as [[s r]|]; cbn [skipn]; apply IH.
  Qed.

  (* what `with_state=True` shows after the (i+1)-th batch is the node state *)
  Theorem emitted_state_is_state : forall (bs : list X) (i : nat) (st : option St) s r,
    nth_error (run func st bs) i = Some (Some (s, r)) -> state_after st (firstn (S i) bs) = Some s.
  Proof.
    induction bs as [|x t IH]; intros i st s r H; [destruct i; discriminate|].
    cbn [run] in H. cbn [firstn state_after].
    destruct i as [|i].
    - destruct (func st x) as [[s' r']|]; cbn [nth_error] in H; [|discriminate].
      inversion H; subst. destruct t; reflexivity.
    - destruct (func st x) as [[s' r']|]; cbn [nth_error] in H; eapply IH; exact H.
  Qed.

  (* checkpoint after batch k (k >= 1), restart a fresh pipeline from the emitted state: same remaining output *)
  Corollary resume_from_emitted : forall (bs : list X) (k : nat) (st : option St) s r,
    (1 <= k)%nat -> nth_error (run func st bs) (k - 1) = Some (Some (s, r)) ->
    run func (Some s) (skipn k bs) = skipn k (run func st bs).
  Proof.
    intros bs k st s r Hk H. rewrite <- (resume_any_cut bs k st).
    pose proof (emitted_state_is_state _ _ _ _ _ H) as E. replace (S (k - 1)) with k in E by lia.
    rewrite E. reflexivity.
  Qed.
End Resume.

(* groupby pipelines: the cut is taken on the batch stream, the tuple stream is cut at the same place *)
Theorem resume_groupby {S R} gs (agg : gaggregation S R) (bs : list frame) (k : nat) st s r :
  (1 <= k)%nat -> nth_error (grun gs agg st bs) (k - 1) = Some (Some (s, r)) ->
  grun gs agg (Some s) (skipn k bs) = skipn k (grun gs agg st bs).
Proof.
  intros Hk H. rewrite !grun_eq in *. eapply resume_from_emitted; eauto.
Qed.

Lemma nth_error_skipn' {A} (l : list A) : forall k i, nth_error (skipn k l) i = nth_error l (k + i).
Proof. induction l as [|a l IH]; intros [|k] i; cbn; auto. destruct i; reflexivity. Qed.

(* resumed runs keep satisfying C06: after a cut at k the value for batch j > k is still pandas on the
   concatenation of ALL batches up to j *)
Theorem resume_then_prefix {St Rs} (f : option St -> frame -> option (St * Rs)) inv res :
  step_ok f inv res ->
  forall (bs : list frame) k j s r, (1 <= k)%nat -> (k < j <= length bs)%nat ->
    nth_error (run f None bs) (k - 1) = Some (Some (s, r)) ->
    concat (firstn j bs) <> [] ->
    emitted (run f (Some s) (skipn k bs)) (j - k) = Some (res (concat (firstn j bs))).
Proof.
  intros Hok bs k j s r Hk Hj Hn HP.
  rewrite (resume_from_emitted f bs k None s r Hk Hn).
  unfold emitted. rewrite nth_error_skipn'. replace (k + (j - k - 1))%nat with (j - 1)%nat by lia.
  destruct (prefix_generic f inv res Hok bs j ltac:(lia) HP) as (s' & -> & _). reflexivity.
Qed.
