(* DF/WindowProofs.v — C07: after every batch the retained frames are exactly the rows inside the window and the
   aggregation state is the aggregation of those rows, because on_old is the inverse of on_new. *)
From Coq Require Import List ZArith QArith Qcanon Bool Lia.
From SZ Require Import DF.Window.
Import ListNotations.
Close Scope Qc_scope. Close Scope Q_scope. Open Scope nat_scope.

(* ------------------------------------------------------------------------------------------------ *)
(* lists                                                                                              *)
(* ------------------------------------------------------------------------------------------------ *)
Lemma isnil_true {A} (l : list A) : isnil l = true -> l = [].
Proof. destruct l; simpl; congruence. Qed.
Lemma isnil_false {A} (l : list A) : isnil l = false -> l <> [].
Proof. destruct l; simpl; congruence. Qed.

Lemma skipn_skipn' {A} : forall y x (l : list A), skipn x (skipn y l) = skipn (x + y) l.
Proof.
  induction y; intros x l; simpl.
  - now rewrite Nat.add_0_r.
  - destruct l; [now rewrite !skipn_nil|]. rewrite Nat.add_succ_r. simpl. apply IHy.
Qed.

Lemma lastn_app_lastn {A} (N : nat) (a b : list A) : lastn N (lastn N a ++ b) = lastn N (a ++ b).
Proof.
  unfold lastn. rewrite !app_length, skipn_length.
  destruct (Nat.le_gt_cases (length a) N) as [H|H].
  - replace (length a - N) with 0 by lia. simpl. f_equal. lia.
  - rewrite (skipn_app (length a + length b - N) a b).
    rewrite (skipn_app (length a - (length a - N) + length b - N)).
    rewrite skipn_length.
    replace (length a - (length a - N) + length b - N) with (length b) by lia.
    replace (length b - (length a - (length a - N))) with (length b - N) by lia.
    replace (length a + length b - N - length a) with (length b - N) by lia.
    destruct (Nat.le_gt_cases (length b) N) as [Hb|Hb].
    + replace (length b - N) with 0 by lia. simpl.
      f_equal. rewrite skipn_skipn'. f_equal. lia.
    + rewrite (skipn_all2 (skipn (length a - N) a)) by (rewrite skipn_length; lia).
      rewrite (skipn_all2 a) by lia. reflexivity.
Qed.

Lemma concat_snoc {A} (l : list (list A)) (x : list A) : concat (l ++ [x]) = concat l ++ x.
Proof. rewrite concat_app. simpl. now rewrite app_nil_r. Qed.

Lemma takewhile_dropwhile {A} (p : A -> bool) (l : list A) : takewhile p l ++ dropwhile p l = l.
Proof. induction l; simpl; auto. destruct (p a); simpl; congruence. Qed.
Lemma skipn_takewhile {A} (p : A -> bool) (l : list A) : skipn (length (takewhile p l)) l = dropwhile p l.
Proof. induction l; simpl; auto. destruct (p a); simpl; auto. Qed.
Lemma takewhile_all {A} (p : A -> bool) (l : list A) x : In x (takewhile p l) -> p x = true.
Proof. induction l; simpl; [tauto|]. destruct (p a) eqn:E; simpl; [|tauto]. intros [->|H]; auto. Qed.
Lemma filter_none {A} (p : A -> bool) (l : list A) : (forall x, In x l -> p x = false) -> filter p l = [].
Proof. induction l; simpl; auto. intros H. rewrite (H a) by auto. auto. Qed.
Lemma filter_all {A} (p : A -> bool) (l : list A) : (forall x, In x l -> p x = true) -> filter p l = l.
Proof. induction l; simpl; auto. intros H. rewrite (H a) by auto. f_equal; auto. Qed.
Lemma filter_filter_imp {A} (p p0 : A -> bool) (l : list A) :
  (forall x, In x l -> p x = true -> p0 x = true) -> filter p (filter p0 l) = filter p l.
Proof.
  induction l; simpl; auto. intros H. destruct (p0 a) eqn:E0; simpl.
  - destruct (p a); [f_equal|]; auto.
  - destruct (p a) eqn:E; auto. rewrite (H a) in E0; auto; congruence.
Qed.

(* ------------------------------------------------------------------------------------------------ *)
(* diff_iloc keeps exactly the last N rows                                                            *)
(* ------------------------------------------------------------------------------------------------ *)
Lemma drop_front_cons d rest n : 0 < n ->
  drop_front (d :: rest) n =
  if length d <=? n then (fst (drop_front rest (n - length d)), d :: snd (drop_front rest (n - length d)))
  else (skipn n d :: rest, [firstn n d]).
Proof. destruct n; [lia|]. intros _. cbn [drop_front]. destruct (length d <=? S n); auto. now destruct (drop_front rest _). Qed.

Lemma drop_front_spec : forall dfs n, n <= total_len dfs ->
  concat (snd (drop_front dfs n)) = firstn n (concat dfs) /\
  concat (fst (drop_front dfs n)) = skipn n (concat dfs).
Proof.
  unfold total_len. induction dfs as [|d rest IH]; intros n Hn.
  - destruct n; simpl in *; [auto|lia].
  - destruct (Nat.eq_dec n 0) as [->|Hn0]; [simpl; auto|].
    rewrite drop_front_cons by lia. cbn [concat] in *. rewrite app_length in Hn.
    rewrite firstn_app, skipn_app.
    destruct (Nat.leb_spec (length d) n) as [Hle|Hgt].
    + specialize (IH (n - length d) ltac:(lia)). destruct IH as [I1 I2]. cbn [fst snd concat].
      rewrite (firstn_all2 d), (skipn_all2 d) by lia. rewrite I1, I2. auto.
    + cbn [fst snd concat]. rewrite app_nil_r.
      replace (n - length d) with 0 by lia. cbn [firstn skipn]. now rewrite app_nil_r.
Qed.

Lemma diff_iloc_spec : forall N dfs new,
  concat (fst (diff_iloc N dfs new)) = lastn N (concat dfs ++ new) /\
  concat (snd (diff_iloc N dfs new)) ++ concat (fst (diff_iloc N dfs new)) = concat dfs ++ new.
Proof.
  intros N dfs new. unfold diff_iloc.
  set (dfs1 := if isnil new then dfs else dfs ++ [new]).
  assert (E : concat dfs1 = concat dfs ++ new).
  { unfold dfs1. destruct new; simpl; [now rewrite app_nil_r|]. apply concat_snoc. }
  destruct (isnil dfs1) eqn:Hn.
  - apply isnil_true in Hn. rewrite Hn in *. simpl in *. rewrite <- E. unfold lastn. simpl. auto.
  - destruct (drop_front_spec dfs1 (total_len dfs1 - N) ltac:(lia)) as [H1 H2].
    rewrite H2, H1, E. split.
    + unfold lastn, total_len. now rewrite E.
    + apply firstn_skipn.
Qed.

(* ------------------------------------------------------------------------------------------------ *)
(* lawful aggregations: the state is a function h of the rows it has absorbed, on_old inverts on_new   *)
(* ------------------------------------------------------------------------------------------------ *)
Record lawful (A : agg) (h : frame -> St A) : Prop := {
  law_init : init A = h [];
  law_new : forall a b, on_new A (h a) b = h (a ++ b);
  law_old : forall a b, a <> [] -> on_old A (h (a ++ b)) a = h b;
  law_noexc : raises_on_pyint A = false }.

Lemma decay_spec A h : lawful A h -> forall old rest, decay A (h (concat old ++ rest)) old = h rest.
Proof.
  intros L. unfold decay. induction old as [|o t IH]; intros rest; simpl; auto.
  destruct o as [|r o'].
  - simpl. apply IH.
  - cbn [isnil]. rewrite <- app_assoc. rewrite (law_old A h L) by discriminate. apply IH.
Qed.

Definition Inv (A : agg) (h : frame -> St A) (acc : wacc A) (W : frame) : Prop :=
  w_state acc = h W /\ concat (w_dfs acc) = W /\ Forall (fun d => d <> []) (w_dfs acc).

Lemma wstep_spec A h w acc W new dfs' old :
  lawful A h -> Inv A h acc W ->
  diff w (w_dfs acc) new = Some (dfs', old) ->
  concat old ++ concat dfs' = W ++ new -> Forall (fun d => d <> []) dfs' ->
  exists acc', wstep A w acc new = (acc', RScal (fin A (h (concat dfs')))) /\ Inv A h acc' (concat dfs').
Proof.
  intros L (Hs & Hd & Hne) Hdiff Hcat Hne'. unfold wstep. rewrite Hdiff.
  rewrite (law_noexc A h L). simpl.
  rewrite Hs, (law_new A h L), <- Hcat, (decay_spec A h L).
  eexists. split; [reflexivity|]. repeat split; auto.
Qed.

(* nonempty-frame bookkeeping for drop_front *)
Lemma drop_front_nonempty : forall dfs n, Forall (fun d : frame => d <> []) dfs ->
  Forall (fun d : frame => d <> []) (fst (drop_front dfs n)).
Proof.
  induction dfs as [|d rest IH]; intros n F; [destruct n; simpl; auto|].
  destruct (Nat.eq_dec n 0) as [->|Hn0]; [simpl; auto|].
  rewrite drop_front_cons by lia. inversion F; subst.
  destruct (Nat.leb_spec (length d) n).
  - cbn [fst]. apply IH; auto.
  - cbn [fst]. constructor; auto. intro E. apply (f_equal (@length _)) in E. rewrite skipn_length in E. simpl in E. lia.
Qed.

Lemma dfs1_nonempty (dfs : list frame) new : Forall (fun d : frame => d <> []) dfs ->
  Forall (fun d : frame => d <> []) (if isnil new then dfs else dfs ++ [new]).
Proof.
  intros F. destruct new; simpl; auto. apply Forall_app. split; auto. constructor; auto. discriminate.
Qed.

Lemma diff_iloc_nonempty N dfs new : Forall (fun d : frame => d <> []) dfs ->
  Forall (fun d : frame => d <> []) (fst (diff_iloc N dfs new)).
Proof.
  intros F. unfold diff_iloc. pose proof (dfs1_nonempty dfs new F) as F1.
  set (dfs1 := if isnil new then dfs else dfs ++ [new]) in *.
  destruct (isnil dfs1); simpl; auto. now apply drop_front_nonempty.
Qed.

Lemma prefixes_cons (b : frame) (t : list frame) (f : frame -> res) pre :
  map (fun k => f (pre ++ concat (firstn k (b :: t)))) (seq 1 (S (length t))) =
  f (pre ++ b) :: map (fun k => f ((pre ++ b) ++ concat (firstn k t))) (seq 1 (length t)).
Proof.
  simpl. rewrite app_nil_r. f_equal. rewrite <- seq_shift, map_map. apply map_ext. intros k. simpl.
  now rewrite app_assoc.
Qed.

(* window(n=N): emitted_k = agg (last N rows of the first k batches), all N, all batchings *)
Lemma window_n_from A h N : lawful A h -> forall batches acc pre,
  Inv A h acc (window_n N pre) ->
  wrun_from A (WN N) acc batches =
  map (fun k => RScal (fin A (h (window_n N (pre ++ concat (firstn k batches)))))) (seq 1 (length batches)).
Proof.
  intros L. induction batches as [|b t IH]; intros acc pre I; [reflexivity|].
  cbn [wrun_from length]. rewrite (prefixes_cons b t (fun p => RScal (fin A (h (window_n N p))))).
  destruct (diff_iloc_spec N (w_dfs acc) b) as [S1 S2].
  destruct I as (Hs & Hd & Hne).
  destruct (diff_iloc N (w_dfs acc) b) as [dfs' old] eqn:E. simpl in S1, S2.
  destruct (wstep_spec A h (WN N) acc (window_n N pre) b dfs' old L) as (acc' & Hw & I').
  - repeat split; auto.
  - simpl. now rewrite E.
  - now rewrite S2, Hd.
  - pose proof (diff_iloc_nonempty N (w_dfs acc) b Hne) as F. now rewrite E in F.
  - rewrite Hw. rewrite Hd in S1. unfold window_n in *. rewrite lastn_app_lastn in S1.
    rewrite S1 in *. f_equal. apply IH. exact I'.
Qed.

Theorem window_n_correct A h : lawful A h -> forall N batches,
  wrun A (WN N) batches = map (fun p => RScal (fin A (h (window_n N p)))) (prefixes batches).
Proof.
  intros L N batches. unfold wrun, prefixes. rewrite map_map.
  rewrite (window_n_from A h N L batches (wacc0 A) []); [reflexivity|].
  unfold Inv, wacc0, window_n, lastn. simpl. repeat split; auto. apply (law_init A h L).
Qed.

(* ------------------------------------------------------------------------------------------------ *)
(* diff_loc (repaired) keeps exactly the rows with stamp > newest - T                                  *)
(* ------------------------------------------------------------------------------------------------ *)
Fixpoint ssorted (l : frame) : Prop :=
  match l with [] => True | a :: t => (forall b, In b t -> (stamp a <= stamp b)%Z) /\ ssorted t end.

Lemma ssorted_app a b : ssorted (a ++ b) <->
  ssorted a /\ ssorted b /\ (forall x y, In x a -> In y b -> (stamp x <= stamp y)%Z).
Proof.
  induction a as [|r a IH]; simpl.
  - intuition.
  - rewrite IH. split.
    + intros (H & Ha & Hb & Hab). repeat split; auto.
      * intros; apply H, in_or_app; auto.
      * intros x y [->|Hx] Hy; auto. apply H, in_or_app; auto.
    + intros ((H & Ha) & Hb & Hab). repeat split; auto.
      intros b0 Hin. apply in_app_or in Hin as [?|?]; auto.
Qed.

Lemma ssorted_filter p l : ssorted l -> ssorted (filter p l).
Proof.
  induction l as [|a t IH]; simpl; auto. intros [H S]. destruct (p a); simpl; auto.
  split; auto. intros b Hb. apply filter_In in Hb as [Hb _]. auto.
Qed.

Lemma smax_spec : forall t d, (d <= smax t d)%Z /\ (forall r, In r t -> (stamp r <= smax t d)%Z) /\
  (smax t d = d \/ exists r, In r t /\ stamp r = smax t d).
Proof.
  induction t as [|a t IH]; intros d; simpl.
  - split; [lia|]. split; [tauto|auto].
  - destruct (IH d) as (I1 & I2 & I3). split; [lia|]. split.
    + intros r [->|Hr]; [lia|]. specialize (I2 r Hr). lia.
    + destruct (Z.max_spec (stamp a) (smax t d)) as [[_ E]|[_ E]]; rewrite E.
      * destruct I3 as [?|(r & ? & ?)]; [left; auto|right; exists r; auto].
      * right. exists a; auto.
Qed.

Lemma fmax_spec l : l <> [] -> (forall r, In r l -> (stamp r <= fmax l)%Z) /\ exists r, In r l /\ stamp r = fmax l.
Proof.
  destruct l as [|a t]; [congruence|]. intros _. unfold fmax. destruct (smax_spec t (stamp a)) as (I1 & I2 & I3).
  split.
  - intros r [->|Hr]; auto.
  - destruct I3 as [E|(r & Hr & E)]; [exists a|exists r]; simpl; auto.
Qed.

Lemma smin_sorted : forall t d, (forall b, In b t -> (d <= stamp b)%Z) -> smin t d = d.
Proof.
  induction t as [|a t IH]; intros d H; simpl; auto. rewrite IH by (intros; apply H; simpl; auto).
  specialize (H a (or_introl eq_refl)). lia.
Qed.

Definition nonempty_all (dfs : list frame) := Forall (fun d : frame => d <> []) dfs.

Lemma loc_loop_spec mn : forall fuel dfs old,
  total_len dfs < fuel -> ssorted (concat dfs) -> nonempty_all dfs ->
  (exists r, In r (concat dfs) /\ (mn <= stamp r)%Z) ->
  exists dfs' olds, loc_loop fuel true mn dfs old = Some (dfs', old ++ olds) /\
    concat olds ++ concat dfs' = concat dfs /\
    concat dfs' = filter (fun r => (mn <=? stamp r)%Z) (concat dfs) /\ nonempty_all dfs'.
Proof.
  unfold total_len. induction fuel as [|f IH]; intros dfs old Hf Hs Hne Hex; [lia|].
  destruct dfs as [|d rest].
  - destruct Hex as (r & [] & _).
  - inversion Hne as [|? ? Hd Hrest]; subst. destruct d as [|r0 d0]; [congruence|].
    cbn [loc_loop]. cbn [concat] in *.
    assert (Hmin : fmin (r0 :: d0) = stamp r0).
    { unfold fmin. apply smin_sorted. simpl in Hs. destruct Hs as [H _]. intros b Hb. apply H, in_or_app; auto. }
    rewrite Hmin.
    destruct (Z.ltb_spec (stamp r0) mn) as [Hlt|Hge].
    + set (d := r0 :: d0) in *.
      set (p := fun r : row => (stamp r <? mn)%Z).
      assert (Eo : loc_upto true mn d = takewhile p d) by reflexivity.
      rewrite Eo. rewrite skipn_takewhile.
      set (o := takewhile p d). set (d' := dropwhile p d).
      assert (Ed : o ++ d' = d) by apply takewhile_dropwhile.
      assert (Ho : o <> []).
      { unfold o, d. simpl. unfold p at 1. destruct (Z.ltb_spec (stamp r0) mn); [discriminate|lia]. }
      set (dfs2 := if isnil d' then rest else d' :: rest).
      assert (E2 : concat dfs2 = d' ++ concat rest).
      { unfold dfs2. destruct d'; simpl; auto. }
      assert (Hall : forall x, In x o -> (stamp x <? mn)%Z = true) by (intros x Hx; apply (takewhile_all p d x Hx)).
      destruct (IH dfs2 (old ++ [o])) as (dfs' & olds & H1 & H2 & H3 & H4).
      * rewrite E2. rewrite <- Ed in Hf. rewrite !app_length in *. destruct o; [congruence|simpl in *; lia].
      * rewrite E2. rewrite <- Ed, <- app_assoc in Hs. apply ssorted_app in Hs. tauto.
      * unfold dfs2. destruct d' eqn:E'; simpl; auto. constructor; auto. discriminate.
      * destruct Hex as (r & Hr & Hm). exists r. split; auto. rewrite E2.
        rewrite <- Ed, <- app_assoc in Hr. apply in_app_or in Hr as [Hr|Hr]; auto.
        apply Hall in Hr. apply Z.ltb_lt in Hr. lia.
      * exists dfs', (o :: olds).
        split. { etransitivity; [exact H1|]. f_equal. f_equal. now rewrite <- app_assoc. }
        split; [|split; auto].
        -- cbn [concat]. rewrite <- app_assoc, H2, E2, app_assoc, Ed. reflexivity.
        -- rewrite H3, E2, <- Ed, <- app_assoc, (filter_app _ o).
           rewrite (filter_none _ o); auto.
           intros x Hx. apply Hall in Hx. apply Z.ltb_lt in Hx. apply Z.leb_gt. lia.
    + exists (((r0 :: d0)) :: rest), []. rewrite app_nil_r. cbn [concat app]. split; auto. split; auto. split; auto.
      symmetry. apply (filter_all (fun r => (mn <=? stamp r)%Z) (r0 :: d0 ++ concat rest)). intros x Hx. apply Z.leb_le.
      simpl in Hs. destruct Hs as [H _]. simpl in Hx. destruct Hx as [<-|Hx]; [lia|]. specialize (H x Hx). lia.
Qed.

Lemma concat_nil_nonempty (dfs : list frame) : nonempty_all dfs -> concat dfs = [] -> dfs = [].
Proof. destruct dfs; auto. intros F E. inversion F; subst. simpl in E. apply app_eq_nil in E as [? _]. congruence. Qed.

Lemma window_t_nonempty T pre : (1 <= T)%Z -> pre <> [] -> window_t T pre <> [].
Proof.
  intros HT Hp. destruct (fmax_spec pre Hp) as (_ & r & Hr & E). unfold window_t, newest.
  intro F. assert (In r (filter (fun r0 => (fmax pre - T <? stamp r0)%Z) pre)).
  { apply filter_In. split; auto. apply Z.ltb_lt. lia. }
  rewrite F in H. destruct H.
Qed.

Lemma diff_loc_spec T (dfs : list frame) (pre new : frame) : (1 <= T)%Z ->
  concat dfs = window_t T pre -> nonempty_all dfs -> ssorted (pre ++ new) ->
  exists dfs' old, diff_loc true T dfs new = Some (dfs', old) /\
    concat old ++ concat dfs' = concat dfs ++ new /\
    concat dfs' = window_t T (pre ++ new) /\ nonempty_all dfs'.
Proof.
  intros HT Hc Hne Hs. unfold diff_loc.
  set (dfs1 := if isnil new then dfs else dfs ++ [new]).
  assert (E : concat dfs1 = concat dfs ++ new).
  { unfold dfs1. destruct new; simpl; [now rewrite app_nil_r|]. apply concat_snoc. }
  assert (F1 : nonempty_all dfs1) by (unfold dfs1; apply dfs1_nonempty; auto).
  clearbody dfs1.
  destruct (isnil dfs1) eqn:Hn.
  - apply isnil_true in Hn. subst dfs1. exists [], []. simpl in *. split; auto. split; auto. split; auto.
    symmetry in E. apply app_eq_nil in E as [E1 E2]. subst new. rewrite app_nil_r.
    destruct pre as [|r p]; [reflexivity|]. exfalso. apply (window_t_nonempty T (r :: p)); auto; congruence.
  - assert (Hne1 : concat dfs1 <> []).
    { intro Z0. apply concat_nil_nonempty in Z0; auto. rewrite Z0 in Hn. discriminate. }
    set (L := concat dfs1) in *.
    assert (HL : L = filter (fun r => (newest pre - T <? stamp r)%Z) pre ++ new) by (rewrite E, Hc; reflexivity).
    assert (Hpn : pre ++ new <> []).
    { intro Z0. apply app_eq_nil in Z0 as [-> ->]. now rewrite HL in Hne1. }
    (* newest of the retained rows = newest of everything seen *)
    assert (Hmx : fmax L = newest (pre ++ new)).
    { unfold newest. destruct (fmax_spec L Hne1) as (U1 & r1 & R1 & E1).
      destruct (fmax_spec (pre ++ new) Hpn) as (U2 & r2 & R2 & E2).
      apply Z.le_antisymm.
      - rewrite <- E1. apply U2. rewrite HL in R1. apply in_app_or in R1 as [R1|R1]; apply in_or_app; auto.
        apply filter_In in R1. tauto.
      - rewrite <- E2. apply U1. rewrite HL. apply in_app_or in R2 as [R2|R2]; apply in_or_app; auto.
        left. apply filter_In. split; auto. apply Z.ltb_lt.
        assert (pre <> []) by (intro Z0; subst; destruct R2).
        destruct (fmax_spec pre H) as (_ & r3 & R3 & E3). unfold newest. rewrite <- E3.
        assert (stamp r3 <= stamp r2)%Z by (rewrite E2; apply U2, in_or_app; auto). lia. }
    rewrite Hmx.
    set (mn := (newest (pre ++ new) - T + 1)%Z).
    destruct (loc_loop_spec mn (S (total_len dfs1)) dfs1 []) as (dfs' & olds & H1 & H2 & H3 & H4); auto.
    + fold L. rewrite HL. apply ssorted_app in Hs as (S1 & S2 & S3). apply ssorted_app. repeat split; auto.
      * now apply ssorted_filter.
      * intros x y Hx Hy. apply filter_In in Hx. apply S3; tauto.
    + fold L. destruct (fmax_spec L Hne1) as (_ & r & Hr & Er). exists r. split; auto. rewrite Er, Hmx. unfold mn. lia.
    + exists dfs', olds. simpl in H1. split; auto. split; [now rewrite H2|]. split; auto.
      rewrite H3. fold L. rewrite HL. unfold window_t.
      rewrite (filter_ext (fun r => (mn <=? stamp r)%Z) (fun r => (newest (pre ++ new) - T <? stamp r)%Z)).
      2:{ intros r. unfold mn. destruct (Z.leb_spec (newest (pre ++ new) - T + 1) (stamp r)),
            (Z.ltb_spec (newest (pre ++ new) - T) (stamp r)); auto; lia. }
      rewrite !filter_app. f_equal. apply filter_filter_imp.
      intros x Hx Hp. apply Z.ltb_lt in Hp. apply Z.ltb_lt.
      assert (pre <> []) by (intro Z0; subst; destruct Hx).
      destruct (fmax_spec pre H) as (_ & r3 & R3 & E3).
      destruct (fmax_spec (pre ++ new) Hpn) as (U2 & _).
      unfold newest in *. rewrite <- E3. specialize (U2 r3 (in_or_app _ _ _ (or_introl R3))). lia.
Qed.

Lemma window_t_from A h T : lawful A h -> (1 <= T)%Z -> forall batches acc pre,
  Inv A h acc (window_t T pre) -> ssorted (pre ++ concat batches) ->
  wrun_from A (WT true T) acc batches =
  map (fun k => RScal (fin A (h (window_t T (pre ++ concat (firstn k batches)))))) (seq 1 (length batches)).
Proof.
  intros L HT. induction batches as [|b t IH]; intros acc pre I Hs; [reflexivity|].
  cbn [wrun_from length]. rewrite (prefixes_cons b t (fun p => RScal (fin A (h (window_t T p))))).
  destruct I as (Hst & Hd & Hne). simpl concat in Hs. rewrite app_assoc in Hs.
  destruct (diff_loc_spec T (w_dfs acc) pre b HT Hd Hne) as (dfs' & old & D1 & D2 & D3 & D4).
  { apply ssorted_app in Hs. tauto. }
  destruct (wstep_spec A h (WT true T) acc (window_t T pre) b dfs' old L) as (acc' & Hw & I'); auto.
  - repeat split; auto.
  - now rewrite D2, Hd.
  - rewrite Hw, D3 in *. f_equal. apply IH; auto.
Qed.

(* window(value=T): for non-decreasing stamps, emitted_k = agg (rows with stamp > newest - T) *)
Theorem window_t_correct A h : lawful A h -> forall T batches, (1 <= T)%Z -> ssorted (concat batches) ->
  wrun A (WT true T) batches = map (fun p => RScal (fin A (h (window_t T p)))) (prefixes batches).
Proof.
  intros L T batches HT Hs. unfold wrun, prefixes. rewrite map_map.
  rewrite (window_t_from A h T L HT batches (wacc0 A) []); auto.
  unfold Inv, wacc0, window_t. simpl. repeat split; auto. apply (law_init A h L).
Qed.

(* ------------------------------------------------------------------------------------------------ *)
(* the aggregations are lawful                                                                        *)
(* ------------------------------------------------------------------------------------------------ *)
Local Open Scope Qc_scope.

Lemma psum_app a b : psum (a ++ b) = psum a + psum b.
Proof. induction a as [|r a IH]; simpl. - unfold q0. ring. - destruct (val r); rewrite IH; auto. ring. Qed.
Lemma psumsq_app a b : psumsq (a ++ b) = psumsq a + psumsq b.
Proof. induction a as [|r a IH]; simpl. - unfold q0. ring. - destruct (val r); rewrite IH; auto. ring. Qed.
Lemma pcount_app a b : pcount (a ++ b) = (pcount a + pcount b)%Z.
Proof.
  unfold pcount. induction a as [|r a IH]; cbn [fold_right app]; auto.
  destruct (val r); rewrite IH; lia.
Qed.
Lemma psize_app a b : psize (a ++ b) = (psize a + psize b)%Z.
Proof. unfold psize, zlen. rewrite app_length. lia. Qed.

Lemma sum_lawful : lawful sum_agg psum.
Proof.
  constructor; simpl; auto.
  - intros a b. destruct b; simpl isnil; cbv iota; [now rewrite app_nil_r|]. now rewrite psum_app.
  - intros a b _. rewrite psum_app. ring.
Qed.
Lemma count_lawful : lawful count_agg pcount.
Proof. constructor; simpl; auto; intros; rewrite pcount_app; lia. Qed.
Lemma size_lawful : lawful size_agg psize.
Proof. constructor; simpl; auto; intros; rewrite psize_app; lia. Qed.

Definition mean_h (f : frame) : Qc * Z := (psum f, pcount f).
Lemma mean_lawful scalar fx : scalar && negb fx = false -> lawful (mean_agg scalar fx) mean_h.
Proof.
  intros Hf. assert (F : forall c, mean_fix_count scalar fx c = c) by (intros; unfold mean_fix_count; now rewrite Hf).
  constructor; simpl; auto; unfold mean_h.
  - intros a b. destruct b; simpl isnil; cbv iota; rewrite F; [now rewrite app_nil_r|].
    now rewrite psum_app, pcount_app.
  - intros a b Ha. destruct a; [congruence|]. simpl isnil; cbv iota. rewrite F, psum_app, pcount_app.
    f_equal; [ring|lia].
Qed.

Definition var_h (f : frame) : Qc * Qc * Z := (psum f, psumsq f, pcount f).
Lemma var_lawful scalar fx ddof : scalar && negb fx = false -> lawful (var_agg scalar fx ddof) var_h.
Proof.
  intros Hf. constructor; simpl; auto; unfold var_h.
  - intros a b. destruct b; simpl isnil; cbv iota; [now rewrite app_nil_r|].
    now rewrite psum_app, psumsq_app, pcount_app.
  - intros a b Ha. destruct a; [congruence|]. simpl isnil; cbv iota. rewrite psum_app, psumsq_app, pcount_app.
    f_equal; [f_equal; ring|lia].
Qed.

(* ------------------------------------------------------------------------------------------------ *)
(* the as-found variants violate the property (witnesses computed by vm_compute)                       *)
(* ------------------------------------------------------------------------------------------------ *)
Definition rw (s k v : Z) : row := mkRow s k (Some (z2q v)).
Definition res_q (r : res) : Q := match r with RScal (ONum q) => this q | RScal ONan => (-1 # 1)%Q | _ => (-2 # 1)%Q end.

(* T = 3ns, batches [t=0,t=1] [t=3]: newest = 3, the row at t = 1 = newest - T + 1ns lies inside (newest-T, newest]
   but `.loc[:mn]` slices it away together with the row at t = 0: emitted sum 4 instead of 6 *)
Definition loc_witness : list frame := [[rw 0 0 1; rw 1 0 2]; [rw 3 0 4]].
Theorem diff_loc_boundary_refuted : exists T batches, (1 <= T)%Z /\ ssorted (concat batches) /\
  wrun sum_agg (WT false T) batches <> map (fun p => RScal (fin sum_agg (psum (window_t T p)))) (prefixes batches).
Proof.
  exists 3%Z, loc_witness. split; [lia|]. split.
  - simpl. repeat split; intros b Hb; simpl in Hb; intuition (subst; simpl; lia).
  - intro H. apply (f_equal (fun l => res_q (nth 1%nat l RExc))) in H. vm_compute in H. discriminate.
Qed.

(* the same defect with T = 1ns removes every retained frame: IndexError (RExc) on the second row *)
Theorem diff_loc_T1_raises : wrun sum_agg (WT false 1%Z) [[rw 0 0 1; rw 1 0 2]] = [RExc].
Proof. vm_compute. reflexivity. Qed.

(* Series.mean(): an empty first batch stores counts := 1; the next mean is divided by one too many *)
Theorem mean_scalar_count_zero_refuted : exists N batches,
  wrun (mean_agg true false) (WN N) batches <> map (fun p => RScal (mean_fin (mean_h (window_n N p)))) (prefixes batches).
Proof.
  exists 1%nat, [[]; [rw 0 0 2]]. intro H. apply (f_equal (fun l => res_q (nth 1%nat l RExc))) in H. vm_compute in H. discriminate.
Qed.

(* Series.var(): an empty first batch divides the python ints 0/0 *)
Theorem var_scalar_empty_raises : wrun (var_agg true false 1%Z) (WN 2%nat) [[]; [rw 0 0 2]] = [RExc; RScal ONan].
Proof. vm_compute. reflexivity. Qed.
