(* DF/GroupByProofs.v — streaming groupby aggregations and value_counts equal pandas on the concatenated prefix. *)
From Coq Require Import List ZArith QArith Qcanon Bool Lia.
From SZ Require Import DF.Frames.
From SZ Require Import DF.Agg.
From SZ Require Import DF.GroupBy.
From SZ Require Import DF.AggProofs.
Import ListNotations.
Local Open Scope Qc_scope.

(* ------------------------------------------------------------------ sorted duplicate-free key lists *)
Fixpoint ssorted (l : list Z) : Prop :=
  match l with [] => True | h :: t => (forall x, In x t -> (h < x)%Z) /\ ssorted t end.

Lemma ins_In k l x : In x (ins k l) <-> x = k \/ In x l.
Proof.
  induction l as [|h t IH]; cbn [ins].
  - cbn. intuition.
  - destruct (k <? h)%Z eqn:E1; [cbn; intuition|].
    destruct (k =? h)%Z eqn:E2.
    + apply Z.eqb_eq in E2. subst. cbn. intuition.
    + cbn [In]. rewrite IH. intuition.
Qed.

Lemma ins_sorted k l : ssorted l -> ssorted (ins k l).
Proof.
  induction l as [|h t IH]; cbn [ins ssorted]; intros Hs.
  - split; [intros x []|exact I].
  - destruct Hs as [Hh Ht].
    destruct (k <? h)%Z eqn:E1.
    + apply Z.ltb_lt in E1. cbn [ssorted]. split; [|split; assumption].
      intros x [<-|Hx]; [exact E1|]. specialize (Hh x Hx). lia.
    + apply Z.ltb_ge in E1. destruct (k =? h)%Z eqn:E2.
      * cbn [ssorted]. split; assumption.
      * apply Z.eqb_neq in E2. cbn [ssorted]. split; [|apply IH; exact Ht].
        intros x Hx. apply ins_In in Hx. destruct Hx as [->|Hx]; [lia|apply Hh; exact Hx].
Qed.

Lemma norm_In l x : In x (norm l) <-> In x l.
Proof.
  induction l as [|h t IH]; cbn [norm fold_right]; [tauto|].
  fold (norm t). rewrite ins_In, IH. cbn. intuition.
Qed.
Lemma norm_sorted l : ssorted (norm l).
Proof. induction l as [|h t IH]; cbn [norm fold_right]; [exact I|]. apply ins_sorted. exact IH. Qed.

Lemma ssorted_ext : forall l1 l2, ssorted l1 -> ssorted l2 -> (forall x, In x l1 <-> In x l2) -> l1 = l2.
Proof.
  induction l1 as [|h1 t1 IH]; intros [|h2 t2] H1 H2 Hx.
  - reflexivity.
  - exfalso. apply (proj2 (Hx h2)). left; reflexivity.
  - exfalso. apply (proj1 (Hx h1)). left; reflexivity.
  - cbn [ssorted] in H1, H2. destruct H1 as [Hh1 Ht1], H2 as [Hh2 Ht2].
    assert (h1 = h2).
    { pose proof (proj1 (Hx h1) (or_introl eq_refl)) as A.
      pose proof (proj2 (Hx h2) (or_introl eq_refl)) as B.
      destruct A as [A|A]; [auto|]. destruct B as [B|B]; [auto|].
      specialize (Hh2 _ A). specialize (Hh1 _ B). lia. }
    subst h2. f_equal. apply IH; auto.
    intros x. split; intros Hin.
    + pose proof (proj1 (Hx x) (or_intror Hin)) as [A|A]; [|exact A].
      subst x. specialize (Hh1 _ Hin). lia.
    + pose proof (proj2 (Hx x) (or_intror Hin)) as [A|A]; [|exact A].
      subst x. specialize (Hh2 _ Hin). lia.
Qed.

Lemma norm_app_norm a b : norm (norm a ++ norm b) = norm (a ++ b).
Proof.
  apply ssorted_ext; try apply norm_sorted.
  intros x. rewrite !norm_In, !in_app_iff, !norm_In. tauto.
Qed.

(* ------------------------------------------------------------------ groupby distributes over concatenation *)
Lemma keys_of_app a b : keys_of (a ++ b) = keys_of a ++ keys_of b.
Proof. unfold keys_of. apply flat_map_app. Qed.
Lemma rows_of_key_app k a b : rows_of_key k (a ++ b) = rows_of_key k a ++ rows_of_key k b.
Proof. apply filter_app. Qed.
Lemma rows_of_key_absent k f : ~ In k (keys_of f) -> rows_of_key k f = [].
Proof.
  induction f as [|r f IH]; cbn [keys_of flat_map rows_of_key filter]; [reflexivity|].
  fold (keys_of f). fold (rows_of_key k f). unfold has_key.
  destruct (key r) as [k'|]; cbn [app]; intros Hn.
  - destruct (k' =? k)%Z eqn:E; [apply Z.eqb_eq in E; subst; exfalso; apply Hn; left; reflexivity|].
    apply IH. intros Hin. apply Hn. right. exact Hin.
  - apply IH. exact Hn.
Qed.

Lemma map_fst_pgroupby {A} (agg : frame -> A) f : map fst (pgroupby agg f) = gkeys f.
Proof. unfold pgroupby. rewrite map_map. cbn [fst]. apply map_id. Qed.

Lemma find_keyed {A} (g : Z -> A) k l :
  find (fun p => (fst p =? k)%Z) (map (fun k' => (k', g k')) l) = if in_dec Z.eq_dec k l then Some (k, g k) else None.
Proof.
  induction l as [|h t IH]; cbn [map find]; [reflexivity|]. cbn [fst].
  destruct (h =? k)%Z eqn:E.
  - apply Z.eqb_eq in E. subst h. destruct (in_dec Z.eq_dec k (k :: t)) as [_|n]; [reflexivity|].
    exfalso. apply n. left. reflexivity.
  - apply Z.eqb_neq in E. rewrite IH.
    destruct (in_dec Z.eq_dec k t) as [i|n], (in_dec Z.eq_dec k (h :: t)) as [i'|n']; try reflexivity.
    + exfalso. apply n'. right. exact i.
    + exfalso. destruct i' as [?|?]; [congruence|contradiction].
Qed.

Lemma kget_pgroupby {A} (agg : frame -> A) d f k :
  agg [] = d -> kget d (pgroupby agg f) k = agg (rows_of_key k f).
Proof.
  intros Hd. unfold kget, pgroupby. rewrite (find_keyed (fun k' => agg (rows_of_key k' f))).
  destruct (in_dec Z.eq_dec k (gkeys f)) as [i|n]; [reflexivity|].
  rewrite rows_of_key_absent; [auto|]. intros Hin. apply n. apply norm_In. exact Hin.
Qed.

Theorem pgroupby_app {A} (agg : frame -> A) (op : A -> A -> A) (zero : A) :
  agg [] = zero -> (forall a b, agg (a ++ b) = op (agg a) (agg b)) ->
  forall f1 f2, pgroupby agg (f1 ++ f2) = kcombine op zero (pgroupby agg f1) (pgroupby agg f2).
Proof.
  intros H0 Happ f1 f2. unfold kcombine. rewrite !map_fst_pgroupby.
  unfold pgroupby at 1. unfold gkeys.
  rewrite norm_app_norm, <- keys_of_app. apply map_ext. intros k.
  rewrite !kget_pgroupby by exact H0. rewrite rows_of_key_app, Happ. reflexivity.
Qed.

Lemma pgsum_app c f1 f2 : pgsum c (f1 ++ f2) = kcombine Qcplus 0 (pgsum c f1) (pgsum c f2).
Proof. apply pgroupby_app; [reflexivity|]. intros a b. rewrite col_app, psum_app. reflexivity. Qed.
Lemma pgsumsq_app c f1 f2 : pgsumsq c (f1 ++ f2) = kcombine Qcplus 0 (pgsumsq c f1) (pgsumsq c f2).
Proof. apply pgroupby_app; [reflexivity|]. intros a b. rewrite col_app, psumsq_app. reflexivity. Qed.
Lemma pgcount_app c f1 f2 : pgcount c (f1 ++ f2) = kcombine Z.add 0%Z (pgcount c f1) (pgcount c f2).
Proof. apply pgroupby_app; [reflexivity|]. intros a b. rewrite col_app, pcount_app. reflexivity. Qed.
Lemma pgsize_app f1 f2 : pgsize (f1 ++ f2) = kcombine Z.add 0%Z (pgsize f1) (pgsize f2).
Proof. apply pgroupby_app; [reflexivity|]. intros a b. rewrite col_app, psize_app. reflexivity. Qed.

Lemma kcombine_nil_r_pg {A} (agg : frame -> A) (op : A -> A -> A) zero f :
  agg [] = zero -> (forall a b, agg (a ++ b) = op (agg a) (agg b)) ->
  kcombine op zero (pgroupby agg f) [] = pgroupby agg f.
Proof.
  intros H0 Happ. change (@nil (Z * A)) with (pgroupby agg []).
  rewrite <- (pgroupby_app agg op zero H0 Happ). rewrite app_nil_r. reflexivity.
Qed.

(* ------------------------------------------------------------------ the two grouper wirings see the same groups *)
Lemma rekey_self f : rekey f (map key f) = f.
Proof. induction f as [|[s k cs] f IH]; cbn; [reflexivity|]. rewrite IH. reflexivity. Qed.

Definition gr (gs : grouper_spec) (b : frame) : grouper :=
  match gs with GCol => None | GSer => Some (map key b) end.
Lemma grouped_gr gs b : grouped b (gr gs b) = b.
Proof. destruct gs; cbn; [reflexivity|apply rekey_self]. Qed.
Lemma empty_like_nil b g : empty_like b g = [].
Proof. destruct g; reflexivity. Qed.

Definition gfunc {S R} (gs : grouper_spec) (agg : gaggregation S R) (o : option S) (b : frame) : option (S * R) :=
  groupby_accumulator (has_grouper_of gs) agg o
    (match gs with GCol => GFrame b | GSer => GTuple b (map key b) end).

Lemma run_map {S X Y R} (F : option S -> Y -> option (S * R)) (g : X -> Y) xs : forall st,
  run F st (map g xs) = run (fun o x => F o (g x)) st xs.
Proof.
  induction xs as [|x t IH]; intros st; cbn [map run]; [reflexivity|].
  destruct (F st (g x)) as [[s r]|]; rewrite IH; reflexivity.
Qed.
Lemma grun_eq {S R} gs (agg : gaggregation S R) st bs : grun gs agg st bs = run (gfunc gs agg) st bs.
Proof. unfold grun, gfunc. destruct gs; cbn [gstream has_grouper_of]; apply run_map. Qed.

Lemma gfunc_ok {S R} gs (agg : gaggregation S R) (inv : S -> frame -> Prop) (res : frame -> R) :
  (forall b, inv (ginitial agg b (gr gs b)) []) ->
  (forall s pre b, inv s pre ->
     inv (fst (gon_new agg s b (gr gs b))) (pre ++ b) /\ snd (gon_new agg s b (gr gs b)) = res (pre ++ b)) ->
  step_ok (gfunc gs agg) inv res.
Proof.
  intros Hi Hs o pre b Hg. unfold gfunc, groupby_accumulator.
  assert (E : exists s, inv s pre /\ match o with None => ginitial agg b (gr gs b) | Some a => a end = s).
  { destruct Hg as [(s & -> & Hinv)|[-> ->]]; eauto. }
  destruct E as (s & Hinv & E).
  pose proof (Hs s pre b Hinv) as [H1 H2].
  destruct gs; cbn [has_grouper_of gr] in *; rewrite E;
    destruct (gon_new agg s b _) as [s' r]; cbn [fst snd] in *; split; auto.
Qed.

(* ------------------------------------------------------------------ instances *)
Section GroupInstances.
  Variable gs : grouper_spec.
  Variable c : nat.

  Lemma gsum_ok : step_ok (gfunc gs (gsum c)) (eqinv (pgsum c)) (pgsum c).
  Proof.
    apply gfunc_ok.
    - intros b. cbn [ginitial gsum]. rewrite empty_like_nil. reflexivity.
    - unfold eqinv. intros s pre b ->. cbn [gon_new gsum dup fst snd]. rewrite grouped_gr, <- pgsum_app. auto.
  Qed.
  Lemma gcount_ok : step_ok (gfunc gs (gcount c)) (eqinv (pgcount c)) (pgcount c).
  Proof.
    apply gfunc_ok.
    - intros b. cbn [ginitial gcount]. rewrite empty_like_nil. reflexivity.
    - unfold eqinv. intros s pre b ->. cbn [gon_new gcount dup fst snd]. rewrite grouped_gr, <- pgcount_app. auto.
  Qed.
  Lemma gsize_ok : step_ok (gfunc gs gsize) (eqinv pgsize) pgsize.
  Proof.
    apply gfunc_ok.
    - intros b. cbn [ginitial gsize]. rewrite empty_like_nil. reflexivity.
    - unfold eqinv. intros s pre b ->. cbn [gon_new gsize dup fst snd]. rewrite grouped_gr, <- pgsize_app. auto.
  Qed.

  Definition gmean_st (p : frame) := (pgsum c p, pgcount c p).
  Lemma kdiv_pg p : kdiv (pgsum c p) (pgcount c p) = pgmean c p.
  Proof.
    unfold kdiv, pgmean. unfold pgsum at 1. unfold pgroupby. rewrite map_map. apply map_ext. intros k. cbn [fst snd].
    unfold pgcount. rewrite (kget_pgroupby (fun g => pcount (col c g)) 0%Z p k eq_refl). reflexivity.
  Qed.
  Lemma gmean_ok : step_ok (gfunc gs (gmean c)) (eqinv gmean_st) (pgmean c).
  Proof.
    apply gfunc_ok.
    - intros b. cbn [ginitial gmean]. rewrite empty_like_nil. reflexivity.
    - unfold eqinv, gmean_st. intros s pre b ->. cbn [gon_new gmean fst snd].
      rewrite grouped_gr, <- pgsum_app, <- pgcount_app, kdiv_pg. auto.
  Qed.

  Definition gvar_st (p : frame) := (pgsum c p, pgsumsq c p, pgcount c p).
  Definition gvar_res (ddof : Z) (p : frame) : kmap (option Qc) :=
    pgroupby (fun g => compute_result ddof (psum (col c g)) (psumsq (col c g)) (pcount (col c g))) p.
  Lemma kvar_pg ddof p : kvar ddof (pgsum c p) (pgsumsq c p) (pgcount c p) = gvar_res ddof p.
  Proof.
    unfold kvar, gvar_res. unfold pgsum at 1. unfold pgroupby. rewrite map_map. apply map_ext. intros k. cbn [fst snd].
    unfold pgcount, pgsumsq.
    rewrite (kget_pgroupby (fun g => pcount (col c g)) 0%Z p k eq_refl).
    rewrite (kget_pgroupby (fun g => psumsq (col c g)) 0 p k eq_refl). reflexivity.
  Qed.
  Lemma gvar_ok ddof : step_ok (gfunc gs (gvar c ddof)) (eqinv gvar_st) (gvar_res ddof).
  Proof.
    apply gfunc_ok.
    - intros b. cbn [ginitial gvar]. rewrite empty_like_nil. reflexivity.
    - unfold eqinv, gvar_st. intros s pre b ->. cbn [gon_new gvar].
      destruct b as [|r0 b]; cbn [nonempty fst snd].
      + rewrite app_nil_r, kvar_pg. auto.
      + rewrite grouped_gr, <- pgsum_app, <- pgcount_app, <- pgsumsq_app, kvar_pg. auto.
  Qed.
  Lemma gvar_res_textbook ddof p : (0 <= ddof <= 1)%Z -> gvar_res ddof p = pgvar ddof c p.
  Proof.
    intros Hd. unfold gvar_res, pgvar, pgroupby. apply map_ext. intros k.
    rewrite compute_result_textbook by exact Hd. reflexivity.
  Qed.
End GroupInstances.

Lemma value_counts_ok : step_ok (accumulator value_counts_agg) (eqinv pvalue_counts) pvalue_counts.
Proof.
  apply accumulator_ok.
  - intros b. reflexivity.
  - unfold eqinv. intros s pre b ->. cbn [on_new value_counts_agg dup]. unfold pvalue_counts.
    rewrite <- pgsize_app. auto.
Qed.

(* ------------------------------------------------------------------ the theorems *)
Section GTheorems.
  Variable gs : grouper_spec.      (* grouper given as a column name, or as a streaming Series *)
  Variable c : nat.
  Variable bs : list frame.
  Variable k : nat.
  Hypothesis Hk : (1 <= k <= length bs)%nat.
  Let P := concat (firstn k bs).
  Hypothesis HP : P <> [].

  Theorem gsum_prefix : emitted (grun gs (gsum c) None bs) k = Some (pgsum c P).
  Proof. rewrite grun_eq. exact (emitted_generic _ _ _ (gsum_ok gs c) bs k Hk HP). Qed.
  Theorem gcount_prefix : emitted (grun gs (gcount c) None bs) k = Some (pgcount c P).
  Proof. rewrite grun_eq. exact (emitted_generic _ _ _ (gcount_ok gs c) bs k Hk HP). Qed.
  Theorem gsize_prefix : emitted (grun gs gsize None bs) k = Some (pgsize P).
  Proof. rewrite grun_eq. exact (emitted_generic _ _ _ (gsize_ok gs) bs k Hk HP). Qed.
  Theorem gmean_prefix : emitted (grun gs (gmean c) None bs) k = Some (pgmean c P).
  Proof. rewrite grun_eq. exact (emitted_generic _ _ _ (gmean_ok gs c) bs k Hk HP). Qed.
  (* var/std: the state is the per-key (sum x, sum x^2, n) of the prefix, the emitted value pandas' var *)
  Theorem gvar_state_prefix ddof :
    nth_error (grun gs (gvar c ddof) None bs) (k - 1)
      = Some (Some ((pgsum c P, pgsumsq c P, pgcount c P), gvar_res c ddof P)).
  Proof.
    rewrite grun_eq.
    destruct (prefix_generic _ _ _ (gvar_ok gs c ddof) bs k Hk HP) as (s & Hn & Hs).
    unfold eqinv in Hs. subst s. exact Hn.
  Qed.
  Theorem gvar_prefix ddof : (0 <= ddof <= 1)%Z -> emitted (grun gs (gvar c ddof) None bs) k = Some (pgvar ddof c P).
  Proof.
    intros Hd. rewrite <- gvar_res_textbook by exact Hd.
    rewrite grun_eq. exact (emitted_generic _ _ _ (gvar_ok gs c ddof) bs k Hk HP).
  Qed.
  Theorem value_counts_prefix : emitted (run (accumulator value_counts_agg) None bs) k = Some (pvalue_counts P).
  Proof. exact (emitted_generic _ _ _ value_counts_ok bs k Hk HP). Qed.
End GTheorems.

(* groups are sorted by key, each key once, exactly the non-NaN keys of the prefix (vanished keys stay) *)
Theorem pgroupby_keys {A} (agg : frame -> A) f :
  ssorted (map fst (pgroupby agg f)) /\ forall x, In x (map fst (pgroupby agg f)) <-> In x (keys_of f).
Proof. rewrite map_fst_pgroupby. split; [apply norm_sorted|intros x; apply norm_In]. Qed.
