(* DF/Window.v — executable model of streamz windowed aggregations (C07).

   Transcribed from /repo/streamz/dataframe/aggregations.py:
     Sum/Count/Size/Mean/Var (initial, on_new, on_old), diff_iloc, diff_loc, diff_align,
     window_accumulator, windowed_groupby_accumulator (size-state, nonzero filter),
     GroupbySum/Count/Size/Mean/Var  (acc.add / acc.sub (g.agg(), fill_value=0)),
   and the wiring of dataframe/core.py Window.aggregate / WindowedGroupBy._accumulate.

   pandas mini-model: a frame is a list of rows (index stamp, grouping key, one numeric cell);
   a cell is `option Qc` (None = NaN, Qc = canonical rationals, so equality is Leibniz equality);
   sum skips NaN, count counts non-NaN, size counts rows, groupby sorts distinct keys.
   Variants: three booleans select as-found (false) or repaired (true) behaviour of
     fx_loc  : diff_loc's `.loc[:mn]` (inclusive label slice) vs. the exclusive cut,
     fx_mean : scalar Mean storing `counts := 1` when counts == 0 vs. keeping the true count (NaN result),
     fx_var  : scalar Var dividing python ints 0/0 (ZeroDivisionError) while no row was ever seen vs. NaN. *)
From Coq Require Import List ZArith QArith Qcanon Bool Lia.
Import ListNotations.

Record row := mkRow { stamp : Z; key : Z; val : option Qc }.
Definition frame := list row.

Definition isnil {A} (l : list A) : bool := match l with [] => true | _ => false end.
Definition lastn {A} (n : nat) (l : list A) : list A := skipn (length l - n) l.
Definition zlen {A} (l : list A) : Z := Z.of_nat (length l).

(* ---------- pandas reductions on the cell column ---------- *)
Definition q0 : Qc := Q2Qc 0.
Definition q1 : Qc := Q2Qc 1.
Definition z2q (z : Z) : Qc := Q2Qc (inject_Z z).

Definition psum (f : frame) : Qc :=
  fold_right (fun r a => match val r with Some v => Qcplus v a | None => a end) q0 f.
Definition psumsq (f : frame) : Qc :=
  fold_right (fun r a => match val r with Some v => Qcplus (Qcmult v v) a | None => a end) q0 f.
Definition pcount (f : frame) : Z :=
  fold_right (fun r a => match val r with Some _ => (1 + a)%Z | None => a end) 0%Z f.
Definition psize (f : frame) : Z := zlen f.

(* ---------- results ---------- *)
Inductive onum := ONum (q : Qc) | ONan | OInf.
Inductive res := RScal (o : onum) | RMap (m : list (Z * onum)) | RList (l : list onum) | RExc.

(* ---------- aggregations: state, initial, on_new, on_old, result of the state ---------- *)
Record agg := mkAgg {
  St : Type;
  init : St;                         (* Agg.initial(new): independent of new for scalars *)
  on_new : St -> frame -> St;
  on_old : St -> frame -> St;
  fin : St -> onum;                  (* the `result` returned next to the state *)
  raises_on_pyint : bool             (* result computation divides python ints while state is still `initial` *)
}.

Definition sum_agg : agg := mkAgg Qc q0
  (fun acc new => if isnil new then acc else Qcplus acc (psum new))
  (fun acc old => Qcminus acc (psum old))
  (fun s => ONum s) false.

Definition count_agg : agg := mkAgg Z 0%Z
  (fun acc new => (acc + pcount new)%Z)
  (fun acc old => (acc - pcount old)%Z)
  (fun s => ONum (z2q s)) false.

Definition size_agg : agg := mkAgg Z 0%Z
  (fun acc new => (acc + psize new)%Z)
  (fun acc old => (acc - psize old)%Z)
  (fun s => ONum (z2q s)) false.

(* Mean: state (totals, counts).  scalar=true is the Series case where counts is a Number. *)
Definition mean_fix_count (scalar fx : bool) (c : Z) : Z :=
  if scalar && negb fx && (c =? 0)%Z then 1%Z else c.
Definition mean_fin (tc : Qc * Z) : onum :=
  if (snd tc =? 0)%Z then ONan else ONum (Qcdiv (fst tc) (z2q (snd tc))).
Definition mean_agg (scalar fx : bool) : agg := mkAgg (Qc * Z) (q0, 0%Z)
  (fun acc new => let '(t, c) := acc in
                  let '(t, c) := if isnil new then (t, c) else (Qcplus t (psum new), (c + pcount new)%Z) in
                  (t, mean_fix_count scalar fx c))
  (fun acc old => let '(t, c) := acc in
                  let '(t, c) := if isnil old then (t, c) else (Qcminus t (psum old), (c - pcount old)%Z) in
                  (t, mean_fix_count scalar fx c))
  mean_fin false.

(* Var: state (x, x2, n); result (x2/n - (x/n)^2) * n/(n-ddof) (the last factor only if ddof <> 0).
   n = 0 gives 0/0 = NaN on numpy scalars and Series; n = ddof gives 0*n/0 = NaN for n = 1 in exact arithmetic;
   for ddof >= 2 the exact value can be non-zero over zero: OInf (pandas: NaN). *)
Definition var_fin (ddof : Z) (s : Qc * Qc * Z) : onum :=
  let '(x, x2, n) := s in
  if (n =? 0)%Z then ONan else
  let nq := z2q n in
  let r := Qcminus (Qcdiv x2 nq) (Qcmult (Qcdiv x nq) (Qcdiv x nq)) in
  if (ddof =? 0)%Z then ONum r else
  if (n - ddof =? 0)%Z then (if Qc_eq_dec (Qcmult r nq) q0 then ONan else OInf)
  else ONum (Qcdiv (Qcmult r nq) (z2q (n - ddof))).
Definition var_agg (scalar fx : bool) (ddof : Z) : agg := mkAgg (Qc * Qc * Z) (q0, q0, 0%Z)
  (fun acc new => let '(x, x2, n) := acc in
                  if isnil new then acc else (Qcplus x (psum new), Qcplus x2 (psumsq new), (n + pcount new)%Z))
  (fun acc old => let '(x, x2, n) := acc in
                  if isnil old then acc else (Qcminus x (psum old), Qcminus x2 (psumsq old), (n - pcount old)%Z))
  (var_fin ddof) (scalar && negb fx).

(* ---------- diff_iloc ---------- *)
Definition total_len (dfs : list frame) : nat := length (concat dfs).

(* the `while n > 0` loop; dfs = [] with n > 0 is an IndexError in Python (unreachable: n <= total rows) *)
Fixpoint drop_front (dfs : list frame) (n : nat) : list frame * list frame :=
  match n with
  | O => (dfs, [])
  | S _ =>
    match dfs with
    | [] => ([], [])
    | d :: rest =>
      if (length d <=? n)%nat
      then let '(k, old) := drop_front rest (n - length d) in (k, d :: old)
      else (skipn n d :: rest, [firstn n d])
    end
  end.

Definition diff_iloc (window : nat) (dfs : list frame) (new : frame) : list frame * list frame :=
  let dfs1 := if isnil new then dfs else dfs ++ [new] in
  if isnil dfs1 then (dfs1, []) else drop_front dfs1 (total_len dfs1 - window).

(* ---------- diff_loc ---------- *)
Definition smax (f : frame) (d : Z) : Z := fold_right (fun r a => Z.max (stamp r) a) d f.
Definition smin (f : frame) (d : Z) : Z := fold_right (fun r a => Z.min (stamp r) a) d f.
Definition fmax (f : frame) : Z := match f with [] => 0%Z | r :: t => smax t (stamp r) end.
Definition fmin (f : frame) : Z := match f with [] => 0%Z | r :: t => smin t (stamp r) end.

Fixpoint takewhile {A} (p : A -> bool) (l : list A) : list A :=
  match l with [] => [] | a :: t => if p a then a :: takewhile p t else [] end.
Fixpoint dropwhile {A} (p : A -> bool) (l : list A) : list A :=
  match l with [] => [] | a :: t => if p a then dropwhile p t else l end.

(* `dfs[0].loc[:mn]` on a monotonic index = the rows up to and INCLUDING label mn.
   The repaired code slices `.loc[:mn - 1ns]`, i.e. strictly below mn. *)
Definition loc_upto (fx : bool) (mn : Z) (d : frame) : frame :=
  takewhile (fun r => if fx then (stamp r <? mn)%Z else (stamp r <=? mn)%Z) d.

(* the `while Timestamp(dfs[0].index.min()) < mn` loop, on fuel (each round removes >= 1 row on sorted data);
   dfs = [] inside the loop is Python's `IndexError: deque index out of range`: reported as None *)
Fixpoint loc_loop (fuel : nat) (fx : bool) (mn : Z) (dfs old : list frame) : option (list frame * list frame) :=
  match fuel with
  | O => Some (dfs, old)
  | S f =>
    match dfs with
    | [] => None
    | d :: rest =>
      if (fmin d <? mn)%Z then
        let o := loc_upto fx mn d in
        let d' := skipn (length o) d in
        loc_loop f fx mn (if isnil d' then rest else d' :: rest) (old ++ [o])
      else Some (dfs, old)
    end
  end.

Definition diff_loc (fx : bool) (T : Z) (dfs : list frame) (new : frame) : option (list frame * list frame) :=
  let dfs1 := if isnil new then dfs else dfs ++ [new] in
  if isnil dfs1 then Some (dfs1, []) else
  let mx := fmax (concat dfs1) in          (* max(df.index.max() for df in dfs) *)
  let mn := (mx - T + 1)%Z in
  loc_loop (S (total_len dfs1)) fx mn dfs1 [].

(* ---------- window_accumulator ---------- *)
(* WE: expanding() = window_accumulator with diff_expanding (nothing ever decays) *)
Inductive wkind := WN (n : nat) | WT (fx : bool) (T : Z) | WE.

Definition diff (w : wkind) (dfs : list frame) (new : frame) : option (list frame * list frame) :=
  match w with
  | WN n => Some (diff_iloc n dfs new)
  | WT fx T => diff_loc fx T dfs new
  | WE => Some (if isnil new then dfs else dfs ++ [new], [])
  end.

Record wacc (A : agg) := mkWacc { w_pyint : bool; w_dfs : list frame; w_state : St A }.
Arguments mkWacc {A}. Arguments w_pyint {A}. Arguments w_dfs {A}. Arguments w_state {A}.

Definition wacc0 (A : agg) : wacc A := mkWacc true [] (init A).

Definition decay (A : agg) (st : St A) (old : list frame) : St A :=
  fold_left (fun s o => if isnil o then s else on_old A s o) old st.

(* one call of window_accumulator; an exception leaves the accumulate node's state untouched *)
Definition wstep (A : agg) (w : wkind) (acc : wacc A) (new : frame) : wacc A * res :=
  match diff w (w_dfs acc) new with
  | None => (acc, RExc)
  | Some (dfs', old) =>
    let st1 := on_new A (w_state acc) new in
    let py := w_pyint acc && isnil new in
    if raises_on_pyint A && py then (acc, RExc) else
    let st2 := decay A st1 old in
    (mkWacc py dfs' st2, RScal (fin A st2))
  end.

Fixpoint wrun_from (A : agg) (w : wkind) (acc : wacc A) (batches : list frame) : list res :=
  match batches with
  | [] => []
  | b :: t => let '(acc', r) := wstep A w acc b in r :: wrun_from A w acc' t
  end.
Definition wrun (A : agg) (w : wkind) (batches : list frame) : list res := wrun_from A w (wacc0 A) batches.

(* ---------- finite maps: association lists sorted by key (a pandas Series indexed by group key) ---------- *)
Fixpoint lookup {A} (k : Z) (m : list (Z * A)) : option A :=
  match m with [] => None | (k', v) :: t => if (k =? k')%Z then Some v else lookup k t end.

Fixpoint mupd {A} (f : option A -> A) (k : Z) (m : list (Z * A)) : list (Z * A) :=
  match m with
  | [] => [(k, f None)]
  | (k', v) :: t =>
    if (k <? k')%Z then (k, f None) :: m
    else if (k =? k')%Z then (k, f (Some v)) :: t
    else (k', v) :: mupd f k t
  end.

Fixpoint kinsert (k : Z) (l : list Z) : list Z :=
  match l with
  | [] => [k]
  | k' :: t => if (k <? k')%Z then k :: l else if (k =? k')%Z then l else k' :: kinsert k t
  end.
(* sorted distinct group keys of a frame *)
Definition skeys (f : frame) : list Z := fold_right (fun r a => kinsert (key r) a) [] f.
Definition rows_of (k : Z) (f : frame) : frame := filter (fun r => (key r =? k)%Z) f.

(* ---------- groupby aggregations over a scalar aggregation A ----------
   on_new: acc.add(g.agg(), fill_value=0); on_old: acc.sub(g.agg(), fill_value=0)  (per component of the state) *)
Definition gstate (A : agg) := list (Z * St A).
Definition g_on_new (A : agg) (m : gstate A) (new : frame) : gstate A :=
  fold_left (fun m k => mupd (fun o => on_new A (match o with Some s => s | None => init A end) (rows_of k new)) k m)
            (skeys new) m.
Definition g_on_old (A : agg) (m : gstate A) (old : frame) : gstate A :=
  fold_left (fun m k => mupd (fun o => on_old A (match o with Some s => s | None => init A end) (rows_of k old)) k m)
            (skeys old) m.

(* ---------- diff_align ---------- *)
Fixpoint popn {A} (n : nat) (l : list A) : list A * list A :=     (* (popped, remaining) *)
  match n with O => ([], l) | S n' => match l with [] => ([], []) | a :: t => let '(p, r) := popn n' t in (a :: p, r) end end.

Definition diff_align (dfs : list frame) (groupers : list (list Z)) : list (list Z) * list (list Z) :=
  let '(old, gs) := popn (length groupers - length dfs) groupers in
  match dfs, gs with
  | d :: _, g :: gt =>
    let n := (length g - length d)%nat in
    if (n =? 0)%nat then (old, gs) else (old ++ [firstn n g], skipn n g :: gt)
  | _, _ => (old, gs)
  end.

(* regroup a frame by an explicit grouper column (positional) *)
Fixpoint rekey (f : frame) (g : list Z) : frame :=
  match f, g with
  | r :: t, k :: gt => mkRow (stamp r) k (val r) :: rekey t gt
  | _, _ => []
  end.

(* ---------- windowed_groupby_accumulator ---------- *)
Record gacc (A : agg) := mkGacc { g_dfs : list frame; g_state : gstate A; g_size : gstate size_agg;
                                  g_groupers : list (list Z) }.
Arguments mkGacc {A}. Arguments g_dfs {A}. Arguments g_state {A}. Arguments g_size {A}. Arguments g_groupers {A}.
Definition gacc0 (A : agg) : gacc A := mkGacc [] [] [] [].

Fixpoint zip {A B} (a : list A) (b : list B) : list (A * B) :=
  match a, b with x :: ta, y :: tb => (x, y) :: zip ta tb | _, _ => [] end.

Definition gdecay (A : agg) (st : gstate A) (old : list frame) : gstate A :=
  fold_left (fun s o => if isnil o then s else g_on_old A s o) old st.

Definition nonzero (sz : gstate size_agg) (k : Z) : bool :=
  match lookup k sz with Some n => negb (n =? 0)%Z | None => false end.

(* streaming = true: the grouper is a second stream (zip), kept in `groupers` and aligned by diff_align;
   streaming = false: the grouper is a column of the frame itself *)
Definition gstep (A : agg) (streaming : bool) (w : wkind) (acc : gacc A) (new : frame) : gacc A * res :=
  match diff w (g_dfs acc) new with
  | None => (acc, RExc)
  | Some (dfs', old) =>
    let grouper := map key new in
    let '(old_keyed, groupers') :=
      if streaming then
        let gs := if isnil grouper then g_groupers acc else g_groupers acc ++ [grouper] in
        let '(old_g, gs') := diff_align dfs' gs in
        (map (fun og => rekey (fst og) (snd og)) (zip old old_g), gs')
      else (old, []) in
    let st1 := g_on_new A (g_state acc) new in
    let sz1 := g_on_new size_agg (g_size acc) new in
    let st2 := gdecay A st1 old_keyed in
    let sz2 := gdecay size_agg sz1 old_keyed in
    let sz3 := filter (fun kv => negb (snd kv =? 0)%Z) sz2 in
    let st3 := filter (fun kv => nonzero sz2 (fst kv)) st2 in
    (mkGacc dfs' st3 sz3 groupers', RMap (map (fun kv => (fst kv, fin A (snd kv))) st3))
  end.

Fixpoint grun_from (A : agg) (streaming : bool) (w : wkind) (acc : gacc A) (batches : list frame) : list res :=
  match batches with
  | [] => []
  | b :: t => let '(acc', r) := gstep A streaming w acc b in r :: grun_from A streaming w acc' t
  end.
Definition grun (A : agg) (streaming : bool) (w : wkind) (batches : list frame) : list res :=
  grun_from A streaming w (gacc0 A) batches.

(* ---------- the property's right-hand side: pandas on exactly the rows inside the window ---------- *)
Definition newest (rows : frame) : Z := fmax rows.
Definition window_n (N : nat) (rows : frame) : frame := lastn N rows.
Definition window_t (T : Z) (rows : frame) : frame := filter (fun r => (newest rows - T <? stamp r)%Z) rows.
Definition window_of (w : wkind) (rows : frame) : frame :=
  match w with WN n => window_n n rows | WT _ T => window_t T rows | WE => rows end.

Definition prefixes (batches : list frame) : list frame :=
  map (fun k => concat (firstn k batches)) (seq 1 (length batches)).

(* pandas groupby(key).agg(): one entry per distinct key, sorted, aggregated over that key's rows *)
Definition pd_groupby {B} (f : frame -> B) (rows : frame) : list (Z * B) :=
  map (fun k => (k, f (rows_of k rows))) (skeys rows).

(* ---------- correspondence: cases generated by harness/check_c07.py ---------- *)
Inductive aggname := ASum | ACount | ASize | AMean | AVar (ddof : Z).
Record flags := mkFlags { fx_loc : bool; fx_mean : bool; fx_var : bool }.

Definition agg_of (fl : flags) (scalar : bool) (a : aggname) : agg :=
  match a with
  | ASum => sum_agg | ACount => count_agg | ASize => size_agg
  | AMean => mean_agg scalar (fx_mean fl)
  | AVar d => var_agg scalar (fx_var fl) d
  end.

Record wcase := mkCase { c_kind_n : bool; c_w : Z; c_agg : aggname; c_group : nat;   (* 0 none, 1 column, 2 stream *)
                         c_batches : list frame; c_obs : list res }.

Definition kind_of (fl : flags) (c : wcase) : wkind :=
  if c_kind_n c then WN (Z.to_nat (c_w c)) else WT (fx_loc fl) (c_w c).

Definition model_run (fl : flags) (c : wcase) : list res :=
  match c_group c with
  | O => wrun (agg_of fl true (c_agg c)) (kind_of fl c) (c_batches c)
  | S O => grun (agg_of fl false (c_agg c)) false (kind_of fl c) (c_batches c)
  | _ => grun (agg_of fl false (c_agg c)) true (kind_of fl c) (c_batches c)
  end.

(* |a-b| <= 1e-9 * max(1,|a|,|b|): exact for integer-valued results, tolerance only matters for quotients *)
Definition qabs (q : Q) : Q := if Qle_bool 0 q then q else Qopp q.
Definition qmax (a b : Q) : Q := if Qle_bool a b then b else a.
Definition qclose (a b : Qc) : bool :=
  Qle_bool (qabs (this a - this b)) (Qmult (1 # 1000000000) (qmax 1 (qmax (qabs (this a)) (qabs (this b))))).
Definition onum_close (a b : onum) : bool :=
  match a, b with
  | ONum x, ONum y => qclose x y
  | ONan, ONan => true
  | OInf, OInf => true
  | _, _ => false
  end.
Fixpoint all2 {A B} (p : A -> B -> bool) (a : list A) (b : list B) : bool :=
  match a, b with
  | [], [] => true
  | x :: ta, y :: tb => p x y && all2 p ta tb
  | _, _ => false
  end.
Definition res_close (a b : res) : bool :=
  match a, b with
  | RScal x, RScal y => onum_close x y
  | RMap x, RMap y => all2 (fun p q => (fst p =? fst q)%Z && onum_close (snd p) (snd q)) x y
  | RList x, RList y => all2 onum_close x y
  | RExc, RExc => true
  | _, _ => false
  end.
Definition agree (fl : flags) (c : wcase) : bool := all2 res_close (model_run fl c) (c_obs c).

Fixpoint mism_from (fl : flags) (i : nat) (cs : list wcase) : list nat :=
  match cs with
  | [] => []
  | c :: t => if agree fl c then mism_from fl (S i) t else i :: mism_from fl (S i) t
  end.
Definition mismatches (fl : flags) (cs : list wcase) : list nat := mism_from fl 0 cs.

Definition all_flags : list flags :=
  [ mkFlags false false false; mkFlags true false false; mkFlags false true false; mkFlags true true false;
    mkFlags false false true;  mkFlags true false true;  mkFlags false true true;  mkFlags true true true ].
