(* DF/GroupBy.v — GroupbySum/Count/Size/Mean/Var, ValueCounts and `groupby_accumulator`
   (streamz/dataframe/aggregations.py 423-602) with the wiring of GroupBy._accumulate (dataframe/core.py 806-838):
   a column-name grouper is stored in the aggregation object and the stream carries frames; a streaming-Series
   grouper leaves `agg.grouper = None` and the stream carries `zip(frame, grouper)` tuples.

   One value column `c` is modelled (SeriesGroupBy); a DataFrameGroupBy over columns cs behaves as the family
   of its columns sharing one key index (done in AggCase.v by `map` over cs).
   `totals / counts` and `_compute_result(x, x2, n)` are index-aligned Series operations; the state components
   always carry the same keys, the model looks the other components up by key. *)
From Coq Require Import List ZArith QArith Qcanon Bool Lia.
From SZ Require Import DF.Frames.
From SZ Require Import DF.Agg.
Import ListNotations.
Local Open Scope Qc_scope.

Definition grouper := option (list (option Z)).    (* None: use self.grouper (the key column) *)

(* GroupbyAggregation.grouped(df, grouper) *)
Definition grouped (df : frame) (g : grouper) : frame :=
  match g with None => df | Some ks => rekey df ks end.
Definition empty_like (df : frame) (g : grouper) : frame :=      (* grouped(new.iloc[:0], grouper[:0]) *)
  grouped (firstn 0 df) (option_map (firstn 0) g).

Record gaggregation (S R : Type) := mkgagg {
  ginitial : frame -> grouper -> S;
  gon_new : S -> frame -> grouper -> S * R;
  gon_old : S -> frame -> grouper -> S * R }.
Arguments ginitial {S R}. Arguments gon_new {S R}. Arguments gon_old {S R}. Arguments mkgagg {S R}.

Definition kdiv (t : kmap Qc) (n : kmap Z) : kmap (option Qc) :=
  map (fun p => (fst p, qdivz (snd p) (kget 0%Z n (fst p)))) t.
Definition kvar (ddof : Z) (x x2 : kmap Qc) (n : kmap Z) : kmap (option Qc) :=
  map (fun p => (fst p, compute_result ddof (snd p) (kget 0 x2 (fst p)) (kget 0%Z n (fst p)))) x.

Section OneColumn.
  Variable c : nat.

  Definition gsum : gaggregation (kmap Qc) (kmap Qc) := mkgagg
    (fun new g => pgsum c (empty_like new g))
    (fun acc new g => dup (kcombine Qcplus 0 acc (pgsum c (grouped new g))))
    (fun acc old g => dup (kcombine Qcminus 0 acc (pgsum c (grouped old g)))).

  Definition gcount : gaggregation (kmap Z) (kmap Z) := mkgagg
    (fun new g => pgcount c (empty_like new g))
    (fun acc new g => dup (kcombine Z.add 0%Z acc (pgcount c (grouped new g))))
    (fun acc old g => dup (kcombine Z.sub 0%Z acc (pgcount c (grouped old g)))).

  Definition gsize : gaggregation (kmap Z) (kmap Z) := mkgagg
    (fun new g => pgsize (empty_like new g))
    (fun acc new g => dup (kcombine Z.add 0%Z acc (pgsize (grouped new g))))
    (fun acc old g => dup (kcombine Z.sub 0%Z acc (pgsize (grouped old g)))).

  Definition gmean : gaggregation (kmap Qc * kmap Z) (kmap (option Qc)) := mkgagg
    (fun new g => (pgsum c (empty_like new g), pgcount c (empty_like new g)))
    (fun acc new g => let '(t, n) := acc in
       let t := kcombine Qcplus 0 t (pgsum c (grouped new g)) in
       let n := kcombine Z.add 0%Z n (pgcount c (grouped new g)) in
       ((t, n), kdiv t n))
    (fun acc old g => let '(t, n) := acc in
       let t := kcombine Qcminus 0 t (pgsum c (grouped old g)) in
       let n := kcombine Z.sub 0%Z n (pgcount c (grouped old g)) in
       ((t, n), kdiv t n)).

  Definition gvar (ddof : Z) : gaggregation (kmap Qc * kmap Qc * kmap Z) (kmap (option Qc)) := mkgagg
    (fun new g => (pgsum c (empty_like new g), pgsumsq c (empty_like new g), pgcount c (empty_like new g)))
    (fun acc new g => let '(x, x2, n) := acc in
       let '(x, x2, n) := if nonempty new
         then (kcombine Qcplus 0 x (pgsum c (grouped new g)),
               kcombine Qcplus 0 x2 (pgsumsq c (grouped new g)),
               kcombine Z.add 0%Z n (pgcount c (grouped new g)))
         else (x, x2, n) in
       ((x, x2, n), kvar ddof x x2 n))
    (fun acc old g => let '(x, x2, n) := acc in
       let '(x, x2, n) := if nonempty old
         then (kcombine Qcminus 0 x (pgsum c (grouped old g)),
               kcombine Qcminus 0 x2 (pgsumsq c (grouped old g)),
               kcombine Z.sub 0%Z n (pgcount c (grouped old g)))
         else (x, x2, n) in
       ((x, x2, n), kvar ddof x x2 n)).
End OneColumn.

(* what travels on the stream in front of the accumulate node *)
Inductive gnew := GFrame (f : frame) | GTuple (f : frame) (g : list (option Z)).

(* groupby_accumulator(acc, new, agg): `has_grouper` = (agg.grouper is not None).
   A tuple reaching an aggregation that owns its grouper would be used as a frame and raise: None. *)
Definition groupby_accumulator {S R} (has_grouper : bool) (agg : gaggregation S R) (acc : option S) (new : gnew)
  : option (S * R) :=
  match has_grouper, new with
  | false, GTuple f g =>
      let acc := match acc with None => ginitial agg f (Some g) | Some a => a end in
      Some (gon_new agg acc f (Some g))
  | _, GFrame f =>
      let acc := match acc with None => ginitial agg f None | Some a => a end in
      Some (gon_new agg acc f None)
  | true, GTuple _ _ => None
  end.

(* GroupBy._accumulate: which stream feeds the accumulate node *)
Inductive grouper_spec := GCol | GSer.
Definition has_grouper_of (gs : grouper_spec) : bool := match gs with GCol => true | GSer => false end.
Definition gstream (gs : grouper_spec) (bs : list frame) : list gnew :=
  match gs with
  | GCol => map GFrame bs                                   (* stream = self.root.stream *)
  | GSer => map (fun b => GTuple b (map key b)) bs          (* stream = self.root.stream.zip(self.grouper.stream) *)
  end.
Definition grun {S R} (gs : grouper_spec) (agg : gaggregation S R) (start : option S) (bs : list frame) :=
  run (groupby_accumulator (has_grouper_of gs) agg) start (gstream gs bs).

(* ValueCounts (Series.value_counts: plain `accumulator`); the counted series sits in the key field *)
Definition value_counts_agg : aggregation (kmap Z) (kmap Z) := mkagg
  (fun new => pvalue_counts (firstn 0 new))
  (fun acc new => Some (dup (kcombine Z.add 0%Z acc (pvalue_counts new))))
  (fun acc old => Some (dup (kcombine Z.sub 0%Z acc (pvalue_counts old)))).
