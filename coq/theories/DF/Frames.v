(* DF/Frames.v — mini-model of what the streaming aggregations use from pandas.

   MODELLED, NOT VERIFIED (differentially tested against real pandas by harness/check_c06.py):
   * a frame is a list of rows in index order; a row carries its index stamp, the value of the grouping
     column (`key`, None = NaN, integers only) and the numeric cells (`None` = NaN) as exact rationals (Qc,
     canonical rationals, so equality is Leibniz equality);
   * reductions skip NaN: sum of nothing = 0, count counts non-NaN, size counts rows, mean = sum/count
     (NaN, i.e. None, when count = 0), var with ddof = sum of squared deviations / (count - ddof), NaN when
     count <= ddof;
   * groupby drops NaN keys and yields one entry per distinct key, sorted by key;
   * `a.add(b, fill_value=0)` on key-indexed series: union of the keys (sorted), missing side counted as 0;
   * value_counts = sizes of the groups of equal non-NaN values.
   Outside the model: float rounding, dtypes, index names, non-integer keys, +-inf. *)
From Coq Require Import List ZArith QArith Qcanon Bool Lia.
Import ListNotations.
Local Open Scope Qc_scope.

Definition mkq (a : Z) (b : positive) : Qc := Q2Qc (Qmake a b).
Definition zq (n : Z) : Qc := Q2Qc (inject_Z n).

Record row := mkrow { stamp : Z; key : option Z; cells : list (option Qc) }.
Definition frame := list row.
Definition series := list (option Qc).

Definition cell (c : nat) (r : row) : option Qc := nth c (cells r) None.
Definition col (c : nat) (f : frame) : series := map (cell c) f.

(* ---- reductions over one column ---- *)
Fixpoint psum (s : series) : Qc :=
  match s with [] => 0 | None :: t => psum t | Some v :: t => v + psum t end.
Fixpoint pcount (s : series) : Z :=
  match s with [] => 0%Z | None :: t => pcount t | Some _ :: t => (1 + pcount t)%Z end.
Definition psize (s : series) : Z := Z.of_nat (length s).
Definition sq (s : series) : series := map (option_map (fun v => v * v)) s.   (* new ** 2 *)
Definition psumsq (s : series) : Qc := psum (sq s).

(* a / n for a count n; the totals are 0 whenever the count is 0, so n = 0 means 0/0 = NaN *)
Definition qdivz (a : Qc) (n : Z) : option Qc := if (n =? 0)%Z then None else Some (a / zq n).
Definition pmean (s : series) : option Qc := qdivz (psum s) (pcount s).

(* sum of squared deviations from m of the non-NaN entries *)
Fixpoint pdev2 (m : Qc) (s : series) : Qc :=
  match s with [] => 0 | None :: t => pdev2 m t | Some v :: t => (v - m) * (v - m) + pdev2 m t end.
(* pandas var(ddof): NaN unless count > ddof *)
Definition pvar (ddof : Z) (s : series) : option Qc :=
  let n := pcount s in
  if (n <=? ddof)%Z then None else Some (pdev2 (psum s / zq n) s / zq (n - ddof)).

(* ---- keys, groups ---- *)
Definition has_key (k : Z) (r : row) : bool := match key r with Some k' => (k' =? k)%Z | None => false end.
Definition rows_of_key (k : Z) (f : frame) : frame := filter (has_key k) f.
Definition keys_of (f : frame) : list Z := flat_map (fun r => match key r with Some k => [k] | None => [] end) f.

Fixpoint ins (k : Z) (l : list Z) : list Z :=
  match l with
  | [] => [k]
  | h :: t => if (k <? h)%Z then k :: l else if (k =? h)%Z then l else h :: ins k t
  end.
Definition norm (l : list Z) : list Z := fold_right ins [] l.      (* sorted, duplicate-free *)
Definition gkeys (f : frame) : list Z := norm (keys_of f).

Definition kmap (A : Type) := list (Z * A).
(* df.groupby(key)[c].agg : one entry per key present, sorted *)
Definition pgroupby {A} (agg : frame -> A) (f : frame) : kmap A :=
  map (fun k => (k, agg (rows_of_key k f))) (gkeys f).

Definition kget {A} (d : A) (m : kmap A) (k : Z) : A :=
  match find (fun p => (fst p =? k)%Z) m with Some p => snd p | None => d end.
(* m1.add(m2, fill_value=zero) / m1.sub(m2, fill_value=zero) *)
Definition kcombine {A} (op : A -> A -> A) (zero : A) (m1 m2 : kmap A) : kmap A :=
  map (fun k => (k, op (kget zero m1 k) (kget zero m2 k))) (norm (map fst m1 ++ map fst m2)).

Definition pgsum (c : nat) := pgroupby (fun g => psum (col c g)).
Definition pgsumsq (c : nat) := pgroupby (fun g => psumsq (col c g)).
Definition pgcount (c : nat) := pgroupby (fun g => pcount (col c g)).
Definition pgsize := pgroupby (fun g => psize (col 0 g)).
Definition pgmean (c : nat) := pgroupby (fun g => pmean (col c g)).
Definition pgvar (ddof : Z) (c : nat) := pgroupby (fun g => pvar ddof (col c g)).
(* s.value_counts() for the series held in the key field (NaN dropped); compared sorted by value *)
Definition pvalue_counts := pgsize.

(* re-keying a frame by a separately supplied grouper series (df.groupby(series)): rows and grouper are
   aligned on the index; both come from the same batch so they align positionally *)
Fixpoint rekey (f : frame) (g : list (option Z)) : frame :=
  match f, g with
  | r :: f', k :: g' => mkrow (stamp r) k (cells r) :: rekey f' g'
  | _, _ => []
  end.

(* boolean filter `df[df.x > t]` (NaN > t is False) *)
Definition qlt (a b : Qc) : bool := match (this a ?= this b)%Q with Lt => true | _ => false end.
Definition pfilter_gt (c : nat) (t : Qc) (f : frame) : frame :=
  filter (fun r => match cell c r with Some v => qlt t v | None => false end) f.
