(* DF/AggProofs.v — streaming reductions equal pandas on the concatenated prefix (C06), for all batch sequences. *)
From Coq Require Import List ZArith QArith Qcanon Bool Lia.
From SZ Require Import DF.Frames.
From SZ Require Import DF.Agg.
Import ListNotations.
Local Open Scope Qc_scope.

(* ------------------------------------------------------------------ arithmetic on counts *)
Lemma zq_add a b : zq (a + b) = zq a + zq b.
Proof.
  unfold zq, Qcplus. apply Q2Qc_eq_iff. cbn [this Q2Qc]. rewrite !Qred_correct, inject_Z_plus. reflexivity.
Qed.
Lemma zq_0 : zq 0 = 0. Proof. reflexivity. Qed.
Lemma zq_1 : zq 1 = 1. Proof. apply Qc_is_canon. reflexivity. Qed.
Lemma zq_opp a : zq (- a) = - zq a.
Proof.
  unfold zq, Qcopp. apply Q2Qc_eq_iff. cbn [this Q2Qc]. rewrite Qred_correct, inject_Z_opp. reflexivity.
Qed.
Lemma zq_sub a b : zq (a - b) = zq a - zq b.
Proof. unfold Z.sub. rewrite zq_add, zq_opp. reflexivity. Qed.
Lemma zq_nonzero n : n <> 0%Z -> zq n <> 0.
Proof.
  intros Hn H. unfold zq in H. apply Q2Qc_eq_iff in H. unfold Qeq in H. cbn in H. lia.
Qed.

(* ------------------------------------------------------------------ reductions distribute over concatenation *)
Lemma col_app c a b : col c (a ++ b) = col c a ++ col c b.
Proof. apply map_app. Qed.
Lemma psum_app a b : psum (a ++ b) = psum a + psum b.
Proof. induction a as [|[v|] a IH]; cbn [psum app]; rewrite ?IH; ring. Qed.
Lemma pcount_app a b : pcount (a ++ b) = (pcount a + pcount b)%Z.
Proof. induction a as [|[v|] a IH]; cbn [pcount app]; rewrite ?IH; lia. Qed.
Lemma psize_app a b : psize (a ++ b) = (psize a + psize b)%Z.
Proof. unfold psize. rewrite app_length. lia. Qed.
Lemma sq_app a b : sq (a ++ b) = sq a ++ sq b.
Proof. apply map_app. Qed.
Lemma psumsq_app a b : psumsq (a ++ b) = psumsq a + psumsq b.
Proof. unfold psumsq. rewrite sq_app. apply psum_app. Qed.
Lemma pcount_nonneg s : (0 <= pcount s)%Z.
Proof. induction s as [|[v|] s IH]; cbn [pcount]; lia. Qed.

Lemma zipw_map {A B C D} (f : A -> B -> C) (g : D -> A) (h : D -> B) l :
  zipw f (map g l) (map h l) = map (fun x => f (g x) (h x)) l.
Proof. induction l; cbn; congruence. Qed.

(* ------------------------------------------------------------------ generic invariant argument *)
Fixpoint prefixes (pre : frame) (bs : list frame) : list frame :=
  match bs with [] => [] | b :: t => (pre ++ b) :: prefixes (pre ++ b) t end.

Lemma prefixes_nth : forall bs pre k, (k < length bs)%nat ->
  nth_error (prefixes pre bs) k = Some (pre ++ concat (firstn (S k) bs)).
Proof.
  induction bs as [|b t IH]; intros pre k Hk; cbn [length] in Hk; [lia|].
  destruct k as [|k].
  - cbn. rewrite app_nil_r. reflexivity.
  - cbn [prefixes nth_error]. rewrite IH by lia.
    change (firstn (S (S k)) (b :: t)) with (b :: firstn (S k) t).
    cbn [concat]. rewrite app_assoc. reflexivity.
Qed.

Lemma Forall2_nth_error {A B} (P : A -> B -> Prop) l1 l2 k y :
  Forall2 P l1 l2 -> nth_error l2 k = Some y -> exists x, nth_error l1 k = Some x /\ P x y.
Proof.
  intros H. revert k. induction H; intros [|k] Hk; cbn in *; try discriminate.
  - inversion Hk; subst. eauto.
  - eauto.
Qed.

Section Prefix.
  Context {St Rs : Type}.
  Variable f : option St -> frame -> option (St * Rs).
  Variable inv : St -> frame -> Prop.       (* what the state is after the prefix p *)
  Variable res : frame -> Rs.               (* what must be emitted after the prefix p *)

  Definition good (o : option St) (pre : frame) : Prop :=
    (exists s, o = Some s /\ inv s pre) \/ (o = None /\ pre = []).
  Definition step_ok : Prop := forall o pre b, good o pre ->
    match f o b with
    | Some (s, r) => inv s (pre ++ b) /\ (pre ++ b <> [] -> r = res (pre ++ b))
    | None => pre ++ b = []                (* a raise is tolerated only while nothing has been seen *)
    end.
  Hypothesis Hf : step_ok.

  Lemma run_prefix : forall bs o pre, good o pre ->
    Forall2 (fun out p => p <> [] -> exists s, out = Some (s, res p) /\ inv s p) (run f o bs) (prefixes pre bs).
  Proof.
    induction bs as [|b t IH]; intros o pre Hg; cbn [run prefixes]; [constructor|].
    pose proof (Hf o pre b Hg) as H. destruct (f o b) as [[s r]|].
    - destruct H as [Hi Hr]. constructor.
      + intros Hp. exists s. rewrite (Hr Hp). auto.
      + apply IH. left. eauto.
    - constructor; [intros Hp; contradiction|].
      apply IH. destruct (app_eq_nil _ _ H) as [-> ->]. exact Hg.
  Qed.

  Theorem prefix_generic : forall (bs : list frame) k, (1 <= k <= length bs)%nat ->
    let P := concat (firstn k bs) in P <> [] ->
    exists s, nth_error (run f None bs) (k - 1) = Some (Some (s, res P)) /\ inv s P.
  Proof.
    intros bs k Hk P HP.
    assert (Hg : good None []) by (right; auto).
    pose proof (run_prefix bs None [] Hg) as H.
    assert (Hn : nth_error (prefixes [] bs) (k - 1) = Some P).
    { rewrite prefixes_nth by lia. replace (S (k - 1)) with k by lia. reflexivity. }
    destruct (Forall2_nth_error _ _ _ _ _ H Hn) as (x & Hx & Hp).
    destruct (Hp HP) as (s & -> & Hi). eauto.
  Qed.

  Corollary emitted_generic : forall (bs : list frame) k, (1 <= k <= length bs)%nat ->
    concat (firstn k bs) <> [] -> emitted (run f None bs) k = Some (res (concat (firstn k bs))).
  Proof.
    intros bs k Hk HP. destruct (prefix_generic bs k Hk HP) as (s & Hn & _).
    unfold emitted. rewrite Hn. reflexivity.
  Qed.
End Prefix.

(* `accumulator`: start=None makes the first call use agg.initial(new) *)
Lemma accumulator_ok {S R} (agg : aggregation S R) (inv : S -> frame -> Prop) (res : frame -> R) :
  (forall b, inv (initial agg b) []) ->
  (forall s pre b, inv s pre ->
     match on_new agg s b with
     | Some (s', r) => inv s' (pre ++ b) /\ (pre ++ b <> [] -> r = res (pre ++ b))
     | None => pre ++ b = []
     end) ->
  step_ok (accumulator agg) inv res.
Proof.
  intros Hi Hs o pre b [(s & -> & Hinv)|[-> ->]]; unfold accumulator.
  - apply Hs. exact Hinv.
  - apply (Hs _ [] b). apply Hi.
Qed.

(* `window_accumulator` with diff_expanding: same statistics, plus the list of non-empty batches *)
Lemma expanding_ok {S R} (agg : aggregation S R) (inv : S -> frame -> Prop) (res : frame -> R) :
  (forall b, inv (initial agg b) []) ->
  (forall s pre b, inv s pre ->
     match on_new agg s b with
     | Some (s', r) => inv s' (pre ++ b) /\ (pre ++ b <> [] -> r = res (pre ++ b))
     | None => pre ++ b = []
     end) ->
  step_ok (window_accumulator_expanding agg)
          (fun st p => concat (fst st) = p /\ Forall (fun d => d <> []) (fst st) /\ inv (snd st) p) res.
Proof.
  intros Hi Hs o pre b Hg. unfold window_accumulator_expanding.
  assert (Hst : exists dfs s, match o with None => ([], initial agg b) | Some a => a end = (dfs, s)
                              /\ concat dfs = pre /\ Forall (fun d => d <> []) dfs /\ inv s pre).
  { destruct Hg as [([dfs s] & -> & Hc & Hne & Hinv)|[-> ->]].
    - exists dfs, s. auto.
    - exists [], (initial agg b). repeat split; auto. }
  destruct Hst as (dfs & s & -> & Hc & Hne & Hinv).
  pose proof (Hs s pre b Hinv) as H. destruct (on_new agg s b) as [[s' r]|]; [|exact H].
  destruct H as [Hi' Hr]. split; [|exact Hr]. cbn [fst snd].
  destruct b as [|r0 b]; cbn [nonempty].
  - rewrite app_nil_r in *. auto.
  - repeat split; auto.
    + rewrite concat_app. cbn. rewrite app_nil_r. congruence.
    + apply Forall_app. split; auto. constructor; [discriminate|constructor].
Qed.

(* ------------------------------------------------------------------ scalar path instances *)
Section ScalarProofs.
  Variable c : nat.
  Let s (f : frame) := col c f.

  Definition eqinv {S} (st : frame -> S) : S -> frame -> Prop := fun x p => x = st p.

  Lemma sum_s_new : forall x pre b, eqinv (fun p => psum (s p)) x pre ->
    match on_new (sum_s c) x b with
    | Some (s', r) => eqinv (fun p => psum (s p)) s' (pre ++ b) /\ (pre ++ b <> [] -> r = psum (s (pre ++ b)))
    | None => pre ++ b = [] end.
  Proof.
    unfold eqinv. intros x pre b ->. cbn [on_new sum_s dup]. subst s. cbn beta.
    destruct b as [|r0 b]; cbn [nonempty].
    - rewrite app_nil_r. auto.
    - rewrite col_app, psum_app. auto.
  Qed.

  Lemma count_s_new : forall x pre b, eqinv (fun p => pcount (s p)) x pre ->
    match on_new (count_s c) x b with
    | Some (s', r) => eqinv (fun p => pcount (s p)) s' (pre ++ b) /\ (pre ++ b <> [] -> r = pcount (s (pre ++ b)))
    | None => pre ++ b = [] end.
  Proof.
    unfold eqinv. intros x pre b ->. cbn [on_new count_s dup]. subst s. cbn beta.
    rewrite col_app, pcount_app. auto.
  Qed.

  Lemma size_s_new : forall x pre b, eqinv (fun p => psize (s p)) x pre ->
    match on_new (size_s c) x b with
    | Some (s', r) => eqinv (fun p => psize (s p)) s' (pre ++ b) /\ (pre ++ b <> [] -> r = psize (s (pre ++ b)))
    | None => pre ++ b = [] end.
  Proof.
    unfold eqinv. intros x pre b ->. cbn [on_new size_s dup]. subst s. cbn beta.
    rewrite col_app, psize_app. auto.
  Qed.

  Definition mean_st (p : frame) : Qc * Z := (psum (s p), pcount (s p)).
  Lemma mean_s_new : forall x pre b, eqinv mean_st x pre ->
    match on_new (mean_s c repaired) x b with
    | Some (s', r) => eqinv mean_st s' (pre ++ b) /\ (pre ++ b <> [] -> r = pmean (s (pre ++ b)))
    | None => pre ++ b = [] end.
  Proof.
    unfold eqinv, mean_st, pmean. intros x pre b ->. cbn [on_new mean_s]. subst s. cbn beta.
    destruct b as [|r0 b]; cbn [nonempty].
    - rewrite app_nil_r. unfold mean_finish. cbn [mean_hack repaired]. split; [reflexivity|intros _; reflexivity].
    - rewrite col_app, psum_app, pcount_app. unfold mean_finish. cbn [mean_hack repaired].
      split; [reflexivity|intros _; reflexivity].
  Qed.

  (* Var: the state is the exact sufficient statistics (sum x, sum x^2, n); the Python-int flag can only be set
     while nothing was seen, so ZeroDivisionError can only hit an empty prefix (both variants) *)
  Definition var_inv (x : var_state) (p : frame) : Prop :=
    exists py, x = (psum (s p), psumsq (s p), pcount (s p), py) /\ (p <> [] -> py = false).
  Definition var_res (ddof : Z) (p : frame) : option Qc :=
    compute_result ddof (psum (s p)) (psumsq (s p)) (pcount (s p)).
  Lemma var_s_new v ddof : forall x pre b, var_inv x pre ->
    match on_new (var_s c v ddof) x b with
    | Some (s', r) => var_inv s' (pre ++ b) /\ (pre ++ b <> [] -> r = var_res ddof (pre ++ b))
    | None => pre ++ b = [] end.
  Proof.
    unfold var_inv, var_res. intros x pre b (py & -> & Hpy). cbn [on_new var_s]. subst s. cbn beta.
    destruct b as [|r0 b]; cbn [nonempty].
    - rewrite app_nil_r. unfold var_finish.
      destruct (var_raises v && (py && (pcount (col c pre) =? 0)%Z)) eqn:E.
      + destruct pre; [reflexivity|]. rewrite Hpy in E by discriminate. cbn in E.
        rewrite andb_false_r in E. discriminate.
      + split; eauto.
    - unfold var_finish. cbn [andb]. rewrite andb_false_r.
      rewrite col_app, psum_app, psumsq_app, pcount_app. split; [|auto].
      exists false. split; auto.
  Qed.
  Lemma var_s_init v ddof b : var_inv (initial (var_s c v ddof) b) [].
  Proof. exists true. split; [reflexivity|congruence]. Qed.
End ScalarProofs.

(* ------------------------------------------------------------------ vector path instances *)
Section VectorProofs.
  Variable cs : list nat.

  Lemma per_nil {A} (g : series -> A) : per cs g [] = map (fun _ => g []) cs.
  Proof. reflexivity. Qed.

  Lemma sum_v_new : forall x pre b, eqinv (per cs psum) x pre ->
    match on_new (sum_v cs) x b with
    | Some (s', r) => eqinv (per cs psum) s' (pre ++ b) /\ (pre ++ b <> [] -> r = per cs psum (pre ++ b))
    | None => pre ++ b = [] end.
  Proof.
    unfold eqinv. intros x pre b ->. cbn [on_new sum_v dup].
    destruct b as [|r0 b]; cbn [nonempty].
    - rewrite app_nil_r. auto.
    - unfold per. rewrite zipw_map. split; [|intros _]; apply map_ext; intros a; rewrite col_app, psum_app; reflexivity.
  Qed.

  Lemma count_v_new : forall x pre b, eqinv (per cs pcount) x pre ->
    match on_new (count_v cs) x b with
    | Some (s', r) => eqinv (per cs pcount) s' (pre ++ b) /\ (pre ++ b <> [] -> r = per cs pcount (pre ++ b))
    | None => pre ++ b = [] end.
  Proof.
    unfold eqinv. intros x pre b ->. cbn [on_new count_v dup].
    unfold per. rewrite zipw_map. split; [|intros _]; apply map_ext; intros a; rewrite col_app, pcount_app; reflexivity.
  Qed.

  Lemma size_v_new : forall x pre b, eqinv (fsize cs) x pre ->
    match on_new (size_v cs) x b with
    | Some (s', r) => eqinv (fsize cs) s' (pre ++ b) /\ (pre ++ b <> [] -> r = fsize cs (pre ++ b))
    | None => pre ++ b = [] end.
  Proof.
    unfold eqinv. intros x pre b ->. cbn [on_new size_v dup]. unfold fsize.
    rewrite app_length, Nat2Z.inj_add, Z.mul_add_distr_r. split; [|intros _]; reflexivity.
  Qed.

  Definition mean_v_st (p : frame) : list Qc * list Z := (per cs psum p, per cs pcount p).
  Lemma mean_v_res p : zipw qdivz (per cs psum p) (per cs pcount p) = per cs pmean p.
  Proof. unfold per. rewrite zipw_map. reflexivity. Qed.
  Lemma mean_v_new : forall x pre b, eqinv mean_v_st x pre ->
    match on_new (mean_v cs) x b with
    | Some (s', r) => eqinv mean_v_st s' (pre ++ b) /\ (pre ++ b <> [] -> r = per cs pmean (pre ++ b))
    | None => pre ++ b = [] end.
  Proof.
    unfold eqinv, mean_v_st. intros x pre b ->. cbn [on_new mean_v].
    destruct b as [|r0 b]; cbn [nonempty].
    - rewrite app_nil_r, mean_v_res. auto.
    - assert (E1 : zipw Qcplus (per cs psum pre) (per cs psum (r0 :: b)) = per cs psum (pre ++ r0 :: b)).
      { unfold per. rewrite zipw_map. apply map_ext; intros a; rewrite col_app, psum_app; reflexivity. }
      assert (E2 : zipw Z.add (per cs pcount pre) (per cs pcount (r0 :: b)) = per cs pcount (pre ++ r0 :: b)).
      { unfold per. rewrite zipw_map. apply map_ext; intros a; rewrite col_app, pcount_app; reflexivity. }
      rewrite E1, E2, mean_v_res. auto.
  Qed.

  Definition var_v_st (p : frame) := (per cs psum p, per cs psumsq p, per cs pcount p).
  Definition var_v_res (ddof : Z) (p : frame) : list (option Qc) :=
    per cs (fun x => compute_result ddof (psum x) (psumsq x) (pcount x)) p.
  Lemma var_v_resE ddof p :
    zipw3 (compute_result ddof) (per cs psum p) (per cs psumsq p) (per cs pcount p) = var_v_res ddof p.
  Proof. unfold zipw3, var_v_res, per. rewrite zipw_map. rewrite zipw_map. reflexivity. Qed.
  Lemma var_v_new ddof : forall x pre b, eqinv var_v_st x pre ->
    match on_new (var_v cs ddof) x b with
    | Some (s', r) => eqinv var_v_st s' (pre ++ b) /\ (pre ++ b <> [] -> r = var_v_res ddof (pre ++ b))
    | None => pre ++ b = [] end.
  Proof.
    unfold eqinv, var_v_st. intros x pre b ->. cbn [on_new var_v].
    destruct b as [|r0 b]; cbn [nonempty].
    - rewrite app_nil_r, var_v_resE. auto.
    - assert (E1 : zipw Qcplus (per cs psum pre) (per cs psum (r0 :: b)) = per cs psum (pre ++ r0 :: b)).
      { unfold per. rewrite zipw_map. apply map_ext; intros a; rewrite col_app, psum_app; reflexivity. }
      assert (E2 : zipw Z.add (per cs pcount pre) (per cs pcount (r0 :: b)) = per cs pcount (pre ++ r0 :: b)).
      { unfold per. rewrite zipw_map. apply map_ext; intros a; rewrite col_app, pcount_app; reflexivity. }
      assert (E3 : zipw Qcplus (per cs psumsq pre) (per cs psumsq (r0 :: b)) = per cs psumsq (pre ++ r0 :: b)).
      { unfold per. rewrite zipw_map. apply map_ext; intros a; rewrite col_app, psumsq_app; reflexivity. }
      rewrite E1, E2, E3, var_v_resE. auto.
  Qed.
End VectorProofs.

(* ------------------------------------------------------------------ Var: the formula is the textbook variance *)
Lemma pdev2_expand m s :
  pdev2 m s = psumsq s - (1 + 1) * m * psum s + zq (pcount s) * m * m.
Proof.
  induction s as [|[v|] s IH]; cbn [pdev2 psumsq sq map option_map psum pcount].
  - rewrite zq_0. ring.
  - fold (sq s). fold (psumsq s). rewrite IH, zq_add, zq_1. ring.
  - fold (sq s). fold (psumsq s). exact IH.
Qed.

(* _compute_result(sum x, sum x^2, n) is pandas' var(ddof) of the column, for the ddof streamz uses by default
   (1) and ddof = 0: both are NaN exactly when n <= ddof *)
Theorem compute_result_textbook ddof s : (0 <= ddof <= 1)%Z ->
  compute_result ddof (psum s) (psumsq s) (pcount s) = pvar ddof s.
Proof.
  intros Hd. unfold compute_result, pvar. pose proof (pcount_nonneg s) as Hn.
  set (n := pcount s) in *. set (x := psum s). set (x2 := psumsq s).
  destruct (n =? 0)%Z eqn:E0.
  - apply Z.eqb_eq in E0. destruct (n <=? ddof)%Z eqn:E1; [reflexivity|]. apply Z.leb_gt in E1. lia.
  - apply Z.eqb_neq in E0. assert (Hz : zq n <> 0) by (apply zq_nonzero; exact E0).
    destruct (ddof =? 0)%Z eqn:Ed.
    + apply Z.eqb_eq in Ed. subst ddof. destruct (n <=? 0)%Z eqn:E1; [apply Z.leb_le in E1; lia|].
      f_equal. rewrite pdev2_expand. fold n x x2. rewrite Z.sub_0_r. field. exact Hz.
    + apply Z.eqb_neq in Ed. assert (ddof = 1%Z) by lia. subst ddof.
      destruct (n - 1 =? 0)%Z eqn:E2.
      * apply Z.eqb_eq in E2. destruct (n <=? 1)%Z eqn:E1; [reflexivity|]. apply Z.leb_gt in E1. lia.
      * apply Z.eqb_neq in E2. destruct (n <=? 1)%Z eqn:E1; [apply Z.leb_le in E1; lia|].
        assert (Hz1 : zq (n - 1) <> 0) by (apply zq_nonzero; exact E2).
        f_equal. rewrite pdev2_expand. fold n x x2. field. split; assumption.
Qed.

(* ------------------------------------------------------------------ step_ok instances *)
Definition r_sum c (p : frame) := psum (col c p).
Definition r_count c (p : frame) := pcount (col c p).
Definition r_size c (p : frame) := psize (col c p).
Definition r_mean c (p : frame) := pmean (col c p).

Lemma sum_s_ok c : step_ok (accumulator (sum_s c)) (eqinv (r_sum c)) (r_sum c).
Proof. apply accumulator_ok; [reflexivity|apply sum_s_new]. Qed.
Lemma count_s_ok c : step_ok (accumulator (count_s c)) (eqinv (r_count c)) (r_count c).
Proof. apply accumulator_ok; [reflexivity|apply count_s_new]. Qed.
Lemma size_s_ok c : step_ok (accumulator (size_s c)) (eqinv (r_size c)) (r_size c).
Proof. apply accumulator_ok; [reflexivity|apply size_s_new]. Qed.
Lemma mean_s_ok c : step_ok (accumulator (mean_s c repaired)) (eqinv (mean_st c)) (r_mean c).
Proof. apply accumulator_ok; [reflexivity|apply mean_s_new]. Qed.
Lemma sum_v_ok cs : step_ok (accumulator (sum_v cs)) (eqinv (per cs psum)) (per cs psum).
Proof. apply accumulator_ok; [reflexivity|apply sum_v_new]. Qed.
Lemma count_v_ok cs : step_ok (accumulator (count_v cs)) (eqinv (per cs pcount)) (per cs pcount).
Proof. apply accumulator_ok; [reflexivity|apply count_v_new]. Qed.
Lemma size_v_ok cs : step_ok (accumulator (size_v cs)) (eqinv (fsize cs)) (fsize cs).
Proof. apply accumulator_ok; [reflexivity|apply size_v_new]. Qed.
Lemma mean_v_ok cs : step_ok (accumulator (mean_v cs)) (eqinv (mean_v_st cs)) (per cs pmean).
Proof. apply accumulator_ok; [reflexivity|apply mean_v_new]. Qed.

Definition exp_inv {S} (inv : S -> frame -> Prop) : list frame * S -> frame -> Prop :=
  fun st p => concat (fst st) = p /\ Forall (fun d => d <> []) (fst st) /\ inv (snd st) p.
Lemma exp_sum_s_ok c : step_ok (window_accumulator_expanding (sum_s c)) (exp_inv (eqinv (r_sum c))) (r_sum c).
Proof. apply expanding_ok; [reflexivity|apply sum_s_new]. Qed.
Lemma exp_count_s_ok c : step_ok (window_accumulator_expanding (count_s c)) (exp_inv (eqinv (r_count c))) (r_count c).
Proof. apply expanding_ok; [reflexivity|apply count_s_new]. Qed.
Lemma exp_size_s_ok c : step_ok (window_accumulator_expanding (size_s c)) (exp_inv (eqinv (r_size c))) (r_size c).
Proof. apply expanding_ok; [reflexivity|apply size_s_new]. Qed.
Lemma exp_mean_s_ok c : step_ok (window_accumulator_expanding (mean_s c repaired)) (exp_inv (eqinv (mean_st c))) (r_mean c).
Proof. apply expanding_ok; [reflexivity|apply mean_s_new]. Qed.
Lemma exp_var_s_ok c v ddof : step_ok (window_accumulator_expanding (var_s c v ddof)) (exp_inv (var_inv c)) (var_res c ddof).
Proof. apply expanding_ok; [apply var_s_init|apply var_s_new]. Qed.
Lemma exp_sum_v_ok cs : step_ok (window_accumulator_expanding (sum_v cs)) (exp_inv (eqinv (per cs psum))) (per cs psum).
Proof. apply expanding_ok; [reflexivity|apply sum_v_new]. Qed.
Lemma exp_count_v_ok cs : step_ok (window_accumulator_expanding (count_v cs)) (exp_inv (eqinv (per cs pcount))) (per cs pcount).
Proof. apply expanding_ok; [reflexivity|apply count_v_new]. Qed.
Lemma exp_mean_v_ok cs : step_ok (window_accumulator_expanding (mean_v cs)) (exp_inv (eqinv (mean_v_st cs))) (per cs pmean).
Proof. apply expanding_ok; [reflexivity|apply mean_v_new]. Qed.
Lemma exp_var_v_ok cs ddof : step_ok (window_accumulator_expanding (var_v cs ddof)) (exp_inv (eqinv (var_v_st cs))) (var_v_res cs ddof).
Proof. apply expanding_ok; [reflexivity|apply var_v_new]. Qed.

(* ------------------------------------------------------------------ the theorems *)
Section Theorems.
  Variable bs : list frame.
  Variable k : nat.
  Hypothesis Hk : (1 <= k <= length bs)%nat.
  Let P := concat (firstn k bs).
  Hypothesis HP : P <> [].

  (* sdf.x.sum() / count() / size / mean() : accumulator *)
  Theorem sum_s_prefix c : emitted (run (accumulator (sum_s c)) None bs) k = Some (psum (col c P)).
  Proof. exact (emitted_generic _ _ _ (sum_s_ok c) bs k Hk HP). Qed.
  Theorem count_s_prefix c : emitted (run (accumulator (count_s c)) None bs) k = Some (pcount (col c P)).
  Proof. exact (emitted_generic _ _ _ (count_s_ok c) bs k Hk HP). Qed.
  Theorem size_s_prefix c : emitted (run (accumulator (size_s c)) None bs) k = Some (psize (col c P)).
  Proof. exact (emitted_generic _ _ _ (size_s_ok c) bs k Hk HP). Qed.
  Theorem mean_s_prefix c : emitted (run (accumulator (mean_s c repaired)) None bs) k = Some (pmean (col c P)).
  Proof. exact (emitted_generic _ _ _ (mean_s_ok c) bs k Hk HP). Qed.
  (* sdf[cs].sum() ... : one statistic per column *)
  Theorem sum_v_prefix cs : emitted (run (accumulator (sum_v cs)) None bs) k = Some (per cs psum P).
  Proof. exact (emitted_generic _ _ _ (sum_v_ok cs) bs k Hk HP). Qed.
  Theorem count_v_prefix cs : emitted (run (accumulator (count_v cs)) None bs) k = Some (per cs pcount P).
  Proof. exact (emitted_generic _ _ _ (count_v_ok cs) bs k Hk HP). Qed.
  Theorem size_v_prefix cs : emitted (run (accumulator (size_v cs)) None bs) k = Some (fsize cs P).
  Proof. exact (emitted_generic _ _ _ (size_v_ok cs) bs k Hk HP). Qed.
  Theorem mean_v_prefix cs : emitted (run (accumulator (mean_v cs)) None bs) k = Some (per cs pmean P).
  Proof. exact (emitted_generic _ _ _ (mean_v_ok cs) bs k Hk HP). Qed.

  (* expanding(): Var / Std exist only here; the other reductions go through the same operator.
     The state is exactly the sufficient statistics of the prefix, in both variants. *)
  Theorem var_s_state_prefix c v ddof :
    exists dfs py, nth_error (run (window_accumulator_expanding (var_s c v ddof)) None bs) (k - 1)
      = Some (Some ((dfs, (psum (col c P), psumsq (col c P), pcount (col c P), py)),
                    compute_result ddof (psum (col c P)) (psumsq (col c P)) (pcount (col c P))))
      /\ concat dfs = P.
  Proof.
    destruct (prefix_generic _ _ _ (exp_var_s_ok c v ddof) bs k Hk HP) as ([dfs st] & Hn & Hc & _ & (py & Hst & _)).
    cbn [fst snd] in *. subst st. exists dfs, py. split; [exact Hn|exact Hc].
  Qed.
  Theorem var_s_prefix c v ddof : (0 <= ddof <= 1)%Z ->
    emitted (run (window_accumulator_expanding (var_s c v ddof)) None bs) k = Some (pvar ddof (col c P)).
  Proof.
    intros Hd. rewrite <- compute_result_textbook by exact Hd.
    exact (emitted_generic _ _ _ (exp_var_s_ok c v ddof) bs k Hk HP).
  Qed.
  Theorem var_v_state_prefix cs ddof :
    exists dfs, nth_error (run (window_accumulator_expanding (var_v cs ddof)) None bs) (k - 1)
      = Some (Some ((dfs, (per cs psum P, per cs psumsq P, per cs pcount P)), var_v_res cs ddof P))
      /\ concat dfs = P.
  Proof.
    destruct (prefix_generic _ _ _ (exp_var_v_ok cs ddof) bs k Hk HP) as ([dfs st] & Hn & Hc & _ & Hst).
    cbn [fst snd] in *. unfold eqinv in Hst. subst st. exists dfs. split; [exact Hn|exact Hc].
  Qed.
  Theorem var_v_prefix cs ddof : (0 <= ddof <= 1)%Z ->
    emitted (run (window_accumulator_expanding (var_v cs ddof)) None bs) k = Some (per cs (pvar ddof) P).
  Proof.
    intros Hd.
    replace (per cs (pvar ddof) P) with (var_v_res cs ddof P).
    2:{ unfold var_v_res, per. apply map_ext. intros a. apply compute_result_textbook. exact Hd. }
    exact (emitted_generic _ _ _ (exp_var_v_ok cs ddof) bs k Hk HP).
  Qed.
  Theorem exp_sum_s_prefix c : emitted (run (window_accumulator_expanding (sum_s c)) None bs) k = Some (psum (col c P)).
  Proof. exact (emitted_generic _ _ _ (exp_sum_s_ok c) bs k Hk HP). Qed.
  Theorem exp_count_s_prefix c : emitted (run (window_accumulator_expanding (count_s c)) None bs) k = Some (pcount (col c P)).
  Proof. exact (emitted_generic _ _ _ (exp_count_s_ok c) bs k Hk HP). Qed.
  Theorem exp_size_s_prefix c : emitted (run (window_accumulator_expanding (size_s c)) None bs) k = Some (psize (col c P)).
  Proof. exact (emitted_generic _ _ _ (exp_size_s_ok c) bs k Hk HP). Qed.
  Theorem exp_mean_s_prefix c : emitted (run (window_accumulator_expanding (mean_s c repaired)) None bs) k = Some (pmean (col c P)).
  Proof. exact (emitted_generic _ _ _ (exp_mean_s_ok c) bs k Hk HP). Qed.
  Theorem exp_sum_v_prefix cs : emitted (run (window_accumulator_expanding (sum_v cs)) None bs) k = Some (per cs psum P).
  Proof. exact (emitted_generic _ _ _ (exp_sum_v_ok cs) bs k Hk HP). Qed.
  Theorem exp_count_v_prefix cs : emitted (run (window_accumulator_expanding (count_v cs)) None bs) k = Some (per cs pcount P).
  Proof. exact (emitted_generic _ _ _ (exp_count_v_ok cs) bs k Hk HP). Qed.
  Theorem exp_mean_v_prefix cs : emitted (run (window_accumulator_expanding (mean_v cs)) None bs) k = Some (per cs pmean P).
  Proof. exact (emitted_generic _ _ _ (exp_mean_v_ok cs) bs k Hk HP). Qed.
End Theorems.

(* ------------------------------------------------------------------ upstream boolean filter *)
Lemma filter_concat_firstn {A} (p : A -> bool) (bs : list (list A)) k :
  concat (firstn k (map (filter p) bs)) = filter p (concat (firstn k bs)).
Proof.
  revert k. induction bs as [|b t IH]; intros [|k]; cbn; auto.
  rewrite IH, filter_app. reflexivity.
Qed.
(* `sdf[sdf.x > t].x.mean()` etc.: every theorem above applies to the filtered batches, and the concatenation of
   the filtered batches is the filtered concatenation -- batches emptied by the filter are ordinary empty batches *)
Theorem filtered_prefix c t (bs : list frame) k :
  concat (firstn k (map (pfilter_gt c t) bs)) = pfilter_gt c t (concat (firstn k bs)).
Proof. apply filter_concat_firstn. Qed.

(* ------------------------------------------------------------------ the defect: Mean as found *)
Definition wit_batches : list frame :=
  [ [];
    [mkrow 0 (Some 1%Z) [Some (mkq 1 1)]; mkrow 1 (Some 1%Z) [Some (mkq 3 1)]] ].
(* an empty first batch leaves counts = 1 in the state: the mean of {1, 3} is reported as 4/3 *)
Theorem mean_empty_first_refuted :
  exists bs k, (1 <= k <= length bs)%nat /\ concat (firstn k bs) <> [] /\
    emitted (run (accumulator (mean_s 0 as_found)) None bs) k <> Some (pmean (col 0 (concat (firstn k bs)))).
Proof.
  exists wit_batches, 2%nat. split; [cbn; lia|]. split; [discriminate|].
  vm_compute. intros H. discriminate H.
Qed.
(* and a prefix whose column is entirely NaN is reported as 0 instead of NaN *)
Theorem mean_all_nan_refuted :
  exists bs k, (1 <= k <= length bs)%nat /\ concat (firstn k bs) <> [] /\
    emitted (run (accumulator (mean_s 0 as_found)) None bs) k <> Some (pmean (col 0 (concat (firstn k bs)))).
Proof.
  exists [[mkrow 0 (Some 1%Z) [None]]], 1%nat. split; [cbn; lia|]. split; [discriminate|].
  vm_compute. intros H. discriminate H.
Qed.
(* Var as found raises on an empty first batch (nothing is emitted); by var_s_prefix this cannot happen once a
   row has been seen *)
Theorem var_empty_first_raises :
  run (window_accumulator_expanding (var_s 0 as_found 1)) None [[]] = [None]
  /\ exists r, run (window_accumulator_expanding (var_s 0 repaired 1)) None [[]] = [Some r].
Proof. split; [reflexivity|eexists; reflexivity]. Qed.

(* as found, Mean is still right when the first batch already contains a non-NaN value *)
Definition mean_pos_inv c (x : Qc * Z) (p : frame) : Prop := x = mean_st c p /\ (0 < pcount (col c p))%Z.
Theorem mean_s_asfound_partial c (b0 : frame) (bs : list frame) k :
  (0 < pcount (col c b0))%Z -> (1 <= k <= length (b0 :: bs))%nat ->
  emitted (run (accumulator (mean_s c as_found)) None (b0 :: bs)) k
    = Some (pmean (col c (concat (firstn k (b0 :: bs))))).
Proof.
  intros H0 Hk.
  (* first step by hand, then the invariant "state = (sum, count) with count > 0" *)
  assert (Hstep : forall x pre b, mean_pos_inv c x pre ->
            match on_new (mean_s c as_found) x b with
            | Some (s', r) => mean_pos_inv c s' (pre ++ b) /\ r = pmean (col c (pre ++ b))
            | None => False end).
  { unfold mean_pos_inv, mean_st, pmean. intros x pre b [-> Hpos]. cbn [on_new mean_s].
    pose proof (pcount_nonneg (col c b)) as Hb.
    destruct b as [|r0 b]; cbn [nonempty].
    - rewrite app_nil_r. unfold mean_finish, qdivz. cbn [mean_hack as_found].
      destruct (pcount (col c pre) =? 0)%Z eqn:E; [apply Z.eqb_eq in E; lia|]. auto.
    - rewrite col_app, psum_app, pcount_app. unfold mean_finish, qdivz. cbn [mean_hack as_found].
      destruct (pcount (col c pre) + pcount (col c (r0 :: b)) =? 0)%Z eqn:E; [apply Z.eqb_eq in E; lia|].
      split; [split; [reflexivity|lia]|reflexivity]. }
  assert (Hrun : forall l x pre, mean_pos_inv c x pre ->
            Forall2 (fun out p => exists s, out = Some (s, pmean (col c p)))
                    (run (accumulator (mean_s c as_found)) (Some x) l) (prefixes pre l)).
  { induction l as [|b t IH]; intros x pre Hi; cbn [run prefixes]; [constructor|].
    unfold accumulator at 1. pose proof (Hstep x pre b Hi) as H.
    destruct (on_new (mean_s c as_found) x b) as [[s' r]|]; [|contradiction].
    destruct H as [Hi' ->]. constructor; eauto. }
  cbn [run]. unfold accumulator at 1.
  pose proof (Hstep (initial (mean_s c as_found) b0) [] [] ) as _.
  assert (Hfirst : on_new (mean_s c as_found) (initial (mean_s c as_found) b0) b0
                   = Some (mean_st c b0, pmean (col c b0))).
  { cbn [on_new mean_s initial]. destruct b0 as [|r0 b0]; [cbn in H0; lia|]. cbn [nonempty].
    unfold mean_finish, mean_st, pmean, qdivz. cbn [mean_hack as_found].
    replace (0 + psum (col c (r0 :: b0))) with (psum (col c (r0 :: b0))) by ring.
    rewrite Z.add_0_l.
    destruct (pcount (col c (r0 :: b0)) =? 0)%Z eqn:E; [apply Z.eqb_eq in E; lia|]. reflexivity. }
  rewrite Hfirst.
  destruct k as [|[|k]]; [lia| |].
  - unfold emitted. cbn. rewrite app_nil_r. reflexivity.
  - unfold emitted. cbn [length] in Hk.
    replace (S (S k) - 1)%nat with (S k) by lia. cbn [nth_error].
    assert (Hi : mean_pos_inv c (mean_st c b0) b0) by (split; auto).
    pose proof (Hrun bs _ _ Hi) as HF.
    assert (Hn : nth_error (prefixes b0 bs) k = Some (b0 ++ concat (firstn (S k) bs))) by (apply prefixes_nth; lia).
    destruct (Forall2_nth_error _ _ _ _ _ HF Hn) as (x & Hx & (s & ->)).
    rewrite Hx. reflexivity.
Qed.
