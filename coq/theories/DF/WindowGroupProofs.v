(* DF/WindowGroupProofs.v — C07, windowed groupby: the emitted Series is pandas' groupby over exactly the rows in
   the window: one entry per key present in the window (keys whose rows all left the window disappear, keys that
   come back re-appear), each with the aggregation of that key's rows. Column grouper. *)
From Coq Require Import List ZArith QArith Qcanon Bool Lia.
From SZ Require Import DF.Window DF.WindowProofs.
Import ListNotations.
Close Scope Qc_scope. Close Scope Q_scope. Open Scope nat_scope.

(* ---------- strictly sorted key lists and association lists ---------- *)
Fixpoint ksorted (l : list Z) : Prop :=
  match l with [] => True | a :: t => (forall b, In b t -> (a < b)%Z) /\ ksorted t end.
Definition keys {A} (m : list (Z * A)) : list Z := map fst m.

Lemma kinsert_in k l x : In x (kinsert k l) <-> x = k \/ In x l.
Proof.
  induction l as [|a t IH]; simpl; [intuition|].
  destruct (Z.ltb_spec k a); [simpl; intuition|].
  destruct (Z.eqb_spec k a); simpl; [subst; intuition|]. rewrite IH. intuition.
Qed.
Lemma kinsert_sorted k l : ksorted l -> ksorted (kinsert k l).
Proof.
  induction l as [|a t IH]; simpl; [intuition|]. intros [H S].
  destruct (Z.ltb_spec k a).
  - simpl. repeat split; auto. intros b [<-|Hb]; auto. specialize (H b Hb). lia.
  - destruct (Z.eqb_spec k a); simpl; auto. split; auto.
    intros b Hb. apply kinsert_in in Hb as [->|Hb]; auto. lia.
Qed.
Lemma skeys_sorted f : ksorted (skeys f).
Proof. induction f; simpl; auto. now apply kinsert_sorted. Qed.
Lemma skeys_in f k : In k (skeys f) <-> exists r, In r f /\ key r = k.
Proof.
  induction f as [|a t IH]; simpl.
  - split; [tauto|intros (r & [] & _)].
  - rewrite kinsert_in, IH. split.
    + intros [->|(r & Hr & E)]; [exists a|exists r]; auto.
    + intros (r & [<-|Hr] & E); [left|right; exists r]; auto.
Qed.
Lemma rows_of_nil k f : ~ In k (skeys f) -> rows_of k f = [].
Proof.
  intros H. apply filter_none. intros r Hr. apply Z.eqb_neq. intro E. apply H. apply skeys_in. exists r; auto.
Qed.
Lemma rows_of_nonnil k f : In k (skeys f) -> rows_of k f <> [].
Proof.
  intros H. apply skeys_in in H as (r & Hr & E). intro F.
  assert (In r (rows_of k f)) by (apply filter_In; split; auto; now apply Z.eqb_eq). rewrite F in H. destruct H.
Qed.
Lemma rows_of_app k a b : rows_of k (a ++ b) = rows_of k a ++ rows_of k b.
Proof. apply filter_app. Qed.

Lemma ksorted_ext : forall a b, ksorted a -> ksorted b -> (forall k, In k a <-> In k b) -> a = b.
Proof.
  induction a as [|x a IH]; intros b Sa Sb H.
  - destruct b as [|y b]; auto. destruct (proj2 (H y)); simpl; auto.
  - destruct b as [|y b]; [destruct (proj1 (H x)); simpl; auto|].
    simpl in Sa, Sb. destruct Sa as [Ha Sa], Sb as [Hb Sb].
    assert (x = y).
    { destruct (proj1 (H x) (or_introl eq_refl)) as [E|E]; auto.
      destruct (proj2 (H y) (or_introl eq_refl)) as [E'|E']; auto.
      specialize (Ha y E'). specialize (Hb x E). lia. }
    subst y. f_equal. apply IH; auto. intros k. split; intros Hk.
    + destruct (proj1 (H k) (or_intror Hk)) as [E|E]; auto. subst k. specialize (Ha x Hk). lia.
    + destruct (proj2 (H k) (or_intror Hk)) as [E|E]; auto. subst k. specialize (Hb x Hk). lia.
Qed.

Lemma lookup_notin {A} k (m : list (Z * A)) : ~ In k (keys m) -> lookup k m = None.
Proof.
  induction m as [|[k' v] t IH]; simpl; auto. intros H.
  destruct (Z.eqb_spec k k'); [subst; tauto|]. apply IH. tauto.
Qed.

Lemma sorted_ext {A} : forall (a b : list (Z * A)), ksorted (keys a) -> ksorted (keys b) ->
  (forall k, lookup k a = lookup k b) -> a = b.
Proof.
  induction a as [|[x v] a IH]; intros b Sa Sb H.
  - destruct b as [|[y w] b]; auto. specialize (H y). simpl in H. rewrite Z.eqb_refl in H. discriminate.
  - destruct b as [|[y w] b].
    { specialize (H x). simpl in H. rewrite Z.eqb_refl in H. discriminate. }
    simpl in Sa, Sb. destruct Sa as [Ha Sa], Sb as [Hb Sb].
    assert (x = y).
    { pose proof (H x) as Hx. pose proof (H y) as Hy. simpl in Hx, Hy. rewrite Z.eqb_refl in Hx, Hy.
      destruct (Z.eqb_spec x y); auto. destruct (Z.eqb_spec y x); [congruence|].
      destruct (Z.lt_total x y) as [L|[L|L]]; auto.
      - rewrite lookup_notin in Hx; [discriminate|]. intro I. specialize (Hb _ I). lia.
      - rewrite lookup_notin in Hy; [discriminate|]. intro I. specialize (Ha _ I). lia. }
    subst y. pose proof (H x) as Hx. simpl in Hx. rewrite Z.eqb_refl in Hx. injection Hx as ->.
    f_equal. apply IH; auto. intros k. specialize (H k). simpl in H.
    destruct (Z.eqb_spec k x); auto. subst k.
    rewrite !lookup_notin; auto; intro I; [specialize (Hb _ I)|specialize (Ha _ I)]; lia.
Qed.

Lemma keys_mupd {A} (f : option A -> A) k (m : list (Z * A)) : keys (mupd f k m) = kinsert k (keys m).
Proof.
  induction m as [|[k' v] t IH]; simpl; auto.
  destruct (Z.ltb_spec k k'); simpl; auto. destruct (Z.eqb_spec k k'); simpl; [subst; auto|]. now rewrite IH.
Qed.

Lemma lookup_mupd {A} (f : option A -> A) k (m : list (Z * A)) k' : ksorted (keys m) ->
  lookup k' (mupd f k m) = if (k' =? k)%Z then Some (f (lookup k m)) else lookup k' m.
Proof.
  induction m as [|[k0 v] t IH]; simpl; intros S.
  - destruct (k' =? k)%Z; auto.
  - destruct S as [H S]. destruct (Z.ltb_spec k k0).
    + simpl. destruct (Z.eqb_spec k' k); auto. destruct (Z.eqb_spec k k0); [lia|].
      rewrite lookup_notin; auto. intro I. specialize (H _ I). lia.
    + destruct (Z.eqb_spec k k0).
      * subst k0. simpl. destruct (Z.eqb_spec k' k); auto.
      * simpl. rewrite IH by auto. destruct (Z.eqb_spec k' k0), (Z.eqb_spec k' k); auto; lia.
Qed.

(* a map given by a key list and a function of the key *)
Definition gmapK {B} (ks : list Z) (g : Z -> B) : list (Z * B) := map (fun k => (k, g k)) ks.
Lemma keys_gmapK {B} ks (g : Z -> B) : keys (gmapK ks g) = ks.
Proof. unfold keys, gmapK. rewrite map_map. simpl. apply map_id. Qed.
Lemma lookup_gmapK {B} ks (g : Z -> B) k : lookup k (gmapK ks g) = if in_dec Z.eq_dec k ks then Some (g k) else None.
Proof.
  induction ks as [|a t IH]; simpl; auto. destruct (Z.eqb_spec k a).
  - subst. destruct (Z.eq_dec a a); [auto|congruence].
  - rewrite IH. destruct (Z.eq_dec a k); [congruence|]. destruct (in_dec Z.eq_dec k t); auto.
Qed.
Lemma filter_gmapK {B} ks (g : Z -> B) (p : Z -> bool) :
  filter (fun kv => p (fst kv)) (gmapK ks g) = gmapK (filter p ks) g.
Proof. induction ks as [|a t IH]; simpl; auto. destruct (p a); simpl; now rewrite IH. Qed.
Lemma gmapK_ext {B} ks (g g' : Z -> B) : (forall k, In k ks -> g k = g' k) -> gmapK ks g = gmapK ks g'.
Proof. intros H. apply map_ext_in. intros k Hk. now rewrite H. Qed.

Lemma pd_groupby_gmapK {B} (f : frame -> B) rows : pd_groupby f rows = gmapK (skeys rows) (fun k => f (rows_of k rows)).
Proof. reflexivity. Qed.

(* fold of mupd over a duplicate-free key list *)
Lemma fold_mupd {A} (F : Z -> option A -> A) : forall ks (m : list (Z * A)), ksorted (keys m) -> NoDup ks ->
  ksorted (keys (fold_left (fun m k => mupd (F k) k m) ks m)) /\
  (forall k, In k (keys (fold_left (fun m k => mupd (F k) k m) ks m)) <-> In k ks \/ In k (keys m)) /\
  (forall k, lookup k (fold_left (fun m k => mupd (F k) k m) ks m) =
             if in_dec Z.eq_dec k ks then Some (F k (lookup k m)) else lookup k m).
Proof.
  induction ks as [|a t IH]; intros m S ND; simpl.
  - split; auto. split; [intuition|auto].
  - inversion ND; subst.
    assert (S' : ksorted (keys (mupd (F a) a m))) by (rewrite keys_mupd; now apply kinsert_sorted).
    destruct (IH (mupd (F a) a m) S' H2) as (I1 & I2 & I3). split; auto. split.
    + intros k. rewrite I2, keys_mupd, kinsert_in. intuition.
    + intros k. rewrite I3. rewrite (lookup_mupd (F a) a m) by auto.
      destruct (Z.eq_dec a k) as [->|Hne].
      * destruct (in_dec Z.eq_dec k t); [tauto|]. now rewrite Z.eqb_refl.
      * destruct (Z.eqb_spec k a); [congruence|]. destruct (in_dec Z.eq_dec k t); auto.
Qed.

Lemma ksorted_nodup l : ksorted l -> NoDup l.
Proof.
  induction l as [|a t IH]; simpl; [constructor|]. intros [H S]. constructor; auto.
  intro I. specialize (H a I). lia.
Qed.

(* ---------- on_new / on_old on groupby states ---------- *)
Section Group.
Variable A : agg.
Variable h : frame -> St A.
Hypothesis L : lawful A h.

Lemma g_on_new_spec W new : g_on_new A (pd_groupby h W) new = pd_groupby h (W ++ new).
Proof.
  unfold g_on_new.
  set (F := fun k (o : option (St A)) => on_new A match o with Some s => s | None => init A end (rows_of k new)).
  destruct (fold_mupd F (skeys new) (pd_groupby h W)) as (I1 & I2 & I3).
  { rewrite pd_groupby_gmapK, keys_gmapK. apply skeys_sorted. }
  { apply ksorted_nodup, skeys_sorted. }
  apply sorted_ext; auto.
  { rewrite pd_groupby_gmapK, keys_gmapK. apply skeys_sorted. }
  intros k. rewrite I3. rewrite !pd_groupby_gmapK, !lookup_gmapK. unfold F.
  assert (EW : forall k0, ~ In k0 (skeys W) -> init A = h (rows_of k0 W)).
  { intros k0 Hk. rewrite rows_of_nil by auto. apply (law_init A h L). }
  destruct (in_dec Z.eq_dec k (skeys new)) as [Hn|Hn].
  - destruct (in_dec Z.eq_dec k (skeys (W ++ new))) as [Hwn|Hwn].
    2:{ exfalso. apply Hwn. apply skeys_in in Hn as (r & Hr & E). apply skeys_in. exists r. split; auto. apply in_or_app; auto. }
    f_equal. rewrite rows_of_app.
    destruct (in_dec Z.eq_dec k (skeys W)) as [Hw|Hw].
    + apply (law_new A h L).
    + rewrite (EW k Hw). apply (law_new A h L).
  - rewrite rows_of_app, (rows_of_nil k new Hn), app_nil_r.
    destruct (in_dec Z.eq_dec k (skeys W)) as [Hw|Hw]; destruct (in_dec Z.eq_dec k (skeys (W ++ new))) as [Hwn|Hwn]; auto.
    + exfalso. apply Hwn. apply skeys_in in Hw as (r & Hr & E). apply skeys_in. exists r. split; auto. apply in_or_app; auto.
    + exfalso. apply skeys_in in Hwn as (r & Hr & E). apply in_app_or in Hr as [Hr|Hr].
      * apply Hw. apply skeys_in. exists r; auto.
      * apply Hn. apply skeys_in. exists r; auto.
Qed.

Lemma g_on_old_spec ks o R : ksorted ks -> (forall k, In k (skeys o) -> In k ks) ->
  g_on_old A (gmapK ks (fun k => h (rows_of k (o ++ R)))) o = gmapK ks (fun k => h (rows_of k R)).
Proof.
  intros Sk Hsub. unfold g_on_old.
  set (F := fun k (s : option (St A)) => on_old A match s with Some s => s | None => init A end (rows_of k o)).
  destruct (fold_mupd F (skeys o) (gmapK ks (fun k => h (rows_of k (o ++ R))))) as (I1 & I2 & I3).
  { now rewrite keys_gmapK. }
  { apply ksorted_nodup, skeys_sorted. }
  apply sorted_ext; auto.
  { now rewrite keys_gmapK. }
  intros k. rewrite I3, !lookup_gmapK. unfold F.
  destruct (in_dec Z.eq_dec k (skeys o)) as [Ho|Ho].
  - destruct (in_dec Z.eq_dec k ks) as [Hk|Hk]; [|exfalso; auto].
    f_equal. rewrite rows_of_app. apply (law_old A h L). now apply rows_of_nonnil.
  - destruct (in_dec Z.eq_dec k ks); auto. now rewrite rows_of_app, (rows_of_nil k o Ho).
Qed.

Lemma gdecay_spec ks : ksorted ks -> forall old R, (forall k, In k (skeys (concat old)) -> In k ks) ->
  gdecay A (gmapK ks (fun k => h (rows_of k (concat old ++ R)))) old = gmapK ks (fun k => h (rows_of k R)).
Proof.
  intros Sk. unfold gdecay. induction old as [|o t IH]; intros R Hsub; simpl; auto.
  assert (Ht : forall k, In k (skeys (concat t)) -> In k ks).
  { intros k Hk. apply Hsub. simpl. apply skeys_in in Hk as (r & Hr & E). apply skeys_in. exists r. split; auto. apply in_or_app; auto. }
  destruct o as [|r o']; [apply IH; auto|].
  cbn [isnil]. rewrite <- app_assoc. rewrite g_on_old_spec; auto.
  intros k Hk. apply Hsub. cbn [concat]. apply skeys_in in Hk as (r1 & Hr & E). apply skeys_in. exists r1. split; auto.
  apply (in_or_app (r :: o') (concat t)); auto.
Qed.
End Group.

(* ---------- one step of windowed_groupby_accumulator (column grouper) ---------- *)
Definition GInv (A : agg) (h : frame -> St A) (acc : gacc A) (W : frame) : Prop :=
  concat (g_dfs acc) = W /\ nonempty_all (g_dfs acc) /\ g_state acc = pd_groupby h W /\ g_size acc = pd_groupby psize W.

Lemma present_keys ks W' : ksorted ks -> (forall k, In k (skeys W') -> In k ks) ->
  filter (fun k => negb (psize (rows_of k W') =? 0)%Z) ks = skeys W'.
Proof.
  intros Sk Hsub. apply ksorted_ext.
  - clear Hsub. induction ks as [|a t IH]; simpl; auto. destruct Sk as [H S]. destruct (negb _); simpl; auto.
    split; auto. intros b Hb. apply filter_In in Hb as [Hb _]. auto.
  - apply skeys_sorted.
  - intros k. rewrite filter_In. split.
    + intros [Hk Hn]. destruct (in_dec Z.eq_dec k (skeys W')) as [I|I]; auto.
      rewrite (rows_of_nil k W' I) in Hn. discriminate.
    + intros Hk. split; auto. pose proof (rows_of_nonnil k W' Hk) as Hn. unfold psize, zlen.
      destruct (rows_of k W'); [congruence|]. simpl length. apply negb_true_iff. apply Z.eqb_neq. lia.
Qed.

Lemma filter_snd_gmapK (g : Z -> Z) ks :
  filter (fun kv : Z * Z => negb (snd kv =? 0)%Z) (gmapK ks g) = gmapK (filter (fun k => negb (g k =? 0)%Z) ks) g.
Proof. induction ks as [|a t IH]; simpl; auto. destruct (negb _); simpl; now rewrite IH. Qed.

Lemma gstep_spec A h w acc W new dfs' old :
  lawful A h -> GInv A h acc W ->
  diff w (g_dfs acc) new = Some (dfs', old) ->
  concat old ++ concat dfs' = W ++ new -> nonempty_all dfs' ->
  exists acc', gstep A false w acc new = (acc', RMap (pd_groupby (fun rows => fin A (h rows)) (concat dfs'))) /\
               GInv A h acc' (concat dfs').
Proof.
  intros L (Hd & Hne & Hst & Hsz) Hdiff Hcat Hne'. unfold gstep. rewrite Hdiff. cbv iota beta.
  rewrite Hst, Hsz. rewrite (g_on_new_spec A h L), (g_on_new_spec size_agg psize size_lawful).
  set (W' := concat dfs') in *. set (ks := skeys (W ++ new)).
  assert (Sk : ksorted ks) by apply skeys_sorted.
  assert (Hsub : forall k, In k (skeys (concat old)) -> In k ks).
  { intros k Hk. apply skeys_in in Hk as (r & Hr & E). apply skeys_in. exists r. split; auto.
    rewrite <- Hcat. apply in_or_app; auto. }
  assert (Hsub' : forall k, In k (skeys W') -> In k ks).
  { intros k Hk. apply skeys_in in Hk as (r & Hr & E). apply skeys_in. exists r. split; auto.
    rewrite <- Hcat. apply in_or_app; auto. }
  rewrite !pd_groupby_gmapK. fold ks. rewrite <- Hcat.
  rewrite (gdecay_spec A h L ks Sk old W' Hsub), (gdecay_spec size_agg psize size_lawful ks Sk old W' Hsub).
  (* the nonzero filter *)
  assert (Enz : forall k, In k ks -> nonzero (gmapK ks (fun k0 => psize (rows_of k0 W'))) k = negb (psize (rows_of k W') =? 0)%Z).
  { intros k Hk. unfold nonzero. rewrite lookup_gmapK. destruct (in_dec Z.eq_dec k ks); [reflexivity|tauto]. }
  cbv zeta.
  match goal with |- context [mkGacc _ ?st ?sz _] =>
    assert (E1 : sz = pd_groupby psize W'); [|assert (E2 : st = pd_groupby h W'); [|rewrite E1, E2]] end.
  { rewrite pd_groupby_gmapK, <- (present_keys ks W' Sk Hsub').
    apply (filter_snd_gmapK (fun k => psize (rows_of k W')) ks). }
  { etransitivity.
    - apply (filter_gmapK ks (fun k => h (rows_of k W')) (nonzero (gmapK ks (fun k => psize (rows_of k W'))))).
    - rewrite pd_groupby_gmapK, <- (present_keys ks W' Sk Hsub'). f_equal.
      apply filter_ext_in. intros k Hk. now apply Enz. }
  eexists. split.
  - f_equal. f_equal. rewrite !pd_groupby_gmapK. unfold gmapK. rewrite map_map. reflexivity.
  - repeat split; auto.
Qed.

(* generic run lemma over a window notion `win` maintained by diff on admissible histories *)
Section Run.
Variable A : agg.
Variable h : frame -> St A.
Hypothesis L : lawful A h.
Variable w : wkind.
Variable win : frame -> frame.
Variable ok : frame -> Prop.
Hypothesis ok_prefix : forall a b, ok (a ++ b) -> ok a.
Hypothesis diff_ok : forall (dfs : list frame) (pre new : frame),
  concat dfs = win pre -> nonempty_all dfs -> ok (pre ++ new) ->
  exists dfs' old, diff w dfs new = Some (dfs', old) /\
    concat old ++ concat dfs' = concat dfs ++ new /\ concat dfs' = win (pre ++ new) /\ nonempty_all dfs'.

Lemma grun_from_spec : forall batches acc pre,
  GInv A h acc (win pre) -> ok (pre ++ concat batches) ->
  grun_from A false w acc batches =
  map (fun k => RMap (pd_groupby (fun rows => fin A (h rows)) (win (pre ++ concat (firstn k batches)))))
      (seq 1 (length batches)).
Proof.
  induction batches as [|b t IH]; intros acc pre I Hok; [reflexivity|].
  cbn [grun_from length].
  rewrite (prefixes_cons b t (fun p => RMap (pd_groupby (fun rows => fin A (h rows)) (win p)))).
  pose proof I as (Hd & Hne & _). cbn [concat] in Hok. rewrite app_assoc in Hok.
  destruct (diff_ok (g_dfs acc) pre b Hd Hne (ok_prefix _ _ Hok)) as (dfs' & old & D1 & D2 & D3 & D4).
  destruct (gstep_spec A h w acc (win pre) b dfs' old L I D1) as (acc' & Hw & I'); auto.
  - now rewrite D2, Hd.
  - rewrite Hw, D3 in *. f_equal. apply IH; auto.
Qed.
End Run.

Lemma ssorted_prefix a b : ssorted (a ++ b) -> ssorted a.
Proof. intros H. apply ssorted_app in H. tauto. Qed.

Lemma diff_ok_n N (dfs : list frame) (pre new : frame) :
  concat dfs = window_n N pre -> nonempty_all dfs -> True ->
  exists dfs' old, diff (WN N) dfs new = Some (dfs', old) /\
    concat old ++ concat dfs' = concat dfs ++ new /\ concat dfs' = window_n N (pre ++ new) /\ nonempty_all dfs'.
Proof.
  intros Hc Hne _. destruct (diff_iloc_spec N dfs new) as [S1 S2].
  pose proof (diff_iloc_nonempty N dfs new Hne) as F.
  simpl. destruct (diff_iloc N dfs new) as [dfs' old]. simpl in *. exists dfs', old. repeat split; auto.
  rewrite S1, Hc. unfold window_n. apply lastn_app_lastn.
Qed.

Lemma gacc0_inv A h win : lawful A h -> win [] = [] -> GInv A h (gacc0 A) (win (@nil row)).
Proof. intros L E. rewrite E. unfold GInv, gacc0. simpl. repeat split; auto. constructor. Qed.

(* window(n=N).groupby(key).agg(): all N, all batchings, all key patterns *)
Theorem wgroupby_n_correct A h : lawful A h -> forall N batches,
  grun A false (WN N) batches =
  map (fun p => RMap (pd_groupby (fun rows => fin A (h rows)) (window_n N p))) (prefixes batches).
Proof.
  intros L N batches. unfold grun, prefixes. rewrite map_map.
  rewrite (grun_from_spec A h L (WN N) (window_n N) (fun _ => True)) with (pre := []); auto.
  - intros. now apply diff_ok_n.
  - apply gacc0_inv; auto.
Qed.

(* window(value=T).groupby(key).agg() with the repaired diff_loc, non-decreasing stamps *)
Theorem wgroupby_t_correct A h : lawful A h -> forall T batches, (1 <= T)%Z -> ssorted (concat batches) ->
  grun A false (WT true T) batches =
  map (fun p => RMap (pd_groupby (fun rows => fin A (h rows)) (window_t T p))) (prefixes batches).
Proof.
  intros L T batches HT Hs. unfold grun, prefixes. rewrite map_map.
  rewrite (grun_from_spec A h L (WT true T) (window_t T) ssorted) with (pre := []); auto.
  - apply ssorted_prefix.
  - intros. now apply diff_loc_spec.
  - apply gacc0_inv; auto.
Qed.

(* keys of the emitted result = the distinct keys present in the window, sorted (vanish, re-enter) *)
Definition res_keys (r : res) : list Z := match r with RMap m => map fst m | _ => [] end.
Theorem wgroupby_keys A h : lawful A h -> forall N batches,
  map res_keys (grun A false (WN N) batches) = map (fun p => skeys (window_n N p)) (prefixes batches).
Proof.
  intros L N batches. rewrite (wgroupby_n_correct A h L). rewrite map_map. apply map_ext. intros p. simpl.
  unfold pd_groupby. rewrite map_map. simpl. apply map_id.
Qed.
Theorem wgroupby_keys_t A h : lawful A h -> forall T batches, (1 <= T)%Z -> ssorted (concat batches) ->
  map res_keys (grun A false (WT true T) batches) = map (fun p => skeys (window_t T p)) (prefixes batches).
Proof.
  intros L T batches HT Hs. rewrite (wgroupby_t_correct A h L T batches HT Hs). rewrite map_map. apply map_ext. intros p.
  simpl. unfold pd_groupby. rewrite map_map. simpl. apply map_id.
Qed.

(* ------------------------------------------------------------------------------------------------ *)
(* diff_align: a streaming grouper (second zipped stream, `window.groupby(window.key)`) is decayed in step  *)
(* with the frames, so it behaves exactly like a column grouper — row-count windows                          *)
(* ------------------------------------------------------------------------------------------------ *)
Definition K (dfs : list frame) : list (list Z) := map (map key) dfs.

Lemma popn_app {B} (a b : list B) : popn (length a) (a ++ b) = (a, b).
Proof. induction a as [|x a IH]; simpl; auto. now rewrite IH. Qed.

Lemma popn_app' {B} n (a b : list B) : length a = n -> popn n (a ++ b) = (a, b).
Proof. intros <-. apply popn_app. Qed.

Lemma rekey_self f : rekey f (map key f) = f.
Proof. induction f as [|r f IH]; simpl; auto. rewrite IH. destruct r; reflexivity. Qed.
Lemma rekey_zip_self old : map (fun og => rekey (fst og) (snd og)) (zip old (K old)) = old.
Proof. induction old as [|o t IH]; simpl; auto. now rewrite rekey_self, IH. Qed.

Definition shape (dfs1 dfs' old : list frame) : Prop :=
  (dfs1 = old ++ dfs') \/
  (exists pre d rest m, 0 < m < length d /\ dfs1 = pre ++ d :: rest /\ dfs' = skipn m d :: rest /\ old = pre ++ [firstn m d]).

Lemma drop_front_shape : forall dfs n, n <= total_len dfs ->
  shape dfs (fst (drop_front dfs n)) (snd (drop_front dfs n)).
Proof.
  unfold total_len. induction dfs as [|d rest IH]; intros n Hn.
  - destruct n; simpl in *; [left; reflexivity|lia].
  - destruct (Nat.eq_dec n 0) as [->|Hn0]; [left; reflexivity|].
    rewrite drop_front_cons by lia. cbn [concat] in Hn. rewrite app_length in Hn.
    destruct (Nat.leb_spec (length d) n) as [Hle|Hgt]; cbn [fst snd].
    + destruct (IH (n - length d) ltac:(lia)) as [E|(pre & d0 & rest0 & m & Hm & E1 & E2 & E3)].
      * left. simpl. now rewrite <- E.
      * right. exists (d :: pre), d0, rest0, m. split; auto. split; [simpl; now rewrite <- E1|]. split; auto.
        simpl. now rewrite <- E3.
    + right. exists [], d, rest, n. simpl. repeat split; auto; lia.
Qed.

Lemma diff_align_shape dfs1 dfs' old : shape dfs1 dfs' old -> diff_align dfs' (K dfs1) = (K old, K dfs').
Proof.
  unfold diff_align, K. intros [E|(pre & d & rest & m & Hm & E1 & E2 & E3)].
  - subst dfs1. rewrite map_app.
    rewrite (popn_app' _ (map (map key) old) (map (map key) dfs')) by (rewrite !app_length, !map_length; unfold frame; lia).
    destruct dfs' as [|d t]; simpl; auto.
    rewrite map_length, Nat.sub_diag. reflexivity.
  - subst dfs1 dfs' old. rewrite !map_app. cbn [map].
    rewrite (popn_app' _ (map (map key) pre) (map key d :: map (map key) rest))
      by (rewrite !app_length; cbn [length]; rewrite !map_length; unfold frame; lia).
    rewrite map_length, skipn_length.
    destruct (Nat.eqb_spec (length d - (length d - m)) 0) as [E|E]; [lia|].
    replace (length d - (length d - m)) with m by lia.
    now rewrite firstn_map, skipn_map.
Qed.

Lemma diff_iloc_shape N (dfs : list frame) (new : frame) :
  shape (if isnil new then dfs else dfs ++ [new]) (fst (diff_iloc N dfs new)) (snd (diff_iloc N dfs new)).
Proof.
  unfold diff_iloc. set (dfs1 := if isnil new then dfs else dfs ++ [new]).
  destruct (isnil dfs1); [left; reflexivity|]. apply drop_front_shape. lia.
Qed.

Definition same_acc {A} (s c : gacc A) : Prop :=
  g_dfs s = g_dfs c /\ g_state s = g_state c /\ g_size s = g_size c /\ g_groupers s = K (g_dfs s).

Lemma gstep_streaming_n A N (s c : gacc A) new : same_acc s c ->
  snd (gstep A true (WN N) s new) = snd (gstep A false (WN N) c new) /\
  same_acc (fst (gstep A true (WN N) s new)) (fst (gstep A false (WN N) c new)).
Proof.
  intros (E1 & E2 & E3 & E4). unfold gstep. cbn [diff]. rewrite <- E1, <- E2, <- E3, E4.
  pose proof (diff_iloc_shape N (g_dfs s) new) as Sh.
  destruct (diff_iloc N (g_dfs s) new) as [dfs' old]. cbn [fst snd] in Sh.
  assert (Eg : (if isnil (map key new) then K (g_dfs s) else K (g_dfs s) ++ [map key new]) =
               K (if isnil new then g_dfs s else g_dfs s ++ [new])).
  { unfold K. destruct new; simpl; auto. now rewrite map_app. }
  rewrite Eg, (diff_align_shape _ _ _ Sh), rekey_zip_self.
  cbn [fst snd]. split; [reflexivity|]. unfold same_acc. cbn [g_dfs g_state g_size g_groupers]. auto.
Qed.

Theorem wgroupby_streaming_n A N : forall batches,
  grun A true (WN N) batches = grun A false (WN N) batches.
Proof.
  intros batches. unfold grun.
  assert (G : forall bs s c, same_acc s c -> grun_from A true (WN N) s bs = grun_from A false (WN N) c bs).
  { induction bs as [|b t IH]; intros s c Hs; [reflexivity|]. cbn [grun_from].
    destruct (gstep_streaming_n A N s c b Hs) as [R S'].
    destruct (gstep A true (WN N) s b) as [s' r1]. destruct (gstep A false (WN N) c b) as [c' r2].
    cbn [fst snd] in *. subst r2. f_equal. now apply IH. }
  apply G. unfold same_acc, gacc0. simpl. auto.
Qed.
