(* DF/Agg.v — the reduction Aggregation objects of streamz/dataframe/aggregations.py (Sum, Mean, Count, Size,
   Var: lines 15-130), `accumulator` (407-420), `window_accumulator` restricted to `diff_expanding`
   (248-252, 280-320), and the wiring `Frame.aggregate -> accumulate_partitions -> Stream.accumulate(func,
   start=None, returns_state=True)` (dataframe/core.py 53-92, collection.py 188-209, core.py 994-1026).

   The Python classes branch on `isinstance(x, Number)`: a streaming *Series* yields scalar statistics (scalar
   path, `Ser c`), a streaming *DataFrame* yields one statistic per column, held in a pandas Series (vector
   path, `Fr cs`).  Both paths are transcribed separately because they differ (Mean's `counts = 1` branch and
   Python-int division by zero exist only on the scalar path).

   `variant` selects as-found or repaired behaviour for the two defects found:
     mean_hack  = true : Mean.on_new/on_old replace a scalar count of 0 by 1 AND store it back into the state;
     var_raises = true : Var._compute_result divides Python ints 0/0 (state fresh from `initial`, empty batch)
                         and raises ZeroDivisionError.
   An emission of `None` models "the call raised": Stream.accumulate re-raises before assigning self.state. *)
From Coq Require Import List ZArith QArith Qcanon Bool Lia.
From SZ Require Import DF.Frames.
Import ListNotations.
Local Open Scope Qc_scope.

Record variant := mkvariant { mean_hack : bool; var_raises : bool }.
Definition as_found : variant := mkvariant true true.
Definition repaired : variant := mkvariant false false.

Record aggregation (S R : Type) := mkagg {
  initial : frame -> S;
  on_new : S -> frame -> option (S * R);
  on_old : S -> frame -> option (S * R) }.
Arguments initial {S R}. Arguments on_new {S R}. Arguments on_old {S R}. Arguments mkagg {S R}.

Definition nonempty {A} (l : list A) : bool := match l with [] => false | _ => true end.   (* `if len(new):` *)

Fixpoint zipw {A B C} (f : A -> B -> C) (a : list A) (b : list B) : list C :=
  match a, b with x :: a', y :: b' => f x y :: zipw f a' b' | _, _ => [] end.

Definition dup {A} (a : A) : A * A := (a, a).

(* ------------------------------------------------------------------ scalar path: streaming Series (column c) *)
Section Scalar.
  Variable c : nat.
  Let s (f : frame) := col c f.

  Definition sum_s : aggregation Qc Qc := mkagg
    (fun _ => 0)                                                      (* isinstance(result, Number): result = 0 *)
    (fun acc new => Some (dup (if nonempty new then acc + psum (s new) else acc)))
    (fun acc old => Some (dup (acc - psum (s old)))).

  Definition count_s : aggregation Z Z := mkagg
    (fun _ => 0%Z)                                                    (* new.iloc[:0].count() *)
    (fun acc new => Some (dup (acc + pcount (s new))%Z))
    (fun acc old => Some (dup (acc - pcount (s old))%Z)).

  Definition size_s : aggregation Z Z := mkagg
    (fun _ => 0%Z)
    (fun acc new => Some (dup (acc + psize (s new))%Z))
    (fun acc old => Some (dup (acc - psize (s old))%Z)).

  Definition mean_finish (v : variant) (totals : Qc) (counts : Z) : (Qc * Z) * option Qc :=
    if mean_hack v then
      let counts := if (counts =? 0)%Z then 1%Z else counts in       (* counts = 1, stored back into the state *)
      ((totals, counts), Some (totals / zq counts))
    else ((totals, counts), qdivz totals counts).
  Definition mean_s (v : variant) : aggregation (Qc * Z) (option Qc) := mkagg
    (fun _ => (0, 0%Z))
    (fun acc new => let '(t, n) := acc in
       let '(t, n) := if nonempty new then (t + psum (s new), (n + pcount (s new))%Z) else (t, n) in
       Some (mean_finish v t n))
    (fun acc old => let '(t, n) := acc in
       let '(t, n) := if nonempty old then (t - psum (s old), (n - pcount (s old))%Z) else (t, n) in
       Some (mean_finish v t n)).

  (* Var._compute_result on numbers.  n = 0: 0/0 -> NaN (numpy) or ZeroDivisionError (Python ints).
     n = ddof <> 0: result*n/0 is NaN when result = 0 -- always the case on reachable states (n = 1 value) --
     and +-inf otherwise; the model says NaN (None) there. *)
  Definition compute_result (ddof : Z) (x x2 : Qc) (n : Z) : option Qc :=
    if (n =? 0)%Z then None else
    let r := x2 / zq n - (x / zq n) * (x / zq n) in
    if (ddof =? 0)%Z then Some r else
    if (n - ddof =? 0)%Z then None else Some (r * zq n / zq (n - ddof)).

  (* state (x, x2, n, py): py = the three are still the Python ints produced by `initial` *)
  Definition var_state := (Qc * Qc * Z * bool)%type.
  Definition var_finish (v : variant) (ddof : Z) (st : var_state) : option (var_state * option Qc) :=
    let '(x, x2, n, py) := st in
    if andb (var_raises v) (andb py (n =? 0)%Z) then None          (* ZeroDivisionError *)
    else Some (st, compute_result ddof x x2 n).
  Definition var_s (v : variant) (ddof : Z) : aggregation var_state (option Qc) := mkagg
    (fun _ => (0, 0, 0%Z, true))
    (fun acc new => let '(x, x2, n, py) := acc in
       var_finish v ddof (if nonempty new then (x + psum (s new), x2 + psumsq (s new), (n + pcount (s new))%Z, false)
                          else acc))
    (fun acc old => let '(x, x2, n, py) := acc in
       var_finish v ddof (if nonempty old then (x - psum (s old), x2 - psumsq (s old), (n - pcount (s old))%Z, false)
                          else acc)).
End Scalar.

(* ------------------------------------------------------------------ vector path: streaming DataFrame (columns cs) *)
Section Vector.
  Variable cs : list nat.
  Definition per {A} (g : series -> A) (f : frame) : list A := map (fun c => g (col c f)) cs.

  Definition sum_v : aggregation (list Qc) (list Qc) := mkagg
    (fun _ => map (fun _ => 0) cs)                                    (* result[:] = 0 *)
    (fun acc new => Some (dup (if nonempty new then zipw Qcplus acc (per psum new) else acc)))
    (fun acc old => Some (dup (zipw Qcminus acc (per psum old)))).

  Definition count_v : aggregation (list Z) (list Z) := mkagg
    (fun _ => map (fun _ => 0%Z) cs)
    (fun acc new => Some (dup (zipw Z.add acc (per pcount new))))
    (fun acc old => Some (dup (zipw Z.sub acc (per pcount old)))).

  (* DataFrame.size = rows * columns, a plain number *)
  Definition fsize (f : frame) : Z := (Z.of_nat (length f) * Z.of_nat (length cs))%Z.
  Definition size_v : aggregation Z Z := mkagg
    (fun _ => 0%Z)
    (fun acc new => Some (dup (acc + fsize new)%Z))
    (fun acc old => Some (dup (acc - fsize old)%Z)).

  (* counts is a Series: no `counts = 1` branch; totals / counts gives NaN per column where counts = 0 *)
  Definition mean_v : aggregation (list Qc * list Z) (list (option Qc)) := mkagg
    (fun _ => (map (fun _ => 0) cs, map (fun _ => 0%Z) cs))
    (fun acc new => let '(t, n) := acc in
       let '(t, n) := if nonempty new then (zipw Qcplus t (per psum new), zipw Z.add n (per pcount new)) else (t, n) in
       Some ((t, n), zipw qdivz t n))
    (fun acc old => let '(t, n) := acc in
       let '(t, n) := if nonempty old then (zipw Qcminus t (per psum old), zipw Z.sub n (per pcount old)) else (t, n) in
       Some ((t, n), zipw qdivz t n)).

  Definition zipw3 {A B C D} (f : A -> B -> C -> D) (a : list A) (b : list B) (c : list C) : list D :=
    zipw (fun ab c => f (fst ab) (snd ab) c) (zipw pair a b) c.
  Definition var_v (ddof : Z) : aggregation (list Qc * list Qc * list Z) (list (option Qc)) := mkagg
    (fun _ => (map (fun _ => 0) cs, map (fun _ => 0) cs, map (fun _ => 0%Z) cs))
    (fun acc new => let '(x, x2, n) := acc in
       let '(x, x2, n) := if nonempty new
         then (zipw Qcplus x (per psum new), zipw Qcplus x2 (per psumsq new), zipw Z.add n (per pcount new)) else (x, x2, n) in
       Some ((x, x2, n), zipw3 (compute_result ddof) x x2 n))
    (fun acc old => let '(x, x2, n) := acc in
       let '(x, x2, n) := if nonempty old
         then (zipw Qcminus x (per psum old), zipw Qcminus x2 (per psumsq old), zipw Z.sub n (per pcount old)) else (x, x2, n) in
       Some ((x, x2, n), zipw3 (compute_result ddof) x x2 n)).
End Vector.

(* ------------------------------------------------------------------ the accumulate node and the binary operators *)
Section Accumulate.
  Context {S X R : Type}.
  (* func(state, x) with state = None for the `start=None` sentinel; result None = func raised *)
  Variable func : option S -> X -> option (S * R).
  (* Stream.accumulate(func, start=start, returns_state=True[, with_state=True]).update, folded over the inputs.
     `start` is never `no_default` here: Frame.aggregate / Window.aggregate / GroupBy._accumulate always pass it. *)
  Fixpoint run (st : option S) (xs : list X) : list (option (S * R)) :=
    match xs with
    | [] => []
    | x :: t => match func st x with
                | None => None :: run st t
                | Some (s, r) => Some (s, r) :: run (Some s) t
                end
    end.
End Accumulate.

(* aggregations.accumulator *)
Definition accumulator {S R} (agg : aggregation S R) (acc : option S) (new : frame) : option (S * R) :=
  on_new agg (match acc with None => initial agg new | Some a => a end) new.

(* aggregations.window_accumulator with diff = diff_expanding (so `old` = []); state = {'dfs', 'state'} *)
Definition window_accumulator_expanding {S R} (agg : aggregation S R) (acc : option (list frame * S)) (new : frame)
  : option ((list frame * S) * R) :=
  let '(dfs, state) := match acc with None => ([], initial agg new) | Some a => a end in
  let dfs := if nonempty new then dfs ++ [new] else dfs in
  match on_new agg state new with
  | None => None
  | Some (state, result) => Some ((dfs, state), result)
  end.

(* what the sink sees: the result after each batch (None = that emit raised) *)
Definition results {S R} (l : list (option (S * R))) : list (option R) := map (option_map snd) l.
Definition states {S R} (l : list (option (S * R))) : list (option S) := map (option_map fst) l.
(* value emitted after the k-th batch (k = 1, 2, ...) *)
Definition emitted {S R} (l : list (option (S * R))) (k : nat) : option R :=
  match nth_error l (k - 1) with Some (Some (_, r)) => Some r | _ => None end.
