(* DF/RollingProofs.v — C11: what the accumulators emit batch by batch, taken together, is what pandas computes in one
   pass over the concatenated data; no hypothesis on batch sizes (empty batches, batches shorter than the window). *)
From Coq Require Import List ZArith QArith Qcanon Bool Lia.
From SZ Require Import DF.Window DF.WindowProofs DF.Rolling.
Import ListNotations.
Close Scope Qc_scope. Close Scope Q_scope. Open Scope nat_scope.

(* ---------- lastn ---------- *)
Lemma lastn_lastn {A} m K (l : list A) : m <= K -> lastn m (lastn K l) = lastn m l.
Proof.
  intros H. unfold lastn. rewrite skipn_length, skipn_skipn'. f_equal. lia.
Qed.
Lemma lastn_app_r {A} k (a b : list A) : lastn (k + length b) (a ++ b) = lastn k a ++ b.
Proof.
  unfold lastn. rewrite app_length, skipn_app.
  replace (length a + length b - (k + length b)) with (length a - k) by lia.
  replace (length a - k - length a) with 0 by lia. reflexivity.
Qed.
Lemma lastn_all {A} k (l : list A) : length l <= k -> lastn k l = l.
Proof. intros H. unfold lastn. replace (length l - k) with 0 by lia. reflexivity. Qed.
Lemma lastn_length {A} k (l : list A) : length (lastn k l) <= k.
Proof. unfold lastn. rewrite skipn_length. lia. Qed.
Lemma lastn_carry {A} m k (a b : list A) : m <= k + length b -> lastn m (lastn k a ++ b) = lastn m (a ++ b).
Proof.
  intros H. rewrite <- (lastn_lastn m (k + length b) (lastn k a ++ b)) by auto.
  rewrite <- (lastn_lastn m (k + length b) (a ++ b)) by auto.
  rewrite !lastn_app_r. rewrite (lastn_all k (lastn k a)) by apply lastn_length. reflexivity.
Qed.

(* ---------- rolling(window rows) ---------- *)
Section RollInt.
Variable w : nat.
Variable op : wop.

Lemma rolling_from_app : forall a pre b,
  rolling_from w op pre (a ++ b) = rolling_from w op pre a ++ rolling_from w op (pre ++ a) b.
Proof.
  induction a as [|x a IH]; intros pre b; simpl.
  - now rewrite app_nil_r.
  - rewrite IH. rewrite <- app_assoc. reflexivity.
Qed.
Lemma rolling_from_length : forall l pre, length (rolling_from w op pre l) = length l.
Proof. induction l; intros; simpl; auto. Qed.

(* the result on new rows needs only the last w-1 (or more) earlier rows *)
Lemma rolling_from_carry : forall l pre k, w - 1 <= k ->
  rolling_from w op pre l = rolling_from w op (lastn k pre) l.
Proof.
  induction l as [|x t IH]; intros pre k Hk; simpl; auto.
  rewrite (lastn_carry w k pre [x]) by (simpl; lia). f_equal.
  rewrite (IH (pre ++ [x]) k Hk), (IH (lastn k pre ++ [x]) k Hk).
  now rewrite (lastn_carry k k pre [x]) by (simpl; lia).
Qed.

Lemma roll_step_spec pre new :
  roll_step w op (lastn w pre) new = (lastn w (pre ++ new), rolling_from w op pre new).
Proof.
  unfold roll_step, pd_rolling. f_equal.
  - apply lastn_app_lastn.
  - rewrite rolling_from_app. simpl.
    rewrite skipn_app, rolling_from_length, Nat.sub_diag. simpl.
    rewrite skipn_all2 by (rewrite rolling_from_length; lia). simpl.
    symmetry. apply rolling_from_carry. lia.
Qed.

Lemma roll_run_from : forall batches pre,
  concat (run_steps (roll_step w op) (lastn w pre) batches) = rolling_from w op pre (concat batches).
Proof.
  induction batches as [|b t IH]; intros pre; [reflexivity|]. cbn [run_steps concat].
  rewrite roll_step_spec. cbn [concat]. rewrite IH, rolling_from_app. reflexivity.
Qed.

Theorem rolling_split_indep : forall batches,
  concat (roll_run w op batches) = pd_rolling w op (concat batches).
Proof. intros. unfold roll_run, pd_rolling. apply (roll_run_from batches []). Qed.

(* every emitted batch has one value per row of that batch *)
Lemma roll_run_shape : forall batches acc, map (@length _) (run_steps (roll_step w op) acc batches) = map (@length _) batches.
Proof.
  induction batches as [|b t IH]; intros acc; [reflexivity|]. cbn [run_steps]. unfold roll_step at 1. cbn [map]. f_equal; auto.
  unfold pd_rolling. rewrite skipn_length, rolling_from_length, app_length. lia.
Qed.
End RollInt.

(* ---------- rolling(time window) ---------- *)
Section RollTime.
Variable T : Z.
Variable op : wop.
Hypothesis HT : (0 <= T)%Z.

Lemma trolling_from_app : forall a pre b,
  trolling_from T op pre (a ++ b) = trolling_from T op pre a ++ trolling_from T op (pre ++ a) b.
Proof.
  induction a as [|x a IH]; intros pre b; simpl.
  - now rewrite app_nil_r.
  - rewrite IH. rewrite <- app_assoc. reflexivity.
Qed.
Lemma trolling_from_length : forall l pre, length (trolling_from T op pre l) = length l.
Proof. induction l; intros; simpl; auto. Qed.

(* rows older than c can be forgotten when every later row x has stamp x - T >= c *)
Lemma trolling_from_carry : forall l pre c, (forall x, In x l -> (c <= stamp x - T)%Z) ->
  trolling_from T op pre l = trolling_from T op (filter (fun r => (c <=? stamp r)%Z) pre) l.
Proof.
  induction l as [|x t IH]; intros pre c H; simpl; auto.
  assert (Hx : (c <= stamp x - T)%Z) by (apply H; simpl; auto).
  f_equal.
  - f_equal. rewrite !filter_app. f_equal. symmetry. apply filter_filter_imp.
    intros r _ Hr. apply Z.ltb_lt in Hr. apply Z.leb_le. lia.
  - rewrite (IH (pre ++ [x]) c) by (intros; apply H; simpl; auto).
    rewrite filter_app. simpl. destruct (Z.leb_spec c (stamp x)); [reflexivity|lia].
Qed.

Definition tcarry (pre : frame) : frame := filter (fun r => (fmax pre - T <=? stamp r)%Z) pre.

Lemma tcarry_keeps_newest pre r : In r pre -> stamp r = fmax pre -> In r (tcarry pre).
Proof. intros Hr E. apply filter_In. split; auto. apply Z.leb_le. lia. Qed.

Lemma troll_step_spec pre new : ssorted (pre ++ new) ->
  troll_step T op (tcarry pre) new = (tcarry (pre ++ new), trolling_from T op pre new).
Proof.
  intros Hs. unfold troll_step, pd_trolling. f_equal.
  - set (df := tcarry pre ++ new).
    assert (E : (if isnil df then df else filter (fun r => (fmax df - T <=? stamp r)%Z) df) =
                filter (fun r => (fmax df - T <=? stamp r)%Z) df) by (destruct df; reflexivity).
    rewrite E. clear E.
    destruct (pre ++ new) as [|r0 l0] eqn:Epn.
    { apply app_eq_nil in Epn as [-> ->]. reflexivity. }
    assert (Hpn : pre ++ new <> []) by (rewrite Epn; discriminate). rewrite <- Epn in *. clear Epn r0 l0.
    assert (Hmx : fmax df = fmax (pre ++ new)).
    { destruct (fmax_spec (pre ++ new) Hpn) as (U2 & r2 & R2 & E2).
      assert (Hin : In r2 df).
      { unfold df. apply in_app_or in R2 as [R2|R2]; apply in_or_app; auto. left.
        assert (Hp : pre <> []) by (intro Z0; subst; destruct R2).
        destruct (fmax_spec pre Hp) as (U3 & r3 & R3 & E3).
        apply filter_In. split; auto. apply Z.leb_le.
        specialize (U2 r3 (in_or_app _ _ _ (or_introl R3))). lia. }
      assert (Hdf : df <> []) by (intro Z0; rewrite Z0 in Hin; destruct Hin).
      destruct (fmax_spec df Hdf) as (U1 & r1 & R1 & E1).
      apply Z.le_antisymm.
      - rewrite <- E1. apply U2. unfold df in R1. apply in_app_or in R1 as [R1|R1]; apply in_or_app; auto.
        apply filter_In in R1. tauto.
      - rewrite <- E2. now apply U1. }
    rewrite Hmx. unfold df, tcarry. rewrite !filter_app. f_equal. apply filter_filter_imp.
    intros x Hx Hp. apply Z.leb_le in Hp. apply Z.leb_le.
    assert (Hp0 : pre <> []) by (intro Z0; subst; destruct Hx).
    destruct (fmax_spec pre Hp0) as (_ & r3 & R3 & E3).
    destruct (fmax_spec (pre ++ new) Hpn) as (U2 & _).
    specialize (U2 r3 (in_or_app _ _ _ (or_introl R3))). lia.
  - rewrite trolling_from_app. simpl.
    rewrite skipn_app, trolling_from_length, Nat.sub_diag. simpl.
    rewrite skipn_all2 by (rewrite trolling_from_length; lia). simpl.
    symmetry. destruct pre as [|p0 pt] eqn:Ep; [reflexivity|]. rewrite <- Ep in *.
    assert (Hp0 : pre <> []) by (rewrite Ep; discriminate).
    apply trolling_from_carry. intros x Hx.
    destruct (fmax_spec pre Hp0) as (_ & r3 & R3 & E3).
    apply ssorted_app in Hs as (_ & _ & S3). specialize (S3 r3 x R3 Hx). lia.
Qed.

Lemma troll_run_from : forall batches pre, ssorted (pre ++ concat batches) ->
  concat (run_steps (troll_step T op) (tcarry pre) batches) = trolling_from T op pre (concat batches).
Proof.
  induction batches as [|b t IH]; intros pre Hs; [reflexivity|]. cbn [run_steps concat] in *.
  rewrite app_assoc in Hs.
  rewrite troll_step_spec by (apply ssorted_app in Hs; tauto). cbn [concat].
  rewrite IH by auto. rewrite trolling_from_app. reflexivity.
Qed.

Theorem trolling_split_indep : forall batches, ssorted (concat batches) ->
  concat (troll_run T op batches) = pd_trolling T op (concat batches).
Proof. intros. unfold troll_run, pd_trolling. apply (troll_run_from batches []). assumption. Qed.
End RollTime.

(* ---------- cumulative ---------- *)
Section Cum.
Variable f : Qc -> Qc -> Qc.

Lemma last_valid_app : forall a b d, last_valid (a ++ b) d = last_valid b (last_valid a d).
Proof. induction a as [|[v|] a IH]; intros; simpl; auto. Qed.

Lemma cum_from_app : forall a r b,
  cum_from f r (a ++ b) = cum_from f r a ++ cum_from f (last_valid (cum_from f r a) r) b.
Proof.
  induction a as [|[v|] a IH]; intros r b; simpl; auto.
  - rewrite IH. reflexivity.
  - rewrite IH. reflexivity.
Qed.

Lemma cum_seed s new : pd_cum f (s :: new) = s :: cum_from f s new.
Proof. destruct s; reflexivity. Qed.

Definition run_of (pre : list (option Qc)) : option Qc := last_valid (pd_cum f pre) None.

(* the repaired accumulator carries the running value; an empty batch changes nothing *)
Definition CInv (state : option (option Qc)) (pre : list (option Qc)) : Prop :=
  match state with None => pre = [] | Some s => s = run_of pre end.

Lemma cum_step_spec state pre new : CInv state pre ->
  exists state', cum_step true f state new = (state', cum_from f (run_of pre) new) /\ CInv state' (pre ++ new).
Proof.
  intros I. destruct new as [|c new'].
  - exists state. simpl. split; auto. now rewrite app_nil_r.
  - unfold cum_step. cbv iota. set (new := c :: new').
    assert (Hrun : run_of (pre ++ new) = last_valid (cum_from f (run_of pre) new) (run_of pre)).
    { unfold run_of, pd_cum. now rewrite cum_from_app, last_valid_app. }
    destruct state as [s|]; simpl in I.
    + subst s. rewrite cum_seed. cbn [tl]. eexists. split; [reflexivity|]. simpl. rewrite Hrun.
      destruct (run_of pre); reflexivity.
    + subst pre. eexists. split; [reflexivity|]. simpl. reflexivity.
Qed.

Theorem cum_split_indep : forall batches, concat (cum_run true f batches) = pd_cum f (concat batches).
Proof.
  intros batches. unfold cum_run.
  assert (G : forall bs st pre, CInv st pre ->
    concat ((fix go st bs := match bs with [] => [] | b :: t => let '(st', r) := cum_step true f st b in r :: go st' t end) st bs)
    = cum_from f (run_of pre) (concat bs)).
  { induction bs as [|b t IH]; intros st pre I; [reflexivity|].
    destruct (cum_step_spec st pre b I) as (st' & E & I'). rewrite E. simpl.
    rewrite (IH st' (pre ++ b) I'). rewrite cum_from_app. f_equal. f_equal.
    unfold run_of, pd_cum. now rewrite cum_from_app, last_valid_app. }
  apply (G batches None []). reflexivity.
Qed.
End Cum.

(* as found: a batch ending with a NaN cell stores NaN as the carried row and the running value is lost *)
Definition oc (z : Z) : option Qc := Some (z2q z).
Theorem cum_nan_tail_refuted : exists batches, concat (cum_run false Qcplus batches) <> pd_cum Qcplus (concat batches).
Proof.
  exists [[oc 1; None]; [oc 3]]. intro H.
  apply (f_equal (fun l => match nth 2 l None with Some v => this v | None => 0%Q end)) in H. vm_compute in H. discriminate.
Qed.

(* ---------- ewm(com).mean() ---------- *)
Section Ewm.
Local Open Scope Qc_scope.
Variable q : Qc.
Hypothesis Hq : 0 <= q.

Definition num (p : list Qc) : Qc := horner q (rev p).
Definition den (p : list Qc) : Qc := horner q (map (fun _ => q1) (rev p)).

Lemma num_snoc p x : num (p ++ [x]) = x + q * num p.
Proof. unfold num. now rewrite rev_app_distr. Qed.
Lemma den_snoc p x : den (p ++ [x]) = 1 + q * den p.
Proof. unfold den. now rewrite rev_app_distr. Qed.

Lemma ge1_nonzero (d : Qc) : 1 <= d -> d <> 0.
Proof. intros H E. subst. apply Qcle_not_lt in H. apply H. reflexivity. Qed.
Lemma den_step_ge1 (d : Qc) : 1 <= d -> 1 <= 1 + q * d.
Proof.
  intros Hd.
  assert (H : 0 <= q * d).
  { assert (H0 : 0 * d <= q * d).
    { apply Qcmult_le_compat_r; auto. apply Qcle_trans with 1; auto. discriminate. }
    replace (0 * d) with 0 in H0 by ring. exact H0. }
  replace 1 with (1 + 0) at 1 by ring. apply Qcplus_le_compat; auto. apply Qcle_refl.
Qed.
Lemma den_ge1 : forall p, p <> [] -> 1 <= den p.
Proof.
  induction p as [|x p IH] using rev_ind; [congruence|]. intros _. rewrite den_snoc.
  destruct p as [|y p'].
  - unfold den. simpl. unfold q0. replace (1 + q * 0) with 1 by ring. apply Qcle_refl.
  - apply den_step_ge1. apply IH. destruct p'; discriminate.
Qed.

(* state after a non-empty prefix p *)
Definition EInv (p : list Qc) (r : ewres) (w : Qc) : Prop := r = EVal (pd_ewm q p) /\ w = den p.

Lemma ew_row_spec p r w x : p <> [] -> EInv p r w ->
  EInv (p ++ [x]) (fst (ew_row q (r, w) x)) (snd (ew_row q (r, w) x)).
Proof.
  intros Hp [-> ->]. unfold ew_row, EInv. cbn [fst snd]. unfold pd_ewm. fold (num p) (den p) (num (p ++ [x])) (den (p ++ [x])).
  rewrite num_snoc, den_snoc. unfold q1.
  pose proof (den_ge1 p Hp) as H1. pose proof (ge1_nonzero _ H1) as Hn. pose proof (ge1_nonzero _ (den_step_ge1 _ H1)) as Hn'.
  split; [f_equal; field; split; auto|ring].
Qed.

Lemma ew_fold_spec : forall t p r w, p <> [] -> EInv p r w ->
  EInv (p ++ t) (fst (fold_left (ew_row q) t (r, w))) (snd (fold_left (ew_row q) t (r, w))).
Proof.
  induction t as [|x t IH]; intros p r w Hp I; cbn [fold_left].
  - cbn [fst snd]. now rewrite app_nil_r.
  - replace (p ++ x :: t) with ((p ++ [x]) ++ t) by (rewrite <- app_assoc; reflexivity).
    pose proof (ew_row_spec p r w x Hp I) as I'. destruct (ew_row q (r, w) x) as [r' w']. cbn [fst snd] in I'.
    apply IH; [destruct p; discriminate|exact I'].
Qed.

Lemma EInv_single x : EInv [x] (EVal x) q1.
Proof.
  unfold EInv, pd_ewm, den. cbn [rev app map horner]. unfold q0, q1. split.
  - f_equal. field. replace (1 + q * 0) with 1 by ring. discriminate.
  - ring.
Qed.

(* accumulator state after prefix p *)
Definition AInv (acc : option ewstate) (p : list Qc) : Prop :=
  match p with
  | [] => acc = None \/ exists st, acc = Some st /\ ew_first st = true /\ ew_res st = EEmpty
  | _ => exists st, acc = Some st /\ ew_first st = false /\ EInv p (ew_res st) (ew_wt st)
  end.

Definition ewm_spec (p : list Qc) : ewres := match p with [] => EEmpty | _ => EVal (pd_ewm q p) end.

Lemma ew_step_spec acc p new : AInv acc p ->
  exists acc', ew_step true q acc new = (acc', ewm_spec (p ++ new)) /\ AInv acc' (p ++ new).
Proof.
  intros I. unfold ew_step.
  assert (Start : forall x t, exists st',
     (let '(r, w) := fold_left (ew_row q) t (EVal x, q1) in mkEw r w false) = st' /\
     ew_first st' = false /\ EInv (x :: t) (ew_res st') (ew_wt st')).
  { intros x t. pose proof (ew_fold_spec t [x] (EVal x) q1 ltac:(discriminate) (EInv_single x)) as H.
    destruct (fold_left (ew_row q) t (EVal x, q1)) as [r w]. eexists. split; [reflexivity|]. simpl in *. auto. }
  destruct p as [|p0 pt].
  - (* nothing seen so far *)
    simpl app.
    assert (E : ew_on_new true q (match acc with None => ew_initial new | Some s => s end) new =
                match new with [] => match acc with None => ew_initial new | Some s => s end
                | x :: t => let '(r, w) := fold_left (ew_row q) t (EVal x, q1) in mkEw r w false end).
    { destruct I as [->|(st & -> & F & R)].
      - destruct new as [|x t]; unfold ew_on_new, ew_initial; simpl; reflexivity.
      - unfold ew_on_new. rewrite F, R. simpl. reflexivity. }
    rewrite E. destruct new as [|x t].
    + destruct I as [->|(st & -> & F & R)].
      * eexists. split; [reflexivity|]. simpl. right. eexists. split; [reflexivity|]. simpl. auto.
      * eexists. split; [simpl; rewrite R; reflexivity|]. simpl. right. eexists. split; [reflexivity|]. auto.
    + destruct (Start x t) as (st' & E' & F' & I'). rewrite E'.
      eexists. split; [|simpl; eexists; split; [reflexivity|split; eauto]].
      simpl. destruct I' as [-> _]. reflexivity.
  - destruct I as (st & -> & F & I). set (p := p0 :: pt) in *.
    assert (Hp : p <> []) by discriminate.
    unfold ew_on_new. rewrite F. simpl andb. cbv iota.
    pose proof (ew_fold_spec new p (ew_res st) (ew_wt st) Hp I) as H.
    destruct (fold_left (ew_row q) new (ew_res st, ew_wt st)) as [r w]. simpl in H.
    eexists. split.
    + simpl. f_equal. destruct H as [-> _]. unfold ewm_spec. destruct (p ++ new) eqn:E; [|reflexivity].
      apply app_eq_nil in E as [E _]. congruence.
    + unfold AInv. destruct (p ++ new) eqn:E.
      * apply app_eq_nil in E as [E _]. congruence.
      * rewrite <- E. eexists. split; [reflexivity|]. simpl. auto.
Qed.

Fixpoint qprefixes_from (pre : list Qc) (batches : list (list Qc)) : list (list Qc) :=
  match batches with [] => [] | b :: t => (pre ++ b) :: qprefixes_from (pre ++ b) t end.

(* value after batch k = pandas' ewm mean at the last row of the first k batches (empty while no row was seen) *)
Theorem ewm_split_indep : forall batches,
  ewm_run true q batches = map ewm_spec (qprefixes_from [] batches).
Proof.
  intros batches. unfold ewm_run.
  assert (G : forall bs acc p, AInv acc p ->
    (fix go acc bs := match bs with [] => [] | b :: t => let '(acc', r) := ew_step true q acc b in r :: go acc' t end) acc bs
    = map ewm_spec (qprefixes_from p bs)).
  { induction bs as [|b t IH]; intros acc p I; [reflexivity|].
    destruct (ew_step_spec acc p b I) as (acc' & E & I'). rewrite E. simpl. f_equal. now apply IH. }
  apply (G batches None []). simpl. auto.
Qed.
End Ewm.

(* as found: an empty first batch leaves an empty Series as start value; every later result is empty *)
Theorem ewm_empty_first_refuted : exists q batches, (0 <= q)%Qc /\
  ewm_run false q batches <> map (ewm_spec q) (qprefixes_from [] batches).
Proof.
  exists (Q2Qc (1 # 2)), [[]; [z2q 2]]. split; [discriminate|]. intro H.
  apply (f_equal (fun l => match nth 1 l EEmpty with EEmpty => true | EVal _ => false end)) in H.
  vm_compute in H. discriminate.
Qed.

(* ---------- expanding(): window_accumulator with diff_expanding ---------- *)
Lemma expanding_from A h : lawful A h -> forall batches acc pre,
  Inv A h acc pre ->
  wrun_from A WE acc batches = map (fun k => RScal (fin A (h (pre ++ concat (firstn k batches))))) (seq 1 (length batches)).
Proof.
  intros L. induction batches as [|b t IH]; intros acc pre I; [reflexivity|].
  cbn [wrun_from length]. rewrite (prefixes_cons b t (fun p => RScal (fin A (h p)))).
  pose proof I as (Hs & Hd & Hne).
  set (dfs' := if isnil b then w_dfs acc else w_dfs acc ++ [b]).
  assert (E : concat dfs' = pre ++ b).
  { unfold dfs'. destruct b; cbn [isnil]; [now rewrite app_nil_r|].
    etransitivity; [apply (concat_snoc (w_dfs acc) (r :: b))|now rewrite Hd]. }
  destruct (wstep_spec A h WE acc pre b dfs' [] L I) as (acc' & Hw & I'); auto.
  - unfold dfs'. now apply dfs1_nonempty.
  - rewrite Hw, E in *. f_equal. now apply IH.
Qed.

Theorem expanding_split_indep A h : lawful A h -> forall batches,
  wrun A WE batches = map (fun p => RScal (fin A (h p))) (prefixes batches).
Proof.
  intros L batches. unfold wrun, prefixes. rewrite map_map.
  rewrite (expanding_from A h L batches (wacc0 A) []); [reflexivity|].
  unfold Inv, wacc0. simpl. repeat split; auto. apply (law_init A h L).
Qed.

(* ---------- the code as found, on the inputs where its defects do not bite ---------- *)
Section AsFound.
Variable f : Qc -> Qc -> Qc.

Lemma cum_from_nonnil r l : l <> [] -> cum_from f r l <> [].
Proof. destruct l as [|[v|] t]; simpl; congruence. Qed.

Lemma cum_last_valid : forall l r d v, last l None = Some v -> l <> [] ->
  last (cum_from f r l) None = last_valid (cum_from f r l) d.
Proof.
  induction l as [|c t IH]; intros r d v Hl Hne; [congruence|].
  destruct t as [|c2 t'].
  - simpl in Hl. subst c. reflexivity.
  - assert (Hl' : last (c2 :: t') None = Some v) by exact Hl.
    assert (Hne' : c2 :: t' <> []) by discriminate.
    destruct c as [x|].
    + set (r' := match r with Some a => f a x | None => x end).
      change (cum_from f r (Some x :: c2 :: t')) with (Some r' :: cum_from f (Some r') (c2 :: t')).
      pose proof (cum_from_nonnil (Some r') (c2 :: t') Hne') as Hnn.
      change (last_valid (Some r' :: cum_from f (Some r') (c2 :: t')) d)
        with (last_valid (cum_from f (Some r') (c2 :: t')) (Some r')).
      rewrite <- (IH (Some r') (Some r') v Hl' Hne').
      destruct (cum_from f (Some r') (c2 :: t')) eqn:E; [congruence|reflexivity].
    + change (cum_from f r (None :: c2 :: t')) with (None :: cum_from f r (c2 :: t')).
      pose proof (cum_from_nonnil r (c2 :: t') Hne') as Hnn.
      change (last_valid (None :: cum_from f r (c2 :: t')) d) with (last_valid (cum_from f r (c2 :: t')) d).
      rewrite <- (IH r d v Hl' Hne').
      destruct (cum_from f r (c2 :: t')) eqn:E; [congruence|reflexivity].
Qed.

Definition ends_valid (b : list (option Qc)) : Prop := b = [] \/ exists v, last b None = Some v.

Lemma cum_step_asfound state new : ends_valid new -> cum_step false f state new = cum_step true f state new.
Proof.
  intros [->|(v & Hv)]; [reflexivity|]. destruct new as [|c t]; [reflexivity|].
  unfold cum_step. cbv iota. f_equal. f_equal.
  destruct state as [s|].
  - apply (cum_last_valid (s :: c :: t) None None v); [exact Hv|discriminate].
  - apply (cum_last_valid (c :: t) None None v); [exact Hv|discriminate].
Qed.

(* cumulative results as found are batching-independent as long as no batch ends with a NaN cell *)
Theorem cum_split_indep_asfound : forall batches, Forall ends_valid batches ->
  concat (cum_run false f batches) = pd_cum f (concat batches).
Proof.
  intros batches H. rewrite <- cum_split_indep. f_equal. unfold cum_run.
  assert (G : forall bs st, Forall ends_valid bs ->
    (fix go st bs := match bs with [] => [] | b :: t => let '(st', r) := cum_step false f st b in r :: go st' t end) st bs =
    (fix go st bs := match bs with [] => [] | b :: t => let '(st', r) := cum_step true f st b in r :: go st' t end) st bs).
  { induction bs as [|b t IH]; intros st F; [reflexivity|]. inversion F; subst.
    rewrite cum_step_asfound by auto. destruct (cum_step true f st b). f_equal. now apply IH. }
  now apply G.
Qed.
End AsFound.

(* ewm as found is right whenever the first batch is not empty *)
Theorem ewm_split_indep_asfound : forall q, (0 <= q)%Qc -> forall x t rest,
  ewm_run false q ((x :: t) :: rest) = map (ewm_spec q) (qprefixes_from [] ((x :: t) :: rest)).
Proof.
  intros q Hq x t rest. rewrite <- (ewm_split_indep q Hq). unfold ewm_run.
  assert (G : forall bs st, ew_first st = false ->
    (fix go acc bs := match bs with [] => [] | b :: t => let '(acc', r) := ew_step false q acc b in r :: go acc' t end) (Some st) bs =
    (fix go acc bs := match bs with [] => [] | b :: t => let '(acc', r) := ew_step true q acc b in r :: go acc' t end) (Some st) bs).
  { induction bs as [|b t' IH]; intros st F; [reflexivity|].
    unfold ew_step at 1 3. unfold ew_on_new. rewrite F. simpl andb. cbv iota.
    destruct (fold_left (ew_row q) b (ew_res st, ew_wt st)) as [r w]. f_equal. now apply IH. }
  unfold ew_step at 1 3. unfold ew_on_new, ew_initial. simpl andb. cbv iota. cbn [ew_res ew_wt ew_first tl].
  destruct (fold_left (ew_row q) t (EVal x, q1)) as [r w]. f_equal. now apply G.
Qed.
